// Package bscsim is a Parlia (BSC proof-of-staked-authority) counterparty simulator: deterministic
// secp256k1 validator keys, header construction with the Parlia extra-data layout
// (32-byte vanity | 20-byte validator addresses on epoch headers | 65-byte seal), seal hashing and
// signing the way a BSC node does it, block hashing, and the turn / difficulty arithmetic a block
// producer uses. It imports teleport only for the protobuf value type the light client receives;
// none of the client's verification code is used here.
package bscsim

import (
	"bytes"
	"crypto/ecdsa"
	"math/big"
	"sort"

	"github.com/ethereum/go-ethereum/common"
	ethtypes "github.com/ethereum/go-ethereum/core/types"
	"github.com/ethereum/go-ethereum/crypto"
	"github.com/ethereum/go-ethereum/rlp"

	bsctypes "github.com/teleport-network/teleport/x/xibc/clients/light-clients/bsc/types"
	clienttypes "github.com/teleport-network/teleport/x/xibc/core/client/types"
)

const (
	ExtraVanity = 32
	ExtraSeal   = 65
	AddrLen     = 20
	MinGasLimit = 5000
	GasDivisor  = 256
	MaxGasLimit = uint64(0x7fffffffffffffff)
)

var (
	DiffInTurn = big.NewInt(2)
	DiffNoTurn = big.NewInt(1)
	// EmptyUncleHash = keccak256(rlp([]))
	EmptyUncleHash = ethtypes.EmptyUncleHash
)

// Key is one validator (or outsider) key.
type Key struct {
	Priv *ecdsa.PrivateKey
	Addr common.Address
}

// KeyFromSeed derives key number i from a drawn seed (keccak chain until a valid scalar comes out).
func KeyFromSeed(seed []byte, i int) Key {
	d := crypto.Keccak256(append(append([]byte("verif-bsc-key/"), seed...), byte(i), byte(i>>8)))
	for {
		k, err := crypto.ToECDSA(d)
		if err == nil {
			return Key{Priv: k, Addr: crypto.PubkeyToAddress(k.PublicKey)}
		}
		d = crypto.Keccak256(d)
	}
}

// Header is a BSC (pre-London Ethereum layout, 15 fields) block header.
type Header struct {
	ParentHash  common.Hash
	UncleHash   common.Hash
	Coinbase    common.Address
	Root        common.Hash
	TxHash      common.Hash
	ReceiptHash common.Hash
	Bloom       ethtypes.Bloom
	Difficulty  *big.Int
	Number      uint64
	GasLimit    uint64
	GasUsed     uint64
	Time        uint64
	Extra       []byte
	MixDigest   common.Hash
	Nonce       ethtypes.BlockNonce
}

// Copy returns a deep copy.
func (h *Header) Copy() *Header {
	c := *h
	c.Difficulty = new(big.Int).Set(h.Difficulty)
	c.Extra = append([]byte{}, h.Extra...)
	return &c
}

// Hash is the block hash: keccak256 of the RLP of the 15 header fields (go-ethereum's own header
// type does the encoding; BaseFee stays nil so exactly 15 fields are encoded).
func (h *Header) Hash() common.Hash {
	eh := &ethtypes.Header{
		ParentHash: h.ParentHash, UncleHash: h.UncleHash, Coinbase: h.Coinbase, Root: h.Root,
		TxHash: h.TxHash, ReceiptHash: h.ReceiptHash, Bloom: h.Bloom, Difficulty: h.Difficulty,
		Number: new(big.Int).SetUint64(h.Number), GasLimit: h.GasLimit, GasUsed: h.GasUsed, Time: h.Time,
		Extra: h.Extra, MixDigest: h.MixDigest, Nonce: h.Nonce,
	}
	return eh.Hash()
}

// SealHash is the hash a Parlia validator signs: keccak256(rlp([chainId, 15 fields with the last 65
// extra bytes removed])). Extra must be at least 65 bytes long.
func SealHash(h *Header, chainID uint64) common.Hash {
	bz, err := rlp.EncodeToBytes([]interface{}{
		new(big.Int).SetUint64(chainID),
		h.ParentHash, h.UncleHash, h.Coinbase, h.Root, h.TxHash, h.ReceiptHash, h.Bloom,
		h.Difficulty, new(big.Int).SetUint64(h.Number), h.GasLimit, h.GasUsed, h.Time,
		h.Extra[:len(h.Extra)-ExtraSeal],
		h.MixDigest, h.Nonce,
	})
	if err != nil {
		panic("HARNESS: bscsim seal hash: " + err.Error())
	}
	return crypto.Keccak256Hash(bz)
}

// BuildExtra lays out vanity | validator bytes | zero seal placeholder.
func BuildExtra(vanity [ExtraVanity]byte, validatorBytes []byte) []byte {
	out := make([]byte, 0, ExtraVanity+len(validatorBytes)+ExtraSeal)
	out = append(out, vanity[:]...)
	out = append(out, validatorBytes...)
	out = append(out, make([]byte, ExtraSeal)...)
	return out
}

// AddrBytes concatenates addresses (epoch header validator list).
func AddrBytes(list []common.Address) []byte {
	var out []byte
	for _, a := range list {
		out = append(out, a.Bytes()...)
	}
	return out
}

// Seal signs the header's seal hash with k and writes the 65-byte [R|S|V] signature into the
// last 65 bytes of Extra (which must already hold the placeholder).
func Seal(h *Header, k Key, chainID uint64) {
	sig, err := crypto.Sign(SealHash(h, chainID).Bytes(), k.Priv)
	if err != nil {
		panic("HARNESS: bscsim sign: " + err.Error())
	}
	copy(h.Extra[len(h.Extra)-ExtraSeal:], sig)
}

// ToProto converts to the message type the teleport BSC client consumes.
func (h *Header) ToProto() *bsctypes.Header {
	return &bsctypes.Header{
		ParentHash:  h.ParentHash.Bytes(),
		UncleHash:   h.UncleHash.Bytes(),
		Coinbase:    h.Coinbase.Bytes(),
		Root:        h.Root.Bytes(),
		TxHash:      h.TxHash.Bytes(),
		ReceiptHash: h.ReceiptHash.Bytes(),
		Bloom:       h.Bloom.Bytes(),
		Difficulty:  h.Difficulty.Bytes(),
		Height:      clienttypes.NewHeight(0, h.Number),
		GasLimit:    h.GasLimit,
		GasUsed:     h.GasUsed,
		Time:        h.Time,
		Extra:       append([]byte{}, h.Extra...),
		MixDigest:   h.MixDigest.Bytes(),
		Nonce:       h.Nonce[:],
	}
}

// Sorted returns the addresses in ascending byte order (Parlia's turn order).
func Sorted(list []common.Address) []common.Address {
	out := append([]common.Address{}, list...)
	sort.Slice(out, func(i, j int) bool { return bytes.Compare(out[i][:], out[j][:]) < 0 })
	return out
}

// InTurn says whether addr is the in-turn producer of block `number` under validator list vals.
func InTurn(vals []common.Address, number uint64, addr common.Address) bool {
	s := Sorted(vals)
	if len(s) == 0 {
		return false
	}
	return s[number%uint64(len(s))] == addr
}

// Contains reports membership.
func Contains(list []common.Address, a common.Address) bool {
	for _, x := range list {
		if x == a {
			return true
		}
	}
	return false
}
