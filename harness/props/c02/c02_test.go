// C02 — authenticity: only what the counterparty committed is received or acknowledged.
package c02

import (
	"bytes"
	"fmt"
	"sort"
	"strings"
	"testing"

	sdk "github.com/cosmos/cosmos-sdk/types"
	"pgregory.net/rapid"

	"github.com/teleport-network/teleport/x/xibc/core/host"
	packettypes "github.com/teleport-network/teleport/x/xibc/core/packet/types"

	"verif/harness/kit"
	"verif/harness/rec"
	"verif/harness/sim/bridge"
)

func TestMain(m *testing.M) { rec.Main(m) }

const rule = "rapid state machine over 2-3 real chains; at states where a receive or an acknowledgement is deliverable, 0-3 alterations are drawn from a catalogue " +
	"(packet: src, dst, sequence, sender, transfer data, call data, callback, fee option, other committed packet's bytes, re-encoding; proof: byte flip, truncation, extension, " +
	"proof of another key / of the ack path / of the commitment path, empty; height: other stored height, unstored, above latest, zero; ack: code, result, message, relayer, fee option, other packet's ack) " +
	"and the message is delivered; verdict by an independent reference (go-ethereum ABI + confio/ics23 + sha256 against the consensus root the client stored); " +
	"non-trivial = a case with >= 1 alteration (either flipping the reference verdict to invalid, or leaving it valid); distinct by (message kind, set of altered components, verdict, history depth bucket)"

type ctl struct {
	m     *bridge.Machine
	cases map[string]bool
	nt    bool
}

type alter struct {
	name string
}

// mutatePacket applies a field alteration to packet bytes (returns canonical bytes of the altered packet).
func mutatePacket(t *rapid.T, w *bridge.World, bz []byte, kind string, others [][]byte) []byte {
	p := kit.DecodePacket(bz)
	switch kind {
	case "pkt.src":
		p.SrcChain = rapid.SampledFrom([]string{bridge.TSSName, "other-chain", w.Chains[len(w.Chains)-1].ChainID, p.DstChain}).Draw(t, "src")
	case "pkt.dst":
		p.DstChain = rapid.SampledFrom([]string{bridge.TSSName, "other-chain", w.Chains[0].ChainID, p.SrcChain}).Draw(t, "dst")
	case "pkt.seq":
		d := rapid.SampledFrom([]int64{-1, 1, 2, 1 << 32}).Draw(t, "dseq")
		p.Sequence = uint64(int64(p.Sequence) + d)
	case "pkt.sender":
		p.Sender = strings.ToLower(w.Outsider.Addr.String())
	case "pkt.transfer":
		var td packettypes.TransferData
		if err := td.ABIDecode(p.TransferData); err == nil {
			switch rapid.IntRange(0, 2).Draw(t, "tdfield") {
			case 0:
				td.Receiver = strings.ToLower(w.Outsider.Addr.String())
			case 1:
				amt := append([]byte{}, td.Amount...)
				if len(amt) == 0 {
					amt = make([]byte, 32)
				}
				amt[len(amt)-2] ^= 0x01 // + or - 256
				td.Amount = amt
			default:
				td.Token = strings.ToLower(w.Outsider.Addr.String())
			}
			nb, err := td.ABIPack()
			kit.Must(err, "pack td")
			p.TransferData = nb
		} else {
			p.TransferData = append(append([]byte{}, p.TransferData...), 1)
		}
	case "pkt.calldata":
		p.CallData = append(append([]byte{}, p.CallData...), 0xfe)
	case "pkt.callback":
		p.CallbackAddress = strings.ToLower(w.Outsider.Addr.String())
	case "pkt.feeoption":
		p.FeeOption++
	case "pkt.swap":
		if len(others) > 0 {
			return others[rapid.IntRange(0, len(others)-1).Draw(t, "other")]
		}
	case "pkt.reencode":
		if alt := bridge.Reencode(bz, rapid.IntRange(0, 2).Draw(t, "enc")); alt != nil {
			return alt
		}
		return bz
	}
	out, err := p.ABIPack()
	kit.Must(err, "pack altered packet")
	return out
}

func mutateProof(t *rapid.T, proof []byte, kind string, alt map[string][]byte) []byte {
	switch kind {
	case "proof.flip":
		if len(proof) == 0 {
			return proof
		}
		cp := append([]byte{}, proof...)
		i := rapid.IntRange(0, len(cp)-1).Draw(t, "byte")
		cp[i] ^= byte(1 << rapid.IntRange(0, 7).Draw(t, "bit"))
		return cp
	case "proof.truncate":
		if len(proof) == 0 {
			return proof
		}
		return proof[:rapid.IntRange(0, len(proof)-1).Draw(t, "len")]
	case "proof.extend":
		return append(append([]byte{}, proof...), rapid.SliceOfN(rapid.Byte(), 1, 8).Draw(t, "tail")...)
	case "proof.empty":
		return []byte{}
	case "proof.otherseq", "proof.otherpath", "proof.absent":
		if a, ok := alt[kind]; ok {
			return a
		}
	}
	return proof
}

// deliverAltered draws alterations for a receive of p on its destination and judges the outcome.
func (c *ctl) recvAltered(t *rapid.T) {
	m := c.m
	w := m.W
	ps := m.Pending()
	if len(ps) == 0 {
		t.Skip("nothing deliverable")
	}
	p := ps[rapid.IntRange(0, len(ps)-1).Draw(t, "pkt")]
	hs := w.ProofHeightsFor(p.DstIdx, p.SrcIdx, p.SentAt)
	h := hs[rapid.IntRange(0, len(hs)-1).Draw(t, "height")]
	rel := w.Rels[rapid.IntRange(0, 1).Draw(t, "rel")]
	msg := w.RecvMsg(p, p.Bz, h, rel.Acc)
	src := w.Chains[p.SrcIdx]
	// alternative proofs from the same source state
	alt := map[string][]byte{}
	var others [][]byte
	for _, q := range w.Pkts {
		if q != p && q.SrcIdx == p.SrcIdx && q.SentAt <= h-1 && !q.Acked {
			others = append(others, q.Bz)
			if pr, _, ok := src.QueryProof(host.PacketCommitmentKey(q.T.Src, q.T.Dst, q.T.Seq), h); ok {
				alt["proof.otherseq"] = pr
			}
		}
	}
	if pr, _, ok := src.QueryProof(host.PacketAcknowledgementKey(p.T.Src, p.T.Dst, p.T.Seq), h); ok { // non-existence proof, if the codec accepts it
		alt["proof.absent"] = pr
	}
	for _, q := range w.Pkts { // an ack stored on the source chain (it was destination of q)
		if q.Received && q.DstIdx == p.SrcIdx && q.RecvAt <= h-1 {
			if pr, _, ok := src.QueryProof(host.PacketAcknowledgementKey(q.T.Src, q.T.Dst, q.T.Seq), h); ok {
				alt["proof.otherpath"] = pr
			}
		}
	}
	k := rapid.SampledFrom([]int{0, 1, 1, 1, 2, 2, 3}).Draw(t, "k")
	var applied []string
	catalogue := []string{"pkt.src", "pkt.dst", "pkt.seq", "pkt.sender", "pkt.transfer", "pkt.calldata", "pkt.callback", "pkt.feeoption", "pkt.swap", "pkt.reencode",
		"proof.flip", "proof.truncate", "proof.extend", "proof.empty", "proof.otherseq", "proof.otherpath", "proof.absent",
		"height.other", "height.unstored", "height.above", "height.zero"}
	for i := 0; i < k; i++ {
		a := rapid.SampledFrom(catalogue).Draw(t, "alteration")
		switch {
		case strings.HasPrefix(a, "pkt."):
			msg.Packet = mutatePacket(t, w, msg.Packet, a, others)
		case strings.HasPrefix(a, "proof."):
			msg.ProofCommitment = mutateProof(t, msg.ProofCommitment, a, alt)
		case a == "height.other":
			all := w.ConsensusHeights(p.DstIdx, p.SrcIdx)
			msg.ProofHeight = bridge.H(msg.ProofHeight.RevisionNumber, uint64(all[rapid.IntRange(0, len(all)-1).Draw(t, "h")]))
		case a == "height.unstored":
			msg.ProofHeight = bridge.H(msg.ProofHeight.RevisionNumber, msg.ProofHeight.RevisionHeight+uint64(rapid.IntRange(1, 3).Draw(t, "dh"))*1000)
		case a == "height.above":
			msg.ProofHeight = bridge.H(msg.ProofHeight.RevisionNumber, uint64(w.Chains[p.DstIdx].ClientHeight(src.ChainID)+1))
		case a == "height.zero":
			msg.ProofHeight = bridge.H(0, 0)
		}
		applied = append(applied, a)
	}
	refErr := w.RefRecvValid(p.DstIdx, msg)
	// which triple would be accepted
	rp, _, derr := bridge.RefDecodePacket(msg.Packet)
	o := w.DeliverDumped(p.DstIdx, rel, msg)
	c.judge("recv", applied, refErr, o, func() {
		if derr != nil {
			kit.Failf("accepted packet does not decode")
		}
		tr := bridge.Triple{Src: rp.SrcChain, Dst: rp.DstChain, Seq: rp.Sequence}
		q := w.ByTriple(tr)
		if q == nil {
			m.Failf("receive accepted for triple %s that no chain ever sent", tr)
		}
		w.NoteRecv(p.DstIdx, q, o.Res, rel)
		m.Accepted++
	}, func() bool { // replay?
		if derr != nil {
			return false
		}
		return w.Accepted[p.DstIdx][bridge.Triple{Src: rp.SrcChain, Dst: rp.DstChain, Seq: rp.Sequence}]
	}())
	m.Log("recvAltered", fmt.Sprintf("%s %v", p.T, applied), fmt.Sprintf("ref=%v ok=%v", refErr == nil, o.Res.OK()))
}

func (c *ctl) judge(kind string, applied []string, refErr error, o bridge.TxOutcome, onAccept func(), replay bool) {
	m := c.m
	set := append([]string{}, applied...)
	sort.Strings(set)
	verdict := "valid"
	if refErr != nil {
		verdict = "invalid"
	}
	depth := "shallow"
	if m.Accepted > 6 {
		depth = "deep"
	}
	if len(applied) > 0 {
		c.nt = true
		c.cases[fmt.Sprintf("%s|%v|%s|%s", kind, set, verdict, depth)] = true
	}
	for _, a := range applied {
		m.R.Label(kind + "_" + a + "_" + verdict)
	}
	if len(applied) == 0 {
		m.R.Label(kind + "_unaltered")
	}
	if refErr != nil {
		if o.Res.OK() {
			m.Failf("%s accepted although the reference rejects it (%v); alterations %v", kind, refErr, applied)
		}
		if !o.Unchanged() {
			m.Failf("rejected %s (alterations %v; reference: %v) changed state:\n%s", kind, applied, refErr, o.DiffString())
		}
		return
	}
	// reference-valid
	if replay {
		if o.Res.OK() {
			m.Failf("%s of an already received triple accepted", kind)
		}
		return
	}
	if o.Res.OK() {
		onAccept()
		return
	}
	if kind == "recv" {
		m.Failf("receive rejected although the reference accepts it (alterations %v): %s", applied, bridge.Short(o.Res.Log))
	}
	// acknowledgements: the property only states 'accepted only if'; a refusal must change nothing
	if !o.Unchanged() {
		m.Failf("refused %s changed state:\n%s", kind, o.DiffString())
	}
}

func (c *ctl) ackAltered(t *rapid.T) {
	m := c.m
	w := m.W
	cands := m.AckCandidates()
	if len(cands) == 0 {
		t.Skip("no ack relayable")
	}
	p := cands[rapid.IntRange(0, len(cands)-1).Draw(t, "pkt")]
	hs := w.ProofHeightsFor(p.SrcIdx, p.DstIdx, p.RecvAt)
	h := hs[rapid.IntRange(0, len(hs)-1).Draw(t, "height")]
	rel := w.Rels[rapid.IntRange(0, 1).Draw(t, "rel")]
	dst := w.Chains[p.DstIdx]
	msg := kit.MsgAck(dst, p.Bz, p.AckBz, h, rel.Acc)
	alt := map[string][]byte{}
	var others [][]byte
	var otherAcks [][]byte
	for _, q := range w.Pkts {
		if q != p && q.SrcIdx == p.SrcIdx && !q.Acked {
			others = append(others, q.Bz)
		}
		if q != p && q.Received && q.DstIdx == p.DstIdx && q.RecvAt <= h-1 {
			otherAcks = append(otherAcks, q.AckBz)
			if pr, _, ok := dst.QueryProof(host.PacketAcknowledgementKey(q.T.Src, q.T.Dst, q.T.Seq), h); ok {
				alt["proof.otherseq"] = pr
			}
		}
	}
	for _, q := range w.Pkts { // a commitment stored on the destination chain (it sent q)
		if q.SrcIdx == p.DstIdx && q.SentAt <= h-1 && !q.Acked {
			if pr, _, ok := dst.QueryProof(host.PacketCommitmentKey(q.T.Src, q.T.Dst, q.T.Seq), h); ok {
				alt["proof.otherpath"] = pr
			}
		}
	}
	k := rapid.SampledFrom([]int{0, 1, 1, 1, 2, 2, 3}).Draw(t, "k")
	catalogue := []string{"pkt.src", "pkt.dst", "pkt.seq", "pkt.sender", "pkt.transfer", "pkt.calldata", "pkt.callback", "pkt.feeoption", "pkt.swap", "pkt.reencode",
		"proof.flip", "proof.truncate", "proof.extend", "proof.empty", "proof.otherseq", "proof.otherpath",
		"height.other", "height.unstored", "height.above", "height.zero",
		"ack.code", "ack.result", "ack.message", "ack.relayer", "ack.feeoption", "ack.swap", "ack.empty", "ack.noncanonical", "ack.noncanonical"}
	var applied []string
	for i := 0; i < k; i++ {
		a := rapid.SampledFrom(catalogue).Draw(t, "alteration")
		switch {
		case strings.HasPrefix(a, "pkt."):
			msg.Packet = mutatePacket(t, w, msg.Packet, a, others)
		case strings.HasPrefix(a, "proof."):
			msg.ProofAcked = mutateProof(t, msg.ProofAcked, a, alt)
		case a == "height.other":
			all := w.ConsensusHeights(p.SrcIdx, p.DstIdx)
			msg.ProofHeight = bridge.H(msg.ProofHeight.RevisionNumber, uint64(all[rapid.IntRange(0, len(all)-1).Draw(t, "h")]))
		case a == "height.unstored":
			msg.ProofHeight = bridge.H(msg.ProofHeight.RevisionNumber, msg.ProofHeight.RevisionHeight+uint64(rapid.IntRange(1, 3).Draw(t, "dh"))*1000)
		case a == "height.above":
			msg.ProofHeight = bridge.H(msg.ProofHeight.RevisionNumber, uint64(w.Chains[p.SrcIdx].ClientHeight(dst.ChainID)+1))
		case a == "height.zero":
			msg.ProofHeight = bridge.H(0, 0)
		case a == "ack.noncanonical":
			// other BYTES that still decode to the same acknowledgement (trailing data, dirty high bytes of a number word,
			// dirty padding): the counterparty stored the hash of its own bytes, not of these
			if twins := ackTwins(msg.Acknowledgement); len(twins) > 0 {
				msg.Acknowledgement = twins[rapid.IntRange(0, len(twins)-1).Draw(t, "twin")]
			}
		case strings.HasPrefix(a, "ack."):
			var ack packettypes.Acknowledgement
			if err := ack.ABIDecode(msg.Acknowledgement); err != nil {
				break
			}
			switch a {
			case "ack.code":
				if ack.Code == 0 {
					ack.Code = 1
				} else {
					ack.Code = 0
				}
			case "ack.result":
				ack.Result = append(append([]byte{}, ack.Result...), 7)
			case "ack.message":
				ack.Message += "!"
			case "ack.relayer":
				ack.Relayer = w.Outsider.Acc.String()
			case "ack.feeoption":
				ack.FeeOption++
			}
			nb, err := ack.ABIPack()
			kit.Must(err, "pack ack")
			msg.Acknowledgement = nb
			if a == "ack.swap" && len(otherAcks) > 0 {
				msg.Acknowledgement = otherAcks[rapid.IntRange(0, len(otherAcks)-1).Draw(t, "otherAck")]
			}
			if a == "ack.empty" {
				msg.Acknowledgement = []byte{}
			}
		}
		applied = append(applied, a)
	}
	refErr := w.RefAckValid(p.SrcIdx, msg)
	rp, _, derr := bridge.RefDecodePacket(msg.Packet)
	if err := msg.ValidateBasic(); err != nil {
		// the transaction would be refused before reaching the module: still a rejection
		_ = err
	}
	o := w.DeliverDumped(p.SrcIdx, rel, sdk.Msg(msg))
	c.judge("ack", applied, refErr, o, func() {
		if derr != nil {
			kit.Failf("accepted ack packet does not decode")
		}
		q := w.ByTriple(bridge.Triple{Src: rp.SrcChain, Dst: rp.DstChain, Seq: rp.Sequence})
		if q == nil {
			m.Failf("ack accepted for a triple that was never sent")
		}
		q.Acked = true
		m.Accepted++
	}, false)
	m.Log("ackAltered", fmt.Sprintf("%s %v", p.T, applied), fmt.Sprintf("ref=%v ok=%v", refErr == nil, o.Res.OK()))
}

// ackTwins lists byte strings different from bz that the repository's decoder maps to the same acknowledgement value.
func ackTwins(bz []byte) [][]byte {
	var want packettypes.Acknowledgement
	if err := want.ABIDecode(bz); err != nil {
		return nil
	}
	same := func(c []byte) bool {
		var got packettypes.Acknowledgement
		if err := got.ABIDecode(c); err != nil {
			return false
		}
		return got.Code == want.Code && bytes.Equal(got.Result, want.Result) && got.Message == want.Message && got.Relayer == want.Relayer && got.FeeOption == want.FeeOption
	}
	var out [][]byte
	for _, tail := range [][]byte{{1}, make([]byte, 32), bytes.Repeat([]byte{0xff}, 64)} {
		if c := append(append([]byte{}, bz...), tail...); same(c) {
			out = append(out, c)
		}
	}
	for i := range bz {
		c := append([]byte{}, bz...)
		c[i] ^= 0x80
		if same(c) {
			out = append(out, c)
		}
	}
	return out
}

func run(t *rapid.T, r *rec.Recorder) {
	m := bridge.NewMachine(t, r)
	c := &ctl{m: m, cases: map[string]bool{}}
	m.CallKinds = []string{"", "", "", "ok", "revert"}
	base := m.BaseActions()
	acts := map[string]func(*rapid.T){
		"send": base["send"], "send2": base["send"], "tick": base["tick"], "tick2": base["tick"], "update": base["update"], "update2": base["update"],
		"recvAltered":     m.Wrap(c.recvAltered),
		"recvAltered2":    m.Wrap(c.recvAltered),
		"recvAltered3":    m.Wrap(c.recvAltered),
		"toggleRoundTrip": m.Wrap(m.ActToggleRoundTrip),
		"upgradeLower":    m.Wrap(m.ActUpgradeLower),
		"ackAltered":      m.Wrap(c.ackAltered),
		"ackAltered2":     m.Wrap(c.ackAltered),
		"":                func(t *rapid.T) { m.T = t; m.R.Step() },
	}
	t.Repeat(acts)
	var ks []string
	for k := range c.cases {
		ks = append(ks, k)
	}
	sort.Strings(ks)
	// every distinct altered delivery is its own non-trivial case
	for _, k := range ks {
		r.Case(k, true, nil)
	}
	r.Case(fmt.Sprintf("history n=%d kinds=%d", len(m.W.Chains), len(ks)), c.nt, func() interface{} { return m.Hist })
}

func TestC02_Authenticity(t *testing.T) {
	r := rec.For("TestC02_Authenticity", rule)
	rapid.Check(t, func(t *rapid.T) { run(t, r) })
}

var _ alter
