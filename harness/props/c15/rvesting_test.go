package c15

import (
	"encoding/json"
	"fmt"
	"strings"
	"testing"

	"pgregory.net/rapid"

	sdk "github.com/cosmos/cosmos-sdk/types"
	paramproposal "github.com/cosmos/cosmos-sdk/x/params/types/proposal"

	aggregatetypes "github.com/teleport-network/teleport/x/aggregate/types"
	rvesting "github.com/teleport-network/teleport/x/rvesting/module"
	rvestingtypes "github.com/teleport-network/teleport/x/rvesting/types"

	"verif/harness/kit"
	"verif/harness/rec"
)

const ruleParams = "parameter-change proposals for the rvesting subspace (PerBlockReward as raw JSON: 1-3 entries, denominations around every edge of the SDK denomination " +
	"grammar, amounts 0 / 1 / pool / pool+1 / 10^70 / negative / missing / non-canonical; EnableVesting) validated by the real ParameterChangeProposal.ValidateBasic and " +
	"executed by the real params handler like gov.EndBlocker, x generated pool balances -> rvesting BeginBlocker and whole-app BeginBlocker; non-trivial = a value accepted " +
	"by parameter validation with >= 1 boundary field and vesting enabled when the block runs; distinct by (boundary fields, pool shape, enabled)"

type paramLog struct {
	Op     string      `json:"op"`
	Arg    interface{} `json:"arg,omitempty"`
	Result string      `json:"result,omitempty"`
}

// rewardJSON draws the raw JSON value of a PerBlockReward parameter change.
func (g *tagger) rewardJSON(poolOf func(string) sdk.Int) string {
	valid := []string{"atele", "acoin", "bcoin", "zzz", "ibc/27394FB092D2ECCD56123C74F36E4C1F926001CEADA9CA97EA622B25F41E5EB2"}
	n := rapid.IntRange(1, 3).Draw(g.t, "reward.n")
	var entries []string
	for i := 0; i < n; i++ {
		denom := valid[(i+rapid.IntRange(0, 4).Draw(g.t, "reward.denom"))%5]
		if g.edge("reward.denomEdge", 30) {
			ds := []string{"ab", "A", "1abc", "a b", strings.Repeat("d", 129), "ü88", "a\u0000b", "a/b:c.d_e-f", "abc", strings.Repeat("d", 128), "UPPER", "a/b-c", ""}
			cl := []string{"invalid", "invalid", "invalid", "invalid", "invalid", "invalid", "invalid", "invalid", "len3", "len128", "upper", "punctuation", "empty"}
			j := g.pick("reward.denomEdge.edge", len(ds))
			if cl[j] == "invalid" && listed("rvesting-reward-invalid-denom") {
				g.excluded["rvesting-reward-invalid-denom"]++
			} else {
				denom = ds[j]
				g.tag("reward.denom=" + cl[j])
			}
		}
		pool := poolOf(denom)
		amount := fmt.Sprintf("%q", fmt.Sprint(rapid.IntRange(1, 2000).Draw(g.t, "reward.amount")))
		if g.edge("reward.amountEdge", 35) {
			as := []string{`"0"`, `"1"`, fmt.Sprintf("%q", pool.String()), fmt.Sprintf("%q", pool.AddRaw(1).String()), `"1` + strings.Repeat("0", 70) + `"`, `"-1"`, `"007"`, `"+5"`, `""`, `null`, `5`,
				`"1` + strings.Repeat("0", 80) + `"`}
			cl := []string{"0", "1", "pool", "pool+1", "10^70", "negative", "leadingZeros", "plusSign", "emptyString", "null", "bareNumber", "10^80"}
			j := g.pick("reward.amountEdge.edge", len(as))
			amount = as[j]
			g.tag("reward.amount=" + cl[j])
		}
		e := fmt.Sprintf(`{"denom":%s,"amount":%s}`, mustJSON(denom), amount)
		if g.edge("reward.entryShape", 8) {
			switch g.pick("reward.entryShape.edge", 3) {
			case 0:
				e = fmt.Sprintf(`{"denom":%s}`, mustJSON(denom))
				g.tag("reward.entry=amountMissing")
			case 1:
				e = `{}`
				g.tag("reward.entry=emptyObject")
			default:
				e = fmt.Sprintf(`{"denom":%s,"amount":%s,"extra":1}`, mustJSON(denom), amount)
				g.tag("reward.entry=extraField")
			}
		}
		entries = append(entries, e)
	}
	if g.edge("reward.listShape", 12) {
		switch g.pick("reward.listShape.edge", 4) {
		case 0:
			g.tag("reward.list=empty")
			return `[]`
		case 1:
			g.tag("reward.list=null")
			return `null`
		case 2:
			entries = append(entries, entries[0])
			g.tag("reward.list=duplicate")
		default:
			for i, j := 0, len(entries)-1; i < j; i, j = i+1, j-1 {
				entries[i], entries[j] = entries[j], entries[i]
			}
			g.tag("reward.list=reversed")
		}
	}
	return "[" + strings.Join(entries, ",") + "]"
}

func mustJSON(s string) string {
	bz, _ := json.Marshal(s)
	return string(bz)
}

func runParamsCase(t *rapid.T, r *rec.Recorder) {
	w := baseWorld()
	a := w.c.App
	ctx, _ := w.c.Ctx().CacheContext()
	pool := a.AccountKeeper.GetModuleAddress(rvestingtypes.ModuleName)
	poolOf := func(d string) sdk.Int {
		if sdk.ValidateDenom(d) != nil {
			return sdk.ZeroInt()
		}
		return a.BankKeeper.GetBalance(ctx, pool, d).Amount
	}
	var history []paramLog
	var tags []string
	acceptedBoundary := false
	poolShape := []string{}
	// pool balances
	for _, d := range []string{"atele", "acoin", "bcoin", "ibc/27394FB092D2ECCD56123C74F36E4C1F926001CEADA9CA97EA622B25F41E5EB2", "abc", strings.Repeat("d", 128), "UPPER", "a/b-c"} {
		if chance(t, "fund?", 45) {
			// pool sizes from one unit over real-chain scale (1e18 base units per coin) to the int64/uint64 limits and beyond
			amts := []string{"1", "5", "1000", "1000000", "100000000000000000000", "9223372036854775807", "9223372036854775808", "18446744073709551616", "1" + strings.Repeat("0", 60)}
			amt, _ := sdk.NewIntFromString(amts[rapid.IntRange(0, len(amts)-1).Draw(t, "fund")])
			coins := sdk.NewCoins(sdk.NewCoin(d, amt))
			kit.Must(a.BankKeeper.MintCoins(ctx, aggregatetypes.ModuleName, coins), "mint")
			kit.Must(a.BankKeeper.SendCoinsFromModuleToModule(ctx, aggregatetypes.ModuleName, rvestingtypes.ModuleName, coins), "fund pool")
			poolShape = append(poolShape, clip(d, 6))
			history = append(history, paramLog{Op: "fund", Arg: clip(coins.String(), 60)})
		}
	}
	enabledAtBlock := false
	n := rapid.IntRange(1, 3).Draw(t, "rounds")
	for i := 0; i < n; i++ {
		g := newTagger(t)
		var changes []paramproposal.ParamChange
		if chance(t, "changeReward", 85) {
			changes = append(changes, paramproposal.ParamChange{Subspace: rvestingtypes.ModuleName, Key: string(rvestingtypes.KeyPerBlockReward), Value: g.rewardJSON(poolOf)})
		}
		if len(changes) == 0 || chance(t, "changeEnable", 70) {
			v := "true"
			if g.edge("enable", 25) {
				vs := []string{"false", "null", `"true"`, "1", ""}
				v = vs[g.pick("enable.edge", len(vs))]
				g.tag("enable=" + v)
			}
			changes = append(changes, paramproposal.ParamChange{Subspace: rvestingtypes.ModuleName, Key: string(rvestingtypes.KeyEnableVesting), Value: v})
		}
		if g.edge("order", 30) {
			for x, y := 0, len(changes)-1; x < y; x, y = x+1, y-1 {
				changes[x], changes[y] = changes[y], changes[x]
			}
		}
		for k, c := range g.excluded {
			for j := 0; j < c; j++ {
				r.Exclude(k)
			}
		}
		title, desc := g.title()
		content := paramproposal.NewParameterChangeProposal(title, desc, changes)
		r.Label("generated:ParameterChange")
		decoded, _, why := roundTrip(w, content)
		entry := paramLog{Op: "paramChange", Arg: changes}
		if decoded == nil {
			entry.Result = "undecodable: " + why
			history = append(history, entry)
			r.Label("filter:" + why + ":ParameterChange")
			continue
		}
		var verr error
		if p := guard(func() { verr = decoded.ValidateBasic() }); p != nil || verr != nil {
			entry.Result = "rejected by ValidateBasic"
			history = append(history, entry)
			r.Label("filter:rejected:ParameterChange")
			continue
		}
		r.Label("filter:accepted:ParameterChange")
		// a parameter value is "accepted by parameter validation" when the submission dry-run of the params handler (which only
		// decodes and validates the value) succeeds; a panic there happens inside the submitting transaction
		var derr error
		dctx, _ := ctx.CacheContext()
		if p := guard(func() { derr = w.paramH(dctx, decoded) }); p != nil {
			entry.Result = "value rejected: parameter validation panicked (" + clip(p.Val, 80) + ")"
			history = append(history, entry)
			r.Label("paramValidation:panicked(inside submitting tx)")
			continue
		}
		if derr != nil {
			entry.Result = "value rejected: " + clip(derr.Error(), 100)
			history = append(history, entry)
			r.Label("paramValidation:rejected")
			continue
		}
		r.Label("paramValidation:accepted")
		var err error
		if p := guard(func() { err = execLikeGov(ctx, w.paramH, decoded) }); p != nil {
			t.Fatalf("params handler panicked outside tx recovery: %s\nchanges=%v", p, changes)
		}
		kit.Must(err, "handler result differs from its own dry-run")
		entry.Result = "applied"
		history = append(history, entry)
		tags = append(tags, g.sortedTags()...)
		if boundaryCount(g.tags) > 0 {
			acceptedBoundary = true
		}
		// blocks
		for b, nb := 0, rapid.IntRange(1, 2).Draw(t, "blocks"); b < nb; b++ {
			r.Step()
			var params rvestingtypes.Params
			if p := guard(func() { params = a.RVestingKeeper.GetParams(ctx) }); p != nil {
				t.Fatalf("GetParams panicked after an accepted parameter change: %s\nhistory=%s", p, renderParams(history))
			}
			if params.EnableVesting {
				enabledAtBlock = true
			}
			whole := chance(t, "wholeApp", 30)
			if whole {
				blocksAfter(t, r, w, ctx, "paramChange", history)
			} else if p := guard(func() { rvesting.BeginBlocker(ctx, a.RVestingKeeper) }); p != nil {
				t.Fatalf("rvesting BeginBlocker panicked under parameters accepted by parameter validation: %s\nparams=%s\nhistory=%s", p, clip(params.String(), 400), renderParams(history))
			}
			history = append(history, paramLog{Op: "block", Result: fmt.Sprintf("enabled=%v whole=%v", params.EnableVesting, whole)})
		}
	}
	shape := fmt.Sprintf("%v|pool=%v|enabled=%v", tags, poolShape, enabledAtBlock)
	r.Case(shape, acceptedBoundary && enabledAtBlock, func() interface{} { return history })
	if enabledAtBlock {
		r.Label("block with vesting enabled")
	}
}

func renderParams(h []paramLog) string {
	bz, _ := json.Marshal(h)
	return clip(string(bz), 5000)
}

func TestC15_RVestingParams(t *testing.T) {
	r := rec.For("TestC15_RVestingParams", ruleParams)
	rapid.Check(t, func(t *rapid.T) { runParamsCase(t, r) })
}
