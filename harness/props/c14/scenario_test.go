// C14 — deterministic state machine: same blocks give the same state hash, results and events.
package c14

import (
	"crypto/sha256"
	"encoding/json"
	"fmt"
	"math/big"
	"strings"
	"time"

	sdk "github.com/cosmos/cosmos-sdk/types"
	banktypes "github.com/cosmos/cosmos-sdk/x/bank/types"
	govtypes "github.com/cosmos/cosmos-sdk/x/gov/types"
	"github.com/cosmos/cosmos-sdk/x/upgrade"
	upgradetypes "github.com/cosmos/cosmos-sdk/x/upgrade/types"
	transfertypes "github.com/cosmos/ibc-go/v3/modules/apps/transfer/types"
	ibcclienttypes "github.com/cosmos/ibc-go/v3/modules/core/02-client/types"
	channeltypes "github.com/cosmos/ibc-go/v3/modules/core/04-channel/types"
	"github.com/ethereum/go-ethereum/common"
	gethtypes "github.com/ethereum/go-ethereum/core/types"
	abci "github.com/tendermint/tendermint/abci/types"

	"github.com/teleport-network/teleport/app"
	"github.com/teleport-network/teleport/syscontracts"
	govcontract "github.com/teleport-network/teleport/syscontracts/gov"
	stakingcontract "github.com/teleport-network/teleport/syscontracts/staking"
	aggregatetypes "github.com/teleport-network/teleport/x/aggregate/types"
	rvestingtypes "github.com/teleport-network/teleport/x/rvesting/types"
	bsctypes "github.com/teleport-network/teleport/x/xibc/clients/light-clients/bsc/types"
	tsstypes "github.com/teleport-network/teleport/x/xibc/clients/tss-client/types"
	clienttypes "github.com/teleport-network/teleport/x/xibc/core/client/types"
	packettypes "github.com/teleport-network/teleport/x/xibc/core/packet/types"

	"verif/harness/kit"
	"verif/harness/sim/bridge"
	"verif/harness/sim/bscsim"
	"verif/harness/sim/ethsim"
)

// Chooser is the only source of choices of a scenario, so that the same scenario can be replayed from a tape.
type Chooser interface {
	Intn(label string, n int) int
}

// Tape replays recorded choices. A replay whose course differs from the recorded one (a verdict differed, so a later
// choice is asked for in another place) may run off the tape: with Lenient set that is remembered in Off, and the caller
// reports the difference of the verdicts; otherwise it is an error of the harness.
type Tape struct {
	Vals    []uint32
	i       int
	Lenient bool
	Off     bool
}

func (t *Tape) Intn(label string, n int) int {
	if t.i >= len(t.Vals) {
		if t.Lenient {
			t.Off = true
			return 0
		}
		kit.Failf("tape exhausted at %q", label)
	}
	v := int(t.Vals[t.i])
	t.i++
	if v >= n {
		if t.Lenient {
			t.Off = true
			return v % n
		}
		kit.Failf("tape value %d out of range %d at %q", v, n, label)
	}
	return v
}

const (
	bscName = "bsc-sim"
	ethName = "eth-sim"
)

type scen struct {
	ch    Chooser
	w     *bridge.World
	kinds map[string]int
	// bsc
	bscKeys []bscsim.Key
	bscVals []common.Address
	bscHead *bscsim.Header
	// eth (rinkeby mode)
	ethHead *gethtypes.Header
	props   uint64
	// voucher of an ICS-20 route into chain 0, registered as a module-owned pair (the aggregate IBC hook converts it on receipt)
	voucher string
	ibcSeq  uint64
	// twin of the world's call-target ERC-20 on chain 0 (same name, symbol, decimals): UpdateTokenPairERC20 can succeed
	twin common.Address
	// the BSC client state the simulated BSC client was created with (ToggleClient installs a copy elsewhere)
	bscCS   *bsctypes.ClientState
	bscCons *bsctypes.ConsensusState
}

func (s *scen) kind(k string) { s.kinds[k]++ }

// nodeProfile is how the node replaying a script behaves OUTSIDE block processing; none of it may change a response.
type nodeProfile struct {
	// RestartEvery > 0: the process of every chain stops and starts again (new application object over the same database)
	// after each commit whose ordinal, plus RestartOffset, is a multiple of RestartEvery.
	RestartEvery  int `json:"restart_every"`
	RestartOffset int `json:"restart_offset"`
	// Simulate: every transaction is first run through Simulate (gas estimation) and CheckTx (mempool admission), as a node
	// serving clients does, before it is delivered in the block.
	Simulate bool `json:"simulate"`
	// Config names the node operator's configuration (app.toml / flags / environment): "" = nothing set, "tight" and "loose"
	// set every server option of the SDK and Ethermint servers that is not part of consensus to small / large values.
	Config string `json:"config"`
}

// nodeConfigs are operator-side settings: JSON-RPC limits, API switches, mempool admission, caches. None is consensus state.
var nodeConfigs = map[string]map[string]interface{}{
	"tight": {
		"json-rpc.enable": true, "json-rpc.api": "eth", "json-rpc.gas-cap": uint64(30000), "json-rpc.evm-timeout": "1ns", "json-rpc.txfee-cap": 0.000001,
		"json-rpc.filter-cap": int32(1), "json-rpc.logs-cap": int32(1), "json-rpc.block-range-cap": int32(1), "json-rpc.http-timeout": "1ns", "json-rpc.http-idle-timeout": "1ns",
		"evm.max-tx-gas-wanted": uint64(1), "api.enable": false, "grpc.enable": false, "grpc-web.enable": false, "minimum-gas-prices": "1000000000atele",
		"iavl-cache-size": 1, "inter-block-cache": false, "index-events": []string{"message.action"}, "min-retain-blocks": uint64(1), "telemetry.enabled": false,
		"state-sync.snapshot-interval": uint64(1), "state-sync.snapshot-keep-recent": uint32(1), "trace": false,
	},
	"loose": {
		"json-rpc.enable": true, "json-rpc.api": "eth,net,web3,debug,personal,miner,txpool", "json-rpc.gas-cap": uint64(1) << 62, "json-rpc.evm-timeout": "1000h", "json-rpc.txfee-cap": 1e12,
		"json-rpc.filter-cap": int32(1 << 30), "json-rpc.logs-cap": int32(1 << 30), "json-rpc.block-range-cap": int32(1 << 30), "json-rpc.http-timeout": "1000h", "json-rpc.http-idle-timeout": "1000h",
		"evm.max-tx-gas-wanted": uint64(1) << 62, "api.enable": true, "api.enabled-unsafe-cors": true, "grpc.enable": true, "grpc-web.enable": true, "minimum-gas-prices": "",
		"iavl-cache-size": 10_000_000, "inter-block-cache": true, "index-events": []string{}, "min-retain-blocks": uint64(0), "telemetry.enabled": true, "trace": true,
	},
}

func (p nodeProfile) String() string {
	return fmt.Sprintf("restartEvery=%d+%d simulate=%v config=%q", p.RestartEvery, p.RestartOffset, p.Simulate, p.Config)
}

// apply installs the profile on a chain.
func (p nodeProfile) apply(c *kit.Chain) {
	if p.RestartEvery > 0 {
		commits := p.RestartOffset
		c.AfterCommit = func(c *kit.Chain) {
			commits++
			if commits%p.RestartEvery == 0 {
				c.Restart()
			}
		}
	}
	if p.Simulate {
		c.PreDeliver = func(c *kit.Chain, bz []byte) {
			// outcomes are irrelevant (and recovered by baseapp); only later block responses are compared
			_, _, _ = c.App.Simulate(bz)
			c.App.CheckTx(abci.RequestCheckTx{Tx: bz, Type: abci.CheckTxType_New})
		}
	}
}

// scenarioStart is the genesis time of the scenario's chains (zero = the fixed harness epoch); scenarioSetupSpan is how far the
// chain clock of chain 0 has moved when the set-up is done. Only the wall-clock test sets the former.
var (
	scenarioStart     time.Time
	scenarioSetupSpan time.Duration
)

// runScenario builds a 2-chain world, attaches the tracer and performs `steps` tape-driven steps on nodes of the given
// profile. It returns the trace (one line per ABCI response of every chain) and the message-kind histogram.
func runScenario(ch Chooser, steps int, prof nodeProfile) (trace []string, kinds map[string]int) {
	s := &scen{ch: ch, kinds: map[string]int{}}
	kinds = s.kinds
	if prof != (nodeProfile{}) {
		// a replica replays a script the reference node (empty profile) has already completed: a step of the script that cannot
		// be carried out on the replica (a set-up call or an expected outcome fails, the tape no longer fits) is itself a
		// divergence between the nodes, so it ends the replica's trace instead of being reported as a harness problem
		defer func() {
			if p := recover(); p != nil {
				he, ok := p.(kit.HarnessError)
				if !ok {
					panic(p)
				}
				trace = append(trace, "REPLICA ABORTED: "+he.Msg)
			}
		}()
	}
	seed := []byte{byte(ch.Intn("seed0", 256)), byte(ch.Intn("seed1", 256))}
	mut := func(a *app.Teleport, g map[string]json.RawMessage) {
		var gov govtypes.GenesisState
		a.AppCodec().MustUnmarshalJSON(g[govtypes.ModuleName], &gov)
		gov.VotingParams.VotingPeriod = 12 * time.Second
		gov.DepositParams.MinDeposit = sdk.NewCoins(sdk.NewInt64Coin(sdk.DefaultBondDenom, 100))
		g[govtypes.ModuleName] = a.AppCodec().MustMarshalJSON(&gov)
		// reward vesting: enabled, pool funded from the first account
		var rv rvestingtypes.GenesisState
		a.AppCodec().MustUnmarshalJSON(g[rvestingtypes.ModuleName], &rv)
		rv.Params.EnableVesting = true
		rv.Params.PerBlockReward = sdk.NewCoins(sdk.NewInt64Coin(sdk.DefaultBondDenom, 7), sdk.NewInt64Coin("acoin", 3))
		g[rvestingtypes.ModuleName] = a.AppCodec().MustMarshalJSON(&rv)
	}
	s.w = bridge.NewWorldOpts(2, seed, bridge.WorldOpts{
		GenesisMutator: mut,
		ExtraCoins:     sdk.NewCoins(sdk.NewInt64Coin("acoin", 1_000_000), sdk.NewInt64Coin("bcoin", 1_000_000), sdk.NewInt64Coin("ccoin", 1_000_000)),
		NodeConfig:     nodeConfigs[prof.Config],
		Start:          scenarioStart,
		OnChain: func(c *kit.Chain) {
			c.Trace = func(l string) { trace = append(trace, l) }
			prof.apply(c)
		},
	})
	w := s.w
	c0 := w.Chains[0]
	// fund the vesting pool (bank send to the module account is blocked; mint through a module with minter rights instead)
	pool := sdk.NewCoins(sdk.NewInt64Coin(sdk.DefaultBondDenom, 100), sdk.NewInt64Coin("acoin", 20))
	kit.Must(c0.App.BankKeeper.MintCoins(c0.Ctx(), aggregatetypes.ModuleName, pool), "mint pool")
	kit.Must(c0.App.BankKeeper.SendCoinsFromModuleToModule(c0.Ctx(), aggregatetypes.ModuleName, rvestingtypes.ModuleName, pool), "fund pool")
	s.setupBSC()
	s.setupETH()
	s.twin = c0.DeployERC20("target", "TGT", 18)
	s.voucher = transfertypes.ParseDenomTrace("transfer/channel-0/uatom").IBCDenom()
	vc := sdk.NewCoins(sdk.NewInt64Coin(s.voucher, 1000))
	kit.Must(c0.App.BankKeeper.MintCoins(c0.Ctx(), aggregatetypes.ModuleName, vc), "mint voucher supply")
	kit.Must(c0.App.BankKeeper.SendCoinsFromModuleToAccount(c0.Ctx(), aggregatetypes.ModuleName, w.Outsider.Acc, vc), "voucher holder")
	_, verr := c0.App.AggregateKeeper.RegisterCoin(c0.Ctx(), banktypes.Metadata{Description: "v", Base: s.voucher, Display: s.voucher, Name: "uatom via channel-0", Symbol: "ibcATOM",
		DenomUnits: []*banktypes.DenomUnit{{Denom: s.voucher, Exponent: 0}}})
	kit.Must(verr, "register voucher pair")
	// a coin pair and an ERC-20 pair registered through the keeper (further ones go through governance)
	meta := banktypes.Metadata{Description: "a", Base: "acoin", Display: "acoin", Name: "acoin", Symbol: "ACOIN",
		DenomUnits: []*banktypes.DenomUnit{{Denom: "acoin", Exponent: 0}}}
	_, err := c0.App.AggregateKeeper.RegisterCoin(c0.Ctx(), meta)
	kit.Must(err, "register acoin")
	// half of the scripts start from a state in which earlier governance already created an extra TSS client and registered
	// the call-target ERC-20 as a pair (so that ToggleClient and UpdateTokenPairERC20 proposals can pass their dry-run)
	if ch.Intn("prestate", 2) == 1 {
		pre := &tsstypes.ClientState{TssAddress: w.TSS.Acc.String(), Pubkey: []byte("k"), PartPubkeys: [][]byte{[]byte("p")}, Threshold: 1}
		kit.Must(c0.App.XIBCKeeper.ClientKeeper.CreateClient(c0.Ctx(), "tss-pre", pre, &tsstypes.ConsensusState{}), "create tss-pre")
		_, err := c0.App.AggregateKeeper.RegisterERC20(c0.Ctx(), w.Target[0])
		kit.Must(err, "register target")
		s.kind("prestate")
	}
	w.Tick()
	scenarioSetupSpan = c0.Now.Sub(c0.Headers[1].Header.Time)
	actions := []func(){s.send, s.send, s.relayAll, s.relayAll, s.tick, s.convertCoin, s.convertERC20, s.stakingCall, s.govVoteCall, s.bscUpdate, s.bscUpdate,
		s.ethUpdate, s.tssInject, s.tssUpdate, s.submitProposal, s.submitProposal, s.voteProposals, s.bankSend, s.ibcReceive}
	for i := 0; i < steps; i++ {
		actions[ch.Intn("action", len(actions))]()
	}
	// let proposals finish their voting period and be executed by EndBlock
	s.voteProposals()
	for i := 0; i < 4; i++ {
		w.Tick()
	}
	// a third of the scripts end with the chain's software upgrade "v0.2" (app/upgrades.go): scheduled the way a passed
	// SoftwareUpgradeProposal schedules it and executed by the upgrade module in the next BeginBlock. It comes last because
	// the handler resets the xibc module's state.
	if ch.Intn("finalUpgrade", 3) == 0 {
		plan := upgradetypes.Plan{Name: "v0.2", Height: c0.Header.Height + 1, Info: "scripted"}
		kit.Must(upgrade.NewSoftwareUpgradeProposalHandler(c0.App.UpgradeKeeper)(c0.Ctx(), upgradetypes.NewSoftwareUpgradeProposal("t", "d", plan)), "schedule upgrade v0.2")
		s.kind("upgrade:v0.2")
		c0.Commit(bridge.BlockDT)
		c0.Commit(bridge.BlockDT)
	}
	return trace, s.kinds
}

func (s *scen) tick() { s.w.Tick(); s.kind("block") }

func (s *scen) send() {
	w := s.w
	src := s.ch.Intn("src", 2)
	dst := 1 - src
	toks := []common.Address{w.Tok[src]}
	if src == 0 {
		toks = append(toks, common.Address{}, w.Unbound)
	} else {
		toks = append(toks, w.NTok[src])
	}
	tok := toks[s.ch.Intn("token", len(toks))]
	call := []string{"", "", "ok", "revert", "hookfail", "nested-unknown"}[s.ch.Intn("call", 6)]
	out := w.Send(bridge.SendSpec{Src: src, DstName: w.Chains[dst].ChainID, User: s.ch.Intn("user", 2), Token: tok,
		Amount: big.NewInt(int64(1 + s.ch.Intn("amount", 300))), Fee: big.NewInt(int64(s.ch.Intn("fee", 3))),
		Receiver: strings.ToLower(w.Users[s.ch.Intn("receiver", 2)].Addr.String()), Call: call}, false)
	if out.OK {
		s.kind("evm:crossChainCall")
	} else {
		s.kind("evm:crossChainCall(failed)")
	}
}

// relayAll: two blocks, client updates both ways, every deliverable receive and ack.
func (s *scen) relayAll() {
	w := s.w
	w.Tick()
	w.Tick()
	for i := 0; i < 2; i++ {
		c, o := w.Chains[i], w.Chains[1-i]
		if c.ClientHeight(o.ChainID) < o.LastHeader.Header.Height {
			rel := w.Rels[s.ch.Intn("rel", 2)]
			c.Deliver(rel, c.MsgUpdateTMClient(o, o.LastHeader.Header.Height, rel.Acc))
			s.kind("MsgUpdateClient(tm)")
		}
	}
	for _, p := range w.Pkts {
		if p.SrcIdx < 0 || p.DstIdx < 0 {
			continue
		}
		if !p.Received {
			hs := w.ProofHeightsFor(p.DstIdx, p.SrcIdx, p.SentAt)
			if len(hs) == 0 {
				continue
			}
			rel := w.Rels[s.ch.Intn("rel", 2)]
			res := w.Chains[p.DstIdx].Deliver(rel, w.RecvMsg(p, p.Bz, hs[len(hs)-1], rel.Acc))
			if res.OK() {
				w.NoteRecv(p.DstIdx, p, res, rel)
			}
			s.kind("MsgRecvPacket")
		}
	}
	w.Tick()
	w.Tick()
	for i := 0; i < 2; i++ {
		c, o := w.Chains[i], w.Chains[1-i]
		if c.ClientHeight(o.ChainID) < o.LastHeader.Header.Height {
			c.Deliver(w.Rels[0], c.MsgUpdateTMClient(o, o.LastHeader.Header.Height, w.Rels[0].Acc))
			s.kind("MsgUpdateClient(tm)")
		}
	}
	for _, p := range w.Pkts {
		if p.Received && !p.Acked && len(p.AckBz) > 0 && p.SrcIdx >= 0 && p.DstIdx >= 0 {
			hs := w.ProofHeightsFor(p.SrcIdx, p.DstIdx, p.RecvAt)
			if len(hs) == 0 {
				continue
			}
			rel := w.Rels[s.ch.Intn("rel", 2)]
			res := w.Chains[p.SrcIdx].Deliver(rel, kit.MsgAck(w.Chains[p.DstIdx], p.Bz, p.AckBz, hs[len(hs)-1], rel.Acc))
			if res.OK() {
				p.Acked = true
			}
			s.kind("MsgAcknowledgement")
		}
	}
}

func (s *scen) pair(denom string) (aggregatetypes.TokenPair, bool) {
	c0 := s.w.Chains[0]
	id := c0.App.AggregateKeeper.GetTokenPairID(c0.Ctx(), denom)
	if len(id) == 0 {
		return aggregatetypes.TokenPair{}, false
	}
	return c0.App.AggregateKeeper.GetTokenPair(c0.Ctx(), id)
}

func (s *scen) convertCoin() {
	c0 := s.w.Chains[0]
	u := s.w.Users[s.ch.Intn("user", 2)]
	denom := []string{"acoin", "bcoin", "ccoin"}[s.ch.Intn("denom", 3)]
	msg := aggregatetypes.NewMsgConvertCoin(sdk.NewInt64Coin(denom, int64(1+s.ch.Intn("amount", 50))), s.w.Users[s.ch.Intn("receiver", 2)].Addr, u.Acc)
	c0.Deliver(u, msg)
	s.kind("MsgConvertCoin")
}

func (s *scen) convertERC20() {
	c0 := s.w.Chains[0]
	u := s.w.Users[s.ch.Intn("user", 2)]
	denom := []string{"acoin", "bcoin", "ccoin"}[s.ch.Intn("denom", 3)]
	p, ok := s.pair(denom)
	if !ok {
		return
	}
	msg := aggregatetypes.NewMsgConvertERC20(sdk.NewInt(int64(1+s.ch.Intn("amount", 20))), s.w.Users[s.ch.Intn("receiver", 2)].Acc, common.HexToAddress(p.ERC20Address), u.Addr, denom)
	c0.Deliver(u, msg)
	s.kind("MsgConvertERC20")
}

func (s *scen) stakingCall() {
	c0 := s.w.Chains[0]
	u := s.w.Users[s.ch.Intn("user", 2)]
	vals := c0.App.StakingKeeper.GetAllValidators(c0.Ctx())
	val := vals[0].OperatorAddress
	if s.ch.Intn("badval", 4) == 0 {
		val = "teleportvaloper1invalid"
	}
	method := []string{"delegate", "undelegate"}[s.ch.Intn("method", 2)]
	data, err := stakingcontract.StakingContract.ABI.Pack(method, val, big.NewInt(int64(1+s.ch.Intn("amount", 1000))))
	kit.Must(err, "pack staking call")
	to := common.HexToAddress(syscontracts.StakingContractAddress)
	c0.DeliverEth(u, &to, nil, data)
	s.kind("evm:staking." + method)
}

func (s *scen) govVoteCall() {
	c0 := s.w.Chains[0]
	u := s.w.Users[s.ch.Intn("user", 2)]
	id := uint64(1 + s.ch.Intn("proposal", 4))
	data, err := govcontract.GovContract.ABI.Pack("vote", id, uint32(1+s.ch.Intn("option", 4)))
	kit.Must(err, "pack gov vote")
	to := common.HexToAddress(syscontracts.GovContractAddress)
	c0.DeliverEth(u, &to, nil, data)
	s.kind("evm:gov.vote")
}

// ibcReceive: an ICS-20 packet of the registered voucher arrives on chain 0. The transfer route wired in app.go (aggregate
// middleware over the transfer application) is called the way IBC core calls it inside MsgRecvPacket; what core would put into
// the DeliverTx response - the acknowledgement and the events - goes into the trace, the state goes into the app hash. In a
// third of the receives the pair has just been switched off or on again, so that the hook's "conversion failed" branch runs too.
func (s *scen) ibcReceive() {
	c0 := s.w.Chains[0]
	if s.ch.Intn("togglePair", 3) == 0 {
		_, err := c0.App.AggregateKeeper.ToggleRelay(c0.Ctx(), s.voucher)
		kit.Must(err, "toggle voucher pair")
	}
	s.ibcSeq++
	recv := s.w.Users[s.ch.Intn("receiver", 2)]
	data := transfertypes.NewFungibleTokenPacketData("uatom", fmt.Sprint(1+s.ch.Intn("amount", 90)), "cosmos1qql8ag4cluz6r4dz28p3w00dnc9w8ueulg2gmc", recv.Acc.String())
	packet := channeltypes.NewPacket(data.GetBytes(), s.ibcSeq, "transfer", "channel-7", "transfer", "channel-0", ibcclienttypes.NewHeight(1, 1_000_000), 0)
	route, ok := c0.App.IBCKeeper.Router.GetRoute(transfertypes.ModuleName)
	if !ok {
		kit.Failf("no transfer route")
	}
	ctx := c0.Ctx().WithEventManager(sdk.NewEventManager())
	cctx, write := ctx.CacheContext()
	ack := route.OnRecvPacket(cctx, packet, s.w.Rels[0].Acc)
	ackBz := []byte("nil")
	if ack != nil {
		ackBz = ack.Acknowledgement()
		if ack.Success() {
			write()
			ctx.EventManager().EmitEvents(cctx.EventManager().Events())
		}
	} else {
		write()
		ctx.EventManager().EmitEvents(cctx.EventManager().Events())
	}
	if c0.Trace != nil {
		c0.Trace(fmt.Sprintf("%s h=%d ibc-recv seq=%d ack=%x events=%s", c0.ChainID, c0.Header.Height, s.ibcSeq, sha256.Sum256(ackBz), kit.EventsDigest(ctx.EventManager().ABCIEvents())))
	}
	s.kind("ics20:OnRecvPacket")
}

func (s *scen) bankSend() {
	c0 := s.w.Chains[0]
	u := s.w.Users[s.ch.Intn("user", 2)]
	c0.Deliver(u, banktypes.NewMsgSend(u.Acc, s.w.Outsider.Acc, sdk.NewCoins(sdk.NewInt64Coin("bcoin", int64(1+s.ch.Intn("amount", 10))))))
	s.kind("MsgSend")
}

// ---- BSC client (3 validators so that the snapshot's validator collection has several members)

func (s *scen) setupBSC() {
	c0 := s.w.Chains[0]
	for i := 0; i < 3; i++ {
		s.bscKeys = append(s.bscKeys, bscsim.KeyFromSeed([]byte("c14"), i))
	}
	var addrs []common.Address
	for _, k := range s.bscKeys {
		addrs = append(addrs, k.Addr)
	}
	s.bscVals = bscsim.Sorted(addrs)
	const E, chainID = 200, 97
	g := uint64(E * 5)
	gh := &bscsim.Header{ParentHash: common.BytesToHash([]byte("c14 bsc parent")), UncleHash: bscsim.EmptyUncleHash, Coinbase: s.bscVals[g%3],
		Root: common.BytesToHash([]byte("root0")), Difficulty: big.NewInt(2), Number: g, GasLimit: 30_000_000, GasUsed: 1000, Time: uint64(c0.Now.Unix())}
	gh.Extra = bscsim.BuildExtra([32]byte{}, bscsim.AddrBytes(s.bscVals))
	bscsim.Seal(gh, s.keyOf(gh.Coinbase), chainID)
	var vals [][]byte
	for _, a := range s.bscVals {
		vals = append(vals, a.Bytes())
	}
	cs := &bsctypes.ClientState{Header: *gh.ToProto(), ChainId: chainID, Epoch: E, BlockInteval: 3, Validators: vals,
		ContractAddress: common.BytesToAddress([]byte("xibc")).Bytes(), TrustingPeriod: 1 << 40}
	cons := &bsctypes.ConsensusState{Timestamp: gh.Time, Height: cs.Header.Height, Root: gh.Root.Bytes()}
	kit.Must(c0.App.XIBCKeeper.ClientKeeper.CreateClient(c0.Ctx(), bscName, cs, cons), "create bsc client")
	s.bscCS, s.bscCons = cs, cons
	s.bscHead = gh
	for _, r := range s.w.Rels {
		// relayers keep their Tendermint registrations and gain the simulated EVM chains
		ir, _ := c0.App.XIBCKeeper.ClientKeeper.GetRelayer(c0.Ctx(), r.Acc.String())
		c0.RegisterRelayer(r.Acc, append(ir.Chains, bscName, ethName), append(ir.Addresses, "0xbsc", "0xeth"))
	}
}

func (s *scen) keyOf(a common.Address) bscsim.Key {
	for _, k := range s.bscKeys {
		if k.Addr == a {
			return k
		}
	}
	kit.Failf("no key for %s", a)
	return bscsim.Key{}
}

func (s *scen) bscUpdate() {
	c0 := s.w.Chains[0]
	n := s.bscHead.Number + 1
	sealer := s.bscVals[n%3]
	valid := s.ch.Intn("bscValid", 5) != 0
	diff := big.NewInt(2)
	if !valid {
		sealer = s.bscVals[(n+1)%3] // out of turn but claiming in-turn difficulty
	}
	h := &bscsim.Header{ParentHash: s.bscHead.Hash(), UncleHash: bscsim.EmptyUncleHash, Coinbase: sealer,
		Root: common.BytesToHash([]byte(fmt.Sprintf("root%d", n))), Difficulty: diff, Number: n, GasLimit: s.bscHead.GasLimit, GasUsed: 5,
		Time: s.bscHead.Time + 3}
	h.Extra = bscsim.BuildExtra([32]byte{}, nil)
	bscsim.Seal(h, s.keyOf(sealer), 97)
	rel := s.w.Rels[s.ch.Intn("rel", 2)]
	msg, err := clienttypes.NewMsgUpdateClient(bscName, h.ToProto(), rel.Acc)
	kit.Must(err, "bsc update msg")
	res := c0.Deliver(rel, msg)
	if res.OK() {
		s.bscHead = h
		s.kind("MsgUpdateClient(bsc)")
	} else {
		s.kind("MsgUpdateClient(bsc,rejected)")
	}
}

// ---- ETH client in Rinkeby mode (no proof of work); the PoW path is pinned separately

func (s *scen) setupETH() {
	c0 := s.w.Chains[0]
	g := ethsim.Genesis(ethsim.GenesisOpts{Number: 1000, Time: uint64(c0.Now.Unix()) - 100, GasLimit: 30_000_000, GasUsed: 15_000_000, BaseFee: 1_000_000_000,
		Root: common.BytesToHash([]byte("eth root"))})
	kit.Must(c0.App.XIBCKeeper.ClientKeeper.CreateClient(c0.Ctx(), ethName, ethsim.ClientState(g, 4, 1<<40), ethsim.ConsensusState(g)), "create eth client")
	s.ethHead = g
}

func (s *scen) ethUpdate() {
	c0 := s.w.Chains[0]
	g := s.ethHead
	child := ethsim.Child(g, ethsim.ChildOpts{DT: uint64(1 + s.ch.Intn("dt", 3)), GasUsedPermil: uint64(s.ch.Intn("gasUsed", 1001)),
		Root: common.BytesToHash([]byte(fmt.Sprintf("eth root %d %d", g.Number.Uint64()+1, s.ch.Intn("fork", 3))))})
	rel := s.w.Rels[s.ch.Intn("rel", 2)]
	msg, err := clienttypes.NewMsgUpdateClient(ethName, ethsim.ToProto(child), rel.Acc)
	kit.Must(err, "eth update msg")
	res := c0.Deliver(rel, msg)
	if res.OK() {
		s.ethHead = child
		s.kind("MsgUpdateClient(eth)")
	} else {
		s.kind("MsgUpdateClient(eth,rejected)")
	}
}

// ---- TSS

func (s *scen) tssInject() {
	w := s.w
	ci := s.ch.Intn("chain", 2)
	c := w.Chains[ci]
	seq := uint64(1 + s.ch.Intn("seq", 6))
	td := packettypes.TransferData{Token: bridge.TSSOriToken, Amount: common.LeftPadBytes(big.NewInt(int64(1+s.ch.Intn("amount", 40))).Bytes(), 32),
		Receiver: strings.ToLower(w.Users[s.ch.Intn("receiver", 2)].Addr.String())}
	tdBz, _ := td.ABIPack()
	pk := packettypes.Packet{SrcChain: bridge.TSSName, DstChain: c.ChainID, Sequence: seq, Sender: "0xs", TransferData: tdBz, CallData: []byte{}}
	bz, _ := pk.ABIPack()
	c.Deliver(w.TSS, packettypes.NewMsgRecvPacket(bz, []byte{}, bridge.H(0, 1), w.TSS.Acc))
	s.kind("MsgRecvPacket(tss)")
}

func (s *scen) tssUpdate() {
	w := s.w
	c := w.Chains[s.ch.Intn("chain", 2)]
	hdr := &tsstypes.Header{TssAddress: w.TSS.Acc.String(), Pubkey: []byte("pk"), PartPubkeys: [][]byte{[]byte("p")}, Threshold: uint64(1 + s.ch.Intn("threshold", 3))}
	msg, err := clienttypes.NewMsgUpdateClient(bridge.TSSName, hdr, w.TSS.Acc)
	kit.Must(err, "tss update")
	c.Deliver(w.TSS, msg)
	s.kind("MsgUpdateClient(tss)")
}

// ---- governance (real flow: submit with deposit, vote, EndBlock executes)

func (s *scen) submitProposal() {
	w := s.w
	c0 := w.Chains[0]
	var content govtypes.Content
	var name string
	switch s.ch.Intn("proposalKind", 14) {
	case 10:
		// upgrade of the TSS client (same TSS account, new key material)
		cs := &tsstypes.ClientState{TssAddress: w.TSS.Acc.String(), Pubkey: []byte(fmt.Sprintf("k%d", s.props)), PartPubkeys: [][]byte{[]byte("p"), []byte("q")}, Threshold: 2}
		uc, err := clienttypes.NewUpgradeClientProposal("t", "d", bridge.TSSName, cs, &tsstypes.ConsensusState{})
		kit.Must(err, "upgrade client proposal")
		content, name = uc, "UpgradeClient(tss)"
	case 11:
		// toggle of a governance-created extra TSS client into a BSC client (3 validators: map-backed snapshot)
		tc, err := clienttypes.NewToggleClientProposal("t", "d", []string{"tss-extra-0", "tss-pre"}[s.ch.Intn("toggleTarget", 2)], s.bscCS, s.bscCons)
		kit.Must(err, "toggle client proposal")
		content, name = tc, "ToggleClient(tss->bsc)"
	case 12:
		meta := banktypes.Metadata{Description: "c", Base: "ccoin", Display: "ccoin", Name: "ccoin", Symbol: "CCOIN", DenomUnits: []*banktypes.DenomUnit{{Denom: "ccoin", Exponent: 0}}}
		contract := "0x00000000000000000000000000000000000000cc"
		if p, ok := s.pair("acoin"); ok {
			contract = p.ERC20Address
		}
		content, name = aggregatetypes.NewAddCoinProposal("t", "d", meta, contract), "AddCoin"
	case 13:
		content, name = aggregatetypes.NewUpdateTokenPairERC20Proposal("t", "d", w.Target[0].Hex(), s.twin.Hex()), "UpdateTokenPairERC20"
	case 8, 9:
		// an ALREADY registered relayer is registered again: same chains, but its address on the other Tendermint chain moves
		// (acknowledgements naming the old address then stop finding a fee receiver)
		rel := w.Rels[s.ch.Intn("rel", 2)]
		ir, _ := c0.App.XIBCKeeper.ClientKeeper.GetRelayer(c0.Ctx(), rel.Acc.String())
		chains, addrs := append([]string{}, ir.Chains...), append([]string{}, ir.Addresses...)
		for i, n := range chains {
			if n == w.Chains[1].ChainID {
				addrs[i] = fmt.Sprintf("0xmoved%d", s.props)
			}
		}
		content, name = clienttypes.NewRegisterRelayerProposal("t", "d", rel.Acc.String(), chains, addrs), "RegisterRelayer(again)"
	case 0:
		// (stateless validation lets a proposal list a chain more than once, in any order)
		chains, addrs := []string{w.Chains[1].ChainID, bscName}, []string{"0x1", "0x2"}
		switch s.ch.Intn("relayerChains", 3) {
		case 1:
			chains, addrs = append(chains, ethName, w.Chains[1].ChainID), append(addrs, "0x3", "0x1")
		case 2:
			chains, addrs = append(chains, ethName, "polygon", "arbitrum", bscName, "qa-net", ethName), append(addrs, "0x3", "0x4", "0x5", "0x2b", "0x6", "0x3b")
		}
		content, name = clienttypes.NewRegisterRelayerProposal("t", "d", w.Outsider.Acc.String(), chains, addrs), "RegisterRelayer"
		if len(chains) > 2 {
			name = "RegisterRelayer(chain listed twice)"
		}
	case 1:
		cs := &tsstypes.ClientState{TssAddress: w.TSS.Acc.String(), Pubkey: []byte("k"), PartPubkeys: [][]byte{[]byte("p")}, Threshold: 1}
		cc, err := clienttypes.NewCreateClientProposal("t", "d", fmt.Sprintf("tss-extra-%d", s.props), cs, &tsstypes.ConsensusState{})
		kit.Must(err, "create client proposal")
		content, name = cc, "CreateClient(tss)"
	case 2:
		meta := banktypes.Metadata{Description: "b", Base: "bcoin", Display: "bcoin", Name: "bcoin", Symbol: "BCOIN", DenomUnits: []*banktypes.DenomUnit{{Denom: "bcoin", Exponent: 0}}}
		content, name = aggregatetypes.NewRegisterCoinProposal("t", "d", meta), "RegisterCoin"
	case 3:
		content, name = aggregatetypes.NewRegisterERC20Proposal("t", "d", w.Target[0].Hex()), "RegisterERC20"
	case 4:
		content, name = aggregatetypes.NewToggleTokenRelayProposal("t", "d", "acoin"), "ToggleTokenRelay"
	case 5:
		content, name = aggregatetypes.NewRegisterERC20TraceProposal("t", "d", w.Target[0].Hex(), "0x00000000000000000000000000000000000000bb", "far-chain", 0), "RegisterERC20Trace"
	case 6:
		content, name = aggregatetypes.NewEnableTimeBasedSupplyLimitProposal("t", "d", w.NTok[0+1].Hex(), "100", "1000", "100", "1"), "EnableTimeBasedSupplyLimit"
	default:
		content, name = aggregatetypes.NewDisableTimeBasedSupplyLimitProposal("t", "d", w.NTok[0+1].Hex()), "DisableTimeBasedSupplyLimit"
	}
	if err := content.ValidateBasic(); err != nil {
		kit.Failf("proposal %s invalid: %v", name, err)
	}
	msg, err := govtypes.NewMsgSubmitProposal(content, sdk.NewCoins(sdk.NewInt64Coin(sdk.DefaultBondDenom, 100)), w.Users[0].Acc)
	kit.Must(err, "submit proposal msg")
	res := c0.Deliver(w.Users[0], msg)
	if res.OK() {
		s.props++
		s.kind("proposal:" + name)
	} else {
		s.kind("proposal(rejected at submission):" + name)
	}
}

func (s *scen) voteProposals() {
	c0 := s.w.Chains[0]
	var ids []uint64
	c0.App.GovKeeper.IterateActiveProposalsQueue(c0.Ctx(), c0.Now.Add(1000*time.Hour), func(p govtypes.Proposal) bool {
		ids = append(ids, p.ProposalId)
		return false
	})
	for _, id := range ids {
		if _, voted := c0.App.GovKeeper.GetVote(c0.Ctx(), id, s.w.Users[0].Acc); voted {
			continue
		}
		c0.Deliver(s.w.Users[0], govtypes.NewMsgVote(s.w.Users[0].Acc, id, govtypes.OptionYes))
		s.kind("MsgVote")
	}
}

func traceDigest(tr []string) string {
	h := sha256.New()
	for _, l := range tr {
		h.Write([]byte(l))
		h.Write([]byte{'\n'})
	}
	return fmt.Sprintf("%x", h.Sum(nil)[:12])
}
