package c09

import (
	"fmt"
	"math/big"
	"testing"
	"time"

	"github.com/ethereum/go-ethereum/common"
	"github.com/ethereum/go-ethereum/crypto"

	bsctypes "github.com/teleport-network/teleport/x/xibc/clients/light-clients/bsc/types"

	"verif/harness/kf"
	"verif/harness/kit"
	"verif/harness/rec"
	"verif/harness/sim/bscsim"
)

// pinnedWorld creates a BSC client at genesis height g with the n lowest keys of a fixed seed as
// validator list (in force and announced), sealed by gSealer (index into the sorted list).
func pinnedWorld(r *rec.Recorder, n int, E, g uint64, gSealer int) (*world, []common.Address) {
	c := baseChain()
	ctx, _ := c.Ctx().CacheContext()
	w := &world{r: r, c: c, ctx: ctx, idx: map[common.Address]int{}, classes: map[string]bool{}, rejectedAt: map[uint64]bool{}, chainID: 56}
	var list []common.Address
	for i := 0; i < n+1; i++ {
		k := bscsim.KeyFromSeed([]byte("c09-pinned"), i)
		w.keys = append(w.keys, k)
		w.idx[k.Addr] = i
		if i < n {
			list = append(list, k.Addr)
		}
	}
	list = bscsim.Sorted(list)
	w.sets = [][]common.Address{list, list, list, list, list}
	gh := &bscsim.Header{
		ParentHash: crypto.Keccak256Hash([]byte("pinned parent")), UncleHash: bscsim.EmptyUncleHash, Coinbase: list[gSealer],
		Root: crypto.Keccak256Hash([]byte("pinned root")), Difficulty: big.NewInt(1), Number: g, GasLimit: 30000000, GasUsed: 1,
		Time: uint64(c.Now.Unix()),
	}
	if bscsim.InTurn(list, g, list[gSealer]) {
		gh.Difficulty = big.NewInt(2)
	}
	gh.Extra = bscsim.BuildExtra([32]byte{}, bscsim.AddrBytes(list))
	bscsim.Seal(gh, w.key(list[gSealer]), w.chainID)
	var vals [][]byte
	for _, a := range list {
		vals = append(vals, a.Bytes())
	}
	cs := &bsctypes.ClientState{Header: *gh.ToProto(), ChainId: w.chainID, Epoch: E, BlockInteval: 3, Validators: vals,
		ContractAddress: make([]byte, 20), TrustingPeriod: 1 << 40}
	cons := &bsctypes.ConsensusState{Timestamp: gh.Time, Height: cs.Header.Height, Root: gh.Root.Bytes()}
	kit.Must(c.App.XIBCKeeper.ClientKeeper.CreateClient(ctx, clientName, cs, cons), "pinned CreateClient")
	w.m = &Model{E: E, HeadNum: g, HeadHash: gh.Hash(), HeadGas: gh.GasLimit, Genesis: g, Floor: g,
		Vals: list, Pending: list, Sealed: map[uint64]common.Address{g: list[gSealer]}, Roots: map[uint64]common.Hash{g: gh.Root}}
	w.headTime = gh.Time
	w.cfg = map[string]interface{}{"N": n, "E": E, "genesis": g}
	return w, list
}

// plainNext builds and seals the next header by `sealer` with the difficulty of its turn.
func (w *world) plainNext(sealer common.Address) *bscsim.Header {
	n := w.m.HeadNum + 1
	h := &bscsim.Header{
		ParentHash: w.m.HeadHash, UncleHash: bscsim.EmptyUncleHash, Coinbase: sealer,
		Root: crypto.Keccak256Hash([]byte(fmt.Sprintf("root %d", n))), Difficulty: new(big.Int).Set(w.turnDiff(sealer)),
		Number: n, GasLimit: w.m.HeadGas, GasUsed: 0, Time: w.headTime + 3,
	}
	var mid []byte
	if n%w.m.E == 0 {
		mid = bscsim.AddrBytes(w.listFor(n))
	}
	h.Extra = bscsim.BuildExtra([32]byte{}, mid)
	bscsim.Seal(h, w.key(sealer), w.chainID)
	return h
}

// probe runs UpdateClient on a branch that is always discarded.
func (w *world) probe(h *bsctypes.Header) error {
	saved := w.ctx
	defer func() { w.ctx = saved }()
	w.ctx, _ = saved.CacheContext()
	return w.deliver(h)
}

// TestC09_Known_LowHeightRecentWindow: client created at height 0; a validator that sealed one of the
// last floor(N/2) blocks seals again at a height below floor(N/2)+1. The same sequence at a high
// genesis height is the control (there the client rejects it).
func TestC09_Known_LowHeightRecentWindow(t *testing.T) {
	r := rec.For("TestC09_Known_LowHeightRecentWindow", "pinned: genesis at height 0, a sealer from inside the recent window seals a height < floor(N/2)+1")
	type scenario struct {
		n       int
		E, g    uint64
		advance int // valid blocks before the repeat attempt
	}
	accepted := []string{}
	for _, sc := range []scenario{{2, 2, 0, 0}, {9, 6, 0, 0}, {9, 6, 0, 2}, {2, 2, 200, 0}, {9, 6, 600, 2}} {
		w, list := pinnedWorld(r, sc.n, sc.E, sc.g, 0)
		for i := 0; i < sc.advance; i++ {
			el := w.eligible()
			h := w.plainNext(el[0])
			if err := w.deliver(h.ToProto()); err != nil {
				kit.Failf("pinned: valid header #%d rejected: %v", h.Number, err)
			}
			w.m.Apply(describe(h, ptr(el[0])))
			w.headTime = h.Time
		}
		// the genesis sealer (list[0]) is inside the window of floor(N/2) >= 1 blocks in every scenario
		rep := list[0]
		if w.m.LastSealedWithin(rep, w.m.HeadNum+1) == 0 {
			kit.Failf("pinned: scenario %+v does not put the sealer inside the window", sc)
		}
		h := w.plainNext(rep)
		err := w.probe(h.ToProto())
		low := sc.g == 0
		var sample func() interface{}
		if sc.n == 9 && sc.advance == 2 { // one defect case and its control are enough as samples
			sample = func() interface{} {
				return map[string]interface{}{"N": sc.n, "E": sc.E, "genesis": sc.g, "sealer_of": sc.g, "seals_again_at": h.Number, "accepted": err == nil}
			}
		}
		r.Case(fmt.Sprintf("%+v", sc), true, sample)
		switch {
		case err == nil && low:
			accepted = append(accepted, fmt.Sprintf("N=%d genesis=0: sealer of #%d seals #%d", sc.n, h.Number-w.m.LastSealedWithin(rep, h.Number), h.Number))
		case err == nil:
			t.Fatalf("control failed: N=%d genesis=%d repeat sealer accepted at #%d", sc.n, sc.g, h.Number)
		}
		// positive control: an eligible validator is accepted at the same height
		el := w.eligible()
		if err := w.deliver(w.plainNext(el[0]).ToProto()); err != nil {
			t.Fatalf("control failed: eligible sealer rejected at #%d (N=%d genesis=%d): %v", h.Number, sc.n, sc.g, err)
		}
	}
	if len(accepted) == 0 {
		return // no longer reproduces
	}
	if kf.Listed("C09", "low-height-recent-window") {
		kf.Report("C09", "low-height-recent-window")
		r.KnownFinding("low-height-recent-window", fmt.Sprint(accepted))
		return
	}
	t.Fatalf("recently-signed sealer accepted at low heights: %v", accepted)
}

// TestC09_Known_PruneDeletesSigner: N = 6 (a sealer must stay out for 3 blocks), trusting period 1000 s.
// k0 seals the genesis header #600 whose consensus state is 990 s old; k1 seals #601; 20 s of chain
// time pass (the consensus state of #600 is now expired, that of #601 is not); k2 seals #602 - during
// that update the expired consensus state is pruned together with the recent-signer record of #600;
// k0 then seals #603 although it sealed one of the last 3 blocks. Control: the same sequence without
// the 20 s (nothing expires) rejects #603.
func TestC09_Known_PruneDeletesSigner(t *testing.T) {
	r := rec.For("TestC09_Known_PruneDeletesSigner", "pinned: expiry of the earliest consensus state inside the recent window deletes that height's signer record")
	run := func(pass time.Duration) error {
		w, list := pinnedWorld(r, 6, 6, 600, 0)
		k := w.c.App.XIBCKeeper.ClientKeeper
		csI, _ := k.GetClientState(w.ctx, clientName)
		cs := csI.(*bsctypes.ClientState)
		cs.TrustingPeriod = 1000
		k.SetClientState(w.ctx, clientName, cs)
		now := uint64(w.c.Now.Unix())
		consI, _ := k.GetClientConsensusState(w.ctx, clientName, cs.Header.Height)
		cons := consI.(*bsctypes.ConsensusState)
		cons.Timestamp = now - 990
		k.SetClientConsensusState(w.ctx, clientName, cs.Header.Height, cons)
		w.headTime = now
		step := func(i int) error {
			h := w.plainNext(list[i])
			err := w.deliver(h.ToProto())
			if err == nil {
				w.m.Apply(describe(h, ptr(list[i])))
				w.headTime = h.Time
			}
			return err
		}
		kit.Must(step(1), "pinned #601")
		w.ctx = w.ctx.WithBlockTime(w.c.Now.Add(pass))
		kit.Must(step(2), "pinned #602")
		if w.m.LastSealedWithin(list[0], 603) != 3 {
			kit.Failf("pinned: k0 is not inside the window")
		}
		return step(0)
	}
	if err := run(0); err == nil {
		t.Fatalf("control failed: without expiry the sealer of #600 was accepted at #603")
	}
	err := run(20 * time.Second)
	r.Case("expiry", true, func() interface{} {
		return map[string]interface{}{"N": 6, "trusting_period_s": 1000, "genesis_age_s": 990, "time_passed_s": 20, "603_by_sealer_of_600_accepted": err == nil}
	})
	r.Case("control", true, nil)
	if err != nil {
		return // no longer reproduces
	}
	if kf.Listed("C09", "prune-deletes-signer") {
		kf.Report("C09", "prune-deletes-signer")
		r.KnownFinding("prune-deletes-signer", "sealer of #600 accepted at #603 (N=6) after the consensus state of #600 expired")
		return
	}
	t.Fatalf("sealer of #600 accepted at #603 (N=6, window 3) after the consensus state of #600 expired and was pruned")
}
