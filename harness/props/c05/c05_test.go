// C05 — acknowledgement lifecycle: one ack per delivered packet, processed at most once.
package c05

import (
	"bytes"
	"crypto/sha256"
	"fmt"
	"math/big"
	"sort"
	"strings"
	"testing"

	"pgregory.net/rapid"

	packetcontract "github.com/teleport-network/teleport/syscontracts/xibc_packet"
	"github.com/teleport-network/teleport/x/xibc/core/host"
	packettypes "github.com/teleport-network/teleport/x/xibc/core/packet/types"

	"verif/harness/kit"
	"verif/harness/rec"
	"verif/harness/sim/bridge"
)

func TestMain(m *testing.M) { rec.Main(m) }

const rule = "rapid state machine over 2-3 real chains: sends whose destination execution succeeds / reverts / fails in a hook / hits an unbound token, receives, genuine acks, " +
	"duplicate acks, conflicting acks (code, result, message, relayer or fee option altered under the genuine proof), acks for packets not yet received, acks by the other relayer and at other heights; " +
	"non-trivial = >= 1 packet that gets >= 2 acknowledgement attempts of which one succeeds; distinct by (attempt order, conflict kinds, callback outcome)"

type ctl struct {
	m              *bridge.Machine
	acks           []map[string]string // per chain: acks/ key -> value (monotone)
	commits        []map[string]string // per chain: own commitments present after last step
	status         []map[string]uint8  // per chain: dst/seq -> ack status (monotone once set)
	attempts       map[bridge.Triple][]string
	allowedRemoval map[string]bool // commitment keys whose removal is justified in the current step
	nontrivial     bool
}

func ackKey(t bridge.Triple) string {
	return string(host.PacketAcknowledgementKey(t.Src, t.Dst, t.Seq))
}
func comKey(t bridge.Triple) string { return string(host.PacketCommitmentKey(t.Src, t.Dst, t.Seq)) }
func rcpKey(t bridge.Triple) string { return string(host.PacketReceiptKey(t.Src, t.Dst, t.Seq)) }

// expectedAck computes, on a throw-away branch of the destination state, what the destination callback answers.
func (c *ctl) expectedAck(p *bridge.Pkt, relayer kit.Account) packettypes.Acknowledgement {
	ch := c.m.W.Chains[p.DstIdx]
	cctx, _ := ch.Ctx().CacheContext()
	relAddr, _ := ch.App.XIBCKeeper.ClientKeeper.GetRelayerAddressOnOtherChain(cctx, p.P.SrcChain, relayer.Acc.String())
	res, err := ch.App.XIBCKeeper.PacketKeeper.CallPacket(cctx, "onRecvPacket", p.P)
	if err != nil {
		return packettypes.NewAcknowledgement(1, []byte{}, "receive packet callback failed", relAddr, p.P.FeeOption)
	}
	var result packettypes.Result
	kit.Must(packetcontract.PacketContract.ABI.UnpackIntoInterface(&result, "onRecvPacket", res.Ret), "unpack result")
	return packettypes.NewAcknowledgement(result.Code, result.Result, result.Message, relAddr, p.P.FeeOption)
}

func (c *ctl) recvFresh(t *rapid.T) {
	m := c.m
	w := m.W
	ps := m.Pending()
	if len(ps) == 0 {
		t.Skip("nothing deliverable")
	}
	p := ps[rapid.IntRange(0, len(ps)-1).Draw(t, "pkt")]
	hs := w.ProofHeightsFor(p.DstIdx, p.SrcIdx, p.SentAt)
	h := hs[rapid.IntRange(0, len(hs)-1).Draw(t, "height")]
	rel := w.Rels[rapid.IntRange(0, 1).Draw(t, "rel")]
	want := c.expectedAck(p, rel)
	o := w.DeliverDumped(p.DstIdx, rel, w.RecvMsg(p, p.Bz, h, rel.Acc))
	if !o.Res.OK() {
		m.Failf("positive control: first receive of genuine packet %s rejected: %s", p.T, bridge.Short(o.Res.Log))
	}
	w.NoteRecv(p.DstIdx, p, o.Res, rel)
	m.Accepted++
	// exactly one ack key for the same triple, in the same transaction
	var added []string
	for _, e := range kit.Diff(o.Before, o.After) {
		if e.Store != "xibc" {
			continue
		}
		k := string(e.Key)
		if strings.HasPrefix(k, "acks/") || strings.HasPrefix(k, "receipts/") {
			if e.Before != nil {
				m.Failf("receive of %s modified existing key %q", p.T, k)
			}
			added = append(added, k)
		}
	}
	sort.Strings(added)
	wantKeys := []string{ackKey(p.T), rcpKey(p.T)}
	sort.Strings(wantKeys)
	if strings.Join(added, ",") != strings.Join(wantKeys, ",") {
		m.Failf("receive of %s added receipt/ack keys %q, expected exactly %q", p.T, added, wantKeys)
	}
	if len(p.AckBz) == 0 {
		m.Failf("accepted receive of %s emitted no EventWriteAck", p.T)
	}
	stored, _ := w.Chains[p.DstIdx].App.XIBCKeeper.PacketKeeper.GetPacketAcknowledgement(w.Chains[p.DstIdx].Ctx(), p.T.Src, p.T.Dst, p.T.Seq)
	sum := sha256.Sum256(p.AckBz)
	if !bytes.Equal(stored, sum[:]) {
		m.Failf("stored acknowledgement of %s is %x, sha256 of the emitted ack bytes is %x", p.T, stored, sum)
	}
	got := p.Ack
	if got.Code != want.Code || !bytes.Equal(got.Result, want.Result) || got.Message != want.Message || got.Relayer != want.Relayer || got.FeeOption != want.FeeOption {
		m.Failf("acknowledgement of %s is {code %d result %x msg %q relayer %s fee %d}; the callback on a branch of the same state answers {code %d result %x msg %q relayer %s fee %d}",
			p.T, got.Code, got.Result, got.Message, got.Relayer, got.FeeOption, want.Code, want.Result, want.Message, want.Relayer, want.FeeOption)
	}
	// independent of the code under test (the expectation above runs the packet contract through the module's own EVM
	// helper): three call kinds are built so that the destination execution cannot complete - the post-processing of its
	// EVM execution fails (staking hook on an invalid validator, onward packet to a chain without client) - so whatever
	// happens before, the callback never succeeds and a success acknowledgement is impossible
	if got.Code == 0 && (p.Call == "hookfail" || p.Call == "nested-unknown" || p.Call == "agent:no-such-chain") {
		m.Failf("packet %s (call kind %s: its destination execution cannot complete) was acknowledged as SUCCESS", p.T, p.Call)
	}
	m.R.Label(fmt.Sprintf("recv_ack_code_%d_call_%s", p.Ack.Code, p.Call))
	m.Log("recv", fmt.Sprintf("%s call=%s", p.T, p.Call), fmt.Sprintf("ack code=%d", p.Ack.Code))
}

// ackAttempt delivers an acknowledgement message in a chosen variant.
func (c *ctl) ackAttempt(t *rapid.T) {
	m := c.m
	w := m.W
	var cands []*bridge.Pkt
	for _, p := range m.ReceivedPkts() {
		if len(p.AckBz) > 0 && len(w.ProofHeightsFor(p.SrcIdx, p.DstIdx, p.RecvAt)) > 0 {
			cands = append(cands, p)
		}
	}
	if len(cands) == 0 {
		t.Skip("no ack provable")
	}
	p := cands[rapid.IntRange(0, len(cands)-1).Draw(t, "pkt")]
	variant := rapid.SampledFrom([]string{"genuine", "genuine", "genuine", "flip-code", "alter-message", "alter-result", "alter-relayer", "alter-fee-option", "other-packet-ack", "unknown-height", "alter-packet-body", "alter-packet-body"}).Draw(t, "variant")
	hs := w.ProofHeightsFor(p.SrcIdx, p.DstIdx, p.RecvAt)
	h := hs[rapid.IntRange(0, len(hs)-1).Draw(t, "height")]
	rel := w.Rels[rapid.IntRange(0, 1).Draw(t, "rel")]
	ackBz := p.AckBz
	a := p.Ack
	switch variant {
	case "flip-code":
		if a.Code == 0 {
			a.Code = 1
		} else {
			a.Code = 0
		}
	case "alter-message":
		a.Message += "x"
	case "alter-result":
		a.Result = append(append([]byte{}, a.Result...), 1)
	case "alter-relayer":
		a.Relayer = w.Outsider.Acc.String()
	case "alter-fee-option":
		a.FeeOption++
	case "other-packet-ack":
		var q *bridge.Pkt
		for _, x := range cands {
			if x != p && x.SrcIdx == p.SrcIdx && !bytes.Equal(x.AckBz, p.AckBz) {
				q = x
			}
		}
		if q == nil {
			variant = "genuine"
		} else {
			ackBz = q.AckBz
		}
	}
	if strings.HasPrefix(variant, "flip") || strings.HasPrefix(variant, "alter") {
		var err error
		ackBz, err = a.ABIPack()
		kit.Must(err, "pack ack")
	}
	msg := kit.MsgAck(w.Chains[p.DstIdx], p.Bz, ackBz, h, rel.Acc)
	if variant == "alter-packet-body" {
		// same (source, destination, sequence), genuine ack bytes and proof, but another packet body
		q := p.P
		switch rapid.IntRange(0, 3).Draw(t, "bodyField") {
		case 0:
			q.Sender = strings.ToLower(w.Outsider.Addr.String())
		case 1:
			q.FeeOption++
		case 2:
			q.CallbackAddress = strings.ToLower(w.Outsider.Addr.String())
		default:
			q.TransferData = append(append([]byte{}, q.TransferData...), 0)
		}
		nb, err := q.ABIPack()
		kit.Must(err, "pack altered packet")
		msg.Packet = nb
	}
	if variant == "unknown-height" {
		msg.ProofHeight = bridge.H(msg.ProofHeight.RevisionNumber, msg.ProofHeight.RevisionHeight+1000)
	}
	src := w.Chains[p.SrcIdx]
	sb := w.SenderSide(p)
	rb := []*big.Int{w.Balance(p.SrcIdx, p.FeeTok, w.Rels[0].Addr), w.Balance(p.SrcIdx, p.FeeTok, w.Rels[1].Addr)}
	wasAcked := p.Acked
	cbBefore := w.CounterValue(p.SrcIdx)
	if variant == "genuine" && !wasAcked {
		c.allowedRemoval[comKey(p.T)] = true
	}
	moodyUnfunded := p.CallbackAddr == w.Moody && !w.MoodyFunded(p.SrcIdx)
	o := w.DeliverDumped(p.SrcIdx, rel, msg)
	if variant == "genuine" && !wasAcked && moodyUnfunded {
		m.R.Label(fmt.Sprintf("genuine_first_ack_while_the_sender_callback_reverts:accepted=%v", o.Res.OK()))
	}
	c.attempts[p.T] = append(c.attempts[p.T], variant+fmt.Sprintf("/ok=%v", o.Res.OK()))
	switch {
	case variant != "genuine" || wasAcked:
		kind := variant
		if wasAcked {
			kind = "duplicate-" + variant
		}
		if o.Res.OK() {
			m.Failf("acknowledgement attempt (%s) for %s was accepted (already acked: %v)", kind, p.T, wasAcked)
		}
		if !o.Unchanged() {
			m.Failf("rejected acknowledgement attempt (%s) for %s changed state:\n%s", kind, p.T, o.DiffString())
		}
		m.R.Label("ack_rejected_" + kind)
		m.Log("ack", fmt.Sprintf("%s %s", p.T, kind), "rejected, state unchanged")
	case o.Res.OK():
		p.Acked = true
		p.AckedAt = src.Header.Height
		m.Accepted++
		// outcome recorded once
		st := src.AckStatus(p.P.DstChain, p.P.Sequence)
		want := uint8(1)
		if p.Ack.Code != 0 {
			want = 2
			p.Refunded = true
		}
		if st != want {
			m.Failf("ack (code %d) of %s processed but ack status = %d, expected %d", p.Ack.Code, p.T, st, want)
		}
		// commitment removed
		if src.App.XIBCKeeper.PacketKeeper.HasPacketCommitment(src.Ctx(), p.T.Src, p.T.Dst, p.T.Seq) {
			m.Failf("ack of %s processed but its commitment is still stored", p.T)
		}
		// relayer fee paid exactly once to the relayer that delivered the receive
		r0 := new(big.Int).Sub(w.Balance(p.SrcIdx, p.FeeTok, w.Rels[0].Addr), rb[0])
		r1 := new(big.Int).Sub(w.Balance(p.SrcIdx, p.FeeTok, w.Rels[1].Addr), rb[1])
		paid := r0
		other := r1
		if p.AckRelayer.Acc.Equals(w.Rels[1].Acc) {
			paid, other = r1, r0
		}
		if paid.Cmp(p.Fee) != 0 || other.Sign() != 0 {
			m.Failf("ack of %s processed: fee %s, receiving relayer got %s, other relayer got %s", p.T, p.Fee, paid, other)
		}
		sd := new(big.Int).Sub(w.SenderSide(p), sb)
		wantSd := big.NewInt(0)
		if p.Ack.Code != 0 {
			wantSd = p.Amount
		}
		if sd.Cmp(wantSd) != 0 {
			m.Failf("ack (code %d) of %s processed: sender balance changed by %s, expected %s", p.Ack.Code, p.T, sd, wantSd)
		}
		// the sender's callback runs exactly once per processed acknowledgement (and only if one was named)
		cbDelta := w.CounterValue(p.SrcIdx) - cbBefore
		wantCb := uint64(0)
		if p.Callback {
			wantCb = 1
		}
		if cbDelta != wantCb {
			m.Failf("ack (code %d) of %s processed: the sender's callback contract was called %d times, expected %d", p.Ack.Code, p.T, cbDelta, wantCb)
		}
		if p.Callback {
			m.R.Label(fmt.Sprintf("callback_ran_once_code_%d", p.Ack.Code))
		}
		m.R.Label(fmt.Sprintf("ack_processed_code_%d", p.Ack.Code))
		m.Log("ack", fmt.Sprintf("%s genuine code=%d", p.T, p.Ack.Code), "processed")
	default:
		// a genuine first acknowledgement may be refused by the packet contract's own processing (e.g. the
		// refund of a call-only packet); the property only demands that nothing changes then
		if !o.Unchanged() {
			m.Failf("refused genuine acknowledgement for %s changed state:\n%s", p.T, o.DiffString())
		}
		delete(c.allowedRemoval, comKey(p.T))
		p.AckTried = true
		m.R.Label("ack_genuine_refused")
		switch lg := o.Res.Log; {
		case strings.Contains(lg, "relayer"):
			m.R.Label("ack_genuine_refused:relayer_address_not_registered")
		case strings.Contains(lg, "OnAcknowledgePacket") || strings.Contains(lg, "revert"):
			m.R.Label("ack_genuine_refused:sender_side_processing_reverted")
		default:
			m.R.Label("ack_genuine_refused:other")
		}
		m.Log("ack", fmt.Sprintf("%s genuine", p.T), "refused: "+bridge.Short(o.Res.Log))
	}
	okN, n := 0, len(c.attempts[p.T])
	for _, a := range c.attempts[p.T] {
		if strings.HasSuffix(a, "ok=true") {
			okN++
		}
	}
	if n >= 2 && okN == 1 {
		c.nontrivial = true
	}
}

// ackUnreceived: an acknowledgement for a packet this chain sent but the destination has not received.
func (c *ctl) ackUnreceived(t *rapid.T) {
	m := c.m
	w := m.W
	var unrec, recvd []*bridge.Pkt
	for _, p := range w.Pkts {
		if p.SrcIdx < 0 || p.DstIdx < 0 {
			continue
		}
		if !p.Received {
			unrec = append(unrec, p)
		} else if len(p.AckBz) > 0 && len(w.ProofHeightsFor(p.SrcIdx, p.DstIdx, p.RecvAt)) > 0 {
			recvd = append(recvd, p)
		}
	}
	if len(unrec) == 0 || len(recvd) == 0 {
		t.Skip("need an unreceived and a received packet")
	}
	p := unrec[rapid.IntRange(0, len(unrec)-1).Draw(t, "pkt")]
	var q *bridge.Pkt
	for _, x := range recvd {
		if x.SrcIdx == p.SrcIdx && x.DstIdx == p.DstIdx {
			q = x
		}
	}
	if q == nil {
		t.Skip("no received packet on the same path")
	}
	hs := w.ProofHeightsFor(q.SrcIdx, q.DstIdx, q.RecvAt)
	rel := w.Rels[rapid.IntRange(0, 1).Draw(t, "rel")]
	// proof of q's acknowledgement, presented for p
	msg := kit.MsgAck(w.Chains[q.DstIdx], q.Bz, q.AckBz, hs[len(hs)-1], rel.Acc)
	msg.Packet = p.Bz
	o := w.DeliverDumped(p.SrcIdx, rel, msg)
	if o.Res.OK() {
		m.Failf("acknowledgement for unreceived packet %s (with the proof of %s) accepted", p.T, q.T)
	}
	if !o.Unchanged() {
		m.Failf("rejected acknowledgement for unreceived packet %s changed state:\n%s", p.T, o.DiffString())
	}
	m.R.Label("ack_rejected_unreceived")
	m.Log("ackUnreceived", p.T.String(), "rejected, state unchanged")
}

func (c *ctl) check() {
	m := c.m
	w := m.W
	m.R.Step()
	for ci, ch := range w.Chains {
		ctx := ch.Ctx()
		cur := map[string]string{}
		for _, a := range ch.App.XIBCKeeper.PacketKeeper.GetAllPacketAcks(ctx) {
			cur[ackKey(bridge.Triple{Src: a.SrcChain, Dst: a.DstChain, Seq: a.Sequence})] = fmt.Sprintf("%x", a.Data)
		}
		for k, v := range c.acks[ci] {
			if nv, ok := cur[k]; !ok {
				m.Failf("chain %d: stored acknowledgement %q was removed", ci, k)
			} else if nv != v {
				m.Failf("chain %d: stored acknowledgement %q was overwritten (%s -> %s)", ci, k, v, nv)
			}
		}
		c.acks[ci] = cur
		coms := map[string]string{}
		for _, pc := range ch.App.XIBCKeeper.PacketKeeper.GetAllPacketCommitments(ctx) {
			coms[comKey(bridge.Triple{Src: pc.SrcChain, Dst: pc.DstChain, Seq: pc.Sequence})] = fmt.Sprintf("%x", pc.Data)
		}
		for k := range c.commits[ci] {
			if _, ok := coms[k]; !ok && !c.allowedRemoval[k] {
				m.Failf("chain %d: commitment %q disappeared without a verified acknowledgement of exactly that packet in this step", ci, k)
			}
		}
		c.commits[ci] = coms
		// recorded outcomes never change
		for _, p := range w.Pkts {
			if p.SrcIdx != ci || p.DstIdx < 0 {
				continue
			}
			k := fmt.Sprintf("%s/%d", p.P.DstChain, p.P.Sequence)
			st := ch.AckStatus(p.P.DstChain, p.P.Sequence)
			if old, ok := c.status[ci][k]; ok && old != 0 && st != old {
				m.Failf("chain %d: ack status of %s changed %d -> %d", ci, p.T, old, st)
			}
			if st != 0 && !p.Acked {
				m.Failf("chain %d: ack status of %s is %d but no acknowledgement was processed", ci, p.T, st)
			}
			c.status[ci][k] = st
		}
	}
	c.allowedRemoval = map[string]bool{}
}

func run(t *rapid.T, r *rec.Recorder) {
	m := bridge.NewMachine(t, r)
	w := m.W
	c := &ctl{m: m, attempts: map[bridge.Triple][]string{}, allowedRemoval: map[string]bool{}}
	for range w.Chains {
		c.acks = append(c.acks, map[string]string{})
		c.commits = append(c.commits, map[string]string{})
		c.status = append(c.status, map[string]uint8{})
	}
	m.UseCallback = true
	acts := m.BaseActions()
	delete(acts, "ack")
	delete(acts, "ack2")
	acts["recvFresh"] = m.Wrap(c.recvFresh)
	acts["recvFresh2"] = m.Wrap(c.recvFresh)
	acts["ackAttempt"] = m.Wrap(c.ackAttempt)
	acts["ackAttempt2"] = m.Wrap(c.ackAttempt)
	acts["ackAttempt3"] = m.Wrap(c.ackAttempt)
	acts["ackUnreceived"] = m.Wrap(c.ackUnreceived)
	acts["limit"] = m.Wrap(m.ActLimit)
	acts["fundMoody"] = m.Wrap(m.ActFundMoody)
	acts["moveRelayerAddress"] = m.Wrap(m.ActMoveRelayerAddress)
	acts[""] = func(t *rapid.T) { m.T = t; c.check() }
	t.Repeat(acts)
	var shape []string
	for tr, as := range c.attempts {
		if len(as) >= 2 {
			p := w.ByTriple(tr)
			shape = append(shape, fmt.Sprintf("%s|code%d|%s", strings.Join(as, ">"), p.Ack.Code, p.Call))
		}
	}
	sort.Strings(shape)
	if len(shape) > 3 {
		shape = shape[:3]
	}
	r.Case(fmt.Sprintf("n=%d %v", len(w.Chains), shape), c.nontrivial, func() interface{} { return m.Hist })
}

func TestC05_AckLifecycle(t *testing.T) {
	r := rec.For("TestC05_AckLifecycle", rule)
	rapid.Check(t, func(t *rapid.T) { run(t, r) })
}
