package probe

import (
	"fmt"
	"math/big"
	"strings"
	"testing"
	"time"

	"github.com/ethereum/go-ethereum/common"
	"github.com/teleport-network/teleport/syscontracts"
	erc20contracts "github.com/teleport-network/teleport/syscontracts/erc20"
	stakingcontract "github.com/teleport-network/teleport/syscontracts/staking"
	endpointcontract "github.com/teleport-network/teleport/syscontracts/xibc_endpoint"
	packettypes "github.com/teleport-network/teleport/x/xibc/core/packet/types"

	"verif/harness/kit"
)

func TestProbeFailures(t *testing.T) {
	accts := []kit.Account{kit.NewAccount([]byte("u0")), kit.NewAccount([]byte("u1")), kit.NewAccount([]byte("r0"))}
	a := kit.NewChain("teleport_9000-1", kit.ChainOpts{Seed: []byte("A"), Accounts: accts})
	b := kit.NewChain("teleport_9001-1", kit.ChainOpts{Seed: []byte("B"), Accounts: accts})
	a.Commit(5 * time.Second)
	b.Commit(5 * time.Second)
	a.CreateTMClient(b, 0)
	b.CreateTMClient(a, 0)
	rel := accts[2]
	a.RegisterRelayer(rel.Acc, []string{b.ChainID}, []string{rel.Acc.String()})
	b.RegisterRelayer(rel.Acc, []string{a.ChainID}, []string{rel.Acc.String()})
	tokA := a.DeployERC20("tok", "TOK", 18)
	tokB := b.DeployERC20("tok", "TOK", 18)
	tokA2 := a.DeployERC20("tok2", "TOK2", 18) // unbound on B
	user := accts[0]
	a.MintERC20(tokA, user.Addr, big.NewInt(100000))
	a.MintERC20(tokA2, user.Addr, big.NewInt(100000))
	kit.Must(b.BindToken(tokB, strings.ToLower(tokA.String()), a.ChainID, 0), "bind")
	a.Commit(5 * time.Second)
	b.Commit(5 * time.Second)
	a.Approve(user, tokA, endpointcontract.EndpointContractAddress, big.NewInt(50000))
	a.Approve(user, tokA2, endpointcontract.EndpointContractAddress, big.NewInt(50000))

	erc := erc20contracts.ERC20MinterBurnerDecimalsContract.ABI
	revertCall, _ := erc.Pack("transfer", accts[1].Addr, big.NewInt(5)) // execute has no balance -> revert
	okCall, _ := erc.Pack("approve", accts[1].Addr, big.NewInt(5))
	badDelegate, _ := stakingcontract.StakingContract.ABI.Pack("delegate", "teleportvaloper1zzzz", big.NewInt(1))

	type sc struct {
		name string
		d    packettypes.CrossChainData
	}
	recv := strings.ToLower(accts[1].Addr.String())
	cases := []sc{
		{"callonly-revert", packettypes.CrossChainData{DstChain: b.ChainID, TokenAddress: common.Address{}, Receiver: "", Amount: big.NewInt(0), ContractAddress: strings.ToLower(tokB.String()), CallData: revertCall}},
		{"callonly-ok", packettypes.CrossChainData{DstChain: b.ChainID, TokenAddress: common.Address{}, Receiver: "", Amount: big.NewInt(0), ContractAddress: strings.ToLower(tokB.String()), CallData: okCall}},

		{"plain", packettypes.CrossChainData{DstChain: b.ChainID, TokenAddress: tokA, Receiver: recv, Amount: big.NewInt(1000), CallData: []byte{}}},
		{"okcall", packettypes.CrossChainData{DstChain: b.ChainID, TokenAddress: tokA, Receiver: recv, Amount: big.NewInt(1000), ContractAddress: strings.ToLower(tokB.String()), CallData: okCall}},
		{"revertcall", packettypes.CrossChainData{DstChain: b.ChainID, TokenAddress: tokA, Receiver: recv, Amount: big.NewInt(1000), ContractAddress: strings.ToLower(tokB.String()), CallData: revertCall}},
		{"hookfail", packettypes.CrossChainData{DstChain: b.ChainID, TokenAddress: tokA, Receiver: recv, Amount: big.NewInt(1000), ContractAddress: syscontracts.StakingContractAddress, CallData: badDelegate}},
		{"unbound", packettypes.CrossChainData{DstChain: b.ChainID, TokenAddress: tokA2, Receiver: recv, Amount: big.NewInt(1000), CallData: []byte{}}},
		{"badreceiver", packettypes.CrossChainData{DstChain: b.ChainID, TokenAddress: tokA, Receiver: "nothex", Amount: big.NewInt(1000), CallData: []byte{}}},
		{"native", packettypes.CrossChainData{DstChain: b.ChainID, TokenAddress: common.Address{}, Receiver: recv, Amount: big.NewInt(1000), CallData: []byte{}}},
		{"callonly-revert", packettypes.CrossChainData{DstChain: b.ChainID, TokenAddress: common.Address{}, Receiver: "", Amount: big.NewInt(0), ContractAddress: strings.ToLower(tokB.String()), CallData: revertCall}},
	}
	for _, cse := range cases {
		balBefore := b.ERC20Balance(tokB, accts[1].Addr)
		ub := big.NewInt(0)
		if cse.d.TokenAddress != (common.Address{}) {
			ub = a.ERC20Balance(cse.d.TokenAddress, user.Addr)
		}
		res := a.CrossChainCall(user, cse.d, packettypes.Fee{TokenAddress: cse.d.TokenAddress, Amount: big.NewInt(0)})
		if !res.Succeeded() {
			t.Logf("%s: SEND FAILED code=%d log=%s vm=%s", cse.name, res.Code, res.Log, res.VmError)
			continue
		}
		pk := kit.SentPackets(res.TxResult)
		a.Commit(5 * time.Second)
		a.Commit(5 * time.Second)
		kit.Must(okOrErr(b.Deliver(rel, b.MsgUpdateTMClient(a, a.LastHeader.Header.Height, rel.Acc))), "upd")
		d0 := b.DumpStores(b.Ctx(), "evm", "bank", "staking")
		rr := b.Deliver(rel, kit.MsgRecv(a, pk[0], b.ClientHeight(a.ChainID), rel.Acc))
		d1 := b.DumpStores(b.Ctx(), "evm", "bank", "staking")
		_, acks := kit.WrittenAcks(rr)
		var ack packettypes.Acknowledgement
		if len(acks) > 0 {
			ack.ABIDecode(acks[0])
		}
		if rr.Code == 0 {
			rr.Log = ""
		}
		t.Logf("%s: recv code=%d log=%q ack={code %d msg %q res %x} receiver delta=%v binding=%v evmdiff=%d", cse.name, rr.Code, rr.Log, ack.Code, ack.Message, ack.Result,
			new(big.Int).Sub(b.ERC20Balance(tokB, accts[1].Addr), balBefore), b.Bindings(tokB, a.ChainID).Amount, len(kit.Diff(d0, d1)))
		if len(acks) == 0 {
			continue
		}
		b.Commit(5 * time.Second)
		b.Commit(5 * time.Second)
		kit.Must(okOrErr(a.Deliver(rel, a.MsgUpdateTMClient(b, b.LastHeader.Header.Height, rel.Acc))), "upd")
		ar := a.Deliver(rel, kit.MsgAck(b, pk[0], acks[0], a.ClientHeight(b.ChainID), rel.Acc))
		p := kit.DecodePacket(pk[0])
		ua := big.NewInt(0)
		if cse.d.TokenAddress != (common.Address{}) {
			ua = a.ERC20Balance(cse.d.TokenAddress, user.Addr)
		}
		if ar.Code == 0 {
			ar.Log = ""
		}
		t.Logf("   ack code=%d log=%q status=%d user delta=%v out=%v", ar.Code, ar.Log+fmt.Sprint(ar.Events), a.AckStatus(b.ChainID, p.Sequence), new(big.Int).Sub(ua, ub), a.OutTokens(cse.d.TokenAddress, b.ChainID))
	}
}

type errS string

func (e errS) Error() string { return string(e) }
func okOrErr(r kit.TxResult) error {
	if r.OK() {
		return nil
	}
	return errS(r.Log)
}
