// Package tmsim is a simulated Tendermint counterparty for light-client checks (C07, C18, C13):
// ed25519 validators from seeds, per-height validator sets, headers and commits signed on demand
// (any signer subset, any per-signature fault), and an application state in a real cosmos-sdk
// rootmulti store on MemDB with an "xibc" IAVL store, so genuine ICS-23 proofs exist for any key at
// any produced height. Nothing here is random: every choice is an argument supplied by the caller.
package tmsim

import (
	"bytes"
	"fmt"
	"sort"
	"time"

	abci "github.com/tendermint/tendermint/abci/types"
	"github.com/tendermint/tendermint/crypto/ed25519"
	"github.com/tendermint/tendermint/crypto/tmhash"
	tmproto "github.com/tendermint/tendermint/proto/tendermint/types"
	tmprotoversion "github.com/tendermint/tendermint/proto/tendermint/version"
	tmtypes "github.com/tendermint/tendermint/types"
	"github.com/tendermint/tendermint/version"
	dbm "github.com/tendermint/tm-db"

	"github.com/cosmos/cosmos-sdk/store/rootmulti"
	storetypes "github.com/cosmos/cosmos-sdk/store/types"
	sdk "github.com/cosmos/cosmos-sdk/types"

	xibctmtypes "github.com/teleport-network/teleport/x/xibc/clients/light-clients/tendermint/types"
	clienttypes "github.com/teleport-network/teleport/x/xibc/core/client/types"
	commitmenttypes "github.com/teleport-network/teleport/x/xibc/core/commitment/types"
)

func must(err error, what string) {
	if err != nil {
		panic(fmt.Sprintf("HARNESS: tmsim: %s: %v", what, err))
	}
}

// Key is one validator identity.
type Key struct {
	Priv ed25519.PrivKey
	Pub  ed25519.PubKey
	Addr []byte
}

// NewKey derives a validator key from a seed.
func NewKey(seed []byte) Key {
	priv := ed25519.GenPrivKeyFromSecret(append([]byte("tmsim-val/"), seed...))
	pub := priv.PubKey().(ed25519.PubKey)
	return Key{Priv: priv, Pub: pub, Addr: pub.Address()}
}

// Member is a validator with a voting power.
type Member struct {
	Key   int // index into the chain's key pool
	Power int64
}

// Block is one produced block of the simulated chain.
type Block struct {
	Height   int64
	Time     time.Time
	Vals     *tmtypes.ValidatorSet // signs this block
	NextVals *tmtypes.ValidatorSet // signs the next block
	AppHash  []byte
	Version  int64             // version of the application store whose root is AppHash
	Header   tmtypes.Header    // the honest header
	KV       map[string][]byte // content of the xibc store at Version (the simulator's own record)
}

// Chain is the simulated counterparty.
type Chain struct {
	ChainID string
	Keys    []Key
	byAddr  map[string]int

	First, Last int64
	Blocks      map[int64]*Block

	ms   *rootmulti.Store
	keyX *sdk.KVStoreKey
	keyO *sdk.KVStoreKey
	kv   map[string][]byte
}

// KV is one write into the application's xibc store.
type KV struct {
	Key   []byte
	Value []byte // nil = delete
}

// NewChain creates the chain with its genesis block at firstHeight.
func NewChain(chainID string, keys []Key, firstHeight int64, t0 time.Time, vals0, next []Member, writes []KV) *Chain {
	c := &Chain{ChainID: chainID, Keys: keys, byAddr: map[string]int{}, Blocks: map[int64]*Block{}, kv: map[string][]byte{}}
	for i, k := range keys {
		c.byAddr[string(k.Addr)] = i
	}
	c.ms = rootmulti.NewStore(dbm.NewMemDB())
	c.keyX = sdk.NewKVStoreKey("xibc")
	c.keyO = sdk.NewKVStoreKey("other")
	c.ms.MountStoreWithDB(c.keyX, storetypes.StoreTypeIAVL, nil)
	c.ms.MountStoreWithDB(c.keyO, storetypes.StoreTypeIAVL, nil)
	must(c.ms.LoadLatestVersion(), "load store")
	c.ms.GetKVStore(c.keyO).Set([]byte("k"), []byte("v"))
	c.First = firstHeight
	c.Last = firstHeight - 1
	c.produce(t0, c.ValSet(vals0), c.ValSet(next), writes)
	return c
}

// ValSet builds a tendermint validator set from members (sorted the tendermint way).
func (c *Chain) ValSet(ms []Member) *tmtypes.ValidatorSet {
	vs := make([]*tmtypes.Validator, 0, len(ms))
	for _, m := range ms {
		vs = append(vs, tmtypes.NewValidator(c.Keys[m.Key].Pub, m.Power))
	}
	return tmtypes.NewValidatorSet(vs)
}

// KeyOf returns the pool index of the key with this address (-1 if unknown).
func (c *Chain) KeyOf(addr []byte) int {
	if i, ok := c.byAddr[string(addr)]; ok {
		return i
	}
	return -1
}

// Produce appends a block at Last+1 signed by the previous block's NextVals.
func (c *Chain) Produce(t time.Time, next []Member, writes []KV) *Block {
	prev := c.Blocks[c.Last]
	return c.produce(t, prev.NextVals, c.ValSet(next), writes)
}

func (c *Chain) produce(t time.Time, vals, next *tmtypes.ValidatorSet, writes []KV) *Block {
	st := c.ms.GetKVStore(c.keyX)
	for _, w := range writes {
		if w.Value == nil {
			st.Delete(w.Key)
			delete(c.kv, string(w.Key))
		} else {
			st.Set(w.Key, w.Value)
			c.kv[string(w.Key)] = append([]byte{}, w.Value...)
		}
	}
	cid := c.ms.Commit()
	h := c.Last + 1
	snap := make(map[string][]byte, len(c.kv))
	for k, v := range c.kv {
		snap[k] = v
	}
	b := &Block{Height: h, Time: t.UTC(), Vals: vals, NextVals: next, AppHash: cid.Hash, Version: cid.Version, KV: snap}
	b.Header = c.HonestHeader(b)
	c.Blocks[h] = b
	c.Last = h
	return b
}

func blockID(hash []byte, total uint32, partHash []byte) tmtypes.BlockID {
	return tmtypes.BlockID{Hash: hash, PartSetHeader: tmtypes.PartSetHeader{Total: total, Hash: partHash}}
}

// HonestHeader is the header the chain's validators really produced for block b.
func (c *Chain) HonestHeader(b *Block) tmtypes.Header {
	return tmtypes.Header{
		Version:            tmprotoversion.Consensus{Block: version.BlockProtocol, App: 2},
		ChainID:            c.ChainID,
		Height:             b.Height,
		Time:               b.Time,
		LastBlockID:        blockID(tmhash.Sum([]byte(fmt.Sprint("prev", b.Height))), 10_000, tmhash.Sum([]byte("parts"))),
		LastCommitHash:     tmhash.Sum([]byte("last_commit_hash")),
		DataHash:           tmhash.Sum([]byte("data_hash")),
		ValidatorsHash:     b.Vals.Hash(),
		NextValidatorsHash: b.NextVals.Hash(),
		ConsensusHash:      tmhash.Sum([]byte("consensus_hash")),
		AppHash:            append([]byte{}, b.AppHash...),
		LastResultsHash:    tmhash.Sum([]byte("last_results_hash")),
		EvidenceHash:       tmhash.Sum([]byte("evidence_hash")),
		ProposerAddress:    b.Vals.Proposer.Address,
	}
}

// SigMode says what a validator slot of a commit contains.
type SigMode int

const (
	SigAbsent      SigMode = iota // BlockIDFlagAbsent, empty slot
	SigCommit                     // genuine precommit for the block
	SigNil                        // genuine precommit for nil
	SigOtherBlock                 // flag commit, signature made over another block id
	SigOtherKey                   // flag commit, signature made by ForgeKey instead of the validator's key
	SigOtherChain                 // flag commit, signature made for another chain id
	SigOtherTime                  // flag commit, timestamp changed after signing
	SigOtherHeight                // flag commit, signature made for height+1
	SigOtherRound                 // flag commit, signature made for round+1
	SigGarbage                    // flag commit, 64 bytes of non-signature
)

func (m SigMode) String() string {
	return [...]string{"absent", "commit", "nil", "otherBlock", "otherKey", "otherChain", "otherTime", "otherHeight", "otherRound", "garbage"}[m]
}

// Genuine reports whether the slot is what an honest validator may have produced.
func (m SigMode) Genuine() bool { return m == SigAbsent || m == SigCommit || m == SigNil }

// CommitSpec describes the commit to build for a header.
type CommitSpec struct {
	Round    int32
	Parts    tmtypes.PartSetHeader
	Modes    []SigMode // one per validator of vals, in set order
	SigTime  time.Time // vote timestamp (any; part of the signed bytes)
	ForgeKey int       // pool index used by SigOtherKey
	SignAs   string    // chain id the validators sign for ("" = the header's own chain id)
}

// MakeCommit builds a commit over hdr by vals according to spec.
func (c *Chain) MakeCommit(hdr *tmtypes.Header, vals *tmtypes.ValidatorSet, spec CommitSpec) *tmtypes.Commit {
	if len(spec.Modes) != len(vals.Validators) {
		panic("HARNESS: tmsim: commit spec size")
	}
	chainID := spec.SignAs
	if chainID == "" {
		chainID = hdr.ChainID
	}
	bid := tmtypes.BlockID{Hash: hdr.Hash(), PartSetHeader: spec.Parts}
	sigs := make([]tmtypes.CommitSig, len(vals.Validators))
	for i, v := range vals.Validators {
		mode := spec.Modes[i]
		if mode == SigAbsent {
			sigs[i] = tmtypes.NewCommitSigAbsent()
			continue
		}
		ki := c.KeyOf(v.Address)
		if ki < 0 {
			panic("HARNESS: tmsim: validator without key")
		}
		priv := c.Keys[ki].Priv
		vote := &tmproto.Vote{
			Type: tmproto.PrecommitType, Height: hdr.Height, Round: spec.Round, BlockID: bid.ToProto(),
			Timestamp: spec.SigTime.UTC(), ValidatorAddress: v.Address, ValidatorIndex: int32(i),
		}
		flag := tmtypes.BlockIDFlagCommit
		signChain := chainID
		switch mode {
		case SigNil:
			vote.BlockID = tmproto.BlockID{}
			flag = tmtypes.BlockIDFlagNil
		case SigOtherBlock:
			other := bid
			other.Hash = tmhash.Sum(append([]byte("other block"), bid.Hash...))
			vote.BlockID = other.ToProto()
		case SigOtherKey:
			priv = c.Keys[spec.ForgeKey].Priv
		case SigOtherChain:
			signChain = chainID + "x"
		case SigOtherHeight:
			vote.Height++
		case SigOtherRound:
			vote.Round++
		}
		sig, err := priv.Sign(tmtypes.VoteSignBytes(signChain, vote))
		must(err, "sign")
		ts := spec.SigTime.UTC()
		switch mode {
		case SigOtherTime:
			ts = ts.Add(time.Nanosecond)
		case SigGarbage:
			sig = bytes.Repeat([]byte{0x5a}, 64)
		}
		sigs[i] = tmtypes.CommitSig{BlockIDFlag: flag, ValidatorAddress: v.Address, Timestamp: ts, Signature: sig}
	}
	return tmtypes.NewCommit(hdr.Height, spec.Round, bid, sigs)
}

// Assemble builds the client update message content.
func Assemble(hdr *tmtypes.Header, commit *tmtypes.Commit, vals *tmtypes.ValidatorSet, trusted clienttypes.Height, trustedVals *tmtypes.ValidatorSet) *xibctmtypes.Header {
	vp, err := vals.ToProto()
	must(err, "vals proto")
	var tp *tmproto.ValidatorSet
	if trustedVals != nil {
		tp, err = trustedVals.ToProto()
		must(err, "trusted vals proto")
	}
	return &xibctmtypes.Header{
		SignedHeader:      &tmproto.SignedHeader{Header: hdr.ToProto(), Commit: commit.ToProto()},
		ValidatorSet:      vp,
		TrustedHeight:     trusted,
		TrustedValidators: tp,
	}
}

// Proof returns the marshalled ICS-23 merkle proof of key in the xibc store at store version v
// (existence proof when the key is present, otherwise a non-existence proof) .
func (c *Chain) Proof(v int64, key []byte) []byte {
	res := c.ms.Query(abci.RequestQuery{Path: "/xibc/key", Data: key, Height: v, Prove: true})
	if res.ProofOps == nil {
		panic(fmt.Sprintf("HARNESS: tmsim: no proof for %q at version %d: %s", key, v, res.Log))
	}
	mp, err := commitmenttypes.ConvertProofs(res.ProofOps)
	must(err, "convert proofs")
	bz, err := mp.Marshal()
	must(err, "marshal proof")
	return bz
}

// Heights returns the produced heights in ascending order.
func (c *Chain) Heights() []int64 {
	hs := make([]int64, 0, len(c.Blocks))
	for h := range c.Blocks {
		hs = append(hs, h)
	}
	sort.Slice(hs, func(i, j int) bool { return hs[i] < hs[j] })
	return hs
}
