package c19

// known_test.go: pinned, library-free reproductions of the findings of C19 (no rapid).

import (
	"fmt"
	"testing"

	packettypes "github.com/teleport-network/teleport/x/xibc/core/packet/types"

	clienttypes "github.com/teleport-network/teleport/x/xibc/core/client/types"

	"verif/harness/kf"
	"verif/harness/rec"
)

// known reports a reproduced finding the GUIDE way: KNOWN-FINDING when listed, failure when not.
func known(t *testing.T, r *rec.Recorder, key, detail string) {
	if kf.Listed("C19", key) {
		kf.Report("C19", key)
		r.KnownFinding(key, detail)
		return
	}
	t.Fatalf("%s", detail)
}

func TestC19_Known_AckFeeOptionDropped(t *testing.T) {
	r := rec.For("TestC19_Known_AckFeeOptionDropped", "pinned: Acknowledgement{FeeOption:1} -> ABIPack -> ABIDecode")
	a := packettypes.Acknowledgement{FeeOption: 1}
	bz, err := a.ABIPack()
	var b packettypes.Acknowledgement
	derr := b.ABIDecode(bz)
	r.Case("pinned-ack-fee-1", true, nil) // the detail goes to known_findings_reproduced; samples are left to the generated tests
	r.Case("pinned-ack-fee-2", true, nil)
	if err == nil && derr == nil && b.FeeOption == 1 {
		return // no longer reproduces
	}
	known(t, r, keyAckFee, fmt.Sprintf("Acknowledgement{FeeOption:1} decodes as FeeOption=%d (encode err=%v, decode err=%v)", b.FeeOption, err, derr))
}

// pinnedIter populates a fresh cache branch with one client holding a plain height (positive
// control) and one hostile height and evaluates the iterator checks carrying the finding key.
func pinnedIter(t *testing.T, key, typ string, hostile clienttypes.Height) {
	r := rec.For(t.Name(), "pinned: client abc["+typ+"] with heights 0-1 and "+hostile.String())
	c := baseChain()
	control := []clientSpec{{Name: "abc", Type: typ, Heights: []clienttypes.Height{clienttypes.NewHeight(0, 1)}}}
	specs := []clientSpec{{Name: "abc", Type: typ, Heights: []clienttypes.Height{clienttypes.NewHeight(0, 1), hostile}}}
	detail := ""
	for _, ic := range iterChecks {
		if ic.key != key {
			continue
		}
		ctx, _ := c.Ctx().CacheContext()
		populate(c, ctx, control)
		if d := runIter(ic, c, ctx, control); d != "" {
			t.Fatalf("HARNESS: positive control (height 0-1 only) fails for %s: %s", ic.name, d)
		}
		ctx, _ = c.Ctx().CacheContext()
		populate(c, ctx, specs)
		if d := runIter(ic, c, ctx, specs); d != "" {
			detail += ic.name + " " + d + "\n"
		}
	}
	r.Case("pinned-"+key, true, nil)
	r.Case("pinned-"+key+"-control", true, nil)
	if detail == "" {
		return // no longer reproduces
	}
	known(t, r, key, detail)
}

func TestC19_Known_SlashHeightClientKeeperIterateConsensusStates(t *testing.T) {
	pinnedIter(t, keyIterKeeperCons, "tm", clienttypes.NewHeight(0, 47))
}

func TestC19_Known_SlashHeightTmIterateProcessedTime(t *testing.T) {
	pinnedIter(t, keyIterTMProcessed, "tm", clienttypes.NewHeight(0, 47))
}

func TestC19_Known_SlashHeightBscIterateConsensusStateAscending(t *testing.T) {
	pinnedIter(t, keyIterBSCAscending, "bsc", clienttypes.NewHeight(0, 47))
}

func TestC19_Known_SlashHeightEthIterateConsensusStateAscending(t *testing.T) {
	pinnedIter(t, keyIterETHAscending, "eth", clienttypes.NewHeight(0, 47))
}

// the 16 key bytes of this height end in "/clientState": revision 0x000000002f636c69, height 0x656e745374617465
func TestC19_Known_SlashHeightClientKeeperIterateClients(t *testing.T) {
	pinnedIter(t, keyIterKeeperClients, "tm", clienttypes.NewHeight(0x000000002f636c69, 0x656e745374617465))
}
