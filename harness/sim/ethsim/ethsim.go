// Package ethsim is the Ethereum counterparty simulator of the verification harness: a header-tree
// builder in "Rinkeby mode" (an ETH light client whose ChainId is 4 skips difficulty and
// proof-of-work) that produces go-ethereum headers valid with respect to the timestamp, gas-limit
// and EIP-1559 base-fee rules relative to their parent, a reference rule checker that is independent
// of the code under test (go-ethereum's consensus/misc for gas limit and base fee), and the
// conversion into the light client's protobuf header.
//
// The package draws nothing itself: every free choice is a parameter, so callers make them rapid draws.
package ethsim

import (
	"errors"
	"fmt"
	"math/big"
	"sort"
	"strings"

	"github.com/ethereum/go-ethereum/common"
	"github.com/ethereum/go-ethereum/consensus/misc"
	gethtypes "github.com/ethereum/go-ethereum/core/types"
	"github.com/ethereum/go-ethereum/params"

	ethclient "github.com/teleport-network/teleport/x/xibc/clients/light-clients/eth/types"
	clienttypes "github.com/teleport-network/teleport/x/xibc/core/client/types"
)

// AllowedFuture is how far (seconds) a header time may lie after "now" (go-ethereum's allowedFutureBlockTime).
const AllowedFuture = 15

// londonFromGenesis is the chain configuration of the reference checker: EIP-1559 active at every height,
// which is what the light client assumes (it has no fork schedule).
var londonFromGenesis = &params.ChainConfig{ChainID: big.NewInt(4), LondonBlock: big.NewInt(0)}

// GenesisOpts are the free fields of the header a client is created with.
type GenesisOpts struct {
	Number   uint64
	Time     uint64
	GasLimit uint64
	GasUsed  uint64
	BaseFee  uint64
	Root     common.Hash
	Extra    []byte
}

// Genesis builds the header a client is created at (its parent is unknown to the client).
func Genesis(o GenesisOpts) *gethtypes.Header {
	if o.GasUsed > o.GasLimit {
		o.GasUsed = o.GasLimit
	}
	return &gethtypes.Header{
		ParentHash:  common.BytesToHash([]byte("ethsim: parent of the creation header")),
		UncleHash:   gethtypes.EmptyUncleHash,
		Coinbase:    common.BytesToAddress([]byte("ethsim")),
		Root:        o.Root,
		TxHash:      gethtypes.EmptyRootHash,
		ReceiptHash: gethtypes.EmptyRootHash,
		Difficulty:  big.NewInt(2),
		Number:      new(big.Int).SetUint64(o.Number),
		GasLimit:    o.GasLimit,
		GasUsed:     o.GasUsed,
		Time:        o.Time,
		Extra:       append([]byte{}, o.Extra...),
		BaseFee:     new(big.Int).SetUint64(o.BaseFee),
	}
}

// ChildOpts are the free fields of a child header. The rule-bound fields (parent hash, number, base
// fee) are computed; DT and GasLimitDelta are clamped into the valid range.
type ChildOpts struct {
	DT            uint64 // seconds after the parent; 0 is raised to 1
	GasLimitDelta int64  // change of the gas limit relative to the parent; clamped to ±(parent/1024 - 1) and the 5000 minimum
	GasUsedPermil uint64 // gas used as a fraction (0..1000) of the child's gas limit
	Root          common.Hash
	Extra         []byte
	Coinbase      common.Address
	Difficulty    uint64 // 0 is raised to 1 (clique uses 1 or 2; never checked in Rinkeby mode)
}

// MaxGasLimitStep is the largest allowed |child.GasLimit - parent.GasLimit|.
func MaxGasLimitStep(parentGasLimit uint64) uint64 {
	b := parentGasLimit / params.GasLimitBoundDivisor
	if b == 0 {
		return 0
	}
	return b - 1
}

// Child builds a header that satisfies every parent-relative rule.
func Child(parent *gethtypes.Header, o ChildOpts) *gethtypes.Header {
	if o.DT == 0 {
		o.DT = 1
	}
	if o.Difficulty == 0 {
		o.Difficulty = 1
	}
	step := int64(MaxGasLimitStep(parent.GasLimit))
	d := o.GasLimitDelta
	if d > step {
		d = step
	}
	if d < -step {
		d = -step
	}
	gl := uint64(int64(parent.GasLimit) + d)
	if gl < params.MinGasLimit {
		gl = parent.GasLimit // parent is ≥ the minimum by construction
	}
	if gl > 0x7fffffffffffffff {
		gl = parent.GasLimit
	}
	if o.GasUsedPermil > 1000 {
		o.GasUsedPermil = 1000
	}
	gu := new(big.Int).Mul(new(big.Int).SetUint64(gl), new(big.Int).SetUint64(o.GasUsedPermil))
	gu.Div(gu, big.NewInt(1000))
	return &gethtypes.Header{
		ParentHash:  parent.Hash(),
		UncleHash:   gethtypes.EmptyUncleHash,
		Coinbase:    o.Coinbase,
		Root:        o.Root,
		TxHash:      gethtypes.EmptyRootHash,
		ReceiptHash: gethtypes.EmptyRootHash,
		Difficulty:  new(big.Int).SetUint64(o.Difficulty),
		Number:      new(big.Int).Add(parent.Number, big.NewInt(1)),
		GasLimit:    gl,
		GasUsed:     gu.Uint64(),
		Time:        parent.Time + o.DT,
		Extra:       append([]byte{}, o.Extra...),
		BaseFee:     CalcBaseFee(parent),
	}
}

// CalcBaseFee is the simulator's own EIP-1559 base-fee formula (written from the EIP text):
//
//	target = parent.gasLimit / 2
//	used == target: unchanged
//	used  > target: + max(1, baseFee * (used-target) / target / 8)
//	used  < target: - baseFee * (target-used) / target / 8
func CalcBaseFee(parent *gethtypes.Header) *big.Int {
	target := parent.GasLimit / 2
	base := new(big.Int).Set(parent.BaseFee)
	if parent.GasUsed == target {
		return base
	}
	t := new(big.Int).SetUint64(target)
	if parent.GasUsed > target {
		delta := new(big.Int).Mul(base, new(big.Int).SetUint64(parent.GasUsed-target))
		delta.Div(delta, t)
		delta.Div(delta, big.NewInt(8))
		if delta.Sign() == 0 {
			delta.SetInt64(1)
		}
		return base.Add(base, delta)
	}
	delta := new(big.Int).Mul(base, new(big.Int).SetUint64(target-parent.GasUsed))
	delta.Div(delta, t)
	delta.Div(delta, big.NewInt(8))
	base.Sub(base, delta)
	if base.Sign() < 0 {
		base.SetInt64(0)
	}
	return base
}

// Rule names returned by CheckRules.
const (
	RuleTimeNotAfterParent = "time<=parent"
	RuleTimeFuture         = "time>now+15"
	RuleGasLimit           = "gas-limit"
	RuleBaseFee            = "base-fee"
)

// RuleError names the violated rule.
type RuleError struct {
	Rule string
	Err  error
}

func (e *RuleError) Error() string { return e.Rule + ": " + e.Err.Error() }

// CheckRules is the reference for "the header satisfies the timestamp, gas-limit and base-fee rules
// relative to that parent" at block time now (unix seconds). Gas limit and base fee are decided by
// go-ethereum's consensus/misc with London active from height 0; the two timestamp rules are
// go-ethereum's (time > parent.time, time <= now + 15 s).
func CheckRules(parent, h *gethtypes.Header, now uint64) *RuleError {
	if h.Time > now+AllowedFuture {
		return &RuleError{RuleTimeFuture, fmt.Errorf("%d > %d+15", h.Time, now)}
	}
	if h.Time <= parent.Time {
		return &RuleError{RuleTimeNotAfterParent, fmt.Errorf("%d <= %d", h.Time, parent.Time)}
	}
	if err := misc.VerifyGaslimit(parent.GasLimit, h.GasLimit); err != nil {
		return &RuleError{RuleGasLimit, err}
	}
	if h.BaseFee == nil {
		return &RuleError{RuleBaseFee, errors.New("missing")}
	}
	if err := misc.VerifyEip1559Header(londonFromGenesis, parent, h); err != nil {
		return &RuleError{RuleBaseFee, err}
	}
	return nil
}

// ToProto renders a go-ethereum header as the light client's header message.
func ToProto(h *gethtypes.Header) *ethclient.Header {
	bf := []byte{}
	if h.BaseFee != nil {
		bf = h.BaseFee.Bytes()
	}
	return &ethclient.Header{
		ParentHash:  append([]byte{}, h.ParentHash[:]...),
		UncleHash:   append([]byte{}, h.UncleHash[:]...),
		Coinbase:    append([]byte{}, h.Coinbase[:]...),
		Root:        append([]byte{}, h.Root[:]...),
		TxHash:      append([]byte{}, h.TxHash[:]...),
		ReceiptHash: append([]byte{}, h.ReceiptHash[:]...),
		Bloom:       append([]byte{}, h.Bloom[:]...),
		Difficulty:  h.Difficulty.Bytes(),
		Height:      clienttypes.NewHeight(0, h.Number.Uint64()),
		GasLimit:    h.GasLimit,
		GasUsed:     h.GasUsed,
		Time:        h.Time,
		Extra:       append([]byte{}, h.Extra...),
		MixDigest:   append([]byte{}, h.MixDigest[:]...),
		Nonce:       h.Nonce.Uint64(),
		BaseFee:     bf,
	}
}

// ClientState is an ETH client state created at header h.
func ClientState(h *gethtypes.Header, chainID uint64, trustingPeriod uint64) *ethclient.ClientState {
	return &ethclient.ClientState{
		Header:          *ToProto(h),
		ChainId:         chainID,
		ContractAddress: common.BytesToAddress([]byte("xibc-packet")).Bytes(),
		TrustingPeriod:  trustingPeriod,
		TimeDelay:       0,
		BlockDelay:      1,
	}
}

// ConsensusState is the consensus state of header h.
func ConsensusState(h *gethtypes.Header) *ethclient.ConsensusState {
	return &ethclient.ConsensusState{
		Timestamp: h.Time,
		Height:    clienttypes.NewHeight(0, h.Number.Uint64()),
		Root:      append([]byte{}, h.Root[:]...),
	}
}

// Node is one header of a tree.
type Node struct {
	ID       int
	Parent   int // -1 for the root (creation header)
	Depth    int // 0 for the root
	Header   *gethtypes.Header
	Hash     common.Hash
	Children []int
}

// Tree is a header tree rooted at the client's creation header.
type Tree struct {
	Nodes  []*Node
	byHash map[common.Hash]int
}

// NewTree starts a tree at root.
func NewTree(root *gethtypes.Header) *Tree {
	t := &Tree{byHash: map[common.Hash]int{}}
	t.Nodes = append(t.Nodes, &Node{ID: 0, Parent: -1, Header: root, Hash: root.Hash()})
	t.byHash[root.Hash()] = 0
	return t
}

// Add attaches h under parent; a header that is already in the tree is not added twice.
func (t *Tree) Add(parent int, h *gethtypes.Header) (id int, fresh bool) {
	hash := h.Hash()
	if id, ok := t.byHash[hash]; ok {
		return id, false
	}
	p := t.Nodes[parent]
	n := &Node{ID: len(t.Nodes), Parent: parent, Depth: p.Depth + 1, Header: h, Hash: hash}
	t.Nodes = append(t.Nodes, n)
	p.Children = append(p.Children, n.ID)
	t.byHash[hash] = n.ID
	return n.ID, true
}

// Lookup finds a node by header hash.
func (t *Tree) Lookup(hash common.Hash) (int, bool) {
	id, ok := t.byHash[hash]
	return id, ok
}

// Leaves counts the branches (root-to-leaf paths).
func (t *Tree) Leaves() int {
	n := 0
	for _, x := range t.Nodes {
		if len(x.Children) == 0 {
			n++
		}
	}
	return n
}

// LeafDepths returns the sorted depths of all leaves.
func (t *Tree) LeafDepths() []int {
	var d []int
	for _, x := range t.Nodes {
		if len(x.Children) == 0 {
			d = append(d, x.Depth)
		}
	}
	sort.Ints(d)
	return d
}

// Shape is the canonical (child-order independent) bracket form of the tree.
func (t *Tree) Shape() string { return t.shape(0) }

func (t *Tree) shape(id int) string {
	var cs []string
	for _, c := range t.Nodes[id].Children {
		cs = append(cs, t.shape(c))
	}
	sort.Strings(cs)
	return "(" + strings.Join(cs, "") + ")"
}

// IsAncestorOrSelf reports whether a is on the path from b up to the root.
func (t *Tree) IsAncestorOrSelf(a, b int) bool {
	for x := b; x >= 0; x = t.Nodes[x].Parent {
		if x == a {
			return true
		}
	}
	return false
}
