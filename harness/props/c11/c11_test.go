// C11 — coin/ERC-20 conversion moves the exact amount and stays fully backed.
package c11

import (
	"testing"

	"pgregory.net/rapid"

	"verif/harness/rec"
	"verif/harness/sim/aggsim"
)

func TestMain(m *testing.M) { rec.Main(m) }

const rule = "rapid state machine on a fresh kit chain per case: 2-4 pairs (module-owned with 1-3 denominations, externally owned plain / " +
	"ERC20DirectBalanceManipulation / ERC20MaliciousDelayed / hand-assembled FlexToken with switchable fee, no-op, false-returning and misreporting modes), " +
	"MsgConvertCoin / MsgConvertERC20 through DeliverTx with amounts around balances, blocked receivers, toggled pairs, disabled module, send-disabled coins, " +
	"user transfers and burns in between; non-trivial = >= 4 successful conversions in both directions over >= 2 pairs including a multi-denomination pair, " +
	"or any conversion attempted on a misbehaving token; distinct by (pair count, bucketed successes per direction, pairs used, failure kinds, misbehaving kinds)"

func TestC11_Conversions(t *testing.T) {
	r := rec.For("TestC11_Conversions", rule)
	rapid.Check(t, func(t *rapid.T) { aggsim.RunConversions(t, r) })
}
