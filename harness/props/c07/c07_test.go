// C07 — Tendermint client trusts only sufficiently signed, fresh, newer headers.
//
// A simulated Tendermint counterparty (sim/tmsim) produces blocks with changing validator sets and
// a real rootmulti/IAVL application state. A Tendermint light client of it is created on a
// cache-context branch of a real Teleport app and driven through ClientKeeper.UpdateClient and
// ClientState.VerifyPacketCommitment / VerifyPacketAcknowledgement. Every decision of the client is
// compared with the reference model in model_test.go.
package c07

import (
	"bytes"
	"encoding/binary"
	"encoding/json"
	"fmt"
	"math"
	"sort"
	"strings"
	"sync"
	"testing"
	"time"

	"github.com/tendermint/tendermint/crypto/tmhash"
	tmproto "github.com/tendermint/tendermint/proto/tendermint/types"
	tmtypes "github.com/tendermint/tendermint/types"

	sdk "github.com/cosmos/cosmos-sdk/types"
	"pgregory.net/rapid"

	xibctmtypes "github.com/teleport-network/teleport/x/xibc/clients/light-clients/tendermint/types"
	clienttypes "github.com/teleport-network/teleport/x/xibc/core/client/types"
	commitmenttypes "github.com/teleport-network/teleport/x/xibc/core/commitment/types"

	"verif/harness/kf"
	"verif/harness/kit"
	"verif/harness/rec"
	"verif/harness/sim/tmsim"
)

func TestMain(m *testing.M) { rec.Main(m) }

const rule = "histories over a simulated Tendermint counterparty (1-7 ed25519 validators, power splits built around the 2/3 and trust-level thresholds, " +
	"changing validator sets, restarts under the next revision number followed by the client through an UpgradeClient, with back-fills from the chain of the earlier revision) and a light client with drawn trust level / trusting period / clock drift / delay: updates (adjacent, skipping, back-filling, " +
	"duplicate height, not newer) from any stored or unstored trusted height, signer subsets chosen minimal-sufficient / maximal-insufficient for either set, " +
	"single signature faults, single header mutations before and after signing, every update also probed on discarded branches at the clock values " +
	"trusted+trustingPeriod-1ns/+0, latest+trustingPeriod-1ns/+0, header.time-drift+0/+1ns; proof checks at stored/unstored/above-latest heights with genuine ICS-23 proofs " +
	"at processed+delay-1ns/+0/+1ns. One evaluation = one asserted client decision (update or proof check at one clock value). non-trivial = valid signed power within one " +
	"unit of a threshold, or a mutated header / faulty signature, or a non-forward update, or a boundary clock value; distinct by " +
	"(update kind, boundary side of both thresholds, mutation, signature fault, clock kind, model verdict and reasons)"

var (
	baseOnce sync.Once
	base     *kit.Chain
)

func baseChain() *kit.Chain {
	baseOnce.Do(func() { base = kit.NewChain("teleport_9000-1", kit.ChainOpts{Seed: []byte("c07")}) })
	return base
}

var (
	keyMu    sync.Mutex
	keyCache = map[int]tmsim.Key{}
)

func poolKey(i int) tmsim.Key {
	keyMu.Lock()
	defer keyMu.Unlock()
	k, ok := keyCache[i]
	if !ok {
		k = tmsim.NewKey([]byte(fmt.Sprint("c07-", i)))
		keyCache[i] = k
	}
	return k
}

type frac struct{ N, D uint64 }

const (
	srcName = "tmsrc"
	dstName = "teleport"
)

// packetKey is the raw store key / merkle path of a packet commitment or acknowledgement.
func packetKey(ack bool, seq uint64) []byte {
	p := "commitments"
	if ack {
		p = "acks"
	}
	return []byte(fmt.Sprintf("%s/%s/%s/sequences/%d", p, srcName, dstName, seq))
}

type stepLog map[string]interface{}

type oldRevision struct {
	sim *tmsim.Chain
	mem map[int64][]tmsim.Member
}

type world struct {
	r    *rec.Recorder
	c    *kit.Chain
	ctx  sdk.Context
	name string
	sim  *tmsim.Chain
	mem  map[int64][]tmsim.Member // members of NextVals per sim height
	m    *clientModel
	now  time.Time
	bh   int64
	nk   int
	tl   frac
	log  []stepLog
	// counterparty chains of earlier revisions (the chain restarted under the next revision number; the client followed through
	// an UpgradeClient proposal and still holds consensus states of the earlier revisions)
	old  []oldRevision
	keys []tmsim.Key
	// exclusions
	exclDelayOverflow bool
	// deliver mode: the client lives in the deliver state of a dedicated chain and updates are signed
	// MsgUpdateClient transactions; the clock is the chain's block time
	deliver bool
	acct    kit.Account
}

var maxClock = time.Date(2200, 1, 1, 0, 0, 0, 0, time.UTC)

// ---------------------------------------------------------------------------------------------
// generators

func split(t *rapid.T, total int64, parts int, label string) []int64 {
	if parts <= 0 || total < int64(parts) {
		kit.Failf("split(%d,%d)", total, parts)
	}
	cuts := make([]int64, parts-1)
	for i := range cuts {
		cuts[i] = rapid.Int64Range(0, total-int64(parts)).Draw(t, label)
	}
	sort.Slice(cuts, func(i, j int) bool { return cuts[i] < cuts[j] })
	out := make([]int64, parts)
	prev := int64(0)
	for i, c := range cuts {
		out[i] = c - prev + 1
		prev = c
	}
	out[parts-1] = total - int64(parts) - prev + 1
	return out
}

var totals = []int64{1, 2, 3, 4, 5, 6, 7, 8, 9, 10, 11, 12, 15, 16, 17, 30, 31, 32, 99, 100, 101, 299, 300, 301, 1000, 3 << 20, 3<<20 + 1, 3<<20 + 2, 1 << 40, 1<<40 + 1, 1<<40 + 2}

// designMembers draws a validator set whose powers admit a subset at an exact threshold boundary.
func (w *world) designMembers(t *rapid.T) []tmsim.Member {
	maxK := w.nk
	if maxK > 7 {
		maxK = 7
	}
	k := rapid.IntRange(1, maxK).Draw(t, "k")
	idx := make([]int, w.nk)
	for i := range idx {
		idx[i] = i
	}
	perm := rapid.Permutation(idx).Draw(t, "keys")[:k]
	total := rapid.SampledFrom(totals).Draw(t, "total")
	if total < int64(k) {
		total = int64(k)
	}
	f := frac{2, 3}
	if rapid.Bool().Draw(t, "designForTrustLevel") {
		f = w.tl
	}
	var powers []int64
	if k >= 2 {
		j := rapid.IntRange(1, k-1).Draw(t, "j")
		s := minSufficient(total, f.N, f.D).Int64() - int64(rapid.IntRange(0, 1).Draw(t, "short"))
		if s >= int64(j) && total-s >= int64(k-j) {
			powers = append(split(t, s, j, "cutA"), split(t, total-s, k-j, "cutB")...)
		}
	}
	if powers == nil {
		powers = split(t, total, k, "cut")
	}
	ms := make([]tmsim.Member, k)
	for i := range ms {
		ms[i] = tmsim.Member{Key: perm[i], Power: powers[i]}
	}
	return ms
}

// nextMembers evolves a validator set.
func (w *world) nextMembers(t *rapid.T, prev []tmsim.Member) []tmsim.Member {
	switch kind := rapid.IntRange(0, 9).Draw(t, "valsetChange"); {
	case kind <= 4:
		return prev
	case kind == 5: // one power changes
		out := append([]tmsim.Member{}, prev...)
		i := rapid.IntRange(0, len(out)-1).Draw(t, "who")
		out[i].Power = rapid.Int64Range(1, out[i].Power+2).Draw(t, "power")
		return out
	case kind == 6 && len(prev) > 1: // one leaves
		i := rapid.IntRange(0, len(prev)-1).Draw(t, "who")
		out := append([]tmsim.Member{}, prev[:i]...)
		return append(out, prev[i+1:]...)
	case kind == 7 && len(prev) < 7: // one joins
		used := map[int]bool{}
		for _, m := range prev {
			used[m.Key] = true
		}
		for i := 0; i < w.nk; i++ {
			if !used[i] {
				out := append([]tmsim.Member{}, prev...)
				return append(out, tmsim.Member{Key: i, Power: rapid.Int64Range(1, 1+totalOf(prev)).Draw(t, "power")})
			}
		}
		return prev
	default:
		return w.designMembers(t)
	}
}

func totalOf(ms []tmsim.Member) int64 {
	var s int64
	for _, m := range ms {
		s += m.Power
	}
	return s
}

func (w *world) drawWrites(t *rapid.T) []tmsim.KV {
	n := rapid.IntRange(0, 2).Draw(t, "writes")
	var out []tmsim.KV
	for i := 0; i < n; i++ {
		key := packetKey(rapid.Bool().Draw(t, "ack"), rapid.Uint64Range(1, 3).Draw(t, "seq"))
		val := tmhash.Sum([]byte{byte(rapid.IntRange(0, 3).Draw(t, "val"))})
		out = append(out, tmsim.KV{Key: key, Value: val})
	}
	return out
}

// durations are the clock steps of a history: mostly small against the trusting period, so that the
// client stays alive; a third of / the whole trusting period only now and then.
func (w *world) durations(t *rapid.T) []time.Duration {
	ds := []time.Duration{0, 1, 2, w.m.TP / 50, w.m.TP / 10}
	big := []time.Duration{w.m.TP / 3, w.m.TP - 1, w.m.TP}
	for _, d := range []time.Duration{w.m.Drift - 1, w.m.Drift, w.m.Drift + 1} {
		if d < w.m.TP/5 {
			ds = append(ds, d)
		} else {
			big = append(big, d)
		}
	}
	if rapid.IntRange(0, 15).Draw(t, "bigStep") == 0 {
		return big
	}
	return ds
}

func (w *world) produce(t *rapid.T) {
	n := rapid.IntRange(1, 3).Draw(t, "blocks")
	for i := 0; i < n; i++ {
		last := w.sim.Blocks[w.sim.Last]
		cands := []time.Time{last.Time.Add(1), last.Time.Add(2), last.Time.Add(w.m.TP / 50)}
		if gap := w.now.Sub(last.Time); gap > 2 {
			cands = append(cands, last.Time.Add(gap/2))
		}
		for _, d := range []time.Duration{-1, 0, 1} {
			cands = append(cands, w.now.Add(w.m.Drift+d), w.now.Add(d))
		}
		if rapid.IntRange(0, 9).Draw(t, "farBlock") == 0 {
			cands = []time.Time{last.Time.Add(w.m.TP / 3), last.Time.Add(w.m.TP), w.now.Add(w.m.Drift + w.m.TP/10)}
		}
		var ok []time.Time
		for _, c := range cands {
			if c.After(last.Time) && c.Before(maxClock) {
				ok = append(ok, c)
			}
		}
		tm := rapid.SampledFrom(ok).Draw(t, "blockTime")
		next := w.nextMembers(t, w.mem[w.sim.Last])
		b := w.sim.Produce(tm, next, w.drawWrites(t))
		w.mem[b.Height] = next
	}
	w.log = append(w.log, stepLog{"op": "produce", "n": n, "last": w.sim.Last, "lastTime": off(w.sim.Blocks[w.sim.Last].Time)})
}

func off(t time.Time) string { return t.Sub(kit.Epoch).String() }

// ---------------------------------------------------------------------------------------------
// client store access (raw, with the harness's own key layout knowledge)

func (w *world) dump(ctx sdk.Context) []kit.KV {
	st := w.c.App.XIBCKeeper.ClientKeeper.ClientStore(ctx, w.name)
	it := st.Iterator(nil, nil)
	defer it.Close()
	var out []kit.KV
	for ; it.Valid(); it.Next() {
		out = append(out, kit.KV{K: append([]byte{}, it.Key()...), V: append([]byte{}, it.Value()...)})
	}
	return out
}

func be16(h hkey) []byte {
	b := make([]byte, 16)
	binary.BigEndian.PutUint64(b, h.Rev)
	binary.BigEndian.PutUint64(b[8:], h.H)
	return b
}

func consKey(h hkey) string      { return "consensusStates/" + string(be16(h)) }
func processedKey(h hkey) string { return consKey(h) + "/processedTime" }
func iterKey(h hkey) string      { return "iterateConsensusStates" + string(be16(h)) }

// keyHeight parses a per-height key of the client store.
func keyHeight(k string) (hkey, bool) {
	var raw string
	switch {
	case strings.HasPrefix(k, "consensusStates/") && (len(k) == 32 || (len(k) == 46 && strings.HasSuffix(k, "/processedTime"))):
		raw = k[16:32]
	case strings.HasPrefix(k, "iterateConsensusStates") && len(k) == 38:
		raw = k[22:]
	default:
		return hkey{}, false
	}
	return hkey{binary.BigEndian.Uint64([]byte(raw[:8])), binary.BigEndian.Uint64([]byte(raw[8:]))}, true
}

func toMap(kvs []kit.KV) map[string][]byte {
	m := make(map[string][]byte, len(kvs))
	for _, kv := range kvs {
		m[string(kv.K)] = kv.V
	}
	return m
}

func (w *world) clientState(ctx sdk.Context) *xibctmtypes.ClientState {
	cs, ok := w.c.App.XIBCKeeper.ClientKeeper.GetClientState(ctx, w.name)
	if !ok {
		kit.Failf("client %s vanished", w.name)
	}
	tm, ok := cs.(*xibctmtypes.ClientState)
	if !ok {
		kit.Failf("client %s has type %T", w.name, cs)
	}
	return tm
}

// checkSync verifies that the model and the store agree on what is stored (harness self-check and
// part of the oracle: nothing but accepted updates may change the client).
func (w *world) checkSync(t *rapid.T, ctx sdk.Context) {
	d := toMap(w.dump(ctx))
	cs := w.clientState(ctx)
	if got := (hkey{cs.LatestHeight.RevisionNumber, cs.LatestHeight.RevisionHeight}); got != w.m.Latest {
		t.Fatalf("latest height: store %v, model %v\n%s", got, w.m.Latest, w.render())
	}
	n := 0
	for k := range d {
		if len(k) == 32 && strings.HasPrefix(k, "consensusStates/") {
			n++
		}
	}
	if n != len(w.m.Cons) {
		t.Fatalf("stored consensus states: store %d, model %d\n%s", n, len(w.m.Cons), w.render())
	}
	for h, rec := range w.m.Cons {
		bz, ok := d[consKey(h)]
		if !ok {
			t.Fatalf("model has consensus state %v, store has not\n%s", h, w.render())
		}
		w.checkCons(t, bz, h, rec)
		p, ok := d[processedKey(h)]
		if ok != rec.HasProcessed || (ok && binary.BigEndian.Uint64(p) != rec.Processed) {
			t.Fatalf("processed time of %v: store %x (present=%v), model %d (present=%v)\n%s", h, p, ok, rec.Processed, rec.HasProcessed, w.render())
		}
	}
}

func (w *world) checkCons(t *rapid.T, bz []byte, h hkey, rec *consRec) {
	csi, err := clienttypes.UnmarshalConsensusState(w.c.App.AppCodec(), bz)
	if err != nil {
		t.Fatalf("consensus state at %v does not decode: %v", h, err)
	}
	got, ok := csi.(*xibctmtypes.ConsensusState)
	if !ok {
		t.Fatalf("consensus state at %v has type %T", h, csi)
	}
	if !got.Timestamp.Equal(rec.Time) || !bytes.Equal(got.Root, rec.Root) || !bytes.Equal(got.NextValidatorsHash, rec.NextValsHash) {
		t.Fatalf("consensus state at %v = (time %s, root %X, nextVals %X), header had (time %s, appHash %X, nextVals %X)\n%s",
			h, off(got.Timestamp), got.Root, []byte(got.NextValidatorsHash), off(rec.Time), rec.Root, rec.NextValsHash, w.render())
	}
}

// ---------------------------------------------------------------------------------------------
// one update attempt at one clock value, on a branch

type probeResult struct {
	a        assessment
	accepted bool
	errText  string
	next     *clientModel // model after the update (when accepted)
	write    func()
}

func (w *world) at(now time.Time) sdk.Context {
	if w.deliver {
		// the real chain: the clock is the open block's time
		if !now.Equal(w.c.Now) {
			kit.Failf("deliver mode: clock %s is not the block time %s", now, w.c.Now)
		}
		return w.c.Ctx()
	}
	return w.ctx.WithBlockHeight(w.bh).WithBlockTime(now)
}

func (w *world) tryUpdate(t *rapid.T, h *xibctmtypes.Header, now time.Time, cache *sigCache, desc func() string) probeResult {
	w.r.Step()
	a := w.m.assessCached(h, now, cache)
	ctx := w.at(now)
	before := w.dump(ctx)
	oldCS := w.clientState(ctx)
	var (
		err   error
		br    sdk.Context
		write = func() {}
	)
	if w.deliver {
		// the way the chain runs it: a signed MsgUpdateClient from a registered relayer through DeliverTx
		whole := w.c.DumpStores(ctx, "xibc")
		msg, perr := clienttypes.NewMsgUpdateClient(w.name, h, w.acct.Acc)
		kit.Must(perr, "NewMsgUpdateClient")
		res := w.c.Deliver(w.acct, msg)
		br = w.c.Ctx()
		if !res.OK() {
			err = fmt.Errorf("code %d: %s", res.Code, res.Log)
			if d := kit.Diff(whole, w.c.DumpStores(br, "xibc")); len(d) > 0 {
				t.Fatalf("rejected MsgUpdateClient changed the xibc store:\n%s%s\n%s", kit.DiffString(d, 8), desc(), w.render())
			}
			w.r.Label("deliver:rejected-tx-left-xibc-store-unchanged")
		}
	} else {
		br, write = ctx.CacheContext()
		func() {
			defer func() {
				if p := recover(); p != nil {
					if he, ok := p.(kit.HarnessError); ok {
						panic(he)
					}
					// a panic inside DeliverTx is recovered by baseapp and fails the tx
					err = fmt.Errorf("panic: %v", p)
					w.r.Label("update_panicked_(treated_as_reject)")
				}
			}()
			err = w.c.App.XIBCKeeper.ClientKeeper.UpdateClient(br, w.name, h)
		}()
	}
	res := probeResult{a: a, accepted: err == nil, write: write}
	if err != nil {
		res.errText = err.Error()
	}
	switch {
	case a.V == vReject && err == nil:
		t.Fatalf("header ACCEPTED, the property requires rejection (%s)\n%s\n%s", strings.Join(a.Reasons, ","), desc(), w.render())
	case a.V == vAccept && err != nil:
		t.Fatalf("valid header REJECTED (%v)\n%s\n%s", trim(err.Error()), desc(), w.render())
	}
	if err != nil {
		if !w.deliver {
			// the chain discards the branch; report (not assert) whether the keeper had written before failing
			if !sameKVs(before, w.dump(br)) {
				w.r.Label("reject_after_partial_write_in_discarded_branch")
			}
		}
		if !sameKVs(before, w.dump(ctx)) {
			t.Fatalf("rejected update changed the client store\n%s\n%s", desc(), w.render())
		}
		return res
	}
	// accepted: exact post-state
	next := w.m.clone()
	next.apply(a, now)
	bm, am := toMap(before), toMap(w.dump(br))
	H := a.Height
	// consensus state and processed time at the header's height
	bz, ok := am[consKey(H)]
	if !ok {
		t.Fatalf("accepted header %v left no consensus state at its height\n%s\n%s", H, desc(), w.render())
	}
	w.checkCons(t, bz, H, next.Cons[H])
	if p, ok := am[processedKey(H)]; !ok || len(p) != 8 || binary.BigEndian.Uint64(p) != uint64(now.UnixNano()) {
		t.Fatalf("accepted header %v: processed time %x, block time %d\n%s\n%s", H, p, now.UnixNano(), desc(), w.render())
	}
	// client state: identical except LatestHeight = max(old, header height)
	want := *oldCS
	want.LatestHeight = clienttypes.NewHeight(next.Latest.Rev, next.Latest.H)
	gotCS := w.clientState(br)
	if gotCS.LatestHeight.LT(oldCS.LatestHeight) {
		t.Fatalf("accepted header %v LOWERED the latest height %s -> %s\n%s\n%s", H, oldCS.LatestHeight, gotCS.LatestHeight, desc(), w.render())
	}
	wb, _ := want.Marshal()
	gb, _ := gotCS.Marshal()
	if !bytes.Equal(wb, gb) {
		t.Fatalf("accepted header %v: client state %s, expected %s\n%s\n%s", H, gotCS.String(), want.String(), desc(), w.render())
	}
	// everything else: untouched, except that entries of an expired height may be pruned
	own := map[string]bool{"clientState": true, consKey(H): true, processedKey(H): true, iterKey(H): true}
	keys := map[string]bool{}
	for k := range bm {
		keys[k] = true
	}
	for k := range am {
		keys[k] = true
	}
	sorted := make([]string, 0, len(keys))
	for k := range keys {
		sorted = append(sorted, k)
	}
	sort.Strings(sorted)
	for _, k := range sorted {
		if own[k] {
			continue
		}
		bv, bok := bm[k]
		av, aok := am[k]
		if bok && aok && bytes.Equal(bv, av) {
			continue
		}
		hk, isH := keyHeight(k)
		rec, known := w.m.Cons[hk]
		if bok && !aok && isH && known && w.m.expiredAt(rec.Time, now) {
			w.r.Label("pruned_expired_entry")
			if len(k) == 32 {
				delete(next.Cons, hk)
			} else if len(k) == 46 {
				if r2, ok := next.Cons[hk]; ok {
					r2.HasProcessed = false
				}
			}
			continue
		}
		t.Fatalf("accepted header %v changed an unrelated entry %q: %x -> %x\n%s\n%s", H, k, bv, av, desc(), w.render())
	}
	res.next = next
	return res
}

func sameKVs(a, b []kit.KV) bool {
	if len(a) != len(b) {
		return false
	}
	for i := range a {
		if !bytes.Equal(a[i].K, b[i].K) || !bytes.Equal(a[i].V, b[i].V) {
			return false
		}
	}
	return true
}

func trim(s string) string {
	if len(s) > 300 {
		return s[:300] + "…"
	}
	return s
}

func (w *world) render() string {
	l := w.log
	if len(l) > 40 {
		l = l[len(l)-40:]
	}
	bz, _ := json.Marshal(l)
	return fmt.Sprintf("client: chain=%s trust=%d/%d tp=%s drift=%s delay=%d latest=%v stored=%v now=%s\nhistory=%s",
		w.m.ChainID, w.m.TrustNum, w.m.TrustDen, w.m.TP, w.m.Drift, w.m.Delay, w.m.Latest, w.m.heights(), off(w.now), bz)
}

// ---------------------------------------------------------------------------------------------
// update step

var preMuts = []string{"chainName", "chainName/signedForClientChain", "revision", "time=trusted", "time=trusted+1ns", "time=trusted-1ns", "time=now+drift", "time=now+drift-1ns",
	"appHash", "valsHash", "nextValsHash", "height=trusted", "height=trusted+1", "height=trusted-1"}

var postMuts = []string{"p:time", "p:appHash", "p:nextValsHash", "p:height", "p:chainID", "p:commitHeight", "p:commitRound", "p:commitBlockHash",
	"p:commitParts", "p:valsetPower", "p:valsetTotal", "p:dropSig", "p:sigAddr", "tv:wrongSet", "tv:power", "tv:nil", "tv:total", "tv:reorder", "th:rev"}

var sigFaults = []tmsim.SigMode{tmsim.SigOtherBlock, tmsim.SigOtherKey, tmsim.SigOtherChain, tmsim.SigOtherTime, tmsim.SigOtherHeight, tmsim.SigOtherRound, tmsim.SigGarbage, tmsim.SigNil}

var goals = []string{"all", "all", "random", "ownMinSuff", "ownMinSuff", "ownMaxInsuff", "ownMaxInsuff", "trMinSuff", "trMinSuff", "trMaxInsuff", "trMaxInsuff"}

func bucket(have bool, d int64) string {
	switch {
	case !have:
		return "n/a"
	case d < -1:
		return "<-1"
	case d > 1:
		return ">+1"
	}
	return fmt.Sprintf("%+d", d)
}

func (w *world) update(t *rapid.T) {
	if w.sim.Last <= int64(w.m.Latest.H) && rapid.IntRange(0, 4).Draw(t, "produceFirst") != 0 {
		w.produce(t) // the client is at the counterparty's head: nothing newer exists yet
	}
	stored := w.m.heights()
	// trusted height
	var trusted hkey
	trKind := "latest"
	wantGap := false
	switch k := rapid.IntRange(0, 9).Draw(t, "trustedKind"); {
	case k <= 4:
		trusted = w.m.Latest
	case k <= 6:
		trusted = rapid.SampledFrom(stored).Draw(t, "trusted")
		trKind = "stored"
	case k <= 8:
		// a stored height below which-ever unstored block lies under the latest height: back-filling
		trKind = "stored"
		trusted = w.m.Latest
		var cands []hkey
		for _, h := range stored {
			if len(w.gaps(h)) > 0 {
				cands = append(cands, h)
			}
		}
		if len(cands) > 0 {
			trusted = rapid.SampledFrom(cands).Draw(t, "trustedBelowGap")
			wantGap = true
		}
	default:
		trKind = "unstored"
		trusted = hkey{w.m.Latest.Rev, uint64(rapid.Int64Range(w.sim.First, w.sim.Last+1).Draw(t, "trustedUnstored"))}
		if _, ok := w.m.Cons[trusted]; ok {
			trKind = "stored"
		}
	}
	// against the chain of an earlier revision an honest relayer trusts a consensus state of that revision
	if simRev := revisionOf(w.sim.ChainID); simRev != w.m.Latest.Rev && rapid.IntRange(0, 4).Draw(t, "trustSameRevision") != 0 {
		var same []hkey
		for _, h := range stored {
			if h.Rev == simRev {
				same = append(same, h)
			}
		}
		if len(same) > 0 {
			trusted = rapid.SampledFrom(same).Draw(t, "trustedOldRevision")
			trKind, wantGap = "stored", false
		}
	}
	trRec := w.m.Cons[trusted]

	// target block
	heights := w.sim.Heights()
	var target int64
	switch k := rapid.IntRange(0, 9).Draw(t, "targetKind"); {
	case wantGap && k <= 7:
		target = rapid.SampledFrom(w.gaps(trusted)).Draw(t, "targetGap")
	case k <= 2 && int64(trusted.H)+1 <= w.sim.Last && int64(trusted.H)+1 >= w.sim.First:
		target = int64(trusted.H) + 1
	case k <= 6 && int64(trusted.H) < w.sim.Last:
		lo := int64(trusted.H) + 1
		if lo < w.sim.First {
			lo = w.sim.First
		}
		target = rapid.Int64Range(lo, w.sim.Last).Draw(t, "targetAbove")
	case k == 7:
		target = w.sim.Last
	case k == 8 && len(w.gaps(trusted)) > 0:
		target = rapid.SampledFrom(w.gaps(trusted)).Draw(t, "targetGap")
	default:
		target = rapid.SampledFrom(heights).Draw(t, "targetAny")
	}
	b := w.sim.Blocks[target]
	hdr := b.Header
	own := b.Vals

	// the trusted validator set an honest relayer would supply
	trVals := w.sim.Blocks[w.sim.Last].NextVals
	if tb, ok := w.sim.Blocks[int64(trusted.H)]; ok {
		trVals = tb.NextVals
	}

	// mutation before signing
	mut := "none"
	signAs := ""
	mk := rapid.IntRange(0, 9).Draw(t, "mutKind")
	if mk == 7 {
		mut = rapid.SampledFrom(preMuts).Draw(t, "preMut")
		rev := revisionOf(w.m.ChainID)
		switch mut {
		case "chainName":
			hdr.ChainID = "x" + hdr.ChainID
		case "chainName/signedForClientChain":
			hdr.ChainID = "x" + hdr.ChainID
			signAs = w.m.ChainID
		case "revision":
			hdr.ChainID = chainIDAtRevision(w.m.ChainID, rev+1)
			if hdr.ChainID == w.m.ChainID {
				hdr.ChainID = w.m.ChainID + "-1"
			}
		case "time=trusted", "time=trusted+1ns", "time=trusted-1ns":
			if trRec == nil {
				mut = "none"
				break
			}
			hdr.Time = trRec.Time.Add(map[string]time.Duration{"time=trusted": 0, "time=trusted+1ns": 1, "time=trusted-1ns": -1}[mut])
		case "time=now+drift":
			hdr.Time = w.now.Add(w.m.Drift)
		case "time=now+drift-1ns":
			hdr.Time = w.now.Add(w.m.Drift - 1)
		case "appHash":
			hdr.AppHash = tmhash.Sum([]byte("forged app hash"))
		case "valsHash":
			hdr.ValidatorsHash = tmhash.Sum([]byte("forged vals hash"))
		case "nextValsHash":
			hdr.NextValidatorsHash = tmhash.Sum([]byte("forged next vals hash"))
		case "height=trusted":
			hdr.Height = int64(trusted.H)
		case "height=trusted+1":
			hdr.Height = int64(trusted.H) + 1
		case "height=trusted-1":
			if trusted.H < 2 {
				mut = "none"
				break
			}
			hdr.Height = int64(trusted.H) - 1
		}
	}

	// signer subset
	n := len(own.Validators)
	ownTotal := own.TotalVotingPower()
	adjacent := uint64(hdr.Height) == trusted.H+1
	trPower := make([]int64, n)
	for i, v := range own.Validators {
		if _, tv := trVals.GetByAddress(v.Address); tv != nil {
			trPower[i] = tv.VotingPower
		}
	}
	ownNeed := minSufficient(ownTotal, 2, 3).Int64()
	trNeed := minSufficient(trVals.TotalVotingPower(), w.tl.N, w.tl.D).Int64()
	goal := rapid.SampledFrom(goals).Draw(t, "goal")
	mask := 1<<n - 1
	if goal == "random" {
		mask = rapid.IntRange(0, 1<<n-1).Draw(t, "mask")
	} else if goal != "all" {
		best, bestScore := -1, int64(0)
		for m := 0; m < 1<<n; m++ {
			var op, tp int64
			for i := 0; i < n; i++ {
				if m>>i&1 == 1 {
					op += own.Validators[i].VotingPower
					tp += trPower[i]
				}
			}
			os, ts := op >= ownNeed, adjacent || tp >= trNeed
			var ok bool
			var score int64 // smaller is better
			switch goal {
			case "ownMinSuff":
				ok, score = os && ts, op
			case "ownMaxInsuff":
				ok, score = !os, -op
				if !ts {
					score += 1 << 50
				}
			case "trMinSuff":
				ok, score = os && ts && !adjacent, tp
			case "trMaxInsuff":
				ok, score = os && !ts, -tp
			}
			if ok && (best < 0 || score < bestScore) {
				best, bestScore = m, score
			}
		}
		if best >= 0 {
			mask = best
		} else {
			goal = "all"
		}
	}
	nonSigner := tmsim.SigAbsent
	if rapid.IntRange(0, 3).Draw(t, "nonSignersVoteNil") == 0 {
		nonSigner = tmsim.SigNil
	}
	modes := make([]tmsim.SigMode, n)
	var signers []int
	for i := 0; i < n; i++ {
		if mask>>i&1 == 1 {
			modes[i] = tmsim.SigCommit
			signers = append(signers, i)
		} else {
			modes[i] = nonSigner
		}
	}
	fault := "none"
	if mk == 8 && len(signers) > 0 {
		i := rapid.SampledFrom(signers).Draw(t, "faultySigner")
		fm := rapid.SampledFrom(sigFaults).Draw(t, "sigFault")
		modes[i] = fm
		fault = fm.String()
	}
	spec := tmsim.CommitSpec{
		Round:    int32(rapid.IntRange(0, 2).Draw(t, "round")),
		Parts:    tmtypes.PartSetHeader{Total: 3, Hash: tmhash.Sum([]byte("part_set"))},
		Modes:    modes,
		SigTime:  hdr.Time.Add(time.Duration(rapid.IntRange(0, 5).Draw(t, "sigTime"))),
		ForgeKey: rapid.IntRange(0, w.nk-1).Draw(t, "forgeKey"),
		SignAs:   signAs,
	}
	commit := w.sim.MakeCommit(&hdr, own, spec)
	msg := tmsim.Assemble(&hdr, commit, own, clienttypes.NewHeight(trusted.Rev, trusted.H), trVals)

	// mutation after signing
	if mk == 9 {
		mut = rapid.SampledFrom(postMuts).Draw(t, "postMut")
		sh := msg.SignedHeader
		switch mut {
		case "p:time":
			sh.Header.Time = sh.Header.Time.Add(1)
		case "p:appHash":
			sh.Header.AppHash = tmhash.Sum([]byte("tampered app hash"))
		case "p:nextValsHash":
			sh.Header.NextValidatorsHash = tmhash.Sum([]byte("tampered next vals hash"))
		case "p:height":
			sh.Header.Height++
		case "p:chainID":
			sh.Header.ChainID = "x" + sh.Header.ChainID
		case "p:commitHeight":
			sh.Commit.Height++
		case "p:commitRound":
			sh.Commit.Round++
		case "p:commitBlockHash":
			sh.Commit.BlockID.Hash = tmhash.Sum(sh.Commit.BlockID.Hash)
		case "p:commitParts":
			sh.Commit.BlockID.PartSetHeader.Hash = tmhash.Sum([]byte("other parts"))
		case "p:valsetPower":
			msg.ValidatorSet.Validators[0].VotingPower++
		case "p:valsetTotal":
			msg.ValidatorSet.TotalVotingPower = 1
		case "p:dropSig":
			if len(sh.Commit.Signatures) < 2 {
				mut = "none"
				break
			}
			sh.Commit.Signatures = sh.Commit.Signatures[:len(sh.Commit.Signatures)-1]
		case "p:sigAddr":
			if len(signers) == 0 {
				mut = "none"
				break
			}
			i := rapid.SampledFrom(signers).Draw(t, "relabelled")
			sh.Commit.Signatures[i].ValidatorAddress = poolKey(100 + rapid.IntRange(0, w.nk-1).Draw(t, "label")).Addr
			if j := rapid.IntRange(0, w.nk).Draw(t, "labelKnown"); j < w.nk {
				sh.Commit.Signatures[i].ValidatorAddress = w.sim.Keys[j].Addr
			}
		case "tv:wrongSet":
			other := w.sim.Blocks[rapid.SampledFrom(heights).Draw(t, "otherSet")].Vals
			if bytes.Equal(other.Hash(), trVals.Hash()) {
				other = w.sim.ValSet([]tmsim.Member{{Key: rapid.IntRange(0, w.nk-1).Draw(t, "soleKey"), Power: 7}})
			}
			tp, err := other.ToProto()
			kit.Must(err, "proto")
			msg.TrustedValidators = tp
		case "tv:power":
			msg.TrustedValidators.Validators[0].VotingPower++
		case "tv:nil":
			msg.TrustedValidators = nil
		case "tv:total":
			msg.TrustedValidators.TotalVotingPower = 1
		case "tv:reorder":
			vs := msg.TrustedValidators.Validators
			if len(vs) < 2 {
				mut = "none"
				break
			}
			vs[0], vs[1] = vs[1], vs[0]
		case "th:rev":
			msg.TrustedHeight.RevisionNumber++
		}
	}

	// a relayer usually waits until the header is no longer from the future
	if wait := hdr.Time.Add(-w.m.Drift + 1); wait.After(w.now) && wait.Before(maxClock) && !strings.HasPrefix(mut, "time=") && rapid.IntRange(0, 3).Draw(t, "waitForHeader") != 0 {
		w.advanceTo(wait)
		w.bh++
		w.log = append(w.log, stepLog{"op": "waitForHeader", "now": off(w.now)})
	}

	// kind of update
	kind := "forward"
	hh := hkey{revisionOf(hdr.ChainID), uint64(hdr.Height)}
	switch {
	case !trusted.less(hh):
		kind = "notNewer"
	case w.m.Cons[hh] != nil:
		kind = "duplicateHeight"
	case hh.less(w.m.Latest):
		kind = "backfill"
	}
	if adjacent {
		kind += "/adjacent"
	} else if trusted.less(hh) {
		kind += "/skipping"
	}

	// clock values
	type clk struct {
		kind string
		at   time.Time
	}
	cands := []clk{{"now", w.now}}
	if trRec != nil {
		cands = append(cands, clk{"trusted+TP-1ns", trRec.Time.Add(w.m.TP - 1)}, clk{"trusted+TP", trRec.Time.Add(w.m.TP)})
	}
	if lr := w.m.Cons[w.m.Latest]; lr != nil && w.m.Latest != trusted {
		cands = append(cands, clk{"latest+TP-1ns", lr.Time.Add(w.m.TP - 1)}, clk{"latest+TP", lr.Time.Add(w.m.TP)})
	}
	cands = append(cands, clk{"hdr-drift", hdr.Time.Add(-w.m.Drift)}, clk{"hdr-drift+1ns", hdr.Time.Add(-w.m.Drift + 1)})
	var clocks []clk
	for _, c := range cands {
		dupe := false
		for _, d := range clocks {
			dupe = dupe || d.at.Equal(c.at)
		}
		if !dupe && !c.at.Before(w.now) && c.at.Before(maxClock) {
			clocks = append(clocks, c)
		}
	}
	commitIdx := 0
	if w.deliver {
		clocks = clocks[:1] // the real chain has one clock: the open block's time
	} else if rapid.IntRange(0, 11).Draw(t, "commitAtBoundaryClock") == 0 {
		commitIdx = rapid.IntRange(0, len(clocks)-1).Draw(t, "commitClock")
	}

	cache := newSigCache()
	var committed *probeResult
	for i, c := range clocks {
		c := c
		entry := stepLog{"op": "update", "trusted": trusted.String(), "trustedKind": trKind, "block": target, "header": hh.String(), "kind": kind,
			"goal": goal, "signers": fmt.Sprintf("%0*b", n, mask), "mutation": mut, "sigFault": fault, "clock": c.kind, "at": off(c.at), "hdrTime": off(hdr.Time)}
		desc := func() string { bz, _ := json.Marshal(entry); return string(bz) }
		res := w.tryUpdate(t, msg, c.at, cache, desc)
		a := res.a
		entry["model"] = a.V.String()
		entry["reasons"] = a.Reasons
		entry["accepted"] = res.accepted
		if a.HaveOwn {
			entry["ownPower"] = fmt.Sprintf("%d of %d (%+d vs minimal >2/3)", a.OwnValid, a.OwnTotal, a.OwnDist)
		}
		if a.HaveTr {
			entry["trustedPower"] = fmt.Sprintf("%d of %d (%+d vs minimal >%d/%d)", a.TrValid, a.TrTotal, a.TrDist, w.tl.N, w.tl.D)
		}
		w.labels(a, res, kind, mut, fault, c.kind, trKind)
		if res.accepted && hh.Rev != w.m.Latest.Rev {
			w.r.Label("accepted-header-of-an-earlier-revision")
		}
		boundaryPower := (a.HaveOwn && a.OwnDist >= -1 && a.OwnDist <= 1) || (a.HaveTr && a.TrDist >= -1 && a.TrDist <= 1)
		nontrivial := boundaryPower || mut != "none" || fault != "none" || !strings.HasPrefix(kind, "forward") || c.kind != "now"
		shape := fmt.Sprintf("%s|own%s|tr%s|%s|%s|%s|%s|%s|acc=%v", kind, bucket(a.HaveOwn, a.OwnDist), bucket(a.HaveTr, a.TrDist), mut, fault, c.kind,
			a.V, strings.Join(a.Reasons, "+"), res.accepted)
		cat := ""
		switch {
		case res.accepted && a.V == vAccept && a.HaveTr && a.TrDist == 0 && mut == "none":
			cat = "accepted skipping update whose trusted-set signers hold exactly the minimal power above the trust level"
		case !res.accepted && len(a.Reasons) == 1 && a.Reasons[0] == "own-power" && a.OwnDist == -1 && mut == "none" && fault == "none":
			cat = "rejected only because the header's own signers are one power unit short of more than 2/3"
		case res.accepted && strings.HasPrefix(kind, "backfill"):
			cat = "accepted back-fill below the latest height (latest height must stay)"
		case res.accepted && a.V == vAccept && c.kind == "trusted+TP-1ns":
			cat = "accepted 1 ns before the trusted state leaves the trusting period (rejected 1 ns later)"
		case !res.accepted && len(a.Reasons) == 1 && (mut != "none" || fault != "none"):
			cat = "rejected for a single reason caused by one mutation / signature fault"
		}
		w.r.Case(shape, nontrivial, w.sample(cat, entry))
		if i == commitIdx {
			r := res
			committed = &r
			w.log = append(w.log, entry)
		}
	}
	// the history continues from one of the clock values
	w.now = clocks[commitIdx].at
	w.bh++
	if committed.accepted {
		committed.write()
		w.m = committed.next
	}
	w.checkSync(t, w.at(w.now))
}

// gaps lists the produced heights above `from` and below the latest height that are not stored.
func (w *world) gaps(from hkey) []int64 {
	var out []int64
	if from.Rev != w.m.Latest.Rev {
		return nil
	}
	for h := int64(from.H) + 1; h < int64(w.m.Latest.H) && h <= w.sim.Last; h++ {
		if _, ok := w.m.Cons[hkey{from.Rev, uint64(h)}]; !ok && h >= w.sim.First {
			out = append(out, h)
		}
		if len(out) > 16 {
			break
		}
	}
	return out
}

var (
	sampleMu    sync.Mutex
	sampleGiven = map[string]bool{}
)

// sample renders one evidence sample per category and test (so that the few samples kept in the
// evidence file show different kinds of decisions); nil for everything else.
func (w *world) sample(cat string, entry stepLog) func() interface{} {
	if cat == "" {
		return nil
	}
	key := w.r.Test + "|" + cat
	sampleMu.Lock()
	given := sampleGiven[key]
	sampleMu.Unlock()
	if given {
		return nil
	}
	return func() interface{} {
		sampleMu.Lock()
		sampleGiven[key] = true
		sampleMu.Unlock()
		out := stepLog{"what": cat, "client": fmt.Sprintf("chain=%s trustLevel=%d/%d trustingPeriod=%s maxClockDrift=%s delay=%dns latest=%v stored=%v",
			w.m.ChainID, w.m.TrustNum, w.m.TrustDen, w.m.TP, w.m.Drift, w.m.Delay, w.m.Latest, w.m.heights())}
		for k, v := range entry {
			out[k] = v
		}
		return out
	}
}

func (w *world) labels(a assessment, res probeResult, kind, mut, fault, clock, trKind string) {
	r := w.r
	r.Label("update:" + kind)
	r.Label("model:" + a.V.String())
	if res.accepted {
		r.Label("client:accepted")
	} else {
		r.Label("client:rejected")
	}
	if a.V == vEither {
		r.Label(fmt.Sprintf("either:accepted=%v", res.accepted))
	}
	if len(a.Reasons) == 1 {
		r.Label("sole-reason:" + a.Reasons[0])
	}
	for _, why := range a.Reasons {
		r.Label("reason:" + why)
	}
	if a.HaveOwn {
		r.Label("own-power-vs-2/3:" + bucket(true, a.OwnDist))
	}
	if a.HaveTr {
		r.Label("trusted-power-vs-trust-level:" + bucket(true, a.TrDist))
	}
	r.Label("clock:" + clock)
	if clock == "now" {
		expired := false
		for _, why := range a.Reasons {
			expired = expired || why == "client-expired"
		}
		r.Label(fmt.Sprintf("now:client-expired=%v", expired))
	}
	if clock != "now" {
		r.Label(fmt.Sprintf("clock:%s:%s", clock, a.V))
	}
	if mut != "none" {
		r.Label("mutation:" + mut)
		r.Label("mutated:" + a.V.String())
	}
	if fault != "none" {
		r.Label("sig-fault:" + fault)
		r.Label("sig-fault:" + a.V.String())
	}
	r.Label("trusted:" + trKind)
}

// ---------------------------------------------------------------------------------------------
// proof step

func (w *world) proof(t *rapid.T) {
	stored := w.m.heights()
	var q hkey
	qKind := "stored"
	switch k := rapid.IntRange(0, 9).Draw(t, "heightKind"); {
	case k <= 6:
		q = rapid.SampledFrom(stored).Draw(t, "height")
	case k <= 8:
		q = hkey{w.m.Latest.Rev, uint64(rapid.Int64Range(w.sim.First, w.sim.Last).Draw(t, "anyHeight"))}
	default:
		q = hkey{w.m.Latest.Rev, w.m.Latest.H + uint64(rapid.IntRange(1, 3).Draw(t, "above"))}
	}
	if _, ok := w.m.Cons[q]; !ok {
		qKind = "unstored"
	}
	if w.m.Latest.less(q) {
		qKind += "+aboveLatest"
	}
	// proof source
	src := int64(q.H)
	if _, ok := w.sim.Blocks[src]; !ok || rapid.IntRange(0, 4).Draw(t, "proofFromOtherBlock") == 0 {
		src = rapid.SampledFrom(w.sim.Heights()).Draw(t, "proofBlock")
	}
	sb := w.sim.Blocks[src]
	ack := rapid.Bool().Draw(t, "ack")
	seq := rapid.Uint64Range(1, 3).Draw(t, "seq")
	if len(sb.KV) > 0 && rapid.IntRange(0, 4).Draw(t, "existingKey") != 0 {
		// prefer a key that exists at the source block
		var ks []string
		for k := range sb.KV {
			ks = append(ks, k)
		}
		sort.Strings(ks)
		k := rapid.SampledFrom(ks).Draw(t, "key")
		ack = strings.HasPrefix(k, "acks/")
		fmt.Sscanf(k[strings.LastIndex(k, "/")+1:], "%d", &seq)
	}
	key := packetKey(ack, seq)
	proof := w.sim.Proof(sb.Version, key)
	trueVal, present := sb.KV[string(key)]
	claimed := trueVal
	valKind := "true"
	if !present || rapid.IntRange(0, 5).Draw(t, "wrongValue") == 0 {
		claimed = tmhash.Sum([]byte{byte(rapid.IntRange(4, 9).Draw(t, "otherVal"))})
		valKind = "wrong"
		if !present {
			valKind = "absentKey"
		}
	}
	vAck, vSeq := ack, seq
	callKind := "same"
	switch rapid.IntRange(0, 11).Draw(t, "callFor") {
	case 0:
		vAck, callKind = !ack, "otherKind"
	case 1:
		vSeq, callKind = seq+1, "otherSeq"
	}
	proofOK := func(root []byte) bool {
		return present && bytes.Equal(claimed, trueVal) && bytes.Equal(root, sb.AppHash) && vAck == ack && vSeq == seq
	}

	type clk struct {
		kind string
		at   time.Time
	}
	clocks := []clk{{"now", w.now}}
	if rec, ok := w.m.Cons[q]; ok && rec.HasProcessed && w.m.Delay < 1<<62 {
		if v := rec.Processed + w.m.Delay; v < uint64(maxClock.UnixNano()) {
			for _, d := range []int64{-1, 0, 1} {
				at := time.Unix(0, int64(v)+d).UTC()
				if at.After(w.now) {
					clocks = append(clocks, clk{fmt.Sprintf("processed+delay%+dns", d), at})
				}
			}
		}
	}
	cs := w.clientState(w.at(w.now))
	for _, c := range clocks {
		w.r.Step()
		ctx := w.at(w.now).WithBlockTime(c.at)
		br, _ := ctx.CacheContext()
		store := w.c.App.XIBCKeeper.ClientKeeper.ClientStore(br, w.name)
		height := clienttypes.NewHeight(q.Rev, q.H)
		var err error
		if vAck {
			err = cs.VerifyPacketAcknowledgement(br, store, w.c.App.AppCodec(), height, proof, srcName, dstName, vSeq, claimed)
		} else {
			err = cs.VerifyPacketCommitment(br, store, w.c.App.AppCodec(), height, proof, srcName, dstName, vSeq, claimed)
		}
		v, why := w.m.proofGate(q, c.at, proofOK)
		entry := stepLog{"op": "proof", "height": q.String(), "heightKind": qKind, "proofFromBlock": src, "ack": ack, "seq": seq, "value": valKind,
			"call": callKind, "clock": c.kind, "at": off(c.at), "model": v.String(), "why": why, "accepted": err == nil}
		desc, _ := json.Marshal(entry)
		switch {
		case v == vReject && err == nil:
			t.Fatalf("proof HONOURED, the property requires refusal (%s)\n%s\n%s", why, desc, w.render())
		case v == vAccept && err != nil:
			t.Fatalf("valid proof REFUSED (%s)\n%s\n%s", trim(err.Error()), desc, w.render())
		}
		w.r.Label("proof:" + v.String() + ":" + why)
		w.r.Label("proof-clock:" + c.kind)
		w.r.Label("proof-height:" + qKind)
		nontrivial := c.kind != "now" || qKind != "stored" || valKind != "true" || callKind != "same" || src != int64(q.H)
		shape := fmt.Sprintf("proof|%s|other=%v|%s|%s|%s|%s|%s|acc=%v", qKind, src != int64(q.H), valKind, callKind, c.kind, v, why, err == nil)
		cat := ""
		switch {
		case v == vReject && why == "delay-not-passed" && c.kind == "processed+delay-1ns" && proofOK(w.m.Cons[q].Root):
			cat = "genuine proof refused 1 ns before the delay since processing has passed"
		case v == vReject && why == "above-latest":
			cat = "proof refused at a stored height above the latest height"
		}
		w.r.Case(shape, nontrivial, w.sample(cat, entry))
		if c.kind == "now" {
			w.log = append(w.log, entry)
		}
	}
}

// lowerLatest installs, the way an UpgradeClient proposal does, a client state whose latest height is
// a lower stored height (consensus state unchanged), so that stored heights above the latest exist.
func (w *world) lowerLatest(t *rapid.T) {
	var lower []hkey
	for _, h := range w.m.heights() {
		if h.less(w.m.Latest) && w.m.Cons[h].HasProcessed {
			lower = append(lower, h)
		}
	}
	if len(lower) == 0 {
		t.Skip("no lower stored height")
	}
	l := rapid.SampledFrom(lower).Draw(t, "lowerTo")
	ctx := w.at(w.now)
	cs := *w.clientState(ctx)
	cs.LatestHeight = clienttypes.NewHeight(l.Rev, l.H)
	rec := w.m.Cons[l]
	cons := &xibctmtypes.ConsensusState{Timestamp: rec.Time, Root: rec.Root, NextValidatorsHash: rec.NextValsHash}
	kit.Must(w.c.App.XIBCKeeper.ClientKeeper.UpgradeClient(ctx, w.name, &cs, cons), "UpgradeClient")
	w.m.Latest = l
	w.observeProcessed(ctx, l)
	w.r.Label("gov-upgrade-lowered-latest")
	w.log = append(w.log, stepLog{"op": "govUpgradeLowerLatest", "to": l.String()})
	w.checkSync(t, w.at(w.now))
}

// observeProcessed copies the processed time the store holds for height h into the model. It is used after
// UpgradeClient only: an upgrade is not an operation C07 speaks about (C18 does), it merely brings the
// client into states from which C07's clauses are then checked, so the model follows whatever the
// upgrade recorded instead of predicting it.
func (w *world) observeProcessed(ctx sdk.Context, h hkey) {
	rec := w.m.Cons[h]
	if rec == nil {
		return
	}
	p, ok := toMap(w.dump(ctx))[processedKey(h)]
	rec.HasProcessed = ok
	rec.Processed = 0
	if ok {
		rec.Processed = binary.BigEndian.Uint64(p)
	}
}

// revive replaces, the way an UpgradeClient proposal does, an expired client's state by one at a fresh,
// not yet stored block of the counterparty.
func (w *world) revive(t *rapid.T) {
	lr := w.m.Cons[w.m.Latest]
	if lr == nil || !w.m.expiredAt(lr.Time, w.now) {
		t.Skip("client alive")
	}
	last := w.sim.Blocks[w.sim.Last]
	tm := w.now.Add(-1)
	if !tm.After(last.Time) {
		tm = last.Time.Add(1)
	}
	next := w.nextMembers(t, w.mem[w.sim.Last])
	b := w.sim.Produce(tm, next, w.drawWrites(t))
	w.mem[b.Height] = next
	h := hkey{w.m.Latest.Rev, uint64(b.Height)}
	if !w.m.Latest.less(h) {
		t.Skip("latest above the counterparty's head")
	}
	ctx := w.at(w.now)
	cs := *w.clientState(ctx)
	cs.LatestHeight = clienttypes.NewHeight(h.Rev, h.H)
	cons := &xibctmtypes.ConsensusState{Timestamp: b.Time, Root: b.AppHash, NextValidatorsHash: b.NextVals.Hash()}
	kit.Must(w.c.App.XIBCKeeper.ClientKeeper.UpgradeClient(ctx, w.name, &cs, cons), "UpgradeClient")
	w.m.Latest = h
	w.m.Cons[h] = &consRec{Time: b.Time, Root: b.AppHash, NextValsHash: b.NextVals.Hash()}
	w.observeProcessed(ctx, h)
	w.r.Label("gov-upgrade-revived-expired-client")
	w.log = append(w.log, stepLog{"op": "govUpgradeRevive", "to": h.String(), "blockTime": off(b.Time), "now": off(w.now)})
	w.checkSync(t, w.at(w.now))
}

// bumpRevision: the counterparty restarts under the next revision number (a new chain id "name-(r+1)" whose heights start
// again at a small number) and the client follows the way an UpgradeClient proposal makes it: new chain id, latest height
// (r+1, first) and the consensus state of that block. Consensus states of the earlier revision stay in the store, so validly
// signed headers of the old revision can still be back-filled from them (and must never lower the latest height).
func (w *world) bumpRevision(t *rapid.T) {
	rev := revisionOf(w.m.ChainID)
	newID := chainIDAtRevision(w.m.ChainID, rev+1)
	if newID == w.m.ChainID || len(w.old) >= 2 {
		t.Skip("chain id not in revision format / enough revisions")
	}
	first := rapid.SampledFrom([]int64{1, 1, 2, 3, 40}).Draw(t, "newRevisionFirstHeight")
	t0 := w.now.Add(-time.Duration(rapid.IntRange(1, 3).Draw(t, "newRevisionAge")))
	if last := w.sim.Blocks[w.sim.Last]; !t0.After(last.Time) {
		t0 = last.Time.Add(1)
	}
	if !t0.Before(w.now.Add(w.m.Drift)) {
		t.Skip("old revision's head is in the client's future")
	}
	vals0 := w.designMembers(t)
	next0 := w.nextMembers(t, vals0)
	sim := tmsim.NewChain(newID, w.keys, first, t0, vals0, next0, append(w.drawWrites(t), tmsim.KV{Key: packetKey(false, 1), Value: tmhash.Sum([]byte{0})}))
	w.old = append(w.old, oldRevision{sim: w.sim, mem: w.mem})
	w.sim, w.mem = sim, map[int64][]tmsim.Member{first: next0}
	b := sim.Blocks[first]
	ctx := w.at(w.now)
	cs := *w.clientState(ctx)
	cs.ChainId = newID
	cs.LatestHeight = clienttypes.NewHeight(rev+1, uint64(first))
	kit.Must(cs.Validate(), "client state of the next revision")
	cons := &xibctmtypes.ConsensusState{Timestamp: b.Time, Root: b.AppHash, NextValidatorsHash: b.NextVals.Hash()}
	kit.Must(w.c.App.XIBCKeeper.ClientKeeper.UpgradeClient(ctx, w.name, &cs, cons), "UpgradeClient")
	h := hkey{rev + 1, uint64(first)}
	w.m.ChainID = newID
	w.m.Latest = h
	w.m.Cons[h] = &consRec{Time: b.Time, Root: b.AppHash, NextValsHash: b.NextVals.Hash()}
	w.observeProcessed(ctx, h)
	w.r.Label("gov-upgrade-next-revision")
	w.log = append(w.log, stepLog{"op": "govUpgradeNextRevision", "chainID": newID, "to": h.String(), "now": off(w.now)})
	w.checkSync(t, w.at(w.now))
	w.produce(t)
}

// updateOldRevision runs an update step against the counterparty chain of an earlier revision: its headers (chain id of that
// revision) trusting consensus states the client still holds for that revision are back-fills below the latest height.
func (w *world) updateOldRevision(t *rapid.T) {
	i := rapid.IntRange(0, len(w.old)-1).Draw(t, "oldRevision")
	cur := oldRevision{sim: w.sim, mem: w.mem}
	w.sim, w.mem = w.old[i].sim, w.old[i].mem
	defer func() { w.sim, w.mem = cur.sim, cur.mem }()
	w.r.Label("update-from-old-revision")
	w.update(t)
}

// advanceTo moves the clock (in deliver mode by committing the open block of the real chain).
func (w *world) advanceTo(at time.Time) {
	if w.deliver {
		w.c.Commit(at.Sub(w.c.Now))
		w.now = w.c.Now
		return
	}
	w.now = at
}

func (w *world) tick(t *rapid.T) {
	var ds []time.Duration
	for _, d := range w.durations(t) {
		if d >= 0 && w.now.Add(d).Before(maxClock) {
			ds = append(ds, d)
		}
	}
	d := rapid.SampledFrom(ds).Draw(t, "dt")
	w.advanceTo(w.now.Add(d))
	w.bh++
	w.log = append(w.log, stepLog{"op": "tick", "dt": d.String(), "now": off(w.now)})
}

// ---------------------------------------------------------------------------------------------
// the property

var chainIDs = []string{"tmsim-1", "tmsim-1", "tmsim-7", "tm-sim-3", "tmsimchain"}
var trustLevels = []frac{{1, 3}, {1, 3}, {1, 3}, {2, 3}, {1, 2}, {2, 5}, {3, 4}, {1, 1}, {5, 15}, {34, 100}}
var trustingPeriods = []time.Duration{2000, time.Minute, time.Hour, 336 * time.Hour}
var drifts = []time.Duration{1, 500, 10 * time.Second, 10 * time.Minute}
var delays = []uint64{0, 0, 1, 1000, uint64(10 * time.Second), uint64(time.Hour)}
var hugeDelays = []uint64{math.MaxUint64, math.MaxUint64 - 1_000_000_000_000_000_000, 1 << 63}
var firstHeights = []int64{1, 2, 45, 254, 1<<32 - 2, 1 << 40}

var (
	dtxOnce  sync.Once
	dtxBase  *kit.Chain
	dtxCount int
)

// dtxChain is the dedicated chain of the DeliverTx-mode test (its deliver state accumulates clients).
func dtxChain() *kit.Chain {
	dtxOnce.Do(func() { dtxBase = kit.NewChain("teleport_9000-1", kit.ChainOpts{Seed: []byte("c07-dtx")}) })
	return dtxBase
}

func runHistory(t *rapid.T, r *rec.Recorder, deliver bool) {
	var w *world
	if deliver {
		c := dtxChain()
		w = &world{r: r, c: c, deliver: true, acct: c.Accounts[1]}
	} else {
		c := baseChain()
		ctx, _ := c.Ctx().CacheContext()
		w = &world{r: r, c: c, ctx: ctx}
	}
	c := w.c
	if deliver {
		// keep the shared chain's xibc store small: drop this case's client when the case ends
		defer func() {
			st := c.App.XIBCKeeper.ClientKeeper.ClientStore(c.Ctx(), w.name)
			for _, kv := range w.dump(c.Ctx()) {
				st.Delete(kv.K)
			}
		}()
	}
	w.mem = map[int64][]tmsim.Member{}
	w.exclDelayOverflow = kf.Listed("C07", "delay-overflow")
	w.nk = rapid.IntRange(3, 8).Draw(t, "keys")
	salt := rapid.IntRange(0, 2).Draw(t, "keySalt")
	keys := make([]tmsim.Key, w.nk)
	for i := range keys {
		keys[i] = poolKey(salt*10 + i)
	}
	w.keys = keys
	chainID := rapid.SampledFrom(chainIDs).Draw(t, "chainID")
	w.name = chainID
	if deliver {
		dtxCount++
		w.name = fmt.Sprintf("c07-dtx-%d", dtxCount)
		c.RegisterRelayer(w.acct.Acc, []string{w.name}, []string{"0x0000000000000000000000000000000000000001"})
	}
	w.tl = rapid.SampledFrom(trustLevels).Draw(t, "trustLevel")
	tp := rapid.SampledFrom(trustingPeriods).Draw(t, "trustingPeriod")
	if deliver && tp > time.Hour {
		tp = time.Hour // the shared chain's clock only moves forward, across all cases
	}
	drift := rapid.SampledFrom(drifts).Draw(t, "drift")
	delay := rapid.SampledFrom(delays).Draw(t, "delay")
	if rapid.IntRange(0, 9).Draw(t, "hugeDelay") == 0 {
		huge := rapid.SampledFrom(hugeDelays).Draw(t, "hugeDelayValue")
		// processedTime + delay can wrap around uint64 for these (known finding delay-overflow)
		if wraps := huge > math.MaxUint64-uint64(maxClock.UnixNano()); wraps && w.exclDelayOverflow {
			r.Exclude("delay-overflow")
		} else {
			delay = huge
		}
	}
	first := rapid.SampledFrom(firstHeights).Draw(t, "firstHeight")
	t0 := kit.Epoch.Add(time.Duration(rapid.Int64Range(0, 1000).Draw(t, "t0")))
	if deliver {
		t0 = c.Now
	}
	w.m = &clientModel{ChainID: chainID, TrustNum: w.tl.N, TrustDen: w.tl.D, TP: tp, Drift: drift, Delay: delay, Cons: map[hkey]*consRec{}}
	w.now = t0

	vals0 := w.designMembers(t)
	next0 := w.nextMembers(t, vals0)
	w.sim = tmsim.NewChain(chainID, keys, first, t0, vals0, next0, append(w.drawWrites(t), tmsim.KV{Key: packetKey(false, 1), Value: tmhash.Sum([]byte{0})}))
	w.mem[first] = next0
	for i := rapid.IntRange(0, 2).Draw(t, "preBlocks"); i > 0; i-- {
		w.produce(t)
	}
	// create the client at one of the produced blocks
	start := w.sim.Blocks[rapid.Int64Range(w.sim.First, w.sim.Last).Draw(t, "clientAt")]
	rev := revisionOf(chainID)
	if dt := rapid.SampledFrom([]time.Duration{0, 0, 1, tp / 50, tp / 10, tp / 2}).Draw(t, "createLag"); start.Time.Add(dt).After(w.now) {
		w.advanceTo(start.Time.Add(dt))
	}
	w.bh = 10
	cs := xibctmtypes.NewClientState(chainID, xibctmtypes.Fraction{Numerator: w.tl.N, Denominator: w.tl.D}, tp, tp+tp/2, drift,
		clienttypes.NewHeight(rev, uint64(start.Height)), commitmenttypes.GetSDKSpecs(), commitmenttypes.MerklePrefix{KeyPrefix: []byte("xibc")}, delay)
	kit.Must(cs.Validate(), "client state")
	cons := &xibctmtypes.ConsensusState{Timestamp: start.Time, Root: start.AppHash, NextValidatorsHash: start.NextVals.Hash()}
	kit.Must(cons.ValidateBasic(), "consensus state")
	kit.Must(c.App.XIBCKeeper.ClientKeeper.CreateClient(w.at(w.now), w.name, cs, cons), "CreateClient")
	h0 := hkey{rev, uint64(start.Height)}
	w.m.Latest = h0
	w.m.Cons[h0] = &consRec{Time: start.Time, Root: start.AppHash, NextValsHash: start.NextVals.Hash(), Processed: uint64(w.now.UnixNano()), HasProcessed: true}
	w.log = append(w.log, stepLog{"op": "create", "at": h0.String(), "now": off(w.now), "blocks": fmt.Sprintf("%d..%d", w.sim.First, w.sim.Last)})
	w.checkSync(t, w.at(w.now))
	w.produce(t)

	t.Repeat(map[string]func(*rapid.T){
		"": func(t *rapid.T) {},
		"step": func(t *rapid.T) {
			k := rapid.IntRange(0, 19).Draw(t, "action")
			if lr := w.m.Cons[w.m.Latest]; k%3 == 0 && lr != nil && w.m.expiredAt(lr.Time, w.now) {
				w.revive(t)
				return
			}
			switch {
			case k <= 8:
				w.update(t)
			case k <= 12:
				w.proof(t)
			case k <= 15:
				w.produce(t)
			case k <= 17:
				w.tick(t)
			case k == 18:
				if len(w.old) > 0 && rapid.IntRange(0, 3).Draw(t, "bumpAgain") != 0 {
					w.updateOldRevision(t)
				} else {
					w.bumpRevision(t)
				}
			default:
				if len(w.old) > 0 && rapid.Bool().Draw(t, "oldRevisionUpdate") {
					w.updateOldRevision(t)
				} else {
					w.lowerLatest(t)
				}
			}
		},
	})
}

func TestC07_Updates(t *testing.T) {
	r := rec.For("TestC07_Updates", rule)
	rapid.Check(t, func(t *rapid.T) { runHistory(t, r, false) })
}

// TestC07_DeliverTx runs the same histories the way the chain runs them: the client lives in the
// deliver state of a real chain, every update is a signed MsgUpdateClient from a registered relayer
// through BaseApp.DeliverTx (ValidateBasic, ante handler, message cache), the clock is the block time
// (advanced by committing blocks); a rejected transaction must leave the whole xibc store unchanged.
func TestC07_DeliverTx(t *testing.T) {
	r := rec.For("TestC07_DeliverTx", "same generator as TestC07_Updates with one clock value per update (the block time of a real chain); "+
		"updates are MsgUpdateClient transactions through DeliverTx; additionally: rejected tx => whole xibc store dump unchanged")
	rapid.Check(t, func(t *rapid.T) { runHistory(t, r, true) })
}

var _ = tmproto.PrecommitType
