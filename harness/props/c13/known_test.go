package c13

import (
	"fmt"
	"strings"
	"testing"

	sdk "github.com/cosmos/cosmos-sdk/types"

	"github.com/teleport-network/teleport/x/xibc/exported"

	"verif/harness/kf"
	"verif/harness/kit"
	"verif/harness/rec"
)

// pinned (library-free) reproductions of the C13 findings. Each builds the minimal state on a cache
// branch through the client keeper and evaluates the round trip without tolerance for the finding it pins.

func pinned(t *testing.T, key, what string, build func(e *env) error, reproduces func(v *violation) bool) {
	r := rec.For(t.Name(), "pinned: "+what)
	c := baseChain()
	ctx, _ := c.Ctx().CacheContext()
	e := &env{c: c, ctx: ctx}
	if err := build(e); err != nil {
		// the pinned state is refused by the client type's own validation: it is no longer reachable
		r.Case(key+"/unreachable", true, func() interface{} { return fmt.Sprintf("%s -> not reachable any more: %v", what, err) })
		r.Case(key+"/oracle", true, nil)
		return
	}
	// the other listed findings are tolerated so that each pinned test follows its own root cause only
	tol := tolerance{count: func(string, int) {}}
	if key != keyTMIterKeys {
		tol.tmIterKeys = listed(keyTMIterKeys)
	}
	if key != keyEthConsType {
		tol.ethValidate = listed(keyEthConsType)
	}
	_, v := roundTrip(c, ctx, freshChain(), tol)
	r.Case(key+"/state", true, func() interface{} { return fmt.Sprintf("%s -> %v", what, v) })
	r.Case(key+"/oracle", true, nil)
	if v == nil {
		return // no longer reproduces
	}
	if !reproduces(v) {
		t.Fatalf("%s: the pinned state fails differently: %s", key, v)
	}
	if kf.Listed("C13", key) {
		kf.Report("C13", key)
		r.KnownFinding(key, v.String())
		return
	}
	t.Fatalf("%s: %s\n%s", key, what, v)
}

var pinnedTSS = kit.NewAccount([]byte("c13-tss")).Acc

func TestC13_Known_EthConsensusClientType(t *testing.T) {
	pinned(t, keyEthConsType, "one ETH client created at 0-400 (ClientKeeper.CreateClient), nothing else",
		func(e *env) error {
			return e.tryCreate(clientPlan{Name: "eth-main", Type: tETH, H0: 400}, 0, pinnedTSS)
		},
		func(v *violation) bool { return v.Clause == "validate" && strings.Contains(v.Msg, ethTypeErr) })
}

func TestC13_Known_TmIterationKeysNotExported(t *testing.T) {
	pinned(t, keyTMIterKeys, "one Tendermint client created at 0-1 and updated to 0-2",
		func(e *env) error {
			return e.tryCreate(clientPlan{Name: "tm-main", Type: tTM, H0: 1, UpdRevs: []uint64{0}, Vals: 1}, 0, pinnedTSS)
		},
		func(v *violation) bool {
			return v.Clause == "dump" && strings.Contains(v.Msg, "differs in 2 keys") && strings.Count(v.Msg, "iterateConsensusStates") == 2
		})
}

func TestC13_Known_ZeroHeightClientExportInvalid(t *testing.T) {
	pinned(t, keyZeroHeight, "one BSC client created at block 0 (revision 0)",
		func(e *env) error {
			return e.tryCreate(clientPlan{Name: "bsc-main", Type: tBSC, H0: 0, Vals: 1}, 0, pinnedTSS)
		},
		func(v *violation) bool {
			return v.Clause == "validate" && strings.Contains(v.Msg, "consensus state height cannot be zero")
		})
}

// toggle builds the new client state on a scratch branch and toggles through the keeper the way the
// gov handler does.
func toggle(e *env, name string, to clientPlan) {
	sctx, _ := baseChain().Ctx().CacheContext()
	se := &env{c: baseChain(), ctx: sctx}
	to.Name = name
	se.create(to, 50, pinnedTSS)
	ncs, _ := se.ck().GetClientState(sctx, name)
	var ncons exported.ConsensusState = &tssCons
	if to.Type != tTSS {
		ncons, _ = se.ck().GetClientConsensusState(sctx, name, ncs.GetLatestHeight())
	}
	var cctx sdk.Context
	cctx, write := e.ctx.CacheContext()
	kit.Must(e.ck().ToggleClient(cctx, name, ncs, ncons), "ToggleClient")
	write()
}

func TestC13_Known_ToggleLeavesOldTypeState(t *testing.T) {
	pinned(t, keyToggleLeftover, "BSC client created at 0-400, toggled to a Tendermint client at 0-7",
		func(e *env) error {
			e.create(clientPlan{Name: "cp-chain", Type: tBSC, H0: 400, Vals: 1}, 0, pinnedTSS)
			toggle(e, "cp-chain", clientPlan{Type: tTM, H0: 7, Vals: 1})
			return nil
		},
		func(v *violation) bool {
			return v.Clause == "validate" && strings.Contains(v.Msg, "consensus state client type bsc does not equal client state client type tendermint")
		})
}

func TestC13_Known_TssConsensusStateAtZeroHeight(t *testing.T) {
	pinned(t, keyTSSZeroHeight, "one TSS client, upgraded once (UpgradeClient with a rotated public key)",
		func(e *env) error {
			e.create(clientPlan{Name: "tss-net", Type: tTSS, Vals: 1}, 0, pinnedTSS)
			sctx, _ := baseChain().Ctx().CacheContext()
			se := &env{c: baseChain(), ctx: sctx}
			se.create(clientPlan{Name: "tss-net", Type: tTSS, Vals: 2}, 0, pinnedTSS)
			ncs, _ := se.ck().GetClientState(sctx, "tss-net")
			kit.Must(e.ck().UpgradeClient(e.ctx, "tss-net", ncs, &tssCons), "UpgradeClient")
			return nil
		},
		func(v *violation) bool {
			return v.Clause == "validate" && strings.Contains(v.Msg, "consensus state height cannot be zero")
		})
}
