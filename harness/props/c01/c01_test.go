// C01 — exactly-once packet delivery per (source, destination, sequence).
package c01

import (
	"fmt"
	"math"
	"math/big"
	"sort"
	"strings"
	"testing"

	sdk "github.com/cosmos/cosmos-sdk/types"
	"github.com/ethereum/go-ethereum/common"
	"pgregory.net/rapid"

	packettypes "github.com/teleport-network/teleport/x/xibc/core/packet/types"

	"verif/harness/kit"
	"verif/harness/rec"
	"verif/harness/sim/bridge"
)

func TestMain(m *testing.M) { rec.Main(m) }

const rule = "rapid state machine over 2-3 real chains (send / tick / client update / first receive / replay of an accepted triple in variants " +
	"identical|re-encoded bytes|fresh proof height|other relayer|stale or unknown height|same transaction|same block|after ack, TSS-injected packets incl. other payload under an accepted triple); " +
	"non-trivial = history with >= 1 replay attempt of an accepted triple separated from its first delivery by >= 1 other accepted message; distinct by (replay variants, placement, intervening kinds, client kind)"

type step struct {
	Op  string `json:"op"`
	Arg string `json:"arg,omitempty"`
	Res string `json:"res,omitempty"`
}

type machine struct {
	*bridge.Machine
	t          *rapid.T
	r          *rec.Recorder
	w          *bridge.World
	acceptedAt map[bridge.Triple]int
	replays    map[string]bool
	nontrivial bool
	tssPayload map[bridge.Triple]string
}

func (m *machine) log(op, arg, res string) { m.Log(op, arg, res) }

func (m *machine) failf(format string, a ...interface{}) {
	m.Machine.T = m.t
	m.Failf(format, a...)
}

func short(s string) string {
	if len(s) > 160 {
		return s[:160]
	}
	return s
}

// ---- actions

func (m *machine) recvFresh(t *rapid.T) {
	w := m.w
	ps := m.Pending()
	if len(ps) == 0 {
		t.Skip("nothing deliverable")
	}
	p := ps[rapid.IntRange(0, len(ps)-1).Draw(t, "pkt")]
	hs := w.ProofHeightsFor(p.DstIdx, p.SrcIdx, p.SentAt)
	h := hs[rapid.IntRange(0, len(hs)-1).Draw(t, "height")]
	rel := w.Rels[rapid.IntRange(0, 1).Draw(t, "rel")]
	bz := p.Bz
	enc := "canonical"
	if rapid.IntRange(0, 4).Draw(t, "reenc") == 0 {
		if alt := bridge.Reencode(p.Bz, rapid.IntRange(0, 2).Draw(t, "variant")); alt != nil {
			bz, enc = alt, "re-encoded"
		}
	}
	o := w.DeliverDumped(p.DstIdx, rel, w.RecvMsg(p, bz, h, rel.Acc))
	if !o.Res.OK() {
		if enc == "re-encoded" {
			// a non-canonical encoding may legitimately be refused; then nothing may change
			if !o.Unchanged() {
				m.failf("refused first receive (re-encoded bytes) of %s changed state:\n%s", p.T, o.DiffString())
			}
			m.log("recvFresh", fmt.Sprintf("%s h=%d %s", p.T, h, enc), "refused")
			return
		}
		m.failf("positive control: first receive of genuine packet %s (valid proof at stored height %d, registered relayer) rejected: %s", p.T, h, short(o.Res.Log))
	}
	w.NoteRecv(p.DstIdx, p, o.Res, rel)
	m.Accepted++
	m.acceptedAt[p.T] = m.Accepted
	m.r.Label("first_receive_" + enc)
	m.log("recvFresh", fmt.Sprintf("%s h=%d %s call=%s", p.T, h, enc, p.Call), fmt.Sprintf("ack code=%d", p.Ack.Code))
}

func (m *machine) replay(t *rapid.T) {
	w := m.w
	ps := m.ReceivedPkts()
	if len(ps) == 0 {
		t.Skip("nothing accepted yet")
	}
	p := ps[rapid.IntRange(0, len(ps)-1).Draw(t, "pkt")]
	variant := rapid.SampledFrom([]string{"identical", "reencoded", "fresh-height", "other-relayer", "stale-height", "unknown-height", "same-tx-twice"}).Draw(t, "variant")
	hs := w.ProofHeightsFor(p.DstIdx, p.SrcIdx, p.SentAt)
	if len(hs) == 0 {
		t.Skip("no usable proof height (the client was re-anchored by governance and has not caught up)")
	}
	h := hs[0]
	rel := p.AckRelayer
	bz := p.Bz
	switch variant {
	case "reencoded":
		if alt := bridge.Reencode(p.Bz, rapid.IntRange(0, 2).Draw(t, "enc")); alt != nil {
			bz = alt
		} else {
			variant = "identical"
		}
	case "fresh-height":
		h = hs[len(hs)-1]
	case "other-relayer":
		if rel.Acc.Equals(w.Rels[0].Acc) {
			rel = w.Rels[1]
		} else {
			rel = w.Rels[0]
		}
	}
	var msgs []sdk.Msg
	msg := w.RecvMsg(p, bz, h, rel.Acc)
	if variant == "stale-height" { // a stored height whose state did not yet contain the commitment
		all := w.ConsensusHeights(p.DstIdx, p.SrcIdx)
		msg.ProofHeight = bridge.H(msg.ProofHeight.RevisionNumber, uint64(all[0]))
	}
	if variant == "unknown-height" {
		msg.ProofHeight = bridge.H(msg.ProofHeight.RevisionNumber, msg.ProofHeight.RevisionHeight+1000)
	}
	msgs = append(msgs, msg)
	if variant == "same-tx-twice" {
		msgs = append(msgs, w.RecvMsg(p, p.Bz, hs[len(hs)-1], rel.Acc))
	}
	o := w.DeliverDumped(p.DstIdx, rel, msgs...)
	sep := m.Accepted - m.acceptedAt[p.T]
	place := "later"
	if p.RecvAt == w.Chains[p.DstIdx].Header.Height {
		place = "same-block"
	}
	after := ""
	if p.Acked {
		after = "+after-ack"
	}
	if o.Res.OK() {
		m.failf("replay (%s, %s) of accepted triple %s was accepted", variant, place, p.T)
	}
	if !o.Unchanged() {
		m.failf("rejected replay (%s) of %s changed state:\n%s", variant, p.T, o.DiffString())
	}
	m.r.Label("replay_" + variant)
	m.r.Label("replay_" + place + after)
	if sep >= 1 {
		m.nontrivial = true
		m.replays[fmt.Sprintf("%s/%s%s/tm", variant, place, after)] = true
	}
	m.log("replay", fmt.Sprintf("%s %s %s sep=%d", p.T, variant, place+after, sep), "rejected, state unchanged")
}

// freshAndReplayOneTx: a transaction carrying a first receive and, after it, a second receive of the same
// triple must fail as a whole and accept nothing.
func (m *machine) freshTwiceOneTx(t *rapid.T) {
	w := m.w
	ps := m.Pending()
	if len(ps) == 0 {
		t.Skip("nothing deliverable")
	}
	p := ps[rapid.IntRange(0, len(ps)-1).Draw(t, "pkt")]
	hs := w.ProofHeightsFor(p.DstIdx, p.SrcIdx, p.SentAt)
	rel := w.Rels[rapid.IntRange(0, 1).Draw(t, "rel")]
	second := p.Bz
	if alt := bridge.Reencode(p.Bz, rapid.IntRange(0, 2).Draw(t, "enc")); alt != nil && rapid.Bool().Draw(t, "useAlt") {
		second = alt
	}
	o := w.DeliverDumped(p.DstIdx, rel, w.RecvMsg(p, p.Bz, hs[0], rel.Acc), w.RecvMsg(p, second, hs[len(hs)-1], rel.Acc))
	if o.Res.OK() {
		m.failf("transaction with two receives of fresh triple %s was accepted", p.T)
	}
	if !o.Unchanged() {
		m.failf("failed two-receive transaction for %s changed state:\n%s", p.T, o.DiffString())
	}
	m.r.Label("fresh_twice_one_tx")
	m.log("freshTwiceOneTx", p.T.String(), "rejected, state unchanged")
}

// tssInject: the TSS account delivers packets of the pseudo counterparty; a second packet under an
// accepted triple (same or other payload) must be rejected without state change.
func (m *machine) tssInject(t *rapid.T) {
	w := m.w
	ci := rapid.IntRange(0, len(w.Chains)-1).Draw(t, "chain")
	c := w.Chains[ci]
	// a TSS-attested source numbers its packets itself: small sequences (so that replays meet accepted triples often) and the
	// limits of the uint64 range
	seq := rapid.SampledFrom([]uint64{1, 2, 3, 4, 1, 2, 3, 4, 1<<63 - 1, 1 << 63, 1<<63 + 1, math.MaxUint64}).Draw(t, "seq")
	amt := rapid.Int64Range(1, 50).Draw(t, "amount")
	recvr := w.Users[rapid.IntRange(0, 1).Draw(t, "receiver")]
	td := packettypes.TransferData{Token: bridge.TSSOriToken, OriToken: "", Amount: common.LeftPadBytes(big.NewInt(amt).Bytes(), 32), Receiver: strings.ToLower(recvr.Addr.String())}
	tdBz, err := td.ABIPack()
	kit.Must(err, "pack transfer data")
	p := packettypes.Packet{SrcChain: bridge.TSSName, DstChain: c.ChainID, Sequence: seq, Sender: "0xsender", TransferData: tdBz, CallData: []byte{}, CallbackAddress: "", FeeOption: 0}
	bz, err := p.ABIPack()
	kit.Must(err, "pack packet")
	tr := bridge.Triple{Src: bridge.TSSName, Dst: c.ChainID, Seq: seq}
	// the proof field carries no meaning on a TSS-secured path: whatever it holds, the TSS account is authorised
	proofField := [][]byte{{}, []byte(w.TSS.Acc.String()), []byte("junk"), []byte(w.Outsider.Acc.String())}[rapid.IntRange(0, 3).Draw(t, "tssProofField")]
	msg := packettypes.NewMsgRecvPacket(bz, proofField, bridge.H(0, 1), w.TSS.Acc)
	balB := c.ERC20Balance(w.TTok[ci], recvr.Addr)
	o := w.DeliverDumped(ci, w.TSS, msg)
	payload := fmt.Sprintf("%d/%s", amt, recvr.Addr.Hex())
	if w.Accepted[ci][tr] {
		kind := "same-payload"
		if m.tssPayload[tr] != payload {
			kind = "other-payload"
		}
		if o.Res.OK() {
			m.failf("TSS replay (%s) of accepted triple %s accepted", kind, tr)
		}
		if !o.Unchanged() {
			m.failf("rejected TSS replay (%s) of %s changed state:\n%s", kind, tr, o.DiffString())
		}
		m.r.Label("replay_tss_" + kind)
		if m.Accepted-m.acceptedAt[tr] >= 1 {
			m.nontrivial = true
			m.replays["tss-"+kind] = true
		}
		m.log("tssInject", fmt.Sprintf("%s %s", tr, kind), "rejected, state unchanged")
		return
	}
	if !o.Res.OK() {
		m.failf("positive control: first TSS-injected packet %s from the TSS account rejected: %s", tr, short(o.Res.Log))
	}
	w.Accepted[ci][tr] = true
	m.tssPayload[tr] = payload
	m.Accepted++
	m.acceptedAt[tr] = m.Accepted
	delta := new(big.Int).Sub(c.ERC20Balance(w.TTok[ci], recvr.Addr), balB)
	if delta.Cmp(big.NewInt(amt)) != 0 {
		m.failf("first TSS-injected transfer %s credited %s instead of %d", tr, delta, amt)
	}
	m.r.Label("first_receive_tss")
	m.log("tssInject", fmt.Sprintf("%s amt=%d", tr, amt), "accepted")
}

// ---- invariant

func (m *machine) check(t *rapid.T) {
	m.r.Step()
	w := m.w
	for ci, c := range w.Chains {
		ctx := c.Ctx()
		var got []string
		for _, r := range c.App.XIBCKeeper.PacketKeeper.GetAllPacketReceipts(ctx) {
			got = append(got, bridge.Triple{Src: r.SrcChain, Dst: r.DstChain, Seq: r.Sequence}.String())
		}
		var want []string
		for tr := range w.Accepted[ci] {
			want = append(want, tr.String())
		}
		sort.Strings(got)
		sort.Strings(want)
		if strings.Join(got, ",") != strings.Join(want, ",") {
			m.failf("chain %d receipts %v differ from accepted triples %v", ci, got, want)
		}
		var acks []string
		for _, a := range c.App.XIBCKeeper.PacketKeeper.GetAllPacketAcks(ctx) {
			acks = append(acks, bridge.Triple{Src: a.SrcChain, Dst: a.DstChain, Seq: a.Sequence}.String())
		}
		sort.Strings(acks)
		if strings.Join(acks, ",") != strings.Join(want, ",") {
			m.failf("chain %d acknowledgements %v differ from accepted triples %v (one ack per accepted receive)", ci, acks, want)
		}
	}
}

func run(t *rapid.T, r *rec.Recorder) {
	bm := bridge.NewMachine(t, r)
	m := &machine{Machine: bm, t: t, r: r, w: bm.W, acceptedAt: map[bridge.Triple]int{}, replays: map[string]bool{}, tssPayload: map[bridge.Triple]string{}}
	wrap := func(f func(*rapid.T)) func(*rapid.T) {
		return func(t *rapid.T) { m.t = t; bm.T = t; f(t) }
	}
	bm.OnRecv = func(p *bridge.Pkt, o bridge.TxOutcome) { m.acceptedAt[p.T] = bm.Accepted }
	acts := map[string]func(*rapid.T){
		"send":            wrap(bm.ActSend),
		"send2":           wrap(bm.ActSend),
		"tick":            wrap(bm.ActTick),
		"tick2":           wrap(bm.ActTick),
		"update":          wrap(bm.ActUpdate),
		"update2":         wrap(bm.ActUpdate),
		"recvFresh":       wrap(m.recvFresh),
		"recvFresh2":      wrap(m.recvFresh),
		"replay":          wrap(m.replay),
		"replay2":         wrap(m.replay),
		"replay3":         wrap(m.replay),
		"freshTwiceOneTx": wrap(m.freshTwiceOneTx),
		"ack":             wrap(bm.ActAck),
		"limit":           wrap(bm.ActLimit),
		"tssInject":       wrap(m.tssInject),
		"toggleRoundTrip": wrap(bm.ActToggleRoundTrip),
		"upgradeLower":    wrap(bm.ActUpgradeLower),
		"":                wrap(m.check),
	}
	t.Repeat(acts)
	var ks []string
	for k := range m.replays {
		ks = append(ks, k)
	}
	sort.Strings(ks)
	r.Case(fmt.Sprintf("n=%d replays=%v", len(m.w.Chains), ks), m.nontrivial, func() interface{} { return bm.Hist })
}

func TestC01_ExactlyOnce(t *testing.T) {
	r := rec.For("TestC01_ExactlyOnce", rule)
	rapid.Check(t, func(t *rapid.T) { run(t, r) })
}
