package c14

import (
	"fmt"
	"testing"
	"time"

	"github.com/ethereum/go-ethereum/common"
	gethtypes "github.com/ethereum/go-ethereum/core/types"
	"pgregory.net/rapid"

	"verif/harness/kit"
	"verif/harness/rec"
	"verif/harness/sim/ethsim"
)

// A verdict on a header must be a function of the chain state and the header only - not of what the node's
// process verified before (other blocks, CheckTx, simulations). This test feeds a main-net-mode ETH client
// (difficulty rules active) tape-driven header sequences whose timestamps and difficulties hit every branch of
// the difficulty calculator, records every verdict INCLUDING the error text (which spells out the expected
// difficulty), and replays the same sequence on fresh branches of the same state in the same process.
func ethHistory(ch Chooser, steps int) []string {
	c := bscBaseChain()
	ctx, _ := c.Ctx().CacheContext()
	number := uint64(9_000_000 + ch.Intn("numberBand", 6)*1_000_000 + ch.Intn("numberLow", 1000))
	t0 := uint64(c.Now.Unix()) - 1_000_000
	g := ethsim.Genesis(ethsim.GenesisOpts{Number: number, Time: t0, GasLimit: 30_000_000, GasUsed: 15_000_000, BaseFee: 1_000_000_000, Root: common.BytesToHash([]byte("purity"))})
	g.Difficulty.SetUint64(uint64(1) << uint(20+ch.Intn("difficultyBits", 35)))
	if ch.Intn("parentHasUncles", 3) == 0 {
		g.UncleHash = common.BytesToHash([]byte("some uncles"))
	}
	kit.Must(c.App.XIBCKeeper.ClientKeeper.CreateClient(ctx, "eth-purity", ethsim.ClientState(g, 1, 1<<40), ethsim.ConsensusState(g)), "create main-net mode eth client")
	ctx = ctx.WithBlockTime(time.Unix(int64(t0)+2_000_000, 0))
	gaps := []uint64{1, 2, 8, 9, 10, 17, 18, 19, 100, 891, 899, 900, 901, 908, 909, 5000, 100000}
	var out []string
	var parent *gethtypes.Header = g
	for i := 0; i < steps; i++ {
		h := ethsim.Child(parent, ethsim.ChildOpts{DT: gaps[ch.Intn("gap", len(gaps))], GasUsedPermil: uint64(ch.Intn("gasUsed", 1001)),
			Root: common.BytesToHash([]byte(fmt.Sprintf("r%d", i))), Difficulty: uint64(1 + ch.Intn("difficulty", 3))})
		cctx, _ := ctx.CacheContext()
		err := c.App.XIBCKeeper.ClientKeeper.UpdateClient(cctx, "eth-purity", ethsim.ToProto(h))
		if err == nil {
			out = append(out, "accepted")
		} else {
			msg := err.Error()
			if k := len(msg); k > 400 {
				msg = msg[:400]
			}
			out = append(out, msg)
		}
	}
	return out
}

func TestC14_EthVerifyPurity(t *testing.T) {
	r := rec.For("TestC14_EthVerifyPurity", "main-net-mode ETH client (ChainId 1) created at a drawn header (number band 9-15 M, difficulty 2^20..2^54, parent with or without uncles) and fed children with "+
		"timestamp gaps from {1..19, 100, 891..909, 5000, 100000} s and a wrong difficulty; every verdict text (it spells out the expected difficulty) is recorded and the same sequence is replayed 3 times "+
		"in the same process: all verdict texts must be equal; non-trivial = sequence containing a gap >= 900 s followed by another header; distinct by gap pattern")
	rapid.Check(t, func(t *rapid.T) {
		steps := rapid.IntRange(3, 12).Draw(t, "steps")
		rc := &rapidChooser{t: t}
		first := ethHistory(rc, steps)
		for k := 0; k < 2; k++ {
			again := ethHistory(&Tape{Vals: rc.tape}, steps)
			if d := firstDiff(first, again); d != "" {
				t.Fatalf("the same header sequence verified twice in one process gives different verdicts: %s", d)
			}
		}
		// tape layout: 4 setup choices, then (gap, gasUsed, difficulty) per step; gap indices >= 11 are >= 900 s
		var gapsIdx []uint32
		big := false
		for i := 4; i+2 < len(rc.tape)+1 && i < len(rc.tape); i += 3 {
			gapsIdx = append(gapsIdx, rc.tape[i])
			if rc.tape[i] >= 11 && i+3 < len(rc.tape) {
				big = true
			}
		}
		shape := fmt.Sprint(rc.tape[:4], gapsIdx)
		r.Label(fmt.Sprintf("steps_%d", steps))
		r.Case(shape, big, func() interface{} { return first })
	})
}
