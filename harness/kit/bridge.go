package kit

import (
	"encoding/json"
	"fmt"
	"math/big"
	"strconv"
	"strings"
	"time"

	"github.com/gogo/protobuf/proto"

	sdk "github.com/cosmos/cosmos-sdk/types"

	"github.com/ethereum/go-ethereum/accounts/abi"
	"github.com/ethereum/go-ethereum/common"
	"github.com/ethereum/go-ethereum/crypto"

	erc20contracts "github.com/teleport-network/teleport/syscontracts/erc20"
	endpointcontract "github.com/teleport-network/teleport/syscontracts/xibc_endpoint"
	packetcontract "github.com/teleport-network/teleport/syscontracts/xibc_packet"
	aggregatetypes "github.com/teleport-network/teleport/x/aggregate/types"
	xibctmtypes "github.com/teleport-network/teleport/x/xibc/clients/light-clients/tendermint/types"
	tsstypes "github.com/teleport-network/teleport/x/xibc/clients/tss-client/types"
	clienttypes "github.com/teleport-network/teleport/x/xibc/core/client/types"
	commitmenttypes "github.com/teleport-network/teleport/x/xibc/core/commitment/types"
	"github.com/teleport-network/teleport/x/xibc/core/host"
	packettypes "github.com/teleport-network/teleport/x/xibc/core/packet/types"
)

const (
	TrustingPeriod  = time.Hour * 24 * 7 * 2
	UnbondingPeriod = time.Hour * 24 * 7 * 3
	MaxClockDrift   = time.Second * 10
)

var ZeroAddr = common.Address{}

// CreateTMClient installs on c a Tendermint light client of counterparty cp (at cp's last
// committed header) through the client keeper, as a passed CreateClient proposal would.
func (c *Chain) CreateTMClient(cp *Chain, delay uint64) {
	h := cp.LastHeader
	height := h.GetHeight().(clienttypes.Height)
	cs := xibctmtypes.NewClientState(cp.ChainID, xibctmtypes.DefaultTrustLevel, TrustingPeriod, UnbondingPeriod,
		MaxClockDrift, height, commitmenttypes.GetSDKSpecs(), commitmenttypes.MerklePrefix{KeyPrefix: []byte("xibc")}, delay)
	Must(c.App.XIBCKeeper.ClientKeeper.CreateClient(c.Ctx(), cp.ChainID, cs, h.ConsensusState()), "create TM client")
}

// TMClientAt returns the Tendermint client and consensus state describing cp at its last committed header.
func (c *Chain) TMClientAt(cp *Chain, delay uint64) (*xibctmtypes.ClientState, *xibctmtypes.ConsensusState) {
	h := cp.LastHeader
	cs := xibctmtypes.NewClientState(cp.ChainID, xibctmtypes.DefaultTrustLevel, TrustingPeriod, UnbondingPeriod,
		MaxClockDrift, h.GetHeight().(clienttypes.Height), commitmenttypes.GetSDKSpecs(), commitmenttypes.MerklePrefix{KeyPrefix: []byte("xibc")}, delay)
	return cs, h.ConsensusState()
}

// CreateTSSClient installs on c a TSS client for pseudo chain `name` controlled by tssAcc.
func (c *Chain) CreateTSSClient(name string, tssAcc sdk.AccAddress) {
	cs := &tsstypes.ClientState{TssAddress: tssAcc.String(), Pubkey: []byte("pubkey"), PartPubkeys: [][]byte{[]byte("p1")}}
	cons := &tsstypes.ConsensusState{}
	Must(c.App.XIBCKeeper.ClientKeeper.CreateClient(c.Ctx(), name, cs, cons), "create TSS client")
}

// RegisterRelayer registers acct as relayer on c for the given chains with the given counterparty addresses.
func (c *Chain) RegisterRelayer(acct sdk.AccAddress, chains []string, addresses []string) {
	c.App.XIBCKeeper.ClientKeeper.RegisterRelayers(c.Ctx(), acct.String(), chains, addresses)
}

// MsgUpdateTMClient builds the update message bringing c's client of cp to cp's header at height h.
func (c *Chain) MsgUpdateTMClient(cp *Chain, h int64, signer sdk.AccAddress) *clienttypes.MsgUpdateClient {
	cs, found := c.App.XIBCKeeper.ClientKeeper.GetClientState(c.Ctx(), cp.ChainID)
	if !found {
		Failf("no client %s on %s", cp.ChainID, c.ChainID)
	}
	trusted := cs.GetLatestHeight().(clienttypes.Height)
	hdr := cp.UpdateHeader(h, trusted)
	msg, err := clienttypes.NewMsgUpdateClient(cp.ChainID, hdr, signer)
	Must(err, "NewMsgUpdateClient")
	return msg
}

// ---------------------------------------------------------------------------------------------
// EVM helpers

// CallView performs a read-only contract call on the open block's state (on a cache branch).
func (c *Chain) CallView(a abi.ABI, contract common.Address, method string, args ...interface{}) ([]interface{}, error) {
	cctx, _ := c.Ctx().CacheContext()
	res, err := c.App.AggregateKeeper.CallEVM(cctx, a, aggregatetypes.ModuleAddress, contract, method, args...)
	if err != nil {
		return nil, err
	}
	return a.Unpack(method, res.Ret)
}

// MustView is CallView that treats an error as a harness failure.
func (c *Chain) MustView(a abi.ABI, contract common.Address, method string, args ...interface{}) []interface{} {
	out, err := c.CallView(a, contract, method, args...)
	Must(err, "view "+method)
	return out
}

var erc20ABI = erc20contracts.ERC20MinterBurnerDecimalsContract.ABI

// DeployERC20 deploys the repo's ERC20MinterBurnerDecimals with the endpoint contract as deployer
// (owner / minter / burner), the way the repo's own integration tests prepare bridged tokens.
func (c *Chain) DeployERC20(name, symbol string, decimals uint8) common.Address {
	ctor, err := erc20ABI.Pack("", name, symbol, decimals)
	Must(err, "pack ctor")
	data := append(append([]byte{}, erc20contracts.ERC20MinterBurnerDecimalsContract.Bin...), ctor...)
	ctx := c.Ctx()
	nonce := c.App.EvmKeeper.GetNonce(ctx, endpointcontract.EndpointContractAddress)
	addr := crypto.CreateAddress(endpointcontract.EndpointContractAddress, nonce)
	res, err := c.App.AggregateKeeper.CallEVMWithData(ctx, endpointcontract.EndpointContractAddress, nil, data)
	Must(err, "deploy erc20")
	if res.Failed() {
		Failf("deploy erc20 failed: %s", res.VmError)
	}
	return addr
}

// MintERC20 mints tokens (as the endpoint contract, which owns DeployERC20 tokens).
func (c *Chain) MintERC20(token, to common.Address, amount *big.Int) {
	data, err := erc20ABI.Pack("mint", to, amount)
	Must(err, "pack mint")
	res, err := c.App.AggregateKeeper.CallEVMWithData(c.Ctx(), endpointcontract.EndpointContractAddress, &token, data)
	Must(err, "mint")
	if res.Failed() {
		Failf("mint failed: %s", res.VmError)
	}
}

// ERC20Balance reads balanceOf.
func (c *Chain) ERC20Balance(token, who common.Address) *big.Int {
	out := c.MustView(erc20ABI, token, "balanceOf", who)
	return out[0].(*big.Int)
}

// ERC20Supply reads totalSupply.
func (c *Chain) ERC20Supply(token common.Address) *big.Int {
	out := c.MustView(erc20ABI, token, "totalSupply")
	return out[0].(*big.Int)
}

// Approve sends an approve tx from acct.
func (c *Chain) Approve(acct Account, token, spender common.Address, amount *big.Int) EthResult {
	data, err := erc20ABI.Pack("approve", spender, amount)
	Must(err, "pack approve")
	return c.DeliverEth(acct, &token, nil, data)
}

// BindToken registers an ERC-20 trace (token on c represents oriToken of oriChain), as the passed
// RegisterERC20Trace proposal does.
func (c *Chain) BindToken(token common.Address, oriToken string, oriChain string, scale uint8) error {
	return c.App.AggregateKeeper.RegisterERC20Trace(c.Ctx(), token, oriToken, oriChain, scale)
}

// OutTokens reads endpoint.outTokens(token, dst).
func (c *Chain) OutTokens(token common.Address, dst string) *big.Int {
	out := c.MustView(endpointcontract.EndpointContract.ABI, endpointcontract.EndpointContractAddress, "outTokens", token, dst)
	return out[0].(*big.Int)
}

// Binding is endpoint.bindings(key).
type Binding struct {
	OriChain string
	OriToken string
	Amount   *big.Int
	Scale    uint8
	Bound    bool
}

// Bindings reads endpoint.bindings(lower(token)/oriChain).
func (c *Chain) Bindings(token common.Address, oriChain string) Binding {
	out := c.MustView(endpointcontract.EndpointContract.ABI, endpointcontract.EndpointContractAddress, "bindings",
		strings.ToLower(token.String())+"/"+oriChain)
	return Binding{OriChain: out[0].(string), OriToken: out[1].(string), Amount: out[2].(*big.Int), Scale: out[3].(uint8), Bound: out[4].(bool)}
}

// AckStatus reads packet.getAckStatus.
func (c *Chain) AckStatus(dst string, seq uint64) uint8 {
	out := c.MustView(packetcontract.PacketContract.ABI, packetcontract.PacketContractAddress, "getAckStatus", dst, seq)
	return out[0].(uint8)
}

// ContractNextSeq reads packet.getNextSequenceSend.
func (c *Chain) ContractNextSeq(dst string) uint64 {
	out := c.MustView(packetcontract.PacketContract.ABI, packetcontract.PacketContractAddress, "getNextSequenceSend", dst)
	return out[0].(uint64)
}

// PacketFee reads packet.packetFees(dst/seq).
func (c *Chain) PacketFee(dst string, seq uint64) (common.Address, *big.Int) {
	out := c.MustView(packetcontract.PacketContract.ABI, packetcontract.PacketContractAddress, "packetFees",
		[]byte(dst+"/"+strconv.FormatUint(seq, 10)))
	return out[0].(common.Address), out[1].(*big.Int)
}

// CrossChainCall sends endpoint.crossChainCall from acct through DeliverTx.
func (c *Chain) CrossChainCall(acct Account, data packettypes.CrossChainData, fee packettypes.Fee) EthResult {
	payload, err := endpointcontract.EndpointContract.ABI.Pack("crossChainCall", data, fee)
	Must(err, "pack crossChainCall")
	value := big.NewInt(0)
	if data.TokenAddress == ZeroAddr && data.Amount != nil {
		value.Add(value, data.Amount)
	}
	if fee.TokenAddress == ZeroAddr && fee.Amount != nil {
		value.Add(value, fee.Amount)
	}
	to := endpointcontract.EndpointContractAddress
	return c.DeliverEth(acct, &to, value, payload)
}

// SentPackets extracts the packet bytes of every EventSendPacket in a tx result.
func SentPackets(r TxResult) [][]byte {
	var out [][]byte
	name := proto.MessageName(&packettypes.EventSendPacket{})
	for _, ev := range r.Events {
		if ev.Type != name {
			continue
		}
		for _, a := range ev.Attributes {
			if string(a.Key) == "packet" {
				var bz []byte
				if err := json.Unmarshal(a.Value, &bz); err != nil {
					Failf("cannot decode packet attribute: %v (%s)", err, a.Value)
				}
				out = append(out, bz)
			}
		}
	}
	return out
}

// WrittenAcks extracts (packet bytes, ack bytes) of every EventWriteAck in a tx result.
func WrittenAcks(r TxResult) (packets [][]byte, acks [][]byte) {
	name := proto.MessageName(&packettypes.EventWriteAck{})
	for _, ev := range r.Events {
		if ev.Type != name {
			continue
		}
		for _, a := range ev.Attributes {
			var bz []byte
			switch string(a.Key) {
			case "packet":
				Must(json.Unmarshal(a.Value, &bz), "packet attr")
				packets = append(packets, bz)
			case "ack":
				Must(json.Unmarshal(a.Value, &bz), "ack attr")
				acks = append(acks, bz)
			}
		}
	}
	return
}

// DecodePacket decodes packet bytes (harness failure if they do not decode).
func DecodePacket(bz []byte) packettypes.Packet {
	var p packettypes.Packet
	Must(p.ABIDecode(bz), "decode packet")
	return p
}

// MsgRecv builds a MsgRecvPacket for packet bytes sent by src, proven at src's client height h.
func MsgRecv(src *Chain, packetBz []byte, h int64, signer sdk.AccAddress) *packettypes.MsgRecvPacket {
	p := DecodePacket(packetBz)
	key := host.PacketCommitmentKey(p.SrcChain, p.DstChain, p.Sequence)
	proof, height, ok := src.QueryProof(key, h)
	if !ok {
		Failf("no proof for %s at %d", key, h)
	}
	return packettypes.NewMsgRecvPacket(packetBz, proof, height, signer)
}

// MsgAck builds a MsgAcknowledgement for a packet received on dst, proven at dst's client height h.
func MsgAck(dst *Chain, packetBz, ackBz []byte, h int64, signer sdk.AccAddress) *packettypes.MsgAcknowledgement {
	p := DecodePacket(packetBz)
	key := host.PacketAcknowledgementKey(p.SrcChain, p.DstChain, p.Sequence)
	proof, height, ok := dst.QueryProof(key, h)
	if !ok {
		Failf("no proof for %s at %d", key, h)
	}
	return packettypes.NewMsgAcknowledgement(packetBz, ackBz, proof, height, signer)
}

// ClientHeight returns the latest height of c's client for chain name.
func (c *Chain) ClientHeight(name string) int64 {
	cs, found := c.App.XIBCKeeper.ClientKeeper.GetClientState(c.Ctx(), name)
	if !found {
		Failf("no client %s on %s", name, c.ChainID)
	}
	return int64(cs.GetLatestHeight().GetRevisionHeight())
}

// Fmt is a tiny helper for sample rendering.
func Fmt(format string, a ...interface{}) string { return fmt.Sprintf(format, a...) }
