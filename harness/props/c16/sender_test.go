// C16 on the sending side: "the aggregate middleware never changes the outcome of an ICS-20 transfer" also covers the
// transfers this chain SENT. Their outcome is decided when the acknowledgement or the timeout comes back: a timeout or an
// error acknowledgement refunds the sender (escrowed coins released, burned vouchers minted again), a success acknowledgement
// leaves everything as it is. The wired middleware and the bare transfer application are given the same callback on two
// branches of one state; result and every store must agree.
package c16

import (
	"fmt"
	"testing"

	sdk "github.com/cosmos/cosmos-sdk/types"
	transfertypes "github.com/cosmos/ibc-go/v3/modules/apps/transfer/types"
	clienttypes "github.com/cosmos/ibc-go/v3/modules/core/02-client/types"
	channeltypes "github.com/cosmos/ibc-go/v3/modules/core/04-channel/types"
	"pgregory.net/rapid"

	"verif/harness/kit"
	"verif/harness/rec"
)

const ruleSender = "differential on the callbacks that decide the outcome of a transfer this chain sent: OnTimeoutPacket and OnAcknowledgementPacket (success / error / malformed " +
	"acknowledgement bytes) of the transfer route wired in app.go vs ibc-go's bare transfer application, on two branches of one generated state (native coin escrowed by the send, or voucher " +
	"burned by the send; registered or unregistered denomination; escrow none / short / exact / plenty; drawn sender, amount and packet-data encoding); oracle: same error-or-not and " +
	"identical bank, aggregate and evm stores; non-trivial = the bare application refunds (sender's balance grows); distinct by (callback, denomination kind, registry, escrow, outcome)"

func runSenderSide(t *rapid.T, r *rec.Recorder) {
	c := directChain()
	a := c.App
	ctx, _ := c.Ctx().CacheContext()
	srcCh := rapid.SampledFrom([]string{"channel-0", "channel-1", "channel-42"}).Draw(t, "srcChannel")
	dstCh := rapid.SampledFrom([]string{"channel-0", "channel-7"}).Draw(t, "dstChannel")
	port := transfertypes.PortID
	sender := c.Accounts[rapid.IntRange(0, 2).Draw(t, "sender")].Acc
	amt := genAmount(t, true, false, nil)
	amount, ok := sdk.NewIntFromString(amt.Str)
	if !ok || !amount.IsPositive() {
		t.Skip("not an amount a send can carry")
	}
	// what was sent: a coin native to this side (escrowed by the send) or a voucher that travelled back over the channel it
	// came in on (burned by the send)
	kind := rapid.SampledFrom([]string{"native-escrowed", "voucher-burned"}).Draw(t, "denomKind")
	base := rapid.SampledFrom([]string{"uatom", nativeCoin, "c16sent"}).Draw(t, "base")
	dataDenom, local := base, base
	if kind == "voucher-burned" {
		dataDenom = transfertypes.GetDenomPrefix(port, srcCh) + base
		local = voucherDenom(port, srcCh, base)
	}
	escrowAddr := transfertypes.GetEscrowAddress(port, srcCh)
	escrow := "n/a"
	mintTo(a, ctx, c.Accounts[1].Acc, sdk.NewCoins(sdk.NewInt64Coin(local, 1000))) // the denomination exists
	if kind == "native-escrowed" {
		escrow = rapid.SampledFrom([]string{"none", "short", "exact", "plenty", "plenty"}).Draw(t, "escrow")
		var e sdk.Int
		switch escrow {
		case "short":
			e = amount.SubRaw(1)
		case "exact":
			e = amount
		case "plenty":
			e = amount.AddRaw(4321)
		}
		if !e.IsNil() && e.IsPositive() {
			mintTo(a, ctx, escrowAddr, sdk.NewCoins(sdk.NewCoin(local, e)))
		}
	}
	reg := rapid.SampledFrom([]string{regNone, regEnabled, regPairOff}).Draw(t, "registry")
	if sdk.ValidateDenom(local) != nil || local == a.EvmKeeper.GetParams(ctx).EvmDenom || local == nativeCoin {
		reg = regNone
	}
	if reg != regNone {
		if _, found := pairOf(a, ctx, local); !found {
			_, err := registerCoin(a, ctx, local)
			kit.Must(err, "RegisterCoin "+local)
		}
		if reg == regPairOff {
			kit.Must(toggleRelay(a, ctx, local), "ToggleTokenRelay")
		}
	}
	data := transfertypes.NewFungibleTokenPacketData(dataDenom, amt.Str, sender.String(), "cosmos1qql8ag4cluz6r4dz28p3w00dnc9w8ueulg2gmc")
	enc, dataBz := packetDataBytes(t, data, true)
	packet := channeltypes.NewPacket(dataBz, rapid.Uint64Range(1, 1000).Draw(t, "sequence"), port, srcCh, port, dstCh, clienttypes.NewHeight(1, 100), 0)
	callback := rapid.SampledFrom([]string{"timeout", "timeout", "ack-error", "ack-success", "ack-malformed"}).Draw(t, "callback")
	var ackBz []byte
	switch callback {
	case "ack-error":
		ackBz = channeltypes.NewErrorAcknowledgement("refused over there").Acknowledgement()
	case "ack-success":
		ackBz = channeltypes.NewResultAcknowledgement([]byte{1}).Acknowledgement()
	case "ack-malformed":
		ackBz = []byte(rapid.SampledFrom([]string{"", "{}", "{\"result\":", "\x00\x01"}).Draw(t, "ackBytes"))
	}
	relayer := c.Accounts[2].Acc
	run := func(m interface {
		OnTimeoutPacket(sdk.Context, channeltypes.Packet, sdk.AccAddress) error
		OnAcknowledgementPacket(sdk.Context, channeltypes.Packet, []byte, sdk.AccAddress) error
	}, bctx sdk.Context) (res string) {
		defer func() {
			if e := recover(); e != nil {
				if he, ok := e.(kit.HarnessError); ok {
					panic(he)
				}
				res = "panic"
			}
		}()
		var err error
		if callback == "timeout" {
			err = m.OnTimeoutPacket(bctx, packet, relayer)
		} else {
			err = m.OnAcknowledgementPacket(bctx, packet, ackBz, relayer)
		}
		if err != nil {
			return "error"
		}
		return "ok"
	}
	r.Step()
	ctxT, _ := ctx.CacheContext()
	ctxM, _ := ctx.CacheContext()
	before := a.BankKeeper.GetBalance(ctx, sender, local).Amount
	bare := run(bareTransfer(a), ctxT)
	mid := run(wiredMiddleware(a), ctxM)
	what := fmt.Sprintf("%s for the sent packet %s/%s #%d carrying %s %s (%s; local denomination %s, registry %s, escrow %s, encoding %s) from %s",
		callback, port, srcCh, packet.Sequence, amt.Str, dataDenom, kind, local, reg, escrow, enc, sender)
	if bare != mid {
		t.Fatalf("outcome changed by the middleware: bare transfer app %s, middleware %s: %s", bare, mid, what)
	}
	stores := []string{"bank", "aggregate", "evm", "transfer"}
	dT, dM := c.DumpStores(ctxT, stores...), c.DumpStores(ctxM, stores...)
	if bare == "ok" && dT.Digest() != dM.Digest() {
		t.Fatalf("state after the callback differs between the bare transfer app and the middleware: %s\n%s", what, kit.DiffString(kit.Diff(dT, dM), 8))
	}
	refunded := bare == "ok" && a.BankKeeper.GetBalance(ctxT, sender, local).Amount.GT(before)
	outcome := bare
	if refunded {
		outcome = "refunded"
	}
	r.Label("sender_side:" + callback + ":" + outcome)
	r.Case(fmt.Sprintf("%s|%s|%s|%s|%s", callback, kind, reg, escrow, outcome), refunded, func() interface{} { return what })
}

func TestC16_SenderSide(t *testing.T) {
	r := rec.For("TestC16_SenderSide", ruleSender)
	rapid.Check(t, func(t *rapid.T) { runSenderSide(t, r) })
}
