// C10 — Ethereum client: rule-abiding headers only; forks never wedge it.
//
// Generated header trees (Rinkeby mode: ChainId 4 skips difficulty and proof-of-work) are fed to the
// client keeper in generated orders, interleaved with single-field mutations of otherwise valid
// headers; a reference model (accepted set, head, ancestry) decides every outcome.
package c10

import (
	"encoding/json"
	"fmt"
	"math/big"
	"sort"
	"strings"
	"sync"
	"testing"
	"time"

	sdk "github.com/cosmos/cosmos-sdk/types"
	"github.com/ethereum/go-ethereum/common"
	gethtypes "github.com/ethereum/go-ethereum/core/types"
	"pgregory.net/rapid"

	ethclient "github.com/teleport-network/teleport/x/xibc/clients/light-clients/eth/types"
	clienttypes "github.com/teleport-network/teleport/x/xibc/core/client/types"

	"verif/harness/kf"
	"verif/harness/kit"
	"verif/harness/rec"
	"verif/harness/sim/ethsim"
)

func TestMain(m *testing.M) { rec.Main(m) }

const (
	clientName = "ethsim"
	// kfNonHead is the known-finding key of the RestrictChain defect: a valid child of a stored header
	// that is not on the head's ancestry is rejected.
	kfNonHead = "restrictchain-nonhead-branch"
	// kfEqualRoot is the second manifestation of the same RestrictChain defect: when the head is higher
	// than the new header and the (state root, height) index is ambiguous at the new header's height,
	// a child of an off-ancestry header is accepted but the consensus states below it stay on the old branch.
	kfEqualRoot    = "restrictchain-equal-root-stale-ancestry"
	trustingPeriod = 1_000_000_000 // never expires, nothing is pruned (expiry is not part of C10)
	maxDepth       = 8
	maxBranching   = 3
)

const treeRule = "header trees (depth<=8, branching<=3, 2-24 headers; siblings differing in time / extra / state root only, state roots " +
	"from a pool of 3 so that equal roots occur on different branches) submitted as random linear extensions with premature children, " +
	"re-submissions, block-time advances and single-field mutations (time, gas limit, base fee, parent hash, height); after every step a " +
	"fresh valid child of a random stored header is tried on a throw-away branch. non-trivial = accepted tree has >=2 branches of " +
	"different length and the head moved between branches >=2 times; distinct by (accepted tree shape, branch-switch count, order class)"

var (
	baseOnce sync.Once
	base     *kit.Chain
)

func baseChain() *kit.Chain {
	baseOnce.Do(func() { base = kit.NewChain("teleport_9000-1", kit.ChainOpts{Seed: []byte("c10")}) })
	return base
}

// startNow is the block time (unix seconds) at which every generated case starts.
var startNow = uint64(kit.Epoch.Unix()) + 100_000

// ---------------------------------------------------------------------------------------------
// world = client under test + reference model

type stepLog struct {
	Op     string `json:"op"`
	Node   string `json:"header"`           // tree id or description of the mutated header
	Parent string `json:"parent,omitempty"` // what the parent hash points at
	Height uint64 `json:"height"`
	Now    uint64 `json:"now"`
	Expect string `json:"expect"`
	Got    string `json:"got"`
}

type world struct {
	c       *kit.Chain
	ctx     sdk.Context // the case's branch of the base chain (never written back)
	now     uint64
	listed  bool // kfNonHead is listed
	listed2 bool // kfEqualRoot is listed

	tree     *ethsim.Tree // every header the model knows (generated, accepted mutants)
	opts     map[int]ethsim.ChildOpts
	accepted map[int]bool
	head     int
	baseH    uint64 // creation height

	roots    []common.Hash
	switches int
	fresh    int
	history  []stepLog
	counts   map[string]int
}

func (w *world) setNow(now uint64) {
	w.now = now
	w.ctx = w.ctx.WithBlockTime(timeOf(now))
}

func short(h common.Hash) string { return h.Hex()[2:6] + ".." + h.Hex()[62:] }

func (w *world) describeTree() string {
	var sb strings.Builder
	for _, n := range w.tree.Nodes {
		h := n.Header
		acc := " "
		if w.accepted[n.ID] {
			acc = "*"
		}
		fmt.Fprintf(&sb, "  %s#%d parent=#%d height=%d time=%d gasLimit=%d gasUsed=%d baseFee=%s root=%s extra=%x hash=%s\n",
			acc, n.ID, n.Parent, h.Number.Uint64(), h.Time, h.GasLimit, h.GasUsed, h.BaseFee, short(h.Root), h.Extra, short(n.Hash))
	}
	return sb.String()
}

func (w *world) fail(t *rapid.T, format string, a ...interface{}) {
	hist, _ := json.Marshal(w.history)
	t.Fatalf("%s\ncreation height %d, head #%d, now %d\ntree (* = accepted):\n%shistory=%s",
		fmt.Sprintf(format, a...), w.baseH, w.head, w.now, w.describeTree(), hist)
}

// expectation of the reference model for header h at the current block time.
type verdict struct {
	accept bool
	reason string // rule that fails, or "unknown-parent"
	parent int    // tree id of the accepted parent (same hash, one height below), -1 if none
}

func (w *world) judge(h *gethtypes.Header) verdict {
	pid, ok := w.tree.Lookup(h.ParentHash)
	if !ok || !w.accepted[pid] {
		return verdict{false, "unknown-parent", -1}
	}
	p := w.tree.Nodes[pid].Header
	if h.Number.Uint64() != p.Number.Uint64()+1 {
		return verdict{false, "unknown-parent", -1} // same hash but not one height below
	}
	if re := ethsim.CheckRules(p, h, w.now); re != nil {
		return verdict{false, re.Rule, pid}
	}
	return verdict{true, "", pid}
}

// ambiguousRootIndex is the precondition of the known finding kfEqualRoot for a new header h: the head
// is higher than h and, at h's height, the state root of the head's ancestor is carried by at least
// one more stored header (or by h itself), so the client's (state root, height) -> header index can
// name a header that is not the head's ancestor.
func (w *world) ambiguousRootIndex(h *gethtypes.Header) bool {
	ht := h.Number.Uint64()
	if w.tree.Nodes[w.head].Header.Number.Uint64() <= ht {
		return false
	}
	anc := w.head
	for w.tree.Nodes[anc].Header.Number.Uint64() > ht {
		anc = w.tree.Nodes[anc].Parent
	}
	root := w.tree.Nodes[anc].Header.Root
	n := 0
	if h.Root == root {
		n++
	}
	for _, id := range w.acceptedIDs(nil) {
		x := w.tree.Nodes[id].Header
		if x.Number.Uint64() == ht && x.Root == root {
			n++
		}
	}
	return n >= 2
}

func (w *world) onHeadAncestry(id int) bool { return w.tree.IsAncestorOrSelf(id, w.head) }

// update delivers one header the way DeliverTx does: nested cache context, written only on nil error.
func update(c *kit.Chain, ctx sdk.Context, h *gethtypes.Header) (err error) {
	cctx, write := ctx.CacheContext()
	defer func() {
		if p := recover(); p != nil {
			err = fmt.Errorf("panic (recovered as a failed tx): %v", p)
		}
	}()
	err = c.App.XIBCKeeper.ClientKeeper.UpdateClient(cctx, clientName, ethsim.ToProto(h))
	if err == nil {
		write()
	}
	return err
}

// checkHeadAndAncestry compares the client's head and the consensus states on the head's ancestry
// (down to the creation height) with the model. ancestry = tree ids from the head down to the root.
func checkHeadAndAncestry(c *kit.Chain, ctx sdk.Context, tree *ethsim.Tree, head int) string {
	ck := c.App.XIBCKeeper.ClientKeeper
	csI, ok := ck.GetClientState(ctx, clientName)
	if !ok {
		return "client state missing"
	}
	cs, ok := csI.(*ethclient.ClientState)
	if !ok {
		return fmt.Sprintf("client state has type %T", csI)
	}
	want := tree.Nodes[head]
	got := ethclient.Header(cs.Header)
	if gh := (&got).Hash(); gh != want.Hash {
		return fmt.Sprintf("client head is %s at height %d, model head is #%d %s at height %d",
			short(gh), cs.Header.Height.RevisionHeight, head, short(want.Hash), want.Header.Number.Uint64())
	}
	if lh := cs.GetLatestHeight().GetRevisionHeight(); lh != want.Header.Number.Uint64() {
		return fmt.Sprintf("latest height %d, model head height %d", lh, want.Header.Number.Uint64())
	}
	for id := head; id >= 0; id = tree.Nodes[id].Parent {
		n := tree.Nodes[id]
		hgt := clienttypes.NewHeight(0, n.Header.Number.Uint64())
		cons, ok := ck.GetClientConsensusState(ctx, clientName, hgt)
		if !ok {
			return fmt.Sprintf("no consensus state at height %d (ancestor #%d of head #%d)", hgt.RevisionHeight, id, head)
		}
		if common.BytesToHash(cons.GetRoot()) != n.Header.Root || len(cons.GetRoot()) != 32 {
			return fmt.Sprintf("consensus state at height %d has root %x, ancestor #%d of head #%d has root %s",
				hgt.RevisionHeight, cons.GetRoot(), id, head, n.Header.Root.Hex())
		}
	}
	return ""
}

// step submits h and checks the outcome against the model. op names the generator class.
func (w *world) step(t *rapid.T, r *rec.Recorder, op, name string, h *gethtypes.Header, wantClass string) {
	v := w.judge(h)
	if v.accept && !w.onHeadAncestry(v.parent) {
		if w.listed {
			r.Exclude(kfNonHead)
			t.Skip("excluded: valid child of a stored header off the head's ancestry (known finding)")
		}
		if w.listed2 && w.ambiguousRootIndex(h) {
			r.Exclude(kfEqualRoot)
			t.Skip("excluded: the same with an ambiguous (state root, height) index (known finding)")
		}
	}
	// the generator's intention must agree with the reference (harness sanity, not a property)
	switch wantClass {
	case "accept":
		if !v.accept {
			kit.Failf("generator built %s %s as valid but the reference says %s", op, name, v.reason)
		}
	case "reject":
		if v.accept {
			kit.Failf("generator built %s %s as invalid but the reference accepts it", op, name)
		}
	}
	r.Step()
	before := w.c.DumpStores(w.ctx, "xibc")
	err := update(w.c, w.ctx, h)
	log := stepLog{Op: op, Node: name, Height: h.Number.Uint64(), Now: w.now}
	if pid, ok := w.tree.Lookup(h.ParentHash); ok {
		log.Parent = fmt.Sprintf("#%d", pid)
		if !w.accepted[pid] {
			log.Parent += " (not accepted)"
		}
	} else {
		log.Parent = "unknown " + short(h.ParentHash)
	}
	if v.accept {
		log.Expect = "accept"
	} else {
		log.Expect = "reject: " + v.reason
	}
	if err == nil {
		log.Got = "accepted"
	} else {
		log.Got = "rejected: " + firstLine(err.Error())
	}
	w.history = append(w.history, log)
	w.counts[op]++
	r.Label("op_" + op)

	switch {
	case v.accept && err != nil:
		w.fail(t, "valid header rejected: %s %s (child of accepted #%d, on head ancestry: %v): %v", op, name, v.parent, w.onHeadAncestry(v.parent), err)
	case !v.accept && err == nil:
		w.fail(t, "header accepted although the reference rejects it (%s): %s %s", v.reason, op, name)
	}
	if !v.accept {
		r.Label("rejected_" + v.reason)
		if strings.Contains(err.Error(), "panic (recovered") {
			r.Label("rejected_by_panic")
		}
		after := w.c.DumpStores(w.ctx, "xibc")
		if d := kit.Diff(before, after); len(d) > 0 {
			w.fail(t, "rejected header changed the client store: %s %s\n%s", op, name, kit.DiffString(d, 5))
		}
		return
	}
	// accepted: becomes the head
	id, _ := w.tree.Add(v.parent, h)
	switch {
	case v.parent == w.head:
		r.Label("accept_extends_head")
	case id == w.head:
		r.Label("accept_resubmitted_head")
	default:
		w.switches++
		r.Label("accept_moves_head_to_other_branch")
		ph, hh := w.tree.Nodes[v.parent].Header.Number.Uint64()+1, w.tree.Nodes[w.head].Header.Number.Uint64()
		switch {
		case !w.onHeadAncestry(v.parent):
			r.Label("switch_parent_off_head_ancestry")
		case ph == hh:
			r.Label("switch_to_sibling_of_head")
		case ph < hh:
			r.Label("switch_to_lower_height")
		}
		if w.accepted[id] {
			r.Label("switch_by_resubmission")
		}
	}
	w.accepted[id] = true
	w.head = id
	if msg := checkHeadAndAncestry(w.c, w.ctx, w.tree, w.head); msg != "" {
		w.fail(t, "after accepting %s %s: %s", op, name, msg)
	}
}

func firstLine(s string) string {
	if i := strings.IndexByte(s, '\n'); i >= 0 {
		s = s[:i]
	}
	if len(s) > 160 {
		s = s[:160] + "…"
	}
	return s
}

// ---------------------------------------------------------------------------------------------
// generators

func (w *world) drawRoot(t *rapid.T) common.Hash {
	if rapid.IntRange(0, 9).Draw(t, "rootKind") < 7 {
		return rapid.SampledFrom(w.roots).Draw(t, "poolRoot")
	}
	return common.BytesToHash(rapid.SliceOfN(rapid.Byte(), 32, 32).Draw(t, "root"))
}

func drawExtra(t *rapid.T) []byte {
	return rapid.SliceOfN(rapid.Byte(), 0, 40).Draw(t, "extra") // > 32 bytes is fine in Rinkeby mode (clique uses 97+)
}

func (w *world) drawOpts(t *rapid.T) ethsim.ChildOpts {
	return ethsim.ChildOpts{
		DT:            uint64(rapid.IntRange(1, 30).Draw(t, "dt")),
		GasLimitDelta: rapid.Int64Range(-40000, 40000).Draw(t, "gasLimitDelta"),
		GasUsedPermil: uint64(rapid.SampledFrom([]int{0, 1, 499, 500, 501, 900, 1000}).Draw(t, "gasUsedPermil")),
		Root:          w.drawRoot(t),
		Extra:         drawExtra(t),
		Coinbase:      common.BytesToAddress([]byte{byte(rapid.IntRange(0, 3).Draw(t, "coinbase"))}),
		Difficulty:    uint64(rapid.SampledFrom([]int{1, 2, 2, 131072}).Draw(t, "difficulty")),
	}
}

// siblingOpts derives the options of a new child from an existing sibling, changing exactly one of
// time / extra / state root (so siblings with EQUAL state roots, equal times … exist).
func (w *world) siblingOpts(t *rapid.T, sib ethsim.ChildOpts) (ethsim.ChildOpts, string) {
	o := sib
	switch rapid.IntRange(0, 2).Draw(t, "siblingDiffers") {
	case 0:
		o.DT = sib.DT + uint64(rapid.IntRange(1, 5).Draw(t, "dtMore"))
		return o, "sibling_differs_in_time_only"
	case 1:
		o.Extra = append(append([]byte{}, sib.Extra...), byte(rapid.IntRange(0, 255).Draw(t, "extraByte")))
		return o, "sibling_differs_in_extra_only"
	default:
		o.Root = common.BytesToHash(rapid.SliceOfN(rapid.Byte(), 32, 32).Draw(t, "otherRoot"))
		return o, "sibling_differs_in_root_only"
	}
}

func (w *world) genTree(t *rapid.T, r *rec.Recorder) {
	w.baseH = rapid.SampledFrom([]uint64{1, 46, 255, 4095, 9_699_995, 12_965_000, 13_286_181}).Draw(t, "creationHeight")
	gasLimit := rapid.SampledFrom([]uint64{5000, 5003, 6000, 1_000_000, 30_000_000, 1 << 62, 0x7fffffffffffffff}).Draw(t, "gasLimit0")
	baseFee := rapid.SampledFrom([]uint64{0, 1, 7, 8, 1_000_000_000, 1_000_000_000_000}).Draw(t, "baseFee0")
	for i := 0; i < 3; i++ {
		w.roots = append(w.roots, common.BytesToHash([]byte{0xaa, byte(i + 1)}))
	}
	root := ethsim.Genesis(ethsim.GenesisOpts{
		Number: w.baseH, Time: w.now - uint64(rapid.IntRange(300, 5000).Draw(t, "age")),
		GasLimit: gasLimit, GasUsed: gasLimit / 1000 * uint64(rapid.SampledFrom([]int{0, 499, 500, 501, 1000}).Draw(t, "gasUsed0")),
		BaseFee: baseFee, Root: w.roots[0], Extra: []byte("creation"),
	})
	w.tree = ethsim.NewTree(root)
	w.opts = map[int]ethsim.ChildOpts{}
	n := rapid.IntRange(2, 24).Draw(t, "headers")
	last := 0
	for i := 0; i < n; i++ {
		var eligible []int
		for _, x := range w.tree.Nodes {
			if x.Depth < maxDepth && len(x.Children) < maxBranching {
				eligible = append(eligible, x.ID)
			}
		}
		if len(eligible) == 0 {
			break
		}
		parent := last
		ln := w.tree.Nodes[last]
		if ln.Depth >= maxDepth || len(ln.Children) >= maxBranching || rapid.IntRange(0, 99).Draw(t, "attach") >= 45 {
			parent = rapid.SampledFrom(eligible).Draw(t, "parent")
		}
		pn := w.tree.Nodes[parent]
		var o ethsim.ChildOpts
		if len(pn.Children) > 0 && rapid.IntRange(0, 9).Draw(t, "siblingKind") < 6 {
			var lbl string
			o, lbl = w.siblingOpts(t, w.opts[rapid.SampledFrom(pn.Children).Draw(t, "sibling")])
			r.Label(lbl)
		} else {
			o = w.drawOpts(t)
		}
		id, fresh := w.tree.Add(parent, ethsim.Child(pn.Header, o))
		if fresh {
			w.opts[id] = o
			last = id
		}
	}
}

// freshChild builds a new valid child of accepted node pid at the current block time (nil when the
// parent's time leaves no room before now+15).
func (w *world) freshChild(t *rapid.T, pid int, tag string) *gethtypes.Header {
	p := w.tree.Nodes[pid].Header
	if p.Time+1 > w.now+ethsim.AllowedFuture {
		return nil
	}
	o := w.drawOpts(t)
	if room := w.now + ethsim.AllowedFuture - p.Time; o.DT > room {
		o.DT = room
	}
	w.fresh++
	o.Extra = []byte(fmt.Sprintf("%s-%d", tag, w.fresh))
	return ethsim.Child(p, o)
}

func (w *world) acceptedIDs(pred func(id int) bool) []int {
	var out []int
	for _, n := range w.tree.Nodes {
		if w.accepted[n.ID] && (pred == nil || pred(n.ID)) {
			out = append(out, n.ID)
		}
	}
	return out
}

var mutationClasses = []string{
	"time_eq_parent", "time_lt_parent", "time_future", "time_at_future_bound",
	"gas_limit_at_bound_up", "gas_limit_at_bound_down", "gas_limit_max_step_up", "gas_limit_max_step_down", "gas_limit_below_min",
	"base_fee_plus_1", "base_fee_minus_1",
	"parent_hash_random", "parent_hash_grandparent", "parent_hash_other_at_parent_height",
	"height_plus_1", "height_minus_1", "height_far",
}

// mutate applies one single-field mutation to the valid header v (child of p); it returns the
// generator's intention ("accept" / "reject" / "" = let the reference decide) or ok=false when the
// class does not apply to this header.
func (w *world) mutate(t *rapid.T, class string, pid int, v *gethtypes.Header) (want string, ok bool) {
	p := w.tree.Nodes[pid].Header
	bound := p.GasLimit / 1024
	switch class {
	case "time_eq_parent":
		v.Time = p.Time
		return "reject", true
	case "time_lt_parent":
		v.Time = p.Time - uint64(rapid.IntRange(1, 100).Draw(t, "back"))
		return "reject", true
	case "time_future":
		v.Time = w.now + ethsim.AllowedFuture + uint64(rapid.SampledFrom([]int{1, 2, 60, 86400}).Draw(t, "ahead"))
		return "reject", true
	case "time_at_future_bound":
		v.Time = w.now + ethsim.AllowedFuture
		return "accept", v.Time > p.Time
	case "gas_limit_at_bound_up":
		if p.GasLimit > 0x7fffffffffffffff-bound {
			return "", false
		}
		v.GasLimit = p.GasLimit + bound
		return "reject", true
	case "gas_limit_at_bound_down":
		v.GasLimit = p.GasLimit - bound
		return "reject", v.GasUsed <= v.GasLimit // keep it a single-rule violation
	case "gas_limit_max_step_up":
		if bound == 0 || p.GasLimit > 0x7fffffffffffffff-bound {
			return "", false
		}
		v.GasLimit = p.GasLimit + bound - 1
		return "accept", true
	case "gas_limit_max_step_down":
		if bound == 0 {
			return "", false
		}
		v.GasLimit = p.GasLimit - (bound - 1)
		return "accept", v.GasLimit >= 5000 && v.GasUsed <= v.GasLimit
	case "gas_limit_below_min":
		// only reachable when the parent sits within one step of the 5000 minimum
		if p.GasLimit-4999 >= bound || v.GasUsed > 4999 {
			return "", false
		}
		v.GasLimit = 4999
		return "reject", true
	case "base_fee_plus_1":
		v.BaseFee = new(big.Int).Add(v.BaseFee, big.NewInt(1))
		return "reject", true
	case "base_fee_minus_1":
		if v.BaseFee.Sign() == 0 {
			return "", false
		}
		v.BaseFee = new(big.Int).Sub(v.BaseFee, big.NewInt(1))
		return "reject", true
	case "parent_hash_random":
		v.ParentHash = common.BytesToHash(rapid.SliceOfN(rapid.Byte(), 32, 32).Draw(t, "hash"))
		return "reject", true
	case "parent_hash_grandparent":
		gp := w.tree.Nodes[pid].Parent
		if gp < 0 {
			return "", false
		}
		v.ParentHash = w.tree.Nodes[gp].Hash
		return "reject", true
	case "parent_hash_other_at_parent_height":
		// another stored header at the parent's height: a legitimate parent pointer, the rules then
		// hold or fail relative to THAT header — the reference decides
		others := w.acceptedIDs(func(id int) bool {
			return id != pid && w.tree.Nodes[id].Header.Number.Cmp(p.Number) == 0
		})
		if len(others) == 0 {
			return "", false
		}
		v.ParentHash = w.tree.Nodes[rapid.SampledFrom(others).Draw(t, "uncle")].Hash
		return "", true
	case "height_plus_1":
		v.Number = new(big.Int).Add(v.Number, big.NewInt(1))
		return "reject", true
	case "height_minus_1":
		v.Number = new(big.Int).Sub(v.Number, big.NewInt(1))
		return "reject", true
	case "height_far":
		v.Number = new(big.Int).SetUint64(rapid.Uint64Range(0, 1<<50).Draw(t, "height"))
		return "reject", v.Number.Uint64() != p.Number.Uint64()+1
	}
	kit.Failf("unknown mutation class %s", class)
	return "", false
}

// ---------------------------------------------------------------------------------------------
// the property

func runTree(t *rapid.T, r *rec.Recorder) {
	c := baseChain()
	ctx, _ := c.Ctx().CacheContext()
	w := &world{c: c, ctx: ctx, listed: kf.Listed("C10", kfNonHead), listed2: kf.Listed("C10", kfEqualRoot), accepted: map[int]bool{}, counts: map[string]int{}}
	w.setNow(startNow)
	w.genTree(t, r)
	root := w.tree.Nodes[0].Header
	kit.Must(c.App.XIBCKeeper.ClientKeeper.CreateClient(w.ctx, clientName, ethsim.ClientState(root, 4, trustingPeriod), ethsim.ConsensusState(root)), "create ETH client")
	w.accepted[0] = true
	w.head = 0
	if msg := checkHeadAndAncestry(c, w.ctx, w.tree, 0); msg != "" {
		kit.Failf("fresh client disagrees with the model: %s", msg)
	}

	prefer := func(ids []int, label string) []int {
		// while the known finding is listed, prefer candidates the exclusion will not drop
		if !w.listed {
			return ids
		}
		var ok []int
		for _, id := range ids {
			if w.onHeadAncestry(w.tree.Nodes[id].Parent) {
				ok = append(ok, id)
			}
		}
		if len(ok) < len(ids) {
			r.LabelN("candidates_excluded_known_finding_"+label, len(ids)-len(ok))
		}
		return ok
	}

	actions := map[string]func(*rapid.T){
		"submit": func(t *rapid.T) {
			var ready []int
			for _, n := range w.tree.Nodes {
				if !w.accepted[n.ID] && n.Parent >= 0 && w.accepted[n.Parent] {
					ready = append(ready, n.ID)
				}
			}
			ready = prefer(ready, "submit")
			if len(ready) == 0 {
				t.Skip("nothing ready")
			}
			id := rapid.SampledFrom(ready).Draw(t, "node")
			w.step(t, r, "submit", fmt.Sprintf("#%d", id), w.tree.Nodes[id].Header, "accept")
		},
		"premature": func(t *rapid.T) {
			var early []int
			for _, n := range w.tree.Nodes {
				if !w.accepted[n.ID] && n.Parent >= 0 && !w.accepted[n.Parent] {
					early = append(early, n.ID)
				}
			}
			if len(early) == 0 {
				t.Skip("no premature child available")
			}
			id := rapid.SampledFrom(early).Draw(t, "node")
			w.step(t, r, "premature", fmt.Sprintf("#%d", id), w.tree.Nodes[id].Header, "reject")
		},
		"resubmit": func(t *rapid.T) {
			ids := prefer(w.acceptedIDs(func(id int) bool { return id != 0 }), "resubmit")
			if len(ids) == 0 {
				t.Skip("nothing to resubmit")
			}
			id := rapid.SampledFrom(ids).Draw(t, "node")
			// a stored header is still a header whose parent is stored; the time rule is re-evaluated at the current block time
			w.step(t, r, "resubmit", fmt.Sprintf("#%d", id), w.tree.Nodes[id].Header, "accept")
		},
		"resubmitCreation": func(t *rapid.T) {
			if rapid.IntRange(0, 15).Draw(t, "rarely") != 0 {
				t.Skip("rare action")
			}
			w.step(t, r, "resubmit_creation_header", "#0", w.tree.Nodes[0].Header, "reject")
		},
		"mutate": func(t *rapid.T) {
			class := rapid.SampledFrom(mutationClasses).Draw(t, "class")
			pool := w.acceptedIDs(nil)
			if w.listed {
				pool = w.acceptedIDs(w.onHeadAncestry)
			}
			pid := rapid.SampledFrom(pool).Draw(t, "parent")
			v := w.freshChild(t, pid, "mut")
			if v == nil {
				t.Skip("no room before now+15")
			}
			if jv := w.judge(v); !jv.accept {
				kit.Failf("unmutated child of #%d is invalid per reference: %s", pid, jv.reason)
			}
			want, ok := w.mutate(t, class, pid, v)
			if !ok {
				t.Skip("mutation class does not apply")
			}
			w.step(t, r, "mutate_"+class, fmt.Sprintf("child of #%d with %s", pid, class), v, want)
		},
		"tick": func(t *rapid.T) {
			w.setNow(w.now + uint64(rapid.IntRange(1, 40).Draw(t, "seconds")))
			r.Label("op_tick")
		},
		// liveness clause as a safety check: after every step a fresh valid child of a random stored
		// header is accepted (on a throw-away branch) and becomes the head with a correct ancestry
		"": func(t *rapid.T) {
			all := w.acceptedIDs(nil)
			pid := rapid.SampledFrom(all).Draw(t, "probeParent")
			if (w.listed || w.listed2) && !w.onHeadAncestry(pid) {
				// known findings: such a child is rejected, or accepted with stale consensus states when
				// the (state root, height) index is ambiguous. Only these exact manifestations are tolerated
				// (and counted as excluded); anything else is a violation.
				if child := w.freshChild(t, pid, "probe-off"); child != nil {
					pctx, _ := w.ctx.CacheContext()
					if err := update(c, pctx, child); err != nil {
						if !w.listed {
							w.fail(t, "liveness: fresh valid child (height %d, time %d) of stored off-ancestry header #%d (head is #%d) rejected: %v",
								child.Number.Uint64(), child.Time, pid, w.head, err)
						}
						r.Exclude(kfNonHead)
						r.Label("probe_child_of_off_ancestry_header_rejected_known_finding")
					} else {
						scratch := *w.tree
						scratch.Nodes = append(append([]*ethsim.Node{}, w.tree.Nodes...), &ethsim.Node{
							ID: len(w.tree.Nodes), Parent: pid, Depth: w.tree.Nodes[pid].Depth + 1, Header: child, Hash: child.Hash()})
						if msg := checkHeadAndAncestry(c, pctx, &scratch, len(w.tree.Nodes)); msg == "" {
							r.Label("probe_child_of_off_ancestry_header_accepted_despite_listed_finding")
						} else if w.listed2 && strings.HasPrefix(msg, "consensus state at height") && w.ambiguousRootIndex(child) {
							r.Exclude(kfEqualRoot)
							r.Label("probe_child_of_off_ancestry_header_accepted_with_stale_ancestry_known_finding")
						} else {
							w.fail(t, "liveness: fresh child (root %s) of stored off-ancestry header #%d accepted (head was #%d) but: %s", short(child.Root), pid, w.head, msg)
						}
					}
				}
				pid = rapid.SampledFrom(w.acceptedIDs(w.onHeadAncestry)).Draw(t, "probeParentOnAncestry")
			}
			child := w.freshChild(t, pid, "probe")
			if child == nil {
				r.Label("probe_skipped_parent_time_at_future_bound")
				return
			}
			if jv := w.judge(child); !jv.accept {
				kit.Failf("probe child of #%d is invalid per reference: %s", pid, jv.reason)
			}
			pctx, _ := w.ctx.CacheContext()
			if err := update(c, pctx, child); err != nil {
				w.fail(t, "liveness: fresh valid child (height %d, time %d) of stored header #%d (head is #%d, parent on head ancestry: %v) rejected: %v",
					child.Number.Uint64(), child.Time, pid, w.head, w.onHeadAncestry(pid), err)
			}
			// check head + ancestry on the throw-away branch with a scratch copy of the tree
			scratch := *w.tree
			scratch.Nodes = append(append([]*ethsim.Node{}, w.tree.Nodes...), &ethsim.Node{
				ID: len(w.tree.Nodes), Parent: pid, Depth: w.tree.Nodes[pid].Depth + 1, Header: child, Hash: child.Hash()})
			if msg := checkHeadAndAncestry(c, pctx, &scratch, len(w.tree.Nodes)); msg != "" {
				w.fail(t, "liveness: after accepting a fresh child of stored header #%d (head was #%d): %s", pid, w.head, msg)
			}
			switch {
			case pid == w.head:
				r.Label("probe_child_of_head")
			case w.onHeadAncestry(pid):
				r.Label("probe_child_of_head_ancestor")
			default:
				r.Label("probe_child_of_off_ancestry_header")
			}
		},
	}
	// rapid picks actions uniformly by key: weight by aliasing
	actions["submit2"], actions["submit3"], actions["mutate2"] = actions["submit"], actions["submit"], actions["mutate"]
	t.Repeat(actions)

	// evidence
	acc := ethsim.NewTree(root) // accepted sub-tree, for the shape
	idMap := map[int]int{0: 0}
	for _, n := range w.tree.Nodes[1:] {
		if w.accepted[n.ID] {
			if p, ok := idMap[n.Parent]; ok {
				id, _ := acc.Add(p, n.Header)
				idMap[n.ID] = id
			}
		}
	}
	depths := acc.LeafDepths()
	differentLengths := len(depths) >= 2 && depths[0] != depths[len(depths)-1]
	nontrivial := differentLengths && w.switches >= 2
	class := []string{}
	for _, k := range []string{"premature", "resubmit"} {
		if w.counts[k] > 0 {
			class = append(class, k)
		}
	}
	mutAcc := 0
	for k, v := range w.counts {
		if strings.HasPrefix(k, "mutate_") {
			mutAcc += v
		}
	}
	if mutAcc > 0 {
		class = append(class, "mutations")
	}
	sort.Strings(class)
	if acc.Leaves() >= 2 {
		r.Label("case_accepted_tree_has_2+_branches")
	}
	if differentLengths {
		r.Label("case_branches_of_different_length")
	}
	if w.switches >= 2 {
		r.Label("case_head_moved_between_branches_2+_times")
	}
	if w.switches >= 1 {
		r.Label("case_head_moved_between_branches_1+_times")
	}
	if equalRootsOnDifferentBranches(acc) {
		r.Label("case_equal_state_roots_at_same_height_on_different_branches")
	}
	if w.counts["premature"] > 0 {
		r.Label("case_with_premature_child")
	}
	r.LabelN("tree_headers_generated", len(w.tree.Nodes)-1)
	shape := fmt.Sprintf("%s sw=%d %s", acc.Shape(), minInt(w.switches, 6), strings.Join(class, "+"))
	r.Case(shape, nontrivial, func() interface{} {
		return map[string]interface{}{
			"creation_height": w.baseH, "accepted_tree_shape": acc.Shape(), "leaf_depths": depths,
			"head_moves_between_branches": w.switches, "history": w.history,
		}
	})
}

func equalRootsOnDifferentBranches(tr *ethsim.Tree) bool {
	seen := map[string]int{}
	for _, n := range tr.Nodes {
		k := fmt.Sprintf("%d/%s", n.Depth, n.Header.Root.Hex())
		seen[k]++
		if seen[k] >= 2 {
			return true
		}
	}
	return false
}

func minInt(a, b int) int {
	if a < b {
		return a
	}
	return b
}

func TestC10_Trees(t *testing.T) {
	r := rec.For("TestC10_Trees", treeRule)
	rapid.Check(t, func(t *rapid.T) { runTree(t, r) })
}

func timeOf(unix uint64) time.Time { return time.Unix(int64(unix), 0).UTC() }
