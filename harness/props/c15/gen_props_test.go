package c15

import (
	"fmt"
	"math/big"
	"strings"

	"github.com/ethereum/go-ethereum/common"
	"github.com/gogo/protobuf/proto"
	"pgregory.net/rapid"

	codectypes "github.com/cosmos/cosmos-sdk/codec/types"
	sdk "github.com/cosmos/cosmos-sdk/types"
	banktypes "github.com/cosmos/cosmos-sdk/x/bank/types"
	govtypes "github.com/cosmos/cosmos-sdk/x/gov/types"

	"github.com/teleport-network/teleport/syscontracts"
	aggregatetypes "github.com/teleport-network/teleport/x/aggregate/types"
	clienttypes "github.com/teleport-network/teleport/x/xibc/core/client/types"
	"github.com/teleport-network/teleport/x/xibc/exported"

	"verif/harness/kit"
)

type bankMetadata = banktypes.Metadata

func newMetadata(base, name, symbol string, exp uint32) banktypes.Metadata {
	display := "d" + strings.ReplaceAll(base, "/", "")
	if len(display) > 100 {
		display = display[:100]
	}
	return banktypes.Metadata{
		Description: "coin " + base,
		Base:        base,
		Display:     display,
		Name:        name,
		Symbol:      symbol,
		DenomUnits:  []*banktypes.DenomUnit{{Denom: base, Exponent: 0}, {Denom: display, Exponent: exp}},
	}
}

// the twelve proposal kinds registered by the xibc client module and the aggregate module
var (
	xibcKinds = []string{clienttypes.ProposalTypeClientCreate, clienttypes.ProposalTypeClientUpgrade, clienttypes.ProposalTypeClientToggle,
		clienttypes.ProposalTypeRelayerRegister}
	aggKinds = []string{aggregatetypes.ProposalTypeRegisterCoin, aggregatetypes.ProposalTypeAddCoin, aggregatetypes.ProposalTypeRegisterERC20,
		aggregatetypes.ProposalTypeToggleTokenRelay, aggregatetypes.ProposalTypeUpdateTokenPairERC20, aggregatetypes.ProposalTypeRegisterERC20Trace,
		aggregatetypes.ProposalTypeEnableTimeBasedSupplyLimit, aggregatetypes.ProposalTypeDisableTimeBasedSupplyLimit}
)

// chain names the xibc proposals collide on (all valid identifiers; some look like path keywords)
var chainNames = []string{"bsc-test", "eth.main", "clientState", "consensusStates", "tss", strings.Repeat("n", 64), "teleport_9000-1", "a.b"}

// genContent is one generated proposal content with its abstract description.
type genContent struct {
	Kind       string
	Content    govtypes.Content
	Tags       []string
	ClientKind string // xibc: type of the client state in the content ("-" otherwise)
	ConsKind   string
	ChainName  string
	Excluded   map[string]int
}

func (g *tagger) title() (string, string) {
	title, desc := "t", "d"
	if g.edge("title", 6) {
		ts := []string{strings.Repeat("t", 140), " x ", "é世", strings.Repeat("t", 141), "", "   "}
		i := g.pick2("title.edge", 3, 3)
		title = ts[i]
		g.tag("title=" + []string{"max", "padded", "unicode", "max+1", "empty", "blank"}[i])
	}
	if g.edge("description", 6) {
		ds := []string{strings.Repeat("d", 10000), " ", "\x00", strings.Repeat("d", 10001), ""}
		i := g.pick2("description.edge", 3, 2)
		desc = ds[i]
		g.tag("description=" + []string{"max", "blank", "nul", "max+1", "empty"}[i])
	}
	return title, desc
}

// chainName draws a chain name; want = "present" / "absent" biases towards names with / without a stored client.
func (g *tagger) chainName(existing map[string]string, want string) string {
	if g.edge("chainName.invalid", 3) {
		bad := []string{"ab", "a/b", "", strings.Repeat("n", 65), "na me", "néme"}
		i := g.pick("chainName.invalid.edge", len(bad))
		g.tag("chainName=invalid")
		return bad[i]
	}
	var cands []int
	for i, n := range chainNames {
		if _, ok := existing[n]; (want == "present" && ok) || (want == "absent" && !ok) {
			cands = append(cands, i)
		}
	}
	var i int
	if len(cands) > 0 && chance(g.t, "chainName.biased", 80) {
		i = cands[rapid.IntRange(0, len(cands)-1).Draw(g.t, "chainName.cand")]
	} else {
		i = rapid.IntRange(0, len(chainNames)-1).Draw(g.t, "chainName")
	}
	if i >= 2 {
		g.tag("chainName=" + []string{"", "", "keyword", "keyword", "short", "len64", "native", "dotted"}[i])
	}
	return chainNames[i]
}

// anyOf packs a message; shape edges replace the Any by degenerate ones.
func mustAny(m proto.Message) *codectypes.Any {
	a, err := codectypes.NewAnyWithValue(m)
	if err != nil {
		return nil
	}
	return a
}

// clientProposalParts draws (client state Any, consensus state Any) for create/upgrade/toggle.
func (g *tagger) clientProposalParts(clientKind string) (csAny, consAny *codectypes.Any, consKind string) {
	cs := g.clientState(clientKind)
	csAny = mustAny(cs.(proto.Message))
	consKind = clientKind
	shape := 0
	if chance(g.t, "consShape?", 38) {
		shape = 62 + rapid.IntRange(0, 37).Draw(g.t, "consShape")
	}
	switch {
	case shape < 62:
		consAny = mustAny(g.consState(clientKind).(proto.Message))
	case shape < 84:
		consKind = rapid.SampledFrom(clientKinds).Draw(g.t, "otherConsKind")
		if consKind != clientKind {
			g.tag("cons=otherType")
		}
		consAny = mustAny(g.consState(consKind).(proto.Message))
	case shape < 91:
		consKind = "nil"
		g.tag("cons=nil")
	case shape < 94:
		consKind = "emptyValue"
		full := mustAny(g.consState(clientKind).(proto.Message))
		if full != nil {
			consAny = &codectypes.Any{TypeUrl: full.TypeUrl}
		}
		g.tag("cons=emptyValue")
	case shape < 96:
		consKind = "clientStateInConsSlot"
		consAny = csAny
		g.tag("cons=wrongInterface")
	case shape < 98:
		consKind = "garbage"
		full := mustAny(g.consState(clientKind).(proto.Message))
		if full != nil {
			consAny = &codectypes.Any{TypeUrl: full.TypeUrl, Value: g.bytesN("cons.garbage", 9)}
		}
		g.tag("cons=garbageBytes")
	default:
		consKind = "unknownType"
		consAny = &codectypes.Any{TypeUrl: "/xibc.nothing.v1.ConsensusState", Value: []byte{1}}
		g.tag("cons=unknownTypeUrl")
	}
	if g.edge("clientAny", 4) {
		switch g.pick("clientAny.edge", 3) {
		case 0:
			csAny = nil
			g.tag("client=nil")
		case 1:
			csAny = mustAny(g.consState(clientKind).(proto.Message))
			g.tag("client=wrongInterface")
		default:
			if csAny != nil {
				csAny = &codectypes.Any{TypeUrl: csAny.TypeUrl}
			}
			g.tag("client=emptyValue")
		}
	}
	return
}

// address strings of the aggregate proposals
func (g *tagger) hexAddress(name string, w *world) string {
	pool := []common.Address{w.tokReg, w.tokFree, w.tokCoin, w.tokTwin,
		common.HexToAddress(syscontracts.EndpointContractAddress), common.HexToAddress(syscontracts.PacketContractAddress),
		common.HexToAddress(syscontracts.StakingContractAddress), common.HexToAddress(syscontracts.AgentContractAddress),
		common.BytesToAddress([]byte{4}), common.BytesToAddress([]byte{5}), common.BytesToAddress([]byte{9}), {}, aggregatetypes.ModuleAddress,
		kit.NewAccount([]byte{'a', 0}).Addr}
	names := []string{"registeredERC20", "unregisteredERC20", "coinERC20", "twinERC20", "endpoint", "packet", "staking", "agent", "precompile4", "precompile5", "precompile9",
		"zero", "module", "eoa"}
	for k, a := range w.tokOdd {
		pool = append(pool, a)
		names = append(names, "oddERC20:"+w.tokOddName[k])
	}
	i := rapid.IntRange(0, len(pool)-1).Draw(g.t, name)
	switch names[i] {
	case "registeredERC20", "unregisteredERC20", "coinERC20", "twinERC20", "eoa":
		g.note(name + "=" + names[i])
	default:
		g.tag(name + "=" + names[i])
	}
	s := pool[i].Hex()
	if g.edge(name+".form", 20) {
		switch g.pick2(name+".form.edge", 3, 3) {
		case 0:
			s = strings.ToLower(s)
			g.tag(name + ".form=lower")
		case 1:
			s = "0X" + strings.ToUpper(s[2:])
			g.tag(name + ".form=upper")
		case 2:
			s = s[2:]
			g.tag(name + ".form=noPrefix")
		case 3:
			s = s + "00"
			g.tag(name + ".form=tooLong")
		case 4:
			s = ""
			g.tag(name + ".form=empty")
		default:
			s = " " + s
			g.tag(name + ".form=leadingSpace")
		}
	}
	return s
}

func (g *tagger) metadata(w *world) banktypes.Metadata {
	evmDenom := sdk.DefaultBondDenom
	bases := []string{"bcoin", "acoin", "ibc/27394FB092D2ECCD56123C74F36E4C1F926001CEADA9CA97EA622B25F41E5EB2", "nosupply", evmDenom,
		"aggregate/" + w.tokReg.Hex(), strings.Repeat("b", 128)}
	bi := rapid.IntRange(0, len(bases)-1).Draw(g.t, "meta.base")
	if bi < 3 {
		g.note("meta.base=" + []string{"supply", "registered", "ibc"}[bi])
	} else {
		g.tag("meta.base=" + []string{"", "", "", "noSupply", "evmDenom", "aggregateDenom", "len128"}[bi])
	}
	// a content that repeats metadata already in the bank store (set by an earlier RegisterCoin/AddCoin of the sequence, by
	// another proposal that executed between submission and execution, or by genesis) and differs from it in one detail
	// (stored metadata of a coin that has a supply and no token pair yet - bank genesis metadata, typically - is preferred: only
	// there the comparison with the stored metadata decides the outcome)
	var open []banktypes.Metadata
	for _, sm := range w.storedMeta {
		if sm.Base == bases[0] || sm.Base == bases[2] {
			open = append(open, sm)
		}
	}
	if len(open) > 0 && chance(g.t, "meta.fromStoredUnregistered", 50) {
		return g.storedVariant(open)
	}
	if len(w.storedMeta) > 0 && chance(g.t, "meta.fromStored", 40) {
		return g.storedVariant(w.storedMeta)
	}
	base := bases[bi]
	name, symbol := "Coin "+base, "C"
	if strings.HasPrefix(base, "ibc/") {
		name, symbol = "channel-0 coin", "ibcC"
	}
	m := newMetadata(base, name, symbol, 18)
	if g.edge("meta.exponent", 30) {
		es := []uint32{1, 255, 256, 1<<32 - 1, 77, 0}
		i := g.pick2("meta.exponent.edge", 5, 1)
		m.DenomUnits[1].Exponent = es[i]
		g.tag(fmt.Sprintf("meta.exponent=%d", es[i]))
	}
	if g.edge("meta.units", 25) {
		switch g.pick2("meta.units.edge", 3, 3) {
		case 0:
			m.DenomUnits = m.DenomUnits[:1]
			m.Display = base
			g.tag("meta.units=baseOnly")
		case 1:
			m.DenomUnits = append(m.DenomUnits, &banktypes.DenomUnit{Denom: "mega" + m.Display, Exponent: 1<<32 - 1})
			g.tag("meta.units=three")
		case 2:
			m.DenomUnits[1].Aliases = []string{"x", "y", strings.Repeat("z", 5000)}
			g.tag("meta.units=aliases")
		case 3:
			m.DenomUnits = nil
			g.tag("meta.units=none")
		case 4:
			m.DenomUnits = []*banktypes.DenomUnit{m.DenomUnits[1], m.DenomUnits[0]}
			g.tag("meta.units=unsorted")
		default:
			m.DenomUnits = append(m.DenomUnits, nil)
			g.tag("meta.units=nilEntry")
		}
	}
	if g.edge("meta.name", 20) {
		ns := []string{strings.Repeat("N", 10000), "channel-0 世界", "x", "acoin", "Coin acoin", "\x00", ""}
		i := g.pick2("meta.name.edge", 6, 1)
		m.Name = ns[i]
		g.tag("meta.name=" + []string{"huge", "unicode", "1char", "registeredDenom", "registeredName", "nul", "empty"}[i])
	}
	if g.edge("meta.symbol", 15) {
		ss := []string{"ibc" + strings.Repeat("S", 5000), "ibc世", "ibc", " "}
		i := g.pick2("meta.symbol.edge", 3, 1)
		m.Symbol = ss[i]
		g.tag("meta.symbol=" + []string{"huge", "unicode", "ibcOnly", "blank"}[i])
	}
	if g.edge("meta.description", 10) {
		m.Description = strings.Repeat("D", 20000)
		g.tag("meta.description=huge")
	}
	if g.edge("meta.display", 5) {
		m.Display = []string{"", "X", "1abc"}[g.pick("meta.display.edge", 3)]
		g.tag("meta.display=invalid")
	}
	return m
}

// cloneMetadata deep-copies a bank metadata (denom units are pointers).
func cloneMetadata(m banktypes.Metadata) banktypes.Metadata {
	out := m
	out.DenomUnits = nil
	for _, u := range m.DenomUnits {
		if u == nil {
			out.DenomUnits = append(out.DenomUnits, nil)
			continue
		}
		c := *u
		c.Aliases = append([]string(nil), u.Aliases...)
		out.DenomUnits = append(out.DenomUnits, &c)
	}
	return out
}

// storedVariant copies one of the metadata found in the bank store and changes at most one detail of it.
func (g *tagger) storedVariant(stored []banktypes.Metadata) banktypes.Metadata {
	m := cloneMetadata(stored[rapid.IntRange(0, len(stored)-1).Draw(g.t, "meta.stored")])
	g.note("meta.base=stored")
	last := len(m.DenomUnits) - 1
	switch g.pick("meta.stored.change", 9) {
	case 0:
		g.tag("meta.stored=identical")
	case 1:
		if last >= 0 && m.DenomUnits[last] != nil {
			m.DenomUnits[last].Aliases = nil
		}
		g.tag("meta.stored=noAliases")
	case 2:
		if last >= 0 && m.DenomUnits[last] != nil {
			m.DenomUnits[last].Aliases = append(m.DenomUnits[last].Aliases, "extra"+m.Display)
		}
		g.tag("meta.stored=oneMoreAlias")
	case 3:
		if last >= 0 && m.DenomUnits[last] != nil && len(m.DenomUnits[last].Aliases) > 0 {
			m.DenomUnits[last].Aliases = m.DenomUnits[last].Aliases[:len(m.DenomUnits[last].Aliases)-1]
		}
		g.tag("meta.stored=oneAliasLess")
	case 4:
		if last >= 0 && m.DenomUnits[0] != nil {
			m.DenomUnits[0].Aliases = append(m.DenomUnits[0].Aliases, "base"+m.Display)
		}
		g.tag("meta.stored=baseAlias")
	case 5:
		if last >= 1 {
			m.DenomUnits = m.DenomUnits[:last]
			if m.DenomUnits[last-1] != nil {
				m.Display = m.DenomUnits[last-1].Denom
			}
		}
		g.tag("meta.stored=oneUnitLess")
	case 6:
		m.DenomUnits = append(m.DenomUnits, &banktypes.DenomUnit{Denom: "giga" + m.Display, Exponent: 1<<32 - 1})
		g.tag("meta.stored=oneUnitMore")
	case 7:
		if last >= 0 && m.DenomUnits[last] != nil {
			m.DenomUnits[last].Exponent++
		}
		g.tag("meta.stored=exponent+1")
	default:
		m.Name = "renamed " + m.Name
		g.tag("meta.stored=renamed")
	}
	return m
}

func decStr(v *big.Int) string { return v.Text(10) }

func (g *tagger) limitStrings() (period, limit, max, min string) {
	two256 := new(big.Int).Lsh(big.NewInt(1), 256)
	mags := []*big.Int{big.NewInt(1), big.NewInt(1000), new(big.Int).Sub(two256, big.NewInt(3)), two256, new(big.Int).Exp(big.NewInt(10), big.NewInt(100), nil),
		new(big.Int).Exp(big.NewInt(10), big.NewInt(3000), nil), new(big.Int).Lsh(big.NewInt(1), 63), new(big.Int).Lsh(big.NewInt(1), 64)}
	names := []string{"1", "1000", "2^256-3", "2^256", "10^100", "10^3000", "2^63", "2^64"}
	mi := 1
	if g.edge("limit.magnitude", 45) {
		mi = g.pick("limit.magnitude.edge", len(mags))
		g.tag("limit.min=" + names[mi])
	}
	mn := new(big.Int).Set(mags[mi])
	mx := new(big.Int).Add(mn, big.NewInt(1))
	lm := new(big.Int).Add(mx, big.NewInt(1))
	pi := 1
	if g.edge("limit.period", 30) {
		pi = g.pick("limit.period.edge", len(mags))
		g.tag("limit.period=" + names[pi])
	}
	period, limit, max, min = decStr(mags[pi]), decStr(lm), decStr(mx), decStr(mn)
	if g.edge("limit.syntax", 15) {
		switch g.pick2("limit.syntax.edge", 2, 5) {
		case 0:
			period = "+" + period
			g.tag("limit.syntax=plusSign")
		case 1:
			min = "000" + min
			g.tag("limit.syntax=leadingZeros")
		case 2:
			max = min
			g.tag("limit.syntax=max==min")
		case 3:
			period = "0"
			g.tag("limit.syntax=period0")
		case 4:
			min = "-1"
			g.tag("limit.syntax=negative")
		case 5:
			limit = "0x10"
			g.tag("limit.syntax=hex")
		default:
			period = ""
			g.tag("limit.syntax=empty")
		}
	}
	// near-valid spellings of an otherwise valid number: padding, separators, exponent and fraction forms
	// (validation and execution parse these strings separately - both must agree on what a number is)
	if g.edge("limit.spelling", 15) {
		forms := []func(string) string{
			func(x string) string { return " " + x }, func(x string) string { return x + " " }, func(x string) string { return x + "\n" },
			func(x string) string { return "\t" + x }, func(x string) string { return x + "\x00" }, func(x string) string { return "1_000" },
			func(x string) string { return "1e3" }, func(x string) string { return x + ".0" }, func(x string) string { return "\u0661\u0660" },
		}
		names := []string{"leadingSpace", "trailingSpace", "trailingNewline", "leadingTab", "trailingNUL", "underscore", "exponent", "fraction", "arabicDigits"}
		k := g.pick("limit.spelling.form", len(forms))
		switch g.pick("limit.spelling.field", 4) {
		case 0:
			period = forms[k](period)
		case 1:
			limit = forms[k](limit)
		case 2:
			max = forms[k](max)
		default:
			min = forms[k](min)
		}
		g.tag("limit.spelling=" + names[k])
	}
	return
}

// genProposal draws one proposal content. existing maps the chain names that currently hold a client to its type
// (constructive bias: creates aim at free names, upgrades and toggles at occupied ones).
func genProposal(t *rapid.T, w *world, existing map[string]string) genContent {
	g := newTagger(t)
	title, desc := g.title()
	out := genContent{ClientKind: "-", ConsKind: "-"}
	isXibc := chance(t, "route", 58)
	if isXibc {
		out.Kind = rapid.SampledFrom(xibcKinds).Draw(t, "xibcKind")
	} else {
		out.Kind = rapid.SampledFrom(aggKinds).Draw(t, "aggKind")
	}
	switch out.Kind {
	case clienttypes.ProposalTypeClientCreate, clienttypes.ProposalTypeClientUpgrade, clienttypes.ProposalTypeClientToggle:
		want := "present"
		if out.Kind == clienttypes.ProposalTypeClientCreate {
			want = "absent"
		}
		name := g.chainName(existing, want)
		out.ChainName = name
		kind := rapid.SampledFrom(clientKinds).Draw(t, "clientKind")
		// constructive bias: upgrades mostly keep the stored type, toggles mostly change it
		if cur := existing[name]; cur != "" && chance(t, "typeBias", 70) {
			switch out.Kind {
			case clienttypes.ProposalTypeClientUpgrade:
				kind = cur
			case clienttypes.ProposalTypeClientToggle:
				if kind == cur {
					kind = clientKinds[(indexOf(clientKinds, cur)+1+rapid.IntRange(0, 2).Draw(t, "toggleTo"))%4]
				}
			}
		}
		out.ClientKind = kind
		csAny, consAny, consKind := g.clientProposalParts(kind)
		out.ConsKind = consKind
		switch out.Kind {
		case clienttypes.ProposalTypeClientCreate:
			out.Content = &clienttypes.CreateClientProposal{Title: title, Description: desc, ChainName: name, ClientState: csAny, ConsensusState: consAny}
		case clienttypes.ProposalTypeClientUpgrade:
			out.Content = &clienttypes.UpgradeClientProposal{Title: title, Description: desc, ChainName: name, ClientState: csAny, ConsensusState: consAny}
		default:
			out.Content = &clienttypes.ToggleClientProposal{Title: title, Description: desc, ChainName: name, ClientState: csAny, ConsensusState: consAny}
		}
	case clienttypes.ProposalTypeRelayerRegister:
		n := rapid.IntRange(1, 3).Draw(t, "nChains")
		var chains, addrs []string
		for i := 0; i < n; i++ {
			chains = append(chains, g.chainName(existing, ""))
			a := kit.NewAccount([]byte{'r', byte(i)}).Addr.Hex()
			if g.edge("relayer.addr", 25) {
				as := []string{"", strings.ToUpper(a), strings.ToLower(a), strings.Repeat("a", 5000), "\x00/\xff", a[2:]}
				j := g.pick("relayer.addr.edge", len(as))
				a = as[j]
				g.tag("relayer.addr=" + []string{"empty", "upper", "lower", "huge", "binary", "noPrefix"}[j])
			}
			addrs = append(addrs, a)
		}
		if g.edge("relayer.shape", 12) {
			switch g.pick2("relayer.shape.edge", 2, 2) {
			case 0:
				chains = append(chains, chains[0])
				addrs = append(addrs, "dup")
				g.tag("relayer.chains=duplicate")
			case 1:
				for i := 0; i < 200; i++ {
					chains = append(chains, fmt.Sprintf("chain-%d", i))
					addrs = append(addrs, "x")
				}
				g.tag("relayer.chains=200")
			case 2:
				addrs = addrs[:len(addrs)-1]
				g.tag("relayer.shape=lengthMismatch")
			default:
				chains, addrs = nil, nil
				g.tag("relayer.shape=empty")
			}
		}
		out.ChainName = ""
		if len(chains) > 0 {
			out.ChainName = chains[0]
		}
		out.Content = &clienttypes.RegisterRelayerProposal{Title: title, Description: desc, Address: g.bech32Address("relayer.address", 25), Chains: chains, Addresses: addrs}
	case aggregatetypes.ProposalTypeRegisterCoin:
		out.Content = &aggregatetypes.RegisterCoinProposal{Title: title, Description: desc, Metadata: g.metadata(w)}
	case aggregatetypes.ProposalTypeAddCoin:
		out.Content = &aggregatetypes.AddCoinProposal{Title: title, Description: desc, Metadata: g.metadata(w), ContractAddress: g.hexAddress("addCoin.contract", w)}
	case aggregatetypes.ProposalTypeRegisterERC20:
		out.Content = &aggregatetypes.RegisterERC20Proposal{Title: title, Description: desc, ERC20Address: g.hexAddress("erc20", w)}
	case aggregatetypes.ProposalTypeToggleTokenRelay:
		var tok string
		if rapid.Bool().Draw(t, "toggleByDenom") {
			ds := []string{"acoin", "bcoin", "aggregate/" + w.tokReg.Hex(), "nosupply", strings.Repeat("d", 128), "A/B-c", "ab", "A/B:c.d_e-f", ""}
			i := g.pick2("toggleDenom", 6, 3)
			tok = ds[i]
			if i < 3 {
				g.note("toggle.denom=" + []string{"registeredCoin", "unregistered", "registeredAggregate"}[i])
			} else {
				g.tag("toggle.denom=" + []string{"", "", "", "unknown", "len128", "slashDash", "tooShort", "colonDot", "empty"}[i])
			}
		} else {
			tok = g.hexAddress("toggle.token", w)
		}
		out.Content = &aggregatetypes.ToggleTokenRelayProposal{Title: title, Description: desc, Token: tok}
	case aggregatetypes.ProposalTypeUpdateTokenPairERC20:
		out.Content = &aggregatetypes.UpdateTokenPairERC20Proposal{Title: title, Description: desc, ERC20Address: g.hexAddress("update.old", w), NewERC20Address: g.hexAddress("update.new", w)}
	case aggregatetypes.ProposalTypeRegisterERC20Trace:
		oriToken, oriChain := "0x1111111111111111111111111111111111111111", "eth.main"
		if g.edge("trace.originToken", 30) {
			ts := []string{strings.Repeat("T", 5000), "世界", "\x00", "a/b", "", "  "}
			i := g.pick2("trace.originToken.edge", 4, 2)
			oriToken = ts[i]
			g.tag("trace.originToken=" + []string{"huge", "unicode", "nul", "slash", "empty", "blank"}[i])
		}
		if g.edge("trace.originChain", 30) {
			cs := []string{strings.Repeat("c", 5000), "a/b", "teleport_9000-1", "\xff\xfe", ""}
			i := g.pick2("trace.originChain.edge", 4, 1)
			oriChain = cs[i]
			g.tag("trace.originChain=" + []string{"huge", "slash", "native", "invalidUtf8", "empty"}[i])
		}
		scale := uint64(rapid.IntRange(0, 18).Draw(t, "trace.scale"))
		if g.edge("trace.scale", 20) {
			ss := []uint64{0, 18, 19, 256, ^uint64(0)}
			scale = ss[g.pick2("trace.scale.edge", 2, 3)]
			g.tag("trace.scale=" + fmt.Sprint(scale))
		}
		out.Content = &aggregatetypes.RegisterERC20TraceProposal{Title: title, Description: desc, ERC20Address: g.hexAddress("trace.erc20", w),
			OriginToken: oriToken, OriginChain: oriChain, Scale: scale}
	case aggregatetypes.ProposalTypeEnableTimeBasedSupplyLimit:
		p, l, mx, mn := g.limitStrings()
		out.Content = &aggregatetypes.EnableTimeBasedSupplyLimitProposal{Title: title, Description: desc, ERC20Address: g.hexAddress("limit.erc20", w),
			TimePeriod: p, TimeBasedLimit: l, MaxAmount: mx, MinAmount: mn}
	default:
		out.Content = &aggregatetypes.DisableTimeBasedSupplyLimitProposal{Title: title, Description: desc, ERC20Address: g.hexAddress("limit.erc20", w)}
	}
	out.Tags = g.sortedTags()
	out.Excluded = g.excluded
	return out
}

func indexOf(s []string, v string) int {
	for i, x := range s {
		if x == v {
			return i
		}
	}
	return 0
}

// roundTrip encodes the content the way a MsgSubmitProposal carries it and decodes it with the
// application's interface registry, which is the only way a content reaches the gov handler.
// It returns the decoded content, the encoded Any bytes, and the reason when it is undecodable.
func roundTrip(w *world, content govtypes.Content) (govtypes.Content, []byte, string) {
	var msg *govtypes.MsgSubmitProposal
	var err error
	if p := guard(func() { msg, err = govtypes.NewMsgSubmitProposal(content, nil, sdk.AccAddress{1}) }); p != nil {
		return nil, nil, "encode panicked"
	}
	if err != nil {
		return nil, nil, "unmarshalable"
	}
	cdc := w.c.App.AppCodec()
	bz, err := cdc.Marshal(msg)
	if err != nil {
		return nil, nil, "unmarshalable"
	}
	var back govtypes.MsgSubmitProposal
	if p := guard(func() { err = cdc.Unmarshal(bz, &back) }); p != nil {
		return nil, nil, "decode panicked"
	}
	if err != nil {
		return nil, nil, "undecodable"
	}
	anyBz, err := proto.Marshal(back.Content)
	kit.Must(err, "marshal Any")
	return back.GetContent(), anyBz, ""
}

var _ = exported.TSS
