package bridge

import (
	"encoding/json"
	"fmt"
	"math"
	"math/big"
	"strings"

	"github.com/ethereum/go-ethereum/common"
	"github.com/ethereum/go-ethereum/crypto"
	"pgregory.net/rapid"

	"github.com/teleport-network/teleport/syscontracts"
	packetcontract "github.com/teleport-network/teleport/syscontracts/xibc_packet"
	xibctmtypes "github.com/teleport-network/teleport/x/xibc/clients/light-clients/tendermint/types"
	tsstypes "github.com/teleport-network/teleport/x/xibc/clients/tss-client/types"
	packettypes "github.com/teleport-network/teleport/x/xibc/core/packet/types"

	"verif/harness/kit"
	"verif/harness/rec"
	"verif/harness/sim/asmkit"
)

// Step is one rendered history step.
type Step struct {
	Op  string `json:"op"`
	Arg string `json:"arg,omitempty"`
	Res string `json:"res,omitempty"`
}

// Machine is the reusable relay state machine; property tests add hooks and extra actions.
type Machine struct {
	T    *rapid.T
	R    *rec.Recorder
	W    *World
	Hist []Step

	movedRel    [][3]int // (chain, counterparty, relayer) registrations whose address is currently moved away
	UseCallback bool     // ActSend names the counter contract as callback address in a third of the sends
	CallKinds   []string // call-data kinds used by ActSend
	Accepted    int      // accepted protocol messages so far

	// Ledger (model of the endpoint views, from observed events only).
	Out  map[string]*big.Int // chain|token|dst  -> expected outTokens
	Bind map[string]*big.Int // chain|token|ori  -> expected bindings.amount

	emitter map[int]common.Address // per chain: look-alike event emitter deployed by the outsider

	// hooks (optional)
	OnSend func(o *SendOutcome)
	OnRecv func(p *Pkt, o TxOutcome)
	OnAck  func(p *Pkt, o TxOutcome)
}

// NewMachine draws the world size and seed and builds the world.
func NewMachine(t *rapid.T, r *rec.Recorder) *Machine {
	n := rapid.SampledFrom([]int{2, 2, 3}).Draw(t, "chains")
	seed := rapid.SliceOfN(rapid.Byte(), 2, 2).Draw(t, "seed")
	return &Machine{T: t, R: r, W: NewWorld(n, seed), CallKinds: []string{"", "", "", "ok", "revert", "hookfail", "gasbomb", "agent", "agent"},
		Out: map[string]*big.Int{}, Bind: map[string]*big.Int{}}
}

func (m *Machine) Log(op, arg, res string) { m.Hist = append(m.Hist, Step{op, arg, res}) }

func (m *Machine) Render() string {
	bz, _ := json.Marshal(m.Hist)
	return string(bz)
}

// Failf reports a property violation with the history.
func (m *Machine) Failf(format string, a ...interface{}) {
	m.T.Fatalf("%s\nhistory=%s", fmt.Sprintf(format, a...), m.Render())
}

func Short(s string) string {
	if len(s) > 200 {
		return s[:200]
	}
	return s
}

// TokName names a token of chain c.
func (w *World) TokName(c int, a common.Address) string {
	switch {
	case a == w.Tok[c]:
		return "lineage"
	case a == (common.Address{}):
		return "native"
	case c == 0 && a == w.Unbound:
		return "unbound"
	case c > 0 && a == w.NTok[c]:
		return "wrapped-native"
	case a == w.TTok[c]:
		return "tss"
	}
	return a.Hex()
}

// Route classifies a transfer of token tok from chain s to chain d.
// back=true: tok on s is bound with origin chain d (burn on s, release oriTok on d).
// Otherwise it is a lock on s; mintTok is the token on d bound to (tok, s), if any (ok=false: unbound at d).
func (w *World) Route(s, d int, tok common.Address) (back bool, other common.Address, ok bool) {
	if s > 0 && tok == w.Tok[s] && d == s-1 {
		return true, w.Tok[d], true
	}
	if s > 0 && tok == w.NTok[s] && d == 0 {
		return true, common.Address{}, true
	}
	if tok == w.Tok[s] && d == s+1 {
		return false, w.Tok[d], true
	}
	if s == 0 && tok == (common.Address{}) && d > 0 {
		return false, w.NTok[d], true
	}
	return false, common.Address{}, false
}

func key(c int, tok common.Address, other string) string {
	return fmt.Sprintf("%d|%s|%s", c, strings.ToLower(tok.Hex()), other)
}

// ApplySendLedger records the lock (forward) or burn (back) of an observed sent packet.
func (m *Machine) ApplySendLedger(p *Pkt) {
	back := false
	if p.DstIdx >= 0 {
		back, _, _ = m.W.Route(p.SrcIdx, p.DstIdx, p.Token)
	}
	if back {
		m.add(m.Bind, key(p.SrcIdx, p.Token, p.P.DstChain), p.Amount, -1)
	} else {
		m.add(m.Out, key(p.SrcIdx, p.Token, p.P.DstChain), p.Amount, +1)
	}
}

func (m *Machine) add(mp map[string]*big.Int, k string, v *big.Int, sign int) {
	cur, ok := mp[k]
	if !ok {
		cur = new(big.Int)
		mp[k] = cur
	}
	if sign >= 0 {
		cur.Add(cur, v)
	} else {
		cur.Sub(cur, v)
	}
}

// Balance reads the balance of token tok (zero address = bank coin) of addr on chain c.
func (w *World) Balance(c int, tok common.Address, addr common.Address) *big.Int {
	if tok == (common.Address{}) {
		return w.Chains[c].App.BankKeeper.GetBalance(w.Chains[c].Ctx(), addr.Bytes(), "stake").Amount.BigInt()
	}
	return w.Chains[c].ERC20Balance(tok, addr)
}

// SenderSide is the balance that a refund of p must show up in: the sender's, plus - for a packet sent by
// the agent contract - the address the agent passes refunds on to.
func (w *World) SenderSide(p *Pkt) *big.Int {
	b := w.Balance(p.SrcIdx, p.Token, p.Sender.Addr)
	if p.Parent != nil && p.RefundTo != p.Sender.Addr {
		b = new(big.Int).Add(b, w.Balance(p.SrcIdx, p.Token, p.RefundTo))
	}
	return b
}

// ExpectedCredit is what the receiver of p must gain when p is executed successfully: the amount, minus what
// the callback forwarded in nested packets (amount and fee) when the receiver is the agent contract.
func ExpectedCredit(p *Pkt) *big.Int {
	c := new(big.Int).Set(p.Amount)
	for _, n := range p.Nested {
		c.Sub(c, n.Amount)
		c.Sub(c, n.Fee)
	}
	return c
}

// ---------------------------------------------------------------------------------------------
// actions

// ActSend draws and performs a send.
func (m *Machine) ActSend(t *rapid.T) {
	w := m.W
	n := len(w.Chains)
	src := rapid.IntRange(0, n-1).Draw(t, "src")
	dst := rapid.IntRange(0, n-2).Draw(t, "dst")
	if dst >= src {
		dst++
	}
	user := rapid.IntRange(0, 1).Draw(t, "user")
	toks := []common.Address{w.Tok[src]}
	if src == 0 {
		toks = append(toks, common.Address{}, w.Unbound)
	} else {
		toks = append(toks, w.NTok[src])
	}
	tok := rapid.SampledFrom(toks).Draw(t, "token")
	bal := w.Balance(src, tok, w.Users[user].Addr)
	if bal.Sign() == 0 && rapid.IntRange(0, 3).Draw(t, "sendAnyway") != 0 {
		// prefer a token the user holds
		for _, tk := range toks {
			if w.Balance(src, tk, w.Users[user].Addr).Sign() > 0 {
				tok = tk
				bal = w.Balance(src, tk, w.Users[user].Addr)
				break
			}
		}
	}
	maxAmt := int64(500)
	if bal.IsInt64() && bal.Int64() > 0 && bal.Int64() < maxAmt && rapid.Bool().Draw(t, "capToBalance") {
		maxAmt = bal.Int64()
	}
	amt := big.NewInt(rapid.Int64Range(1, maxAmt).Draw(t, "amount"))
	// amounts of every magnitude a uint256 token amount can have: mostly small, sometimes real-chain scale (1e18 base units),
	// around the int64 / uint64 / 2^128 limits, the whole balance, or one unit more than the balance (must fail)
	switch rapid.IntRange(0, 19).Draw(t, "amountKind") {
	case 0:
		amt = new(big.Int).Mul(big.NewInt(rapid.Int64Range(1, 50).Draw(t, "amountCoins")), new(big.Int).Exp(big.NewInt(10), big.NewInt(18), nil))
	case 1:
		amt = new(big.Int).Add(new(big.Int).Lsh(big.NewInt(1), 63), big.NewInt(rapid.Int64Range(-2, 2).Draw(t, "aroundInt64")))
	case 2:
		amt = new(big.Int).Add(new(big.Int).Lsh(big.NewInt(1), 64), big.NewInt(rapid.Int64Range(-2, 2).Draw(t, "aroundUint64")))
	case 3:
		amt = new(big.Int).Add(new(big.Int).Lsh(big.NewInt(1), 128), big.NewInt(rapid.Int64Range(-1, 1).Draw(t, "around128")))
	case 4:
		if tok == (common.Address{}) && bal.Sign() > 0 {
			// the native coin also pays the transaction fees of every later step: a tenth of the balance, not all of it
			amt = new(big.Int).Quo(bal, big.NewInt(10))
			if amt.Sign() == 0 {
				amt = big.NewInt(1)
			}
		} else if bal.Sign() > 0 {
			amt = new(big.Int).Add(bal, big.NewInt(rapid.Int64Range(-1, 1).Draw(t, "aroundBalance")))
			if amt.Sign() <= 0 {
				amt = big.NewInt(1)
			}
		}
	}
	fee := big.NewInt(rapid.Int64Range(0, 3).Draw(t, "fee"))
	call := rapid.SampledFrom(m.CallKinds).Draw(t, "call")
	recv := strings.ToLower(w.Users[rapid.IntRange(0, 1).Draw(t, "receiver")].Addr.String())
	var agentFee *big.Int
	if call == "agent" {
		// the agent contract on dst forwards the received tokens to a further chain (known or unknown to dst)
		finals := []string{"no-such-chain", TSSName}
		for j, o := range w.Chains {
			if j != dst {
				finals = append(finals, o.ChainID)
			}
		}
		call = "agent:" + rapid.SampledFrom(finals).Draw(t, "agentFinal")
		agentFee = big.NewInt(rapid.Int64Range(0, 2).Draw(t, "agentFee"))
	}
	var callback common.Address
	if m.UseCallback {
		switch rapid.IntRange(0, 5).Draw(t, "withCallback") {
		case 0, 1:
			callback = w.Counter
		case 2:
			callback = w.Moody // reverts until ActFundMoody ran on the sending chain
		}
	}
	// fee option: a number the packet carries end to end (mostly 0; also small values and the limits of uint64)
	var feeOption uint64
	if rapid.IntRange(0, 3).Draw(t, "withFeeOption") == 0 {
		feeOption = rapid.SampledFrom([]uint64{1, 2, 7, 1 << 63, math.MaxUint64}).Draw(t, "feeOption")
	}
	out := w.Send(SendSpec{Src: src, DstName: w.Chains[dst].ChainID, User: user, Token: tok, Amount: amt, Fee: fee, Receiver: recv, Call: call, AgentFee: agentFee, Callback: callback, FeeOption: feeOption}, m.OnSend != nil)
	m.Log("send", fmt.Sprintf("%d>%d %s amt=%s fee=%s call=%s", src, dst, w.TokName(src, tok), amt, fee, call), fmt.Sprintf("ok=%v", out.OK))
	if out.OK {
		m.R.Label("send_ok")
		if callback == w.Moody {
			m.R.Label(fmt.Sprintf("send_ok_with_reverting_callback(funded=%v)", w.MoodyFunded(src)))
		}
		for _, p := range out.Pkts {
			m.ApplySendLedger(p)
		}
	} else {
		m.R.Label("send_failed")
	}
	if m.OnSend != nil {
		m.OnSend(out)
	}
}

func (m *Machine) ActTick(t *rapid.T) {
	m.W.Tick()
	m.Log("tick", "", "")
}

// ActUpdate updates a lagging client (positive control: must succeed).
func (m *Machine) ActUpdate(t *rapid.T) {
	w := m.W
	n := len(w.Chains)
	on := rapid.IntRange(0, n-1).Draw(t, "on")
	of := rapid.IntRange(0, n-2).Draw(t, "of")
	if of >= on {
		of++
	}
	c, o := w.Chains[on], w.Chains[of]
	if c.ClientHeight(o.ChainID) >= o.LastHeader.Header.Height {
		t.Skip("client already at head")
	}
	rel := w.Rels[rapid.IntRange(0, 1).Draw(t, "rel")]
	res := c.Deliver(rel, c.MsgUpdateTMClient(o, o.LastHeader.Header.Height, rel.Acc))
	if !res.OK() {
		m.Failf("positive control: client update of %s on %s by a registered relayer with the latest header rejected: %s", o.ChainID, c.ChainID, Short(res.Log))
	}
	m.Accepted++
	m.Log("update", fmt.Sprintf("%d<-%d h=%d", on, of, o.LastHeader.Header.Height), "ok")
}

// Pending lists packets that can be received now (a provable height exists on the destination).
func (m *Machine) Pending() []*Pkt {
	var out []*Pkt
	for _, p := range m.W.Pkts {
		if !p.Received && p.DstIdx >= 0 && p.SrcIdx >= 0 && len(m.W.ProofHeightsFor(p.DstIdx, p.SrcIdx, p.SentAt)) > 0 {
			out = append(out, p)
		}
	}
	return out
}

// ReceivedPkts lists real-chain packets already received.
func (m *Machine) ReceivedPkts() []*Pkt {
	var out []*Pkt
	for _, p := range m.W.Pkts {
		if p.Received && p.SrcIdx >= 0 && p.DstIdx >= 0 {
			out = append(out, p)
		}
	}
	return out
}

// AckCandidates lists received, not yet acknowledged packets whose ack can be proven now.
func (m *Machine) AckCandidates() []*Pkt {
	var out []*Pkt
	for _, p := range m.ReceivedPkts() {
		if !p.Acked && len(p.AckBz) > 0 && len(m.W.ProofHeightsFor(p.SrcIdx, p.DstIdx, p.RecvAt)) > 0 {
			out = append(out, p)
		}
	}
	return out
}

// ActRecvFresh delivers the first receive of a pending packet (positive control) and applies the ledger.
func (m *Machine) ActRecvFresh(t *rapid.T) {
	w := m.W
	ps := m.Pending()
	if len(ps) == 0 {
		t.Skip("nothing deliverable")
	}
	p := ps[rapid.IntRange(0, len(ps)-1).Draw(t, "pkt")]
	hs := w.ProofHeightsFor(p.DstIdx, p.SrcIdx, p.SentAt)
	h := hs[rapid.IntRange(0, len(hs)-1).Draw(t, "height")]
	rel := w.Rels[rapid.IntRange(0, 1).Draw(t, "rel")]
	o := w.DeliverDumped(p.DstIdx, rel, w.RecvMsg(p, p.Bz, h, rel.Acc))
	if !o.Res.OK() {
		m.Failf("positive control: first receive of genuine packet %s (valid proof at stored height %d, registered relayer) rejected: %s", p.T, h, Short(o.Res.Log))
	}
	w.NoteRecv(p.DstIdx, p, o.Res, rel)
	m.Accepted++
	if len(p.AckBz) > 0 && p.Ack.Code == 0 {
		back, other, ok := w.Route(p.SrcIdx, p.DstIdx, p.Token)
		if ok {
			if back {
				m.add(m.Out, key(p.DstIdx, other, p.P.SrcChain), p.Amount, -1)
			} else {
				m.add(m.Bind, key(p.DstIdx, other, p.P.SrcChain), p.Amount, +1)
			}
		}
		for _, n := range p.Nested {
			m.ApplySendLedger(n)
			m.R.Label("nested_send_in_receive")
		}
	}
	m.R.Label(fmt.Sprintf("recv_ack_code_%d_call_%s", p.Ack.Code, p.Call))
	m.Log("recv", fmt.Sprintf("%s h=%d call=%s", p.T, h, p.Call), fmt.Sprintf("ack code=%d", p.Ack.Code))
	if m.OnRecv != nil {
		m.OnRecv(p, o)
	}
}

// ActAck relays the genuine acknowledgement of a received packet to its source and applies the ledger.
func (m *Machine) ActAck(t *rapid.T) {
	w := m.W
	cands := m.AckCandidates()
	if len(cands) == 0 {
		t.Skip("no ack relayable")
	}
	p := cands[rapid.IntRange(0, len(cands)-1).Draw(t, "pkt")]
	hs := w.ProofHeightsFor(p.SrcIdx, p.DstIdx, p.RecvAt)
	rel := w.Rels[rapid.IntRange(0, 1).Draw(t, "rel")]
	o := w.DeliverDumped(p.SrcIdx, rel, kit.MsgAck(w.Chains[p.DstIdx], p.Bz, p.AckBz, hs[rapid.IntRange(0, len(hs)-1).Draw(t, "height")], rel.Acc))
	if o.Res.OK() {
		p.Acked = true
		p.AckedAt = w.Chains[p.SrcIdx].Header.Height
		m.Accepted++
		if p.Ack.Code != 0 {
			p.Refunded = true
			back := false
			if p.DstIdx >= 0 {
				back, _, _ = w.Route(p.SrcIdx, p.DstIdx, p.Token)
			}
			if back {
				m.add(m.Bind, key(p.SrcIdx, p.Token, p.P.DstChain), p.Amount, +1)
			} else {
				m.add(m.Out, key(p.SrcIdx, p.Token, p.P.DstChain), p.Amount, -1)
			}
		}
		m.R.Label(fmt.Sprintf("ack_processed_code_%d", p.Ack.Code))
	} else {
		p.AckTried = true
		m.R.Label("ack_refused")
	}
	m.Log("ack", fmt.Sprintf("%s code=%d", p.T, p.Ack.Code), fmt.Sprintf("ok=%v %s", o.Res.OK(), func() string {
		if o.Res.OK() {
			return ""
		}
		return Short(o.Res.Log)
	}()))
	if m.OnAck != nil {
		m.OnAck(p, o)
	}
}

// packetState dumps chain ci's xibc store without the client store of `chainName` (and without the relayer registry, which the
// round trip below extends): governance operations on that client may touch nothing else - no receipt, acknowledgement,
// commitment or sequence of any chain pair.
func (w *World) packetState(ci int, chainName string) kit.Dump {
	c := w.Chains[ci]
	d := c.DumpStores(c.Ctx(), "xibc")
	var keep []kit.KV
	for _, kv := range d["xibc"] {
		k := string(kv.K)
		if strings.HasPrefix(k, "clients/"+chainName+"/") || strings.HasPrefix(k, "relayers/") {
			continue
		}
		keep = append(keep, kv)
	}
	return kit.Dump{"xibc": keep}
}

// ActUpgradeLower: governance re-anchors the Tendermint client that chain d keeps for chain s at a LOWER height it still holds a
// consensus state for (an UpgradeClient proposal with the stored consensus state; the consensus states stay). A client
// operation may not touch packet state: everything outside the client's own store must be byte-identical afterwards, so
// that nothing already received or acknowledged can be processed again once the client has caught up.
func (m *Machine) ActUpgradeLower(t *rapid.T) {
	w := m.W
	d := rapid.IntRange(0, len(w.Chains)-1).Draw(t, "on")
	s := rapid.IntRange(0, len(w.Chains)-2).Draw(t, "of")
	if s >= d {
		s++
	}
	cd, cs := w.Chains[d], w.Chains[s]
	ck := cd.App.XIBCKeeper.ClientKeeper
	hs := w.ConsensusHeights(d, s)
	if len(hs) < 2 {
		t.Skip("no lower consensus height stored")
	}
	low := hs[rapid.IntRange(0, len(hs)-2).Draw(t, "lowerTo")]
	cur, found := ck.GetClientState(cd.Ctx(), cs.ChainID)
	tmcs, ok := cur.(*xibctmtypes.ClientState)
	if !found || !ok {
		t.Skip("not a Tendermint client")
	}
	ncs := *tmcs
	ncs.LatestHeight = H(tmcs.LatestHeight.RevisionNumber, uint64(low))
	cons, found := ck.GetClientConsensusState(cd.Ctx(), cs.ChainID, ncs.LatestHeight)
	if !found {
		kit.Failf("consensus state %d of %s not found", low, cs.ChainID)
	}
	before := w.packetState(d, cs.ChainID)
	kit.Must(ck.UpgradeClient(cd.Ctx(), cs.ChainID, &ncs, cons), "upgrade to a lower height")
	if df := kit.Diff(before, w.packetState(d, cs.ChainID)); len(df) > 0 {
		m.Failf("an UpgradeClient of the client of chain %d on chain %d (to the lower height %d) changed packet state:\n%s", s, d, low, kit.DiffString(df, 8))
	}
	m.R.Label("client_upgraded_to_lower_height")
	m.Log("upgradeLower", fmt.Sprintf("client of %d on %d -> %d", s, d, low), "packet state unchanged")
}

// ActToggleRoundTrip: governance switches the client that chain d keeps for chain s from Tendermint to TSS (ToggleClient wipes
// the CLIENT's store) and later back. While the TSS client is in place, the TSS account - now the only authorised relayer for
// s - replays every packet of s that d has already accepted, and every acknowledgement d has already processed for packets it
// sent to s: a client toggle must not make d forget what it received or acknowledged, so each replay must fail and change
// nothing. Then the Tendermint client is reinstalled at s's last header and the history continues.
func (m *Machine) ActToggleRoundTrip(t *rapid.T) {
	w := m.W
	d := rapid.IntRange(0, len(w.Chains)-1).Draw(t, "on")
	s := rapid.IntRange(0, len(w.Chains)-2).Draw(t, "of")
	if s >= d {
		s++
	}
	cd, cs := w.Chains[d], w.Chains[s]
	ck := cd.App.XIBCKeeper.ClientKeeper
	// the TSS account becomes (also) a relayer for s on d, the way a RegisterRelayer proposal does
	ir, _ := ck.GetRelayer(cd.Ctx(), w.TSS.Acc.String())
	has := false
	for _, n := range ir.Chains {
		has = has || n == cs.ChainID
	}
	if !has {
		cd.RegisterRelayer(w.TSS.Acc, append(append([]string{}, ir.Chains...), cs.ChainID), append(append([]string{}, ir.Addresses...), w.TSS.Acc.String()))
	}
	tss := &tsstypes.ClientState{TssAddress: w.TSS.Acc.String(), Pubkey: []byte("pubkey"), PartPubkeys: [][]byte{[]byte("p1")}}
	psBefore := w.packetState(d, cs.ChainID)
	kit.Must(ck.ToggleClient(cd.Ctx(), cs.ChainID, tss, &tsstypes.ConsensusState{}), "toggle to TSS")
	if df := kit.Diff(psBefore, w.packetState(d, cs.ChainID)); len(df) > 0 {
		m.Failf("a ToggleClient of the client of chain %d on chain %d changed packet state:\n%s", s, d, kit.DiffString(df, 8))
	}
	replays := 0
	for _, p := range w.Pkts {
		if p.SrcIdx == s && p.DstIdx == d && p.Received {
			o := w.DeliverDumped(d, w.TSS, packettypes.NewMsgRecvPacket(p.Bz, []byte{}, H(0, 1), w.TSS.Acc))
			if o.Res.OK() {
				m.Failf("after a client toggle on chain %d the already accepted packet %s was accepted AGAIN (relayed by the TSS account)", d, p.T)
			}
			if !o.Unchanged() {
				m.Failf("rejected replay of %s after a client toggle changed state:\n%s", p.T, o.DiffString())
			}
			replays++
		}
		if p.SrcIdx == d && p.DstIdx == s && p.Acked && len(p.AckBz) > 0 {
			o := w.DeliverDumped(d, w.TSS, packettypes.NewMsgAcknowledgement(p.Bz, p.AckBz, []byte{}, H(0, 1), w.TSS.Acc))
			if o.Res.OK() {
				m.Failf("after a client toggle on chain %d the already processed acknowledgement of %s was processed AGAIN", d, p.T)
			}
			if !o.Unchanged() {
				m.Failf("rejected acknowledgement replay of %s after a client toggle changed state:\n%s", p.T, o.DiffString())
			}
			replays++
		}
	}
	tm, cons := cd.TMClientAt(cs, 0)
	kit.Must(ck.ToggleClient(cd.Ctx(), cs.ChainID, tm, cons), "toggle back to Tendermint")
	// the reinstalled client has accepted exactly one consensus state: the one of the proposal. Anything else in its store
	// (left over from the client before the toggles) would let proofs pass at heights this client never verified.
	if hs := w.ConsensusHeights(d, s); len(hs) != 1 || hs[0] != int64(tm.LatestHeight.RevisionHeight) {
		m.Failf("after Tendermint -> TSS -> Tendermint the client of chain %d on chain %d holds consensus states at heights %v; the reinstalled client only accepted %d",
			s, d, hs, tm.LatestHeight.RevisionHeight)
	}
	m.R.Label(fmt.Sprintf("toggle_round_trip_replays_%d", min(replays, 3)))
	m.Log("toggleRoundTrip", fmt.Sprintf("client of %d on %d", s, d), fmt.Sprintf("%d replays rejected", replays))
}

// ActMoveRelayerAddress: governance re-registers a relayer on chain s with the same chains but ANOTHER address for counterparty
// chain x (or moves it back). Acknowledgements naming the relayer's old address on x then find no fee recipient on s: they
// must be refused as a whole (the packet stays in flight until the registration is repaired), never consumed half-way.
func (m *Machine) ActMoveRelayerAddress(t *rapid.T) {
	w := m.W
	s := rapid.IntRange(0, len(w.Chains)-1).Draw(t, "on")
	x := rapid.IntRange(0, len(w.Chains)-2).Draw(t, "for")
	if x >= s {
		x++
	}
	ri := rapid.IntRange(0, len(w.Rels)-1).Draw(t, "relayer")
	// registrations are usually repaired soon: three times out of four an address that is currently moved away is moved back
	if len(m.movedRel) > 0 && rapid.IntRange(0, 3).Draw(t, "repair") != 0 {
		k := m.movedRel[len(m.movedRel)-1]
		s, x, ri = k[0], k[1], k[2]
	}
	rel := w.Rels[ri]
	cs := w.Chains[s]
	ir, found := cs.App.XIBCKeeper.ClientKeeper.GetRelayer(cs.Ctx(), rel.Acc.String())
	if !found {
		t.Skip("relayer not registered")
	}
	chains, addrs := append([]string{}, ir.Chains...), append([]string{}, ir.Addresses...)
	what := "unchanged"
	for i, n := range chains {
		if n == w.Chains[x].ChainID {
			if addrs[i] == rel.Acc.String() {
				// an address nobody else is registered with (a shared one would legitimately make its other owner the fee recipient)
				addrs[i], what = fmt.Sprintf("0x%038x%02x", append([]byte{byte(s), byte(x)}, rel.Addr.Bytes()[:17]...), 0xee), "moved away"
			} else {
				addrs[i], what = rel.Acc.String(), "moved back"
			}
		}
	}
	cs.RegisterRelayer(rel.Acc, chains, addrs)
	key := [3]int{s, x, ri}
	var rest [][3]int
	for _, k := range m.movedRel {
		if k != key {
			rest = append(rest, k)
		}
	}
	m.movedRel = rest
	if what == "moved away" {
		m.movedRel = append(m.movedRel, key)
	}
	m.R.Label("relayer_address_" + strings.ReplaceAll(what, " ", "_"))
	m.Log("moveRelayerAddress", fmt.Sprintf("relayer %s on chain %d for chain %d", rel.Acc.String()[:14], s, x), what)
}

// ActFundMoody gives the moody callback contract of a chain a balance, after which callbacks into it stop reverting.
func (m *Machine) ActFundMoody(t *rapid.T) {
	w := m.W
	ci := rapid.IntRange(0, len(w.Chains)-1).Draw(t, "chain")
	if w.MoodyFunded(ci) {
		t.Skip("already funded")
	}
	// funding matters after an acknowledgement was attempted against the reverting contract (can a later message now get
	// through?); funding earlier merely turns the contract into a plain counter, so that is made rare
	armed := false
	for _, p := range w.Pkts {
		if p.SrcIdx == ci && p.CallbackAddr == w.Moody && (p.Acked || p.AckTried) {
			armed = true
		}
	}
	if !armed && rapid.IntRange(0, 9).Draw(t, "early") != 0 {
		t.Skip("no acknowledgement attempted against the reverting callback yet")
	}
	ok := w.FundMoody(ci, rapid.IntRange(0, len(w.Users)-1).Draw(t, "user"))
	m.Log("fundMoody", fmt.Sprintf("chain %d", ci), fmt.Sprintf("ok=%v", ok))
}

// ActAckAgain delivers a further acknowledgement message for a packet that was received (acknowledged on the
// source or not): the genuine ack once more, or one whose code is flipped (forged error / forged success), with
// the genuine proof. The action itself judges nothing: the model is only updated when the message is the genuine
// FIRST ack (handled by ActAck); any effect of an accepted further ack shows up in the ledger and balance checks.
func (m *Machine) ActAckAgain(t *rapid.T) {
	w := m.W
	var cands []*Pkt
	for _, p := range m.ReceivedPkts() {
		if p.Acked && len(p.AckBz) > 0 && len(w.ProofHeightsFor(p.SrcIdx, p.DstIdx, p.RecvAt)) > 0 {
			cands = append(cands, p)
		}
	}
	if len(cands) == 0 {
		t.Skip("no acknowledged packet")
	}
	p := cands[rapid.IntRange(0, len(cands)-1).Draw(t, "pkt")]
	hs := w.ProofHeightsFor(p.SrcIdx, p.DstIdx, p.RecvAt)
	rel := w.Rels[rapid.IntRange(0, 1).Draw(t, "rel")]
	ackBz := p.AckBz
	kind := rapid.SampledFrom([]string{"same", "flipped-code", "flipped-code"}).Draw(t, "againKind")
	if kind == "flipped-code" {
		a := p.Ack
		if a.Code == 0 {
			a.Code = 1
		} else {
			a.Code = 0
		}
		var err error
		ackBz, err = a.ABIPack()
		kit.Must(err, "pack ack")
	}
	res := w.Chains[p.SrcIdx].Deliver(rel, kit.MsgAck(w.Chains[p.DstIdx], p.Bz, ackBz, hs[len(hs)-1], rel.Acc))
	m.R.Label(fmt.Sprintf("ack_again_%s_accepted=%v", kind, res.OK()))
	m.Log("ackAgain", fmt.Sprintf("%s %s", p.T, kind), fmt.Sprintf("ok=%v", res.OK()))
}

// ActLimit enables or disables, the way the passed aggregate proposals do, a time-based supply limit on a bound
// token of some chain; receives above the limit then fail inside the destination callback (error ack, refund).
func (m *Machine) ActLimit(t *rapid.T) {
	w := m.W
	c := rapid.IntRange(1, len(w.Chains)-1).Draw(t, "chain")
	tok := w.Tok[c]
	if rapid.Bool().Draw(t, "nativeWrapped") {
		tok = w.NTok[c]
	}
	ch := w.Chains[c]
	if rapid.IntRange(0, 2).Draw(t, "disable") == 0 {
		err := ch.App.AggregateKeeper.DisableTimeBasedSupplyLimit(ch.Ctx(), tok)
		m.Log("limit", fmt.Sprintf("chain %d %s disable", c, w.TokName(c, tok)), fmt.Sprintf("err=%v", err != nil))
		return
	}
	minA := int64(rapid.IntRange(1, 20).Draw(t, "min"))
	maxA := minA + int64(rapid.IntRange(1, 200).Draw(t, "maxDelta"))
	lim := maxA + int64(rapid.IntRange(1, 300).Draw(t, "limitDelta"))
	period := int64(rapid.IntRange(1, 60).Draw(t, "period"))
	err := ch.App.AggregateKeeper.EnableTimeBasedSupplyLimit(ch.Ctx(), tok, big.NewInt(period), big.NewInt(lim), big.NewInt(maxA), big.NewInt(minA))
	m.R.Label("supply_limit_enabled")
	m.Log("limit", fmt.Sprintf("chain %d %s period=%d limit=%d max=%d min=%d", c, w.TokName(c, tok), period, lim, maxA, minA), fmt.Sprintf("err=%v", err != nil))
}

// ActForgedSendEvent: a user contract (not the packet contract) emits a log that is byte-for-byte shaped like the
// packet contract's PacketSent event and carries a well-formed packet of this chain with the next sequence of an
// existing destination. Only the packet contract's own events are sends: the xibc store (commitments, counters)
// must not change.
func (m *Machine) ActForgedSendEvent(t *rapid.T) {
	w := m.W
	src := rapid.IntRange(0, len(w.Chains)-1).Draw(t, "src")
	ch := w.Chains[src]
	dst := w.Chains[(src+1)%len(w.Chains)].ChainID
	if rapid.IntRange(0, 3).Draw(t, "toTSS") == 0 {
		dst = TSSName
	}
	if m.emitter == nil {
		m.emitter = map[int]common.Address{}
	}
	em, ok := m.emitter[src]
	if !ok {
		nonce := ch.App.EvmKeeper.GetNonce(ch.Ctx(), w.Outsider.Addr)
		r := ch.DeliverEth(w.Outsider, nil, nil, asmkit.InitCode(asmkit.Emitter(1)))
		if !r.Succeeded() {
			kit.Failf("emitter deploy failed: %s %s", r.Log, r.VmError)
		}
		em = crypto.CreateAddress(w.Outsider.Addr, nonce)
		m.emitter[src] = em
	}
	seq := ch.App.XIBCKeeper.PacketKeeper.GetNextSequenceSend(ch.Ctx(), ch.ChainID, dst) + uint64(rapid.IntRange(0, 1).Draw(t, "seqOffset"))
	td := packettypes.TransferData{Token: strings.ToLower(w.Tok[src].Hex()), Amount: common.LeftPadBytes(big.NewInt(int64(rapid.IntRange(1, 100000).Draw(t, "amount"))).Bytes(), 32),
		Receiver: strings.ToLower(w.Outsider.Addr.Hex())}
	tdBz, err := td.ABIPack()
	kit.Must(err, "pack transfer data")
	pk := packettypes.Packet{SrcChain: ch.ChainID, DstChain: dst, Sequence: seq, Sender: strings.ToLower(w.Outsider.Addr.Hex()), TransferData: tdBz, CallData: []byte{}}
	pkBz, err := pk.ABIPack()
	kit.Must(err, "pack packet")
	ev := packetcontract.PacketContract.ABI.Events["PacketSent"]
	data, err := ev.Inputs.Pack(pkBz)
	kit.Must(err, "pack event data")
	before := ch.DumpStores(ch.Ctx(), "xibc")
	nextBefore := ch.ContractNextSeq(dst)
	res := ch.DeliverEth(w.Outsider, &em, nil, asmkit.EmitterInput([]common.Hash{ev.ID}, data))
	after := ch.DumpStores(ch.Ctx(), "xibc")
	if d := kit.Diff(before, after); len(d) != 0 {
		m.Failf("a PacketSent look-alike event emitted by a user contract (tx ok=%v) changed the xibc store:\n%s", res.Succeeded(), kit.DiffString(d, 8))
	}
	if n := ch.ContractNextSeq(dst); n != nextBefore {
		m.Failf("a PacketSent look-alike event emitted by a user contract moved the packet contract's counter %d -> %d", nextBefore, n)
	}
	m.R.Label(fmt.Sprintf("forged_send_event_tx_ok=%v", res.Succeeded()))
	m.Log("forgedSendEvent", fmt.Sprintf("%d>%s #%d", src, dst, seq), fmt.Sprintf("tx ok=%v, xibc store unchanged", res.Succeeded()))
}

// BaseActions returns the standard action table.
func (m *Machine) BaseActions() map[string]func(*rapid.T) {
	wrap := func(f func(*rapid.T)) func(*rapid.T) {
		return func(t *rapid.T) { m.T = t; f(t) }
	}
	return map[string]func(*rapid.T){
		"send":       wrap(m.ActSend),
		"send2":      wrap(m.ActSend),
		"tick":       wrap(m.ActTick),
		"tick2":      wrap(m.ActTick),
		"update":     wrap(m.ActUpdate),
		"update2":    wrap(m.ActUpdate),
		"recvFresh":  wrap(m.ActRecvFresh),
		"recvFresh2": wrap(m.ActRecvFresh),
		"ack":        wrap(m.ActAck),
		"ack2":       wrap(m.ActAck),
	}
}

// Wrap adapts an action so failure messages use the current *rapid.T.
func (m *Machine) Wrap(f func(*rapid.T)) func(*rapid.T) {
	return func(t *rapid.T) { m.T = t; f(t) }
}

// CheckLedger compares the endpoint views outTokens / bindings (and the supply of bound tokens) with the
// model for EVERY (chain, token of the world, destination / origin name) combination, including
// destinations nothing was ever successfully sent to (expected 0).
func (m *Machine) CheckLedger() {
	w := m.W
	for c, ch := range w.Chains {
		toks := []common.Address{w.Tok[c], w.TTok[c], w.Target[c], {}}
		if c == 0 {
			toks = append(toks, w.Unbound)
		} else {
			toks = append(toks, w.NTok[c])
		}
		names := []string{TSSName, "no-such-chain"}
		for j, o := range w.Chains {
			if j != c {
				names = append(names, o.ChainID)
			}
		}
		for _, tok := range toks {
			for _, name := range names {
				want := m.Out[key(c, tok, name)]
				if want == nil {
					want = new(big.Int)
				}
				got := ch.OutTokens(tok, name)
				if got.Cmp(want) != 0 {
					m.Failf("value conservation: chain %d outTokens[%s][%s] = %s, but successful sends minus refunds/releases observed = %s", c, w.TokName(c, tok), name, got, want)
				}
				if tok == (common.Address{}) {
					continue
				}
				b := ch.Bindings(tok, name)
				wantB := m.Bind[key(c, tok, name)]
				if wantB == nil {
					wantB = new(big.Int)
				}
				if b.Amount.Cmp(wantB) != 0 {
					m.Failf("value conservation: chain %d bindings[%s/%s].amount = %s, but successful executions minus burns plus re-credits observed = %s", c, w.TokName(c, tok), name, b.Amount, wantB)
				}
			}
		}
		// minted supply of a bound token equals what its binding says (no value created)
		type bound struct {
			tok common.Address
			ori string
		}
		var bs []bound
		if c > 0 {
			bs = append(bs, bound{w.Tok[c], w.Chains[c-1].ChainID}, bound{w.NTok[c], w.Chains[0].ChainID})
		}
		for _, x := range bs {
			amt := ch.Bindings(x.tok, x.ori).Amount
			if sup := ch.ERC20Supply(x.tok); sup.Cmp(amt) != 0 {
				m.Failf("chain %d totalSupply(%s) = %s differs from bindings amount %s", c, w.TokName(c, x.tok), sup, amt)
			}
		}
	}
}

// PacketContractKeyPrefix is the evm-store key prefix of the packet contract's storage.
var PacketContractKeyPrefix = append([]byte{0x02}, packetcontract.PacketContractAddress.Bytes()...)

// SystemContractKeyPrefixes are the evm-store storage prefixes of the packet, endpoint and execute contracts.
var SystemContractKeyPrefixes = [][]byte{
	PacketContractKeyPrefix,
	append([]byte{0x02}, common.HexToAddress(syscontracts.EndpointContractAddress).Bytes()...),
	append([]byte{0x02}, common.HexToAddress(syscontracts.ExecuteContractAddress).Bytes()...),
}

// FilterDump drops entries for which drop returns true.
func FilterDump(d kit.Dump, drop func(store string, key []byte) bool) kit.Dump {
	out := kit.Dump{}
	for n, kvs := range d {
		var keep []kit.KV
		for _, kv := range kvs {
			if !drop(n, kv.K) {
				keep = append(keep, kv)
			}
		}
		out[n] = keep
	}
	return out
}
