// C11 when the token contract of a pair is gone (what a SELFDESTRUCT leaves: no account, no code): no tokens can be minted,
// released or burned any more, so a conversion message - whether the module answers it with an error or, as it does, by
// removing the pair and reporting success - must leave every balance and every supply as it was: "the sender loses it on one
// side and the receiver gains exactly it on the other, or ... nothing changes" has no third outcome.
package c11

import (
	"fmt"
	"testing"

	"pgregory.net/rapid"

	sdk "github.com/cosmos/cosmos-sdk/types"
	banktypes "github.com/cosmos/cosmos-sdk/x/bank/types"
	transfertypes "github.com/cosmos/ibc-go/v3/modules/apps/transfer/types"

	aggregatetypes "github.com/teleport-network/teleport/x/aggregate/types"

	"verif/harness/kit"
	"verif/harness/rec"
)

const ruleGone = "message-server level, written back only on success (as DeliverTx does): MsgConvertCoin / MsgConvertERC20 on a module-owned pair (1-2 denominations, optional earlier " +
	"conversions so that an escrow exists) whose token contract account was removed afterwards; drawn sender, receiver (self / other), denomination and amount (1, part, whole balance, " +
	"balance+1); oracle: whatever the call returns, the coin balances of sender, receiver and module account and the supply of every denomination of the pair are what they were; " +
	"control on a branch where the contract still exists: the same message converts exactly the amount (or fails for balance+1); non-trivial = the call reports success; " +
	"distinct by (direction, denominations, amount class, receiver, result)"

func runGone(t *rapid.T, r *rec.Recorder) {
	c := ibcChain()
	a := c.App
	ctx, _ := c.Ctx().CacheContext()
	modAcc := a.AccountKeeper.GetModuleAddress(aggregatetypes.ModuleName)
	mint := func(to sdk.AccAddress, coins sdk.Coins) {
		kit.Must(a.BankKeeper.MintCoins(ctx, aggregatetypes.ModuleName, coins), "mint")
		kit.Must(a.BankKeeper.SendCoins(ctx, modAcc, to, coins), "fund")
	}
	voucher := transfertypes.ParseDenomTrace("transfer/channel-6/c11gone").IBCDenom()
	user, other := c.Accounts[0], c.Accounts[1]
	have := sdk.NewInt(rapid.Int64Range(2, 100_000).Draw(t, "senderHolds"))
	mint(user.Acc, sdk.NewCoins(sdk.NewCoin(voucher, have.MulRaw(2))))
	md := banktypes.Metadata{Description: "voucher", Base: voucher, Display: voucher, Name: "c11gone via channel-6", Symbol: "ibcG",
		DenomUnits: []*banktypes.DenomUnit{{Denom: voucher, Exponent: 0}}}
	govDo(a, ctx, aggregatetypes.NewRegisterCoinProposal("c11", "c11", md), "RegisterCoin")
	pair, found := a.AggregateKeeper.GetTokenPair(ctx, a.AggregateKeeper.GetTokenPairID(ctx, voucher))
	if !found {
		kit.Failf("pair of %s not found", voucher)
	}
	token := pair.GetERC20Contract()
	denoms := []string{voucher}
	if rapid.Bool().Draw(t, "secondDenomination") {
		second := transfertypes.ParseDenomTrace("transfer/channel-78/c11gone2").IBCDenom()
		mint(user.Acc, sdk.NewCoins(sdk.NewCoin(second, have.MulRaw(2))))
		md2 := banktypes.Metadata{Description: "second", Base: second, Display: second, Name: "c11gone2 via channel-78", Symbol: "ibcH", DenomUnits: []*banktypes.DenomUnit{{Denom: second, Exponent: 0}}}
		govDo(a, ctx, aggregatetypes.NewAddCoinProposal("c11", "c11", md2, token.Hex()), "AddCoin")
		denoms = append(denoms, second)
	}
	denom := denoms[rapid.IntRange(0, len(denoms)-1).Draw(t, "denomination")]
	// earlier conversions: the sender holds tokens, the module an escrow
	earlier := rapid.Bool().Draw(t, "earlierConversion")
	toToken := rapid.Bool().Draw(t, "coinToToken")
	if earlier || !toToken {
		cctx, write := ctx.CacheContext()
		_, err := a.AggregateKeeper.ConvertCoin(sdk.WrapSDKContext(cctx), aggregatetypes.NewMsgConvertCoin(sdk.NewCoin(denom, have), user.Addr, user.Acc))
		kit.Must(err, "earlier ConvertCoin")
		write()
	}
	recv := user
	if rapid.Bool().Draw(t, "otherReceiver") {
		recv = other
	}
	srcBal := have // what the sender holds on the side it converts from
	if toToken {
		srcBal = a.BankKeeper.GetBalance(ctx, user.Acc, denom).Amount
	}
	amount, class := srcBal, "whole"
	switch rapid.IntRange(0, 3).Draw(t, "amountKind") {
	case 0:
		amount, class = sdk.OneInt(), "one"
	case 1:
		amount, class = sdk.NewInt(rapid.Int64Range(1, srcBal.Int64()).Draw(t, "part")), "part"
	case 2:
		amount, class = srcBal.AddRaw(1), "balance+1"
	}
	call := func(ctx sdk.Context) (err error) {
		cctx, write := ctx.CacheContext()
		func() {
			defer func() {
				if p := recover(); p != nil {
					err = fmt.Errorf("panic: %v", p)
				}
			}()
			if toToken {
				_, err = a.AggregateKeeper.ConvertCoin(sdk.WrapSDKContext(cctx), aggregatetypes.NewMsgConvertCoin(sdk.NewCoin(denom, amount), recv.Addr, user.Acc))
			} else {
				_, err = a.AggregateKeeper.ConvertERC20(sdk.WrapSDKContext(cctx), aggregatetypes.NewMsgConvertERC20(amount, recv.Acc, token, user.Addr, denom))
			}
		}()
		if err == nil {
			write()
		}
		return err
	}
	type snap map[string]sdk.Int
	take := func(ctx sdk.Context) snap {
		s := snap{}
		for _, d := range denoms {
			s["sender "+d] = a.BankKeeper.GetBalance(ctx, user.Acc, d).Amount
			s["other "+d] = a.BankKeeper.GetBalance(ctx, other.Acc, d).Amount
			s["module "+d] = a.BankKeeper.GetBalance(ctx, modAcc, d).Amount
			s["supply "+d] = a.BankKeeper.GetSupply(ctx, d).Amount
		}
		return s
	}
	dir := map[bool]string{true: "coin->token", false: "token->coin"}[toToken]
	what := fmt.Sprintf("%s of %s %s (pair with %d denominations, earlier conversion %v) by %s for %s", dir, amount, denom, len(denoms), earlier || !toToken, user.Acc, recv.Acc)
	r.Step()
	// control: with the contract in place the message converts exactly the amount (or is refused for balance+1)
	{
		bctx, _ := ctx.CacheContext()
		pre := take(bctx)
		err := call(bctx)
		post := take(bctx)
		recvKey := "other " + denom
		if recv.Acc.Equals(user.Acc) {
			recvKey = "sender " + denom
		}
		exact := post[recvKey].Sub(pre[recvKey]).Equal(amount)
		if toToken {
			exact = pre["sender "+denom].Sub(post["sender "+denom]).Equal(amount)
		}
		if class == "balance+1" {
			if err == nil {
				kit.Failf("control: conversion of more than the balance succeeded (%s)", what)
			}
		} else if err != nil || !exact {
			kit.Failf("control: conversion with the contract in place failed or did not move the amount (%s): %v", what, err)
		}
	}
	kit.Must(a.EvmKeeper.DeleteAccount(ctx, token), "remove the token contract account")
	pre := take(ctx)
	err := call(ctx)
	post := take(ctx)
	for k, v := range pre {
		if !post[k].Equal(v) {
			t.Fatalf("conversion on a pair whose token contract is gone (call returned: %v) changed %s from %s to %s - nobody can have received tokens for it: %s", err, k, v, post[k], what)
		}
	}
	res := "error"
	if err == nil {
		res = "success"
	}
	r.Label("gone_contract:" + dir + ":" + res)
	r.Case(fmt.Sprintf("%s|denoms=%d|%s|self=%v|%s", dir, len(denoms), class, recv.Acc.Equals(user.Acc), res), err == nil, func() interface{} { return what })
}

func TestC11_GoneContract(t *testing.T) {
	r := rec.For("TestC11_GoneContract", ruleGone)
	rapid.Check(t, func(t *rapid.T) { runGone(t, r) })
}
