// C19 — canonical loss-free packet encoding; injective, parseable store keys.
//
// model_test.go: value model of the five ABI-encoded types, an independent reference encoder and a
// strict reference decoder for the Solidity ABI layout (head/tail, 32-byte words), and equality.
//
// Equality choice (nil vs empty byte strings): the property says "returns the same value". A nil and
// an empty []byte are the same byte string: they have the same (only) ABI encoding (length word 0),
// protobuf treats them as equal, and every caller of the decoded fields tests len(...) (ValidateBasic,
// the endpoint contract). They are therefore compared as equal; the checks additionally assert that
// nil and empty encode to identical bytes, so the choice cannot hide an injectivity problem.
package c19

import (
	"bytes"
	"encoding/binary"
	"fmt"
	"os"
	"sort"
	"strings"
	"sync"
	"testing"
	"unicode/utf8"

	packettypes "github.com/teleport-network/teleport/x/xibc/core/packet/types"

	"verif/harness/rec"
)

func TestMain(m *testing.M) { rec.Main(m) }

// field is one tuple component: K is 's' (string), 'b' (bytes) or 'u' (uint64).
type field struct {
	K byte
	S string
	B []byte
	U uint64
}

func (f field) dyn() bool { return f.K != 'u' }

// raw returns the byte content of a dynamic field.
func (f field) raw() []byte {
	if f.K == 's' {
		return []byte(f.S)
	}
	return f.B
}

func (f field) withRaw(b []byte) field {
	if f.K == 's' {
		return field{K: 's', S: string(b)}
	}
	return field{K: 'b', B: append([]byte{}, b...)}
}

func fieldsEqual(a, b []field) bool {
	if len(a) != len(b) {
		return false
	}
	for i := range a {
		if a[i].K != b[i].K {
			return false
		}
		switch a[i].K {
		case 's':
			if a[i].S != b[i].S {
				return false
			}
		case 'b':
			if !bytes.Equal(a[i].B, b[i].B) { // nil == empty, see file comment
				return false
			}
		case 'u':
			if a[i].U != b[i].U {
				return false
			}
		}
	}
	return true
}

func cloneFields(a []field) []field {
	out := make([]field, len(a))
	for i, f := range a {
		out[i] = f
		if f.K == 'b' && f.B != nil {
			out[i].B = append([]byte{}, f.B...)
		}
	}
	return out
}

// sampled limits the rendered samples of one test to max, and to shard 0, so that the merged evidence
// (first 8 samples over all tests and shards) shows every test instead of eight cases of the first one.
var (
	sampleMu    sync.Mutex
	sampleCount = map[string]int{}
)

func sampled(test string, max int, f func() interface{}) func() interface{} {
	if sh := os.Getenv("VERIF_SHARD"); sh != "" && sh != "0" {
		return nil
	}
	sampleMu.Lock()
	defer sampleMu.Unlock()
	if sampleCount[test] >= max {
		return nil
	}
	return func() interface{} {
		sampleMu.Lock()
		sampleCount[test]++
		sampleMu.Unlock()
		return f()
	}
}

func clip(s string, n int) string {
	if len(s) <= n {
		return s
	}
	return s[:n] + fmt.Sprintf("…(+%d)", len(s)-n)
}

// render gives a short printable form of a value (samples and failure messages).
func render(c *codec, v []field) string {
	var parts []string
	for i, f := range v {
		switch f.K {
		case 's':
			parts = append(parts, fmt.Sprintf("%s=%s", c.names[i], clip(fmt.Sprintf("%+q", f.S), 90)))
		case 'b':
			if f.B == nil {
				parts = append(parts, fmt.Sprintf("%s=nil", c.names[i]))
			} else {
				parts = append(parts, fmt.Sprintf("%s=0x%s", c.names[i], clip(fmt.Sprintf("%x", f.B), 80)))
			}
		case 'u':
			parts = append(parts, fmt.Sprintf("%s=%d", c.names[i], f.U))
		}
	}
	return c.name + "{" + strings.Join(parts, " ") + "}"
}

// codec binds a value model to the encoder / decoder under test.
type codec struct {
	name  string
	kinds string   // one letter per tuple component, in Solidity struct order
	names []string // component names (for messages)
	enc   func(v []field) ([]byte, error)
	dec   func(bz []byte) ([]field, error)
}

// Component order. packet / ack / result orders are those of the packet contract's published ABI
// (syscontracts/xibc_packet/packet.json: sendPacket, OnAcknowledgePacket, onRecvPacket outputs).
// transfer / call orders are not in any published ABI; they are anchored by TestC19_ContractBytes,
// which decodes transfer and call data emitted by the deployed endpoint byte code and compares the
// fields with the arguments the contract was given.
var (
	codecPacket = &codec{name: "packet", kinds: "ssusbbsu",
		names: []string{"srcChain", "dstChain", "sequence", "sender", "transferData", "callData", "callbackAddress", "feeOption"},
		enc: func(v []field) ([]byte, error) {
			return packettypes.Packet{SrcChain: v[0].S, DstChain: v[1].S, Sequence: v[2].U, Sender: v[3].S,
				TransferData: v[4].B, CallData: v[5].B, CallbackAddress: v[6].S, FeeOption: v[7].U}.ABIPack()
		},
		dec: func(bz []byte) ([]field, error) {
			var p packettypes.Packet
			if err := p.ABIDecode(bz); err != nil {
				return nil, err
			}
			return packetFields(p), nil
		}}
	codecAck = &codec{name: "ack", kinds: "ubssu", names: []string{"code", "result", "message", "relayer", "feeOption"},
		enc: func(v []field) ([]byte, error) {
			return packettypes.Acknowledgement{Code: v[0].U, Result: v[1].B, Message: v[2].S, Relayer: v[3].S, FeeOption: v[4].U}.ABIPack()
		},
		dec: func(bz []byte) ([]field, error) {
			var a packettypes.Acknowledgement
			if err := a.ABIDecode(bz); err != nil {
				return nil, err
			}
			return []field{{K: 'u', U: a.Code}, {K: 'b', B: a.Result}, {K: 's', S: a.Message}, {K: 's', S: a.Relayer}, {K: 'u', U: a.FeeOption}}, nil
		}}
	codecResult = &codec{name: "result", kinds: "ubs", names: []string{"code", "result", "message"},
		enc: func(v []field) ([]byte, error) {
			return packettypes.Result{Code: v[0].U, Result: v[1].B, Message: v[2].S}.ABIPack()
		},
		dec: func(bz []byte) ([]field, error) {
			var a packettypes.Result
			if err := a.ABIDecode(bz); err != nil {
				return nil, err
			}
			return []field{{K: 'u', U: a.Code}, {K: 'b', B: a.Result}, {K: 's', S: a.Message}}, nil
		}}
	codecTransfer = &codec{name: "transfer", kinds: "ssbs", names: []string{"token", "oriToken", "amount", "receiver"},
		enc: func(v []field) ([]byte, error) {
			return (&packettypes.TransferData{Token: v[0].S, OriToken: v[1].S, Amount: v[2].B, Receiver: v[3].S}).ABIPack()
		},
		dec: func(bz []byte) ([]field, error) {
			var a packettypes.TransferData
			if err := a.ABIDecode(bz); err != nil {
				return nil, err
			}
			return transferFields(a), nil
		}}
	codecCall = &codec{name: "call", kinds: "sb", names: []string{"contractAddress", "callData"},
		enc: func(v []field) ([]byte, error) {
			return (&packettypes.CallData{ContractAddress: v[0].S, CallData: v[1].B}).ABIPack()
		},
		dec: func(bz []byte) ([]field, error) {
			var a packettypes.CallData
			if err := a.ABIDecode(bz); err != nil {
				return nil, err
			}
			return callFields(a), nil
		}}
	codecs      = []*codec{codecPacket, codecAck, codecResult, codecTransfer, codecCall}
	codecNames  = []string{"packet", "ack", "result", "transfer", "call"}
	codecByName = map[string]*codec{"packet": codecPacket, "ack": codecAck, "result": codecResult, "transfer": codecTransfer, "call": codecCall}
)

func packetFields(p packettypes.Packet) []field {
	return []field{{K: 's', S: p.SrcChain}, {K: 's', S: p.DstChain}, {K: 'u', U: p.Sequence}, {K: 's', S: p.Sender},
		{K: 'b', B: p.TransferData}, {K: 'b', B: p.CallData}, {K: 's', S: p.CallbackAddress}, {K: 'u', U: p.FeeOption}}
}

func transferFields(a packettypes.TransferData) []field {
	return []field{{K: 's', S: a.Token}, {K: 's', S: a.OriToken}, {K: 'b', B: a.Amount}, {K: 's', S: a.Receiver}}
}

func callFields(a packettypes.CallData) []field {
	return []field{{K: 's', S: a.ContractAddress}, {K: 'b', B: a.CallData}}
}

// ---------------------------------------------------------------------------------------------
// independent reference codec (Solidity ABI spec: abi.encode(struct) of a dynamic tuple)

func word(u uint64) []byte {
	w := make([]byte, 32)
	binary.BigEndian.PutUint64(w[24:], u)
	return w
}

// refEncode is the strict ABI encoding of one dynamic tuple argument.
func refEncode(v []field) []byte {
	head := make([]byte, 0, 32*len(v))
	var tail []byte
	for _, f := range v {
		if !f.dyn() {
			head = append(head, word(f.U)...)
			continue
		}
		head = append(head, word(uint64(32*len(v)+len(tail)))...)
		data := f.raw()
		tail = append(tail, word(uint64(len(data)))...)
		tail = append(tail, data...)
		if pad := (32 - len(data)%32) % 32; pad > 0 {
			tail = append(tail, make([]byte, pad)...)
		}
	}
	out := append(word(32), head...)
	return append(out, tail...)
}

func readWord(b []byte) (uint64, bool) {
	for _, x := range b[:24] {
		if x != 0 {
			return 0, false
		}
	}
	return binary.BigEndian.Uint64(b[24:32]), true
}

// refDecodeStrict accepts exactly the canonical encodings: outer offset 32, sequential tail
// offsets, minimal words, zero padding, no trailing bytes. ok=false for anything else.
func refDecodeStrict(kinds string, b []byte) (v []field, ok bool) {
	n := len(kinds)
	if len(b) < 32*(n+1) || len(b)%32 != 0 {
		return nil, false
	}
	if off, good := readWord(b[:32]); !good || off != 32 {
		return nil, false
	}
	t := b[32:]
	next := uint64(32 * n)
	for i := 0; i < n; i++ {
		w, good := readWord(t[32*i : 32*i+32])
		if !good {
			return nil, false
		}
		if kinds[i] == 'u' {
			v = append(v, field{K: 'u', U: w})
			continue
		}
		if w != next || next+32 > uint64(len(t)) {
			return nil, false
		}
		l, good := readWord(t[next : next+32])
		if !good || l > uint64(len(t)) {
			return nil, false
		}
		padded := (l + 31) / 32 * 32
		if next+32+padded > uint64(len(t)) {
			return nil, false
		}
		data := t[next+32 : next+32+l]
		for _, x := range t[next+32+l : next+32+padded] {
			if x != 0 {
				return nil, false
			}
		}
		if kinds[i] == 's' {
			v = append(v, field{K: 's', S: string(data)})
		} else {
			v = append(v, field{K: 'b', B: append([]byte{}, data...)})
		}
		next += 32 + padded
	}
	if next != uint64(len(t)) {
		return nil, false
	}
	return v, true
}

func allStringsValid(v []field) bool {
	for _, f := range v {
		if f.K == 's' && !utf8.ValidString(f.S) {
			return false
		}
	}
	return true
}

// ---------------------------------------------------------------------------------------------
// hostile-class bookkeeping

type classes map[string]struct{}

func (c classes) add(s string) { c[s] = struct{}{} }

func (c classes) list() []string {
	var out []string
	for k := range c {
		out = append(out, k)
	}
	sort.Strings(out)
	return out
}

func (c classes) key() string { return strings.Join(c.list(), ",") }

func classifyString(s string, c classes) {
	if len(s) == 0 {
		return
	}
	if len(s) >= 1000 {
		c.add("str:long>=1000")
	}
	if len(s) >= 60000 {
		c.add("str:very_long>=60000")
	}
	if len(s)%32 == 0 {
		c.add("str:len_multiple_of_32")
	}
	for _, r := range s {
		switch {
		case r == 0:
			c.add("str:U+0000")
		case r == 0x2028 || r == 0x2029:
			c.add("str:U+2028/9")
		case r == '<' || r == '>' || r == '&':
			c.add("str:html<>&")
		case r == '"' || r == '\\':
			c.add("str:json_meta")
		case r == 0xfffd:
			c.add("str:U+FFFD")
		case r < 0x20 || r == 0x7f:
			c.add("str:control")
		case r >= 0x10000:
			c.add("str:4byte_rune")
		case r >= 0x80:
			c.add("str:multibyte_rune")
		}
	}
}

func classifyBytes(b []byte, c classes) {
	switch {
	case b == nil:
		c.add("bytes:nil")
		return
	case len(b) == 0:
		c.add("bytes:empty")
		return
	}
	if !utf8.Valid(b) {
		c.add("bytes:non_utf8")
	}
	if len(b)%32 == 0 {
		c.add("bytes:len_multiple_of_32")
	}
	if b[len(b)-1] == 0 {
		c.add("bytes:trailing_zero")
	}
	if len(b) >= 1000 {
		c.add("bytes:long>=1000")
	}
	if len(b) >= 96 && len(b)%32 == 0 {
		if off, ok := readWord(b[:32]); ok && off == 32 {
			c.add("bytes:nested_abi")
		}
	}
}

func classifyUint(u uint64, c classes) {
	switch {
	case u == ^uint64(0):
		c.add("u64:max")
		c.add("u64:>=2^63")
	case u >= 1<<63:
		c.add("u64:>=2^63")
	case u > 1<<53:
		c.add("u64:>2^53")
	}
}

func classifyValue(v []field) classes {
	c := classes{}
	for _, f := range v {
		switch f.K {
		case 's':
			classifyString(f.S, c)
		case 'b':
			classifyBytes(f.B, c)
		case 'u':
			classifyUint(f.U, c)
		}
	}
	return c
}
