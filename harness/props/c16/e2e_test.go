// Driver A — end to end over real IBC: two Teleport chains connected by ibc-go's testing package.
// A packet is committed on the source chain (honest MsgTransfer, or raw packet data through the
// channel keeper as a faulty counterparty module would), the destination's light client is
// updated, MsgRecvPacket with a real commitment proof goes through DeliverTx and IBC core, and the
// acknowledgement store and the receiver's balances of the destination chain are inspected.
package c16

import (
	"fmt"
	"math/big"
	"strings"
	"testing"

	"github.com/cosmos/cosmos-sdk/simapp/helpers"
	sdk "github.com/cosmos/cosmos-sdk/types"
	transfertypes "github.com/cosmos/ibc-go/v3/modules/apps/transfer/types"
	clienttypes "github.com/cosmos/ibc-go/v3/modules/core/02-client/types"
	channeltypes "github.com/cosmos/ibc-go/v3/modules/core/04-channel/types"
	host "github.com/cosmos/ibc-go/v3/modules/core/24-host"
	ibctesting "github.com/cosmos/ibc-go/v3/testing"
	abci "github.com/tendermint/tendermint/abci/types"
	"pgregory.net/rapid"

	"github.com/teleport-network/teleport/app"
	aggregatetypes "github.com/teleport-network/teleport/x/aggregate/types"

	"verif/harness/kit"
	"verif/harness/rec"
)

const ruleE2E = "one ICS-20 packet per case relayed between two Teleport chains over real IBC (either direction; honest MsgTransfer or raw packet data committed through " +
	"the source channel keeper; denominations: registered at the destination with drawn pair/module switches, unregistered, returning native coin (registered natively), " +
	"returning evm-free native coin; receivers fresh/existing/zero/32-byte/blocked/distribution/invalid; amounts 1..2^128 and, for raw data, 0/negative/non-numeric/too big; malformed JSON); " +
	"oracle: acknowledgement committed by IBC core == CommitAcknowledgement(ack of the bare transfer app on a branch of the pre-state) and the either/or conversion clause on committed balances; " +
	"non-trivial = successful receive of a denomination registered with pair and module enabled; distinct by (direction, mode, denomination, switches, receiver kind, amount class, outcome)"

const (
	dReg   = "c16reg"   // native on the source, its voucher is registered on the destination
	dUnreg = "c16unreg" // native on the source, never registered on the destination
	dRet   = "c16ret"   // native on the DESTINATION (registered there as a native coin pair), held as voucher on the source
)

type e2eEnv struct {
	coord  *ibctesting.Coordinator
	chains [2]*ibctesting.TestChain
	eps    [2]*ibctesting.Endpoint
	apps   [2]*app.Teleport
}

func (e *e2eEnv) sender(i int) sdk.AccAddress { return e.chains[i].SenderAccount.GetAddress() }

// fix gives the open block of both chains a proposer, as every real Tendermint block has one
// (ibctesting leaves it empty; Ethermint resolves the EVM coinbase from it, so without it every EVM
// call - hence every conversion - would fail for a reason that does not exist on a live chain).
func (e *e2eEnv) fix() {
	for _, ch := range e.chains {
		if ch != nil && len(ch.CurrentHeader.ProposerAddress) == 0 {
			ch.CurrentHeader.ProposerAddress = ch.Vals.Proposer.Address
		}
	}
}

// ctx is the deliver-state context of chain i's open block.
func (e *e2eEnv) ctx(i int) sdk.Context {
	e.fix()
	return e.chains[i].GetContext()
}

func (e *e2eEnv) commit(i int) {
	e.coord.CommitBlock(e.chains[i])
	e.fix()
}

// newE2E builds the two chains and the transfer channel on the real *testing.T (ibc-go's testing
// package uses testify/require internally), outside any rapid property.
func newE2E(t *testing.T) *e2eEnv {
	ibctesting.DefaultTestingAppInit = app.SetupTestingApp
	coord := &ibctesting.Coordinator{T: t, CurrentTime: kit.Epoch, Chains: map[string]*ibctesting.TestChain{}}
	e := &e2eEnv{coord: coord}
	for i, id := range []string{"teleport_9000-1", "teleport_9001-1"} {
		ch := ibctesting.NewTestChain(t, coord, id)
		coord.Chains[id] = ch
		e.chains[i] = ch
		e.apps[i] = ch.App.(*app.Teleport)
	}
	path := ibctesting.NewPath(e.chains[0], e.chains[1])
	path.EndpointA.ChannelConfig.PortID = ibctesting.TransferPort
	path.EndpointB.ChannelConfig.PortID = ibctesting.TransferPort
	path.EndpointA.ChannelConfig.Version = transfertypes.Version
	path.EndpointB.ChannelConfig.Version = transfertypes.Version
	coord.Setup(path)
	e.eps = [2]*ibctesting.Endpoint{path.EndpointA, path.EndpointB}

	big30, _ := sdk.NewIntFromString("1000000000000000000000000000000000000000000000000000000") // 1e54
	for i := 0; i < 2; i++ {
		mintTo(e.apps[i], e.ctx(i), e.sender(i), sdk.NewCoins(sdk.NewCoin(dReg, big30), sdk.NewCoin(dUnreg, big30), sdk.NewCoin(dRet, big30)))
		e.commit(i)
	}
	// seed: vouchers of dReg exist on the other side (RegisterCoin needs a supply), dRet vouchers are held by the other side's sender
	seedAmt, _ := sdk.NewIntFromString("1000000000000000000000000000000000000000000000000") // 1e48
	for i := 0; i < 2; i++ {
		j := 1 - i
		for _, c := range []sdk.Coin{sdk.NewInt64Coin(dReg, 1000), sdk.NewCoin(dRet, seedAmt)} {
			p := e.sendTransfer(i, c, e.sender(j).String())
			e.updateClient(j)
			if _, err := e.recv(j, p); err != nil {
				kit.Failf("seed transfer: %v", err)
			}
		}
	}
	for j := 0; j < 2; j++ {
		ctx := e.ctx(j)
		_, err := registerCoin(e.apps[j], ctx, voucherDenom(e.eps[j].ChannelConfig.PortID, e.eps[j].ChannelID, dReg))
		kit.Must(err, "register voucher of "+dReg)
		_, err = registerCoin(e.apps[j], ctx, dRet)
		kit.Must(err, "register native "+dRet)
		e.commit(j)
	}
	return e
}

// deliver runs one transaction in its own block (what ibctesting's SendMsgs does, without require).
func (e *e2eEnv) deliver(i int, msgs ...sdk.Msg) (*sdk.Result, error) {
	ch := e.chains[i]
	e.fix()
	e.coord.UpdateTimeForChain(ch)
	acc := e.apps[i].AccountKeeper.GetAccount(ch.GetContext(), ch.SenderAccount.GetAddress())
	tx, err := helpers.GenTx(ch.TxConfig, msgs, sdk.Coins{sdk.NewInt64Coin(sdk.DefaultBondDenom, 0)}, helpers.DefaultGenTxGas*10,
		ch.ChainID, []uint64{acc.GetAccountNumber()}, []uint64{acc.GetSequence()}, ch.SenderPrivKey)
	kit.Must(err, "GenTx")
	ch.App.BeginBlock(abci.RequestBeginBlock{Header: ch.GetContext().BlockHeader()})
	_, res, derr := ch.App.GetBaseApp().Deliver(ch.TxConfig.TxEncoder(), tx)
	ch.App.EndBlock(abci.RequestEndBlock{})
	ch.App.Commit()
	ch.NextBlock()
	e.fix()
	after := e.apps[i].AccountKeeper.GetAccount(ch.GetContext(), ch.SenderAccount.GetAddress())
	kit.Must(ch.SenderAccount.SetSequence(after.GetSequence()), "sequence")
	e.coord.IncrementTime()
	return res, derr
}

func (e *e2eEnv) timeoutHeight(dst int) clienttypes.Height {
	return clienttypes.NewHeight(clienttypes.ParseChainID(e.chains[dst].ChainID), 100_000_000)
}

// sendTransfer sends an honest MsgTransfer on chain i and returns the packet core committed.
func (e *e2eEnv) sendTransfer(i int, coin sdk.Coin, receiver string) channeltypes.Packet {
	msg := transfertypes.NewMsgTransfer(e.eps[i].ChannelConfig.PortID, e.eps[i].ChannelID, coin, e.sender(i).String(), receiver, e.timeoutHeight(1-i), 0)
	res, err := e.deliver(i, msg)
	if err != nil {
		kit.Failf("MsgTransfer of %s on %s failed: %v", coin, e.chains[i].ChainID, err)
	}
	p, err := ibctesting.ParsePacketFromEvents(res.GetEvents())
	kit.Must(err, "packet from events")
	return p
}

// sendRaw commits arbitrary packet data on chain i's end of the channel (a counterparty module is
// not bound to produce valid ICS-20 data).
func (e *e2eEnv) sendRaw(i int, data []byte) channeltypes.Packet {
	ch, ep, cp := e.chains[i], e.eps[i], e.eps[1-i]
	ctx := e.ctx(i)
	seq, ok := ch.App.GetIBCKeeper().ChannelKeeper.GetNextSequenceSend(ctx, ep.ChannelConfig.PortID, ep.ChannelID)
	if !ok {
		kit.Failf("no next sequence send")
	}
	p := channeltypes.NewPacket(data, seq, ep.ChannelConfig.PortID, ep.ChannelID, cp.ChannelConfig.PortID, cp.ChannelID, e.timeoutHeight(1-i), 0)
	capability, ok := ch.App.GetScopedIBCKeeper().GetCapability(ctx, host.ChannelCapabilityPath(ep.ChannelConfig.PortID, ep.ChannelID))
	if !ok {
		kit.Failf("no channel capability")
	}
	kit.Must(ch.App.GetIBCKeeper().ChannelKeeper.SendPacket(ctx, capability, p), "raw SendPacket")
	e.commit(i)
	return p
}

// updateClient brings chain j's light client of the other chain to that chain's latest block.
func (e *e2eEnv) updateClient(j int) {
	src := e.chains[1-j]
	e.commit(1 - j) // the header that carries the app hash after the packet's block
	hdr, err := e.chains[j].ConstructUpdateTMClientHeader(src, e.eps[j].ClientID)
	kit.Must(err, "construct header")
	msg, err := clienttypes.NewMsgUpdateClient(e.eps[j].ClientID, hdr, e.sender(j).String())
	kit.Must(err, "MsgUpdateClient")
	if _, err := e.deliver(j, msg); err != nil {
		kit.Failf("MsgUpdateClient on %s: %v", e.chains[j].ChainID, err)
	}
}

// recv relays the packet to chain j with a real commitment proof.
func (e *e2eEnv) recv(j int, p channeltypes.Packet) (*sdk.Result, error) {
	key := host.PacketCommitmentKey(p.GetSourcePort(), p.GetSourceChannel(), p.GetSequence())
	proof, height := e.chains[1-j].QueryProof(key)
	return e.deliver(j, channeltypes.NewMsgRecvPacket(p, proof, height, e.sender(j).String()))
}

func (e *e2eEnv) run(t *rapid.T, r *rec.Recorder) {
	i := rapid.IntRange(0, 1).Draw(t, "sourceChain")
	j := 1 - i
	src, dst := e.apps[i], e.apps[j]
	dstPort, dstCh := e.eps[j].ChannelConfig.PortID, e.eps[j].ChannelID
	srcPort, srcCh := e.eps[i].ChannelConfig.PortID, e.eps[i].ChannelID
	_ = src

	mode := rapid.SampledFrom([]string{"msg", "msg", "raw"}).Draw(t, "mode")
	dk := rapid.SampledFrom([]string{dReg, dReg, dReg, dUnreg, dRet}).Draw(t, "denomination")
	moduleOn := rapid.IntRange(0, 5).Draw(t, "moduleEnabled") != 0
	pairOn := rapid.IntRange(0, 4).Draw(t, "pairEnabled") != 0
	existing := []sdk.AccAddress{e.sender(j), e.chains[j].SenderAccounts[1].SenderAccount.GetAddress()}
	recv := genReceiver(t, existing, mode == "raw", true)
	amt := genAmount(t, mode == "msg", false, new(big.Int).Exp(big.NewInt(10), big.NewInt(40), nil))

	// ---- force the drawn registry switches on the destination (committed with the next block)
	dctx := e.ctx(j)
	setModuleEnabled(dst, dctx, true)
	regVoucher := voucherDenom(dstPort, dstCh, dReg)
	for _, d := range []string{regVoucher, dRet} {
		p, ok := pairOf(dst, dctx, d)
		if !ok {
			kit.Failf("pair of %s missing on %s", d, e.chains[j].ChainID)
		}
		if p.Enabled != pairOn {
			kit.Must(toggleRelay(dst, dctx, d), "toggle")
		}
	}
	setModuleEnabled(dst, dctx, moduleOn)
	regLabel := fmt.Sprintf("%s(pair=%v,module=%v)", dk, pairOn, moduleOn)
	if dk == dUnreg {
		regLabel = fmt.Sprintf("%s(module=%v)", dk, moduleOn)
	}

	// ---- commit the packet on the source
	var packet channeltypes.Packet
	enc := "canonical"
	dataDenom := dk
	if dk == dRet {
		dataDenom = transfertypes.GetDenomPrefix(srcPort, srcCh) + dRet
	}
	if mode == "msg" {
		onSrc := dk
		if dk == dRet {
			onSrc = voucherDenom(srcPort, srcCh, dRet)
		}
		amount, _ := sdk.NewIntFromString(amt.Str)
		packet = e.sendTransfer(i, sdk.NewCoin(onSrc, amount), recv.Str)
	} else {
		data := transfertypes.NewFungibleTokenPacketData(dataDenom, amt.Str, e.sender(i).String(), recv.Str)
		var bz []byte
		enc, bz = packetDataBytes(t, data, true)
		if len(bz) == 0 {
			bz, enc = []byte(" "), "blank" // core refuses empty packet data
		}
		packet = e.sendRaw(i, bz)
	}
	e.updateClient(j)

	// ---- reference: the bare transfer application on a branch of the destination's pre-state
	dctx = e.ctx(j)
	ctxT, _ := dctx.CacheContext()
	bare := onRecv(bareTransfer(dst), ctxT, packet, e.sender(j))
	credited, returning := creditedDenom(packet, dataDenom)
	var pair *aggregatetypes.TokenPair
	var pre snap
	amount := sdk.ZeroInt()
	if bare.Success {
		if recv.Acc == nil {
			kit.Failf("reference succeeded with receiver %q", recv.Str)
		}
		if p, ok := pairOf(dst, dctx, credited); ok {
			pair = &p
		}
		pre = takeSnap(dst, dctx, recv.Acc, credited, pair)
		amount, _ = sdk.NewIntFromString(amt.Str)
	}

	preBal := sdk.ZeroInt()
	balObservable := recv.Acc != nil && sdk.ValidateDenom(credited) == nil
	if balObservable {
		preBal = dst.BankKeeper.GetBalance(dctx, recv.Acc, credited).Amount
	}

	// ---- through IBC core
	_, rerr := e.recv(j, packet)
	log := caseLog{Driver: fmt.Sprintf("e2e %s->%s %s", e.chains[i].ChainID, e.chains[j].ChainID, mode),
		Packet: fmt.Sprintf("%s/%s -> %s/%s #%d", srcPort, srcCh, dstPort, dstCh, packet.Sequence), Data: printable(packet.Data), Encoding: enc,
		Registry: regLabel, Receiver: recv.Kind, Amount: amt.Class, Credited: credited, Returning: returning, Bare: bare}
	post := e.ctx(j)
	stored, found := dst.IBCKeeper.ChannelKeeper.GetPacketAcknowledgement(post, dstPort, dstCh, packet.Sequence)
	_, received := dst.IBCKeeper.ChannelKeeper.GetPacketReceipt(post, dstPort, dstCh, packet.Sequence)
	log.Middle = map[string]interface{}{"tx_error": fmt.Sprint(rerr), "receipt": received, "ack_committed": found}

	outcome := ""
	switch {
	case bare.Panicked != "":
		outcome = "panic-both"
		if rerr == nil {
			t.Fatalf("bare transfer app panics (%s) but MsgRecvPacket succeeded\n%s", bare.Panicked, log)
		}
	case rerr != nil:
		t.Fatalf("MsgRecvPacket failed (%v) where the bare transfer app acknowledges %+v\n%s", rerr, bare, log)
	case !received:
		kit.Failf("MsgRecvPacket succeeded without a receipt\n%s", log)
	case bare.Success && !found && nilAckListed():
		r.Exclude(keyNilAck) // known finding: no acknowledgement is committed for a successful receive
	case !found:
		t.Fatalf("no acknowledgement committed for the packet; the transfer app acknowledges %+v\n%s", bare, log)
	default:
		want := channeltypes.CommitAcknowledgement([]byte(bare.Bytes))
		if string(stored) != string(want) {
			t.Fatalf("committed acknowledgement %x differs from the commitment %x of the transfer app's %s\n%s", stored, want, bare.Bytes, log)
		}
	}

	nontrivial := false
	if bare.Panicked == "" && !bare.Success {
		outcome = "error-ack"
		// IBC core discards the callback's state on an error acknowledgement
		if balObservable && !dst.BankKeeper.GetBalance(post, recv.Acc, credited).Amount.Equal(preBal) {
			t.Fatalf("receiver's balance moved although the transfer failed\n%s", log)
		}
	}
	if bare.Panicked == "" && bare.Success {
		o, facts := conversionOutcome(pre, takeSnap(dst, post, recv.Acc, credited, pair), amount, pair, !returning)
		log.Facts = facts
		if o == "" {
			t.Fatalf("conversion neither complete nor untouched: %s\n%s", facts, log)
		}
		outcome = "ok-" + o
		attempted := pair != nil && pair.Enabled && moduleOn
		nontrivial = attempted
		if attempted && o == outUntouched {
			outcome = "ok-untouched-though-enabled"
		}
		if o == outConverted && !attempted {
			r.Label("converted-although-disabled")
		}
	}
	log.Outcome = outcome
	r.Label(fmt.Sprintf("reg=%s|recv=%s|amt=%s|out=%s", regLabel, recv.Kind, amt.Class, outcome))
	r.Label("outcome=" + outcome)
	r.Label(fmt.Sprintf("mode=%s|dir=%d->%d|out=%s", mode, i, j, outcome))
	r.Case(strings.Join([]string{fmt.Sprint(i), mode, regLabel, recv.Kind, amt.Class, enc, outcome}, "|"), nontrivial, func() interface{} { return log })
}

func TestC16_E2E(t *testing.T) {
	r := rec.For("TestC16_E2E", ruleE2E)
	e := newE2E(t)
	rapid.Check(t, func(t *rapid.T) { e.run(t, r) })
}
