package c17

import (
	"fmt"
	"math"
	"math/big"
	"strings"

	sdk "github.com/cosmos/cosmos-sdk/types"
	distrtypes "github.com/cosmos/cosmos-sdk/x/distribution/types"
	govtypes "github.com/cosmos/cosmos-sdk/x/gov/types"
	stakingtypes "github.com/cosmos/cosmos-sdk/x/staking/types"

	ethabi "github.com/ethereum/go-ethereum/accounts/abi"
	"github.com/ethereum/go-ethereum/common"

	"verif/harness/kit"
)

// The ABI is written down here from contracts_src/Staking.sol and Gov.sol (not taken from the
// repo's generated bindings), so that calldata and look-alike event payloads are built independently.
const stakingABIJSON = `[
 {"type":"function","name":"delegate","stateMutability":"nonpayable","outputs":[],"inputs":[{"name":"validator","type":"string"},{"name":"amount","type":"uint256"}]},
 {"type":"function","name":"undelegate","stateMutability":"nonpayable","outputs":[],"inputs":[{"name":"validator","type":"string"},{"name":"amount","type":"uint256"}]},
 {"type":"function","name":"redelegate","stateMutability":"nonpayable","outputs":[],"inputs":[{"name":"validatorSrc","type":"string"},{"name":"validatorDest","type":"string"},{"name":"amount","type":"uint256"}]},
 {"type":"function","name":"withdraw","stateMutability":"nonpayable","outputs":[],"inputs":[{"name":"validator","type":"string"}]},
 {"type":"event","name":"Delegated","anonymous":false,"inputs":[{"indexed":false,"name":"delegator","type":"address"},{"indexed":false,"name":"validator","type":"string"},{"indexed":false,"name":"amount","type":"uint256"}]},
 {"type":"event","name":"Undelegated","anonymous":false,"inputs":[{"indexed":false,"name":"delegator","type":"address"},{"indexed":false,"name":"validator","type":"string"},{"indexed":false,"name":"amount","type":"uint256"}]},
 {"type":"event","name":"Redelegated","anonymous":false,"inputs":[{"indexed":false,"name":"delegator","type":"address"},{"indexed":false,"name":"validatorSrc","type":"string"},{"indexed":false,"name":"validatorDest","type":"string"},{"indexed":false,"name":"amount","type":"uint256"}]},
 {"type":"event","name":"Withdrew","anonymous":false,"inputs":[{"indexed":false,"name":"delegator","type":"address"},{"indexed":false,"name":"validator","type":"string"}]}
]`

const govABIJSON = `[
 {"type":"function","name":"vote","stateMutability":"nonpayable","outputs":[],"inputs":[{"name":"proposalID","type":"uint64"},{"name":"voteOption","type":"uint32"}]},
 {"type":"function","name":"vote","stateMutability":"nonpayable","outputs":[],"inputs":[{"name":"proposalID","type":"uint64"},{"name":"options","type":"tuple[]","components":[{"name":"option","type":"uint32"},{"name":"weight","type":"uint64"}]}]},
 {"type":"event","name":"Voted","anonymous":false,"inputs":[{"indexed":false,"name":"voter","type":"address"},{"indexed":false,"name":"proposalID","type":"uint64"},{"indexed":false,"name":"voteOption","type":"uint32"}]},
 {"type":"event","name":"VotedWeighted","anonymous":false,"inputs":[{"indexed":false,"name":"voter","type":"address"},{"indexed":false,"name":"proposalID","type":"uint64"},{"indexed":false,"name":"options","type":"tuple[]","components":[{"name":"option","type":"uint32"},{"name":"weight","type":"uint64"}]}]}
]`

var (
	stakingABI = mustABI(stakingABIJSON)
	govABI     = mustABI(govABIJSON)

	stakingAddr = common.HexToAddress("0x0000000000000000000000000000000010000001")
	govAddr     = common.HexToAddress("0x0000000000000000000000000000000010000002")
)

func mustABI(s string) ethabi.ABI {
	a, err := ethabi.JSON(strings.NewReader(s))
	kit.Must(err, "abi json")
	return a
}

// OW is one weighted option as the Gov contract takes it (weight in percent).
type OW struct {
	Option uint32 `abi:"option" json:"o"`
	Weight uint64 `abi:"weight" json:"w"`
}

// action is one staking / governance request as a caller passes it to a system contract.
type action struct {
	Sys      string   `json:"sys"`    // "staking" | "gov"
	Method   string   `json:"method"` // delegate undelegate redelegate withdraw vote voteWeighted
	Val      string   `json:"val,omitempty"`
	Val2     string   `json:"val2,omitempty"`
	Amount   *big.Int `json:"amount,omitempty"`
	Proposal uint64   `json:"proposal,omitempty"`
	Option   uint32   `json:"option,omitempty"`
	Weighted []OW     `json:"weighted,omitempty"`
	Class    string   `json:"class"` // generator classes of the arguments (evidence only)
}

func (a *action) sysAddr() common.Address {
	if a.Sys == "gov" {
		return govAddr
	}
	return stakingAddr
}

// calldata packs the call of the system contract method.
func (a *action) calldata() []byte {
	var bz []byte
	var err error
	switch a.Method {
	case "delegate", "undelegate":
		bz, err = stakingABI.Pack(a.Method, a.Val, a.Amount)
	case "redelegate":
		bz, err = stakingABI.Pack("redelegate", a.Val, a.Val2, a.Amount)
	case "withdraw":
		bz, err = stakingABI.Pack("withdraw", a.Val)
	case "vote":
		bz, err = govABI.Pack("vote", a.Proposal, a.Option)
	case "voteWeighted":
		ows := a.Weighted
		if ows == nil {
			ows = []OW{}
		}
		bz, err = govABI.Pack("vote0", a.Proposal, ows)
	default:
		kit.Failf("method %q", a.Method)
	}
	kit.Must(err, "pack "+a.Method)
	return bz
}

// eventLog returns topic0 and data of the event the system contract emits for this action when
// called by `sender` — used to emit byte-identical look-alikes from other addresses.
func (a *action) eventLog(sender common.Address) (common.Hash, []byte) {
	var ev ethabi.Event
	var bz []byte
	var err error
	switch a.Method {
	case "delegate":
		ev = stakingABI.Events["Delegated"]
		bz, err = ev.Inputs.Pack(sender, a.Val, a.Amount)
	case "undelegate":
		ev = stakingABI.Events["Undelegated"]
		bz, err = ev.Inputs.Pack(sender, a.Val, a.Amount)
	case "redelegate":
		ev = stakingABI.Events["Redelegated"]
		bz, err = ev.Inputs.Pack(sender, a.Val, a.Val2, a.Amount)
	case "withdraw":
		ev = stakingABI.Events["Withdrew"]
		bz, err = ev.Inputs.Pack(sender, a.Val)
	case "vote":
		ev = govABI.Events["Voted"]
		bz, err = ev.Inputs.Pack(sender, a.Proposal, a.Option)
	case "voteWeighted":
		ev = govABI.Events["VotedWeighted"]
		ows := a.Weighted
		if ows == nil {
			ows = []OW{}
		}
		bz, err = ev.Inputs.Pack(sender, a.Proposal, ows)
	}
	kit.Must(err, "pack event "+a.Method)
	return ev.ID, bz
}

// nativeMsg is the Cosmos message that means the same as the action when `signer` asks for it.
// ok=false: the request has no native representation at all (must therefore fail).
func (a *action) nativeMsg(signer common.Address) (sdk.Msg, bool) {
	who := sdk.AccAddress(signer.Bytes()).String()
	coin := func() sdk.Coin {
		return sdk.Coin{Denom: sdk.DefaultBondDenom, Amount: sdk.NewIntFromBigInt(new(big.Int).Set(a.Amount))}
	}
	switch a.Method {
	case "delegate":
		return &stakingtypes.MsgDelegate{DelegatorAddress: who, ValidatorAddress: a.Val, Amount: coin()}, true
	case "undelegate":
		return &stakingtypes.MsgUndelegate{DelegatorAddress: who, ValidatorAddress: a.Val, Amount: coin()}, true
	case "redelegate":
		return &stakingtypes.MsgBeginRedelegate{DelegatorAddress: who, ValidatorSrcAddress: a.Val, ValidatorDstAddress: a.Val2, Amount: coin()}, true
	case "withdraw":
		return &distrtypes.MsgWithdrawDelegatorReward{DelegatorAddress: who, ValidatorAddress: a.Val}, true
	case "vote":
		if a.Option > math.MaxInt32 {
			return nil, false
		}
		return &govtypes.MsgVote{ProposalId: a.Proposal, Voter: who, Option: govtypes.VoteOption(int32(a.Option))}, true
	case "voteWeighted":
		var opts []govtypes.WeightedVoteOption
		for _, ow := range a.Weighted {
			if ow.Option > math.MaxInt32 {
				return nil, false
			}
			// weight is a percentage with two decimal places: exact decimal, no wrap-around
			w := sdk.NewDecFromBigIntWithPrec(new(big.Int).SetUint64(ow.Weight), 2)
			opts = append(opts, govtypes.WeightedVoteOption{Option: govtypes.VoteOption(int32(ow.Option)), Weight: w})
		}
		return &govtypes.MsgVoteWeighted{ProposalId: a.Proposal, Voter: who, Options: opts}, true
	}
	kit.Failf("method %q", a.Method)
	return nil, false
}

// ---------------------------------------------------------------------------------------------
// call-tree model: who is msg.sender / address(this) at every frame, which frames revert

type node struct {
	Kind   string // "sys" "clone" "emitter" "proxy" "dproxy" "script"
	Code   []byte // clone: the system contract's runtime code
	Sys    string // for sys: "staking" | "gov"
	Addr   common.Address
	Target *node // proxy, dproxy
	Ops    []sop // script
	Name   string
}

type sop struct {
	Kind    string // "call" "dcall" "log" "revert"
	Target  *node
	Try     bool
	Payload payload
}

// payload is what a frame receives as calldata.
type payload struct {
	Act    *action        // a well-formed system-contract call (nil otherwise)
	Raw    []byte         // malformed / foreign calldata (when Act == nil and Look == nil)
	Look   *action        // look-alike event payload for an Emitter / script LOG
	Victim common.Address // claimed delegator / voter of the look-alike
	Value  bool           // the call carries value 1 (system contracts are non-payable)
}

func (p payload) bytes() []byte {
	switch {
	case p.Act != nil:
		return p.Act.calldata()
	case p.Look != nil:
		t0, data := p.Look.eventLog(p.Victim)
		return append(t0.Bytes(), data...)
	}
	return p.Raw
}

// emitted is one log the model expects in the receipt.
type emitted struct {
	Addr   common.Address // address(this) of the emitting frame
	Sender common.Address // msg.sender of the emitting frame
	Act    *action        // the request carried by the event
	Look   bool           // emitted by Emitter code / script LOG (never by system contract code)
	Victim common.Address // look-alike: the delegator / voter the forged payload names
	Path   string         // caller shape, e.g. "eoa>proxy>proxy>sys"
}

// exec interprets node n running with address(this)=self, msg.sender=sender.
func exec(n *node, self, sender common.Address, in payload, path string) (bool, []emitted) {
	switch n.Kind {
	case "sys", "clone":
		// compiled Solidity: non-payable, unknown selector / short calldata revert
		if in.Value || in.Act == nil || in.Act.Sys != n.Sys {
			return false, nil
		}
		return true, []emitted{{Addr: self, Sender: sender, Act: in.Act, Path: path + ">" + n.Kind + ":" + n.Sys}}
	case "emitter":
		if in.Look == nil {
			kit.Failf("emitter without look-alike payload")
		}
		return true, []emitted{{Addr: self, Sender: sender, Act: in.Look, Look: true, Victim: in.Victim, Path: path + ">emitter"}}
	case "proxy":
		return exec(n.Target, n.Target.Addr, self, in, path+">proxy")
	case "dproxy":
		return exec(n.Target, self, sender, in, path+">dproxy")
	case "script":
		var out []emitted
		for _, op := range n.Ops {
			switch op.Kind {
			case "call", "dcall":
				var ok bool
				var evs []emitted
				if op.Kind == "call" {
					ok, evs = exec(op.Target, op.Target.Addr, self, op.Payload, path+">script")
				} else {
					ok, evs = exec(op.Target, self, sender, op.Payload, path+">script.d")
				}
				if !ok {
					if op.Try {
						continue
					}
					return false, nil
				}
				out = append(out, evs...)
			case "log":
				out = append(out, emitted{Addr: self, Sender: sender, Act: op.Payload.Look, Look: true, Victim: op.Payload.Victim, Path: path + ">script.log"})
			case "revert":
				return false, nil
			}
		}
		return true, out
	}
	kit.Failf("node kind %q", n.Kind)
	return false, nil
}

// nativeEffects are the events that must turn into native actions: emitted by the system contract
// address itself. Everything else must have no native effect.
func nativeEffects(evs []emitted) []emitted {
	var out []emitted
	for _, e := range evs {
		if e.Act != nil && e.Addr == e.Act.sysAddr() && !e.Look {
			out = append(out, e)
		}
	}
	return out
}

func (n *node) describe() string {
	switch n.Kind {
	case "sys":
		return n.Sys
	case "clone":
		return "clone:" + n.Sys
	case "emitter":
		return "emitter"
	case "proxy", "dproxy":
		return n.Kind + ">" + n.Target.describe()
	case "script":
		var ops []string
		for _, op := range n.Ops {
			s := op.Kind
			if op.Try {
				s += "?"
			}
			if op.Target != nil {
				s += ":" + op.Target.describe()
			}
			if op.Payload.Act != nil {
				s += "(" + op.Payload.Act.Method + ")"
			} else if op.Payload.Look != nil {
				s += "(look " + op.Payload.Look.Method + ")"
			}
			ops = append(ops, s)
		}
		return fmt.Sprintf("script[%s]", strings.Join(ops, "; "))
	}
	return n.Kind
}
