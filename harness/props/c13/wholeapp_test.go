package c13

import (
	"bytes"
	"encoding/json"
	"fmt"
	"strings"
	"testing"
	"time"

	abci "github.com/tendermint/tendermint/abci/types"
	"github.com/tendermint/tendermint/libs/log"
	tmproto "github.com/tendermint/tendermint/proto/tendermint/types"
	dbm "github.com/tendermint/tm-db"
	"pgregory.net/rapid"

	"github.com/cosmos/cosmos-sdk/simapp"
	sdk "github.com/cosmos/cosmos-sdk/types"
	"github.com/tharsis/ethermint/encoding"

	"github.com/teleport-network/teleport/app"
	"github.com/teleport-network/teleport/x/xibc/core/host"

	"verif/harness/kit"
	"verif/harness/rec"
	"verif/harness/sim/bridge"
)

// restart exports the whole application state of c (app.ExportAppStateAndValidators, as `teleport
// export` does) and starts a new application instance from it with InitChain.
func restart(c *kit.Chain) (fresh *kit.Chain, ctx sdk.Context, appState map[string]json.RawMessage, problem string) {
	var exp struct {
		state []byte
		cp    *abci.ConsensusParams
		h     int64
	}
	if pm := caught(func() {
		e, err := c.App.ExportAppStateAndValidators(false, nil)
		kit.Must(err, "ExportAppStateAndValidators")
		exp.state, exp.cp, exp.h = e.AppState, e.ConsensusParams, e.Height
	}); pm != "" {
		return nil, sdk.Context{}, nil, "whole-app export panicked: " + pm
	}
	kit.Must(json.Unmarshal(exp.state, &appState), "app state json")
	tp := app.NewTeleport(log.NewNopLogger(), dbm.NewMemDB(), nil, true, map[int64]bool{}, app.DefaultNodeHome, 5,
		encoding.MakeConfig(app.ModuleBasics), simapp.EmptyAppOptions{})
	if pm := caught(func() {
		tp.InitChain(abci.RequestInitChain{ChainId: c.ChainID, Validators: []abci.ValidatorUpdate{}, ConsensusParams: exp.cp,
			AppStateBytes: exp.state, Time: c.Now, InitialHeight: exp.h})
	}); pm != "" {
		return nil, sdk.Context{}, appState, "InitChain on the exported app state panicked: " + pm
	}
	fresh = &kit.Chain{App: tp, ChainID: c.ChainID, TxConfig: c.TxConfig}
	return fresh, tp.BaseApp.NewContext(false, tmproto.Header{ChainID: c.ChainID, Height: exp.h, Time: c.Now}), appState, ""
}

// wholeApp evaluates the property along the whole-application path on the committed state of c.
func wholeApp(c *kit.Chain, tol tolerance) *violation {
	c.Commit(5 * time.Second)
	dump0 := moduleDump(c, c.Ctx())
	fresh, fctx, appState, problem := restart(c)
	if problem != "" {
		if tol.ethValidate && strings.Contains(problem, ethTypeErr) {
			tol.count(keyEthConsType, 1)
			return nil // InitChain itself does not validate; kept for completeness
		}
		return &violation{"whole-app", problem}
	}
	g := map[string]json.RawMessage{}
	for _, m := range moduleNames {
		g[m] = appState[m]
	}
	for _, m := range moduleNames {
		if err := validateModules(c, g)[m]; err != nil {
			if m == host.ModuleName && tol.ethValidate && err.Error() == ethTypeErr {
				tol.count(keyEthConsType, 1)
				continue
			}
			return &violation{"validate", fmt.Sprintf("%s genesis validation rejects the whole-app export: %v", m, err)}
		}
	}
	diff := kit.Diff(dump0, moduleDump(fresh, fctx))
	if tol.tmIterKeys {
		var rest []kit.DiffEntry
		n := 0
		for _, e := range diff {
			if isTMIterKey(e) {
				n++
				continue
			}
			rest = append(rest, e)
		}
		if n > 0 {
			tol.count(keyTMIterKeys, n)
		}
		diff = rest
	}
	if len(diff) > 0 {
		return &violation{"dump", fmt.Sprintf("module state after whole-app export + InitChain differs in %d keys (before -> after):\n%s", len(diff), kit.DiffString(diff, 10))}
	}
	g2, pm := exportModules(fresh, fctx)
	if pm != "" {
		return &violation{"export-panic", "export of the restarted app: " + pm}
	}
	for _, m := range moduleNames {
		var a, b interface{}
		kit.Must(json.Unmarshal(g[m], &a), "json")
		kit.Must(json.Unmarshal(g2[m], &b), "json")
		ab, _ := json.Marshal(a)
		bb, _ := json.Marshal(b)
		if !bytes.Equal(ab, bb) {
			return &violation{"re-export", fmt.Sprintf("%s: export of the restarted app differs\nfirst:  %s\nsecond: %s", m, clip(string(ab), 600), clip(string(bb), 600))}
		}
	}
	return nil
}

const ruleWholeApp = "the TestC13_RoundTrip generator applied to the deliver state of a dedicated chain, block committed; oracle along the whole-application " +
	"path: app.ExportAppStateAndValidators -> new app.Teleport InitChain with that state: the three modules' sections pass their ValidateGenesis, xibc/aggregate " +
	"stores + both param subspaces of the restarted app equal the source key by key, exporting the restarted app gives the same three sections (JSON, whitespace-" +
	"insensitive because the app export is indented); same non-trivial / distinct rule"

var wholeSeq int

func TestC13_WholeApp(t *testing.T) {
	r := rec.For("TestC13_WholeApp", ruleWholeApp)
	rapid.Check(t, func(t *rapid.T) {
		wholeSeq++
		c := kit.NewChain("teleport_9000-1", kit.ChainOpts{Seed: []byte(fmt.Sprint("c13-whole-", wholeSeq%4))})
		g := buildState(t, r, c, c.Ctx())
		if v := wholeApp(c, g.tolerance()); v != nil {
			t.Fatalf("%s\nstate:\n  %s", v, strings.Join(g.log, "\n  "))
		}
		g.record(map[string]json.RawMessage{})
	})
}

const ruleBridge = "2-3 connected real chains (sim/bridge: Tendermint clients of one another, a TSS pseudo chain, relayers) driven through a short drawn history " +
	"of sends, client updates, receives and acknowledgements through DeliverTx; every chain's state is then round-tripped module-wise (as TestC13_RoundTrip) and " +
	"along the whole-application path; non-trivial = the chain holds >= 2 client types, >= 2 consensus heights and >= 1 packet key; distinct by (packet-kind set, " +
	"number of consensus heights)"

func TestC13_BridgeHistory(t *testing.T) {
	r := rec.For("TestC13_BridgeHistory", ruleBridge)
	rapid.Check(t, func(t *rapid.T) {
		m := bridge.NewMachine(t, r)
		t.Repeat(m.BaseActions())
		tol := tolerance{tmIterKeys: listed(keyTMIterKeys), count: func(key string, n int) {
			for i := 0; i < n; i++ {
				r.Exclude(key)
			}
		}}
		for i, ch := range m.W.Chains {
			ctx := ch.Ctx()
			ck := ch.App.XIBCKeeper.ClientKeeper
			pk := ch.App.XIBCKeeper.PacketKeeper
			cons := ck.GetAllConsensusStates(ctx)
			heights, slash := 0, false
			for _, cc := range cons {
				for _, cs := range cc.ConsensusStates {
					heights++
					if hasSlash(cs.Height) {
						slash = true
					}
				}
			}
			if key, l := slashListed(tTM); l && (slash || ch.Header.Height >= 47) {
				r.Exclude(key)
				continue
			}
			kinds := classes{}
			if len(pk.GetAllPacketCommitments(ctx)) > 0 {
				kinds.add("commitment")
			}
			if len(pk.GetAllPacketReceipts(ctx)) > 0 {
				kinds.add("receipt")
			}
			if len(pk.GetAllPacketAcks(ctx)) > 0 {
				kinds.add("ack")
			}
			if len(pk.GetAllPacketSendSeqs(ctx)) > 0 {
				kinds.add("send_sequence")
			}
			_, v := roundTrip(ch, ctx, freshChain(), tol)
			if v == nil {
				v = wholeApp(ch, tol)
			}
			if v != nil {
				t.Fatalf("chain %d (%s): %s\nhistory=%s", i, ch.ChainID, v, m.Render())
			}
			for _, k := range kinds.list() {
				r.Label("packet:" + k)
			}
			r.LabelN("consensus_heights", heights)
			hb := heights
			if hb > 6 {
				hb = 6
			}
			r.Case(fmt.Sprintf("p=%v|h=%d", kinds.list(), hb), heights >= 2 && len(kinds) >= 1, func() interface{} {
				return map[string]interface{}{"chain": ch.ChainID, "history": m.Hist, "packet_kinds": kinds.list(), "consensus_heights": heights}
			})
		}
	})
}
