// Driver B — direct differential on one application: IBCMiddleware.OnRecvPacket (as wired in app.go)
// versus the bare ibc-go transfer application on two cache branches of the same generated state.
package c16

import (
	"fmt"
	"math/big"
	"strings"
	"sync"
	"testing"
	"time"

	sdk "github.com/cosmos/cosmos-sdk/types"
	transfertypes "github.com/cosmos/ibc-go/v3/modules/apps/transfer/types"
	clienttypes "github.com/cosmos/ibc-go/v3/modules/core/02-client/types"
	channeltypes "github.com/cosmos/ibc-go/v3/modules/core/04-channel/types"
	"github.com/ethereum/go-ethereum/common"
	"pgregory.net/rapid"

	"github.com/teleport-network/teleport/app"
	endpointcontract "github.com/teleport-network/teleport/syscontracts/xibc_endpoint"
	aggregatetypes "github.com/teleport-network/teleport/x/aggregate/types"

	"verif/harness/kit"
	"verif/harness/rec"
)

const ruleDirect = "one generated ICS-20 packet (incoming voucher / multi-hop voucher / returning native coin / returning voucher / odd denominations; " +
	"canonical, re-ordered and malformed JSON; amounts 0, 1, small, 1e18, 2^63..2^64, 2^128, 2^255-1, too big, negative, non-numeric, padded; " +
	"fresh, existing, zero, 32-byte, blocked-module, distribution-module and invalid receivers) against a generated registry state built through the " +
	"aggregate governance handler (unregistered, registered, pair disabled, module disabled, added to a module-owned pair, added to an external ERC-20 pair " +
	"with none/short/exact/plenty escrowed tokens, transfer receive disabled; optional earlier holdings and conversions); " +
	"non-trivial = the bare transfer app acknowledges success and the credited denomination is registered with pair and module enabled (conversion attempted); " +
	"distinct by (registry state, denomination kind, receiver kind, amount class, outcome)"

// registry states
const (
	regNone      = "unregistered"
	regEnabled   = "registered"
	regPairOff   = "pair-disabled"
	regModuleOff = "module-disabled"
	regAdded     = "added-to-module-pair"
	regExternal  = "added-to-external-pair"
	regGone      = "added-to-a-pair-whose-contract-is-gone"
)

var (
	directOnce sync.Once
	directBase *kit.Chain
	externalX  common.Address // an ERC-20 owned by a contract account, registered as an external pair in the base state
	externalY  common.Address // a second one; a case may remove its account (the state a self-destructed token contract leaves behind)
)

const nativeCoin = "c16nat" // a native coin of the receiving chain (returns from the counterparty)

func directChain() *kit.Chain {
	directOnce.Do(func() {
		c := kit.NewChain("teleport_9000-1", kit.ChainOpts{Seed: []byte("c16")})
		externalX = c.DeployERC20("cext", "CEXT", 18)
		prop := aggregatetypes.NewRegisterERC20Proposal("c16", "c16", externalX.Hex())
		kit.Must(prop.ValidateBasic(), "RegisterERC20 proposal")
		kit.Must(govHandler(c.App)(c.Ctx(), prop), "RegisterERC20")
		externalY = c.DeployERC20("cgone", "CGONE", 18)
		propY := aggregatetypes.NewRegisterERC20Proposal("c16y", "c16y", externalY.Hex())
		kit.Must(propY.ValidateBasic(), "RegisterERC20 proposal")
		kit.Must(govHandler(c.App)(c.Ctx(), propY), "RegisterERC20")
		// native coin with supply (held by account 1)
		mintTo(c.App, c.Ctx(), c.Accounts[1].Acc, sdk.NewCoins(sdk.NewInt64Coin(nativeCoin, 1_000_000_000)))
		c.Commit(5 * time.Second)
		directBase = c
	})
	return directBase
}

func mintToken(a *app.Teleport, ctx sdk.Context, token, to common.Address, amt *big.Int) {
	data, err := erc20ABI.Pack("mint", to, amt)
	kit.Must(err, "pack mint")
	_, err = a.AggregateKeeper.CallEVMWithData(ctx, endpointcontract.EndpointContractAddress, &token, data)
	kit.Must(err, "mint external token")
}

type denomSpec struct {
	Kind string
	Data string // FungibleTokenPacketData.Denom
}

func genDenom(t *rapid.T, srcPort, srcCh, dstPort, dstCh string) denomSpec {
	kind := rapid.SampledFrom([]string{"incoming", "incoming", "incoming", "incoming-multihop", "returning-native", "returning-native", "returning-evm-denom",
		"returning-voucher", "dest-prefixed", "odd"}).Draw(t, "denomKind")
	srcPref := transfertypes.GetDenomPrefix(srcPort, srcCh)
	switch kind {
	case "incoming":
		return denomSpec{kind, rapid.SampledFrom([]string{"uatom", "c16coin", sdk.DefaultBondDenom, nativeCoin}).Draw(t, "base")}
	case "incoming-multihop":
		return denomSpec{kind, rapid.SampledFrom([]string{"transfer/channel-9/uosmo", "transfer/channel-9/transfer/channel-3/ujuno"}).Draw(t, "base")}
	case "returning-native":
		return denomSpec{kind, srcPref + nativeCoin}
	case "returning-evm-denom":
		return denomSpec{kind, srcPref + sdk.DefaultBondDenom}
	case "returning-voucher":
		return denomSpec{kind, srcPref + "transfer/channel-5/ufoo"}
	case "dest-prefixed": // carries the DESTINATION prefix: a return only when both channel ends have the same id
		return denomSpec{kind, transfertypes.GetDenomPrefix(dstPort, dstCh) + nativeCoin}
	default:
		return denomSpec{kind, rapid.SampledFrom([]string{"", " ", "x", "a b", srcPref, srcPref + "x", srcPref + "a b", "gamm/pool/1", "transfer/uatom",
			"ibc/27394FB092D2ECCD56123C74F36E4C1F926001CEADA9CA97EA622B25F41E5EB2", strings.Repeat("u", 130), "/uatom", "transfer//uatom"}).Draw(t, "oddDenom")}
	}
}

func runDirect(t *rapid.T, r *rec.Recorder) {
	c := directChain()
	a := c.App
	ctx, _ := c.Ctx().CacheContext()

	chans := []string{"channel-0", "channel-1", "channel-42"}
	srcPort, dstPort := transfertypes.PortID, transfertypes.PortID
	srcCh := rapid.SampledFrom(chans).Draw(t, "srcChannel")
	dstCh := rapid.SampledFrom(chans).Draw(t, "dstChannel")
	den := genDenom(t, srcPort, srcCh, dstPort, dstCh)
	existing := []sdk.AccAddress{c.Accounts[0].Acc, c.Accounts[1].Acc, c.Accounts[2].Acc}
	recv := genReceiver(t, existing, true, false)
	amt := genAmount(t, false, true, nil)
	sender := "cosmos1qql8ag4cluz6r4dz28p3w00dnc9w8ueulg2gmc"
	if rapid.IntRange(0, 29).Draw(t, "blankSender") == 0 {
		sender = ""
	}
	data := transfertypes.NewFungibleTokenPacketData(den.Data, amt.Str, sender, recv.Str)
	enc, dataBz := packetDataBytes(t, data, true)
	seq := rapid.Uint64Range(1, 1000).Draw(t, "sequence")
	packet := channeltypes.NewPacket(dataBz, seq, srcPort, srcCh, dstPort, dstCh, clienttypes.NewHeight(1, 1_000_000), 0)
	credited, returning := creditedDenom(packet, den.Data)
	denomOK := sdk.ValidateDenom(credited) == nil
	amount, amountOK := sdk.NewIntFromString(amt.Str)
	amountOK = amountOK && amount.IsPositive() && amount.BigInt().BitLen() <= 200

	// ---- registry state
	reg := rapid.SampledFrom([]string{regNone, regNone, regEnabled, regEnabled, regEnabled, regPairOff, regModuleOff, regAdded, regExternal, regGone}).Draw(t, "registry")
	evmDenom := a.EvmKeeper.GetParams(ctx).EvmDenom
	if !denomOK || credited == evmDenom {
		reg = regNone // nothing can be registered for it
	}
	holder := kit.NewAccount([]byte("c16-holder")).Acc
	var setup []string
	canHold := recv.Acc != nil && (recv.Kind == rkFresh || recv.Kind == rkExisting || recv.Kind == rkZero || recv.Kind == rkLong || recv.Kind == rkLongZero)
	if denomOK && (reg != regNone || rapid.Bool().Draw(t, "priorSupply")) {
		seed := rapid.Int64Range(1, 1_000_000).Draw(t, "priorSupplyAmount")
		mintTo(a, ctx, holder, sdk.NewCoins(sdk.NewInt64Coin(credited, seed)))
		setup = append(setup, fmt.Sprintf("holder has %d", seed))
		if canHold && rapid.Bool().Draw(t, "receiverHoldsSome") {
			pre := rapid.Int64Range(1, 1_000_000).Draw(t, "receiverHolds")
			mintTo(a, ctx, recv.Acc, sdk.NewCoins(sdk.NewInt64Coin(credited, pre)))
			setup = append(setup, fmt.Sprintf("receiver has %d", pre))
		}
	}
	escrowTokens := ""
	switch reg {
	case regEnabled, regPairOff, regModuleOff:
		_, err := registerCoin(a, ctx, credited)
		kit.Must(err, "RegisterCoin "+credited)
		if canHold && rapid.Bool().Draw(t, "earlierConversion") {
			// the receiver converted some coins earlier: non-zero token balance and module escrow
			k := rapid.Int64Range(1, 1000).Draw(t, "earlierConversionAmount")
			mintTo(a, ctx, recv.Acc, sdk.NewCoins(sdk.NewInt64Coin(credited, k)))
			msg := aggregatetypes.NewMsgConvertCoin(sdk.NewInt64Coin(credited, k), common.BytesToAddress(recv.Acc.Bytes()), recv.Acc)
			cctx, write := ctx.CacheContext() // the way DeliverTx runs a message: written only on success
			if _, err := a.AggregateKeeper.ConvertCoin(sdk.WrapSDKContext(cctx), msg); err == nil {
				write()
				setup = append(setup, fmt.Sprintf("receiver converted %d earlier", k))
			} else if recv.Kind != rkZero && recv.Kind != rkLongZero {
				kit.Failf("earlier conversion: %v", err)
			}
		}
		if reg == regPairOff {
			kit.Must(toggleRelay(a, ctx, credited), "ToggleTokenRelay")
		}
		if reg == regModuleOff {
			setModuleEnabled(a, ctx, false)
		}
	case regAdded:
		other := voucherDenom("transfer", "channel-77", "c16other")
		mintTo(a, ctx, holder, sdk.NewCoins(sdk.NewInt64Coin(other, 5)))
		if canHold && amountOK && rapid.Bool().Draw(t, "receiverHoldsFirstDenomination") {
			// the receiver also holds plain vouchers of the pair's FIRST denomination: they are not what this receive converts
			mintTo(a, ctx, recv.Acc, sdk.NewCoins(sdk.NewCoin(other, amount.AddRaw(rapid.Int64Range(0, 9).Draw(t, "firstDenominationExtra")))))
			setup = append(setup, "receiver holds vouchers of the pair's first denomination")
		}
		p2, err := registerCoin(a, ctx, other)
		kit.Must(err, "RegisterCoin other")
		kit.Must(addCoin(a, ctx, credited, p2.GetERC20Contract()), "AddCoin")
	case regGone:
		// the denomination belongs to an enabled pair whose token contract destroyed itself afterwards (account and code are
		// gone, which is all a SELFDESTRUCT leaves): the conversion cannot happen, so the vouchers must stay with the receiver
		kit.Must(addCoin(a, ctx, credited, externalY), "AddCoin to the pair of the contract that goes away")
		if canHold && amountOK && rapid.Bool().Draw(t, "tokensEscrowedBeforeItWentAway") {
			mintToken(a, ctx, externalY, aggregatetypes.ModuleAddress, amount.BigInt())
		}
		kit.Must(a.EvmKeeper.DeleteAccount(ctx, externalY), "remove the contract account")
		setup = append(setup, "token contract gone")
	case regExternal:
		kit.Must(addCoin(a, ctx, credited, externalX), "AddCoin external")
		escrowTokens = rapid.SampledFrom([]string{"none", "short", "exact", "plenty"}).Draw(t, "escrowedTokens")
		if amountOK {
			var e *big.Int
			switch escrowTokens {
			case "short":
				e = new(big.Int).Sub(amount.BigInt(), big.NewInt(1))
			case "exact":
				e = amount.BigInt()
			case "plenty":
				e = new(big.Int).Add(amount.BigInt(), big.NewInt(12345))
			}
			if e != nil && e.Sign() > 0 {
				mintToken(a, ctx, externalX, aggregatetypes.ModuleAddress, e)
			}
		}
		setup = append(setup, "escrowed tokens: "+escrowTokens)
	}
	if returning && denomOK {
		fund := rapid.SampledFrom([]string{"none", "short", "exact", "plenty", "plenty"}).Draw(t, "transferEscrow")
		if amountOK {
			var e sdk.Int
			switch fund {
			case "short":
				e = amount.SubRaw(1)
			case "exact":
				e = amount
			case "plenty":
				e = amount.AddRaw(777)
			}
			if !e.IsNil() && e.IsPositive() {
				mintTo(a, ctx, transfertypes.GetEscrowAddress(dstPort, dstCh), sdk.NewCoins(sdk.NewCoin(credited, e)))
			}
		}
		setup = append(setup, "transfer escrow: "+fund)
	}
	// a sibling route: the same base denomination as it arrives over ANOTHER channel of this chain (the id of the packet's
	// source channel, which names a different local channel when the two ends have different ids) is a registered, enabled
	// pair of its own and the receiver holds some of those vouchers; none of that may be touched by this receive
	sibling := ""
	var siblingPair *aggregatetypes.TokenPair
	if canHold && denomOK && amountOK && !returning && srcCh != dstCh && reg != regModuleOff && rapid.Bool().Draw(t, "siblingRoute") {
		sib := voucherDenom(srcPort, srcCh, den.Data)
		if sib != credited && sdk.ValidateDenom(sib) == nil {
			if _, found := pairOf(a, ctx, sib); !found {
				mintTo(a, ctx, recv.Acc, sdk.NewCoins(sdk.NewCoin(sib, amount.AddRaw(rapid.Int64Range(0, 50).Draw(t, "siblingExtra")))))
				if p, err := registerCoin(a, ctx, sib); err == nil {
					sibling, siblingPair = sib, &p
					setup = append(setup, "sibling route registered, receiver holds its vouchers")
				}
			}
		}
	}
	recvDisabled := rapid.IntRange(0, 19).Draw(t, "receiveDisabled") == 0
	if recvDisabled {
		a.IBCTransferKeeper.SetParams(ctx, transfertypes.Params{SendEnabled: true, ReceiveEnabled: false})
		setup = append(setup, "transfer receive disabled")
	}
	regLabel := reg
	if reg == regExternal {
		regLabel += "/" + escrowTokens
	}

	// ---- the two branches
	relayer := c.Accounts[2].Acc
	ctxT, _ := ctx.CacheContext()
	ctxM, _ := ctx.CacheContext()
	bare := onRecv(bareTransfer(a), ctxT, packet, relayer)
	mid := onRecv(wiredMiddleware(a), ctxM, packet, relayer)

	log := caseLog{Driver: "direct", Packet: fmt.Sprintf("%s/%s -> %s/%s #%d", srcPort, srcCh, dstPort, dstCh, seq), Data: printable(dataBz), Encoding: enc,
		Registry: regLabel + " [" + strings.Join(setup, "; ") + "]", Receiver: recv.Kind, Amount: amt.Class, Credited: credited, Returning: returning, Bare: bare, Middle: mid}

	outcome := ""
	switch {
	case bare.Panicked != "":
		outcome = "panic-both"
		if mid.Panicked == "" {
			t.Fatalf("bare transfer app panics (%s) but the middleware returns %+v\n%s", bare.Panicked, mid, log)
		}
	case mid.Panicked != "":
		t.Fatalf("middleware panics (%s) where the bare transfer app acknowledges %+v\n%s", mid.Panicked, bare, log)
	case bare.Success && mid.Nil && nilAckListed():
		r.Exclude(keyNilAck) // known finding: the success acknowledgement is replaced by nil; the conversion clause is still checked below
	case !mid.equal(bare):
		t.Fatalf("acknowledgement changed by the middleware: bare transfer app %+v, middleware %+v\n%s", bare, mid, log)
	}

	// bystanders: apart from the credited denomination (and its pair) the middleware branch must leave the receiver and the
	// module account exactly as the bare transfer application leaves them
	if recv.Acc != nil && bare.Panicked == "" && mid.Panicked == "" {
		for _, who := range []sdk.AccAddress{recv.Acc, aggModuleAcc} {
			bt, bm := a.BankKeeper.GetAllBalances(ctxT, who), a.BankKeeper.GetAllBalances(ctxM, who)
			seen := map[string]bool{}
			for _, c := range append(append(sdk.Coins{}, bt...), bm...) {
				if c.Denom == credited || seen[c.Denom] {
					continue
				}
				seen[c.Denom] = true
				if !bt.AmountOf(c.Denom).Equal(bm.AmountOf(c.Denom)) {
					t.Fatalf("receive of %s changed the balance of ANOTHER denomination %s of %s: bare transfer app %s, middleware %s\n%s",
						credited, c.Denom, who, bt.AmountOf(c.Denom), bm.AmountOf(c.Denom), log)
				}
			}
		}
		if siblingPair != nil {
			tok, who := siblingPair.GetERC20Contract(), common.BytesToAddress(recv.Acc.Bytes())
			if x, y := tokenBalance(a, ctxT, tok, who), tokenBalance(a, ctxM, tok, who); x.Cmp(y) != 0 {
				t.Fatalf("receive of %s changed the receiver's tokens of the sibling route %s: %s -> %s\n%s", credited, sibling, x, y, log)
			}
			r.Label("sibling-route-untouched")
		}
	}

	nontrivial := false
	if bare.Panicked == "" && !bare.Success {
		outcome = "error-ack"
	}
	if bare.Panicked == "" && bare.Success {
		// the receive succeeded: IBC core writes the callback's state (ack nil or success)
		if recv.Acc == nil || !denomOK {
			kit.Failf("reference succeeded with receiver %q denom %q", recv.Str, credited)
		}
		amount, ok := sdk.NewIntFromString(amt.Str)
		if !ok {
			kit.Failf("reference succeeded with amount %q", amt.Str)
		}
		var pair *aggregatetypes.TokenPair
		if p, ok := pairOf(a, ctx, credited); ok {
			pair = &p
		}
		pre := takeSnap(a, ctx, recv.Acc, credited, pair)
		// self-check of the reference branch: the bare app credits exactly `amount` of `credited`
		if o, facts := conversionOutcome(pre, takeSnap(a, ctxT, recv.Acc, credited, pair), amount, pair, !returning); o != outUntouched {
			kit.Failf("reference model of the bare transfer app is off: %s\n%s", facts, log)
		}
		post := takeSnap(a, ctxM, recv.Acc, credited, pair)
		o, facts := conversionOutcome(pre, post, amount, pair, !returning)
		log.Facts = facts
		if o == "" {
			log.Outcome = "VIOLATION"
			t.Fatalf("conversion neither complete nor untouched: %s\n%s", facts, log)
		}
		outcome = "ok-" + o
		attempted := pair != nil && pair.Enabled && reg != regModuleOff
		if o == outConverted && !attempted {
			r.Label("converted-although-disabled") // not a C16 matter (C11/C12), but worth seeing in the histogram
		}
		nontrivial = attempted
		if attempted && o == outUntouched {
			outcome = "ok-rolled-back" // conversion attempted, failed, vouchers left untouched
		}
	}
	log.Outcome = outcome
	r.Label(fmt.Sprintf("reg=%s|recv=%s|amt=%s|out=%s", regLabel, recv.Kind, amt.Class, outcome))
	r.Label("outcome=" + outcome)
	r.Label("denom=" + den.Kind + "|out=" + outcome)
	r.Label("encoding=" + enc)
	r.Case(strings.Join([]string{regLabel, den.Kind, recv.Kind, amt.Class, outcome}, "|"), nontrivial, func() interface{} { return log })
}

func TestC16_Direct(t *testing.T) {
	r := rec.For("TestC16_Direct", ruleDirect)
	directChain()
	rapid.Check(t, func(t *rapid.T) { runDirect(t, r) })
}
