package c13

import (
	"encoding/binary"
	"fmt"
	"sort"
	"strings"

	"pgregory.net/rapid"

	clienttypes "github.com/teleport-network/teleport/x/xibc/core/client/types"
	"github.com/teleport-network/teleport/x/xibc/core/host"

	"verif/harness/kit"
)

// ---------------------------------------------------------------------------------------------
// class sets (labels / shapes)

type classes map[string]bool

func (c classes) add(k string) { c[k] = true }

func (c classes) list() []string {
	out := make([]string, 0, len(c))
	for k := range c {
		out = append(out, k)
	}
	sort.Strings(out)
	return out
}

func (c classes) withPrefix(p string) []string {
	var out []string
	for _, k := range c.list() {
		if strings.HasPrefix(k, p) {
			out = append(out, strings.TrimPrefix(k, p))
		}
	}
	return out
}

// ---------------------------------------------------------------------------------------------
// G-names: valid chain names biased to look-alikes and path keywords

const nameAlphabet = "abcdefghijklmnopqrstuvwxyzABCDEFGHIJKLMNOPQRSTUVWXYZ0123456789._+-#[]<>"

var keywordNames = []string{
	"sequences", "clientState", "consensusStates", "commitments", "receipts", "acks", "nextSequenceSend", "clients",
	"relayer", "relayers", "processedTime", "iterateConsensusStates", "chainName", "recentSingers", "ethHeaderIndex",
	"000", "001", "123", "1-1", "0-47", "47-0", "...", "---", "###", "[<>]", "<>+",
}

func validName(s string) bool {
	return host.SrcChainValidator(s) == nil && host.DstChainValidator(s) == nil && host.ClientIdentifierValidator(s) == nil
}

func genFreshName() *rapid.Generator[string] {
	return rapid.Custom(func(t *rapid.T) string {
		switch rapid.IntRange(0, 5).Draw(t, "nameKind") {
		case 0, 1:
			return rapid.SampledFrom(keywordNames).Draw(t, "keyword")
		case 2:
			n := rapid.SampledFrom([]int{3, 4, 63, 64}).Draw(t, "len")
			ch := nameAlphabet[rapid.IntRange(0, len(nameAlphabet)-1).Draw(t, "ch")]
			return strings.Repeat(string(ch), n)
		default:
			n := rapid.IntRange(3, 12).Draw(t, "len")
			b := make([]byte, n)
			for i := range b {
				b[i] = nameAlphabet[rapid.IntRange(0, len(nameAlphabet)-1).Draw(t, "ch")]
			}
			return string(b)
		}
	})
}

// genRelatedName derives a prefix / suffix / look-alike variant of base (always valid).
func genRelatedName(base string) *rapid.Generator[string] {
	return rapid.Custom(func(t *rapid.T) string {
		out := base
		switch rapid.IntRange(0, 5).Draw(t, "variant") {
		case 0:
			out = base + string(nameAlphabet[rapid.IntRange(0, len(nameAlphabet)-1).Draw(t, "ch")])
		case 1:
			if len(base) > 3 {
				out = base[:rapid.IntRange(3, len(base)-1).Draw(t, "cut")]
			}
		case 2:
			i := rapid.IntRange(0, len(base)-1).Draw(t, "i")
			b := []byte(base)
			switch {
			case b[i] >= 'a' && b[i] <= 'z':
				b[i] -= 32
			case b[i] >= 'A' && b[i] <= 'Z':
				b[i] += 32
			}
			out = string(b)
		case 3:
			out = base + "." + rapid.SampledFrom(keywordNames[:9]).Draw(t, "kw")
		case 4:
			if len(base) > 3 {
				out = base[1:]
			}
		default:
			out = base + rapid.SampledFrom([]string{"0", "1", "47", "00"}).Draw(t, "digits")
		}
		if len(out) > 64 {
			out = out[:64]
		}
		if !validName(out) {
			return base
		}
		return out
	})
}

// genNamePool draws n pairwise distinct valid names, biased to near misses of one another.
func genNamePool(t *rapid.T, n int, taken map[string]bool) []string {
	var pool []string
	for tries := 0; len(pool) < n && tries < 20*n; tries++ {
		var s string
		if len(pool) > 0 && rapid.IntRange(0, 2).Draw(t, "related") > 0 {
			s = genRelatedName(pool[rapid.IntRange(0, len(pool)-1).Draw(t, "base")]).Draw(t, "name")
		} else {
			s = genFreshName().Draw(t, "name")
		}
		if !validName(s) {
			kit.Failf("name generator produced a name the host validators reject: %q", s)
		}
		if !taken[s] {
			taken[s] = true
			pool = append(pool, s)
		}
	}
	if len(pool) == 0 {
		kit.Failf("empty name pool")
	}
	return pool
}

func classifyName(s string, c classes) {
	for _, k := range keywordNames[:15] {
		if s == k {
			c.add("name:path_keyword")
		} else if strings.Contains(s, k) {
			c.add("name:contains_keyword")
		}
	}
	if len(s) == 3 || len(s) == 64 {
		c.add("name:len_boundary")
	}
	if strings.ContainsAny(s, "#[]<>+") {
		c.add("name:special_chars")
	}
	if strings.Trim(s, "0123456789-") == "" {
		c.add("name:numeric_lookalike")
	}
}

// ---------------------------------------------------------------------------------------------
// sequences

var boundarySeqs = []uint64{1, 2, 9, 10, 11, 47, 99, 100, 255, 256, 303, 12079, 1<<32 - 1, 1 << 32, 1<<63 - 1, 1 << 63,
	9999999999999999999, 10000000000000000000, ^uint64(0) - 1, ^uint64(0)}

func genSeq() *rapid.Generator[uint64] {
	return rapid.Custom(func(t *rapid.T) uint64 {
		switch rapid.IntRange(0, 3).Draw(t, "seqKind") {
		case 0, 1:
			return rapid.SampledFrom(boundarySeqs).Draw(t, "boundary")
		case 2:
			return rapid.Uint64Range(1, 300).Draw(t, "small")
		default:
			return rapid.Uint64Range(1, ^uint64(0)).Draw(t, "any")
		}
	})
}

// ---------------------------------------------------------------------------------------------
// G-heights

var keywordHeightBytes = []string{
	"/clientState", "/processedTime", "consensusStates/", "/sequences/", "clients/", "/", "//", "/consensusStates",
	"iterateConsensus", "processedTime", "clientState", "clientState", "processedTime",
}

var boundaryHeights = []uint64{0, 1, 46, 47, 48, 255, 256, 303, 12079, 0x2f00, 0x2f2f, 47 << 56, 47 << 48, 47 << 32, 0x2f2f2f2f2f2f2f2f,
	1<<56 - 1, 1 << 56, 1<<63 - 1, 1 << 63, ^uint64(0) - 1, ^uint64(0), 0xff2f, 0x2fff, 0x002f00, 0xff, 0xffff, 0xff00ff00ff00ff00}

func genHeightWord() *rapid.Generator[uint64] {
	return rapid.Custom(func(t *rapid.T) uint64 {
		switch rapid.IntRange(0, 7).Draw(t, "hKind") {
		case 0, 1:
			return rapid.SampledFrom(boundaryHeights).Draw(t, "boundary")
		case 2: // realistic
			return rapid.Uint64Range(1, 100000).Draw(t, "realistic")
		case 3, 4: // random with planted bytes
			var b [8]byte
			binary.BigEndian.PutUint64(b[:], rapid.Uint64().Draw(t, "base"))
			n := rapid.IntRange(1, 3).Draw(t, "plants")
			for i := 0; i < n; i++ {
				b[rapid.IntRange(0, 7).Draw(t, "pos")] = rapid.SampledFrom([]byte{0x2f, 0x2f, 0x00, 0xff, 0xff, 0x2e, 0x30}).Draw(t, "byte")
			}
			return binary.BigEndian.Uint64(b[:])
		case 5: // 2^8k neighbours
			k := rapid.IntRange(1, 7).Draw(t, "k")
			return uint64(1)<<uint(8*k) + uint64(rapid.IntRange(-1, 1).Draw(t, "d"))
		default:
			return rapid.Uint64().Draw(t, "any")
		}
	})
}

// genHeight draws (revision number, revision height) over the full uint64 range.
func genHeight() *rapid.Generator[clienttypes.Height] {
	return rapid.Custom(func(t *rapid.T) clienttypes.Height {
		if rapid.IntRange(0, 9).Draw(t, "kw") == 9 {
			// the 16 key bytes spell a path keyword (random fill around it)
			kw := rapid.SampledFrom(keywordHeightBytes).Draw(t, "keyword")
			var b [16]byte
			binary.BigEndian.PutUint64(b[:8], rapid.Uint64().Draw(t, "fillA"))
			binary.BigEndian.PutUint64(b[8:], rapid.Uint64().Draw(t, "fillB"))
			if rapid.Bool().Draw(t, "left") {
				copy(b[:], kw)
			} else {
				copy(b[16-len(kw):], kw)
			}
			return clienttypes.NewHeight(binary.BigEndian.Uint64(b[:8]), binary.BigEndian.Uint64(b[8:]))
		}
		var rev uint64
		if rapid.IntRange(0, 2).Draw(t, "revKind") == 2 {
			rev = genHeightWord().Draw(t, "rev")
		} else {
			rev = rapid.SampledFrom([]uint64{0, 0, 1, 2, 47, 9000}).Draw(t, "revSmall")
		}
		return clienttypes.NewHeight(rev, genHeightWord().Draw(t, "height"))
	})
}

func heightBytes(h clienttypes.Height) [16]byte {
	var b [16]byte
	binary.BigEndian.PutUint64(b[:8], h.RevisionNumber)
	binary.BigEndian.PutUint64(b[8:], h.RevisionHeight)
	return b
}

// hasSlash reports whether one of the 16 key bytes of the height is the path separator 0x2f.
func hasSlash(h clienttypes.Height) bool {
	b := heightBytes(h)
	for _, x := range b {
		if x == 0x2f {
			return true
		}
	}
	return false
}

var keywordFragments = []string{"clientState", "processedTime", "consensusStates", "iterateConsensus", "sequences", "clients"}

// hostileClasses names the hostile-byte classes of a consensus height ("" list = ordinary height).
func hostileClasses(h clienttypes.Height) []string {
	b := heightBytes(h)
	s := string(b[:])
	set := classes{}
	for i, x := range b {
		switch x {
		case 0x2f:
			set.add("0x2f")
			if i < 8 {
				set.add("0x2f_in_revision")
			}
		case 0xff:
			set.add("0xff")
		}
	}
	for _, kw := range keywordFragments {
		if strings.Contains(s, kw) {
			set.add("keyword_bytes")
		}
	}
	if h.RevisionHeight>>63 == 1 {
		set.add("height_top_bit")
	}
	if h.RevisionNumber>>63 == 1 {
		set.add("revision_top_bit")
	}
	if h.RevisionHeight == 0 {
		set.add("zero_height")
	}
	for k := uint(1); k <= 7; k++ {
		p := uint64(1) << (8 * k)
		if h.RevisionHeight == p || h.RevisionHeight == p-1 || h.RevisionHeight == p+1 {
			set.add("pow256_neighbour")
		}
	}
	// an embedded 0x00 after a non-zero byte inside one word (not just leading zeros)
	for w := 0; w < 2; w++ {
		seenNZ := false
		for _, x := range b[w*8 : w*8+8] {
			if x != 0 {
				seenNZ = true
			} else if seenNZ {
				set.add("embedded_0x00")
			}
		}
	}
	return set.list()
}

func hstr(h clienttypes.Height) string {
	return fmt.Sprintf("%d-%d(%x)", h.RevisionNumber, h.RevisionHeight, heightBytes(h))
}
