package c15

import (
	"encoding/json"
	"fmt"
	"math"
	"regexp"
	"strings"
	"testing"
	"time"

	"github.com/gogo/protobuf/proto"
	abci "github.com/tendermint/tendermint/abci/types"
	"pgregory.net/rapid"

	sdk "github.com/cosmos/cosmos-sdk/types"
	banktypes "github.com/cosmos/cosmos-sdk/x/bank/types"
	govtypes "github.com/cosmos/cosmos-sdk/x/gov/types"

	aggregatetypes "github.com/teleport-network/teleport/x/aggregate/types"
	bsctypes "github.com/teleport-network/teleport/x/xibc/clients/light-clients/bsc/types"
	ethtypes "github.com/teleport-network/teleport/x/xibc/clients/light-clients/eth/types"
	xibcclient "github.com/teleport-network/teleport/x/xibc/core/client"
	clienttypes "github.com/teleport-network/teleport/x/xibc/core/client/types"
	"github.com/teleport-network/teleport/x/xibc/core/host"
	"github.com/teleport-network/teleport/x/xibc/exported"

	"verif/harness/kit"
	"verif/harness/rec"
)

const ruleProposals = "sequences of 1-3 proposal contents (all 12 kinds of the xibc client and aggregate modules; client/consensus states of the 4 client types " +
	"built field-wise with boundary values) on a generated module state (clients imported through validated genesis, aggregate switch, bank metadata stored beforehand; coin metadata of a content is in 40 % of the draws a copy of stored metadata with one detail changed), each decoded by the app codec, " +
	"filtered by the real ValidateBasic and executed like gov.EndBlocker (cache context, write on nil error) under the harness's recover, then whole-app EndBlocker+BeginBlocker; " +
	"non-trivial = content accepted by validation with >= 1 boundary field; distinct by (kind, client type, consensus shape, boundary fields, module state, outcome class)"

// stepLog renders one executed step for samples and failure messages.
type stepLog struct {
	Kind    string   `json:"kind"`
	Client  string   `json:"client_type,omitempty"`
	Cons    string   `json:"consensus,omitempty"`
	Chain   string   `json:"chain_name,omitempty"`
	State   string   `json:"module_state"`
	Tags    []string `json:"boundary_fields"`
	Filter  string   `json:"validation"`
	Outcome string   `json:"outcome,omitempty"`
	Content string   `json:"content,omitempty"`
}

func renderContent(w *world, c govtypes.Content) string {
	var s string
	if p := guard(func() {
		pm, ok := c.(proto.Message)
		if !ok {
			s = fmt.Sprintf("%T", c)
			return
		}
		bz, err := w.c.App.AppCodec().MarshalInterfaceJSON(pm)
		if err != nil {
			s = "unrenderable: " + err.Error()
			return
		}
		s = string(bz)
	}); p != nil {
		s = "unrenderable: " + p.Val
	}
	return clip(compactJSON(s), 1500)
}

// storedKind returns the type of the client stored under a chain name ("none" when absent).
func storedKind(w *world, ctx sdk.Context, name string) (kind string, cs exported.ClientState) {
	kind = "none"
	if name == "" {
		return
	}
	if p := guard(func() {
		c, ok := w.c.App.XIBCKeeper.ClientKeeper.GetClientState(ctx, name)
		if ok {
			kind, cs = c.ClientType(), c
		}
	}); p != nil {
		kind = "unreadable"
	}
	return
}

func degenerateClient(cs exported.ClientState) string {
	switch c := cs.(type) {
	case *bsctypes.ClientState:
		if c.Epoch == 0 {
			return "bsc-initialize-epoch-zero"
		}
		if c.ChainId > math.MaxInt64 {
			return "bsc-initialize-chainid-overflow"
		}
	case *ethtypes.ClientState:
		if len(c.Header.Bloom) > 256 {
			return "eth-initialize-bloom-oversize"
		}
	}
	return ""
}

// knownShape names the listed-finding shape a decoded content falls into on this state ("" = none).
func knownShape(w *world, ctx sdk.Context, content govtypes.Content) string {
	var any interface{ GetCachedValue() interface{} }
	name := ""
	toggle := false
	switch c := content.(type) {
	case *clienttypes.CreateClientProposal:
		if c.ClientState != nil {
			any = c.ClientState
		}
	case *clienttypes.UpgradeClientProposal:
		if c.ClientState != nil {
			any = c.ClientState
		}
	case *clienttypes.ToggleClientProposal:
		if c.ClientState != nil {
			any = c.ClientState
		}
		name, toggle = c.ChainName, true
	default:
		return ""
	}
	if any != nil {
		if cs, ok := any.GetCachedValue().(exported.ClientState); ok {
			if k := degenerateClient(cs); k != "" {
				return k
			}
		}
	}
	if toggle {
		// ToggleClient initialises with the STORED client state
		if _, cs := storedKind(w, ctx, name); cs != nil {
			return degenerateClient(cs)
		}
	}
	if up, ok := content.(*clienttypes.UpgradeClientProposal); ok {
		if k, _ := storedKind(w, ctx, up.ChainName); k == exported.BSC && hasMalformedBscKey(w, ctx, up.ChainName) {
			return "bsc-upgrade-malformed-store-key"
		}
	}
	return ""
}

// hasMalformedBscKey reports a client-store key that BSC UpgradeState parses without a length check: a recent-signer
// key without the "/<height>" part or a "consensusStates/<x>" key whose <x> is shorter than the 16 height bytes
// (only a genesis import can put such keys there).
func hasMalformedBscKey(w *world, ctx sdk.Context, chainName string) bool {
	store := w.c.App.XIBCKeeper.ClientKeeper.ClientStore(ctx, chainName)
	bad := false
	func() {
		it := sdk.KVStorePrefixIterator(store, []byte(bsctypes.PrefixKeyRecentSingers))
		defer it.Close()
		for ; it.Valid(); it.Next() {
			if !strings.Contains(string(it.Key()), "/") {
				bad = true
			}
		}
	}()
	it := sdk.KVStorePrefixIterator(store, []byte(host.KeyConsensusStatePrefix))
	defer it.Close()
	for ; it.Valid(); it.Next() {
		parts := strings.Split(string(it.Key()), "/")
		if len(parts) == 2 && len(parts[1]) < 16 {
			bad = true
		}
	}
	return bad
}

func handlerFor(w *world, content govtypes.Content) govtypes.Handler {
	switch content.ProposalRoute() {
	case clienttypes.GovRouterKey:
		return w.xibcH
	case aggregatetypes.GovRouterKey:
		return w.aggH
	default:
		return w.paramH
	}
}

func outcomeClass(err error) string {
	if err == nil {
		return "ok"
	}
	s := err.Error()
	for _, k := range []string{"already exists", "not found", "client-type", "invalid", "disabled", "execution reverted", "not registered", "supply", "cannot unpack", "nil"} {
		if strings.Contains(s, k) {
			return "err:" + strings.ReplaceAll(k, " ", "_")
		}
	}
	return "err:other"
}

// aggState summarises the aggregate-side module state a proposal meets.
func aggState(w *world, ctx sdk.Context) string {
	if !w.c.App.AggregateKeeper.GetParams(ctx).EnableAggregate {
		return "aggregateDisabled"
	}
	return "aggregateEnabled"
}

// stateFor describes the module state relevant to a content.
func stateFor(w *world, ctx sdk.Context, gc genContent) string {
	if gc.ClientKind != "-" || gc.Kind == clienttypes.ProposalTypeRelayerRegister {
		k, cs := storedKind(w, ctx, gc.ChainName)
		if cs != nil && degenerateClient(cs) != "" {
			k += "(degenerate)"
		}
		return "client=" + k
	}
	s := aggState(w, ctx)
	for _, t := range gc.Tags {
		if strings.HasSuffix(t, "=registeredERC20") || strings.HasSuffix(t, "=coinERC20") || t == "~meta.base=registered" || t == "~toggle.denom=registeredCoin" || t == "~toggle.denom=registeredAggregate" {
			return s + ",pairPresent"
		}
	}
	return s + ",pairAbsent"
}

// execStep decodes, filters and executes one generated content on a fresh branch of cur. snapshots
// holds the earlier states of the sequence (for the submission dry-run classification of a panic).
func execStep(t *rapid.T, r *rec.Recorder, w *world, snapshots []sdk.Context, gc genContent, history *[]stepLog) sdk.Context {
	cur := snapshots[len(snapshots)-1]
	for k, n := range gc.Excluded {
		for i := 0; i < n; i++ {
			r.Exclude(k)
		}
	}
	log := stepLog{Kind: gc.Kind, Client: gc.ClientKind, Cons: gc.ConsKind, Chain: clip(gc.ChainName, 20), Tags: gc.Tags}
	log.State = stateFor(w, cur, gc)
	r.Label("generated:" + gc.Kind)
	content, _, why := roundTrip(w, gc.Content)
	if content == nil {
		log.Filter = "undecodable:" + why
		r.Label("filter:" + why + ":" + gc.Kind)
		*history = append(*history, log)
		r.Case("", false, nil)
		return cur
	}
	var verr error
	if p := guard(func() {
		verr = content.ValidateBasic()
		if verr == nil && !govtypes.IsValidProposalType(content.ProposalType()) {
			verr = fmt.Errorf("unregistered proposal type")
		}
	}); p != nil {
		// a panic inside stateless validation happens inside the submitting transaction (recovered): the content is simply not accepted
		log.Filter = "rejected:validationPanicked"
		r.Label("filter:rejected(validation panicked):" + gc.Kind)
		*history = append(*history, log)
		r.Case("", false, nil)
		return cur
	}
	if verr != nil {
		log.Filter = "rejected"
		r.Label("filter:rejected:" + gc.Kind)
		*history = append(*history, log)
		r.Case("", false, nil)
		return cur
	}
	log.Filter = "accepted"
	r.Label("filter:accepted:" + gc.Kind)
	if k := knownShape(w, cur, content); k != "" && listed(k) {
		r.Exclude(k)
		log.Outcome = "excluded:" + k
		*history = append(*history, log)
		r.Case("", false, nil)
		return cur
	}
	next, _ := cur.CacheContext()
	h := handlerFor(w, content)
	var err error
	p := guard(func() { err = execLikeGov(next, h, content) })
	if p != nil {
		// classification only: would a submission dry-run (gov keeper SubmitProposal runs the handler on a cache context inside
		// the submitting transaction) have accepted this content in an earlier state of this sequence?
		reach := "dry-run at submission rejects or panics in every earlier state of this sequence"
		for i, s := range snapshots {
			var derr error
			dctx, _ := s.CacheContext()
			if dp := guard(func() { derr = h(dctx, content) }); dp == nil && derr == nil {
				reach = fmt.Sprintf("dry-run at submission SUCCEEDS in the state before step %d: halt reachable through gov on this SDK", i)
				break
			}
		}
		log.Outcome = "PANIC"
		log.Content = renderContent(w, content)
		*history = append(*history, log)
		t.Fatalf("handler panicked outside tx recovery: %s\nkind=%s client=%s cons=%s state=%s boundary=%v\n%s\nhistory=%s",
			p, gc.Kind, gc.ClientKind, gc.ConsKind, log.State, gc.Tags, reach, renderHistory(*history))
	}
	log.Outcome = outcomeClass(err)
	if err != nil {
		log.Outcome += " (" + clip(err.Error(), 120) + ")"
	}
	cls := outcomeClass(err)
	r.Label(fmt.Sprintf("exec:%s|%s|%s|%s", gc.Kind, gc.ClientKind, log.State, cls))
	r.Step()
	shape := fmt.Sprintf("%s|%s|%s|%v|%s|%s", gc.Kind, gc.ClientKind, gc.ConsKind, gc.Tags, log.State, cls)
	*history = append(*history, log)
	idx := len(*history) - 1
	r.Case(shape, boundaryCount(gc.Tags) > 0, func() interface{} {
		l := (*history)[idx]
		l.Content = renderContent(w, content)
		return l
	})
	return next
}

// existingClients maps the pool chain names that hold a client to the client type.
func existingClients(w *world, ctx sdk.Context) map[string]string {
	m := map[string]string{}
	for _, n := range chainNames {
		if k, _ := storedKind(w, ctx, n); k != "none" && k != "unreadable" {
			m[n] = k
		}
	}
	return m
}

var longString = regexp.MustCompile(`"[^"\\]{72,}"`)

// compactJSON abbreviates long string values (oversized byte fields) in a rendered content.
func compactJSON(s string) string {
	return longString.ReplaceAllStringFunc(s, func(m string) string {
		return fmt.Sprintf(`"%s…<%d chars>"`, m[1:17], len(m)-2)
	})
}

func renderHistory(h []stepLog) string {
	bz, _ := json.Marshal(h)
	return clip(string(bz), 6000)
}

// blocksAfter runs the whole application's EndBlocker of the open block and BeginBlocker of the next one on ctx.
func blocksAfter(t *rapid.T, r *rec.Recorder, w *world, ctx sdk.Context, what string, history interface{}) {
	hdr := w.c.Header
	var p *panicInfo
	p = guard(func() { w.c.App.EndBlocker(ctx, abci.RequestEndBlock{Height: hdr.Height}) })
	if p == nil {
		hdr.Height++
		hdr.Time = hdr.Time.Add(5 * time.Second)
		p = guard(func() { w.c.App.BeginBlocker(ctx.WithBlockHeader(hdr), abci.RequestBeginBlock{Header: hdr}) })
	}
	r.Label("blocksAfter:" + what)
	if p != nil {
		bz, _ := json.Marshal(history)
		t.Fatalf("EndBlocker/BeginBlocker panicked after %s: %s\nhistory=%s", what, p, clip(string(bz), 6000))
	}
}

// installPreState imports generated xibc clients through the genesis path (validated, then InitGenesis) and may
// switch the aggregate module off; returns a description.
func installPreState(t *rapid.T, r *rec.Recorder, w *world, ctx sdk.Context) string {
	desc := []string{}
	if chance(t, "preClients", 70) {
		for _, n := range chainNames[:6] {
			if !chance(t, "preClient?", 35) {
				continue
			}
			g := newTagger(t)
			g.rejPct = 8
			gs := g.clientGenesis([]string{n}, w.c.ChainID, false)
			for k, c := range g.excluded {
				for i := 0; i < c; i++ {
					r.Exclude(k)
				}
			}
			var verr error
			if p := guard(func() { verr = gs.Validate() }); p != nil || verr != nil {
				r.Label("prestate:genesis rejected")
				continue
			}
			if p := guard(func() { xibcclient.InitGenesis(ctx, w.c.App.XIBCKeeper.ClientKeeper, gs) }); p != nil {
				t.Fatalf("xibc client InitGenesis panicked on a genesis state that passed Validate: %s\ntags=%v", p, g.sortedTags())
			}
			for _, c := range gs.Clients {
				if cs, ok := c.ClientState.GetCachedValue().(exported.ClientState); ok {
					desc = append(desc, clip(c.ChainName, 3)+":"+cs.ClientType())
				}
			}
			r.Label("prestate:genesis imported")
		}
	}
	// bank metadata that is already there when the proposals execute (written by an earlier registration or by genesis):
	// generated like a proposal's metadata and kept when the bank module's own validation accepts it
	if chance(t, "preMetadata", 35) {
		n := rapid.IntRange(1, 2).Draw(t, "preMetadata.n")
		for i := 0; i < n; i++ {
			g := newTagger(t)
			g.rejPct = 0
			m := g.metadata(w)
			if chance(t, "preMetadata.genesisStyle", 50) {
				// what a bank genesis typically carries: display metadata (with aliases, often) of a coin that has a
				// supply and no token pair yet
				base := rapid.SampledFrom([]string{"bcoin", "ibc/27394FB092D2ECCD56123C74F36E4C1F926001CEADA9CA97EA622B25F41E5EB2"}).Draw(t, "preMetadata.base")
				m = newMetadata(base, "Coin "+base, "ibcC", uint32(rapid.SampledFrom([]int{6, 18}).Draw(t, "preMetadata.exp")))
				m.DenomUnits[1].Aliases = [][]string{nil, {"x"}, {"x", "y"}}[rapid.IntRange(0, 2).Draw(t, "preMetadata.aliases")]
				m.DenomUnits[0].Aliases = [][]string{nil, {"atom" + m.Display}}[rapid.IntRange(0, 1).Draw(t, "preMetadata.baseAliases")]
			}
			var verr error
			if p := guard(func() { verr = m.Validate() }); p != nil || verr != nil {
				r.Label("prestate:metadata rejected")
				continue
			}
			w.c.App.BankKeeper.SetDenomMetaData(ctx, m)
			desc = append(desc, "meta:"+clip(m.Base, 8)+fmt.Sprint(g.sortedTags()))
			r.Label("prestate:metadata stored")
		}
	}
	if chance(t, "aggOff", 8) {
		kit.Must(w.c.App.GetSubspace(aggregatetypes.ModuleName).Update(ctx, aggregatetypes.ParamStoreKeyEnableAggregate, []byte("false")), "disable aggregate")
		desc = append(desc, "aggregateDisabled")
	}
	return strings.Join(desc, ",")
}

// storedMetadata lists the bank metadata of a state in store order.
func storedMetadata(w *world, ctx sdk.Context) []banktypes.Metadata {
	var out []banktypes.Metadata
	w.c.App.BankKeeper.IterateAllDenomMetaData(ctx, func(m banktypes.Metadata) bool {
		out = append(out, m)
		return false
	})
	return out
}

func runProposalCase(t *rapid.T, r *rec.Recorder) {
	w := baseWorld()
	s0, _ := w.c.Ctx().CacheContext()
	w.storedMeta = storedMetadata(w, s0)
	defer func() { w.storedMeta = nil }()
	pre := installPreState(t, r, w, s0)
	snapshots := []sdk.Context{s0}
	history := []stepLog{{Kind: "prestate", State: pre}}
	n := rapid.IntRange(1, 3).Draw(t, "steps")
	for i := 0; i < n; i++ {
		cur := snapshots[len(snapshots)-1]
		w.storedMeta = storedMetadata(w, cur)
		gc := genProposal(t, w, existingClients(w, cur))
		next := execStep(t, r, w, snapshots, gc, &history)
		snapshots = append(snapshots, next)
	}
	if chance(t, "blocksAfter", 35) {
		blocksAfter(t, r, w, snapshots[len(snapshots)-1], "proposals", history)
	}
}

func TestC15_Proposals(t *testing.T) {
	r := rec.For("TestC15_Proposals", ruleProposals)
	rapid.Check(t, func(t *rapid.T) { runProposalCase(t, r) })
}
