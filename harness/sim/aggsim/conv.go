package aggsim

import (
	"fmt"
	"math/big"
	"sort"
	"strings"
	"time"

	sdk "github.com/cosmos/cosmos-sdk/types"
	"github.com/ethereum/go-ethereum/common"
	"pgregory.net/rapid"

	aggtypes "github.com/teleport-network/teleport/x/aggregate/types"

	"verif/harness/kit"
	"verif/harness/rec"
)

// MaxInt is the largest amount a message can carry (sdk.Int is limited to 255 bits).
var MaxInt = sdk.NewIntFromBigInt(new(big.Int).Sub(new(big.Int).Lsh(big.NewInt(1), 255), big.NewInt(1)))

// amountAround draws an amount around a balance: 0, 1, balance, balance+1, half, small, 2^255-1.
func amountAround(t *rapid.T, bal sdk.Int) (sdk.Int, string) {
	switch rapid.SampledFrom([]string{"small", "small", "small", "small", "small", "small", "one", "bal", "bal+1", "half", "huge", "zero", "1e18", "int64", "uint64"}).Draw(t, "amountClass") {
	case "1e18":
		return sdk.NewIntWithDecimal(int64(rapid.IntRange(1, 9).Draw(t, "coins")), 18), "1e18-scale"
	case "int64":
		return sdk.NewIntFromUint64(1 << 63).AddRaw(int64(rapid.IntRange(-2, 2).Draw(t, "aroundInt64"))), "around-2^63"
	case "uint64":
		return sdk.NewIntFromBigInt(new(big.Int).Lsh(big.NewInt(1), 64)).AddRaw(int64(rapid.IntRange(-2, 2).Draw(t, "aroundUint64"))), "around-2^64"
	case "one":
		return sdk.OneInt(), "one"
	case "bal":
		if bal.IsPositive() {
			return bal, "balance"
		}
		return sdk.OneInt(), "one"
	case "bal+1":
		return bal.AddRaw(1), "balance+1"
	case "half":
		if bal.GTE(sdk.NewInt(2)) {
			return bal.QuoRaw(2), "half"
		}
		return sdk.OneInt(), "one"
	case "huge":
		return MaxInt, "2^255-1"
	case "zero":
		return sdk.ZeroInt(), "zero"
	}
	return sdk.NewInt(rapid.Int64Range(2, 60).Draw(t, "amount")), "small"
}

// Conv is the C11 state machine: conversions in both directions over a fixed set of pairs.
type Conv struct {
	W    *World
	R    *rec.Recorder
	Hist []string

	okCoinToTok, okTokToCoin int
	okPairs                  map[common.Address]bool
	okMulti                  bool
	okDenomsOfPair           map[string]bool
	misbehavingTried         map[string]bool
	failKinds                map[string]bool
	setup                    []string
	// wantEnabled is the model of every pair's enabled flag: set when the pair is first seen, flipped only by
	// toggle proposals of this machine - never read back from the store afterwards.
	wantEnabled map[string]bool
}

func (m *Conv) noteToggle(addr string) {
	if m.wantEnabled == nil {
		m.wantEnabled = map[string]bool{}
	}
	if cur, ok := m.wantEnabled[addr]; ok {
		m.wantEnabled[addr] = !cur
	}
}

func (m *Conv) logf(format string, a ...interface{}) {
	m.Hist = append(m.Hist, fmt.Sprintf(format, a...))
}

func (m *Conv) history() string { return strings.Join(m.Hist, "\n  ") }

// pairLabel describes a pair record for labels and shapes.
func (m *Conv) pairLabel(p Pair) string {
	kind := "unknown"
	if tok := m.W.TokenAt(p.Addr); tok != nil {
		kind = tok.Kind.String()
	}
	return fmt.Sprintf("%s/%ddenom", kind, len(p.Denoms))
}

// SetupConv draws the world of one C11 case: 2-4 pairs, at least one module-owned pair with 1-3
// denominations, the rest module-owned or externally owned (plain, the repo's two misbehaving
// tokens, FlexToken), optionally a coin added to an externally owned pair.
func SetupConv(t *rapid.T, r *rec.Recorder) *Conv {
	w := NewWorld()
	m := &Conv{W: w, R: r, okPairs: map[common.Address]bool{}, okDenomsOfPair: map[string]bool{}, misbehavingTried: map[string]bool{}, failKinds: map[string]bool{}}
	free := append([]string{}, CoinDenoms...)
	free = rapid.Permutation(free).Draw(t, "denomOrder")
	take := func() string { d := free[0]; free = free[1:]; return d }
	meta := func(d string) {
		w.Meta[d] = CoinMetadata(d, rapid.Bool().Draw(t, "nameEqualsBase"), "coin "+d)
	}
	registerModulePair := func(n int) {
		d0 := take()
		meta(d0)
		err, _ := w.RegisterCoin(w.Meta[d0])
		kit.Must(err, "setup RegisterCoin "+d0)
		tok := w.Tokens[len(w.Tokens)-1]
		ds := []string{d0}
		for i := 1; i < n; i++ {
			d := take()
			meta(d)
			err, _ := w.AddCoin(w.Meta[d], tok.Addr.Hex())
			kit.Must(err, "setup AddCoin "+d)
			ds = append(ds, d)
		}
		m.setup = append(m.setup, fmt.Sprintf("module-owned %s %v", tok.Addr.Hex(), ds))
	}
	nPairs := rapid.IntRange(2, 4).Draw(t, "nPairs")
	registerModulePair(rapid.IntRange(1, 3).Draw(t, "nDenoms0"))
	extNames := []string{"tka", "tkb", "tkc"}
	for i := 1; i < nPairs; i++ {
		kinds := []TokenKind{KindModule, KindPlain, KindPlain, KindDirect, KindDelayed, KindFlex, KindFlex}
		if i == 1 {
			kinds = []TokenKind{KindPlain, KindDirect, KindDelayed, KindFlex, KindFlex, KindFlex}
		}
		kind := rapid.SampledFrom(kinds).Draw(t, "pairKind")
		if kind == KindModule {
			if len(free) == 0 {
				kind = KindPlain
			} else {
				registerModulePair(rapid.IntRange(1, min(2, len(free))).Draw(t, "nDenoms"))
				continue
			}
		}
		deployer := w.Users[rapid.IntRange(0, 2).Draw(t, "deployer")]
		dec := rapid.SampledFrom([]uint8{0, 6, 18}).Draw(t, "decimals")
		tok := w.DeployToken(kind, deployer, extNames[i-1], strings.ToUpper(extNames[i-1]), dec, 1000)
		err, _ := w.RegisterERC20(tok.Addr)
		kit.Must(err, "setup RegisterERC20 "+kind.String())
		desc := fmt.Sprintf("external %s %s", kind, tok.Addr.Hex())
		if len(free) > 0 && rapid.IntRange(0, 4).Draw(t, "addCoinToExternal") == 0 {
			d := take()
			meta(d)
			err, _ := w.AddCoin(w.Meta[d], tok.Addr.Hex())
			kit.Must(err, "setup AddCoin to external")
			desc += " +" + d
		}
		m.setup = append(m.setup, desc)
	}
	m.logf("setup: %s", strings.Join(m.setup, "; "))
	return m
}

// Backing returns the violations of the two backing statements in the current state.
func (m *Conv) Backing() []string {
	w := m.W
	ctx := w.C.Ctx()
	reg := w.ReadRegistry(ctx)
	var bad []string
	for _, p := range reg.Pairs {
		tok := w.TokenAt(p.Addr)
		if tok == nil || !w.HasCode(ctx, p.Addr) {
			continue
		}
		switch {
		case p.Owner == aggtypes.OWNER_MODULE:
			sum := sdk.ZeroInt()
			for _, d := range uniq(p.Denoms) {
				sum = sum.Add(w.App.BankKeeper.GetBalance(ctx, w.ModAcc, d).Amount)
			}
			ts := w.TokenSupply(ctx, tok)
			if ts.Cmp(sum.BigInt()) > 0 {
				bad = append(bad, fmt.Sprintf("module-owned contract %s: totalSupply %s > escrowed coins %s of %v", p.AddrStr, ts, sum, p.Denoms))
			}
		case p.Owner == aggtypes.OWNER_EXTERNAL && len(p.Denoms) == 1:
			sup := w.App.BankKeeper.GetSupply(ctx, p.Denoms[0]).Amount
			esc := w.TokenBalance(ctx, tok, w.Module)
			if sup.BigInt().Cmp(esc) > 0 {
				bad = append(bad, fmt.Sprintf("externally owned contract %s: voucher supply %s > escrowed tokens %s", p.AddrStr, sup, esc))
			}
		}
	}
	return bad
}

func uniq(in []string) []string {
	seen := map[string]bool{}
	var out []string
	for _, s := range in {
		if !seen[s] {
			seen[s] = true
			out = append(out, s)
		}
	}
	return out
}

// isAlias reports whether denom is the hex form of addr (GetTokenPairID resolves hex strings as addresses).
func isAlias(denom string, addr common.Address) bool {
	return common.IsHexAddress(denom) && common.HexToAddress(denom) == addr
}

// judge applies the exact-amount ledger and the refusal statements to one delivered conversion.
// dir is "coin->erc20" or "erc20->coin"; p is the reference pair record (nil if none).
func (m *Conv) judge(t *rapid.T, dir string, res kit.TxResult, before, after Snapshot, dumpBefore kit.Dump, p *Pair,
	senderAcc sdk.AccAddress, senderAddr common.Address, recvAcc sdk.AccAddress, recvAddr common.Address, denom string, x sdk.Int, what string) {
	w := m.W
	if !res.OK() {
		dumpAfter := w.StateDump()
		if dumpBefore.Digest() != dumpAfter.Digest() {
			t.Fatalf("failed conversion changed state: %s\nlog: %.300s\ndiff:\n%s\nhistory:\n  %s", what, res.Log, kit.DiffString(kit.Diff(dumpBefore, dumpAfter), 12), m.history())
		}
		return
	}
	// success: refusal statements first
	if !w.ModuleEnabled {
		t.Fatalf("conversion succeeded while the module is disabled: %s\nhistory:\n  %s", what, m.history())
	}
	if p == nil {
		t.Fatalf("conversion succeeded although no pair record matches it: %s\nhistory:\n  %s", what, m.history())
	}
	if !p.Enabled {
		t.Fatalf("conversion succeeded while pair %s is disabled: %s\nhistory:\n  %s", p.AddrStr, what, m.history())
	}
	if w.IsBlocked(recvAcc) {
		t.Fatalf("conversion paid out to blocked address %s: %s\nhistory:\n  %s", recvAcc, what, m.history())
	}
	if !p.Lists(denom) && !isAlias(denom, p.Addr) {
		t.Fatalf("conversion succeeded for denomination %s which pair %s %v does not list: %s\nhistory:\n  %s", denom, p.AddrStr, p.Denoms, what, m.history())
	}
	// exact ledger
	amt := x.BigInt()
	neg := new(big.Int).Neg(amt)
	exp := Delta{}
	voucherOnly := p.Owner == aggtypes.OWNER_EXTERNAL && denom == aggtypes.CreateDenom(p.AddrStr)
	switch {
	case dir == "coin->erc20" && p.Owner == aggtypes.OWNER_MODULE:
		exp.Add("bank:"+BankKey(senderAcc, denom), neg)
		exp.Add("bank:"+BankKey(w.ModAcc, denom), amt)
		exp.Add("tok:"+TokKey(p.Addr, recvAddr), amt)
		exp.Add("tok:"+TokSupplyKey(p.Addr), amt)
	case dir == "coin->erc20":
		exp.Add("bank:"+BankKey(senderAcc, denom), neg)
		exp.Add("supply:"+denom, neg)
		exp.Add("tok:"+TokKey(p.Addr, w.Module), neg)
		exp.Add("tok:"+TokKey(p.Addr, recvAddr), amt)
	case p.Owner == aggtypes.OWNER_MODULE:
		exp.Add("tok:"+TokKey(p.Addr, senderAddr), neg)
		exp.Add("tok:"+TokSupplyKey(p.Addr), neg)
		exp.Add("bank:"+BankKey(w.ModAcc, denom), neg)
		exp.Add("bank:"+BankKey(recvAcc, denom), amt)
	default:
		exp.Add("tok:"+TokKey(p.Addr, senderAddr), neg)
		exp.Add("tok:"+TokKey(p.Addr, w.Module), amt)
		exp.Add("supply:"+denom, amt)
		exp.Add("bank:"+BankKey(recvAcc, denom), amt)
	}
	obs := Diff(before, after)
	if p.Owner == aggtypes.OWNER_EXTERNAL && !voucherOnly {
		// a coin added to an externally owned pair (or the hex alias): the statement fixes what sender
		// and receiver see; whether the module mints/burns or escrows that coin is not stated.
		for _, k := range []string{"supply:" + denom, "bank:" + BankKey(w.ModAcc, denom)} {
			delete(obs, k)
			delete(exp, k)
		}
	}
	if bad := Compare(obs, exp); len(bad) > 0 {
		t.Fatalf("successful conversion did not move exactly the amount: %s\n%s\nhistory:\n  %s", what, strings.Join(bad, "\n"), m.history())
	}
}

// Step performs one drawn action of the C11 machine.
func (m *Conv) Step(t *rapid.T) {
	w := m.W
	m.R.Step()
	// disabled states are kept short (a third of the steps ends one), otherwise most conversions of a
	// history would be refused for the same reason
	if !w.ModuleEnabled && rapid.IntRange(0, 3).Draw(t, "endModuleOutage") == 0 {
		w.SetModuleEnabled(true)
		m.logf("gov sets EnableAggregate=true")
	}
	for _, q := range w.ReadRegistry(w.C.Ctx()).Pairs {
		if !q.Enabled && rapid.IntRange(0, 3).Draw(t, "endPairOutage") == 0 {
			if err, _ := w.Toggle(q.Addr.Hex()); err != nil {
				kit.Failf("toggle back failed: %v", err)
			}
			m.noteToggle(q.Addr.Hex())
			m.logf("gov toggles %s (pair now enabled=true)", q.Addr.Hex())
		}
	}
	ctx := w.C.Ctx()
	reg := w.ReadRegistry(ctx)
	// a pair's enabled flag changes only through toggle proposals (conversions are refused while it is off)
	if m.wantEnabled == nil {
		m.wantEnabled = map[string]bool{}
	}
	for _, q := range reg.Pairs {
		want, known := m.wantEnabled[q.Addr.Hex()]
		if !known {
			m.wantEnabled[q.Addr.Hex()] = q.Enabled
			continue
		}
		if q.Enabled != want {
			t.Fatalf("pair %s [%s] is stored with enabled=%v although the toggle proposals so far leave it enabled=%v: conversions would be %s\nhistory:\n  %s",
				q.Addr.Hex(), strings.Join(q.Denoms, " "), q.Enabled, want, map[bool]string{true: "accepted while the pair is disabled", false: "refused while the pair is enabled"}[q.Enabled], m.history())
		}
	}
	kind := rapid.SampledFrom([]string{
		"convertCoin", "convertCoin", "convertCoin", "convertCoin", "convertCoin", "convertCoin", "convertCoin", "convertCoin",
		"convertERC20", "convertERC20", "convertERC20", "convertERC20", "convertERC20", "convertERC20", "convertERC20", "convertERC20",
		"erc20Transfer", "erc20Transfer", "erc20Burn", "toggle", "moduleParam", "sendEnabled", "flexMode", "flexMode", "commit", "addCoin",
	}).Draw(t, "action")
	userIdx := rapid.IntRange(0, 2).Draw(t, "user")
	u := w.Users[userIdx]
	switch kind {
	case "convertCoin":
		p := m.pickPair(t, reg)
		denom := p.Denoms[rapid.IntRange(0, len(p.Denoms)-1).Draw(t, "denomIdx")]
		denomClass := "listed"
		switch rapid.IntRange(0, 11).Draw(t, "denomClass") {
		case 0:
			denom, denomClass = CoinDenoms[rapid.IntRange(0, len(CoinDenoms)-1).Draw(t, "anyDenom")], "any-coin"
		case 1:
			denom, denomClass = strings.TrimPrefix(p.Addr.Hex(), "0x"), "hex-alias"
		}
		recvIdx := rapid.SampledFrom([]int{-1, -1, -1, -1, -1, -1, -1, -1, 0, 1, 2, 0, 1, 2, 3, 4, 5, 6}).Draw(t, "receiver")
		recv := u.Addr
		switch {
		case recvIdx >= 0 && recvIdx <= 2:
			recv = w.Users[recvIdx].Addr
		case recvIdx == 3:
			recv = common.BytesToAddress(FeeCollector)
		case recvIdx == 4:
			recv = w.Module
		case recvIdx == 5:
			recv = common.BytesToAddress(DistrModule)
		case recvIdx == 6:
			recv = common.Address{}
		}
		if sdk.ValidateDenom(denom) == nil && rapid.IntRange(0, 3).Draw(t, "preferHolder") != 0 {
			// prefer a sender that holds the coin (otherwise most attempts die on "insufficient funds")
			for i := 0; i < 3; i++ {
				if cand := (userIdx + i) % 3; w.App.BankKeeper.GetBalance(ctx, w.Users[cand].Acc, denom).Amount.IsPositive() {
					userIdx, u = cand, w.Users[cand]
					break
				}
			}
		}
		if recvIdx < 0 {
			recv = u.Addr
		}
		bal := sdk.ZeroInt()
		if sdk.ValidateDenom(denom) == nil {
			bal = w.App.BankKeeper.GetBalance(ctx, u.Acc, denom).Amount
		}
		x, cls := amountAround(t, bal)
		what := fmt.Sprintf("MsgConvertCoin{sender:user%d receiver:%s coin:%s%s} (sender balance %s, amount class %s, denom %s)", userIdx, m.who(recv), x, denom, bal, cls, denomClass)
		var ref *Pair
		if ps := reg.PairsOfDenom(denom); len(ps) == 1 {
			ref = &ps[0]
		} else if len(ps) == 0 && common.IsHexAddress(denom) {
			if qs := reg.PairsOfAddr(common.HexToAddress(denom)); len(qs) == 1 {
				ref = &qs[0]
			}
		}
		before, dump := w.Snap(ctx), w.StateDump()
		res := w.ConvertCoin(u, recv, denom, x)
		after := w.Snap(w.C.Ctx())
		m.logf("%s -> %s", what, outcome(res))
		m.judge(t, "coin->erc20", res, before, after, dump, ref, u.Acc, u.Addr, sdk.AccAddress(recv.Bytes()), recv, denom, x, what)
		m.account("coin->erc20", res, ref, denom, denomClass, cls, sdk.AccAddress(recv.Bytes()))
	case "convertERC20":
		p := m.pickPair(t, reg)
		denom := p.Denoms[rapid.IntRange(0, len(p.Denoms)-1).Draw(t, "denomIdx")]
		denomClass := "listed"
		switch rapid.IntRange(0, 11).Draw(t, "denomClass") {
		case 0:
			q := reg.Pairs[rapid.IntRange(0, len(reg.Pairs)-1).Draw(t, "otherPair")]
			denom, denomClass = q.Denoms[0], "denom-of-any-pair"
		case 1:
			denom, denomClass = strings.TrimPrefix(p.Addr.Hex(), "0x"), "hex-alias"
		case 2:
			denom, denomClass = "nosuchcoin", "unregistered"
		}
		// (the distribution module account, which may receive, is a receiver on the ERC-20 side only:
		// coins paid to it break the distribution module's own account invariant, which is not C11's subject)
		recvIdx := rapid.SampledFrom([]int{-1, -1, -1, -1, -1, -1, -1, -1, 0, 1, 2, 0, 1, 2, 3, 4}).Draw(t, "receiver")
		recv := u.Acc
		switch {
		case recvIdx >= 0 && recvIdx <= 2:
			recv = w.Users[recvIdx].Acc
		case recvIdx == 3:
			recv = FeeCollector
		case recvIdx == 4:
			recv = w.ModAcc
		}
		tok := w.TokenAt(p.Addr)
		if rapid.IntRange(0, 3).Draw(t, "preferHolder") != 0 {
			for i := 0; i < 3; i++ {
				if cand := (userIdx + i) % 3; w.TokenBalance(ctx, tok, w.Users[cand].Addr).Sign() > 0 {
					userIdx, u = cand, w.Users[cand]
					break
				}
			}
		}
		if recvIdx < 0 {
			recv = u.Acc
		}
		bal := sdk.NewIntFromBigInt(w.TokenBalance(ctx, tok, u.Addr))
		x, cls := amountAround(t, bal)
		if p.Owner == aggtypes.OWNER_MODULE && len(p.Denoms) > 1 && rapid.IntRange(0, 3).Draw(t, "aboveEscrow") == 0 {
			// more than the module holds of this one denomination but (possibly) within the sender's tokens
			if sdk.ValidateDenom(denom) == nil {
				x, cls = w.App.BankKeeper.GetBalance(ctx, w.ModAcc, denom).Amount.AddRaw(1), "escrow+1"
			}
		}
		what := fmt.Sprintf("MsgConvertERC20{sender:user%d receiver:%s contract:%s amount:%s denom:%s} (sender tokens %s, amount class %s, denom %s, token %s)",
			userIdx, m.who(common.BytesToAddress(recv)), p.Addr.Hex(), x, denom, bal, cls, denomClass, m.tokenDesc(tok))
		before, dump := w.Snap(ctx), w.StateDump()
		res := w.ConvertERC20(u, recv, p.Addr.Hex(), denom, x)
		after := w.Snap(w.C.Ctx())
		m.logf("%s -> %s", what, outcome(res))
		m.judge(t, "erc20->coin", res, before, after, dump, &p, u.Acc, u.Addr, recv, common.BytesToAddress(recv), denom, x, what)
		m.account("erc20->coin", res, &p, denom, denomClass, cls, recv)
	case "erc20Transfer", "erc20Burn":
		tok := w.Tokens[rapid.IntRange(0, len(w.Tokens)-1).Draw(t, "token")]
		bal := sdk.NewIntFromBigInt(w.TokenBalance(ctx, tok, u.Addr))
		x, _ := amountAround(t, bal)
		if kind == "erc20Burn" {
			a := ABI
			if tok.Kind == KindFlex {
				a = flexABI
			}
			res := w.EthCall(u, a, tok.Addr, "burn", x.BigInt())
			m.logf("user%d burns %s of %s -> ok=%v", userIdx, x, m.tokenDesc(tok), res.Succeeded())
			if res.Succeeded() && x.IsPositive() {
				m.R.Label("user_burn_ok/" + tok.Kind.String())
			}
		} else {
			to := rapid.SampledFrom([]common.Address{w.Users[0].Addr, w.Users[1].Addr, w.Users[2].Addr, w.Module, Thief}).Draw(t, "to")
			res := w.EthCall(u, ABI, tok.Addr, "transfer", to, x.BigInt())
			m.logf("user%d transfers %s of %s to %s -> ok=%v", userIdx, x, m.tokenDesc(tok), m.who(to), res.Succeeded())
			if res.Succeeded() && x.IsPositive() {
				m.R.Label("user_transfer_ok/" + tok.Kind.String())
			}
		}
	case "toggle":
		p := reg.Pairs[rapid.IntRange(0, len(reg.Pairs)-1).Draw(t, "pair")]
		if rapid.IntRange(0, 3).Draw(t, "preferDisabled") != 0 {
			for _, q := range reg.Pairs {
				if !q.Enabled {
					p = q
					break
				}
			}
		}
		key := p.Addr.Hex()
		if rapid.Bool().Draw(t, "byDenom") {
			key = p.Denoms[rapid.IntRange(0, len(p.Denoms)-1).Draw(t, "denomIdx")]
		}
		err, invalid := w.Toggle(key)
		if err != nil {
			kit.Failf("toggle %s failed: %v (invalid=%v)", key, err, invalid)
		}
		m.noteToggle(p.Addr.Hex())
		m.logf("gov toggles %s (pair %s now enabled=%v)", key, p.Addr.Hex(), !p.Enabled)
		m.R.Label("gov_toggle")
	case "addCoin":
		// governance adds a further, so far unregistered, coin denomination to an existing pair (enabled or not)
		p := reg.Pairs[rapid.IntRange(0, len(reg.Pairs)-1).Draw(t, "pair")]
		for _, q := range reg.Pairs {
			if !q.Enabled && rapid.Bool().Draw(t, "preferDisabledPair") {
				p = q
				break
			}
		}
		var free []string
		for _, d := range CoinDenoms {
			if _, taken := reg.ByDenom[d]; !taken {
				free = append(free, d)
			}
		}
		if len(free) == 0 {
			m.logf("addCoin: every coin denomination is registered")
			break
		}
		d := free[rapid.IntRange(0, len(free)-1).Draw(t, "freeDenom")]
		if _, ok := w.Meta[d]; !ok {
			w.Meta[d] = CoinMetadata(d, rapid.Bool().Draw(t, "nameEqualsBase"), "coin "+d)
		}
		err, _ := w.AddCoin(w.Meta[d], p.Addr.Hex())
		m.logf("gov adds coin %s to pair %s (enabled=%v) -> err=%v", d, p.Addr.Hex(), p.Enabled, err)
		if err == nil {
			m.R.Label(fmt.Sprintf("gov_addcoin_pair_enabled=%v", p.Enabled))
		} else {
			e := err.Error()
			if len(e) > 60 {
				e = e[:60]
			}
			m.R.Label("gov_addcoin_refused: " + e)
		}
	case "moduleParam":
		on := rapid.Bool().Draw(t, "on")
		if !w.ModuleEnabled && rapid.IntRange(0, 3).Draw(t, "reEnable") != 0 {
			on = true
		}
		w.SetModuleEnabled(on)
		m.logf("gov sets EnableAggregate=%v", on)
	case "sendEnabled":
		all := m.allDenoms(reg)
		d := all[rapid.IntRange(0, len(all)-1).Draw(t, "denom")]
		on := rapid.Bool().Draw(t, "on")
		w.SetSendEnabled(d, on)
		m.logf("gov sets SendEnabled[%s]=%v", d, on)
	case "flexMode":
		var flex []*Token
		for _, tk := range w.Tokens {
			if tk.Kind == KindFlex {
				flex = append(flex, tk)
			}
		}
		if len(flex) == 0 {
			t.Skip("no flex token")
		}
		tok := flex[rapid.IntRange(0, len(flex)-1).Draw(t, "flex")]
		mode := rapid.SampledFrom([]int{FlexHonest, FlexHonest, FlexHonest, FlexHonest, FlexFee, FlexFee, FlexNoopTrue, FlexMovesFalse, FlexBalanceZero, FlexBalanceFails}).Draw(t, "mode")
		w.FlexSetMode(u, tok, mode)
		m.logf("user%d sets mode of %s to %s", userIdx, tok.Addr.Hex(), flexModeName(mode))
	case "commit":
		w.C.Commit(5 * time.Second)
		m.logf("commit block")
	}
}

// pickPair draws a pair; while a FlexToken is in a misbehaving mode its pair is preferred half of the time.
func (m *Conv) pickPair(t *rapid.T, reg Registry) Pair {
	p := reg.Pairs[rapid.IntRange(0, len(reg.Pairs)-1).Draw(t, "pair")]
	if rapid.Bool().Draw(t, "preferMisbehaving") {
		for _, q := range reg.Pairs {
			if tok := m.W.TokenAt(q.Addr); tok != nil && tok.Kind == KindFlex && m.W.FlexMode(m.W.C.Ctx(), tok) != FlexHonest {
				return q
			}
		}
	}
	return p
}

// Invariant checks the backing statements after a step.
func (m *Conv) Invariant(t *rapid.T) {
	if bad := m.Backing(); len(bad) > 0 {
		t.Fatalf("backing violated: %s\nhistory:\n  %s", strings.Join(bad, "; "), m.history())
	}
}

func (m *Conv) allDenoms(reg Registry) []string {
	var ds []string
	for _, p := range reg.Pairs {
		ds = append(ds, p.Denoms...)
	}
	return uniq(ds)
}

func flexModeName(mode int) string {
	switch mode {
	case FlexHonest:
		return "honest"
	case FlexFee:
		return "fee-on-transfer"
	case FlexNoopTrue:
		return "noop-returns-true"
	case FlexMovesFalse:
		return "moves-returns-false"
	case FlexBalanceZero:
		return "balanceOf-reports-zero"
	case FlexBalanceFails:
		return "balanceOf-reverts"
	}
	return fmt.Sprint(mode)
}

func (m *Conv) tokenDesc(tok *Token) string {
	if tok == nil {
		return "untracked"
	}
	s := tok.Kind.String()
	if tok.Kind == KindFlex {
		s += "/" + flexModeName(m.W.FlexMode(m.W.C.Ctx(), tok))
	}
	return s
}

func (m *Conv) who(a common.Address) string {
	for i, u := range m.W.Users {
		if u.Addr == a {
			return fmt.Sprintf("user%d", i)
		}
	}
	switch a {
	case m.W.Module:
		return "aggregate-module(blocked)"
	case common.BytesToAddress(FeeCollector):
		return "fee-collector(blocked)"
	case common.BytesToAddress(DistrModule):
		return "distribution-module(allowed)"
	case Thief:
		return "thief"
	case common.Address{}:
		return "zero-address"
	}
	return a.Hex()
}

func outcome(res kit.TxResult) string {
	if res.OK() {
		return "ok"
	}
	return fmt.Sprintf("failed(code %d, %s)", res.Code, FailureKind(res.Log))
}

// account records evidence for one conversion.
func (m *Conv) account(dir string, res kit.TxResult, p *Pair, denom, denomClass, amountClass string, recv sdk.AccAddress) {
	w := m.W
	pl := "no-pair"
	var tok *Token
	if p != nil {
		pl = m.pairLabel(*p)
		tok = w.TokenAt(p.Addr)
	}
	misb := ""
	if tok != nil {
		switch tok.Kind {
		case KindDirect, KindDelayed:
			misb = tok.Kind.String()
		case KindFlex:
			if mode := w.FlexMode(w.C.Ctx(), tok); mode != FlexHonest {
				misb = "flex/" + flexModeName(mode)
			}
		}
	}
	if res.OK() {
		m.R.Label(dir + " ok " + pl)
		m.R.Label("amount_ok/" + amountClass)
		if dir == "coin->erc20" {
			m.okCoinToTok++
		} else {
			m.okTokToCoin++
		}
		m.okPairs[p.Addr] = true
		if len(p.Denoms) > 1 {
			m.okMulti = true
			m.R.Label("ok_on_multi_denomination_pair")
			m.okDenomsOfPair[p.AddrStr+"|"+denom] = true
		}
		if denomClass == "hex-alias" {
			m.R.Label("hex_alias_denom_ok")
		}
		if misb != "" {
			m.R.Label("misbehaving_ok/" + misb)
			m.misbehavingTried[misb] = true
		}
		if w.SendDisabled[denom] {
			m.R.Label("ok_with_send_disabled_denom(self)")
		}
		return
	}
	fk := FailureKind(res.Log)
	m.failKinds[fk] = true
	m.R.Label("fail/" + fk)
	m.R.Label(dir + " fail " + pl)
	m.R.Label("amount_fail/" + amountClass)
	if misb != "" {
		m.R.Label("misbehaving_refused/" + misb + "/" + fk)
		m.misbehavingTried[misb] = true
	}
	if w.IsBlocked(recv) {
		m.R.Label("blocked_receiver_attempt_refused")
	}
	if !w.ModuleEnabled {
		m.R.Label("attempt_while_module_disabled_refused")
	}
	if p != nil && !p.Enabled {
		m.R.Label("attempt_while_pair_disabled_refused")
	}
}

// Finish records the case.
func (m *Conv) Finish() {
	m.W.VerifyViews(m.W.C.Ctx())
	multiDenomsUsed := 0
	for range m.okDenomsOfPair {
		multiDenomsUsed++
	}
	nontrivial := (m.okCoinToTok+m.okTokToCoin >= 4 && m.okCoinToTok > 0 && m.okTokToCoin > 0 && len(m.okPairs) >= 2 && m.okMulti) || len(m.misbehavingTried) > 0
	var fk, mb []string
	for k := range m.failKinds {
		fk = append(fk, k)
	}
	for k := range m.misbehavingTried {
		mb = append(mb, k)
	}
	sort.Strings(fk)
	sort.Strings(mb)
	shape := fmt.Sprintf("pairs=%d c2t=%d t2c=%d okPairs=%d multi=%v/%d fails=%v misb=%v", len(m.setup), min(m.okCoinToTok, 6), min(m.okTokToCoin, 6), len(m.okPairs), m.okMulti, multiDenomsUsed, fk, mb)
	m.R.Case(shape, nontrivial, func() interface{} { return m.Hist })
	if m.okCoinToTok > 0 && m.okTokToCoin > 0 {
		m.R.Label("case_with_both_directions")
	}
	if multiDenomsUsed >= 2 {
		m.R.Label("case_converting_two_denominations_of_one_pair")
	}
}

// RunConversions is the C11 property body.
func RunConversions(t *rapid.T, r *rec.Recorder) {
	m := SetupConv(t, r)
	m.Invariant(t)
	defer m.Finish()
	t.Repeat(map[string]func(*rapid.T){
		"step": m.Step,
		"":     m.Invariant,
	})
}
