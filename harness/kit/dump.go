package kit

import (
	"bytes"
	"crypto/sha256"
	"encoding/hex"
	"fmt"
	"sort"

	sdk "github.com/cosmos/cosmos-sdk/types"
)

// KV is one store entry.
type KV struct{ K, V []byte }

// Dump is an ordered dump of named stores.
type Dump map[string][]KV

// DumpStores dumps the named KV stores (e.g. "xibc", "aggregate", "evm", "bank") of ctx in key order.
func (c *Chain) DumpStores(ctx sdk.Context, names ...string) Dump {
	d := Dump{}
	for _, n := range names {
		key := c.App.GetKey(n)
		if key == nil {
			Failf("no store key %q", n)
		}
		st := ctx.KVStore(key)
		it := st.Iterator(nil, nil)
		var kvs []KV
		for ; it.Valid(); it.Next() {
			kvs = append(kvs, KV{K: append([]byte{}, it.Key()...), V: append([]byte{}, it.Value()...)})
		}
		it.Close()
		d[n] = kvs
	}
	return d
}

// Digest is a sha256 over the dump.
func (d Dump) Digest() string {
	names := make([]string, 0, len(d))
	for n := range d {
		names = append(names, n)
	}
	sort.Strings(names)
	h := sha256.New()
	for _, n := range names {
		fmt.Fprintf(h, "store:%s:%d\n", n, len(d[n]))
		for _, kv := range d[n] {
			fmt.Fprintf(h, "%d:%x=%d:%x\n", len(kv.K), kv.K, len(kv.V), kv.V)
		}
	}
	return hex.EncodeToString(h.Sum(nil))
}

// DiffEntry describes one differing key.
type DiffEntry struct {
	Store  string
	Key    []byte
	Before []byte // nil = absent
	After  []byte // nil = absent
}

func (e DiffEntry) String() string {
	f := func(b []byte) string {
		if b == nil {
			return "<absent>"
		}
		if len(b) > 48 {
			return fmt.Sprintf("%x…(%d)", b[:48], len(b))
		}
		return fmt.Sprintf("%x", b)
	}
	return fmt.Sprintf("%s[%q]: %s -> %s", e.Store, printable(e.Key), f(e.Before), f(e.After))
}

func printable(b []byte) string {
	out := make([]byte, 0, len(b))
	for _, c := range b {
		if c >= 0x20 && c < 0x7f {
			out = append(out, c)
		} else {
			out = append(out, []byte(fmt.Sprintf("\\x%02x", c))...)
		}
	}
	return string(out)
}

// Diff lists keys that differ between two dumps of the same stores.
func Diff(a, b Dump) []DiffEntry {
	var out []DiffEntry
	names := map[string]bool{}
	for n := range a {
		names[n] = true
	}
	for n := range b {
		names[n] = true
	}
	sorted := make([]string, 0, len(names))
	for n := range names {
		sorted = append(sorted, n)
	}
	sort.Strings(sorted)
	for _, n := range sorted {
		x, y := a[n], b[n]
		i, j := 0, 0
		for i < len(x) || j < len(y) {
			switch {
			case j >= len(y) || (i < len(x) && bytes.Compare(x[i].K, y[j].K) < 0):
				out = append(out, DiffEntry{Store: n, Key: x[i].K, Before: nz(x[i].V)})
				i++
			case i >= len(x) || bytes.Compare(x[i].K, y[j].K) > 0:
				out = append(out, DiffEntry{Store: n, Key: y[j].K, After: nz(y[j].V)})
				j++
			default:
				if !bytes.Equal(x[i].V, y[j].V) {
					out = append(out, DiffEntry{Store: n, Key: x[i].K, Before: nz(x[i].V), After: nz(y[j].V)})
				}
				i++
				j++
			}
		}
	}
	return out
}

func nz(b []byte) []byte {
	if b == nil {
		return []byte{}
	}
	return b
}

// DiffString renders at most n entries.
func DiffString(d []DiffEntry, n int) string {
	var buf bytes.Buffer
	for i, e := range d {
		if i >= n {
			fmt.Fprintf(&buf, "… %d more\n", len(d)-n)
			break
		}
		buf.WriteString(e.String())
		buf.WriteByte('\n')
	}
	return buf.String()
}
