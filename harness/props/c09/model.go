package c09

import (
	"bytes"
	"math/big"
	"sort"

	"github.com/ethereum/go-ethereum/common"
)

// Reference model of property C09 (pure Go, nothing from the client under test).
//
// State: head (number, hash, gas limit), the validator list in force, the list announced by the
// last epoch header ("pending"), who sealed which height, and the lowest height whose sealer is
// still remembered. A candidate is described abstractly (Cand); Violations lists every rule of the
// property text it breaks; it is acceptable iff the list is empty.

type Cand struct {
	Number     uint64
	ParentHash common.Hash
	Coinbase   common.Address
	// SealedBy is the account whose key signed exactly these header contents for this chain id
	// (nil: the 65 seal bytes are not such a signature by anyone the generator knows).
	SealedBy   *common.Address
	Difficulty *big.Int
	ExtraLen   int
	// ValidatorBytes is the part of the extra data between vanity and seal (nil when ExtraLen < 97).
	ValidatorBytes []byte
	GasLimit       uint64
	GasUsed        uint64
	MixDigest      common.Hash
	UncleHash      common.Hash
	Root           common.Hash
	Hash           common.Hash
}

type Model struct {
	E        uint64
	HeadNum  uint64
	HeadHash common.Hash
	HeadGas  uint64
	Vals     []common.Address // list in force, in the order it was carried
	Pending  []common.Address // list carried by the last epoch header (or the genesis header)
	Sealed   map[uint64]common.Address
	Floor    uint64 // sealers of heights below Floor are forgotten
	Roots    map[uint64]common.Hash
	Genesis  uint64
}

const (
	RNumber     = "number"
	RParent     = "parent"
	RExtra      = "extra"
	RGas        = "gas"
	RMix        = "mix"
	RUncle      = "uncle"
	RSeal       = "seal"
	RMember     = "member"
	RRecent     = "recent"
	RDifficulty = "difficulty"
)

var emptyUncles = common.HexToHash("0x1dcc4de8dec75d7aab85b567b6ccd41ad312451b948a7413f0a142fd40d49347")

func sortedAddrs(l []common.Address) []common.Address {
	out := append([]common.Address{}, l...)
	sort.Slice(out, func(i, j int) bool { return bytes.Compare(out[i][:], out[j][:]) < 0 })
	return out
}

func member(l []common.Address, a common.Address) bool {
	for _, x := range l {
		if x == a {
			return true
		}
	}
	return false
}

// Window is the number of most recent blocks a sealer must be absent from: floor(N/2).
func (m *Model) Window() uint64 { return uint64(len(m.Vals) / 2) }

// LastSealedWithin returns the distance d (1 = previous block) to the most recent remembered block
// within the last floor(N/2) blocks before `next` that addr sealed, or 0 if there is none.
func (m *Model) LastSealedWithin(addr common.Address, next uint64) uint64 {
	for d := uint64(1); d <= m.Window(); d++ {
		if d > next {
			break
		}
		h := next - d
		if h < m.Floor {
			break
		}
		if s, ok := m.Sealed[h]; ok && s == addr {
			return d
		}
	}
	return 0
}

// InTurn: the in-turn sealer of block n is the (n mod N)-th address of the ascending validator list.
func (m *Model) InTurn(addr common.Address, n uint64) bool {
	s := sortedAddrs(m.Vals)
	if len(s) == 0 {
		return false
	}
	return s[n%uint64(len(s))] == addr
}

// Eligible reports whether addr may seal block HeadNum+1.
func (m *Model) Eligible(addr common.Address) bool {
	return member(m.Vals, addr) && m.LastSealedWithin(addr, m.HeadNum+1) == 0
}

// Violations lists the rules of the property text the candidate breaks (empty = acceptable).
func (m *Model) Violations(c Cand) []string {
	var v []string
	next := m.HeadNum + 1
	if c.Number != next {
		v = append(v, RNumber)
	}
	if c.ParentHash != m.HeadHash {
		v = append(v, RParent)
	}
	// extra data: 32 vanity + 65 seal; validator bytes only on epoch headers, there a multiple of 20
	switch {
	case c.ExtraLen < 32+65:
		v = append(v, RExtra)
	case c.Number%m.E != 0 && len(c.ValidatorBytes) != 0:
		v = append(v, RExtra)
	case c.Number%m.E == 0 && len(c.ValidatorBytes)%20 != 0:
		v = append(v, RExtra)
	}
	// gas bounds
	gasOK := c.GasLimit <= 0x7fffffffffffffff && c.GasUsed <= c.GasLimit && c.GasLimit >= 5000
	if gasOK {
		var diff uint64
		if c.GasLimit > m.HeadGas {
			diff = c.GasLimit - m.HeadGas
		} else {
			diff = m.HeadGas - c.GasLimit
		}
		if diff >= m.HeadGas/256 {
			gasOK = false
		}
	}
	if !gasOK {
		v = append(v, RGas)
	}
	if c.MixDigest != (common.Hash{}) {
		v = append(v, RMix)
	}
	if c.UncleHash != emptyUncles {
		v = append(v, RUncle)
	}
	// sealed by the account named as coinbase
	if c.SealedBy == nil || *c.SealedBy != c.Coinbase {
		v = append(v, RSeal)
	}
	// ... which belongs to the current validator set
	if !member(m.Vals, c.Coinbase) {
		v = append(v, RMember)
	}
	// ... has not sealed any of the last floor(N/2) blocks
	if m.LastSealedWithin(c.Coinbase, next) != 0 {
		v = append(v, RRecent)
	}
	// ... and used the difficulty that matches its turn
	want := int64(1)
	if m.InTurn(c.Coinbase, next) {
		want = 2
	}
	if c.Difficulty == nil || c.Difficulty.Cmp(big.NewInt(want)) != 0 {
		v = append(v, RDifficulty)
	}
	return v
}

func parseList(b []byte) []common.Address {
	var out []common.Address
	for i := 0; i+20 <= len(b); i += 20 {
		out = append(out, common.BytesToAddress(b[i:i+20]))
	}
	return out
}

// SetChange classifies old -> new validator lists.
func SetChange(old, nw []common.Address) string {
	so, sn := sortedAddrs(old), sortedAddrs(nw)
	inOld := map[common.Address]bool{}
	for _, a := range so {
		inOld[a] = true
	}
	kept := 0
	for _, a := range sn {
		if inOld[a] {
			kept++
		}
	}
	added, removed := len(sn)-kept, len(so)-kept
	switch {
	case added == 0 && removed == 0:
		return "same"
	case removed == 0:
		return "grow"
	case added == 0:
		return "shrink"
	case len(sn) == len(so):
		return "replace"
	case len(sn) > len(so):
		return "grow+replace"
	default:
		return "shrink+replace"
	}
}

// Apply moves the model over an accepted header. It returns the set-change kind when the
// validator list in force was switched by this block ("" otherwise).
func (m *Model) Apply(c Cand) string {
	n := c.Number
	if n%m.E == 0 {
		m.Pending = parseList(c.ValidatorBytes)
	}
	change := ""
	if n%m.E == uint64(len(m.Vals)/2) {
		change = SetChange(m.Vals, m.Pending)
		m.Vals = append([]common.Address{}, m.Pending...)
	}
	m.Sealed[n] = c.Coinbase
	// the sealer of a block is remembered for floor(N/2) further blocks under the list in force
	// after this block (N/2+1 heights including this one); older ones are forgotten for good
	if w := uint64(len(m.Vals) / 2); n >= w && n-w > m.Floor {
		m.Floor = n - w
	}
	m.HeadNum, m.HeadHash, m.HeadGas = n, c.Hash, c.GasLimit
	m.Roots[n] = c.Root
	return change
}
