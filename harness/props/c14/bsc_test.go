package c14

import (
	"fmt"
	"math/big"
	"sync"
	"testing"

	"github.com/ethereum/go-ethereum/common"
	"pgregory.net/rapid"

	bsctypes "github.com/teleport-network/teleport/x/xibc/clients/light-clients/bsc/types"

	"verif/harness/kit"
	"verif/harness/rec"
	"verif/harness/sim/bscsim"
)

// The BSC client keeps its validators and recent signers in Go maps. This test replays one tape-driven
// Parlia history (validator sets that grow and shrink at epoch boundaries, sealers drawn from the whole
// key pool so that many candidates are refused, repeated sealers inside and just outside the window)
// several times on branches of the same state: every verdict and the final client store must agree.

var (
	bscBaseOnce sync.Once
	bscBase     *kit.Chain
)

func bscBaseChain() *kit.Chain {
	bscBaseOnce.Do(func() { bscBase = kit.NewChain("teleport_9000-1", kit.ChainOpts{Seed: []byte("c14bsc")}) })
	return bscBase
}

type bscRun struct {
	verdicts []string
	digest   string
}

func bscHistory(ch Chooser, steps int) bscRun {
	c := bscBaseChain()
	ctx, _ := c.Ctx().CacheContext()
	const chainID = 97
	var keys []bscsim.Key
	for i := 0; i < 6; i++ {
		keys = append(keys, bscsim.KeyFromSeed([]byte("c14bsc"), i))
	}
	keyOf := func(a common.Address) bscsim.Key {
		for _, k := range keys {
			if k.Addr == a {
				return k
			}
		}
		return keys[0]
	}
	pick := func(label string) []common.Address {
		n := 2 + ch.Intn(label+"/n", 4) // 2..5 validators
		var l []common.Address
		off := ch.Intn(label+"/off", 6)
		for i := 0; i < n; i++ {
			l = append(l, keys[(off+i)%6].Addr)
		}
		return bscsim.Sorted(l)
	}
	E := uint64(4 + ch.Intn("epoch", 4)) // 4..7
	cur := pick("set0")
	next := pick("set1")
	g := E * uint64(1+ch.Intn("genesisEpochs", 3))
	gh := &bscsim.Header{ParentHash: common.BytesToHash([]byte("p")), UncleHash: bscsim.EmptyUncleHash, Coinbase: cur[int(g)%len(cur)],
		Root: common.BytesToHash([]byte("r0")), Difficulty: big.NewInt(2), Number: g, GasLimit: 30_000_000, GasUsed: 1, Time: uint64(c.Now.Unix())}
	gh.Extra = bscsim.BuildExtra([32]byte{}, bscsim.AddrBytes(next))
	bscsim.Seal(gh, keyOf(gh.Coinbase), chainID)
	var vals [][]byte
	for _, a := range cur {
		vals = append(vals, a.Bytes())
	}
	cs := &bsctypes.ClientState{Header: *gh.ToProto(), ChainId: chainID, Epoch: E, BlockInteval: 3, Validators: vals,
		ContractAddress: common.BytesToAddress([]byte("x")).Bytes(), TrustingPeriod: 1 << 40}
	cons := &bsctypes.ConsensusState{Timestamp: gh.Time, Height: cs.Header.Height, Root: gh.Root.Bytes()}
	kit.Must(c.App.XIBCKeeper.ClientKeeper.CreateClient(ctx, "bsc-replay", cs, cons), "create bsc client")
	head := gh
	pending, switchAt := next, g+uint64(len(cur)/2)
	var out bscRun
	for i := 0; i < steps; i++ {
		n := head.Number + 1
		if n == switchAt && pending != nil {
			cur, pending = pending, nil
		}
		sealer := cur[ch.Intn("sealer", len(cur))]
		if ch.Intn("outsider", 12) == 0 {
			sealer = keys[ch.Intn("outsiderKey", 6)].Addr
		}
		diff := bscsim.DiffNoTurn
		if bscsim.InTurn(cur, n, sealer) {
			diff = bscsim.DiffInTurn
		}
		if ch.Intn("wrongDiff", 15) == 0 {
			diff = big.NewInt(3 - diff.Int64())
		}
		h := &bscsim.Header{ParentHash: head.Hash(), UncleHash: bscsim.EmptyUncleHash, Coinbase: sealer, Root: common.BytesToHash([]byte(fmt.Sprintf("r%d", n))),
			Difficulty: new(big.Int).Set(diff), Number: n, GasLimit: head.GasLimit, GasUsed: 1, Time: head.Time + 3}
		var mid []byte
		var carried []common.Address
		if n%E == 0 {
			carried = pick(fmt.Sprintf("set@%d", i))
			mid = bscsim.AddrBytes(carried)
		}
		h.Extra = bscsim.BuildExtra([32]byte{}, mid)
		bscsim.Seal(h, keyOf(sealer), chainID)
		cctx, write := ctx.CacheContext()
		err := c.App.XIBCKeeper.ClientKeeper.UpdateClient(cctx, "bsc-replay", h.ToProto())
		if err == nil {
			write()
			if carried != nil {
				pending, switchAt = carried, n+uint64(len(cur)/2)
			}
			head = h
			out.verdicts = append(out.verdicts, fmt.Sprintf("#%d by %s accepted", n, sealer.Hex()[:8]))
		} else {
			out.verdicts = append(out.verdicts, fmt.Sprintf("#%d by %s rejected", n, sealer.Hex()[:8]))
		}
	}
	out.digest = c.DumpStores(ctx, "xibc").Digest()
	return out
}

func TestC14_BscReplay(t *testing.T) {
	r := rec.For("TestC14_BscReplay", "tape-driven Parlia histories (2-5 validators out of 6 keys, epoch 4-7, sets replaced at every epoch, drawn sealers incl. recent ones, outsiders and wrong difficulty) "+
		"replayed 4 times on branches of the same state; all verdicts and the final xibc store digest must be equal; non-trivial = history with >= 1 accepted epoch header and >= 1 rejection; distinct by verdict pattern")
	rapid.Check(t, func(t *rapid.T) {
		steps := rapid.IntRange(10, 45).Draw(t, "steps")
		rc := &rapidChooser{t: t}
		first := bscHistory(rc, steps)
		acc, rej := 0, 0
		for _, v := range first.verdicts {
			if v[len(v)-8:] == "accepted" {
				acc++
			} else {
				rej++
			}
		}
		for k := 0; k < 3; k++ {
			tape := &Tape{Vals: rc.tape, Lenient: true}
			again := bscHistory(tape, steps)
			if d := firstDiff(first.verdicts, again.verdicts); d != "" {
				t.Fatalf("two replays of the same BSC header history disagree: %s", d)
			}
			if tape.Off {
				kit.Failf("replay with equal verdicts asked for other choices than the recorded run")
			}
			if again.digest != first.digest {
				t.Fatalf("two replays of the same BSC header history end in different client stores")
			}
		}
		r.LabelN("bsc_header_accepted", acc)
		r.LabelN("bsc_header_rejected", rej)
		shape := ""
		for _, v := range first.verdicts {
			shape += v[len(v)-8 : len(v)-7]
		}
		r.Case(shape, acc >= 6 && rej >= 1, func() interface{} { return first.verdicts })
	})
}
