package c19

// keys_test.go: (d) key injectivity (pure) and read-back of a real store through every iterator.

import (
	"bytes"
	"crypto/sha256"
	"encoding/hex"
	"fmt"
	"sort"
	"strings"
	"sync"
	"testing"

	sdk "github.com/cosmos/cosmos-sdk/types"
	"github.com/ethereum/go-ethereum/common"
	"pgregory.net/rapid"

	bsctypes "github.com/teleport-network/teleport/x/xibc/clients/light-clients/bsc/types"
	ethtypes "github.com/teleport-network/teleport/x/xibc/clients/light-clients/eth/types"
	tmtypes "github.com/teleport-network/teleport/x/xibc/clients/light-clients/tendermint/types"
	clienttypes "github.com/teleport-network/teleport/x/xibc/core/client/types"
	commitmenttypes "github.com/teleport-network/teleport/x/xibc/core/commitment/types"
	"github.com/teleport-network/teleport/x/xibc/core/host"
	packettypes "github.com/teleport-network/teleport/x/xibc/core/packet/types"
	"github.com/teleport-network/teleport/x/xibc/exported"

	"verif/harness/kf"
	"verif/harness/kit"
	"verif/harness/rec"
)

// Stable keys of the iterator findings: one per call site that splits a key with a binary height on '/'.
const (
	keyIterKeeperCons    = "slash-height-client-keeper-iterate-consensus-states"
	keyIterKeeperClients = "slash-height-client-keeper-iterate-clients"
	keyIterTMProcessed   = "slash-height-tm-iterate-processed-time"
	keyIterBSCAscending  = "slash-height-bsc-iterate-consensus-state-ascending"
	keyIterETHAscending  = "slash-height-eth-iterate-consensus-state-ascending"
)

var iterKeys = []string{keyIterKeeperCons, keyIterKeeperClients, keyIterTMProcessed, keyIterBSCAscending, keyIterETHAscending}

var (
	baseOnce sync.Once
	base     *kit.Chain
)

// baseChain is a kit chain without any XIBC client or packet state; cases work on cache branches of it.
func baseChain() *kit.Chain {
	baseOnce.Do(func() { base = kit.NewChain("teleport_9000-1", kit.ChainOpts{Seed: []byte("c19")}) })
	return base
}

type triple struct {
	Src, Dst string
	Seq      uint64
}

func (t triple) String() string { return fmt.Sprintf("(%s,%s,%d)", t.Src, t.Dst, t.Seq) }

// genTriples draws n pairwise distinct triples over a pool of near-miss names, with near-miss sequences.
func genTriples(t *rapid.T, pool []string, n int) []triple {
	var out []triple
	seen := map[triple]bool{}
	for tries := 0; len(out) < n && tries < 10*n; tries++ {
		var tr triple
		if len(out) > 0 && rapid.IntRange(0, 2).Draw(t, "nearMiss") > 0 {
			tr = out[rapid.IntRange(0, len(out)-1).Draw(t, "base")]
			switch rapid.IntRange(0, 4).Draw(t, "change") {
			case 0:
				tr.Src = rapid.SampledFrom(pool).Draw(t, "src")
			case 1:
				tr.Dst = rapid.SampledFrom(pool).Draw(t, "dst")
			case 2:
				tr.Src, tr.Dst = tr.Dst, tr.Src
			case 3:
				tr.Seq = genSeq().Draw(t, "seq")
			default: // decimal neighbours: 1 / 10 / 11, 12 / 2, x*10, x/10
				switch rapid.IntRange(0, 3).Draw(t, "dec") {
				case 0:
					tr.Seq = tr.Seq * 10
				case 1:
					tr.Seq = tr.Seq / 10
				case 2:
					tr.Seq = tr.Seq*10 + 1
				default:
					tr.Seq++
				}
			}
		} else {
			tr = triple{rapid.SampledFrom(pool).Draw(t, "src"), rapid.SampledFrom(pool).Draw(t, "dst"), genSeq().Draw(t, "seq")}
		}
		if !seen[tr] {
			seen[tr] = true
			out = append(out, tr)
		}
	}
	return out
}

func classifyTriples(ts []triple, c classes) {
	for i, a := range ts {
		classifyName(a.Src, c)
		classifyName(a.Dst, c)
		if a.Src == a.Dst {
			c.add("triple:src==dst")
		}
		if a.Seq >= 1<<63 {
			c.add("seq:>=2^63")
		}
		if a.Seq == 0 {
			c.add("seq:0")
		}
		for _, b := range ts[i+1:] {
			if related(a.Src, b.Src) || related(a.Dst, b.Dst) || related(a.Src, b.Dst) || related(a.Dst, b.Src) {
				c.add("triple:lookalike_names")
			}
			if a.Src == b.Dst && a.Dst == b.Src {
				c.add("triple:swapped_pair")
			}
			if a.Src == b.Src && a.Dst == b.Dst && a.Seq != b.Seq {
				sa, sb := fmt.Sprint(a.Seq), fmt.Sprint(b.Seq)
				if strings.HasPrefix(sa, sb) || strings.HasPrefix(sb, sa) {
					c.add("seq:decimal_prefix_pair")
				}
			}
			if a.Src+a.Dst == b.Src+b.Dst && a.Src != b.Src {
				c.add("triple:same_concatenation")
			}
		}
	}
}

const ruleKeyInjective = "sets of 2-8 (src,dst,seq) triples over pools of valid look-alike names (path keywords, prefix/suffix/case/look-alike variants, " +
	"length 3 and 64, full alphabet) with near-miss and full-range sequences, and sets of 2-8 (client name, height) with heights over the full uint64 " +
	"range biased to key bytes 0x2f/0x00/0xff and path keywords; oracle: all commitment/receipt/ack/relayer/nextSequenceSend keys of distinct triples and " +
	"all consensus-state/processed-time/iteration keys of distinct (name,height) are pairwise distinct, and the height parsers invert the key builders; " +
	"non-trivial = >=1 hostile class present; distinct by hostile-class set"

func TestC19_KeyInjective(t *testing.T) {
	r := rec.For("TestC19_KeyInjective", ruleKeyInjective)
	rapid.Check(t, func(t *rapid.T) {
		pool := genNamePool(t, rapid.IntRange(2, 5).Draw(t, "names"))
		ts := genTriples(t, pool, rapid.IntRange(2, 8).Draw(t, "triples"))
		owner := map[string]string{}
		put := func(kind string, key []byte, who string) {
			k := string(key)
			if prev, dup := owner[k]; dup && prev != who {
				t.Fatalf("key collision: %q is the %s key of %s and of %s", k, kind, prev, who)
			}
			owner[k] = who
		}
		for _, tr := range ts {
			put("commitment", host.PacketCommitmentKey(tr.Src, tr.Dst, tr.Seq), "commitment"+tr.String())
			put("receipt", host.PacketReceiptKey(tr.Src, tr.Dst, tr.Seq), "receipt"+tr.String())
			put("ack", host.PacketAcknowledgementKey(tr.Src, tr.Dst, tr.Seq), "ack"+tr.String())
			put("relayer", host.PacketRelayerKey(tr.Src, tr.Dst, tr.Seq), "relayer"+tr.String())
			put("nextSequenceSend", host.NextSequenceSendKey(tr.Src, tr.Dst), fmt.Sprintf("nextSeq(%s,%s)", tr.Src, tr.Dst))
			// parse-back of the send-sequence path by the host parser
			s, d, err := host.ParsePath(host.NextSequenceSendPath(tr.Src, tr.Dst))
			if err != nil || s != tr.Src || d != tr.Dst {
				t.Fatalf("ParsePath(NextSequenceSendPath(%q,%q)) = (%q,%q,%v)", tr.Src, tr.Dst, s, d, err)
			}
		}
		// heights
		n := rapid.IntRange(2, 8).Draw(t, "heights")
		type nh struct {
			Name string
			H    clienttypes.Height
		}
		var hs []nh
		cl := classes{}
		for i := 0; i < n; i++ {
			var h clienttypes.Height
			if i > 0 && rapid.IntRange(0, 2).Draw(t, "nearHeight") == 0 {
				h = hs[rapid.IntRange(0, i-1).Draw(t, "base")].H
				switch rapid.IntRange(0, 3).Draw(t, "hchange") {
				case 0:
					h.RevisionNumber, h.RevisionHeight = h.RevisionHeight, h.RevisionNumber
				case 1:
					h.RevisionHeight ^= 0x2f
				case 2:
					h.RevisionHeight <<= 8
				default:
					h.RevisionNumber++
				}
			} else {
				h = genHeight().Draw(t, "height")
			}
			hs = append(hs, nh{rapid.SampledFrom(pool).Draw(t, "client"), h})
			classifyHeight(h, cl)
		}
		for _, x := range hs {
			who := fmt.Sprintf("(%s,%s)", x.Name, x.H)
			put("consensusState", host.FullConsensusStateKey(x.Name, x.H), "cons"+who)
			put("consensusState(prefix store)", append([]byte("clients/"+x.Name+"/"), host.ConsensusStateKey(x.H)...), "cons"+who)
			// the full key addresses the entry the client store wrote ("clients/{name}/" + the client-store key) and is read back as
			// the chain name and height it was built for
			full := host.FullConsensusStateKey(x.Name, x.H)
			if want := append([]byte("clients/"+x.Name+"/"), host.ConsensusStateKey(x.H)...); !bytes.Equal(full, want) {
				t.Fatalf("FullConsensusStateKey(%s, %s) = %q does not address the client store entry %q", x.Name, x.H, full, want)
			}
			name, inner, ok := host.ParseFullClientKey(full)
			rn, rh, ok2 := host.ParseConsensusStateKey(inner)
			if !ok || !ok2 || name != x.Name || rn != x.H.RevisionNumber || rh != x.H.RevisionHeight {
				t.Fatalf("FullConsensusStateKey(%s, %s) is read back as (%q, %d-%d, ok=%v/%v)", x.Name, x.H, name, rn, rh, ok, ok2)
			}
			put("processedTime", host.FullClientKey(x.Name, tmtypes.ProcessedTimeKey(x.H)), "ptime"+who)
			put("iterationKey", host.FullClientKey(x.Name, tmtypes.IterationKey(x.H)), "iter"+who)
			put("clientState", host.FullClientStateKey(x.Name), "client("+x.Name+")")
			if got := tmtypes.GetHeightFromIterationKey(tmtypes.IterationKey(x.H)); !got.EQ(x.H) {
				t.Fatalf("TM GetHeightFromIterationKey(IterationKey(%s)) = %s", x.H, got)
			}
			if got := bsctypes.GetHeightFromIterationKey(host.ConsensusStateKey(x.H)); !got.EQ(x.H) {
				t.Fatalf("BSC GetHeightFromIterationKey(ConsensusStateKey(%s)) = %s", x.H, got)
			}
			if got := ethtypes.GetHeightFromIterationKey(host.ConsensusStateKey(x.H)); !got.EQ(x.H) {
				t.Fatalf("ETH GetHeightFromIterationKey(ConsensusStateKey(%s)) = %s", x.H, got)
			}
			if len(host.ConsensusStateKey(x.H)) != len(host.KeyConsensusStatePrefix)+1+16 {
				t.Fatalf("ConsensusStateKey(%s) is not fixed-width", x.H)
			}
		}
		classifyTriples(ts, cl)
		for _, k := range cl.list() {
			r.Label(k)
		}
		r.Case(cl.key(), len(cl) > 0, sampled("keyinjective", 1, func() interface{} {
			var hh []string
			for _, x := range hs {
				hh = append(hh, fmt.Sprintf("%s@%s", x.Name, x.H))
			}
			return map[string]interface{}{"triples": fmt.Sprint(ts), "heights": hh}
		}))
	})
}

// ---------------------------------------------------------------------------------------------
// packet store read-back

const rulePacketStore = "cache branch of a real app store; 1-10 distinct (src,dst,seq) triples over look-alike valid names written through SetPacketCommitment / " +
	"SetPacketReceipt / SetPacketAcknowledgement / SetNextSequenceSend (independently drawn subsets); oracle: GetAllPacketCommitments, GetAllPacketReceipts, " +
	"GetAllPacketAcks, GetAllPacketSendSeqs and GetAllPacketCommitmentsByPath return exactly the written (triple, value) sets; non-trivial = >=1 hostile class; " +
	"distinct by hostile-class set"

// diffRows compares two multisets of rows; "" when equal.
func diffRows(got, want []string) string {
	got, want = append([]string{}, got...), append([]string{}, want...)
	sort.Strings(got)
	sort.Strings(want)
	if strings.Join(got, "\n") == strings.Join(want, "\n") {
		return ""
	}
	var missing, extra []string
	g, w := map[string]int{}, map[string]int{}
	for _, x := range got {
		g[x]++
	}
	for _, x := range want {
		w[x]++
	}
	for _, x := range want {
		if g[x] < w[x] {
			missing = append(missing, x)
			g[x]++
		}
	}
	for _, x := range got {
		if w[x] < g[x] {
			extra = append(extra, x)
			w[x]++
		}
	}
	return fmt.Sprintf("did not read back exactly what was written: written %d, read %d\n missing (written, not read as such): %s\n extra (read, never written as such): %s",
		len(want), len(got), clip(fmt.Sprintf("%q", missing), 1500), clip(fmt.Sprintf("%q", extra), 1500))
}

// caught runs f and returns the panic of the code under test as text ("" = none); harness errors pass through.
func caught(f func()) (msg string) {
	defer func() {
		if e := recover(); e != nil {
			if he, ok := e.(kit.HarnessError); ok {
				panic(he)
			}
			msg = clip(fmt.Sprint(e), 400)
		}
	}()
	f()
	return ""
}

func valueFor(kind string, tr triple) []byte {
	h := sha256.Sum256([]byte(kind + tr.String()))
	return h[:]
}

// packetStoreDiff writes the triples (masks[i] selects commitment=1 / receipt=2 / ack=4 / send sequence=8)
// on a fresh cache branch through the packet keeper's setters and reads every iterator back. "" = exact.
func packetStoreDiff(c *kit.Chain, ts []triple, masks []int, probe triple) (msg string, written int) {
	pk := c.App.XIBCKeeper.PacketKeeper
	ctx, _ := c.Ctx().CacheContext()
	var wantC, wantR, wantA, wantS []string
	row := func(tr triple, data []byte) string {
		return fmt.Sprintf("%s|%s|%d|%x", tr.Src, tr.Dst, tr.Seq, data)
	}
	seqSet := map[[2]string]uint64{}
	for i, tr := range ts {
		mask := masks[i]
		if mask&1 != 0 {
			pk.SetPacketCommitment(ctx, tr.Src, tr.Dst, tr.Seq, valueFor("c", tr))
			wantC = append(wantC, row(tr, valueFor("c", tr)))
		}
		if mask&2 != 0 {
			pk.SetPacketReceipt(ctx, tr.Src, tr.Dst, tr.Seq)
			wantR = append(wantR, row(tr, []byte{1}))
		}
		if mask&4 != 0 {
			pk.SetPacketAcknowledgement(ctx, tr.Src, tr.Dst, tr.Seq, valueFor("a", tr))
			wantA = append(wantA, row(tr, valueFor("a", tr)))
		}
		if mask&8 != 0 {
			pk.SetNextSequenceSend(ctx, tr.Src, tr.Dst, tr.Seq)
			seqSet[[2]string{tr.Src, tr.Dst}] = tr.Seq // last write wins, as in any KV store
		}
	}
	var pairs [][2]string
	for k := range seqSet {
		pairs = append(pairs, k)
	}
	sort.Slice(pairs, func(i, j int) bool { return pairs[i][0]+"/"+pairs[i][1] < pairs[j][0]+"/"+pairs[j][1] })
	for _, k := range pairs {
		wantS = append(wantS, fmt.Sprintf("%s|%s|%d", k[0], k[1], seqSet[k]))
	}
	written = len(wantC) + len(wantR) + len(wantA) + len(wantS)
	var wantP []string
	for _, w := range wantC {
		if strings.HasPrefix(w, probe.Src+"|"+probe.Dst+"|") {
			wantP = append(wantP, w)
		}
	}
	states := func(f func() []packettypes.PacketState) func() []string {
		return func() (out []string) {
			for _, s := range f() {
				out = append(out, row(triple{s.SrcChain, s.DstChain, s.Sequence}, s.Data))
			}
			return
		}
	}
	checks := []struct {
		name string
		want []string
		read func() []string
	}{
		{"GetAllPacketCommitments", wantC, states(func() []packettypes.PacketState { return pk.GetAllPacketCommitments(ctx) })},
		{"GetAllPacketReceipts", wantR, states(func() []packettypes.PacketState { return pk.GetAllPacketReceipts(ctx) })},
		{"GetAllPacketAcks", wantA, states(func() []packettypes.PacketState { return pk.GetAllPacketAcks(ctx) })},
		{"GetAllPacketSendSeqs", wantS, func() (out []string) {
			for _, s := range pk.GetAllPacketSendSeqs(ctx) {
				out = append(out, fmt.Sprintf("%s|%s|%d", s.SrcChain, s.DstChain, s.Sequence))
			}
			return
		}},
		{fmt.Sprintf("GetAllPacketCommitmentsByPath(%q,%q)", probe.Src, probe.Dst), wantP,
			states(func() []packettypes.PacketState { return pk.GetAllPacketCommitmentsByPath(ctx, probe.Src, probe.Dst) })},
	}
	for _, ch := range checks {
		var got []string
		if m := caught(func() { got = ch.read() }); m != "" {
			return ch.name + " panicked while reading back stored keys: " + m, written
		}
		if d := diffRows(got, ch.want); d != "" {
			return ch.name + " " + d, written
		}
	}
	return "", written
}

func TestC19_PacketStoreReadBack(t *testing.T) {
	r := rec.For("TestC19_PacketStoreReadBack", rulePacketStore)
	c := baseChain()
	pk := c.App.XIBCKeeper.PacketKeeper
	{
		ctx, _ := c.Ctx().CacheContext()
		if n := len(pk.GetAllPacketCommitments(ctx)) + len(pk.GetAllPacketReceipts(ctx)) + len(pk.GetAllPacketAcks(ctx)) + len(pk.GetAllPacketSendSeqs(ctx)); n != 0 {
			kit.Failf("base chain already has %d packet entries", n)
		}
	}
	rapid.Check(t, func(t *rapid.T) {
		pool := genNamePool(t, rapid.IntRange(2, 5).Draw(t, "names"))
		ts := genTriples(t, pool, rapid.IntRange(1, 10).Draw(t, "triples"))
		// occasionally a long history on one path: more than a hundred consecutive sequences (iterators and list
		// queries must return every stored key, whatever their internal page size)
		if rapid.IntRange(0, 24).Draw(t, "bulk") == 0 {
			base := ts[0]
			if base.Seq > 1<<62 {
				base.Seq = 7
			}
			seen := map[triple]bool{}
			for _, x := range ts {
				seen[x] = true
			}
			for i, n := 1, rapid.IntRange(101, 230).Draw(t, "bulkCount"); i <= n; i++ {
				x := triple{base.Src, base.Dst, base.Seq + uint64(i)}
				if !seen[x] {
					seen[x] = true
					ts = append(ts, x)
				}
			}
			r.Label("bulk_over_100_triples")
		}
		masks := make([]int, len(ts))
		for i := range ts {
			masks[i] = rapid.IntRange(1, 15).Draw(t, "kinds")
		}
		probe := ts[rapid.IntRange(0, len(ts)-1).Draw(t, "pathOf")]
		msg, written := packetStoreDiff(c, ts, masks, probe)
		if msg != "" {
			t.Fatalf("%s\ntriples: %v masks: %v", msg, ts, masks)
		}
		cl := classes{}
		classifyTriples(ts, cl)
		for _, k := range cl.list() {
			r.Label(k)
		}
		r.LabelN("written_keys", written)
		r.Case(cl.key(), len(cl) > 0, sampled("packetstore", 1, func() interface{} { return fmt.Sprint(ts) }))
	})
}

// ---------------------------------------------------------------------------------------------
// client store read-back

type clientSpec struct {
	Name    string
	Type    string // tm | bsc | eth
	Heights []clienttypes.Height
}

func heightID(h clienttypes.Height) []byte { b := heightBytes(h); return b[:] }

func processedTimeOf(h clienttypes.Height) uint64 { return h.RevisionHeight*31 + h.RevisionNumber + 7 }

func ethHashOf(h clienttypes.Height) common.Hash { return sha256.Sum256(heightID(h)) }

func clientStateOf(typ string) exported.ClientState {
	switch typ {
	case "tm":
		return tmtypes.NewClientState("counterparty-1", tmtypes.DefaultTrustLevel, kit.TrustingPeriod, kit.UnbondingPeriod, kit.MaxClockDrift,
			clienttypes.NewHeight(1, 1), commitmenttypes.GetSDKSpecs(), commitmenttypes.MerklePrefix{KeyPrefix: []byte("xibc")}, 0)
	case "bsc":
		return &bsctypes.ClientState{ChainId: 56, Epoch: 200, BlockInteval: 3, TrustingPeriod: 1000}
	default:
		return &ethtypes.ClientState{ChainId: 1, TrustingPeriod: 1000}
	}
}

func consStateOf(typ string, h clienttypes.Height) exported.ConsensusState {
	switch typ {
	case "tm":
		return tmtypes.NewConsensusState(kit.Epoch, heightID(h), bytes.Repeat([]byte{1}, 32))
	case "bsc":
		return &bsctypes.ConsensusState{Timestamp: 1, Height: h, Root: heightID(h)}
	default:
		return &ethtypes.ConsensusState{Timestamp: 1, Height: h, Root: heightID(h)}
	}
}

// populate writes the specs through the keepers' / light clients' own setters.
func populate(c *kit.Chain, ctx sdk.Context, specs []clientSpec) {
	ck := c.App.XIBCKeeper.ClientKeeper
	for _, s := range specs {
		ck.SetClientState(ctx, s.Name, clientStateOf(s.Type))
		store := ck.ClientStore(ctx, s.Name)
		for _, h := range s.Heights {
			ck.SetClientConsensusState(ctx, s.Name, h, consStateOf(s.Type, h))
			switch s.Type {
			case "tm":
				tmtypes.SetProcessedTime(store, h, processedTimeOf(h))
				tmtypes.SetIterationKey(store, h)
			case "bsc":
				bsctypes.SetSigner(store, bsctypes.Signer{Height: h, Validator: heightID(h)})
			case "eth":
				store.Set(ethtypes.EthHeaderIndexKey(ethHashOf(h), h.RevisionHeight), heightID(h))
				ethtypes.SetEthConsensusRoot(store, h.RevisionHeight, common.BytesToHash(heightID(h)), ethHashOf(h))
			}
		}
	}
}

func withoutSlash(specs []clientSpec) (out []clientSpec, dropped int) {
	for _, s := range specs {
		n := clientSpec{Name: s.Name, Type: s.Type}
		for _, h := range s.Heights {
			if hasSlash(h) {
				dropped++
				continue
			}
			n.Heights = append(n.Heights, h)
		}
		out = append(out, n)
	}
	return
}

func consRow(name string, h exported.Height, id []byte) string {
	return fmt.Sprintf("%s@%d-%d id=%x", name, h.GetRevisionNumber(), h.GetRevisionHeight(), id)
}

// idOfCons extracts the identity the harness put into the stored consensus state.
func idOfCons(cs exported.ConsensusState) []byte {
	switch v := cs.(type) {
	case *tmtypes.ConsensusState:
		return v.Root
	case *bsctypes.ConsensusState:
		return v.Root
	case *ethtypes.ConsensusState:
		return v.Root
	}
	return []byte("unknown-type")
}

// The read-back checks, one per iterator call site. Each returns (got, want) rows.
type iterCheck struct {
	name string
	key  string // finding key ("" = none known)
	run  func(c *kit.Chain, ctx sdk.Context, specs []clientSpec) (got, want []string)
}

var iterChecks = []iterCheck{
	{"clientkeeper.IterateConsensusStates/GetAllConsensusStates", keyIterKeeperCons, func(c *kit.Chain, ctx sdk.Context, specs []clientSpec) (got, want []string) {
		for _, s := range specs {
			for _, h := range s.Heights {
				want = append(want, consRow(s.Name, h, heightID(h)))
			}
		}
		for _, ccs := range c.App.XIBCKeeper.ClientKeeper.GetAllConsensusStates(ctx) {
			for _, cs := range ccs.ConsensusStates {
				st, err := clienttypes.UnpackConsensusState(cs.ConsensusState)
				kit.Must(err, "unpack consensus state")
				got = append(got, consRow(ccs.ChainName, cs.Height, idOfCons(st)))
			}
		}
		return
	}},
	{"clientkeeper.IterateClients/GetAllGenesisClients", keyIterKeeperClients, func(c *kit.Chain, ctx sdk.Context, specs []clientSpec) (got, want []string) {
		typeName := map[string]string{"tm": exported.Tendermint, "bsc": exported.BSC, "eth": exported.ETH}
		for _, s := range specs {
			want = append(want, s.Name+" type="+typeName[s.Type])
		}
		c.App.XIBCKeeper.ClientKeeper.IterateClients(ctx, func(name string, cs exported.ClientState) bool {
			got = append(got, name+" type="+cs.ClientType())
			return false
		})
		return
	}},
	{"clientkeeper.GetAllClientMetadata (TM ExportMetadata -> IterateProcessedTime)", keyIterTMProcessed, func(c *kit.Chain, ctx sdk.Context, specs []clientSpec) (got, want []string) {
		for _, s := range specs {
			if s.Type != "tm" {
				continue
			}
			for _, h := range s.Heights {
				want = append(want, fmt.Sprintf("%s %x=%x", s.Name, tmtypes.ProcessedTimeKey(h), sdk.Uint64ToBigEndian(processedTimeOf(h))))
				// the iteration key written for the same height is client metadata as well (exported since the
				// C13 tm-iteration-keys-not-exported fix); it must be read back for exactly this height
				want = append(want, fmt.Sprintf("%s %x=%x", s.Name, tmtypes.IterationKey(h), host.ConsensusStateKey(h)))
			}
		}
		var gen []clienttypes.IdentifiedClientState
		for _, s := range specs {
			if s.Type == "tm" {
				gen = append(gen, clienttypes.NewIdentifiedClientState(s.Name, clientStateOf(s.Type)))
			}
		}
		md, err := c.App.XIBCKeeper.ClientKeeper.GetAllClientMetadata(ctx, gen)
		kit.Must(err, "GetAllClientMetadata")
		for _, m := range md {
			for _, kv := range m.Metadata {
				got = append(got, fmt.Sprintf("%s %x=%x", m.ChainName, kv.Key, kv.Value))
			}
		}
		return
	}},
	{"tendermint.IterateProcessedTime", keyIterTMProcessed, func(c *kit.Chain, ctx sdk.Context, specs []clientSpec) (got, want []string) {
		for _, s := range specs {
			if s.Type != "tm" {
				continue
			}
			for _, h := range s.Heights {
				want = append(want, fmt.Sprintf("%s %x=%x", s.Name, tmtypes.ProcessedTimeKey(h), sdk.Uint64ToBigEndian(processedTimeOf(h))))
			}
			tmtypes.IterateProcessedTime(c.App.XIBCKeeper.ClientKeeper.ClientStore(ctx, s.Name), func(k, v []byte) bool {
				got = append(got, fmt.Sprintf("%s %x=%x", s.Name, k, v))
				return false
			})
		}
		return
	}},
	{"tendermint.IterateConsensusStateAscending", "", func(c *kit.Chain, ctx sdk.Context, specs []clientSpec) (got, want []string) {
		return ascending(c, ctx, specs, "tm", tmtypes.IterateConsensusStateAscending)
	}},
	{"bsc.IterateConsensusStateAscending", keyIterBSCAscending, func(c *kit.Chain, ctx sdk.Context, specs []clientSpec) (got, want []string) {
		return ascending(c, ctx, specs, "bsc", bsctypes.IterateConsensusStateAscending)
	}},
	{"eth.IterateConsensusStateAscending", keyIterETHAscending, func(c *kit.Chain, ctx sdk.Context, specs []clientSpec) (got, want []string) {
		return ascending(c, ctx, specs, "eth", ethtypes.IterateConsensusStateAscending)
	}},
	{"bsc.GetRecentSigners + ExportMetadata", "", func(c *kit.Chain, ctx sdk.Context, specs []clientSpec) (got, want []string) {
		for _, s := range specs {
			if s.Type != "bsc" {
				continue
			}
			for _, h := range s.Heights {
				want = append(want, fmt.Sprintf("%s signer@%s=%x", s.Name, h, heightID(h)))
				want = append(want, fmt.Sprintf("%s md %s=%x", s.Name, "recentSingers/"+h.String(), heightID(h)))
			}
			store := c.App.XIBCKeeper.ClientKeeper.ClientStore(ctx, s.Name)
			signers, err := bsctypes.GetRecentSigners(store)
			if err != nil {
				got = append(got, "GetRecentSigners error: "+err.Error())
			}
			for _, sg := range signers {
				got = append(got, fmt.Sprintf("%s signer@%s=%x", s.Name, sg.Height, sg.Validator))
			}
			for _, kv := range clientStateOf("bsc").ExportMetadata(store) {
				got = append(got, fmt.Sprintf("%s md %s=%x", s.Name, kv.GetKey(), kv.GetValue()))
			}
		}
		return
	}},
	{"eth.ExportMetadata (header index, root main)", "", func(c *kit.Chain, ctx sdk.Context, specs []clientSpec) (got, want []string) {
		for _, s := range specs {
			if s.Type != "eth" {
				continue
			}
			for _, h := range s.Heights {
				want = append(want, fmt.Sprintf("%s md %s=%x", s.Name, ethtypes.EthHeaderIndexKey(ethHashOf(h), h.RevisionHeight), heightID(h)))
				want = append(want, fmt.Sprintf("%s md %s=%x", s.Name, ethtypes.EthRootMainKey(common.BytesToHash(heightID(h)), h.RevisionHeight),
					ethtypes.EthHeaderIndexKey(ethHashOf(h), h.RevisionHeight)))
			}
			store := c.App.XIBCKeeper.ClientKeeper.ClientStore(ctx, s.Name)
			for _, kv := range clientStateOf("eth").ExportMetadata(store) {
				got = append(got, fmt.Sprintf("%s md %s=%x", s.Name, kv.GetKey(), kv.GetValue()))
			}
		}
		return
	}},
}

// runIter evaluates one iterator check; "" = read back exactly the written set.
func runIter(ic iterCheck, c *kit.Chain, ctx sdk.Context, specs []clientSpec) string {
	var got, want []string
	if msg := caught(func() { got, want = ic.run(c, ctx, specs) }); msg != "" {
		return "panicked while reading back stored keys: " + msg
	}
	return diffRows(got, want)
}

func ascending(c *kit.Chain, ctx sdk.Context, specs []clientSpec, typ string, iter func(sdk.KVStore, func(exported.Height) bool)) (got, want []string) {
	for _, s := range specs {
		if s.Type != typ {
			continue
		}
		for _, h := range s.Heights {
			want = append(want, s.Name+"@"+h.String())
		}
		iter(c.App.XIBCKeeper.ClientKeeper.ClientStore(ctx, s.Name), func(h exported.Height) bool {
			got = append(got, s.Name+"@"+h.String())
			return false
		})
	}
	return
}

// dedupHeights: ETH metadata keys embed only the revision height, and two heights of one ETH client that
// differ only in revision number would overwrite each other's index entries by design of that key
// (EthHeaderIndexKey has no revision component); the generator keeps revision heights unique per ETH client.
func normalizeSpecs(specs []clientSpec) []clientSpec {
	for i := range specs {
		seen := map[clienttypes.Height]bool{}
		seenRH := map[uint64]bool{}
		var hs []clienttypes.Height
		for _, h := range specs[i].Heights {
			if seen[h] || (specs[i].Type == "eth" && seenRH[h.RevisionHeight]) {
				continue
			}
			seen[h] = true
			seenRH[h.RevisionHeight] = true
			hs = append(hs, h)
		}
		specs[i].Heights = hs
	}
	return specs
}

func genSpecs(t *rapid.T) []clientSpec {
	pool := genNamePool(t, rapid.IntRange(1, 4).Draw(t, "clients"))
	var specs []clientSpec
	for _, name := range pool {
		s := clientSpec{Name: name, Type: rapid.SampledFrom([]string{"tm", "tm", "bsc", "eth"}).Draw(t, "type")}
		n := rapid.IntRange(0, 6).Draw(t, "heights")
		for i := 0; i < n; i++ {
			s.Heights = append(s.Heights, genHeight().Draw(t, "height"))
		}
		specs = append(specs, s)
	}
	return normalizeSpecs(specs)
}

const ruleClientStore = "cache branch of a real app store; 1-4 clients (valid look-alike names; Tendermint/BSC/ETH) each with 0-6 consensus heights over the " +
	"full (revision, height) uint64 range biased to key bytes 0x2f/0x00/0xff and path keywords, written through SetClientState / SetClientConsensusState / " +
	"SetProcessedTime / SetIterationKey / SetSigner / ETH index setters; oracle: GetAllConsensusStates, IterateClients, GetAllClientMetadata, TM " +
	"IterateProcessedTime, TM/BSC/ETH IterateConsensusStateAscending, BSC GetRecentSigners, BSC/ETH ExportMetadata each return exactly the written set " +
	"(nothing dropped, duplicated, mis-parsed; no panic); heights containing byte 0x2f are withheld only from iterators with a listed known finding; " +
	"non-trivial = >=1 hostile class; distinct by hostile-class set"

// clientStoreDiff populates cache branches with the specs and evaluates every iterator check. Iterators
// with a listed finding read a branch from which heights containing byte 0x2f are withheld (exclude is
// told how many). "" = every iterator read back exactly the written set.
func clientStoreDiff(specs []clientSpec, exclude func(key string, n int)) string {
	c := baseChain()
	full, _ := c.Ctx().CacheContext()
	populate(c, full, specs)
	clean, dropped := withoutSlash(specs)
	var cleanCtx sdk.Context
	haveClean := false
	for _, ic := range iterChecks {
		ctx, use := full, specs
		if ic.key != "" && dropped > 0 && kf.Listed("C19", ic.key) {
			if !haveClean {
				cleanCtx, _ = c.Ctx().CacheContext()
				populate(c, cleanCtx, clean)
				haveClean = true
			}
			ctx, use = cleanCtx, clean
			if exclude != nil {
				exclude(ic.key, dropped)
			}
		}
		if d := runIter(ic, c, ctx, use); d != "" {
			return fmt.Sprintf("%s %s\nstore: %v", ic.name, d, renderSpecs(use))
		}
	}
	return ""
}

func runClientStore(t *rapid.T, r *rec.Recorder, specs []clientSpec) {
	seen := map[string]bool{}
	msg := clientStoreDiff(specs, func(key string, n int) {
		if !seen[key] { // one finding key can guard several iterator checks
			seen[key] = true
			for i := 0; i < n; i++ {
				r.Exclude(key)
			}
		}
	})
	if msg != "" {
		t.Fatalf("%s", msg)
	}
}

func TestC19_ClientStoreReadBack(t *testing.T) {
	r := rec.For("TestC19_ClientStoreReadBack", ruleClientStore)
	c := baseChain()
	{
		ctx, _ := c.Ctx().CacheContext()
		n := 0
		c.App.XIBCKeeper.ClientKeeper.IterateClients(ctx, func(string, exported.ClientState) bool { n++; return false })
		if n != 0 {
			kit.Failf("base chain already has %d clients", n)
		}
	}
	rapid.Check(t, func(t *rapid.T) {
		specs := genSpecs(t)
		runClientStore(t, r, specs)
		cl := classes{}
		nh := 0
		for _, s := range specs {
			classifyName(s.Name, cl)
			cl.add("client:" + s.Type)
			for _, h := range s.Heights {
				classifyHeight(h, cl)
				nh++
			}
		}
		for _, k := range cl.list() {
			r.Label(k)
		}
		r.LabelN("written_heights", nh)
		hostile := false
		for k := range cl {
			if strings.HasPrefix(k, "height:") && k != "height:realistic" || strings.HasPrefix(k, "name:") {
				hostile = true
			}
		}
		r.Case(cl.key(), hostile, sampled("clientstore", 1, func() interface{} { return renderSpecs(specs) }))
	})
}

func renderSpecs(specs []clientSpec) interface{} {
	var out []string
	for _, s := range specs {
		var hs []string
		for _, h := range s.Heights {
			hs = append(hs, fmt.Sprintf("%s(0x%s)", h, hex.EncodeToString(heightID(h))))
		}
		out = append(out, fmt.Sprintf("%s[%s]: %s", s.Name, s.Type, strings.Join(hs, " ")))
	}
	return out
}
