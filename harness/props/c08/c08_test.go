// C08 — EVM storage proofs bind contract, slot, value, root and height.
//
// Generated EVM worlds (sim/evmsim) + a catalogue of mutations of every proof component, judged by the
// independent reference verifier in ref.go; ETH and BSC clients are driven directly
// (ClientState.VerifyPacketCommitment / VerifyPacketAcknowledgement) against an in-memory client store
// holding the consensus states, and must agree with the reference and with each other.
package c08

import (
	"encoding/hex"
	"encoding/json"
	"fmt"
	"math"
	"math/big"
	"sort"
	"strings"
	"sync"
	"testing"

	"github.com/cosmos/cosmos-sdk/codec"
	codectypes "github.com/cosmos/cosmos-sdk/codec/types"
	"github.com/cosmos/cosmos-sdk/store/dbadapter"
	sdk "github.com/cosmos/cosmos-sdk/types"
	"github.com/ethereum/go-ethereum/common"
	dbm "github.com/tendermint/tm-db"
	"pgregory.net/rapid"

	bsctypes "github.com/teleport-network/teleport/x/xibc/clients/light-clients/bsc/types"
	ethtypes "github.com/teleport-network/teleport/x/xibc/clients/light-clients/eth/types"
	clienttypes "github.com/teleport-network/teleport/x/xibc/core/client/types"
	"github.com/teleport-network/teleport/x/xibc/core/host"

	"verif/harness/rec"
	"verif/harness/sim/evmsim"
)

const rule = "generated EVM worlds (1-43 accounts, 1-40 storage slots of the XIBC contract, a twin and a variant contract, a second world for another height), " +
	"claims over G-names and boundary uint64 sequences, values with 0-32 leading zero bytes, gating around head-height = delay±1, one mutation class per case " +
	"(address / account fields / account nodes / storage key / storage nodes / number of storage proofs / exclusion / claimed value / claimed path / stored leaf form / stored root / proof of other height / text encodings); " +
	"non-trivial = the unmutated proof in the canonical world is valid by the reference with account-trie depth>=2 and storage-trie depth>=2, gating passes, and the case is either unmutated or its mutation flips the reference verdict to invalid; " +
	"distinct by (mutation class, leading-zero count of the value, method, client set, depths)"

// ---- codec / client drivers --------------------------------------------------------------------

var (
	cdcOnce sync.Once
	cdcVal  codec.BinaryCodec
)

func cdc() codec.BinaryCodec {
	cdcOnce.Do(func() {
		reg := codectypes.NewInterfaceRegistry()
		clienttypes.RegisterInterfaces(reg)
		ethtypes.RegisterInterfaces(reg)
		bsctypes.RegisterInterfaces(reg)
		cdcVal = codec.NewProtoCodec(reg)
	})
	return cdcVal
}

// setup is everything the clients know: head, delay, stored consensus roots.
type setup struct {
	Rev    uint64
	Head   uint64
	Height uint64 // proof height
	Delay  uint64
	Cons   map[uint64][32]byte // revision height -> stored state root (same revision as head)
	// FieldSkew says what the Height FIELD inside the stored consensus states holds. States written by header updates carry
	// their own height; those installed by a create / upgrade / toggle proposal or a genesis file carry whatever the content
	// said (nothing validates it): "zero" = unset, "ahead" = far above the head, "behind" = 1000 lower. The key they are
	// stored under - the proof height - is what the property's height and delay rules speak about.
	FieldSkew string
	// ProofRev, when set, is the revision number of the PROOF height (the stored consensus states and the head are in Rev):
	// no consensus state exists at (ProofRev, Height), so nothing can be proven there
	ProofRev *uint64
}

// proofRev is the revision number the proof height is stated in.
func (s setup) proofRev() uint64 {
	if s.ProofRev != nil {
		return *s.ProofRev
	}
	return s.Rev
}

func (s setup) heightField(h uint64) clienttypes.Height {
	switch s.FieldSkew {
	case "zero":
		return clienttypes.Height{}
	case "ahead":
		if s.Head < math.MaxUint64-2000 {
			return clienttypes.NewHeight(s.Rev, s.Head+1000)
		}
		return clienttypes.NewHeight(s.Rev, math.MaxUint64)
	case "behind":
		if h > 1000 {
			return clienttypes.NewHeight(s.Rev, h-1000)
		}
		return clienttypes.NewHeight(s.Rev, 0)
	}
	return clienttypes.NewHeight(s.Rev, h)
}

type claim struct {
	Ack      bool
	Src, Dst string
	Seq      uint64
	Value    [32]byte
}

type outcome struct {
	Accepted bool
	Panicked bool
	Err      string
}

func short(s string) string {
	s = strings.Map(func(r rune) rune {
		if r < 0x20 || r > 0x7e {
			return '.'
		}
		return r
	}, s)
	if len(s) > 160 {
		return s[:160] + "..."
	}
	return s
}

func call(fn func() error) (o outcome) {
	defer func() {
		if e := recover(); e != nil {
			o = outcome{Accepted: false, Panicked: true, Err: short(fmt.Sprint("panic: ", e))}
		}
	}()
	if err := fn(); err != nil {
		return outcome{Err: short(err.Error())}
	}
	return outcome{Accepted: true}
}

// ethClient prepares an in-memory client store with the consensus states of s and the ETH client state.
func ethClient(s setup, contract []byte) (sdk.KVStore, ethtypes.ClientState) {
	store := dbadapter.Store{DB: dbm.NewMemDB()}
	for h, root := range s.Cons {
		ht := clienttypes.NewHeight(s.Rev, h)
		store.Set(host.ConsensusStateKey(ht), clienttypes.MustMarshalConsensusState(cdc(),
			&ethtypes.ConsensusState{Timestamp: 1_600_000_000 + h%1000, Height: s.heightField(h), Root: append([]byte(nil), root[:]...)}))
	}
	cs := ethtypes.ClientState{
		Header:          ethtypes.Header{Height: clienttypes.NewHeight(s.Rev, s.Head)},
		ChainId:         4,
		ContractAddress: contract,
		TrustingPeriod:  1 << 40,
		BlockDelay:      s.Delay,
	}
	store.Set(host.ClientStateKey(), clienttypes.MustMarshalClientState(cdc(), &cs))
	return store, cs
}

func verifyETH(store sdk.KVStore, cs ethtypes.ClientState, rev, height uint64, c claim, proof []byte) outcome {
	ht := clienttypes.NewHeight(rev, height)
	return call(func() error {
		if c.Ack {
			return cs.VerifyPacketAcknowledgement(sdk.Context{}, store, cdc(), ht, proof, c.Src, c.Dst, c.Seq, c.Value[:])
		}
		return cs.VerifyPacketCommitment(sdk.Context{}, store, cdc(), ht, proof, c.Src, c.Dst, c.Seq, c.Value[:])
	})
}

func runETH(s setup, contract []byte, c claim, proof []byte) outcome {
	store, cs := ethClient(s, contract)
	return verifyETH(store, cs, s.proofRev(), s.Height, c, proof)
}

// bscClient: BSC's delay is len(validators)/2+1, so delay d>=1 is configured with 2(d-1) (+1 if odd) validators.
func bscClient(s setup, odd bool, contract []byte) (sdk.KVStore, bsctypes.ClientState) {
	if s.Delay == 0 {
		evmsim.Failf("BSC cannot be configured with delay 0")
	}
	store := dbadapter.Store{DB: dbm.NewMemDB()}
	for h, root := range s.Cons {
		ht := clienttypes.NewHeight(s.Rev, h)
		store.Set(host.ConsensusStateKey(ht), clienttypes.MustMarshalConsensusState(cdc(),
			&bsctypes.ConsensusState{Timestamp: 1_600_000_000 + h%1000, Height: s.heightField(h), Root: append([]byte(nil), root[:]...)}))
	}
	n := 2 * (s.Delay - 1)
	if odd {
		n++
	}
	vals := make([][]byte, n)
	for i := range vals {
		vals[i] = make([]byte, 20)
		vals[i][19] = byte(i + 1)
	}
	cs := bsctypes.ClientState{
		Header:          bsctypes.Header{Height: clienttypes.NewHeight(s.Rev, s.Head)},
		ChainId:         56,
		Epoch:           200,
		BlockInteval:    3,
		Validators:      vals,
		ContractAddress: contract,
		TrustingPeriod:  1 << 40,
	}
	// the reference rule for BSC is floor(N/2)+1 confirmations for N validators (the sealing window of C09 plus one); the
	// client's own GetDelayBlock is deliberately NOT consulted: if it states another number the gating cases below fail
	store.Set(host.ClientStateKey(), clienttypes.MustMarshalClientState(cdc(), &cs))
	return store, cs
}

func verifyBSC(store sdk.KVStore, cs bsctypes.ClientState, rev, height uint64, c claim, proof []byte) outcome {
	ht := clienttypes.NewHeight(rev, height)
	return call(func() error {
		if c.Ack {
			return cs.VerifyPacketAcknowledgement(sdk.Context{}, store, cdc(), ht, proof, c.Src, c.Dst, c.Seq, c.Value[:])
		}
		return cs.VerifyPacketCommitment(sdk.Context{}, store, cdc(), ht, proof, c.Src, c.Dst, c.Seq, c.Value[:])
	})
}

func runBSC(s setup, odd bool, contract []byte, c claim, proof []byte) outcome {
	store, cs := bscClient(s, odd, contract)
	return verifyBSC(store, cs, s.proofRev(), s.Height, c, proof)
}

// gateOK is the reference's height rule: consensus state exists ∧ height ≤ head ∧ head − height ≥ delay.
func gateOK(s setup) bool {
	if _, ok := s.Cons[s.Height]; !ok || s.proofRev() != s.Rev {
		return false
	}
	return s.Height <= s.Head && s.Head-s.Height >= s.Delay
}

// leafWord is the 256-bit word an RLP string leaf denotes (ok=false if it denotes none).
func leafWord(leaf []byte) (w [32]byte, ok bool) {
	it, rest, err := rlpSplit(leaf)
	if err != nil || it.list || len(rest) != 0 || len(it.payload) > 32 {
		return w, false
	}
	copy(w[32-len(it.payload):], it.payload)
	return w, true
}

// truth: in world w the contract's slot denotes value (ground truth of the simulator, proof-independent).
func truth(w *evmsim.World, contract []byte, slot, value [32]byte) bool {
	if w == nil || len(contract) != 20 {
		return false
	}
	a := w.Account(common.BytesToAddress(contract))
	if a == nil {
		return false
	}
	leaf, ok := a.Storage[common.Hash(slot)]
	if !ok {
		return false
	}
	word, ok := leafWord(leaf)
	return ok && word == value
}

// ---- deterministic filler ----------------------------------------------------------------------

// prf expands a drawn seed into filler bytes (addresses, code hashes, random words).
type prf struct {
	seed []byte
	n    uint64
}

func (p *prf) bytes(n int) []byte {
	var out []byte
	for len(out) < n {
		var ctr [8]byte
		for i := 0; i < 8; i++ {
			ctr[i] = byte(p.n >> (8 * i))
		}
		p.n++
		h := keccak(p.seed, ctr[:])
		out = append(out, h[:]...)
	}
	return out[:n]
}

func (p *prf) word() (w [32]byte) { copy(w[:], p.bytes(32)); return }

// ---- generators --------------------------------------------------------------------------------

var names = []string{"eth", "bsc", "teleport", "tele-port", "a.b", "ab", "abc", "sequences", "acks", "commitments",
	"chain#1", "x[0]<y>", "rinkeby", "Teleport", "eth+bsc", "qa.net-0123456789.abcdefghijklmnopqrstuvwxyz.ABCDEFGHIJKLMNOPQRSTUV"}

func seqGen() *rapid.Generator[uint64] {
	return rapid.OneOf(
		rapid.SampledFrom([]uint64{0, 1, 2, 9, 10, 255, 256, math.MaxUint32 - 1, math.MaxUint32, math.MaxUint32 + 1,
			math.MaxInt64 - 1, math.MaxInt64, math.MaxInt64 + 1, math.MaxUint64 - 1, math.MaxUint64}),
		rapid.Uint64Range(0, 100),
		rapid.Uint64(),
	)
}

func countGen(lo, hi int) *rapid.Generator[int] {
	mid := lo + 4
	if mid > hi {
		mid = hi
	}
	return rapid.OneOf(rapid.IntRange(lo, mid), rapid.IntRange(lo, hi), rapid.IntRange(hi/2, hi))
}

// drawValue draws a 32-byte hash with a controlled number of leading zero bytes (lz).
func drawValue(t *rapid.T, p *prf, minLZ int) (v [32]byte, lz int) {
	kind := rapid.IntRange(0, 19).Draw(t, "valueKind")
	v = p.word()
	switch {
	case minLZ > 0 || kind < 8: // exactly k leading zero bytes
		lo := 1
		if minLZ > lo {
			lo = minLZ
		}
		k := rapid.IntRange(lo, 31).Draw(t, "leadingZeros")
		for i := 0; i < k; i++ {
			v[i] = 0
		}
		if v[k] == 0 {
			v[k] = 1
		}
	case kind == 8: // zero hash
		v = [32]byte{}
	case kind == 9: // trailing zeros (right-pad confusions)
		k := rapid.IntRange(1, 31).Draw(t, "trailingZeros")
		for i := 32 - k; i < 32; i++ {
			v[i] = 0
		}
		if v[0] == 0 {
			v[0] = 0x80
		}
	case kind == 10:
		for i := range v {
			v[i] = 0xff
		}
	case kind == 11: // first byte < 0x80 and single-byte payloads matter for RLP
		v = [32]byte{}
		v[31] = byte(rapid.IntRange(1, 255).Draw(t, "lastByte"))
	default:
		if v[0] == 0 {
			v[0] = 0x5a
		}
	}
	for lz < 32 && v[lz] == 0 {
		lz++
	}
	return v, lz
}

type entry struct {
	Ack      bool
	Src, Dst string
	Seq      uint64
	Value    [32]byte
}

func (e entry) slot() common.Hash {
	if e.Ack {
		return evmsim.Slot(evmsim.AckPath(e.Src, e.Dst, e.Seq))
	}
	return evmsim.Slot(evmsim.CommitmentPath(e.Src, e.Dst, e.Seq))
}

func (e entry) claim() claim {
	return claim{Ack: e.Ack, Src: e.Src, Dst: e.Dst, Seq: e.Seq, Value: e.Value}
}

// mutation classes. rapid's SampledFrom/IntRange are biased towards small indices, so the class and the
// gate are drawn through rapid.Permutation (uniform): every mutation class gets the same share, "none"
// (the positive control) about a quarter of all cases.
var mutationClasses = []string{
	// provably neutral or encoding-only: judged by the reference, never assumed
	"addr_case_prefix", "field_reencoded", "key_case_prefix", "acct_reorder", "sto_reorder",
	"acct_extra_unused", "sto_extra_unused", "acct_dup", "sto_dup", "json_cosmetic", "value_field_wrong",
	// contract
	"addr_other_account", "addr_twin_contract", "addr_truncated", "addr_padded",
	// account fields
	"field_nonce", "field_balance", "field_codehash", "field_storagehash_bitflip", "field_storagehash_variant",
	// account proof nodes
	"acct_drop_first", "acct_drop_last", "acct_drop_middle", "acct_bitflip", "acct_foreign", "acct_empty", "acct_node_truncated", "acct_node_padded",
	// storage proof nodes
	"sto_drop_first", "sto_drop_last", "sto_drop_middle", "sto_bitflip", "sto_foreign", "sto_empty", "sto_node_truncated", "sto_node_padded",
	// slot
	"key_other_slot_own_proof", "key_other_slot_same_value", "key_field_only", "key_nodes_only", "key_truncated", "key_padded",
	// number of storage proofs
	"zero_storage_proofs", "two_storage_proofs", "null_storage_proof",
	// absent key
	"exclusion", "exclusion_zero_value",
	// claimed value
	"value_random", "value_bitflip", "value_other_slots", "value_right_padded", "value_zero",
	// claimed path
	"path_other_seq", "path_swapped_chains", "path_method_swapped",
	// what the slot holds is not exactly the hash
	"stored_untrimmed", "stored_suffix_padded", "stored_prefix_padded", "stored_truncated", "stored_raw", "stored_list", "stored_noncanonical_rlp",
	// root / height
	"root_other_height", "root_random", "proof_other_height",
	// text that is not hex, JSON that is not a proof
	"hex_junk", "json_garbage",
}

var classTable = func() []string {
	out := append([]string(nil), mutationClasses...)
	for i := 0; i < len(mutationClasses)/3; i++ {
		out = append(out, "none")
	}
	return out
}()

// pickUniform draws one element of table with equal probability.
func pickUniform(t *rapid.T, table []string, label string) string {
	return rapid.Custom(func(t *rapid.T) string {
		idx := make([]int, len(table))
		for i := range idx {
			idx[i] = i
		}
		return table[rapid.Permutation(idx).Draw(t, "perm")[0]]
	}).Draw(t, label)
}

var gateTable = []string{
	"ok_exact", "ok_exact", "ok_exact", "ok_exact", "ok_more", "ok_more", "ok_more", "ok_more", "ok_far", "ok_far", "ok_far", "ok_far",
	"ok_exact", "ok_more", "ok_far", "ok_exact",
	"short_by_one", "at_head", "above_head", "no_consensus_state", "young_chain", "other_revision",
}

// ---- one generated case ------------------------------------------------------------------------

type built struct {
	canon    *evmsim.World // canonical world: every slot holds rlp(trim(value))
	w0       *evmsim.World // world at the proof height (== canon unless the class mutates the stored leaf / removes the key)
	w1       *evmsim.World // world of another height
	contract common.Address
	twin     common.Address
	variant  common.Address
	extras   []common.Address
	entries  []entry
	ti, oi   int
	w1Kind   string
	w1Value  [32]byte // what the target slot holds in w1 (zero when removed)
}

func variantValue(v [32]byte) [32]byte { return keccak([]byte("variant"), v[:]) }

func balanceOf(kind int, p *prf) *big.Int {
	switch kind {
	case 0:
		return new(big.Int)
	case 1:
		return new(big.Int).SetBytes(p.bytes(1))
	case 2:
		return new(big.Int).SetBytes(p.bytes(9))
	case 3:
		return new(big.Int).Sub(new(big.Int).Lsh(big.NewInt(1), 256), big.NewInt(1))
	default:
		return new(big.Int).SetBytes(p.bytes(12))
	}
}

func addrOf(p *prf) (a common.Address) { copy(a[:], p.bytes(20)); return }

// storedLeaf renders what the storage trie holds for an entry under a stored-form class.
func storedLeaf(form string, v [32]byte) []byte {
	switch form {
	case "stored_untrimmed":
		return evmsim.RLPString(v[:])
	case "stored_suffix_padded":
		return evmsim.RLPString(append(append([]byte{}, v[:]...), 0))
	case "stored_prefix_padded":
		return evmsim.RLPString(append([]byte{0}, v[:]...))
	case "stored_truncated":
		return evmsim.RLPString(v[:31])
	case "stored_raw":
		return append([]byte{}, v[:]...)
	case "stored_list":
		return append([]byte{0xc0 + 33}, evmsim.RLPString(v[:])...)
	case "stored_noncanonical_rlp": // long-form length for a short string
		t := evmsim.TrimLeft(v[:])
		return append([]byte{0xb8, byte(len(t))}, t...)
	}
	return evmsim.WordLeaf(common.Hash(v))
}

func buildWorlds(t *rapid.T, p *prf, class string) *built {
	b := &built{}
	nExtra := countGen(0, 40).Draw(t, "extraAccounts")
	nSlots := countGen(1, 40).Draw(t, "slots")
	switch class {
	case "key_other_slot_own_proof", "key_other_slot_same_value", "key_field_only", "key_nodes_only", "value_other_slots", "two_storage_proofs":
		if nSlots < 2 {
			nSlots = 2
		}
	}
	minLZ := 0
	if class == "value_right_padded" || class == "stored_untrimmed" {
		minLZ = 1
	}
	seen := map[common.Hash]bool{}
	for len(b.entries) < nSlots {
		e := entry{
			Ack: rapid.Bool().Draw(t, "ack"),
			Src: rapid.SampledFrom(names).Draw(t, "src"),
			Dst: rapid.SampledFrom(names).Draw(t, "dst"),
			Seq: seqGen().Draw(t, "seq"),
		}
		for seen[e.slot()] { // keep slots distinct without discarding the case
			e.Seq += 7
		}
		seen[e.slot()] = true
		if len(b.entries) == 0 {
			e.Value, _ = drawValue(t, p, minLZ)
		} else if len(b.entries) < 4 {
			e.Value, _ = drawValue(t, p, 0)
		} else {
			e.Value = p.word()
		}
		b.entries = append(b.entries, e)
	}
	// the target is entry 0 moved to a drawn position so that it is not always the first inserted
	b.ti = rapid.IntRange(0, nSlots-1).Draw(t, "targetIndex")
	b.entries[0], b.entries[b.ti] = b.entries[b.ti], b.entries[0]
	b.oi = -1
	if nSlots > 1 {
		b.oi = (b.ti + 1 + rapid.IntRange(0, nSlots-2).Draw(t, "otherIndex")) % nSlots
		if class == "key_other_slot_same_value" || rapid.IntRange(0, 5).Draw(t, "shareValue") == 0 {
			b.entries[b.oi].Value = b.entries[b.ti].Value
		} else if b.entries[b.oi].Value == b.entries[b.ti].Value {
			b.entries[b.oi].Value = p.word()
			b.entries[b.oi].Value[0] |= 1
		}
	}
	if class == "exclusion_zero_value" {
		b.entries[b.ti].Value = [32]byte{}
	}
	target := b.entries[b.ti]

	b.contract, b.twin, b.variant = addrOf(p), addrOf(p), addrOf(p)
	codeHash := common.Hash(p.word())
	balKind := rapid.IntRange(0, 5).Draw(t, "balanceKind")
	nonce := rapid.SampledFrom([]uint64{0, 1, 1, 1, 2, 127, 128, 255, 256, math.MaxUint64}).Draw(t, "nonce")

	mk := func(targetLeaf []byte, dropTarget bool, mod func(map[common.Address]*evmsim.Account)) *evmsim.World {
		cst, vst := map[common.Hash][]byte{}, map[common.Hash][]byte{}
		for i, e := range b.entries {
			if i == b.ti {
				vst[e.slot()] = evmsim.WordLeaf(common.Hash(variantValue(e.Value)))
				if dropTarget {
					continue
				}
				cst[e.slot()] = targetLeaf
				continue
			}
			cst[e.slot()] = evmsim.WordLeaf(common.Hash(e.Value))
			vst[e.slot()] = evmsim.WordLeaf(common.Hash(variantValue(e.Value)))
		}
		q := &prf{seed: append([]byte("accounts"), p.seed...)}
		accts := map[common.Address]*evmsim.Account{
			b.contract: {Addr: b.contract, Nonce: nonce, Balance: balanceOf(balKind, q), CodeHash: codeHash, Storage: cst},
			b.twin:     {Addr: b.twin, Nonce: 1, Balance: new(big.Int), CodeHash: codeHash, Storage: cst},
			b.variant:  {Addr: b.variant, Nonce: nonce, Balance: balanceOf(balKind, q), CodeHash: codeHash, Storage: vst},
		}
		b.extras = b.extras[:0]
		for i := 0; i < nExtra; i++ {
			a := addrOf(q)
			if _, dup := accts[a]; dup {
				continue
			}
			b.extras = append(b.extras, a)
			accts[a] = &evmsim.Account{Addr: a, Nonce: uint64(q.bytes(1)[0]), Balance: balanceOf(int(q.bytes(1)[0])%5, q), CodeHash: evmsim.EmptyCode}
		}
		if mod != nil {
			mod(accts)
		}
		var list []*evmsim.Account
		for _, a := range accts {
			list = append(list, a)
		}
		sort.Slice(list, func(i, j int) bool { return string(list[i].Addr[:]) < string(list[j].Addr[:]) })
		return evmsim.NewWorld(list)
	}

	canonLeaf := evmsim.WordLeaf(common.Hash(target.Value))
	b.canon = mk(canonLeaf, false, nil)
	switch {
	case strings.HasPrefix(class, "stored_"):
		b.w0 = mk(storedLeaf(class, target.Value), false, nil)
	case class == "exclusion" || class == "exclusion_zero_value":
		b.w0 = mk(nil, true, nil)
	default:
		b.w0 = b.canon
	}

	// another height
	b.w1Kind = rapid.SampledFrom([]string{"target_changed", "target_changed", "target_removed", "other_account_changed", "slot_added"}).Draw(t, "otherHeight")
	if b.w1Kind == "target_removed" && (class == "exclusion" || class == "exclusion_zero_value") {
		b.w1Kind = "target_changed" // w0 already lacks the key
	}
	switch b.w1Kind {
	case "target_changed":
		b.w1Value = keccak([]byte("later"), target.Value[:])
		b.w1 = mk(evmsim.WordLeaf(common.Hash(b.w1Value)), false, nil)
	case "target_removed":
		b.w1 = mk(nil, true, nil)
	case "other_account_changed":
		b.w1Value = target.Value
		b.w1 = mk(canonLeaf, false, func(m map[common.Address]*evmsim.Account) {
			m[b.twin].Balance = big.NewInt(424242)
		})
	default:
		b.w1Value = target.Value
		extra := entry{Ack: !target.Ack, Src: "later", Dst: "slot", Seq: target.Seq, Value: keccak([]byte("added"))}
		b.w1 = mk(canonLeaf, false, func(m map[common.Address]*evmsim.Account) {
			st := map[common.Hash][]byte{}
			for k, v := range m[b.contract].Storage {
				st[k] = v
			}
			st[extra.slot()] = evmsim.WordLeaf(common.Hash(extra.Value))
			m[b.contract].Storage = st
		})
	}
	if b.w1.Root() == b.w0.Root() {
		evmsim.Failf("other-height world has the same root (%s)", b.w1Kind)
	}
	return b
}

// ---- text helpers ------------------------------------------------------------------------------

func upperHex(s string) string {
	if strings.HasPrefix(s, "0x") {
		return "0x" + strings.ToUpper(s[2:])
	}
	return strings.ToUpper(s)
}

func reText(t *rapid.T, s, label string) string {
	switch rapid.IntRange(0, 3).Draw(t, label) {
	case 0:
		return upperHex(s)
	case 1:
		return strings.TrimPrefix(s, "0x")
	case 2:
		return "0X" + strings.TrimPrefix(s, "0x")
	default:
		return strings.ToUpper(strings.TrimPrefix(s, "0x"))
	}
}

func mustHex(s string) []byte {
	b, err := hex.DecodeString(strings.TrimPrefix(s, "0x"))
	evmsim.Must(err, "hex of generated node")
	return b
}

type nodeOps struct{ t *rapid.T }

func (o nodeOps) idx(n int, label string) int { return rapid.IntRange(0, n-1).Draw(o.t, label) }

// mutateNodes applies a node-list mutation; returns the new list and the label actually applied.
func mutateNodes(t *rapid.T, op string, nodes []string, foreign []string, unused []string) ([]string, string) {
	o := nodeOps{t}
	n := len(nodes)
	out := append([]string(nil), nodes...)
	if n == 0 {
		return out, "noop"
	}
	switch op {
	case "drop_first":
		return out[1:], op
	case "drop_last":
		return out[:n-1], op
	case "drop_middle":
		if n < 3 {
			i := o.idx(n, "dropIndex")
			return append(out[:i], out[i+1:]...), "drop_any"
		}
		i := 1 + o.idx(n-2, "dropIndex")
		return append(out[:i], out[i+1:]...), op
	case "dup":
		i := o.idx(n, "dupIndex")
		j := o.idx(n+1, "dupAt")
		out = append(out[:j], append([]string{nodes[i]}, out[j:]...)...)
		return out, op
	case "reorder":
		if n == 1 {
			return out, "reorder_single"
		}
		if rapid.Bool().Draw(t, "reverse") {
			for i, j := 0, n-1; i < j; i, j = i+1, j-1 {
				out[i], out[j] = out[j], out[i]
			}
		} else {
			k := 1 + o.idx(n-1, "rotate")
			out = append(out[k:], out[:k]...)
		}
		return out, op
	case "bitflip":
		i := o.idx(n, "flipNode")
		b := mustHex(out[i])
		pos := o.idx(len(b)*8, "flipBit")
		b[pos/8] ^= 1 << (pos % 8)
		out[i] = evmsim.Hex(b)
		return out, op
	case "node_truncated":
		i := o.idx(n, "truncNode")
		b := mustHex(out[i])
		if rapid.Bool().Draw(t, "truncFront") {
			out[i] = evmsim.Hex(b[1:])
		} else {
			out[i] = evmsim.Hex(b[:len(b)-1])
		}
		return out, op
	case "node_padded":
		i := o.idx(n, "padNode")
		b := mustHex(out[i])
		pad := byte(rapid.SampledFrom([]int{0, 0x80, 0xff}).Draw(t, "padByte"))
		if rapid.Bool().Draw(t, "padFront") {
			out[i] = evmsim.Hex(append([]byte{pad}, b...))
		} else {
			out[i] = evmsim.Hex(append(b, pad))
		}
		return out, op
	case "foreign":
		if len(foreign) == 0 {
			return out, "noop"
		}
		i := o.idx(n, "foreignAt")
		j := i
		if j >= len(foreign) {
			j = len(foreign) - 1
		}
		out[i] = foreign[j]
		return out, op
	case "extra_unused":
		if len(unused) == 0 {
			return out, "noop"
		}
		x := unused[o.idx(len(unused), "unusedNode")]
		j := o.idx(n+1, "unusedAt")
		out = append(out[:j], append([]string{x}, out[j:]...)...)
		return out, op
	case "empty":
		return []string{}, op
	}
	evmsim.Failf("unknown node op %s", op)
	return nil, ""
}

// ---- the property ------------------------------------------------------------------------------

type sample struct {
	Class    string `json:"class"`
	Applied  string `json:"applied"`
	Gate     string `json:"gate"`
	Head     uint64 `json:"head"`
	Height   uint64 `json:"proof_height"`
	Delay    uint64 `json:"delay"`
	Rev      uint64 `json:"revision"`
	Method   string `json:"method"`
	Src      string `json:"src"`
	Dst      string `json:"dst"`
	Seq      uint64 `json:"seq"`
	Value    string `json:"claimed_value"`
	LZ       int    `json:"leading_zero_bytes"`
	Accounts int    `json:"accounts"`
	Slots    int    `json:"slots"`
	Depth    string `json:"depth_account/storage"`
	Ref      string `json:"reference"`
	ETH      string `json:"eth"`
	BSC      string `json:"bsc"`
	Proof    string `json:"proof_json_abbrev"`
}

func abbrev(js []byte) string {
	s := string(js)
	var out strings.Builder
	run := 0
	for i := 0; i < len(s); i++ {
		c := s[i]
		isHex := (c >= '0' && c <= '9') || (c >= 'a' && c <= 'f') || (c >= 'A' && c <= 'F')
		if isHex {
			run++
			if run <= 20 {
				out.WriteByte(c)
			}
			continue
		}
		if run > 20 {
			fmt.Fprintf(&out, "…(%d hex)", run)
		}
		run = 0
		out.WriteByte(c)
	}
	if out.Len() > 1800 {
		return out.String()[:1800] + "…"
	}
	return out.String()
}

func verdictStr(o outcome) string {
	if o.Accepted {
		return "accept"
	}
	if o.Panicked {
		return "reject(" + o.Err + ")"
	}
	return "reject: " + o.Err
}

func runCase(t *rapid.T, r *rec.Recorder) {
	class := pickUniform(t, classTable, "class")
	gate := pickUniform(t, gateTable, "gate")
	p := &prf{seed: rapid.SliceOfN(rapid.Byte(), 8, 8).Draw(t, "seed")}
	b := buildWorlds(t, p, class)
	target := b.entries[b.ti]
	slot := target.slot()
	contract := append([]byte(nil), b.contract[:]...)

	base := b.canon.Prove(b.contract, slot)
	baseJSON, err := json.Marshal(base)
	evmsim.Must(err, "marshal base proof")
	baseRef, baseInfo := refVerify(baseJSON, b.canon.Root(), contract, refSlot(target.Ack, target.Src, target.Dst, target.Seq), target.Value)
	if baseRef.V != Valid {
		evmsim.Failf("reference rejects an unmutated simulator proof: %s", baseRef.Reason)
	}

	// ---- mutation ----
	proof := b.w0.Prove(b.contract, slot)
	cl := target.claim()
	rootAtH := [32]byte(b.w0.Root())
	applied := class
	var proofJSON []byte
	customJSON := false
	acctForeign := b.w1.Prove(b.contract, slot).AccountProof
	stoForeign := b.w1.Prove(b.contract, slot).StorageProof[0].Proof
	sp := proof.StorageProof[0]
	other := func() entry { return b.entries[b.oi] }

	switch class {
	case "none":
	case "addr_case_prefix":
		proof.Address = reText(t, proof.Address, "addrText")
	case "field_reencoded":
		switch rapid.IntRange(0, 4).Draw(t, "field") {
		case 0:
			w, _ := word(proof.Nonce)
			proof.Nonce = evmsim.Hex(w[:])
		case 1:
			w, _ := word(proof.Balance)
			proof.Balance = evmsim.Hex(w[:])
		case 2:
			proof.StorageHash = reText(t, proof.StorageHash, "shText")
		case 3:
			proof.CodeHash = reText(t, proof.CodeHash, "chText")
		default:
			proof.Nonce = reText(t, proof.Nonce, "nonceText")
			proof.Balance = "0x0" + strings.TrimPrefix(proof.Balance, "0x")
		}
	case "key_case_prefix":
		sp.Key = reText(t, sp.Key, "keyText")
	case "acct_reorder", "acct_dup", "acct_drop_first", "acct_drop_last", "acct_drop_middle", "acct_bitflip", "acct_foreign", "acct_extra_unused", "acct_empty", "acct_node_truncated", "acct_node_padded":
		unused := append(append([]string{}, sp.Proof...), acctForeign...)
		unused = append(unused, evmsim.Hex(p.bytes(40)), "0x", "0x80")
		var op string
		proof.AccountProof, op = mutateNodes(t, strings.TrimPrefix(class, "acct_"), proof.AccountProof, acctForeign, unused)
		applied = "acct_" + op
	case "sto_reorder", "sto_dup", "sto_drop_first", "sto_drop_last", "sto_drop_middle", "sto_bitflip", "sto_foreign", "sto_extra_unused", "sto_empty", "sto_node_truncated", "sto_node_padded":
		unused := append(append([]string{}, proof.AccountProof...), stoForeign...)
		unused = append(unused, evmsim.Hex(p.bytes(40)), "0x", "0x80")
		var op string
		sp.Proof, op = mutateNodes(t, strings.TrimPrefix(class, "sto_"), sp.Proof, stoForeign, unused)
		applied = "sto_" + op
	case "json_cosmetic":
		customJSON = true
		switch rapid.IntRange(0, 3).Draw(t, "cosmetic") {
		case 0:
			proofJSON, _ = json.MarshalIndent(proof, " ", "\t")
		case 1: // unknown extra fields, eth_getProof's own camelCase keys alongside
			m := map[string]interface{}{}
			js, _ := json.Marshal(proof)
			_ = json.Unmarshal(js, &m)
			m["codeHash"], m["storageHash"], m["accountProof"], m["extra"] = "0x00", "0x00", []string{"0x00"}, map[string]int{"a": 1}
			proofJSON, _ = json.Marshal(m)
		case 2: // duplicate key: the later one wins in encoding/json
			js, _ := json.Marshal(proof)
			proofJSON = append([]byte(`{"address":"0x0000000000000000000000000000000000000001",`), js[1:]...)
		default: // upper-case key names (encoding/json matches keys case-insensitively)
			js, _ := json.Marshal(proof)
			proofJSON = []byte(strings.NewReplacer(`"address"`, `"ADDRESS"`, `"nonce"`, `"Nonce"`, `"key"`, `"KEY"`).Replace(string(js)))
		}
	case "value_field_wrong":
		sp.Value = evmsim.Hex(p.bytes(32))
	case "addr_other_account", "addr_twin_contract":
		who := b.twin
		if class == "addr_other_account" {
			if len(b.extras) > 0 {
				who = b.extras[rapid.IntRange(0, len(b.extras)-1).Draw(t, "otherAccount")]
			} else {
				who = b.variant
			}
		}
		ap := b.w0.Prove(who)
		proof.Address, proof.AccountProof = ap.Address, ap.AccountProof
		proof.Balance, proof.Nonce, proof.CodeHash, proof.StorageHash = ap.Balance, ap.Nonce, ap.CodeHash, ap.StorageHash
	case "addr_truncated":
		a := mustHex(proof.Address)
		if rapid.Bool().Draw(t, "front") {
			proof.Address = evmsim.Hex(a[1:])
		} else {
			proof.Address = evmsim.Hex(a[:19])
		}
	case "addr_padded":
		a := mustHex(proof.Address)
		if rapid.Bool().Draw(t, "front") {
			proof.Address = evmsim.Hex(append([]byte{0}, a...))
		} else {
			proof.Address = evmsim.Hex(append(a, 0))
		}
	case "field_nonce":
		w, _ := word(proof.Nonce)
		n := new(big.Int).SetBytes(w[:])
		n.Add(n, big.NewInt(int64(rapid.SampledFrom([]int{1, 255, 256}).Draw(t, "nonceDelta"))))
		proof.Nonce = evmsim.Quantity(n)
	case "field_balance":
		w, _ := word(proof.Balance)
		n := new(big.Int).SetBytes(w[:])
		if n.Sign() > 0 && rapid.Bool().Draw(t, "balanceDown") {
			n.Sub(n, big.NewInt(1))
		} else if n.BitLen() < 256 {
			n.Add(n, big.NewInt(1))
		} else {
			n.SetInt64(0)
		}
		proof.Balance = evmsim.Quantity(n)
	case "field_codehash":
		if rapid.Bool().Draw(t, "emptyCode") {
			proof.CodeHash = evmsim.Hex(evmsim.EmptyCode[:])
		} else {
			c := mustHex(proof.CodeHash)
			c[rapid.IntRange(0, 31).Draw(t, "chByte")] ^= 1 << rapid.IntRange(0, 7).Draw(t, "chBit")
			proof.CodeHash = evmsim.Hex(c)
		}
	case "field_storagehash_bitflip":
		c := mustHex(proof.StorageHash)
		c[rapid.IntRange(0, 31).Draw(t, "shByte")] ^= 1 << rapid.IntRange(0, 7).Draw(t, "shBit")
		proof.StorageHash = evmsim.Hex(c)
	case "field_storagehash_variant":
		// the attacker's own contract holds the claimed value at the slot; only the account leaf binds storage_hash
		vp := b.w0.Prove(b.variant, slot)
		proof.StorageHash = vp.StorageHash
		proof.StorageProof = vp.StorageProof
		cl.Value = variantValue(target.Value)
	case "key_other_slot_own_proof", "key_other_slot_same_value":
		op := b.w0.Prove(b.contract, other().slot())
		proof.StorageProof = op.StorageProof
	case "key_field_only":
		sp.Key = evmsim.Hex(other().slot().Bytes())
	case "key_nodes_only":
		sp.Proof = b.w0.Prove(b.contract, other().slot()).StorageProof[0].Proof
	case "key_truncated":
		k := mustHex(sp.Key)
		if rapid.Bool().Draw(t, "front") {
			sp.Key = evmsim.Hex(k[1:])
		} else {
			sp.Key = evmsim.Hex(k[:31])
		}
	case "key_padded":
		k := mustHex(sp.Key)
		if rapid.Bool().Draw(t, "front") {
			sp.Key = evmsim.Hex(append([]byte{byte(rapid.SampledFrom([]int{0, 1, 0xff}).Draw(t, "pad"))}, k...))
		} else {
			sp.Key = evmsim.Hex(append(k, 0))
		}
	case "zero_storage_proofs":
		proof.StorageProof = []*evmsim.StorageResult{}
	case "two_storage_proofs":
		o2 := b.w0.Prove(b.contract, other().slot()).StorageProof[0]
		switch rapid.IntRange(0, 2).Draw(t, "twoKind") {
		case 0:
			proof.StorageProof = []*evmsim.StorageResult{sp, o2}
		case 1:
			proof.StorageProof = []*evmsim.StorageResult{o2, sp}
		default:
			proof.StorageProof = []*evmsim.StorageResult{sp, sp}
		}
	case "null_storage_proof":
		proof.StorageProof = []*evmsim.StorageResult{nil}
	case "exclusion", "exclusion_zero_value":
		// w0 does not contain the key; proof is geth's exclusion proof
	case "value_random":
		cl.Value = p.word()
	case "value_bitflip":
		cl.Value[rapid.IntRange(0, 31).Draw(t, "vByte")] ^= 1 << rapid.IntRange(0, 7).Draw(t, "vBit")
	case "value_other_slots":
		cl.Value = other().Value
	case "value_right_padded":
		tr := evmsim.TrimLeft(target.Value[:])
		cl.Value = [32]byte{}
		copy(cl.Value[:], tr)
	case "value_zero":
		cl.Value = [32]byte{}
	case "path_other_seq":
		switch rapid.IntRange(0, 2).Draw(t, "seqDelta") {
		case 0:
			cl.Seq++
		case 1:
			cl.Seq--
		default:
			cl.Seq ^= 1 << rapid.IntRange(0, 63).Draw(t, "seqBit")
		}
	case "path_swapped_chains":
		if cl.Src == cl.Dst {
			cl.Dst = cl.Dst + "x"
		} else {
			cl.Src, cl.Dst = cl.Dst, cl.Src
		}
	case "path_method_swapped":
		cl.Ack = !cl.Ack
	case "stored_untrimmed", "stored_suffix_padded", "stored_prefix_padded", "stored_truncated", "stored_raw", "stored_list", "stored_noncanonical_rlp":
		// w0 holds the odd leaf; the proof is a genuine inclusion proof of it
	case "root_other_height":
		rootAtH = [32]byte(b.w1.Root())
	case "root_random":
		rootAtH = p.word()
	case "proof_other_height":
		proof = b.w1.Prove(b.contract, slot)
		if b.w1Kind != "target_removed" {
			cl.Value = b.w1Value
		}
	case "hex_junk":
		k := rapid.IntRange(0, 7).Draw(t, "junk")
		applied = fmt.Sprintf("hex_junk_%d", k)
		last := func(l []string) *string { return &l[rapid.IntRange(0, len(l)-1).Draw(t, "junkNode")] }
		switch k {
		case 0:
			n := last(proof.AccountProof)
			*n += "zz"
		case 1:
			n := last(sp.Proof)
			*n += "zz"
		case 2:
			n := last(proof.AccountProof)
			*n = (*n)[:len(*n)-1] // odd number of digits
		case 3:
			n := last(sp.Proof)
			*n = "0y" + (*n)[2:]
		case 4:
			proof.Address = proof.Address[:10] + "g" + proof.Address[11:]
		case 5:
			sp.Key += "zz"
		case 6:
			proof.StorageHash += "q"
		default:
			proof.Nonce = "one"
		}
	case "json_garbage":
		customJSON = true
		js, _ := json.Marshal(proof)
		k := rapid.IntRange(0, 5).Draw(t, "garbage")
		applied = fmt.Sprintf("json_garbage_%d", k)
		switch k {
		case 0:
			proofJSON = nil
		case 1:
			proofJSON = []byte("{}")
		case 2:
			proofJSON = []byte("null")
		case 3:
			proofJSON = js[:rapid.IntRange(1, len(js)-1).Draw(t, "cut")]
		case 4:
			proofJSON = append([]byte("["), append(js, ']')...)
		default:
			proofJSON = append(js, js...)
		}
	default:
		evmsim.Failf("unhandled class %s", class)
	}
	if !customJSON {
		proofJSON, err = json.Marshal(proof)
		evmsim.Must(err, "marshal proof")
	}

	// ---- gating ----
	s := setup{Cons: map[uint64][32]byte{}}
	s.FieldSkew = rapid.SampledFrom([]string{"", "", "", "", "zero", "ahead", "behind"}).Draw(t, "consensusHeightField")
	if rapid.IntRange(0, 9).Draw(t, "revKind") == 0 {
		s.Rev = rapid.Uint64().Draw(t, "revision")
	}
	s.Delay = uint64(rapid.SampledFrom([]int{0, 1, 1, 2, 2, 3, 5, 11}).Draw(t, "delay"))
	headLo := s.Delay + 2
	s.Head = rapid.OneOf(
		rapid.Uint64Range(headLo, headLo+50),
		rapid.SampledFrom([]uint64{1 << 20, math.MaxUint32, math.MaxInt64, math.MaxInt64 + 1, math.MaxUint64 - 1, math.MaxUint64}),
		rapid.Uint64Range(headLo, math.MaxUint64),
	).Draw(t, "head")
	switch gate {
	case "ok_exact":
		s.Height = s.Head - s.Delay
	case "ok_more":
		s.Height = s.Head - s.Delay - rapid.Uint64Range(1, minU64(1000, s.Head-s.Delay)).Draw(t, "moreBy")
	case "ok_far":
		s.Height = rapid.Uint64Range(0, 3).Draw(t, "lowHeight")
		if s.Head-s.Height < s.Delay {
			s.Height = 0
		}
	case "short_by_one":
		if s.Delay == 0 {
			gate = "ok_exact"
			s.Height = s.Head
		} else {
			s.Height = s.Head - s.Delay + 1
		}
	case "at_head":
		s.Height = s.Head
		if s.Delay == 0 {
			gate = "ok_exact"
		}
	case "above_head":
		if s.Head == math.MaxUint64 {
			s.Head--
		}
		s.Height = s.Head + rapid.Uint64Range(1, minU64(5, math.MaxUint64-s.Head)).Draw(t, "aboveBy")
	case "no_consensus_state":
		s.Height = s.Head - s.Delay
	case "other_revision":
		// the proof names the right block number in ANOTHER revision (a lower one passes every "not above the head" test)
		s.Height = s.Head - s.Delay
		if s.Rev == 0 {
			s.Rev = rapid.Uint64Range(1, 9).Draw(t, "headRevision")
		}
		pr := rapid.SampledFrom([]uint64{0, s.Rev - 1, s.Rev + 1}).Draw(t, "proofRevision")
		s.ProofRev = &pr
	case "young_chain":
		// the counterparty's head is still below the required number of confirmations: no height can be confirmed yet
		if s.Delay < 2 {
			gate = "ok_exact"
			s.Height = s.Head - s.Delay
		} else {
			s.Head = rapid.Uint64Range(1, s.Delay-1).Draw(t, "youngHead")
			s.Height = rapid.Uint64Range(0, s.Head).Draw(t, "youngHeight")
		}
	}
	// decoys: neighbours and the head hold the root of the other height
	for _, h := range []uint64{s.Height - 1, s.Height + 1, s.Head} {
		s.Cons[h] = [32]byte(b.w1.Root())
	}
	if gate == "no_consensus_state" {
		delete(s.Cons, s.Height)
		if rapid.Bool().Draw(t, "neighbourHasRightRoot") {
			s.Cons[s.Height+1] = rootAtH
			s.Cons[s.Height-1] = rootAtH
			delete(s.Cons, s.Height)
		}
	} else {
		s.Cons[s.Height] = rootAtH
	}

	// ---- oracle ----
	cslot := refSlot(cl.Ack, cl.Src, cl.Dst, cl.Seq)
	ref, _ := refVerify(proofJSON, rootAtH, contract, cslot, cl.Value)
	gok := gateOK(s)
	determinate := !gok || ref.V != Indeterminate
	expect := gok && ref.V == Valid
	var worldAtH *evmsim.World
	if r0, r1 := [32]byte(b.w0.Root()), [32]byte(b.w1.Root()); rootAtH == r0 {
		worldAtH = b.w0
	} else if rootAtH == r1 {
		worldAtH = b.w1
	}
	isTrue := gok && truth(worldAtH, contract, cslot, cl.Value)
	if ref.V == Valid && gok && !isTrue {
		evmsim.Failf("reference accepts a claim that is false in the simulated world (class %s)", applied)
	}

	// the contract address the CLIENT is configured with: normally the contract the proof is about; sometimes unset, a mere
	// suffix of it, or another address - then nothing can prove "the configured contract's account" and every proof must fail
	cfg, cfgKind := contract, "exact"
	if rapid.IntRange(0, 11).Draw(t, "configuredContract") == 0 {
		cfgKind = rapid.SampledFrom([]string{"unset", "suffix", "other"}).Draw(t, "configuredContractKind")
		switch cfgKind {
		case "unset":
			cfg = []byte{}
		case "suffix":
			cfg = append([]byte(nil), contract[1:]...)
		default:
			cfg = append([]byte(nil), contract...)
			cfg[rapid.IntRange(0, 19).Draw(t, "otherContractByte")] ^= 0x40
		}
		expect, determinate, isTrue = false, true, false
	}
	eth := runETH(s, cfg, cl, proofJSON)
	bsc := outcome{}
	withBSC := s.Delay >= 1
	if withBSC {
		bsc = runBSC(s, rapid.Bool().Draw(t, "oddValidators"), cfg, cl, proofJSON)
	}

	describe := func() string {
		sm := mkSample(class, applied, gate, s, cl, b, baseInfo, ref, eth, bsc, withBSC, proofJSON)
		js, _ := json.Marshal(sm)
		return string(js)
	}
	if withBSC && eth.Accepted != bsc.Accepted {
		t.Fatalf("ETH and BSC clients disagree: eth=%s bsc=%s\ncase=%s", verdictStr(eth), verdictStr(bsc), describe())
	}
	if determinate && eth.Accepted != expect {
		t.Fatalf("ETH client %s but the reference says %s (proof %s: %s; gate ok=%v)\ncase=%s",
			verdictStr(eth), map[bool]string{true: "accept", false: "reject"}[expect], ref.V, ref.Reason, gok, describe())
	}
	if eth.Accepted && !isTrue {
		t.Fatalf("ETH client accepted a claim that is false in the simulated world (reference: %s %s)\ncase=%s", ref.V, ref.Reason, describe())
	}
	if withBSC && bsc.Accepted && !isTrue {
		t.Fatalf("BSC client accepted a claim that is false in the simulated world\ncase=%s", describe())
	}

	// ---- evidence ----
	lz := 0
	for lz < 32 && target.Value[lz] == 0 {
		lz++
	}
	r.Label("mut:" + applied)
	r.Label("configured_contract:" + cfgKind)
	r.Label("class:" + class)
	r.Label("gate:" + gate)
	r.Label(map[bool]string{true: "verdict:accept", false: "verdict:reject"}[eth.Accepted])
	r.Label("ref:" + ref.V.String())
	r.Label("ref_reason:" + ref.Reason)
	r.Label(fmt.Sprintf("leading_zero_bytes:%02d", lz))
	r.Label(fmt.Sprintf("depth:acct%d_sto%d", baseInfo.AcctDepth, baseInfo.StoDepth))
	r.Label(map[bool]string{true: "method:ack", false: "method:commitment"}[cl.Ack])
	r.Label(map[bool]string{true: "clients:eth+bsc", false: "clients:eth_only(delay0)"}[withBSC])
	if eth.Panicked || bsc.Panicked {
		r.Label("code_panicked(counted_as_reject)")
	}
	if !determinate {
		r.Label("no_verdict_asserted(differential+soundness_only)")
	}
	if s.Rev != 0 {
		r.Label("nonzero_revision")
	}
	deep := baseInfo.AcctDepth >= 2 && baseInfo.StoDepth >= 2
	flipped := class != "none" && ref.V == Invalid
	nontrivial := deep && gok && (class == "none" || flipped)
	if class == "none" && gok {
		r.Label("positive_control_accepted")
	}
	shape := fmt.Sprintf("%s|lz=%d|ack=%v|bsc=%v|d=%d/%d|%v", applied, lz, cl.Ack, withBSC, baseInfo.AcctDepth, baseInfo.StoDepth, eth.Accepted)
	r.Case(shape, nontrivial, func() interface{} {
		return mkSample(class, applied, gate, s, cl, b, baseInfo, ref, eth, bsc, withBSC, proofJSON)
	})
}

func minU64(a, b uint64) uint64 {
	if a < b {
		return a
	}
	return b
}

func mkSample(class, applied, gate string, s setup, cl claim, b *built, bi RefInfo, ref RefResult, eth, bsc outcome, withBSC bool, js []byte) sample {
	lz := 0
	for lz < 32 && cl.Value[lz] == 0 {
		lz++
	}
	sm := sample{Class: class, Applied: applied, Gate: gate, Head: s.Head, Height: s.Height, Delay: s.Delay, Rev: s.Rev,
		Method: map[bool]string{true: "VerifyPacketAcknowledgement", false: "VerifyPacketCommitment"}[cl.Ack],
		Src:    cl.Src, Dst: cl.Dst, Seq: cl.Seq, Value: evmsim.Hex(cl.Value[:]), LZ: lz,
		Accounts: len(b.w0.Addresses()), Slots: len(b.entries), Depth: fmt.Sprintf("%d/%d", bi.AcctDepth, bi.StoDepth),
		Ref: ref.V.String() + " (" + ref.Reason + ")", ETH: verdictStr(eth), BSC: "not run (delay 0)", Proof: abbrev(js)}
	if withBSC {
		sm.BSC = verdictStr(bsc)
	}
	return sm
}

func TestC08_Proofs(t *testing.T) {
	r := rec.For("TestC08_Proofs", rule)
	rapid.Check(t, func(t *rapid.T) { runCase(t, r) })
}
