// Package kit is the chain kit of the verification harness: real app.Teleport instances on MemDB,
// deterministic keys, explicit block lifecycle, transactions delivered through BaseApp.DeliverTx,
// Tendermint headers and ICS-23 proofs for light-client paths, and store dumps for "state
// unchanged" oracles. It never calls testify/require; harness problems panic with HarnessError.
package kit

import (
	"encoding/binary"
	"encoding/json"
	"fmt"
	"math/big"
	"time"

	abci "github.com/tendermint/tendermint/abci/types"
	"github.com/tendermint/tendermint/crypto/ed25519"
	"github.com/tendermint/tendermint/crypto/tmhash"
	"github.com/tendermint/tendermint/libs/log"
	tmproto "github.com/tendermint/tendermint/proto/tendermint/types"
	tmprotoversion "github.com/tendermint/tendermint/proto/tendermint/version"
	tmtypes "github.com/tendermint/tendermint/types"
	"github.com/tendermint/tendermint/version"
	dbm "github.com/tendermint/tm-db"

	"github.com/cosmos/cosmos-sdk/client"
	codectypes "github.com/cosmos/cosmos-sdk/codec/types"
	cryptocodec "github.com/cosmos/cosmos-sdk/crypto/codec"
	"github.com/cosmos/cosmos-sdk/simapp/helpers"
	sdk "github.com/cosmos/cosmos-sdk/types"
	"github.com/cosmos/cosmos-sdk/types/tx/signing"
	authsign "github.com/cosmos/cosmos-sdk/x/auth/signing"
	authtypes "github.com/cosmos/cosmos-sdk/x/auth/types"
	banktypes "github.com/cosmos/cosmos-sdk/x/bank/types"
	stakingtypes "github.com/cosmos/cosmos-sdk/x/staking/types"

	"github.com/ethereum/go-ethereum/common"
	ethtypes "github.com/ethereum/go-ethereum/core/types"

	"github.com/tharsis/ethermint/crypto/ethsecp256k1"
	"github.com/tharsis/ethermint/encoding"
	"github.com/tharsis/ethermint/server/config"
	"github.com/tharsis/ethermint/tests"
	evmtypes "github.com/tharsis/ethermint/x/evm/types"
	feemarkettypes "github.com/tharsis/ethermint/x/feemarket/types"

	"github.com/teleport-network/teleport/app"
	packetcontract "github.com/teleport-network/teleport/syscontracts/xibc_packet"
	teletypes "github.com/teleport-network/teleport/types"
	xibctmtypes "github.com/teleport-network/teleport/x/xibc/clients/light-clients/tendermint/types"
	clienttypes "github.com/teleport-network/teleport/x/xibc/core/client/types"
	commitmenttypes "github.com/teleport-network/teleport/x/xibc/core/commitment/types"
	"github.com/teleport-network/teleport/x/xibc/core/host"
	packettypes "github.com/teleport-network/teleport/x/xibc/core/packet/types"
)

// HarnessError marks a failure of the harness itself (never a property violation).
type HarnessError struct{ Msg string }

func (e HarnessError) Error() string { return "HARNESS: " + e.Msg }

// Must panics with a HarnessError when err != nil.
func Must(err error, what string) {
	if err != nil {
		panic(HarnessError{Msg: fmt.Sprintf("%s: %v", what, err)})
	}
}

// Failf panics with a HarnessError.
func Failf(format string, a ...interface{}) {
	panic(HarnessError{Msg: fmt.Sprintf(format, a...)})
}

// Epoch is the fixed start of every harness clock (no wall clock anywhere).
var Epoch = time.Date(2020, 1, 2, 0, 0, 0, 0, time.UTC)

// Account is a deterministic eth_secp256k1 account.
type Account struct {
	Priv *ethsecp256k1.PrivKey
	Acc  sdk.AccAddress
	Addr common.Address
}

// NewAccount derives an account from a seed.
func NewAccount(seed []byte) Account {
	h := tmhash.Sum(append([]byte("verif-acct/"), seed...))
	priv := &ethsecp256k1.PrivKey{Key: h}
	addr := common.BytesToAddress(priv.PubKey().Address().Bytes())
	return Account{Priv: priv, Acc: sdk.AccAddress(addr.Bytes()), Addr: addr}
}

// Chain is one Teleport application instance with an always-open block.
type Chain struct {
	App      *app.Teleport
	ChainID  string // tendermint chain id and XIBC chain name
	TxConfig client.TxConfig

	Vals    *tmtypes.ValidatorSet
	Signers []tmtypes.PrivValidator

	Accounts []Account

	Now        time.Time           // time of the open block
	Header     tmproto.Header      // header of the open block
	LastHeader *xibctmtypes.Header // signed header of the last committed block
	// Headers keeps every signed header by height (for light-client updates to older heights).
	Headers map[int64]*xibctmtypes.Header

	// DB is the application database (Restart re-opens the application over it).
	DB      dbm.DB
	nodeCfg nodeConfig
	// AfterCommit, when non-nil, runs between the Commit of a block and the BeginBlock of the next one (the only point at
	// which a node process may stop and start again); PreDeliver runs before every DeliverTx with the raw transaction
	// (a node may simulate or CheckTx a transaction any number of times before it sees it in a block).
	AfterCommit func(c *Chain)
	PreDeliver  func(c *Chain, bz []byte)

	// Trace, when non-nil, receives one line per ABCI response (used by the determinism check).
	Trace func(line string)
	// RawTrace, when non-nil, receives the full log and events of every DeliverTx (debugging aid).
	RawTrace func(line string)
}

// ChainOpts configures NewChain.
type ChainOpts struct {
	NumValidators int       // default 1
	NumAccounts   int       // default 3
	Accounts      []Account // if set, used instead of deriving NumAccounts accounts from Seed
	Seed          []byte    // key-derivation seed
	Balance       int64     // per-account balance of the bond denom (default 1e14)
	// BalanceCoins, when > 0, replaces Balance by that many whole coins of 1e18 base units each (real-chain scale: ordinary
	// amounts then exceed int64)
	BalanceCoins int64
	ExtraCoins   sdk.Coins
	// GenesisMutator may edit the genesis map before InitChain.
	GenesisMutator func(a *app.Teleport, g map[string]json.RawMessage)
	Start          time.Time
	// NodeConfig is the node operator's configuration (app.toml / flags / environment as the server hands it to the
	// application constructor); nil = no option set. It is not part of consensus.
	NodeConfig map[string]interface{}
}

// nodeConfig adapts a map to the server's AppOptions.
type nodeConfig map[string]interface{}

func (n nodeConfig) Get(k string) interface{} {
	if n == nil {
		return nil
	}
	return n[k]
}

// NewChain builds a chain, commits the genesis block and opens block 2.
func NewChain(chainID string, o ChainOpts) *Chain {
	sdk.DefaultPowerReduction = teletypes.PowerReduction
	if o.NumValidators == 0 {
		o.NumValidators = 1
	}
	if o.NumAccounts == 0 {
		o.NumAccounts = 3
	}
	if o.Balance == 0 {
		o.Balance = 100000000000000
	}
	if o.Start.IsZero() {
		o.Start = Epoch
	}
	var vals []*tmtypes.Validator
	signerByAddr := map[string]tmtypes.PrivValidator{}
	for i := 0; i < o.NumValidators; i++ {
		sk := ed25519.GenPrivKeyFromSecret(append(append([]byte("verif-val/"), o.Seed...), byte(i)))
		pv := tmtypes.NewMockPVWithParams(sk, false, false)
		pk, _ := pv.GetPubKey()
		v := tmtypes.NewValidator(pk, 1)
		vals = append(vals, v)
		signerByAddr[string(v.Address)] = pv
	}
	valSet := tmtypes.NewValidatorSet(vals)
	signers := make([]tmtypes.PrivValidator, len(valSet.Validators))
	for i, v := range valSet.Validators {
		signers[i] = signerByAddr[string(v.Address)]
	}

	var accts []Account
	var genAccs []authtypes.GenesisAccount
	var balances []banktypes.Balance
	if o.Accounts != nil {
		o.NumAccounts = len(o.Accounts)
	}
	for i := 0; i < o.NumAccounts; i++ {
		a := NewAccount(append(append([]byte{}, o.Seed...), byte(i)))
		if o.Accounts != nil {
			a = o.Accounts[i]
		}
		accts = append(accts, a)
		genAccs = append(genAccs, authtypes.NewBaseAccount(a.Acc, a.Priv.PubKey(), 0, 0))
		bal := sdk.NewInt(o.Balance)
		if o.BalanceCoins > 0 {
			bal = sdk.NewIntWithDecimal(o.BalanceCoins, 18)
		}
		coins := sdk.NewCoins(sdk.NewCoin(sdk.DefaultBondDenom, bal)).Add(o.ExtraCoins...)
		balances = append(balances, banktypes.Balance{Address: a.Acc.String(), Coins: coins})
	}

	db := dbm.NewMemDB()
	encCdc := encoding.MakeConfig(app.ModuleBasics)
	tp := app.NewTeleport(log.NewNopLogger(), db, nil, true, map[int64]bool{}, app.DefaultNodeHome, 5, encCdc, nodeConfig(o.NodeConfig))
	genesis := app.NewDefaultGenesisState()

	authGenesis := authtypes.NewGenesisState(authtypes.DefaultParams(), genAccs)
	genesis[authtypes.ModuleName] = tp.AppCodec().MustMarshalJSON(authGenesis)

	bondAmt := sdk.NewInt(1e16)
	var validators []stakingtypes.Validator
	var delegations []stakingtypes.Delegation
	for _, val := range valSet.Validators {
		pk, err := cryptocodec.FromTmPubKeyInterface(val.PubKey)
		Must(err, "val pubkey")
		pkAny, err := codectypes.NewAnyWithValue(pk)
		Must(err, "val any")
		validators = append(validators, stakingtypes.Validator{
			OperatorAddress:   sdk.ValAddress(val.Address).String(),
			ConsensusPubkey:   pkAny,
			Status:            stakingtypes.Bonded,
			Tokens:            bondAmt,
			DelegatorShares:   sdk.OneDec(),
			Description:       stakingtypes.Description{},
			UnbondingTime:     time.Unix(0, 0).UTC(),
			Commission:        stakingtypes.NewCommission(sdk.ZeroDec(), sdk.ZeroDec(), sdk.ZeroDec()),
			MinSelfDelegation: sdk.ZeroInt(),
		})
		delegations = append(delegations, stakingtypes.NewDelegation(genAccs[0].GetAddress(), val.Address.Bytes(), sdk.OneDec()))
	}
	stakingGenesis := stakingtypes.NewGenesisState(stakingtypes.DefaultParams(), validators, delegations)
	genesis[stakingtypes.ModuleName] = tp.AppCodec().MustMarshalJSON(stakingGenesis)

	evmGenesis := evmtypes.DefaultGenesisState()
	evmGenesis.Params.EvmDenom = sdk.DefaultBondDenom
	genesis[evmtypes.ModuleName] = tp.AppCodec().MustMarshalJSON(evmGenesis)

	totalSupply := sdk.NewCoins()
	for _, b := range balances {
		totalSupply = totalSupply.Add(b.Coins...)
	}
	for range valSet.Validators {
		totalSupply = totalSupply.Add(sdk.NewCoin(sdk.DefaultBondDenom, bondAmt))
	}
	balances = append(balances, banktypes.Balance{
		Address: authtypes.NewModuleAddress(stakingtypes.BondedPoolName).String(),
		Coins:   sdk.Coins{sdk.NewCoin(sdk.DefaultBondDenom, bondAmt.MulRaw(int64(len(valSet.Validators))))},
	})
	bankGenesis := banktypes.NewGenesisState(banktypes.DefaultGenesisState().Params, balances, totalSupply, []banktypes.Metadata{})
	genesis[banktypes.ModuleName] = tp.AppCodec().MustMarshalJSON(bankGenesis)

	fm := feemarkettypes.DefaultGenesisState()
	fm.Params.NoBaseFee = true
	genesis[feemarkettypes.ModuleName] = tp.AppCodec().MustMarshalJSON(fm)

	if o.GenesisMutator != nil {
		o.GenesisMutator(tp, genesis)
	}

	stateBytes, err := json.MarshalIndent(genesis, "", " ")
	Must(err, "genesis json")
	tp.InitChain(abci.RequestInitChain{
		ChainId:         chainID,
		Validators:      []abci.ValidatorUpdate{},
		ConsensusParams: app.DefaultConsensusParams,
		AppStateBytes:   stateBytes,
		Time:            o.Start,
	})

	c := &Chain{
		App:      tp,
		ChainID:  chainID,
		TxConfig: encCdc.TxConfig,
		Vals:     valSet,
		Signers:  signers,
		Accounts: accts,
		Now:      o.Start,
		Headers:  map[int64]*xibctmtypes.Header{},
		DB:       db,
		nodeCfg:  nodeConfig(o.NodeConfig),
	}
	// block 1: set the XIBC chain name (keeper + packet contract), as the chain's own tooling does
	c.Header = tmproto.Header{
		ChainID: chainID, Height: 1, Time: c.Now,
		ValidatorsHash: valSet.Hash(), NextValidatorsHash: valSet.Hash(),
		ProposerAddress: valSet.Proposer.Address,
	}
	tp.BeginBlock(abci.RequestBeginBlock{Header: c.Header})
	tp.XIBCKeeper.ClientKeeper.SetChainName(c.Ctx(), chainID)
	_, err = tp.XIBCKeeper.PacketKeeper.CallEVM(c.Ctx(), packetcontract.PacketContract.ABI,
		packettypes.ModuleAddress, packetcontract.PacketContractAddress, "setChainName", chainID)
	Must(err, "setChainName")
	c.Commit(5 * time.Second)
	return c
}

// Ctx returns the deliver-state context of the open block (writes persist at Commit).
func (c *Chain) Ctx() sdk.Context {
	return c.App.BaseApp.NewContext(false, c.Header)
}

// Commit ends and commits the open block, signs its header, and opens the next block dt later.
func (c *Chain) Commit(dt time.Duration) {
	eb := c.App.EndBlock(abci.RequestEndBlock{Height: c.Header.Height})
	cm := c.App.Commit()
	if c.Trace != nil {
		c.Trace(fmt.Sprintf("%s h=%d endblock events=%s valupdates=%d", c.ChainID, c.Header.Height, eventsDigest(eb.Events), len(eb.ValidatorUpdates)))
		c.Trace(fmt.Sprintf("%s h=%d commit apphash=%x", c.ChainID, c.Header.Height, cm.Data))
	}
	if c.AfterCommit != nil {
		c.AfterCommit(c)
	}
	c.LastHeader = c.signedHeader(c.Header)
	c.Headers[c.Header.Height] = c.LastHeader
	c.Now = c.Now.Add(dt).UTC()
	c.Header = tmproto.Header{
		ChainID:            c.ChainID,
		Height:             c.App.LastBlockHeight() + 1,
		AppHash:            c.App.LastCommitID().Hash,
		Time:               c.Now,
		ValidatorsHash:     c.Vals.Hash(),
		NextValidatorsHash: c.Vals.Hash(),
		ProposerAddress:    c.Vals.Proposer.Address,
	}
	bb := c.App.BeginBlock(abci.RequestBeginBlock{Header: c.Header})
	if c.Trace != nil {
		c.Trace(fmt.Sprintf("%s h=%d beginblock events=%s", c.ChainID, c.Header.Height, eventsDigest(bb.Events)))
	}
}

// Restart stops the node process and starts it again: a new application object is opened over the same database and
// loads the last committed version, as a node does after a crash-free stop. Only call from AfterCommit (no block open).
func (c *Chain) Restart() {
	encCdc := encoding.MakeConfig(app.ModuleBasics)
	c.App = app.NewTeleport(log.NewNopLogger(), c.DB, nil, true, map[int64]bool{}, app.DefaultNodeHome, 5, encCdc, c.nodeCfg)
	c.TxConfig = encCdc.TxConfig
}

// eventsDigest hashes events in order (type, attribute keys and values).
func eventsDigest(evs []abci.Event) string {
	h := tmhash.New()
	for _, e := range evs {
		fmt.Fprintf(h, "T%d:%s;", len(e.Type), e.Type)
		for _, a := range e.Attributes {
			fmt.Fprintf(h, "K%d:%s=V%d:%s;", len(a.Key), a.Key, len(a.Value), a.Value)
		}
	}
	return fmt.Sprintf("%d/%x", len(evs), h.Sum(nil)[:8])
}

// EventsDigest is the order-sensitive digest of events used in trace lines.
func EventsDigest(evs []abci.Event) string { return eventsDigest(evs) }

// SetTime moves the open block's time (re-running BeginBlock is avoided: only the header used for
// contexts changes; use before any tx of the block).
func (c *Chain) SetTime(t time.Time) {
	c.Now = t.UTC()
	c.Header.Time = c.Now
	c.App.BeginBlock(abci.RequestBeginBlock{Header: c.Header})
}

func makeBlockID(hash []byte, total uint32, partHash []byte) tmtypes.BlockID {
	return tmtypes.BlockID{Hash: hash, PartSetHeader: tmtypes.PartSetHeader{Total: total, Hash: partHash}}
}

func (c *Chain) signedHeader(h tmproto.Header) *xibctmtypes.Header {
	vsetHash := c.Vals.Hash()
	tmHeader := tmtypes.Header{
		Version:            tmprotoversion.Consensus{Block: version.BlockProtocol, App: 2},
		ChainID:            h.ChainID,
		Height:             h.Height,
		Time:               h.Time,
		LastBlockID:        makeBlockID(make([]byte, tmhash.Size), 10_000, make([]byte, tmhash.Size)),
		LastCommitHash:     tmhash.Sum([]byte("last_commit_hash")),
		DataHash:           tmhash.Sum([]byte("data_hash")),
		ValidatorsHash:     vsetHash,
		NextValidatorsHash: vsetHash,
		ConsensusHash:      tmhash.Sum([]byte("consensus_hash")),
		AppHash:            h.AppHash,
		LastResultsHash:    tmhash.Sum([]byte("last_results_hash")),
		EvidenceHash:       tmhash.Sum([]byte("evidence_hash")),
		ProposerAddress:    c.Vals.Proposer.Address,
	}
	blockID := makeBlockID(tmHeader.Hash(), 3, tmhash.Sum([]byte("part_set")))
	voteSet := tmtypes.NewVoteSet(h.ChainID, h.Height, 1, tmproto.PrecommitType, c.Vals)
	commit, err := tmtypes.MakeCommit(blockID, h.Height, 1, voteSet, c.Signers, h.Time)
	Must(err, "make commit")
	valSet, err := c.Vals.ToProto()
	Must(err, "valset proto")
	return &xibctmtypes.Header{
		SignedHeader: &tmproto.SignedHeader{Header: tmHeader.ToProto(), Commit: commit.ToProto()},
		ValidatorSet: valSet,
	}
}

// UpdateHeader returns a copy of the signed header at height h with trusted fields for a client
// whose trusted height is `trusted` (validator set never changes in kit chains).
func (c *Chain) UpdateHeader(h int64, trusted clienttypes.Height) *xibctmtypes.Header {
	src, ok := c.Headers[h]
	if !ok {
		Failf("no header at height %d on %s", h, c.ChainID)
	}
	tv, err := c.Vals.ToProto()
	Must(err, "trusted vals")
	cp := *src
	cp.TrustedHeight = trusted
	cp.TrustedValidators = tv
	return &cp
}

// TxResult is the outcome of one delivered transaction.
type TxResult struct {
	Code   uint32
	Log    string
	Events []abci.Event
	Data   []byte
	Raw    []byte // tx bytes as delivered
}

func (r TxResult) OK() bool { return r.Code == 0 }

// BuildTx signs msgs from acct with its current account number / sequence.
func (c *Chain) BuildTx(acct Account, msgs ...sdk.Msg) []byte {
	a := c.App.AccountKeeper.GetAccount(c.Ctx(), acct.Acc)
	if a == nil {
		Failf("account %s does not exist on %s", acct.Acc, c.ChainID)
	}
	// deterministic equivalent of simapp helpers.GenTx (which draws a random memo from the wall clock)
	signMode := c.TxConfig.SignModeHandler().DefaultMode()
	sig := signing.SignatureV2{PubKey: acct.Priv.PubKey(), Data: &signing.SingleSignatureData{SignMode: signMode}, Sequence: a.GetSequence()}
	b := c.TxConfig.NewTxBuilder()
	Must(b.SetMsgs(msgs...), "SetMsgs")
	Must(b.SetSignatures(sig), "SetSignatures")
	b.SetMemo("")
	b.SetFeeAmount(sdk.Coins{sdk.NewInt64Coin(sdk.DefaultBondDenom, 0)})
	b.SetGasLimit(helpers.DefaultGenTxGas * 4)
	signBytes, err := c.TxConfig.SignModeHandler().GetSignBytes(signMode,
		authsign.SignerData{ChainID: c.ChainID, AccountNumber: a.GetAccountNumber(), Sequence: a.GetSequence()}, b.GetTx())
	Must(err, "sign bytes")
	sigBz, err := acct.Priv.Sign(signBytes)
	Must(err, "sign")
	sig.Data.(*signing.SingleSignatureData).Signature = sigBz
	Must(b.SetSignatures(sig), "SetSignatures")
	bz, err := c.TxConfig.TxEncoder()(b.GetTx())
	Must(err, "encode tx")
	return bz
}

// DeliverRaw delivers raw tx bytes into the open block.
func (c *Chain) DeliverRaw(bz []byte) TxResult {
	if c.PreDeliver != nil {
		c.PreDeliver(c, bz)
	}
	res := c.App.BaseApp.DeliverTx(abci.RequestDeliverTx{Tx: bz})
	if c.Trace != nil {
		c.Trace(fmt.Sprintf("%s h=%d delivertx tx=%x code=%d codespace=%s gas=%d/%d data=%x log=%x events=%s", c.ChainID, c.Header.Height, tmhash.Sum(bz)[:6],
			res.Code, res.Codespace, res.GasUsed, res.GasWanted, tmhash.Sum(res.Data)[:8], tmhash.Sum([]byte(res.Log))[:8], eventsDigest(res.Events)))
	}
	if c.RawTrace != nil {
		c.RawTrace(fmt.Sprintf("%s h=%d code=%d log=%s events=%v", c.ChainID, c.Header.Height, res.Code, res.Log, res.Events))
	}
	return TxResult{Code: res.Code, Log: res.Log, Events: res.Events, Data: res.Data, Raw: bz}
}

// Deliver signs and delivers msgs from acct.
func (c *Chain) Deliver(acct Account, msgs ...sdk.Msg) TxResult {
	return c.DeliverRaw(c.BuildTx(acct, msgs...))
}

// BuildEthTx builds a signed MsgEthereumTx wrapped in a cosmos tx (as the JSON-RPC server does).
func (c *Chain) BuildEthTx(acct Account, to *common.Address, value *big.Int, data []byte) []byte {
	ctx := c.Ctx()
	chainID := c.App.EvmKeeper.ChainID()
	nonce := c.App.EvmKeeper.GetNonce(ctx, acct.Addr)
	if value == nil {
		value = big.NewInt(0)
	}
	msg := evmtypes.NewTx(chainID, nonce, to, value, config.DefaultGasCap, big.NewInt(0), big.NewInt(0), big.NewInt(0), data, &ethtypes.AccessList{})
	msg.From = acct.Addr.Hex()
	Must(msg.Sign(ethtypes.LatestSignerForChainID(chainID), tests.NewSigner(acct.Priv)), "sign eth tx")
	b := c.TxConfig.NewTxBuilder()
	tx, err := msg.BuildTx(b, sdk.DefaultBondDenom)
	Must(err, "build eth tx")
	bz, err := c.TxConfig.TxEncoder()(tx)
	Must(err, "encode eth tx")
	return bz
}

// EthResult is the outcome of an Ethereum transaction delivered through DeliverTx.
type EthResult struct {
	TxResult
	VmError string
	Ret     []byte
	Logs    []*ethtypes.Log
}

// Succeeded reports that the tx was included and the EVM execution (incl. hooks) did not fail.
func (r EthResult) Succeeded() bool { return r.Code == 0 && r.VmError == "" }

// DeliverEth delivers an Ethereum tx from acct through DeliverTx.
func (c *Chain) DeliverEth(acct Account, to *common.Address, value *big.Int, data []byte) EthResult {
	return c.DeliverEthRaw(c.BuildEthTx(acct, to, value, data))
}

// DeliverEthRaw delivers already-built Ethereum tx bytes.
func (c *Chain) DeliverEthRaw(bz []byte) EthResult {
	r := c.DeliverRaw(bz)
	out := EthResult{TxResult: r}
	if r.Code != 0 {
		return out
	}
	var txMsgData sdk.TxMsgData
	if err := txMsgData.Unmarshal(r.Data); err != nil || len(txMsgData.Data) == 0 {
		Failf("cannot decode eth tx response: %v", err)
	}
	var rsp evmtypes.MsgEthereumTxResponse
	Must(rsp.Unmarshal(txMsgData.Data[0].Data), "decode MsgEthereumTxResponse")
	out.VmError = rsp.VmError
	out.Ret = rsp.Ret
	out.Logs = evmtypes.LogsToEthereum(rsp.Logs)
	return out
}

// QueryProof returns an ICS-23 proof of key in the xibc store, valid for a TM client consensus
// state at the returned height. clientHeight is the light-client height to prove against.
func (c *Chain) QueryProof(key []byte, clientHeight int64) ([]byte, clienttypes.Height, bool) {
	res := c.App.Query(abci.RequestQuery{
		Path:   fmt.Sprintf("store/%s/key", host.StoreKey),
		Height: clientHeight - 1,
		Data:   key,
		Prove:  true,
	})
	if res.ProofOps == nil {
		return nil, clienttypes.Height{}, false
	}
	merkleProof, err := commitmenttypes.ConvertProofs(res.ProofOps)
	if err != nil {
		return nil, clienttypes.Height{}, false
	}
	proof, err := c.App.AppCodec().Marshal(&merkleProof)
	Must(err, "marshal proof")
	return proof, clienttypes.NewHeight(clienttypes.ParseChainID(c.ChainID), uint64(res.Height)+1), true
}

// U64 is a helper for seeds.
func U64(v uint64) []byte {
	b := make([]byte, 8)
	binary.BigEndian.PutUint64(b, v)
	return b
}
