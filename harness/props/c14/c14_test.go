package c14

import (
	"encoding/json"
	"fmt"
	"os"
	"os/exec"
	"path/filepath"
	"sort"
	"strings"
	"testing"
	"time"

	"pgregory.net/rapid"

	xibcethtypes "github.com/teleport-network/teleport/x/xibc/clients/light-clients/eth/types"
	clienttypes "github.com/teleport-network/teleport/x/xibc/core/client/types"

	"verif/harness/kf"
	"verif/harness/kit"
	"verif/harness/rec"
)

func TestMain(m *testing.M) { rec.Main(m) }

const rule = "scripts = tape-driven scenarios on 2 connected chains exercising cross-chain calls (ok / reverting / failing-hook call data), Tendermint/BSC(3 validators)/ETH(Rinkeby)/TSS client updates, receives, acks, " +
	"TSS-injected packets, coin/ERC-20 conversions, staking and gov system-contract calls, bank sends, reward vesting every block, and governance proposals of all 12 kinds through the real submit/vote/EndBlock flow; " +
	"each script is executed by three nodes: one that never stops, one whose process restarts between blocks (new application object over the same database after every k-th commit, k drawn from 1..5), and a child process with GOMAXPROCS=1 and an unusable TMPDIR that also runs Simulate and CheckTx on every transaction before delivering it (and may restart too); the two replicas additionally run under a drawn node-operator configuration (every non-consensus server option of the SDK / Ethermint servers set to tight or loose values); every ABCI response (begin/end block events, every DeliverTx code, data, log, gas, ordered events, commit hash) must be identical; " +
	"non-trivial = script with >= 6 distinct message/proposal kinds including a BSC update; distinct by set of kinds"

// rapidChooser draws from rapid and records the tape.
type rapidChooser struct {
	t    *rapid.T
	tape []uint32
}

func (r *rapidChooser) Intn(label string, n int) int {
	v := rapid.IntRange(0, n-1).Draw(r.t, label)
	r.tape = append(r.tape, uint32(v))
	return v
}

type childReq struct {
	Tape    []uint32    `json:"tape"`
	Steps   int         `json:"steps"`
	Profile nodeProfile `json:"profile"`
}

type childRes struct {
	Trace []string       `json:"trace"`
	Kinds map[string]int `json:"kinds"`
}

// runChild replays the tape in a fresh process with a different scheduler width and temp-dir environment.
func runChild(tape []uint32, steps int, prof nodeProfile, env []string) childRes {
	dir, err := os.MkdirTemp("", "c14")
	kit.Must(err, "mkdtemp")
	defer os.RemoveAll(dir)
	req, _ := json.Marshal(childReq{Tape: tape, Steps: steps, Profile: prof})
	in, out := filepath.Join(dir, "in.json"), filepath.Join(dir, "out.json")
	kit.Must(os.WriteFile(in, req, 0o644), "write child input")
	cmd := exec.Command(os.Args[0], "-test.run", "^TestC14_Child$", "-test.count", "1")
	cmd.Env = append(os.Environ(), append(env, "C14_CHILD_IN="+in, "C14_CHILD_OUT="+out, "VERIF_EVIDENCE_OUT=")...)
	bz, err := cmd.CombinedOutput()
	if err != nil {
		kit.Failf("child process failed: %v\n%s", err, tail(string(bz)))
	}
	var res childRes
	rb, err := os.ReadFile(out)
	kit.Must(err, "read child output")
	kit.Must(json.Unmarshal(rb, &res), "decode child output")
	return res
}

func tail(s string) string {
	if len(s) > 3000 {
		return s[len(s)-3000:]
	}
	return s
}

func TestC14_Child(t *testing.T) {
	in := os.Getenv("C14_CHILD_IN")
	if in == "" {
		t.Skip("child mode only")
	}
	bz, err := os.ReadFile(in)
	kit.Must(err, "read child input")
	var req childReq
	kit.Must(json.Unmarshal(bz, &req), "decode child input")
	var res childRes
	if len(req.Tape) == 0 && req.Steps < 0 {
		res.Trace = powScenario()
	} else {
		res.Trace, res.Kinds = runScenario(&Tape{Vals: req.Tape}, req.Steps, req.Profile)
	}
	ob, _ := json.Marshal(res)
	kit.Must(os.WriteFile(os.Getenv("C14_CHILD_OUT"), ob, 0o644), "write child output")
}

func firstDiff(a, b []string) string {
	for i := 0; i < len(a) && i < len(b); i++ {
		if a[i] != b[i] {
			return fmt.Sprintf("response %d differs:\n  A: %s\n  B: %s", i, a[i], b[i])
		}
	}
	if len(a) != len(b) {
		return fmt.Sprintf("traces have %d and %d responses", len(a), len(b))
	}
	return ""
}

var hostileEnv = []string{"GOMAXPROCS=1", "TMPDIR=/nonexistent-c14-tmpdir", "HOME=/nonexistent-c14-home"}

func TestC14_ReplayDeterminism(t *testing.T) {
	r := rec.For("TestC14_ReplayDeterminism", rule)
	rapid.Check(t, func(t *rapid.T) {
		steps := rapid.IntRange(8, 28).Draw(t, "steps")
		rc := &rapidChooser{t: t}
		// node B restarts its process between blocks; the child process additionally simulates and CheckTx-es every transaction
		profB := nodeProfile{RestartEvery: rapid.IntRange(1, 5).Draw(t, "restartEvery")}
		profB.RestartOffset = rapid.IntRange(0, profB.RestartEvery-1).Draw(t, "restartOffset")
		profB.Config = rapid.SampledFrom([]string{"", "tight", "loose"}).Draw(t, "nodeBConfig")
		profC := nodeProfile{Simulate: true, Config: rapid.SampledFrom([]string{"tight", "loose", ""}).Draw(t, "childConfig")}
		if rapid.Bool().Draw(t, "childRestarts") {
			profC.RestartEvery = rapid.IntRange(2, 9).Draw(t, "childRestartEvery")
		}
		trA, kinds := runScenario(rc, steps, nodeProfile{})
		trB, _ := runScenario(&Tape{Vals: rc.tape}, steps, profB)
		if d := firstDiff(trA, trB); d != "" {
			t.Fatalf("a node that never stops and a node that restarts between blocks (%s) disagree on the same script: %s", profB, d)
		}
		child := runChild(rc.tape, steps, profC, hostileEnv)
		if d := firstDiff(trA, child.Trace); d != "" {
			t.Fatalf("replay in a child process (GOMAXPROCS=1, unusable TMPDIR, %s) disagrees with this process: %s", profC, d)
		}
		var ks []string
		for k := range kinds {
			ks = append(ks, k)
			r.LabelN(k, kinds[k])
		}
		sort.Strings(ks)
		nt := len(ks) >= 6 && kinds["MsgUpdateClient(bsc)"] > 0
		r.Case(strings.Join(ks, ","), nt, func() interface{} {
			return map[string]interface{}{"steps": steps, "kinds": kinds, "node_b": profB.String(), "child": profC.String(), "responses": len(trA), "trace_digest": traceDigest(trA), "tape_len": len(rc.tape)}
		})
	})
}

// ---- wall clock

const ruleWallClock = "the same script (same generator as TestC14_ReplayDeterminism, 6-14 steps) is executed twice in this process on chains whose clock is placed at the " +
	"machine's wall clock: the first block after the set-up is stamped about 3 s in the future of the first run, and the second run starts 15 s later, so that every header " +
	"and block time of the first steps (BSC headers every 3 s, blocks every 5 s) lies in the future of the first run and in the past of the second; all ABCI responses " +
	"must be identical; non-trivial = script with a client update (BSC, ETH, Tendermint or TSS); distinct by set of kinds"

// TestC14_WallClock: block processing must not look at the node's wall clock. The relation needs the wall clock itself as an
// input (the script is a function of the tape and of the moment the case starts), so this is the one place where the harness
// reads it; a failure reproduces from its tape at any later time because everything is placed relative to "now".
func TestC14_WallClock(t *testing.T) {
	r := rec.For("TestC14_WallClock", ruleWallClock)
	defer func() { scenarioStart = time.Time{} }()
	scenarioStart = time.Time{}
	runScenario(&Tape{Vals: make([]uint32, 64)}, 0, nodeProfile{}) // measures scenarioSetupSpan (the all-zero tape is a valid script)
	span := scenarioSetupSpan
	rapid.Check(t, func(t *rapid.T) {
		steps := rapid.IntRange(6, 14).Draw(t, "steps")
		rc := &rapidChooser{t: t}
		scenarioStart = time.Now().UTC().Add(3*time.Second - span).Truncate(time.Second)
		trA, kinds := runScenario(rc, steps, nodeProfile{})
		time.Sleep(time.Until(scenarioStart.Add(span + 18*time.Second)))
		trB, _ := runScenario(&Tape{Vals: rc.tape}, steps, nodeProfile{})
		if d := firstDiff(trA, trB); d != "" {
			t.Fatalf("the same script gives different results 15 s later on the wall clock (chain clock at the wall clock, genesis time %s): %s", scenarioStart, d)
		}
		var ks []string
		upd := false
		for k := range kinds {
			ks = append(ks, k)
			r.LabelN(k, kinds[k])
			upd = upd || strings.HasPrefix(k, "MsgUpdateClient(")
		}
		sort.Strings(ks)
		r.Case(strings.Join(ks, ","), upd, func() interface{} {
			return map[string]interface{}{"steps": steps, "kinds": kinds, "responses": len(trA), "trace_digest": traceDigest(trA)}
		})
	})
}

// ---- proof-of-work path of the ETH client (environment touch point)

func powScenario() []string {
	bz, err := os.ReadFile("testdata/update_headers.json")
	kit.Must(err, "read recorded headers")
	var hs []*xibcethtypes.EthHeader
	kit.Must(json.Unmarshal(bz, &hs), "decode recorded headers")
	var trace []string
	start := time.Unix(int64(hs[1].Time)+5, 0).UTC()
	c := kit.NewChain("teleport_9000-1", kit.ChainOpts{Seed: []byte("c14pow"), Start: start})
	c.Trace = func(l string) { trace = append(trace, l) }
	h0 := hs[0].ToHeader()
	cs := &xibcethtypes.ClientState{Header: h0, ChainId: 1, ContractAddress: []byte("0x00"), TrustingPeriod: 99999999, TimeDelay: 0, BlockDelay: 1}
	cons := &xibcethtypes.ConsensusState{Timestamp: hs[0].Time, Height: clienttypes.NewHeight(0, hs[0].Number.Uint64()), Root: hs[0].Root[:]}
	kit.Must(c.App.XIBCKeeper.ClientKeeper.CreateClient(c.Ctx(), "eth", cs, cons), "create main-net eth client")
	rel := c.Accounts[1]
	c.RegisterRelayer(rel.Acc, []string{"eth"}, []string{"0xrelayer"})
	c.Commit(time.Second)
	h1 := hs[1].ToHeader()
	msg, err := clienttypes.NewMsgUpdateClient("eth", &h1, rel.Acc)
	kit.Must(err, "eth update msg")
	res := c.Deliver(rel, msg)
	trace = append(trace, fmt.Sprintf("pow-update accepted=%v", res.OK()))
	c.Commit(time.Second)
	return trace
}

const keyTmp = "ethash-tempdir"

// TestC14_PowEnvironment: a proof-of-work valid main-net header must be judged the same (and leave the same
// state hash) whatever the node's temp-dir environment is.
func TestC14_PowEnvironment(t *testing.T) {
	r := rec.For("TestC14_PowEnvironment", "pinned recorded main-net header (full ethash check) replayed in a child process with an unusable TMPDIR and GOMAXPROCS=1")
	here := powScenario()
	child := runChild(nil, -1, nodeProfile{}, hostileEnv)
	r.Case("pow-here", true, func() interface{} { return here[len(here)-3:] })
	r.Case("pow-child", true, func() interface{} { return child.Trace[len(child.Trace)-3:] })
	d := firstDiff(here, child.Trace)
	if d == "" {
		return
	}
	if kf.Listed("C14", keyTmp) {
		kf.Report("C14", keyTmp)
		r.KnownFinding(keyTmp, d)
		return
	}
	t.Fatalf("the same block replayed with an unusable TMPDIR gives a different result: %s", d)
}
