// Package rec is the evidence recorder: every property test reports each generated case here
// (abstract shape, non-triviality, labels, a renderable sample); TestMain flushes one shard file that
// the driver merges into /verif/evidence/<id>.json.
package rec

import (
	"crypto/sha256"
	"encoding/hex"
	"encoding/json"
	"fmt"
	"os"
	"sort"
	"sync"
	"testing"
)

// Recorder accumulates evidence for one test function.
type Recorder struct {
	mu         sync.Mutex
	Test       string
	Rule       string
	Evals      int
	Steps      int
	Labels     map[string]int
	distinct   map[string]struct{}
	Samples    []interface{}
	maxSamples int
	Excluded   map[string]int
	Known      map[string]string // key -> text of reproduced known findings
	Extra      map[string]interface{}
}

var (
	gmu  sync.Mutex
	recs = map[string]*Recorder{}
)

// For returns the recorder of a test function (created on first use).
func For(test, rule string) *Recorder {
	gmu.Lock()
	defer gmu.Unlock()
	r, ok := recs[test]
	if !ok {
		r = &Recorder{Test: test, Rule: rule, Labels: map[string]int{}, distinct: map[string]struct{}{},
			maxSamples: 5, Excluded: map[string]int{}, Known: map[string]string{}, Extra: map[string]interface{}{}}
		recs[test] = r
	}
	return r
}

// Case records one generated case. shape is the abstract shape used for distinctness; nontrivial
// says whether the case satisfies the property's non-triviality rule; sample (may be nil) renders it.
func (r *Recorder) Case(shape string, nontrivial bool, sample func() interface{}) {
	r.mu.Lock()
	defer r.mu.Unlock()
	r.Evals++
	if !nontrivial {
		return
	}
	h := sha256.Sum256([]byte(shape))
	k := hex.EncodeToString(h[:8])
	if _, seen := r.distinct[k]; seen {
		return
	}
	if len(r.distinct) < 400000 {
		r.distinct[k] = struct{}{}
	}
	if sample != nil && len(r.Samples) < r.maxSamples {
		r.Samples = append(r.Samples, sample())
	}
}

// Label counts an event class.
func (r *Recorder) Label(name string) { r.LabelN(name, 1) }

// LabelN adds n to an event class.
func (r *Recorder) LabelN(name string, n int) {
	r.mu.Lock()
	r.Labels[name] += n
	r.mu.Unlock()
}

// Step counts state-machine steps.
func (r *Recorder) Step() {
	r.mu.Lock()
	r.Steps++
	r.mu.Unlock()
}

// Exclude counts a case dropped by construction because of a listed known finding.
func (r *Recorder) Exclude(key string) {
	r.mu.Lock()
	r.Excluded[key]++
	r.mu.Unlock()
}

// KnownFinding records that a listed known finding still reproduces.
func (r *Recorder) KnownFinding(key, text string) {
	r.mu.Lock()
	r.Known[key] = text
	r.mu.Unlock()
}

// SetExtra stores an extra coverage key.
func (r *Recorder) SetExtra(k string, v interface{}) {
	r.mu.Lock()
	r.Extra[k] = v
	r.mu.Unlock()
}

type shardTest struct {
	Test     string                 `json:"test"`
	Rule     string                 `json:"rule"`
	Evals    int                    `json:"evaluations"`
	Steps    int                    `json:"steps"`
	Labels   map[string]int         `json:"labels"`
	Distinct []string               `json:"distinct"`
	Samples  []interface{}          `json:"samples"`
	Excluded map[string]int         `json:"excluded"`
	Known    map[string]string      `json:"known"`
	Extra    map[string]interface{} `json:"extra"`
}

// Flush writes the shard file named by VERIF_EVIDENCE_OUT (no-op when unset).
func Flush() {
	out := os.Getenv("VERIF_EVIDENCE_OUT")
	if out == "" {
		return
	}
	gmu.Lock()
	defer gmu.Unlock()
	var names []string
	for n := range recs {
		names = append(names, n)
	}
	sort.Strings(names)
	var shard []shardTest
	for _, n := range names {
		r := recs[n]
		var d []string
		for k := range r.distinct {
			d = append(d, k)
		}
		sort.Strings(d)
		shard = append(shard, shardTest{Test: r.Test, Rule: r.Rule, Evals: r.Evals, Steps: r.Steps, Labels: r.Labels,
			Distinct: d, Samples: r.Samples, Excluded: r.Excluded, Known: r.Known, Extra: r.Extra})
	}
	bz, err := json.Marshal(shard)
	if err != nil {
		fmt.Fprintln(os.Stderr, "rec: marshal:", err)
		return
	}
	if err := os.WriteFile(out, bz, 0o644); err != nil {
		fmt.Fprintln(os.Stderr, "rec: write:", err)
	}
}

// Main is the TestMain body shared by all property packages.
func Main(m *testing.M) {
	code := m.Run()
	Flush()
	os.Exit(code)
}
