package c07

import (
	"math"
	"testing"
	"time"

	"github.com/tendermint/tendermint/crypto/tmhash"

	xibctmtypes "github.com/teleport-network/teleport/x/xibc/clients/light-clients/tendermint/types"
	clienttypes "github.com/teleport-network/teleport/x/xibc/core/client/types"
	commitmenttypes "github.com/teleport-network/teleport/x/xibc/core/commitment/types"

	"verif/harness/kf"
	"verif/harness/kit"
	"verif/harness/rec"
	"verif/harness/sim/tmsim"
)

// TestC07_Known_DelayOverflow is the pinned, library-free reproduction of the delay wrap-around:
// a client configured with TimeDelay = 2^64-1 ns honours a proof in the block that created it.
func TestC07_Known_DelayOverflow(t *testing.T) {
	r := rec.For("TestC07_Known_DelayOverflow", "pinned: client with TimeDelay 2^64-1, genuine proof checked in the creating block and one hour later")
	c := baseChain()
	ctx, _ := c.Ctx().CacheContext()
	keys := []tmsim.Key{poolKey(0)}
	vals := []tmsim.Member{{Key: 0, Power: 1}}
	key := packetKey(false, 1)
	val := tmhash.Sum([]byte("packet"))
	sim := tmsim.NewChain("tmsim-1", keys, 1, kit.Epoch, vals, vals, []tmsim.KV{{Key: key, Value: val}})
	b := sim.Blocks[1]
	cs := xibctmtypes.NewClientState("tmsim-1", xibctmtypes.DefaultTrustLevel, kit.TrustingPeriod, kit.UnbondingPeriod, kit.MaxClockDrift,
		clienttypes.NewHeight(1, 1), commitmenttypes.GetSDKSpecs(), commitmenttypes.MerklePrefix{KeyPrefix: []byte("xibc")}, math.MaxUint64)
	kit.Must(cs.Validate(), "client state validation")
	cons := &xibctmtypes.ConsensusState{Timestamp: b.Time, Root: b.AppHash, NextValidatorsHash: b.NextVals.Hash()}
	ck := c.App.XIBCKeeper.ClientKeeper
	ctx = ctx.WithBlockTime(kit.Epoch)
	kit.Must(ck.CreateClient(ctx, "tmsim-1", cs, cons), "CreateClient")
	proof := sim.Proof(b.Version, key)
	reproduced := ""
	for i, dt := range []time.Duration{0, time.Hour} {
		at := ctx.WithBlockTime(kit.Epoch.Add(dt))
		err := cs.VerifyPacketCommitment(at, ck.ClientStore(at, "tmsim-1"), c.App.AppCodec(), clienttypes.NewHeight(1, 1), proof, srcName, dstName, 1, val)
		var sample func() interface{}
		if i == 0 {
			sample = func() interface{} {
				return kit.Fmt("TimeDelay=2^64-1, proof checked %s after processing: honoured=%v", dt, err == nil)
			}
		}
		r.Case(kit.Fmt("pinned-delay-overflow-%d", i), true, sample)
		if err == nil && reproduced == "" {
			reproduced = kit.Fmt("proof honoured %s after the consensus state was processed although TimeDelay = 2^64-1 ns", dt)
		}
	}
	// positive control of the pinned scenario: with no delay the same proof must be honoured
	cs0 := *cs
	cs0.TimeDelay = 0
	if err := cs0.VerifyPacketCommitment(ctx, ck.ClientStore(ctx, "tmsim-1"), c.App.AppCodec(), clienttypes.NewHeight(1, 1), proof, srcName, dstName, 1, val); err != nil {
		kit.Failf("pinned scenario broken: genuine proof refused without delay: %v", err)
	}
	if reproduced == "" {
		return
	}
	if kf.Listed("C07", "delay-overflow") {
		kf.Report("C07", "delay-overflow")
		r.KnownFinding("delay-overflow", reproduced)
		return
	}
	t.Fatalf("%s", reproduced)
}
