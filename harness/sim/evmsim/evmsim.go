// Package evmsim is the EVM counterparty simulator: a go-ethereum Merkle-Patricia state trie with
// arbitrary accounts, per-account storage tries, and `Prove` output rendered in the
// eth_getProof-shaped JSON that the ETH and BSC light clients of teleport parse
// (snake_case keys: address, balance, code_hash, nonce, storage_hash, account_proof,
// storage_proof[{key,value,proof}]).
//
// go-ethereum's trie / rlp / crypto packages are used to BUILD tries and proofs (trusted base,
// DESIGN 2.8); nothing here verifies anything. The package deliberately does not import the
// teleport app or the chain kit so that native fuzz binaries built on it stay small.
package evmsim

import (
	"encoding/binary"
	"encoding/hex"
	"fmt"
	"math/big"
	"sort"

	"github.com/ethereum/go-ethereum/common"
	"github.com/ethereum/go-ethereum/core/types"
	"github.com/ethereum/go-ethereum/crypto"
	"github.com/ethereum/go-ethereum/ethdb/memorydb"
	"github.com/ethereum/go-ethereum/rlp"
	"github.com/ethereum/go-ethereum/trie"
)

// HarnessError marks a failure of the simulator / harness itself (never a property violation).
// The driver recognises the "HARNESS:" prefix and reports the run as inconclusive.
type HarnessError struct{ Msg string }

func (e HarnessError) Error() string { return "HARNESS: " + e.Msg }

// Must panics with a HarnessError when err != nil.
func Must(err error, what string) {
	if err != nil {
		panic(HarnessError{Msg: fmt.Sprintf("%s: %v", what, err)})
	}
}

// Failf panics with a HarnessError.
func Failf(format string, a ...interface{}) {
	panic(HarnessError{Msg: fmt.Sprintf(format, a...)})
}

// XIBCParamsIndex is the storage index of the commitments mapping in the XIBC packet contract.
const XIBCParamsIndex = 208

// EmptyRoot is the root hash of an empty trie, EmptyCode the hash of empty code.
var (
	EmptyRoot = common.HexToHash("56e81f171bcc55a6ff8345e692c0f86e5b48e01b996cadc001622fb5e363b421")
	EmptyCode = crypto.Keccak256Hash(nil)
)

// CommitmentPath / AckPath are the XIBC host paths whose keccak (with the mapping index) is the slot.
func CommitmentPath(src, dst string, seq uint64) []byte {
	return []byte(fmt.Sprintf("commitments/%s/%s/sequences/%d", src, dst, seq))
}

func AckPath(src, dst string, seq uint64) []byte {
	return []byte(fmt.Sprintf("acks/%s/%s/sequences/%d", src, dst, seq))
}

// Slot = keccak(path ‖ uint256(208)): Solidity `mapping(bytes => bytes32)` at index 208.
func Slot(path []byte) common.Hash {
	var idx [32]byte
	binary.BigEndian.PutUint64(idx[24:], XIBCParamsIndex)
	return crypto.Keccak256Hash(path, idx[:])
}

// TrimLeft removes leading zero bytes.
func TrimLeft(b []byte) []byte {
	i := 0
	for i < len(b) && b[i] == 0 {
		i++
	}
	return b[i:]
}

// WordLeaf is what the EVM stores in a storage trie for a 32-byte word: rlp(trimLeadingZeros(word)).
func WordLeaf(word common.Hash) []byte {
	bz, err := rlp.EncodeToBytes(TrimLeft(word[:]))
	Must(err, "rlp word")
	return bz
}

// RLPString encodes arbitrary bytes as an RLP string (for deliberately odd leaves).
func RLPString(b []byte) []byte {
	bz, err := rlp.EncodeToBytes(b)
	Must(err, "rlp string")
	return bz
}

// Account is one account of a World. Storage maps a slot to the raw leaf bytes held in the
// storage trie under keccak(slot) (normally WordLeaf(value); any bytes are allowed so that a check
// can build tries an EVM would never produce).
type Account struct {
	Addr     common.Address
	Nonce    uint64
	Balance  *big.Int
	CodeHash common.Hash
	Storage  map[common.Hash][]byte
}

// Clone deep-copies an account.
func (a *Account) Clone() *Account {
	c := &Account{Addr: a.Addr, Nonce: a.Nonce, Balance: new(big.Int).Set(a.Balance), CodeHash: a.CodeHash, Storage: map[common.Hash][]byte{}}
	for k, v := range a.Storage {
		c.Storage[k] = append([]byte(nil), v...)
	}
	return c
}

// World is an immutable EVM state: state trie over keccak(address), storage tries over keccak(slot).
type World struct {
	accounts map[common.Address]*Account
	order    []common.Address
	state    *trie.Trie
	storage  map[common.Address]*trie.Trie
	root     common.Hash
}

func newTrie() *trie.Trie {
	t, err := trie.New(common.Hash{}, trie.NewDatabase(memorydb.New()))
	Must(err, "new trie")
	return t
}

// NewWorld builds the tries. Accounts with equal addresses are a harness error.
func NewWorld(accts []*Account) *World {
	w := &World{accounts: map[common.Address]*Account{}, storage: map[common.Address]*trie.Trie{}, state: newTrie()}
	sorted := append([]*Account(nil), accts...)
	sort.Slice(sorted, func(i, j int) bool { return string(sorted[i].Addr[:]) < string(sorted[j].Addr[:]) })
	for _, a := range sorted {
		if _, dup := w.accounts[a.Addr]; dup {
			Failf("duplicate account %s", a.Addr)
		}
		w.accounts[a.Addr] = a
		w.order = append(w.order, a.Addr)
		st := newTrie()
		slots := make([]common.Hash, 0, len(a.Storage))
		for s := range a.Storage {
			slots = append(slots, s)
		}
		sort.Slice(slots, func(i, j int) bool { return string(slots[i][:]) < string(slots[j][:]) })
		for _, s := range slots {
			if len(a.Storage[s]) == 0 {
				Failf("empty storage leaf")
			}
			st.Update(crypto.Keccak256(s[:]), a.Storage[s])
		}
		w.storage[a.Addr] = st
		w.state.Update(crypto.Keccak256(a.Addr[:]), w.accountLeaf(a))
	}
	w.root = w.state.Hash()
	return w
}

func (w *World) accountLeaf(a *Account) []byte {
	bal := a.Balance
	if bal == nil {
		bal = new(big.Int)
	}
	bz, err := rlp.EncodeToBytes(&types.StateAccount{Nonce: a.Nonce, Balance: bal, Root: w.storage[a.Addr].Hash(), CodeHash: a.CodeHash[:]})
	Must(err, "rlp account")
	return bz
}

// Root is the state root.
func (w *World) Root() common.Hash { return w.root }

// Addresses lists the accounts in address order.
func (w *World) Addresses() []common.Address { return append([]common.Address(nil), w.order...) }

// Account returns the account or nil.
func (w *World) Account(a common.Address) *Account { return w.accounts[a] }

// StorageRoot of an account (EmptyRoot when the account does not exist).
func (w *World) StorageRoot(a common.Address) common.Hash {
	if st, ok := w.storage[a]; ok {
		return st.Hash()
	}
	return EmptyRoot
}

// orderedNodes records trie.Prove output in order (root first).
type orderedNodes struct{ nodes [][]byte }

func (o *orderedNodes) Put(key, value []byte) error {
	o.nodes = append(o.nodes, append([]byte(nil), value...))
	return nil
}
func (o *orderedNodes) Delete(key []byte) error { return nil }

// StorageResult / Proof mirror the JSON the light clients unmarshal.
type StorageResult struct {
	Key   string   `json:"key"`
	Value string   `json:"value"`
	Proof []string `json:"proof"`
}

type Proof struct {
	Address      string           `json:"address"`
	Balance      string           `json:"balance"`
	CodeHash     string           `json:"code_hash"`
	Nonce        string           `json:"nonce"`
	StorageHash  string           `json:"storage_hash"`
	AccountProof []string         `json:"account_proof"`
	StorageProof []*StorageResult `json:"storage_proof"`
}

// Clone deep-copies a proof.
func (p *Proof) Clone() *Proof {
	c := *p
	c.AccountProof = append([]string(nil), p.AccountProof...)
	c.StorageProof = nil
	for _, s := range p.StorageProof {
		if s == nil {
			c.StorageProof = append(c.StorageProof, nil)
			continue
		}
		d := *s
		d.Proof = append([]string(nil), s.Proof...)
		c.StorageProof = append(c.StorageProof, &d)
	}
	return &c
}

// Hex renders bytes as 0x-prefixed lower-case hex.
func Hex(b []byte) string { return "0x" + hex.EncodeToString(b) }

// Quantity renders a number the way eth JSON-RPC does (0x0, 0x1a, no leading zeros).
func Quantity(n *big.Int) string {
	if n == nil || n.Sign() == 0 {
		return "0x0"
	}
	return "0x" + n.Text(16)
}

func hexNodes(n [][]byte) []string {
	out := make([]string, len(n))
	for i, b := range n {
		out[i] = Hex(b)
	}
	return out
}

// AccountNodes returns the state-trie nodes on the path of an address (inclusion or exclusion proof).
func (w *World) AccountNodes(addr common.Address) [][]byte {
	var o orderedNodes
	Must(w.state.Prove(crypto.Keccak256(addr[:]), 0, &o), "prove account")
	return o.nodes
}

// StorageNodes returns the storage-trie nodes on the path of a slot of an account.
func (w *World) StorageNodes(addr common.Address, slot common.Hash) [][]byte {
	st, ok := w.storage[addr]
	if !ok {
		return nil
	}
	var o orderedNodes
	Must(st.Prove(crypto.Keccak256(slot[:]), 0, &o), "prove storage")
	return o.nodes
}

// Prove renders what eth_getProof(addr, slots, block) returns for this world, in the clients' JSON
// shape. Absent accounts and absent slots give exclusion proofs, as geth does.
func (w *World) Prove(addr common.Address, slots ...common.Hash) *Proof {
	p := &Proof{Address: Hex(addr[:]), AccountProof: hexNodes(w.AccountNodes(addr))}
	if a := w.accounts[addr]; a != nil {
		p.Balance = Quantity(a.Balance)
		p.Nonce = Quantity(new(big.Int).SetUint64(a.Nonce))
		p.CodeHash = Hex(a.CodeHash[:])
		p.StorageHash = Hex(w.StorageRoot(addr).Bytes())
	} else {
		p.Balance, p.Nonce = "0x0", "0x0"
		p.CodeHash = Hex(EmptyCode[:])
		p.StorageHash = Hex(EmptyRoot[:])
	}
	for _, s := range slots {
		sr := &StorageResult{Key: Hex(s[:]), Value: "0x0", Proof: hexNodes(w.StorageNodes(addr, s))}
		if a := w.accounts[addr]; a != nil {
			if leaf, ok := a.Storage[s]; ok {
				var b []byte
				if rlp.DecodeBytes(leaf, &b) == nil {
					sr.Value = Quantity(new(big.Int).SetBytes(b))
				}
			}
		}
		p.StorageProof = append(p.StorageProof, sr)
	}
	return p
}
