package aggsim

import (
	"fmt"
	"strings"
	"time"

	sdk "github.com/cosmos/cosmos-sdk/types"
	banktypes "github.com/cosmos/cosmos-sdk/x/bank/types"
	"github.com/ethereum/go-ethereum/common"
	"pgregory.net/rapid"

	"github.com/teleport-network/teleport/x/aggregate"
	aggtypes "github.com/teleport-network/teleport/x/aggregate/types"

	"verif/harness/kf"
	"verif/harness/kit"
	"verif/harness/rec"
)

// Known-finding keys of C12 (see /verif/proposed_fixes/C12-*.md).
const (
	KeyNameNotBase        = "register-checks-name-not-base"
	KeyUpdateMultiDenom   = "update-erc20-drops-denom-index"
	KeyUpdateToRegistered = "update-erc20-to-registered-contract"
)

// Reg is the C12 state machine: governance actions through the real proposal handler, interleaved
// conversions and self-destructs, raw registry oracle after every step.
type Reg struct {
	W    *World
	R    *rec.Recorder
	Hist []string

	exNameNotBase, exUpdateMulti, exUpdateToRegistered bool

	hadMulti           bool
	changeAfterMulti   int // successful update / delete while a multi-denomination pair exists
	updatesOK, deletes int
	updMulti, delMulti int
	roundTripsOK       int
	govOK              map[string]int
	deployed           int
}

func (m *Reg) logf(format string, a ...interface{}) {
	m.Hist = append(m.Hist, fmt.Sprintf(format, a...))
}
func (m *Reg) history() string { return strings.Join(m.Hist, "\n  ") }

func NewReg(r *rec.Recorder) *Reg {
	return &Reg{W: NewWorld(), R: r, govOK: map[string]int{},
		exNameNotBase:        kf.Listed("C12", KeyNameNotBase),
		exUpdateMulti:        kf.Listed("C12", KeyUpdateMultiDenom),
		exUpdateToRegistered: kf.Listed("C12", KeyUpdateToRegistered),
	}
}

// metaFor returns the metadata a proposer submits for coin d: the stored bank metadata if there is
// one (anything else is refused), otherwise a drawn one: name equal to / different from the base,
// description plain or naming the contract the module will deploy next (the only description with
// which a later update-ERC20-address proposal can pass for a module-owned pair).
func (m *Reg) metaFor(t *rapid.T, d string) banktypes.Metadata {
	if md, ok := m.W.App.BankKeeper.GetDenomMetaData(m.W.C.Ctx(), d); ok {
		return md
	}
	desc := "coin " + d
	if rapid.Bool().Draw(t, "descriptionNamesContract") {
		desc = aggtypes.CreateDenomDescription(m.W.NextModuleContract().String())
	}
	return CoinMetadata(d, rapid.Bool().Draw(t, "nameEqualsBase"), desc)
}

// pickDenom draws a coin denomination, four times out of five one that was never proposed before
// (a denomination whose metadata is already in the bank store can only be refused again).
func (m *Reg) pickDenom(t *rapid.T) string {
	di := rapid.IntRange(0, len(CoinDenoms)-1).Draw(t, "denom")
	d := CoinDenoms[di]
	if rapid.IntRange(0, 4).Draw(t, "preferFresh") != 0 {
		for i := range CoinDenoms {
			c := CoinDenoms[(i+di)%len(CoinDenoms)]
			if _, ok := m.W.App.BankKeeper.GetDenomMetaData(m.W.C.Ctx(), c); !ok {
				return c
			}
		}
	}
	return d
}

// excludedDuplicate implements the exclusion of known finding KeyNameNotBase: proposing a base
// denomination that is already registered while the metadata name is not a registered denomination.
func (m *Reg) excludedDuplicate(reg Registry, md banktypes.Metadata) bool {
	if !m.exNameNotBase {
		return false
	}
	_, baseIndexed := reg.ByDenom[md.Base]
	_, nameIndexed := reg.ByDenom[md.Name]
	if (baseIndexed || len(reg.PairsOfDenom(md.Base)) > 0) && !nameIndexed {
		m.R.Exclude(KeyNameNotBase)
		return true
	}
	return false
}

func (m *Reg) note(kind string, err error, invalid bool) string {
	switch {
	case invalid:
		m.R.Label("gov_invalid_at_submission/" + kind)
		return "invalid at submission"
	case err != nil:
		m.R.Label("gov_refused/" + kind)
		return "refused: " + firstLine(err.Error())
	}
	m.R.Label("gov_ok/" + kind)
	m.govOK[kind]++
	return "passed"
}

func firstLine(s string) string {
	if i := strings.IndexByte(s, '\n'); i >= 0 {
		s = s[:i]
	}
	if len(s) > 160 {
		s = s[:160]
	}
	return s
}

func (m *Reg) pickPair(t *rapid.T, reg Registry) (Pair, bool) {
	if len(reg.Pairs) == 0 {
		return Pair{}, false
	}
	return reg.Pairs[rapid.IntRange(0, len(reg.Pairs)-1).Draw(t, "pair")], true
}

func (m *Reg) multiExists(reg Registry) bool {
	for _, p := range reg.Pairs {
		if len(p.Denoms) > 1 {
			return true
		}
	}
	return false
}

var tokenNames = []string{"tka", "tkb"}

// deployMatching deploys a token whose name/symbol/decimals are what UpdateTokenPairERC20 demands for
// pair p (read from the bank metadata of the pair's first denomination, as a proposer would).
func (m *Reg) deployMatching(t *rapid.T, p Pair) *Token {
	w := m.W
	md, ok := w.App.BankKeeper.GetDenomMetaData(w.C.Ctx(), p.Denoms[0])
	if !ok {
		return nil
	}
	var dec uint32
	found := false
	for _, u := range md.DenomUnits {
		if u.Denom == md.Display {
			dec, found = u.Exponent, true
		}
	}
	if !found || dec > 255 {
		return nil
	}
	kind := KindPlain
	if len(md.Display) <= 32 && len(md.Symbol) <= 32 && rapid.Bool().Draw(t, "flexTarget") {
		kind = KindFlex
	}
	m.deployed++
	return w.DeployToken(kind, w.Users[rapid.IntRange(0, 2).Draw(t, "deployer")], md.Display, md.Symbol, uint8(dec), 100)
}

// govAction performs one drawn governance action; returns false if nothing was attempted.
func (m *Reg) govAction(t *rapid.T) bool {
	w := m.W
	reg := w.ReadRegistry(w.C.Ctx())
	kind := rapid.SampledFrom([]string{"registerCoin", "registerCoin", "addCoin", "addCoin", "addCoin", "registerERC20", "registerERC20", "toggle", "updateERC20", "updateERC20", "updateERC20"}).Draw(t, "gov")
	if kind == "registerCoin" || kind == "addCoin" {
		fresh := false
		for _, c := range CoinDenoms {
			if _, ok := w.App.BankKeeper.GetDenomMetaData(w.C.Ctx(), c); !ok {
				fresh = true
			}
		}
		if !fresh && rapid.IntRange(0, 3).Draw(t, "stillProposeKnownCoin") != 0 {
			// every coin has been proposed before: re-proposals can only be refused, do something else mostly
			kind = rapid.SampledFrom([]string{"registerERC20", "toggle", "updateERC20", "updateERC20"}).Draw(t, "govInstead")
		}
	}
	switch kind {
	case "registerCoin":
		d := m.pickDenom(t)
		md := m.metaFor(t, d)
		if m.excludedDuplicate(reg, md) {
			return false
		}
		already := len(reg.PairsOfDenom(d)) > 0
		err, inv := w.RegisterCoin(md)
		m.logf("gov RegisterCoin{base:%s name:%q} -> %s", md.Base, md.Name, m.note(kind, err, inv))
		if already && err != nil {
			m.R.Label("duplicate_denomination_refused")
		}
	case "addCoin":
		d := m.pickDenom(t)
		md := m.metaFor(t, d)
		if m.excludedDuplicate(reg, md) {
			return false
		}
		contract := w.Users[0].Addr.Hex() // unregistered
		p, ok := m.pickPair(t, reg)
		if ok && rapid.IntRange(0, 2).Draw(t, "preferSelfDestructible") == 0 {
			for _, q := range reg.Pairs {
				if tk := w.TokenAt(q.Addr); tk != nil && tk.Kind == KindFlex && !tk.Dead {
					p = q
				}
			}
		}
		if ok && rapid.IntRange(0, 9).Draw(t, "unregisteredContract") != 0 {
			contract = p.Addr.Hex()
		}
		already := len(reg.PairsOfDenom(d)) > 0
		err, inv := w.AddCoin(md, contract)
		m.logf("gov AddCoin{base:%s name:%q contract:%s} -> %s", md.Base, md.Name, contract, m.note(kind, err, inv))
		if already && err != nil {
			m.R.Label("duplicate_denomination_refused")
		}
		if err == nil {
			m.hadMulti = true
			m.R.Label("multi_denomination_pair_created/" + p.Owner.String())
		}
	case "registerERC20":
		var addr common.Address
		switch c := rapid.IntRange(0, 9).Draw(t, "which"); {
		case c == 0:
			addr = w.Users[1].Addr // not a contract
		case (c <= 5 && m.deployed < 8) || len(w.Tokens) == 0:
			m.deployed++
			k := rapid.SampledFrom([]TokenKind{KindPlain, KindFlex, KindFlex, KindDirect, KindDelayed}).Draw(t, "tokenKind")
			name := rapid.SampledFrom(tokenNames).Draw(t, "tokenName")
			dec := rapid.SampledFrom([]uint8{0, 6}).Draw(t, "decimals")
			addr = w.DeployToken(k, w.Users[rapid.IntRange(0, 2).Draw(t, "deployer")], name, strings.ToUpper(name), dec, 100).Addr
		default:
			addr = w.Tokens[rapid.IntRange(0, len(w.Tokens)-1).Draw(t, "token")].Addr
		}
		err, inv := w.RegisterERC20(addr)
		m.logf("gov RegisterERC20{%s %s} -> %s", addr.Hex(), m.tokenDesc(addr), m.note(kind, err, inv))
	case "toggle":
		key := "nosuchcoin"
		if p, ok := m.pickPair(t, reg); ok && rapid.IntRange(0, 9).Draw(t, "unregisteredKey") != 0 {
			key = p.Addr.Hex()
			if rapid.Bool().Draw(t, "byDenom") {
				key = p.Denoms[rapid.IntRange(0, len(p.Denoms)-1).Draw(t, "denomIdx")]
			}
		}
		err, inv := w.Toggle(key)
		m.logf("gov ToggleTokenRelay{%s} -> %s", key, m.note(kind, err, inv))
	case "updateERC20":
		p, ok := m.pickPair(t, reg)
		if !ok {
			return false
		}
		if len(p.Denoms) > 1 && m.exUpdateMulti {
			m.R.Exclude(KeyUpdateMultiDenom)
			return false
		}
		var target common.Address
		switch c := rapid.IntRange(0, 9).Draw(t, "target"); {
		case c <= 5:
			if m.deployed >= 8 {
				return false
			}
			tok := m.deployMatching(t, p)
			if tok == nil {
				return false
			}
			target = tok.Addr
		case c == 6:
			target = p.Addr
		case c == 7:
			// another tracked contract with the same name, symbol and decimals (registered or not)
			cur := w.TokenAt(p.Addr)
			for _, tk := range w.Tokens {
				if cur != nil && tk.Addr != cur.Addr && !tk.Dead && tk.Name == cur.Name && tk.Symbol == cur.Symbol && tk.Decimals == cur.Decimals {
					target = tk.Addr
				}
			}
			if target == (common.Address{}) {
				return false
			}
		default:
			if len(w.Tokens) == 0 {
				return false
			}
			target = w.Tokens[rapid.IntRange(0, len(w.Tokens)-1).Draw(t, "token")].Addr
		}
		if _, registered := reg.ByAddr[string(target.Bytes())]; registered || len(reg.PairsOfAddr(target)) > 0 {
			if m.exUpdateToRegistered {
				m.R.Exclude(KeyUpdateToRegistered)
				return false
			}
		}
		multi := m.multiExists(reg)
		err, inv := w.UpdateERC20(p.Addr, target)
		m.logf("gov UpdateTokenPairERC20{%s %v -> %s %s} -> %s", p.Addr.Hex(), p.Denoms, target.Hex(), m.tokenDesc(target), m.note(kind, err, inv))
		if err == nil {
			m.updatesOK++
			m.R.Label("update_ok/" + p.Owner.String())
			if multi {
				m.changeAfterMulti++
			}
			if len(p.Denoms) > 1 {
				m.updMulti++
				m.R.Label("update_of_multi_denomination_pair")
			}
		}
	}
	return true
}

func (m *Reg) tokenDesc(a common.Address) string {
	tok := m.W.TokenAt(a)
	switch {
	case tok == nil && m.W.HasCode(m.W.C.Ctx(), a):
		return "(untracked contract)"
	case tok == nil:
		return "(not a contract)"
	case tok.Dead:
		return "(" + tok.Kind.String() + ", self-destructed)"
	}
	return "(" + tok.Kind.String() + " " + tok.Name + ")"
}

// convert delivers one conversion on pair p; it returns the result and whether the pair was deleted
// by it (self-destruct clean-up).
func (m *Reg) convert(t *rapid.T, p Pair) {
	w := m.W
	ctx := w.C.Ctx()
	ui := rapid.IntRange(0, 2).Draw(t, "user")
	u := w.Users[ui]
	denom := p.Denoms[rapid.IntRange(0, len(p.Denoms)-1).Draw(t, "denomIdx")]
	x := sdk.NewInt(rapid.Int64Range(1, 40).Draw(t, "amount"))
	dead := !w.HasCode(ctx, p.Addr)
	var res kit.TxResult
	var what string
	if rapid.Bool().Draw(t, "coinToToken") {
		what = fmt.Sprintf("user%d MsgConvertCoin{%s%s} on %s", ui, x, denom, p.Addr.Hex())
		res = w.ConvertCoin(u, u.Addr, denom, x)
	} else {
		what = fmt.Sprintf("user%d MsgConvertERC20{%s %s of %s}", ui, x, denom, p.Addr.Hex())
		res = w.ConvertERC20(u, u.Acc, p.Addr.Hex(), denom, x)
	}
	after := w.ReadRegistry(w.C.Ctx())
	gone := len(after.PairsOfAddr(p.Addr)) == 0
	m.logf("%s %s -> %s%s", what, m.tokenDesc(p.Addr), outcome(res), map[bool]string{true: ", pair record deleted", false: ""}[gone])
	switch {
	case res.OK() && gone:
		m.deletes++
		m.R.Label("selfdestruct_cleanup_deleted_pair/" + p.Owner.String())
		if m.multiExists(after) || len(p.Denoms) > 1 {
			m.changeAfterMulti++
		}
		if len(p.Denoms) > 1 {
			m.delMulti++
			m.R.Label("delete_of_multi_denomination_pair")
		}
	case res.OK():
		m.R.Label("interleaved_conversion_ok/" + p.Owner.String())
	default:
		m.R.Label("interleaved_conversion_failed/" + FailureKind(res.Log))
	}
	if dead && p.Enabled && !gone && res.OK() {
		// nothing to assert here: the registry statements are checked by the invariant
		m.R.Label("conversion_on_dead_contract_kept_pair")
	}
}

// roundTrip is the metamorphic statement (iv): a coin converted into tokens before a registry change
// converts back afterwards while the same pair still lists it and is enabled.
func (m *Reg) roundTrip(t *rapid.T) {
	w := m.W
	ctx := w.C.Ctx()
	reg := w.ReadRegistry(ctx)
	p, ok := m.pickPair(t, reg)
	if !ok {
		t.Skip("no pair")
	}
	if tok := w.TokenAt(p.Addr); p.Owner == aggtypes.OWNER_MODULE && (tok == nil || tok.Kind != KindModule) {
		// a module-owned pair whose address governance moved to a contract the module did not deploy:
		// whether that contract lets the module mint and burn is the contract's business, not the registry's
		m.R.Label("roundtrip_skipped_foreign_contract_on_module_pair")
		t.Skip("foreign contract")
	}
	ui := rapid.IntRange(0, 2).Draw(t, "user")
	u := w.Users[ui]
	denom := p.Denoms[rapid.IntRange(0, len(p.Denoms)-1).Draw(t, "denomIdx")]
	x := sdk.NewInt(rapid.Int64Range(1, 25).Draw(t, "amount"))
	fwd := w.ConvertCoin(u, u.Addr, denom, x)
	m.logf("round trip: user%d MsgConvertCoin{%s%s} on %s %s -> %s", ui, x, denom, p.Addr.Hex(), m.tokenDesc(p.Addr), outcome(fwd))
	if !fwd.OK() {
		m.R.Label("roundtrip_premise_failed/" + FailureKind(fwd.Log))
		return
	}
	if len(w.ReadRegistry(w.C.Ctx()).PairsOfAddr(p.Addr)) == 0 {
		m.R.Label("roundtrip_premise_was_cleanup")
		m.deletes++
		if len(p.Denoms) > 1 {
			m.delMulti++
			m.changeAfterMulti++
			m.R.Label("delete_of_multi_denomination_pair")
		}
		return
	}
	n := rapid.IntRange(1, 2).Draw(t, "changes")
	for i := 0; i < n; i++ {
		m.govAction(t)
	}
	if bad := m.check(); len(bad) > 0 {
		t.Fatalf("registry inconsistent: %s\nhistory:\n  %s", strings.Join(bad, "\n"), m.history())
	}
	after := w.ReadRegistry(w.C.Ctx())
	still := false
	for _, q := range after.PairsOfAddr(p.Addr) {
		if q.Lists(denom) && q.Enabled {
			still = true
		}
	}
	if !still || !w.HasCode(w.C.Ctx(), p.Addr) {
		m.R.Label("roundtrip_pair_changed_or_disabled")
		return
	}
	back := w.ConvertERC20(u, u.Acc, p.Addr.Hex(), denom, x)
	m.logf("round trip: user%d MsgConvertERC20{%s %s of %s} -> %s", ui, x, denom, p.Addr.Hex(), outcome(back))
	if !back.OK() {
		t.Fatalf("(iv) %s%s converted into tokens of %s before a registry change cannot be converted back although the pair still lists it and is enabled: %.300s\nhistory:\n  %s",
			x, denom, p.Addr.Hex(), back.Log, m.history())
	}
	m.roundTripsOK++
	m.R.Label("roundtrip_ok/" + p.Owner.String() + fmt.Sprintf("/%ddenom", len(p.Denoms)))
}

func (m *Reg) check() []string {
	ctx := m.W.C.Ctx()
	reg := m.W.ReadRegistry(ctx)
	bad := reg.Check()
	bad = append(bad, m.W.CheckLookups(ctx, reg)...)
	if reg.Other > 0 {
		bad = append(bad, fmt.Sprintf("%d keys outside the three prefixes", reg.Other))
	}
	return bad
}

// Invariant is the registry oracle run after every step.
func (m *Reg) Invariant(t *rapid.T) {
	if bad := m.check(); len(bad) > 0 {
		t.Fatalf("registry inconsistent: %s\nhistory:\n  %s", strings.Join(bad, "\n"), m.history())
	}
}

// Step performs one drawn action of the C12 machine.
func (m *Reg) Step(t *rapid.T) {
	w := m.W
	m.R.Step()
	switch rapid.SampledFrom([]string{"gov", "gov", "gov", "gov", "gov", "gov", "convert", "convert", "kill", "roundTrip", "roundTrip", "commit"}).Draw(t, "action") {
	case "gov":
		if !m.govAction(t) {
			t.Skip("nothing to do")
		}
	case "convert":
		reg := w.ReadRegistry(w.C.Ctx())
		p, ok := m.pickPair(t, reg)
		if !ok {
			t.Skip("no pair")
		}
		if rapid.Bool().Draw(t, "preferDead") {
			for _, q := range reg.Pairs {
				if !w.HasCode(w.C.Ctx(), q.Addr) {
					p = q
				}
			}
		}
		m.convert(t, p)
	case "kill":
		var flex []*Token
		for _, tk := range w.Tokens {
			if tk.Kind == KindFlex && !tk.Dead {
				flex = append(flex, tk)
			}
		}
		if len(flex) == 0 {
			t.Skip("no live flex token")
		}
		tok := flex[rapid.IntRange(0, len(flex)-1).Draw(t, "flex")]
		if rapid.Bool().Draw(t, "preferMultiDenom") {
			for _, q := range w.ReadRegistry(w.C.Ctx()).Pairs {
				if tk := w.TokenAt(q.Addr); tk != nil && tk.Kind == KindFlex && !tk.Dead && len(q.Denoms) > 1 {
					tok = tk
				}
			}
		}
		w.FlexKill(w.Users[0], tok)
		m.logf("token %s self-destructs", tok.Addr.Hex())
		m.R.Label("selfdestruct")
	case "roundTrip":
		m.roundTrip(t)
	case "commit":
		w.C.Commit(5 * time.Second)
		m.logf("commit block")
	}
}

// Finish records the case.
func (m *Reg) Finish() {
	reg := m.W.ReadRegistry(m.W.C.Ctx())
	multiNow := 0
	for _, p := range reg.Pairs {
		if len(p.Denoms) > 1 {
			multiNow++
		}
	}
	nontrivial := m.hadMulti && m.changeAfterMulti > 0
	shape := fmt.Sprintf("pairs=%d multiNow=%d regCoin=%d addCoin=%d regERC20=%d toggle=%d upd=%d/%d del=%d/%d rt=%d",
		len(reg.Pairs), multiNow, min(m.govOK["registerCoin"], 4), min(m.govOK["addCoin"], 4), min(m.govOK["registerERC20"], 4), min(m.govOK["toggle"], 3),
		min(m.updatesOK, 3), min(m.updMulti, 2), min(m.deletes, 3), min(m.delMulti, 2), min(m.roundTripsOK, 3))
	m.R.Case(shape, nontrivial, func() interface{} { return m.Hist })
	if m.hadMulti {
		m.R.Label("case_with_multi_denomination_pair")
	}
	if nontrivial {
		m.R.Label("case_with_update_or_delete_after_multi_denomination_pair")
	}
}

// genesisPairs lets a third of the histories start from a registry that came in through the chain's genesis file instead of
// through proposals: pairs of externally owned contracts whose address is spelled the ways genesis validation accepts
// (EIP-55, all lower case, all upper case), imported by the module's InitGenesis.
func (m *Reg) genesisPairs(t *rapid.T) {
	if rapid.IntRange(0, 2).Draw(t, "genesisPairs") != 0 {
		return
	}
	w := m.W
	n := rapid.IntRange(1, 2).Draw(t, "genesisPairs.n")
	gs := aggtypes.GenesisState{Params: w.App.AggregateKeeper.GetParams(w.C.Ctx())}
	for i := 0; i < n; i++ {
		tok := w.DeployToken(KindPlain, w.Users[0], fmt.Sprintf("Genesis%d", i), fmt.Sprintf("GEN%d", i), 18, 1000)
		spelled := tok.Addr.Hex()
		switch rapid.SampledFrom([]string{"eip55", "lower", "upper"}).Draw(t, "genesisPairs.spelling") {
		case "lower":
			spelled = strings.ToLower(spelled)
		case "upper":
			spelled = "0x" + strings.ToUpper(spelled[2:])
		}
		denoms := []string{aggtypes.CreateDenom(tok.Addr.Hex())}
		if rapid.Bool().Draw(t, "genesisPairs.secondDenom") {
			// a pair that had a further denomination added (AddCoin) before the genesis was exported
			denoms = append(denoms, CoinDenoms[len(CoinDenoms)-1-i])
		}
		gs.TokenPairs = append(gs.TokenPairs, aggtypes.TokenPair{ERC20Address: spelled, Denoms: denoms,
			Enabled: rapid.IntRange(0, 3).Draw(t, "genesisPairs.enabled") != 0, ContractOwner: aggtypes.OWNER_EXTERNAL})
		m.logf("genesis pair %s -> %s", spelled, gs.TokenPairs[i].Denoms[0])
	}
	kit.Must(gs.Validate(), "generated aggregate genesis")
	aggregate.InitGenesis(w.C.Ctx(), *w.App.AggregateKeeper, w.App.AccountKeeper, gs)
	m.R.Label("history_starts_from_genesis_imported_pairs")
	m.Invariant(t)
}

// RunRegistry is the C12 property body.
func RunRegistry(t *rapid.T, r *rec.Recorder) {
	m := NewReg(r)
	defer m.Finish()
	m.genesisPairs(t)
	t.Repeat(map[string]func(*rapid.T){
		"step": m.Step,
		"":     m.Invariant,
	})
}
