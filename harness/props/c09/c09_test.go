// C09 — BSC client accepts only the next block sealed by an eligible validator.
package c09

import (
	"bytes"
	"encoding/binary"
	"fmt"
	"math/big"
	"sort"
	"strings"
	"sync"
	"testing"
	"time"

	sdk "github.com/cosmos/cosmos-sdk/types"
	"github.com/ethereum/go-ethereum/common"
	"github.com/ethereum/go-ethereum/crypto"
	"pgregory.net/rapid"

	bsctypes "github.com/teleport-network/teleport/x/xibc/clients/light-clients/bsc/types"
	clienttypes "github.com/teleport-network/teleport/x/xibc/core/client/types"

	"verif/harness/kf"
	"verif/harness/kit"
	"verif/harness/rec"
	"verif/harness/sim/bscsim"
)

func TestMain(m *testing.M) { rec.Main(m) }

const rule = "simulated Parlia chains (N in 1..9 validators from drawn secp256k1 keys, epoch E in maxhalf+1..12, up to 3 epochs + offset, " +
	"validator lists that grow/shrink/are replaced at epoch headers, genesis at height 0, low and high epoch heights) fed header by header " +
	"through ClientKeeper.UpdateClient in a write-on-success cache context; every step is the next valid header from a drawn eligible " +
	"sealer or one invalid candidate of a drawn class; oracle = reference model (accept iff no rule of the property text is broken; after " +
	"accept head/validators/consensus root equal the model; after reject the client store is unchanged). non-trivial = the chain crossed " +
	">= 1 validator-list switch that changed the set, or an invalid candidate was rejected at a height where a valid one was then accepted; " +
	"distinct by (N0, E, sequence of set-change kinds, set of rejection classes)"

const clientName = "bsc-sim"

// expirySeconds is the trusting period of expiry-mode cases (see runChain).
const expirySeconds = 8

var (
	baseOnce sync.Once
	base     *kit.Chain
)

func baseChain() *kit.Chain {
	baseOnce.Do(func() { base = kit.NewChain("teleport_9000-1", kit.ChainOpts{Seed: []byte("c09")}) })
	return base
}

const (
	poolSize   = 16 // keys that may appear in validator lists
	numKeys    = poolSize + 3
	genOutside = poolSize     // outsider that may seal the genesis header
	outsiderA  = poolSize + 1 // outsiders used by invalid candidates
	outsiderB  = poolSize + 2
)

type stepLog struct {
	N      uint64 `json:"number"`
	Kind   string `json:"kind"`
	Sealer string `json:"sealer,omitempty"`
	Turn   string `json:"turn,omitempty"`
	Model  string `json:"model"`
	Client string `json:"client"`
	Switch string `json:"switch,omitempty"`
}

type world struct {
	r          *rec.Recorder
	c          *kit.Chain
	ctx        sdk.Context
	keys       []bscsim.Key
	idx        map[common.Address]int
	chainID    uint64
	sets       [][]common.Address // sets[0] in force at genesis, sets[1] carried by the genesis header, sets[1+k] by the k-th later epoch header
	m          *Model
	prevHash   common.Hash // hash of the head's parent
	headTime   uint64
	expiry     bool // short trusting period: old consensus states expire and are pruned while the chain runs
	gasMode    int
	former     []common.Address // addresses that were in force once
	log        []stepLog
	classes    map[string]bool
	changes    []string
	cfg        map[string]interface{}
	rejectedAt map[uint64]bool
	rejThenAcc bool
	realChange bool
}

// rbytes expands one drawn 64-bit value into n pseudo-random bytes (keccak stream).
func rbytes(t *rapid.T, label string, n int) []byte {
	s := rapid.Uint64().Draw(t, label)
	var seed [8]byte
	binary.BigEndian.PutUint64(seed[:], s)
	out := make([]byte, 0, n+32)
	blk := crypto.Keccak256(seed[:])
	for len(out) < n {
		out = append(out, blk...)
		blk = crypto.Keccak256(blk)
	}
	return out[:n]
}

func rhash(t *rapid.T, label string) common.Hash { return common.BytesToHash(rbytes(t, label, 32)) }

func short(a common.Address) string { return a.Hex()[2:10] }

func (w *world) name(a common.Address) string {
	if i, ok := w.idx[a]; ok {
		return fmt.Sprintf("k%d", i)
	}
	return short(a)
}

func (w *world) names(l []common.Address) []string {
	var out []string
	for _, a := range l {
		out = append(out, w.name(a))
	}
	return out
}

// drawSets plans the validator lists of the chain.
// The "pulse" plan (1 case in 8) is large list -> single validator -> the large list again, which with the
// shortest epoch makes the collapse and the re-growth happen on consecutive blocks.
func drawSets(t *rapid.T, keys []bscsim.Key) ([][]common.Address, bool) {
	all := make([]int, poolSize)
	for i := range all {
		all[i] = i
	}
	perm := rapid.Permutation(all).Draw(t, "pool_order")
	n0 := rapid.IntRange(1, 9).Draw(t, "N0")
	pulse := rapid.IntRange(0, 7).Draw(t, "pulse_plan") == 0
	if pulse {
		n0 = rapid.IntRange(6, 9).Draw(t, "pulse_N0")
	}
	first := append([]int{}, perm[:n0]...)
	cur := append([]int{}, perm[:n0]...)
	toAddrs := func(ix []int, sorted bool) []common.Address {
		var l []common.Address
		for _, i := range ix {
			l = append(l, keys[i].Addr)
		}
		if sorted {
			return bscsim.Sorted(l)
		}
		return l
	}
	sets := [][]common.Address{toAddrs(cur, true)}
	for s := 1; s <= 4; s++ {
		in := map[int]bool{}
		for _, i := range cur {
			in[i] = true
		}
		var free []int
		for _, i := range perm {
			if !in[i] {
				free = append(free, i)
			}
		}
		kind := rapid.SampledFrom([]string{"same", "grow", "grow", "shrink", "shrink", "replace", "replace", "fresh", "to_one"}).Draw(t, fmt.Sprintf("set%d_kind", s))
		next := append([]int{}, cur...)
		if pulse && s == 1 {
			kind = "to_one"
		}
		if pulse && s == 2 {
			kind = "pulse_back"
			next = append([]int{}, first...)
		}
		switch kind {
		case "grow":
			if len(cur) < 9 {
				k := rapid.IntRange(1, 9-len(cur)).Draw(t, "grow_by")
				next = append(next, free[:k]...)
			} else {
				kind = "replace"
			}
		case "shrink":
			if len(cur) > 1 {
				k := rapid.IntRange(1, len(cur)-1).Draw(t, "shrink_by")
				drop := rapid.Permutation(cur).Draw(t, "shrink_order")
				next = append([]int{}, drop[k:]...)
			} else {
				kind = "replace"
			}
		case "to_one": // collapse to a single validator (its switch happens on the epoch header itself)
			next = []int{cur[rapid.IntRange(0, len(cur)-1).Draw(t, "survivor")]}
			if rapid.Bool().Draw(t, "survivor_new") && len(free) > 0 {
				next = []int{free[0]}
			}
		case "fresh":
			p2 := rapid.Permutation(all).Draw(t, "fresh_order")
			next = append([]int{}, p2[:rapid.IntRange(1, 9).Draw(t, "fresh_n")]...)
		}
		if kind == "replace" {
			maxK := len(cur)
			if len(free) < maxK {
				maxK = len(free)
			}
			k := rapid.IntRange(1, maxK).Draw(t, "replace_k")
			keep := rapid.Permutation(cur).Draw(t, "replace_order")
			next = append(append([]int{}, keep[k:]...), free[:k]...)
		}
		sorted := rapid.IntRange(0, 3).Draw(t, "list_sorted") != 0
		sets = append(sets, toAddrs(next, sorted))
		cur = next
	}
	return sets, pulse
}

func (w *world) listFor(n uint64) []common.Address {
	k := (n-w.m.Genesis)/w.m.E + 1
	if k >= uint64(len(w.sets)) {
		k = uint64(len(w.sets) - 1)
	}
	return w.sets[k]
}

// drawGasLimit draws a gas limit that respects every bound against the parent's.
func (w *world) drawGasLimit(t *rapid.T) uint64 {
	p := w.m.HeadGas
	lim := p / bscsim.GasDivisor
	if lim <= 1 {
		return p
	}
	var delta uint64
	switch rapid.IntRange(0, 3).Draw(t, "gas_step") {
	case 0:
		delta = 0
	case 1:
		delta = lim - 1
	default:
		delta = rapid.Uint64Range(0, lim-1).Draw(t, "gas_delta")
	}
	up := rapid.Bool().Draw(t, "gas_up")
	if w.gasMode == 1 { // hover near the minimum
		up = p < 5200
	}
	if up && p+delta <= bscsim.MaxGasLimit && p+delta >= p {
		return p + delta
	}
	if p-delta >= bscsim.MinGasLimit && delta <= p {
		return p - delta
	}
	return p
}

// skeleton builds an unsealed, otherwise valid header for block `number` on top of the head.
func (w *world) skeleton(t *rapid.T, number uint64, coinbase common.Address, diff *big.Int) *bscsim.Header {
	h := &bscsim.Header{
		ParentHash:  w.m.HeadHash,
		UncleHash:   bscsim.EmptyUncleHash,
		Coinbase:    coinbase,
		Root:        rhash(t, "root"),
		TxHash:      rhash(t, "txhash"),
		ReceiptHash: rhash(t, "receipts"),
		Difficulty:  new(big.Int).Set(diff),
		Number:      number,
		GasLimit:    w.drawGasLimit(t),
	}
	switch rapid.IntRange(0, 2).Draw(t, "gas_used") {
	case 0:
		h.GasUsed = h.GasLimit
	case 1:
		h.GasUsed = 0
	default:
		h.GasUsed = rapid.Uint64Range(0, h.GasLimit).Draw(t, "gas_used_v")
	}
	if w.expiry {
		h.Time = uint64(w.ctx.BlockTime().Unix()) // honest clock: the head never expires, old heights do
	} else {
		switch rapid.IntRange(0, 3).Draw(t, "time_kind") {
		case 0:
			h.Time = w.headTime // not increasing: the property puts no rule on time
		case 1:
			h.Time = rapid.Uint64Range(0, 1<<40).Draw(t, "time_any")
		default:
			h.Time = w.headTime + 3
		}
	}
	if rapid.IntRange(0, 3).Draw(t, "bloom_kind") == 0 {
		copy(h.Bloom[:], rbytes(t, "bloom", 256))
	}
	if rapid.IntRange(0, 3).Draw(t, "nonce_kind") == 0 {
		copy(h.Nonce[:], rbytes(t, "nonce", 8))
	}
	var vanity [32]byte
	copy(vanity[:], rbytes(t, "vanity", 32))
	var mid []byte
	if number%w.m.E == 0 {
		mid = bscsim.AddrBytes(w.listFor(number))
	}
	h.Extra = bscsim.BuildExtra(vanity, mid)
	return h
}

func (w *world) turnDiff(a common.Address) *big.Int {
	if w.m.InTurn(a, w.m.HeadNum+1) {
		return bscsim.DiffInTurn
	}
	return bscsim.DiffNoTurn
}

func (w *world) eligible() []common.Address {
	var out []common.Address
	for _, a := range sortedAddrs(w.m.Vals) {
		if w.m.Eligible(a) {
			out = append(out, a)
		}
	}
	return out
}

// lastDistance is the distance from the next block to the last block a sealed (0: never on this chain).
func (w *world) lastDistance(a common.Address) uint64 {
	best, found := uint64(0), false
	for h, s := range w.m.Sealed {
		if s == a && (!found || h > best) {
			best, found = h, true
		}
	}
	if !found {
		return 0
	}
	return w.m.HeadNum + 1 - best
}

// pickEligible draws the sealer of a valid header.
func (w *world) pickEligible(t *rapid.T) common.Address {
	el := w.eligible()
	if len(el) == 0 {
		kit.Failf("model has no eligible sealer: vals=%v head=%d", w.names(w.m.Vals), w.m.HeadNum)
	}
	switch rapid.IntRange(0, 3).Draw(t, "sealer_mode") {
	case 0, 1: // in-turn if possible
		for _, a := range el {
			if w.m.InTurn(a, w.m.HeadNum+1) {
				return a
			}
		}
	case 2: // the one that left the recent window most recently (smallest distance)
		var best common.Address
		bd := uint64(0)
		for _, a := range el {
			if d := w.lastDistance(a); d != 0 && (bd == 0 || d < bd) {
				best, bd = a, d
			}
		}
		if bd != 0 {
			return best
		}
	}
	return el[rapid.IntRange(0, len(el)-1).Draw(t, "sealer_ix")]
}

func (w *world) key(a common.Address) bscsim.Key {
	i, ok := w.idx[a]
	if !ok {
		kit.Failf("no key for %s", a.Hex())
	}
	return w.keys[i]
}

type candidate struct {
	h        *bscsim.Header
	sealedBy *common.Address
	class    string
	rule     string
	pure     bool // the generator promises that `rule` is the only broken rule
}

func describe(h *bscsim.Header, sealedBy *common.Address) Cand {
	c := Cand{
		Number: h.Number, ParentHash: h.ParentHash, Coinbase: h.Coinbase, SealedBy: sealedBy,
		Difficulty: h.Difficulty, ExtraLen: len(h.Extra), GasLimit: h.GasLimit, GasUsed: h.GasUsed,
		MixDigest: h.MixDigest, UncleHash: h.UncleHash, Root: h.Root, Hash: h.Hash(),
	}
	if len(h.Extra) >= bscsim.ExtraVanity+bscsim.ExtraSeal {
		c.ValidatorBytes = h.Extra[bscsim.ExtraVanity : len(h.Extra)-bscsim.ExtraSeal]
	}
	return c
}

func ptr(a common.Address) *common.Address { return &a }

var invalidClasses = []string{
	"not_in_set:outsider", "not_in_set:former", "not_in_set:pending",
	"recent", "recent", "recent",
	"difficulty:swap", "difficulty:swap", "difficulty:other",
	"coinbase:peer", "coinbase:peer", "coinbase:other",
	"sig:garbage", "sig:zero", "sig:wrong_chainid", "sig:bad_v", "sig:tamper", "sig:tamper",
	"parent", "parent",
	"number", "number",
	"extra:short", "extra:validators_on_nonepoch", "extra:validators_on_nonepoch", "extra:epoch_not_multiple", "extra:epoch_not_multiple",
	"gas:delta", "gas:delta", "gas:below_min", "gas:above_cap", "gas:used_gt_limit",
	"mix", "uncle",
}

// buildInvalid builds one invalid candidate of the requested class, or nil when the class does not
// apply to the current state.
func (w *world) buildInvalid(t *rapid.T, class string) *candidate {
	m := w.m
	next := m.HeadNum + 1
	isEpoch := next%m.E == 0
	sealer := w.pickEligible(t)
	mk := func() *bscsim.Header { return w.skeleton(t, next, sealer, w.turnDiff(sealer)) }
	sealed := func(h *bscsim.Header, by common.Address) *bscsim.Header {
		bscsim.Seal(h, w.key(by), w.chainID)
		return h
	}
	switch class {
	case "not_in_set:outsider":
		o := w.keys[rapid.SampledFrom([]int{outsiderA, outsiderB}).Draw(t, "outsider")].Addr
		h := w.skeleton(t, next, o, bscsim.DiffNoTurn)
		return &candidate{h: sealed(h, o), sealedBy: ptr(o), class: class, rule: RMember, pure: true}
	case "not_in_set:former", "not_in_set:pending":
		src := w.former
		if class == "not_in_set:pending" {
			src = m.Pending
		}
		var pool []common.Address
		seen := map[common.Address]bool{}
		for _, a := range src {
			if !member(m.Vals, a) && !seen[a] {
				seen[a] = true
				pool = append(pool, a)
			}
		}
		if len(pool) == 0 {
			return nil
		}
		o := pool[rapid.IntRange(0, len(pool)-1).Draw(t, "nonmember_ix")]
		h := w.skeleton(t, next, o, bscsim.DiffNoTurn)
		return &candidate{h: sealed(h, o), sealedBy: ptr(o), class: class, rule: RMember}
	case "recent":
		var pool []common.Address
		for _, a := range sortedAddrs(m.Vals) {
			if m.LastSealedWithin(a, next) != 0 {
				pool = append(pool, a)
			}
		}
		if len(pool) == 0 {
			return nil
		}
		o := pool[rapid.IntRange(0, len(pool)-1).Draw(t, "recent_ix")]
		h := w.skeleton(t, next, o, w.turnDiff(o))
		d := m.LastSealedWithin(o, next)
		return &candidate{h: sealed(h, o), sealedBy: ptr(o), class: fmt.Sprintf("recent:d=%d", d), rule: RRecent, pure: true}
	case "difficulty:swap":
		h := mk()
		if m.InTurn(sealer, next) {
			h.Difficulty = big.NewInt(1)
		} else {
			h.Difficulty = big.NewInt(2)
		}
		cl := "difficulty:outturn_claims_inturn"
		if m.InTurn(sealer, next) {
			cl = "difficulty:inturn_claims_outturn"
		}
		return &candidate{h: sealed(h, sealer), sealedBy: ptr(sealer), class: cl, rule: RDifficulty, pure: true}
	case "difficulty:other":
		h := mk()
		v := rapid.SampledFrom([]string{"0", "3", "4", "258", "513", "18446744073709551617", "1180591620717411303426"}).Draw(t, "difficulty")
		h.Difficulty, _ = new(big.Int).SetString(v, 10)
		return &candidate{h: sealed(h, sealer), sealedBy: ptr(sealer), class: class, rule: RDifficulty, pure: true}
	case "coinbase:peer":
		// sealed by an eligible validator with the difficulty of its own turn, but naming another
		// eligible validator of the same turn-ness as coinbase: only "sealed by the coinbase" is broken
		var peers []common.Address
		for _, a := range w.eligible() {
			if a != sealer && m.InTurn(a, next) == m.InTurn(sealer, next) {
				peers = append(peers, a)
			}
		}
		if len(peers) == 0 {
			return nil
		}
		h := mk()
		h.Coinbase = peers[rapid.IntRange(0, len(peers)-1).Draw(t, "peer_ix")]
		return &candidate{h: sealed(h, sealer), sealedBy: ptr(sealer), class: class, rule: RSeal, pure: true}
	case "coinbase:other":
		h := mk()
		switch rapid.IntRange(0, 2).Draw(t, "coinbase_kind") {
		case 0:
			h.Coinbase = common.BytesToAddress(rbytes(t, "coinbase", 20))
		case 1:
			h.Coinbase = common.Address{}
		default:
			vs := sortedAddrs(m.Vals)
			h.Coinbase = vs[rapid.IntRange(0, len(vs)-1).Draw(t, "coinbase_ix")]
			if h.Coinbase == sealer {
				h.Coinbase = w.keys[outsiderA].Addr
			}
		}
		return &candidate{h: sealed(h, sealer), sealedBy: ptr(sealer), class: class, rule: RSeal}
	case "sig:garbage":
		h := mk()
		copy(h.Extra[len(h.Extra)-65:], rbytes(t, "sig", 65))
		h.Extra[len(h.Extra)-1] &= 1
		return &candidate{h: h, class: class, rule: RSeal, pure: true}
	case "sig:zero":
		return &candidate{h: mk(), class: class, rule: RSeal, pure: true}
	case "sig:wrong_chainid":
		h := mk()
		bscsim.Seal(h, w.key(sealer), w.chainID+uint64(rapid.IntRange(1, 3).Draw(t, "chain_delta")))
		return &candidate{h: h, class: class, rule: RSeal, pure: true}
	case "sig:bad_v":
		h := sealed(mk(), sealer)
		h.Extra[len(h.Extra)-1] += 27
		return &candidate{h: h, class: class, rule: RSeal, pure: true}
	case "sig:tamper":
		h := sealed(mk(), sealer)
		fields := []string{"root", "txhash", "receipts", "bloom", "time", "nonce", "vanity", "gas_used", "gas_limit"}
		if isEpoch {
			fields = append(fields, "epoch_list", "epoch_list", "epoch_list")
		}
		f := rapid.SampledFrom(fields).Draw(t, "tamper_field")
		switch f {
		case "root":
			h.Root[rapid.IntRange(0, 31).Draw(t, "byte")] ^= 1 << uint(rapid.IntRange(0, 7).Draw(t, "bit"))
		case "txhash":
			h.TxHash[rapid.IntRange(0, 31).Draw(t, "byte")] ^= 0x80
		case "receipts":
			h.ReceiptHash[rapid.IntRange(0, 31).Draw(t, "byte")] ^= 0x01
		case "bloom":
			h.Bloom[rapid.IntRange(0, 255).Draw(t, "byte")] ^= 0x10
		case "time":
			h.Time++
		case "nonce":
			h.Nonce[rapid.IntRange(0, 7).Draw(t, "byte")] ^= 0x04
		case "vanity":
			h.Extra[rapid.IntRange(0, 31).Draw(t, "byte")] ^= 0x20
		case "gas_used":
			if h.GasUsed > 0 {
				h.GasUsed--
			} else {
				h.GasUsed++ // gas limit >= 5000, stays within it
			}
		case "gas_limit":
			// move by one while staying inside every bound
			p, lim := m.HeadGas, m.HeadGas/bscsim.GasDivisor
			switch {
			case h.GasLimit < p+lim-1 && h.GasLimit < bscsim.MaxGasLimit:
				h.GasLimit++
			case h.GasLimit > bscsim.MinGasLimit && h.GasLimit-1 >= h.GasUsed && p-(h.GasLimit-1) < lim:
				h.GasLimit--
			default:
				h.Root[0] ^= 1
				f = "root"
			}
		case "epoch_list":
			// forged epoch change: same length, another member list
			mid := h.Extra[32 : len(h.Extra)-65]
			o := w.keys[rapid.SampledFrom([]int{outsiderA, outsiderB}).Draw(t, "forged_member")].Addr
			k := rapid.IntRange(0, len(mid)/20-1).Draw(t, "forged_slot")
			copy(mid[k*20:], o.Bytes())
		}
		return &candidate{h: h, class: "sig:tamper:" + f, rule: RSeal, pure: true}
	case "parent":
		h := mk()
		kind := rapid.SampledFrom([]string{"random", "zero", "grandparent", "bitflip"}).Draw(t, "parent_kind")
		switch kind {
		case "random":
			h.ParentHash = rhash(t, "parent")
		case "zero":
			h.ParentHash = common.Hash{}
		case "grandparent":
			h.ParentHash = w.prevHash
		case "bitflip":
			h.ParentHash[rapid.IntRange(0, 31).Draw(t, "byte")] ^= 1 << uint(rapid.IntRange(0, 7).Draw(t, "bit"))
		}
		if h.ParentHash == m.HeadHash {
			return nil
		}
		return &candidate{h: sealed(h, sealer), sealedBy: ptr(sealer), class: "parent:" + kind, rule: RParent, pure: true}
	case "number":
		kind := rapid.SampledFrom([]string{"repeat", "gap+1", "gap+E", "back", "far"}).Draw(t, "number_kind")
		var n uint64
		switch kind {
		case "repeat":
			n = m.HeadNum
		case "gap+1":
			n = next + 1
		case "gap+E":
			n = next + m.E
		case "back":
			if m.HeadNum == 0 {
				return nil
			}
			n = m.HeadNum - 1
		case "far":
			n = next + rapid.Uint64Range(2, 1<<20).Draw(t, "far_by")
		}
		// everything else (parent hash, sealer, difficulty for the real next height, extra layout
		// for the claimed number) is in order
		h := w.skeleton(t, n, sealer, w.turnDiff(sealer))
		return &candidate{h: sealed(h, sealer), sealedBy: ptr(sealer), class: "number:" + kind, rule: RNumber, pure: true}
	case "extra:short":
		h := mk()
		l := rapid.SampledFrom([]int{0, 1, 31, 32, 33, 64, 65, 96}).Draw(t, "extra_len")
		h.Extra = rbytes(t, "extra", l)
		return &candidate{h: h, class: fmt.Sprintf("extra:short:%d", l), rule: RExtra}
	case "extra:validators_on_nonepoch":
		if isEpoch {
			return nil
		}
		h := mk()
		k := rapid.SampledFrom([]int{20, 20, 40, 1, 19, 21, 180}).Draw(t, "extra_bytes")
		var vanity [32]byte
		copy(vanity[:], h.Extra[:32])
		mid := rbytes(t, "mid", k)
		if k%20 == 0 && rapid.Bool().Draw(t, "mid_is_list") {
			mid = bscsim.AddrBytes(w.listFor(next))
			for len(mid) < k {
				mid = append(mid, mid...)
			}
			mid = mid[:k]
		}
		h.Extra = bscsim.BuildExtra(vanity, mid)
		return &candidate{h: sealed(h, sealer), sealedBy: ptr(sealer), class: fmt.Sprintf("extra:validators_on_nonepoch:%d", k), rule: RExtra, pure: true}
	case "extra:epoch_not_multiple":
		if !isEpoch {
			return nil
		}
		h := mk()
		var vanity [32]byte
		copy(vanity[:], h.Extra[:32])
		mid := append([]byte{}, h.Extra[32:len(h.Extra)-65]...)
		d := rapid.SampledFrom([]int{-1, 1, 7, 19, -19}).Draw(t, "extra_delta")
		if d > 0 {
			mid = append(mid, rbytes(t, "mid", d)...)
		} else {
			mid = mid[:len(mid)+d]
		}
		h.Extra = bscsim.BuildExtra(vanity, mid)
		return &candidate{h: sealed(h, sealer), sealedBy: ptr(sealer), class: fmt.Sprintf("extra:epoch_not_multiple:%+d", d), rule: RExtra, pure: true}
	case "gas:delta":
		h := mk()
		p, lim := m.HeadGas, m.HeadGas/bscsim.GasDivisor
		delta := lim
		kind := "eq_limit"
		if rapid.Bool().Draw(t, "gas_far") {
			delta = lim + rapid.Uint64Range(1, lim+1000).Draw(t, "gas_excess")
			kind = "gt_limit"
		}
		up := rapid.Bool().Draw(t, "gas_up")
		switch {
		case up && p+delta <= bscsim.MaxGasLimit:
			h.GasLimit = p + delta
		case p >= delta && p-delta >= bscsim.MinGasLimit:
			h.GasLimit = p - delta
		case p+delta <= bscsim.MaxGasLimit:
			h.GasLimit = p + delta
		default:
			return nil
		}
		if h.GasUsed > h.GasLimit {
			h.GasUsed = h.GasLimit
		}
		return &candidate{h: sealed(h, sealer), sealedBy: ptr(sealer), class: "gas:delta_" + kind, rule: RGas, pure: true}
	case "gas:below_min":
		h := mk()
		h.GasLimit = rapid.Uint64Range(0, bscsim.MinGasLimit-1).Draw(t, "gas_small")
		if rapid.Bool().Draw(t, "gas_4999") {
			h.GasLimit = bscsim.MinGasLimit - 1
		}
		if h.GasUsed > h.GasLimit {
			h.GasUsed = h.GasLimit
		}
		return &candidate{h: sealed(h, sealer), sealedBy: ptr(sealer), class: class, rule: RGas, pure: true}
	case "gas:above_cap":
		h := mk()
		h.GasLimit = bscsim.MaxGasLimit + 1 + rapid.Uint64Range(0, 1<<62).Draw(t, "gas_over")
		if rapid.Bool().Draw(t, "gas_cap1") {
			h.GasLimit = bscsim.MaxGasLimit + 1
		}
		return &candidate{h: sealed(h, sealer), sealedBy: ptr(sealer), class: class, rule: RGas, pure: true}
	case "gas:used_gt_limit":
		h := mk()
		h.GasUsed = h.GasLimit + 1
		if rapid.Bool().Draw(t, "gas_used_far") {
			h.GasUsed = h.GasLimit + rapid.Uint64Range(1, 1<<40).Draw(t, "gas_used_excess")
		}
		return &candidate{h: sealed(h, sealer), sealedBy: ptr(sealer), class: class, rule: RGas, pure: true}
	case "mix":
		h := mk()
		if rapid.Bool().Draw(t, "mix_random") {
			h.MixDigest = rhash(t, "mix")
		}
		h.MixDigest[rapid.IntRange(0, 31).Draw(t, "byte")] |= 1 << uint(rapid.IntRange(0, 7).Draw(t, "bit"))
		return &candidate{h: sealed(h, sealer), sealedBy: ptr(sealer), class: "mix:nonzero", rule: RMix, pure: true}
	case "uncle":
		h := mk()
		kind := rapid.SampledFrom([]string{"random", "zero", "bitflip"}).Draw(t, "uncle_kind")
		switch kind {
		case "random":
			h.UncleHash = rhash(t, "uncle")
		case "zero":
			h.UncleHash = common.Hash{}
		case "bitflip":
			h.UncleHash[rapid.IntRange(0, 31).Draw(t, "byte")] ^= 1 << uint(rapid.IntRange(0, 7).Draw(t, "bit"))
		}
		return &candidate{h: sealed(h, sealer), sealedBy: ptr(sealer), class: "uncle:" + kind, rule: RUncle, pure: true}
	}
	kit.Failf("unknown class %q", class)
	return nil
}

// tick advances the block time in expiry mode.
func (w *world) tick(t *rapid.T) {
	if !w.expiry {
		return
	}
	d := rapid.IntRange(0, 2).Draw(t, "seconds_pass")
	w.ctx = w.ctx.WithBlockTime(w.ctx.BlockTime().Add(time.Duration(d) * time.Second))
}

// storeDump dumps the client's prefix store.
func (w *world) storeDump(ctx sdk.Context) kit.Dump {
	st := w.c.App.XIBCKeeper.ClientKeeper.ClientStore(ctx, clientName)
	it := st.Iterator(nil, nil)
	defer it.Close()
	var kvs []kit.KV
	for ; it.Valid(); it.Next() {
		kvs = append(kvs, kit.KV{K: append([]byte{}, it.Key()...), V: append([]byte{}, it.Value()...)})
	}
	return kit.Dump{"client": kvs}
}

// deliver runs UpdateClient the way DeliverTx does: on a cache branch that is written only on a
// nil error, with panics turned into failures.
func (w *world) deliver(h *bsctypes.Header) (err error) {
	cctx, write := w.ctx.CacheContext()
	func() {
		defer func() {
			if p := recover(); p != nil {
				err = fmt.Errorf("panic: %v", p)
			}
		}()
		err = w.c.App.XIBCKeeper.ClientKeeper.UpdateClient(cctx, clientName, h)
	}()
	if err == nil {
		write()
	}
	return err
}

func errClass(err error) string {
	if err == nil {
		return "accepted"
	}
	s := err.Error()
	if i := strings.LastIndex(s, ": "); i >= 0 && i+2 < len(s) {
		s = s[i+2:]
	}
	if len(s) > 60 {
		s = s[:60]
	}
	return "rejected: " + s
}

func (w *world) history() string {
	var b strings.Builder
	fmt.Fprintf(&b, "config=%v\n", w.cfg)
	from := 0
	if len(w.log) > 30 {
		from = len(w.log) - 30
	}
	for _, s := range w.log[from:] {
		fmt.Fprintf(&b, "  #%d %s sealer=%s %s model=%s client=%s %s\n", s.N, s.Kind, s.Sealer, s.Turn, s.Model, s.Client, s.Switch)
	}
	return b.String()
}

// submit feeds one candidate and compares client and model.
func (w *world) submit(t *rapid.T, cd *candidate) bool {
	w.r.Step()
	if w.expiry {
		if cd.h.Time != uint64(w.ctx.BlockTime().Unix()) && cd.rule == "" {
			kit.Failf("expiry mode: valid header time %d is not the block time", cd.h.Time)
		}
	}
	m := w.m
	c := describe(cd.h, cd.sealedBy)
	viol := m.Violations(c)
	if cd.rule != "" {
		found := false
		for _, v := range viol {
			found = found || v == cd.rule
		}
		if !found || (cd.pure && len(viol) != 1) {
			kit.Failf("generator promised class %s to break rule %s (pure=%v) but the model lists %v\n%s", cd.class, cd.rule, cd.pure, viol, w.history())
		}
	}
	before := w.storeDump(w.ctx)
	err := w.deliver(cd.h.ToProto())
	entry := stepLog{N: cd.h.Number, Kind: cd.class, Sealer: w.name(cd.h.Coinbase), Model: "accept", Client: errClass(err)}
	if cd.sealedBy != nil && *cd.sealedBy != cd.h.Coinbase {
		entry.Sealer = w.name(cd.h.Coinbase) + "(signed by " + w.name(*cd.sealedBy) + ")"
	}
	if m.InTurn(cd.h.Coinbase, m.HeadNum+1) {
		entry.Turn = "in-turn"
	} else {
		entry.Turn = "out-of-turn"
	}
	entry.Turn += fmt.Sprintf(" diff=%s", cd.h.Difficulty)
	if len(viol) > 0 {
		entry.Model = "reject " + strings.Join(viol, "+")
	}
	w.log = append(w.log, entry)
	if len(viol) > 0 && err == nil {
		t.Fatalf("ACCEPTED-INVALID: header #%d (class %s) breaks %v but UpdateClient accepted it\nvalidators=%v window=%d head=%d E=%d\n%s",
			cd.h.Number, cd.class, viol, w.names(sortedAddrs(m.Vals)), m.Window(), m.HeadNum, m.E, w.history())
	}
	if len(viol) == 0 && err != nil {
		t.Fatalf("REJECTED-VALID: header #%d sealed by eligible %s (%s) was rejected: %v\nvalidators=%v window=%d head=%d E=%d\n%s",
			cd.h.Number, w.name(cd.h.Coinbase), entry.Turn, err, w.names(sortedAddrs(m.Vals)), m.Window(), m.HeadNum, m.E, w.history())
	}
	if err != nil {
		if strings.HasPrefix(err.Error(), "panic:") {
			w.r.Label("reject_by_panic")
		}
		after := w.storeDump(w.ctx)
		if d := kit.Diff(before, after); len(d) != 0 {
			t.Fatalf("rejected header #%d (class %s) changed the client store:\n%s%s", cd.h.Number, cd.class, kit.DiffString(d, 6), w.history())
		}
		w.rejectedAt[m.HeadNum+1] = true
		return false
	}
	// accepted: move the model and compare the observable state
	oldVals := append([]common.Address{}, m.Vals...)
	change := m.Apply(c)
	if change != "" {
		w.log[len(w.log)-1].Switch = fmt.Sprintf("switch %s %d->%d", change, len(oldVals), len(m.Vals))
		w.changes = append(w.changes, change)
		w.r.Label("switch:" + change)
		if change != "same" {
			w.realChange = true
			w.former = append(w.former, oldVals...)
		}
		if s := sortedAddrs(m.Vals); len(s) > 1 {
			asc := true
			for i := range s {
				asc = asc && s[i] == m.Vals[i]
			}
			if !asc {
				w.r.Label("switch:list_carried_unsorted")
			}
		}
	}
	w.prevHash = cd.h.ParentHash
	w.headTime = cd.h.Time
	w.checkState(t, cd.h)
	if w.rejectedAt[cd.h.Number] {
		w.rejThenAcc = true
	}
	return true
}

// checkState compares client state and consensus state with the model after an accepted header.
func (w *world) checkState(t *rapid.T, h *bscsim.Header) {
	k := w.c.App.XIBCKeeper.ClientKeeper
	csI, ok := k.GetClientState(w.ctx, clientName)
	if !ok {
		t.Fatalf("client state vanished after header #%d", h.Number)
	}
	cs := csI.(*bsctypes.ClientState)
	want := h.ToProto()
	got := cs.Header
	wb, _ := want.Marshal()
	gb, _ := got.Marshal()
	if !bytes.Equal(wb, gb) {
		t.Fatalf("after accepting #%d the client head is #%d (hash %s), model head hash %s\n%s", h.Number, got.Height.RevisionHeight, got.Hash(), w.m.HeadHash, w.history())
	}
	if len(cs.Validators) != len(w.m.Vals) {
		t.Fatalf("after accepting #%d client validators=%d entries, model=%v\n%s", h.Number, len(cs.Validators), w.names(w.m.Vals), w.history())
	}
	for i, v := range cs.Validators {
		if !bytes.Equal(v, w.m.Vals[i].Bytes()) {
			t.Fatalf("after accepting #%d client validator[%d]=%x, model=%v\n%s", h.Number, i, v, w.names(w.m.Vals), w.history())
		}
	}
	if cs.Epoch != w.m.E || cs.ChainId != w.chainID {
		t.Fatalf("after accepting #%d epoch/chain id changed: %d/%d", h.Number, cs.Epoch, cs.ChainId)
	}
	w.checkRoot(t, h.Number)
}

func (w *world) checkRoot(t *rapid.T, n uint64) {
	cons, ok := w.c.App.XIBCKeeper.ClientKeeper.GetClientConsensusState(w.ctx, clientName, clienttypes.NewHeight(0, n))
	if !ok {
		t.Fatalf("no consensus state at accepted height %d\n%s", n, w.history())
	}
	if !bytes.Equal(cons.GetRoot(), w.m.Roots[n].Bytes()) {
		t.Fatalf("consensus state at %d has root %x, accepted header had %s\n%s", n, cons.GetRoot(), w.m.Roots[n], w.history())
	}
}

func runChain(t *rapid.T, r *rec.Recorder) {
	c := baseChain()
	ctx, _ := c.Ctx().CacheContext()
	w := &world{r: r, c: c, ctx: ctx, idx: map[common.Address]int{}, classes: map[string]bool{}, rejectedAt: map[uint64]bool{}}
	seed := rapid.Uint64().Draw(t, "key_seed")
	for i := 0; i < numKeys; i++ {
		k := bscsim.KeyFromSeed(kit.U64(seed), i)
		w.keys = append(w.keys, k)
		w.idx[k.Addr] = i
	}
	var pulse bool
	w.sets, pulse = drawSets(t, w.keys)
	maxHalf := 0
	for _, s := range w.sets {
		if len(s)/2 > maxHalf {
			maxHalf = len(s) / 2
		}
	}
	E := uint64(rapid.IntRange(maxHalf+1, 12).Draw(t, "E"))
	if pulse {
		r.Label("case:pulse_plan")
		if rapid.Bool().Draw(t, "pulse_short_epoch") {
			E = uint64(maxHalf + 1)
		}
	}
	w.chainID = rapid.SampledFrom([]uint64{56, 97, 1, 714, 1<<32 + 5, 1<<62 + 1}).Draw(t, "chain_id")

	// genesis height: 0, a low epoch multiple, or a high one; rarely a non-epoch height
	var g uint64
	lowHeights := !kf.Listed("C09", "low-height-recent-window")
	gk := rapid.IntRange(0, 9).Draw(t, "genesis_kind")
	switch {
	case gk == 0:
		// a genesis at block 0 of revision 0 is outside the domain since ClientState.Validate rejects the zero
		// height (fix of C13 zero-height-client-export-invalid): the lowest reachable genesis is block E
		_ = lowHeights
		g = E
	case gk <= 3:
		g = E * uint64(rapid.IntRange(1, 3).Draw(t, "genesis_epochs"))
	default:
		g = E * rapid.Uint64Range(4, 1<<36).Draw(t, "genesis_epochs_high")
	}
	nonEpochGenesis := rapid.IntRange(0, 24).Draw(t, "genesis_off_epoch") == 0 && E > 1
	if nonEpochGenesis {
		g += uint64(rapid.IntRange(1, int(E)-1).Draw(t, "genesis_offset"))
	}
	// expiry mode: trusting period of expirySeconds, block time advances 0..2 s before every
	// submission (at most 4 per height, so the head's consensus state never expires) and header
	// times follow the block time: older consensus states expire and are pruned inside the window
	trusting := uint64(1 << 40)
	if rapid.IntRange(0, 5).Draw(t, "expiry_mode") == 0 {
		if kf.Listed("C09", "prune-deletes-signer") {
			r.Exclude("prune-deletes-signer")
		} else {
			w.expiry = true
			trusting = expirySeconds
			r.Label("case:expiry_mode")
		}
	}
	w.gasMode = rapid.IntRange(0, 5).Draw(t, "gas_mode")
	var gas0 uint64
	switch w.gasMode {
	case 1:
		gas0 = rapid.Uint64Range(5000, 5300).Draw(t, "gas0_low")
	case 2:
		gas0 = bscsim.MaxGasLimit - rapid.Uint64Range(0, 1000).Draw(t, "gas0_high")
	default:
		gas0 = rapid.Uint64Range(300000, 1<<40).Draw(t, "gas0")
	}

	// genesis header: sealed by a member of the list in force (rarely by an outsider), carrying sets[1]
	gSealer := w.sets[0][rapid.IntRange(0, len(w.sets[0])-1).Draw(t, "genesis_sealer")]
	if rapid.IntRange(0, 9).Draw(t, "genesis_outsider") == 0 {
		gSealer = w.keys[genOutside].Addr
	}
	w.m = &Model{E: E, HeadNum: g, HeadGas: gas0, Genesis: g}
	gh := &bscsim.Header{
		ParentHash: rhash(t, "g_parent"), UncleHash: bscsim.EmptyUncleHash, Coinbase: gSealer, Root: rhash(t, "g_root"),
		TxHash: rhash(t, "g_tx"), ReceiptHash: rhash(t, "g_rc"), Difficulty: big.NewInt(1), Number: g, GasLimit: gas0,
		GasUsed: gas0 / 2, Time: uint64(c.Now.Unix()),
	}
	if bscsim.InTurn(w.sets[0], g, gSealer) {
		gh.Difficulty = big.NewInt(2)
	}
	var vanity [32]byte
	copy(vanity[:], rbytes(t, "g_vanity", 32))
	gh.Extra = bscsim.BuildExtra(vanity, bscsim.AddrBytes(w.sets[1]))
	bscsim.Seal(gh, w.key(gSealer), w.chainID)

	var vals [][]byte
	for _, a := range w.sets[0] {
		vals = append(vals, a.Bytes())
	}
	cs := &bsctypes.ClientState{
		Header: *gh.ToProto(), ChainId: w.chainID, Epoch: E, BlockInteval: 3, Validators: vals,
		ContractAddress: rbytes(t, "contract", 20), TrustingPeriod: trusting,
	}
	cons := &bsctypes.ConsensusState{Timestamp: gh.Time, Height: cs.Header.Height, Root: gh.Root.Bytes()}
	w.cfg = map[string]interface{}{"N0": len(w.sets[0]), "E": E, "genesis": g, "chain_id": w.chainID, "gas0": gas0,
		"lists": []int{len(w.sets[0]), len(w.sets[1]), len(w.sets[2]), len(w.sets[3]), len(w.sets[4])}}
	err := c.App.XIBCKeeper.ClientKeeper.CreateClient(ctx, clientName, cs, cons)
	if nonEpochGenesis {
		// creation rule of the client (genesis header must be an epoch header); not part of C09
		if err != nil {
			r.Label("create:non_epoch_genesis_rejected")
		} else {
			r.Label("create:non_epoch_genesis_accepted")
		}
		r.Case("non-epoch-genesis", false, nil)
		return
	}
	kit.Must(err, "CreateClient")
	if !member(w.sets[0], gSealer) {
		r.Label("genesis:sealed_by_outsider")
	}
	switch {
	case g == 0:
		r.Label("genesis:height0")
	case g <= 3*E:
		r.Label("genesis:low")
	default:
		r.Label("genesis:high")
	}
	w.m.HeadHash = gh.Hash()
	w.m.Vals = append([]common.Address{}, w.sets[0]...)
	w.m.Pending = append([]common.Address{}, w.sets[1]...)
	w.m.Sealed = map[uint64]common.Address{g: gSealer}
	w.m.Floor = g
	w.m.Roots = map[uint64]common.Hash{g: gh.Root}
	w.prevHash = gh.ParentHash
	w.headTime = gh.Time
	w.former = nil
	if got := cs.Header.Hash(); got != w.m.HeadHash {
		kit.Failf("simulator block hash %s differs from the client's %s", w.m.HeadHash, got)
	}

	length := rapid.IntRange(1, 3*int(E)+maxHalf+2).Draw(t, "chain_length")
	inTurn, outTurn := 0, 0
	for i := 0; i < length; i++ {
		// invalid candidates first (0..3), then the valid header of this height
		nInv := rapid.SampledFrom([]int{0, 0, 0, 1, 1, 1, 2, 2, 3}).Draw(t, "invalid_here")
		for j := 0; j < nInv; j++ {
			w.tick(t)
			start := rapid.IntRange(0, len(invalidClasses)-1).Draw(t, "class")
			if (w.m.HeadNum+1)%E == 0 && rapid.IntRange(0, 2).Draw(t, "epoch_bias") == 0 {
				for k, cl := range invalidClasses { // epoch heights are rare: prefer the epoch-only classes there
					if cl == "extra:epoch_not_multiple" {
						start = k
						break
					}
				}
				if rapid.Bool().Draw(t, "epoch_tamper") {
					for k, cl := range invalidClasses {
						if cl == "sig:tamper" {
							start = k
							break
						}
					}
				}
			}
			var cd *candidate
			for k := 0; k < len(invalidClasses) && cd == nil; k++ {
				cd = w.buildInvalid(t, invalidClasses[(start+k)%len(invalidClasses)])
			}
			if cd == nil {
				kit.Failf("no invalid class applicable")
			}
			w.submit(t, cd)
			r.Label("reject:" + cd.class)
			if cd.pure {
				r.Label("reject_single_fault")
			}
			family := cd.class
			if p := strings.Index(family, ":"); p > 0 {
				family = family[:p]
			}
			w.classes[family] = true
		}
		w.tick(t)
		sealer := w.pickEligible(t)
		in := w.m.InTurn(sealer, w.m.HeadNum+1)
		d := w.lastDistance(sealer)
		nBefore, win := len(w.m.Vals), w.m.Window()
		h := w.skeleton(t, w.m.HeadNum+1, sealer, w.turnDiff(sealer))
		bscsim.Seal(h, w.key(sealer), w.chainID)
		kind := "valid"
		if h.Number%E == 0 {
			kind = "valid epoch header"
			r.Label("valid:epoch_header")
		}
		if !w.submit(t, &candidate{h: h, sealedBy: ptr(sealer), class: kind}) {
			kit.Failf("unreachable: valid header not applied")
		}
		if in {
			inTurn++
			r.Label("valid:in_turn")
		} else {
			outTurn++
			r.Label("valid:out_of_turn")
		}
		switch {
		case d == 0:
			r.Label("valid:sealer_first_block")
		case d == win+1:
			r.Label("valid:sealer_just_left_window")
			r.Label(fmt.Sprintf("valid:left_window:N=%d", nBefore))
		case d <= uint64(nBefore):
			r.Label("valid:sealer_distance_le_N")
		default:
			r.Label("valid:sealer_distance_gt_N")
		}
	}
	// every accepted height still carries its header's root
	heights := make([]uint64, 0, len(w.m.Roots))
	for n := range w.m.Roots {
		heights = append(heights, n)
	}
	sort.Slice(heights, func(i, j int) bool { return heights[i] < heights[j] })
	for _, n := range heights {
		if w.expiry {
			break // expired consensus states are pruned by design
		}
		w.checkRoot(t, n)
	}

	var cls []string
	for k := range w.classes {
		cls = append(cls, k)
	}
	sort.Strings(cls)
	shape := fmt.Sprintf("N0=%d E=%d changes=%v classes=%v", len(w.sets[0]), E, w.changes, cls)
	if w.realChange {
		r.Label("case:crossed_set_change")
	}
	if w.rejThenAcc {
		r.Label("case:reject_then_accept_same_height")
	}
	if inTurn > 0 && outTurn > 0 {
		r.Label("case:both_turn_kinds")
	}
	r.Case(shape, w.realChange || w.rejThenAcc, func() interface{} {
		return map[string]interface{}{"config": w.cfg, "steps": w.log}
	})
}

func TestC09_Chain(t *testing.T) {
	r := rec.For("TestC09_Chain", rule)
	rapid.Check(t, func(t *rapid.T) { runChain(t, r) })
}
