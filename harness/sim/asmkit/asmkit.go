// Package asmkit holds the helper contracts of the verification harness. There is no Solidity compiler
// in the sandbox, so every contract is assembled from EVM mnemonics with go-ethereum's core/asm.
//
//	Proxy(target)          forwards calldata (and call value) to target with CALL, bubbles revert data
//	DelegateProxy(target)  the same with DELEGATECALL
//	Emitter(n)             calldata = n topics (32 bytes each) || data  ->  LOGn(topics, data) from its own address
//	Script(ops)            straight-line program with baked arguments: CALL / DELEGATECALL (bubbling or
//	                       ignoring failure), LOGn, REVERT; usable as runtime code or directly as init code
//	InitCode(runtime)      creation code that returns runtime
//
// All functions return byte code; they panic with kit.HarnessError on misuse.
package asmkit

import (
	"encoding/hex"
	"fmt"
	"math/big"
	"strings"

	"github.com/ethereum/go-ethereum/common"
	"github.com/ethereum/go-ethereum/core/asm"
	"github.com/ethereum/go-ethereum/core/vm"

	"verif/harness/kit"
)

// Assemble compiles assembler source (one instruction per line, `PUSH <number>`, `JUMPI @label`,
// `label:`, `;; comment`). Unlike core/asm itself it rejects unknown mnemonics (which core/asm
// silently turns into STOP).
func Assemble(src string) []byte {
	var clean strings.Builder
	for i, line := range strings.Split(src, "\n") {
		if k := strings.Index(line, ";;"); k >= 0 { // core/asm's comment lexing swallows the line end
			line = line[:k]
		}
		clean.WriteString(line)
		clean.WriteString("\n")
		f := strings.Fields(line)
		if len(f) == 0 || strings.HasSuffix(f[0], ":") {
			continue
		}
		op := strings.ToUpper(f[0])
		if op == "PUSH" || op == "STOP" {
			continue
		}
		if vm.StringToOp(op) == vm.STOP {
			kit.Failf("asmkit: unknown mnemonic %q in line %d", f[0], i+1)
		}
	}
	src = clean.String()
	c := asm.NewCompiler(false)
	c.Feed(asm.Lex([]byte(src), false))
	out, errs := c.Compile()
	if len(errs) > 0 {
		kit.Failf("asmkit: compile: %v", errs)
	}
	bz, err := hex.DecodeString(out)
	kit.Must(err, "asmkit: hex")
	return bz
}

func addrLit(a common.Address) string {
	return "0x" + hex.EncodeToString(a.Bytes())
}

const bubble = `
	RETURNDATASIZE
	PUSH 0
	PUSH 0
	RETURNDATACOPY        ;; mem[0..rds) = return data
	JUMPI @ok             ;; success flag of the call
	RETURNDATASIZE
	PUSH 0
	REVERT
ok:
	RETURNDATASIZE
	PUSH 0
	RETURN
`

// Proxy forwards its calldata and call value to target with CALL and bubbles the result.
func Proxy(target common.Address) []byte {
	return Assemble(`
	CALLDATASIZE
	PUSH 0
	PUSH 0
	CALLDATACOPY          ;; mem[0..cds) = calldata
	PUSH 0                ;; retSize
	PUSH 0                ;; retOffset
	CALLDATASIZE          ;; argsSize
	PUSH 0                ;; argsOffset
	CALLVALUE             ;; value
	PUSH ` + addrLit(target) + `
	GAS
	CALL
` + bubble)
}

// DelegateProxy forwards its calldata to target's code with DELEGATECALL and bubbles the result.
func DelegateProxy(target common.Address) []byte {
	return Assemble(`
	CALLDATASIZE
	PUSH 0
	PUSH 0
	CALLDATACOPY
	PUSH 0
	PUSH 0
	CALLDATASIZE
	PUSH 0
	PUSH ` + addrLit(target) + `
	GAS
	DELEGATECALL
` + bubble)
}

// Emitter returns a contract that takes calldata = n topics || data and executes LOGn(data, topics...).
func Emitter(n int) []byte {
	if n < 0 || n > 4 {
		kit.Failf("asmkit: Emitter(%d)", n)
	}
	var b strings.Builder
	for i := n; i >= 1; i-- { // topic n first, topic 1 ends on top
		fmt.Fprintf(&b, "\tPUSH %d\n\tCALLDATALOAD\n", 32*(i-1))
	}
	fmt.Fprintf(&b, "\tPUSH %d\n\tCALLDATASIZE\n\tSUB\n", 32*n) // len = cds - 32n
	fmt.Fprintf(&b, "\tDUP1\n\tPUSH %d\n\tPUSH 0\n\tCALLDATACOPY\n", 32*n)
	fmt.Fprintf(&b, "\tPUSH 0\n\tLOG%d\n\tSTOP\n", n)
	return Assemble(b.String())
}

// EmitterInput builds the calldata of Emitter(len(topics)).
func EmitterInput(topics []common.Hash, data []byte) []byte {
	var out []byte
	for _, t := range topics {
		out = append(out, t.Bytes()...)
	}
	return append(out, data...)
}

// OpKind is the kind of one Script operation.
type OpKind int

const (
	OpCall OpKind = iota
	OpDelegateCall
	OpLog
	OpRevert
)

// Op is one operation of a Script.
type Op struct {
	Kind   OpKind
	Target common.Address // OpCall, OpDelegateCall
	Data   []byte         // call input or log data
	Value  *big.Int       // OpCall only (nil = 0)
	Try    bool           // OpCall/OpDelegateCall: ignore failure of the callee instead of bubbling its revert
	Topics []common.Hash  // OpLog (0..4)
}

func storeData(b *strings.Builder, data []byte) {
	for off := 0; off < len(data); off += 32 {
		var w [32]byte
		copy(w[:], data[off:])
		fmt.Fprintf(b, "\tPUSH 0x%s\n\tPUSH %d\n\tMSTORE\n", hex.EncodeToString(w[:]), off)
	}
}

// Script assembles a straight-line program. It ignores its own calldata, executes ops in order and
// STOPs (so it can be deployed as runtime code, or be sent as the init code of a creation tx, in
// which case the calls are made by the contract under construction and empty code is deployed).
func Script(ops []Op) []byte {
	var b strings.Builder
	for i, op := range ops {
		switch op.Kind {
		case OpCall, OpDelegateCall:
			storeData(&b, op.Data)
			fmt.Fprintf(&b, "\tPUSH 0\n\tPUSH 0\n\tPUSH %d\n\tPUSH 0\n", len(op.Data))
			if op.Kind == OpCall {
				v := op.Value
				if v == nil {
					v = new(big.Int)
				}
				fmt.Fprintf(&b, "\tPUSH 0x%s\n", v.Text(16))
			}
			fmt.Fprintf(&b, "\tPUSH %s\n\tGAS\n", addrLit(op.Target))
			if op.Kind == OpCall {
				b.WriteString("\tCALL\n")
			} else {
				b.WriteString("\tDELEGATECALL\n")
			}
			if op.Try {
				b.WriteString("\tPOP\n")
			} else {
				fmt.Fprintf(&b, "\tJUMPI @ok%d\n", i)
				b.WriteString("\tRETURNDATASIZE\n\tPUSH 0\n\tPUSH 0\n\tRETURNDATACOPY\n\tRETURNDATASIZE\n\tPUSH 0\n\tREVERT\n")
				fmt.Fprintf(&b, "ok%d:\n", i)
			}
		case OpLog:
			if len(op.Topics) > 4 {
				kit.Failf("asmkit: %d topics", len(op.Topics))
			}
			storeData(&b, op.Data)
			for j := len(op.Topics) - 1; j >= 0; j-- {
				fmt.Fprintf(&b, "\tPUSH 0x%s\n", hex.EncodeToString(op.Topics[j].Bytes()))
			}
			fmt.Fprintf(&b, "\tPUSH %d\n\tPUSH 0\n\tLOG%d\n", len(op.Data), len(op.Topics))
		case OpRevert:
			b.WriteString("\tPUSH 0\n\tPUSH 0\n\tREVERT\n")
		default:
			kit.Failf("asmkit: op kind %d", op.Kind)
		}
	}
	b.WriteString("\tSTOP\n")
	return Assemble(b.String())
}

// InitCode returns creation code that deploys runtime unchanged.
func InitCode(runtime []byte) []byte {
	n := len(runtime)
	if n > 0xffff {
		kit.Failf("asmkit: runtime too long")
	}
	// PUSH2 n, DUP1, PUSH2 13, PUSH1 0, CODECOPY, PUSH1 0, RETURN
	pre := []byte{0x61, byte(n >> 8), byte(n), 0x80, 0x61, 0x00, 13, 0x60, 0x00, 0x39, 0x60, 0x00, 0xf3}
	return append(pre, runtime...)
}
