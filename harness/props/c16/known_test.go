package c16

import (
	"fmt"
	"testing"

	sdk "github.com/cosmos/cosmos-sdk/types"
	transfertypes "github.com/cosmos/ibc-go/v3/modules/apps/transfer/types"
	clienttypes "github.com/cosmos/ibc-go/v3/modules/core/02-client/types"
	channeltypes "github.com/cosmos/ibc-go/v3/modules/core/04-channel/types"

	"verif/harness/kf"
	"verif/harness/kit"
	"verif/harness/rec"
)

// TestC16_Known_NilAckOnSuccess is the pinned, library-free reproduction of the shrunk counter-example
// of TestC16_Direct (1uatom to a fresh receiver, unregistered denomination) and of what IBC core makes
// of it (no acknowledgement committed after MsgRecvPacket between two real chains).
func TestC16_Known_NilAckOnSuccess(t *testing.T) {
	r := rec.For("TestC16_Known_NilAckOnSuccess", "pinned: 1uatom to a fresh receiver, unregistered denomination; direct call and over real IBC")

	// (1) direct: middleware vs bare transfer app on two branches of the same state
	c := directChain()
	recv := kit.NewAccount(kit.U64(0)).Acc
	data := transfertypes.NewFungibleTokenPacketData("uatom", "1", "cosmos1qql8ag4cluz6r4dz28p3w00dnc9w8ueulg2gmc", recv.String())
	packet := channeltypes.NewPacket(data.GetBytes(), 1, "transfer", "channel-0", "transfer", "channel-0", clienttypes.NewHeight(1, 1_000_000), 0)
	ctxT, _ := c.Ctx().CacheContext()
	ctxM, _ := c.Ctx().CacheContext()
	bare := onRecv(bareTransfer(c.App), ctxT, packet, c.Accounts[2].Acc)
	mid := onRecv(wiredMiddleware(c.App), ctxM, packet, c.Accounts[2].Acc)
	if !bare.Success {
		kit.Failf("pinned packet is not acknowledged by the bare transfer app: %+v", bare)
	}
	directBad := !mid.equal(bare)

	// (2) over real IBC: the acknowledgement store of the destination after MsgRecvPacket
	e := newE2E(t)
	p := e.sendTransfer(0, sdk.NewInt64Coin(dUnreg, 1), recv.String())
	e.updateClient(1)
	_, err := e.recv(1, p)
	kit.Must(err, "MsgRecvPacket")
	stored, found := e.apps[1].IBCKeeper.ChannelKeeper.GetPacketAcknowledgement(e.ctx(1), p.DestinationPort, p.DestinationChannel, p.Sequence)
	want := channeltypes.CommitAcknowledgement([]byte(bare.Bytes))
	coreBad := !found || string(stored) != string(want)
	got := e.apps[1].BankKeeper.GetBalance(e.ctx(1), recv, voucherDenom(p.DestinationPort, p.DestinationChannel, dUnreg))

	r.Case("pinned-direct", true, func() interface{} {
		return map[string]interface{}{"packet_data": string(data.GetBytes()), "bare_ack": bare, "middleware_ack": mid}
	})
	r.Case("pinned-e2e", true, func() interface{} {
		return map[string]interface{}{"packet_data": string(p.Data), "ack_committed": found, "receiver_got": got.String()}
	})
	if !directBad && !coreBad {
		return // no longer reproduces
	}
	text := fmt.Sprintf("transfer app acknowledges %s; middleware returns %+v; over IBC: ack committed=%v (receiver got %s)", bare.Bytes, mid, found, got)
	if kf.Listed(propID, keyNilAck) {
		kf.Report(propID, keyNilAck)
		r.KnownFinding(keyNilAck, text)
		return
	}
	t.Fatalf("successful ICS-20 receive is not acknowledged: %s", text)
}
