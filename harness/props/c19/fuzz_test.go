package c19

// fuzz_test.go: byte-first checks. checkBytes is the shared oracle of the rapid test
// TestC19_DecodeFirst (mutated canonical encodings) and the native fuzz target FuzzPacketABI;
// FuzzKeyParse drives the key builders / parsers / store iterators from raw bytes.

import (
	"bytes"
	"encoding/binary"
	"fmt"
	"os"
	"path/filepath"
	"strconv"
	"strings"
	"testing"

	"pgregory.net/rapid"

	clienttypes "github.com/teleport-network/teleport/x/xibc/core/client/types"
	"github.com/teleport-network/teleport/x/xibc/core/host"

	"verif/harness/kf"
	"verif/harness/rec"
)

// checkBytes applies the byte-first oracle to arbitrary input for one type.
//
// The property says that encoding is canonical and that decode∘encode is the identity; it does not
// say that the decoders reject non-canonical input (they do not: go-ethereum's unpacker accepts
// overlapping tails, dirty padding, trailing bytes, over-wide integers). So:
//   - b is a strict canonical encoding with valid UTF-8 strings  =>  ABIDecode(b) succeeds and equals the
//     strictly decoded value, and ABIPack(ABIDecode(b)) == b;
//   - otherwise, if ABIDecode(b) succeeds with value v  =>  ABIPack(v) is a strict canonical encoding of v,
//     ABIDecode(ABIPack(v)) == v and re-packing is byte-stable.
//
// class describes which branch was taken ("" + msg != "" means violation).
func checkBytes(c *codec, b []byte) (class string, msg string) {
	strictV, strict := refDecodeStrict(c.kinds, b)
	ackListed := c == codecAck && kf.Listed("C19", keyAckFee)
	var v []field
	var err error
	if p := caught(func() { v, err = c.dec(b) }); p != "" {
		return "decoder_panicked(not asserted here)", ""
	}
	if strict && allStringsValid(strictV) {
		if ackListed && strictV[4].U != 0 {
			return "excluded:" + keyAckFee, ""
		}
		if err != nil {
			return "", fmt.Sprintf("ABIDecode rejects a canonical encoding: %v\n%s\n%x", err, render(c, strictV), clipB(b))
		}
		if !fieldsEqual(v, strictV) {
			return "", fmt.Sprintf("ABIDecode of a canonical encoding lost information\nwant=%s\n got=%s", render(c, strictV), render(c, v))
		}
		re, e := c.enc(v)
		if e != nil || !bytes.Equal(re, b) {
			return "", fmt.Sprintf("re-encoding a canonical encoding changed the bytes (err=%v)\n%s\n in=%x\nout=%x", e, render(c, v), clipB(b), clipB(re))
		}
		return "canonical_input", ""
	}
	if err != nil {
		return "rejected_input", ""
	}
	class = "non_canonical_input_accepted"
	if strict {
		class = "canonical_layout_with_invalid_utf8_accepted"
	}
	if !allStringsValid(v) {
		// cannot happen after the JSON hop; if it does the value is outside the quantifier
		return class + ":decoded_invalid_utf8", ""
	}
	b2, e := c.enc(v)
	if e != nil {
		return "", fmt.Sprintf("ABIPack fails on a value ABIDecode produced: %v\n%s", e, render(c, v))
	}
	v2, ok := refDecodeStrict(c.kinds, b2)
	if !ok || !fieldsEqual(v2, v) {
		return "", fmt.Sprintf("ABIPack output is not the canonical encoding of its input\n%s\n%x", render(c, v), clipB(b2))
	}
	v3, e := c.dec(b2)
	if e != nil || !fieldsEqual(v3, v) {
		return "", fmt.Sprintf("decode(encode(v)) != v for a value obtained from non-canonical input (err=%v)\n v=%s\ngot=%s", e, render(c, v), render(c, v3))
	}
	if b3, e := c.enc(v3); e != nil || !bytes.Equal(b3, b2) {
		return "", fmt.Sprintf("re-packing is not byte-stable (err=%v)\n%s", e, render(c, v))
	}
	return class, ""
}

const ruleDecodeFirst = "byte-first: canonical reference encodings of hostile values, then 0-3 byte-level mutations (dirty padding, shifted/overlapping " +
	"offsets, over-wide integer words, truncated / trailing bytes, non-UTF-8 bytes inside strings, random flips); oracle: canonical valid-UTF-8 input => " +
	"ABIDecode equals the strict reference decoding and ABIPack returns the same bytes; any other accepted input => ABIPack of the decoded value is canonical, " +
	"decodes to the same value and is byte-stable; non-trivial = mutated input or hostile class; distinct by (type, branch, mutation set)"

var byteMutations = []string{"dirty_padding", "offset_plus_32", "offset_to_other_tail", "wide_uint", "truncate", "trailing_word", "trailing_byte",
	"invalid_utf8_in_string", "flip_random_byte", "length_plus_1", "outer_offset"}

func TestC19_DecodeFirst(t *testing.T) {
	r := rec.For("TestC19_DecodeFirst", ruleDecodeFirst)
	rapid.Check(t, func(t *rapid.T) {
		c := codecByName[rapid.SampledFrom(codecNames).Draw(t, "type")]
		v := genValue(t, c)
		b := refEncode(v)
		n := rapid.IntRange(0, 3).Draw(t, "mutations")
		var muts []string
		for i := 0; i < n && len(b) >= 32*(len(c.kinds)+2); i++ { // head and at least one tail word left to mutate
			m := rapid.SampledFrom(byteMutations).Draw(t, "mutation")
			muts = append(muts, m)
			words := len(b) / 32
			switch m {
			case "dirty_padding":
				b[len(b)-1] |= 1
			case "offset_plus_32", "offset_to_other_tail", "wide_uint", "length_plus_1":
				w := rapid.IntRange(1, words-1).Draw(t, "word")
				switch m {
				case "offset_plus_32":
					binary.BigEndian.PutUint64(b[32*w+24:], binary.BigEndian.Uint64(b[32*w+24:])+32)
				case "offset_to_other_tail":
					w2 := rapid.IntRange(1, len(c.kinds)).Draw(t, "from")
					copy(b[32*w:32*w+32], b[32*w2:32*w2+32])
				case "wide_uint":
					b[32*w+rapid.IntRange(0, 23).Draw(t, "hi")] = 1
				default:
					binary.BigEndian.PutUint64(b[32*w+24:], binary.BigEndian.Uint64(b[32*w+24:])+1)
				}
			case "truncate":
				b = b[:len(b)-rapid.SampledFrom([]int{1, 31, 32}).Draw(t, "cut")]
			case "trailing_word":
				b = append(b, word(rapid.Uint64Range(0, 2).Draw(t, "w"))...)
			case "trailing_byte":
				b = append(b, 0)
			case "invalid_utf8_in_string":
				pos := rapid.IntRange(32*(len(c.kinds)+1), len(b)-1).Draw(t, "pos")
				b[pos] = 0xff
			case "flip_random_byte":
				b[rapid.IntRange(0, len(b)-1).Draw(t, "pos")] ^= byte(1 << uint(rapid.IntRange(0, 7).Draw(t, "bit")))
			case "outer_offset":
				b[31] = byte(rapid.SampledFrom([]int{0, 64, 31}).Draw(t, "off"))
			}
		}
		class, msg := checkBytes(c, b)
		if msg != "" {
			t.Fatalf("%s\nmutations=%v", msg, muts)
		}
		cl := classifyValue(v)
		r.Label("branch:" + class)
		if class == "excluded:"+keyAckFee {
			r.Exclude(keyAckFee)
		}
		for _, m := range muts {
			r.Label("mutation:" + m)
		}
		mset := classes{}
		for _, m := range muts {
			mset.add(m)
		}
		r.Case(fmt.Sprintf("%s|%s|%s", c.name, class, mset.key()), len(muts) > 0 || len(cl) > 0, sampled("decodefirst", 1, func() interface{} {
			return map[string]interface{}{"type": c.name, "base": render(c, v), "mutations": muts, "branch": class, "bytes": fmt.Sprintf("%x", clipB(b))}
		}))
	})
}

// FuzzPacketABI: kind selects the type, data is the candidate encoding.
func FuzzPacketABI(f *testing.F) {
	r := rec.For("FuzzPacketABI", "native fuzzing of checkBytes over (type, bytes); seeds: canonical and non-canonical encodings of every type")
	samples := map[string][]field{
		"packet": {{K: 's', S: "teleport_9000-1"}, {K: 's', S: "abc"}, {K: 'u', U: 1}, {K: 's', S: "0x4d1e30c8657c7215b63dc41723cdfa0a7031c6a0"},
			{K: 'b', B: refEncode([]field{{K: 's', S: "0x00"}, {K: 's', S: ""}, {K: 'b', B: word(5)}, {K: 's', S: "rcv\x00 <&>"}})},
			{K: 'b', B: refEncode([]field{{K: 's', S: "0xabc"}, {K: 'b', B: []byte{0xff, 0, 1}}})}, {K: 's', S: "0x0000000000000000000000000000000000000000"}, {K: 'u', U: 1 << 63}},
		"ack":      {{K: 'u', U: 1}, {K: 'b', B: []byte{}}, {K: 's', S: "receive packet callback failed"}, {K: 's', S: "teleport1relayer"}, {K: 'u', U: 0}},
		"result":   {{K: 'u', U: 0}, {K: 'b', B: []byte{1, 2, 3}}, {K: 's', S: "\U0001F600"}},
		"transfer": {{K: 's', S: "0xtoken"}, {K: 's', S: "ori"}, {K: 'b', B: word(1000)}, {K: 's', S: "0xreceiver"}},
		"call":     {{K: 's', S: "0xcontract"}, {K: 'b', B: bytes.Repeat([]byte{0x2f}, 33)}},
	}
	var inCode [][]interface{}
	add := func(kind uint8, b []byte) {
		f.Add(kind, b)
		inCode = append(inCode, []interface{}{kind, b})
	}
	for i, name := range codecNames {
		b := refEncode(samples[name])
		add(uint8(i), b)
		dirty := append([]byte{}, b...)
		dirty[len(dirty)-1] = 1
		add(uint8(i), dirty)
		add(uint8(i), append(append([]byte{}, b...), word(0)...))
		wide := append([]byte{}, b...)
		wide[32+32*len(codecByName[name].kinds)] = 1 // over-wide length word of the first tail
		add(uint8(i), wide)
	}
	add(uint8(1), refEncode([]field{{K: 'u', U: 0}, {K: 'b'}, {K: 's', S: "\xff"}, {K: 's'}, {K: 'u', U: 0}}))
	before := corpusDirListing("FuzzPacketABI")
	f.Fuzz(func(t *testing.T, kind uint8, data []byte) {
		c := codecs[int(kind)%len(codecs)]
		class, msg := checkBytes(c, data)
		if msg != "" {
			t.Fatalf("%s: %s", c.name, msg)
		}
		r.Label("branch:" + class)
		r.Case(c.name+"|"+class, true, func() interface{} { return fmt.Sprintf("%s %s %x", c.name, class, clipB(data)) })
	})
	flakeGuard(f, "FuzzPacketABI", before, inCode, func(vals []interface{}) string {
		if len(vals) != 2 {
			return "unexpected corpus arity"
		}
		kind, ok1 := vals[0].(uint8)
		data, ok2 := vals[1].([]byte)
		if !ok1 || !ok2 {
			return "unexpected corpus types"
		}
		_, msg := checkBytes(codecs[int(kind)%len(codecs)], data)
		return msg
	})
}

// ---------------------------------------------------------------------------------------------
// watchdog-flake guard
//
// Go's fuzz worker panics when a single execution takes more than 10 s of wall time ("fuzzing process
// hung or terminated unexpectedly"); on an overloaded machine that happens to executions that take
// microseconds when replayed, and the coordinator then records the innocent input as failing. After a
// failed fuzz run the coordinator therefore re-executes every newly written input in-process under the
// same oracle: if all of them pass, the failure was the watchdog and a HARNESS line is printed (the
// driver reports "inconclusive" instead of a violation). A genuine failure fails again here.

func corpusDirListing(name string) map[string]bool {
	out := map[string]bool{}
	ents, _ := os.ReadDir(filepath.Join("testdata", "fuzz", name))
	for _, e := range ents {
		out[e.Name()] = true
	}
	return out
}

// parseCorpusFile reads a "go test fuzz v1" file with byte(...) and []byte(...) lines.
func parseCorpusFile(path string) (vals []interface{}, err error) {
	bz, err := os.ReadFile(path)
	if err != nil {
		return nil, err
	}
	lines := strings.Split(strings.TrimSpace(string(bz)), "\n")
	if len(lines) == 0 || strings.TrimSpace(lines[0]) != "go test fuzz v1" {
		return nil, fmt.Errorf("not a corpus file")
	}
	for _, l := range lines[1:] {
		l = strings.TrimSpace(l)
		switch {
		case strings.HasPrefix(l, "[]byte(") && strings.HasSuffix(l, ")"):
			s, err := strconv.Unquote(l[len("[]byte(") : len(l)-1])
			if err != nil {
				return nil, err
			}
			vals = append(vals, []byte(s))
		case strings.HasPrefix(l, "byte(") && strings.HasSuffix(l, ")"):
			s, err := strconv.Unquote(l[len("byte(") : len(l)-1])
			if err != nil || len(s) == 0 {
				return nil, fmt.Errorf("bad byte literal %s", l)
			}
			if r := []rune(s); len(r) == 1 && r[0] < 256 {
				vals = append(vals, uint8(r[0]))
			} else {
				vals = append(vals, s[0])
			}
		default:
			return nil, fmt.Errorf("unsupported corpus line %q", l)
		}
	}
	return vals, nil
}

func flakeGuard(f *testing.F, name string, before map[string]bool, inCode [][]interface{}, rerun func(vals []interface{}) string) {
	if !f.Failed() {
		return
	}
	after := corpusDirListing(name)
	fresh := 0
	for n := range after {
		if !before[n] {
			fresh++
		}
	}
	checked := 0
	for n := range after {
		if fresh > 0 && before[n] {
			continue // the engine recorded new inputs: those are the suspects
		}
		vals, err := parseCorpusFile(filepath.Join("testdata", "fuzz", name, n))
		if err != nil {
			fmt.Printf("%s: cannot re-read corpus input %s: %v\n", name, n, err)
			return
		}
		if msg := rerun(vals); msg != "" {
			fmt.Printf("%s: corpus input %s fails again in-process: %s\n", name, n, clip(msg, 600))
			return
		}
		checked++
	}
	if fresh == 0 { // failure while running the seed corpus: the seeds added in code are suspects too
		for i, vals := range inCode {
			if msg := rerun(vals); msg != "" {
				fmt.Printf("%s: in-code seed #%d fails again in-process: %s\n", name, i, clip(msg, 600))
				return
			}
			checked++
		}
	}
	fmt.Printf("HARNESS: %s: the fuzzing engine reported a failure, but all %d suspect input(s) (%d newly recorded) pass when re-executed in-process under the "+
		"same oracle (fuzz worker watchdog / worker death on an overloaded machine, not a counter-example)\n", name, checked, fresh)
}

// nameFromBytes maps raw bytes onto the chain-name alphabet (length forced into 3..64).
func nameFromBytes(b []byte) string {
	if len(b) > 64 {
		b = b[:64]
	}
	out := make([]byte, 0, 64)
	for _, x := range b {
		if strings.IndexByte(nameAlphabet, x) < 0 {
			x = nameAlphabet[int(x)%len(nameAlphabet)]
		}
		out = append(out, x)
	}
	for len(out) < 3 {
		out = append(out, 'a')
	}
	return string(out)
}

// keyParseCheck derives names, a sequence and heights from raw bytes and checks key injectivity,
// parse-back and store read-back. "" = holds.
func keyParseCheck(data []byte) string {
	var fixed [26]byte
	copy(fixed[:], data)
	rest := []byte{}
	if len(data) > 26 {
		rest = data[26:]
	}
	h1 := clienttypes.NewHeight(binary.BigEndian.Uint64(fixed[0:8]), binary.BigEndian.Uint64(fixed[8:16]))
	h2 := clienttypes.NewHeight(h1.RevisionHeight, h1.RevisionNumber)
	h3 := clienttypes.NewHeight(h1.RevisionNumber, h1.RevisionHeight^0x2f)
	seq := binary.BigEndian.Uint64(fixed[16:24])
	typ := []string{"tm", "bsc", "eth"}[int(fixed[24])%3]
	split := 0
	if len(rest) > 0 {
		split = int(fixed[25]) % (len(rest) + 1)
	}
	src, dst := nameFromBytes(rest[:split]), nameFromBytes(rest[split:])
	if !validName(src) || !validName(dst) {
		return fmt.Sprintf("HARNESS: derived invalid names %q %q", src, dst)
	}
	// pure: distinct triples / heights => distinct keys; parsers invert builders
	triples := []triple{{src, dst, seq}, {dst, src, seq}, {src, dst, seq + 1}, {src, dst, seq / 10}, {src + dst, dst, seq}}
	owner := map[string]triple{}
	for _, tr := range triples {
		if !validName(tr.Src) {
			continue
		}
		for kind, k := range map[string][]byte{"commitment": host.PacketCommitmentKey(tr.Src, tr.Dst, tr.Seq), "receipt": host.PacketReceiptKey(tr.Src, tr.Dst, tr.Seq),
			"ack": host.PacketAcknowledgementKey(tr.Src, tr.Dst, tr.Seq), "relayer": host.PacketRelayerKey(tr.Src, tr.Dst, tr.Seq)} {
			if prev, dup := owner[string(k)]; dup && prev != tr {
				return fmt.Sprintf("key collision: %s key %q belongs to %s and %s", kind, k, prev, tr)
			}
			owner[string(k)] = tr
		}
		s, d, err := host.ParsePath(host.NextSequenceSendPath(tr.Src, tr.Dst))
		if err != nil || s != tr.Src || d != tr.Dst {
			return fmt.Sprintf("ParsePath(NextSequenceSendPath(%q,%q)) = (%q,%q,%v)", tr.Src, tr.Dst, s, d, err)
		}
	}
	hk := map[string]clienttypes.Height{}
	for _, h := range []clienttypes.Height{h1, h2, h3} {
		k := string(host.FullConsensusStateKey(src, h))
		if prev, dup := hk[k]; dup && !prev.EQ(h) {
			return fmt.Sprintf("consensus-state key collision between heights %s and %s", prev, h)
		}
		hk[k] = h
	}
	// store read-back
	var ts []triple
	var masks []int
	seen := map[triple]bool{}
	for i, tr := range triples {
		if validName(tr.Src) && !seen[tr] {
			seen[tr] = true
			ts = append(ts, tr)
			masks = append(masks, 1+(int(fixed[24])+i)%15)
		}
	}
	if msg, _ := packetStoreDiff(baseChain(), ts, masks, ts[0]); msg != "" {
		return msg
	}
	specs := normalizeSpecs([]clientSpec{{Name: src, Type: typ, Heights: []clienttypes.Height{h1, h2, h3}}})
	if dst != src {
		specs = append(specs, normalizeSpecs([]clientSpec{{Name: dst, Type: "tm", Heights: []clienttypes.Height{h2}}})...)
	}
	return clientStoreDiff(specs, nil)
}

func FuzzKeyParse(f *testing.F) {
	r := rec.For("FuzzKeyParse", "native fuzzing of keyParseCheck: bytes -> (revision, height, sequence, client type, two names on the valid alphabet) -> "+
		"key injectivity, parse-back and read-back of a cache branch through every iterator")
	seed := func(rev, h, seq uint64, typ byte, split byte, names string) []byte {
		b := make([]byte, 26)
		binary.BigEndian.PutUint64(b[0:], rev)
		binary.BigEndian.PutUint64(b[8:], h)
		binary.BigEndian.PutUint64(b[16:], seq)
		b[24], b[25] = typ, split
		return append(b, names...)
	}
	var inCode [][]interface{}
	add := func(b []byte) {
		f.Add(b)
		inCode = append(inCode, []interface{}{b})
	}
	add(seed(0, 1, 1, 0, 3, "abcdef"))
	add(seed(0, 46, 10, 1, 9, "sequencesclientState"))
	add(seed(1, 48, ^uint64(0), 2, 15, "consensusStatescommitments"))
	add(seed(0, 255, 0, 0, 0, ""))
	add(seed(9000, 1<<63, 12079, 1, 64, string(bytes.Repeat([]byte{7}, 128))))
	add(seed(0, 47, 1, 0, 3, "abcdef"))        // byte 0x2f: exercises the exclusion of the listed findings
	add(seed(47<<56, 303, 47, 2, 3, "a.bA.B")) // byte 0x2f in the revision
	before := corpusDirListing("FuzzKeyParse")
	f.Fuzz(func(t *testing.T, data []byte) {
		if msg := keyParseCheck(data); msg != "" {
			t.Fatalf("%s", msg)
		}
		r.Case(fmt.Sprintf("len=%d", len(data)), true, func() interface{} { return fmt.Sprintf("%x", clipB(data)) })
	})
	flakeGuard(f, "FuzzKeyParse", before, inCode, func(vals []interface{}) string {
		if len(vals) != 1 {
			return "unexpected corpus arity"
		}
		data, ok := vals[0].([]byte)
		if !ok {
			return "unexpected corpus type"
		}
		return keyParseCheck(data)
	})
}
