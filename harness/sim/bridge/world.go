// Package bridge is the "bridge world" shared by the packet-protocol properties (C01-C06): 2-3 real
// Teleport chains in one process connected by Tendermint light clients, a TSS-secured pseudo
// counterparty on every chain, bound ERC-20 lineages, and a model built from observed events only.
package bridge

import (
	"bytes"
	"encoding/json"
	"fmt"
	"math/big"
	"sort"
	"strings"
	"time"

	sdk "github.com/cosmos/cosmos-sdk/types"
	banktypes "github.com/cosmos/cosmos-sdk/x/bank/types"
	"github.com/ethereum/go-ethereum/common"

	"github.com/teleport-network/teleport/app"
	"github.com/teleport-network/teleport/syscontracts"
	erc20contracts "github.com/teleport-network/teleport/syscontracts/erc20"
	stakingcontract "github.com/teleport-network/teleport/syscontracts/staking"
	agentcontract "github.com/teleport-network/teleport/syscontracts/xibc_agent"
	endpointcontract "github.com/teleport-network/teleport/syscontracts/xibc_endpoint"
	packetcontract "github.com/teleport-network/teleport/syscontracts/xibc_packet"
	clienttypes "github.com/teleport-network/teleport/x/xibc/core/client/types"
	packettypes "github.com/teleport-network/teleport/x/xibc/core/packet/types"

	"verif/harness/kit"
)

const (
	TSSName     = "tss-net"
	TSSOriToken = "0x00000000000000000000000000000000000000aa"
	BlockDT     = 5 * time.Second
)

// DigestStores are the stores compared by "state unchanged" oracles.
var DigestStores = []string{"xibc", "evm", "bank", "aggregate", "staking", "distribution", "gov"}

var erc20ABI = erc20contracts.ERC20MinterBurnerDecimalsContract.ABI

// Triple identifies a packet.
type Triple struct {
	Src, Dst string
	Seq      uint64
}

func (t Triple) String() string { return fmt.Sprintf("%s>%s#%d", t.Src, t.Dst, t.Seq) }

// Pkt is one observed packet.
type Pkt struct {
	ID      int
	Bz      []byte
	P       packettypes.Packet
	T       Triple
	SrcIdx  int // chain index of the sender; -1 = injected by the TSS account
	DstIdx  int // chain index of the destination; -1 = TSS pseudo chain / unknown
	Token   common.Address
	Amount  *big.Int // transfer amount (0 for call-only)
	Fee     *big.Int
	FeeTok  common.Address
	Sender  kit.Account
	RecvAdr common.Address
	Call    string // call-data kind
	SentAt  int64  // height of the block on the source chain that contains the send

	Received   bool
	RecvAt     int64
	AckBz      []byte
	Ack        packettypes.Acknowledgement
	Acked      bool
	AckedAt    int64
	AckTried   bool // a genuine first acknowledgement was delivered and refused
	Refunded   bool
	AckRelayer kit.Account // relayer (teleport account) that delivered the receive

	Callback     bool           // the sender named the counter contract as callback address
	CallbackAddr common.Address // the callback address named by the sender (zero: none)
	ViaAgent     bool           // outer packet whose call data asks the agent contract to forward the tokens
	RefundTo     common.Address // agent-sent packet: address the agent refunds on failure
	Nested       []*Pkt         // packets sent by the destination callback of this packet (observed in the receive tx)
	Parent       *Pkt           // for a nested packet: the packet whose callback sent it
}

// World is the multi-chain fixture plus the model.
type World struct {
	Chains   []*kit.Chain
	Users    []kit.Account
	Rels     []kit.Account
	TSS      kit.Account
	Outsider kit.Account
	Accounts []kit.Account

	// Tok[c] = the lineage ERC-20 on chain c (origin chain 0; Tok[c] is bound to (Tok[c-1], chain c-1)).
	Tok []common.Address
	// NTok[c] for c>=1 = ERC-20 on chain c bound to chain 0's base coin; NTok[0] = zero address (the coin itself).
	NTok []common.Address
	// Unbound = ERC-20 on chain 0 with no binding anywhere.
	Unbound common.Address
	// TTok[c] = ERC-20 on chain c bound to (TSSOriToken, TSSName).
	TTok []common.Address
	// Target[c] = plain ERC-20 used as call-data target on chain c.
	Target []common.Address
	// Counter is a contract installed on every chain that increments its storage slot 0 on every call; used as
	// the sender's callback address to count how often the packet contract runs the callback.
	Counter common.Address
	// Moody is a contract installed on every chain that REVERTS every call while its own balance is zero and otherwise counts
	// the call like Counter (slot 0); used as a sender callback whose execution fails until somebody funds the contract.
	Moody common.Address
	// Bomb is a contract installed on every chain that loops until it runs out of gas.
	Bomb common.Address

	Pkts     []*Pkt
	Accepted []map[Triple]bool // per chain: triples whose receive was accepted
	NextSeq  []map[string]uint64
	Height0  int64
}

// WorldOpts are optional settings of NewWorldOpts.
type WorldOpts struct {
	GenesisMutator func(a *app.Teleport, g map[string]json.RawMessage)
	OnChain        func(c *kit.Chain)     // called right after each chain is created (e.g. to attach a tracer)
	ExtraCoins     sdk.Coins              // extra genesis balance of every account
	NodeConfig     map[string]interface{} // node operator configuration of every chain's node (see kit.ChainOpts)
	Start          time.Time              // genesis time of every chain (zero: kit.Epoch)
}

// NewWorld builds n chains (2 or 3) with clients, relayers, tokens and approvals.
func NewWorld(n int, seed []byte) *World { return NewWorldOpts(n, seed, WorldOpts{}) }

// NewWorldOpts is NewWorld with options.
func NewWorldOpts(n int, seed []byte, o WorldOpts) *World {
	w := &World{}
	mk := func(tag string) kit.Account { return kit.NewAccount(append([]byte(tag), seed...)) }
	w.Users = []kit.Account{mk("user0"), mk("user1")}
	w.Rels = []kit.Account{mk("rel0"), mk("rel1")}
	w.TSS = mk("tss")
	w.Outsider = mk("outsider")
	w.Accounts = []kit.Account{w.Users[0], w.Users[1], w.Rels[0], w.Rels[1], w.TSS, w.Outsider}
	for i := 0; i < n; i++ {
		c := kit.NewChain(fmt.Sprintf("teleport_%d-1", 9000+i), kit.ChainOpts{Seed: append([]byte{byte('A' + i)}, seed...), Accounts: w.Accounts, GenesisMutator: o.GenesisMutator, ExtraCoins: o.ExtraCoins, NodeConfig: o.NodeConfig, BalanceCoins: 1000, Start: o.Start})
		if o.OnChain != nil {
			o.OnChain(c)
		}
		w.Chains = append(w.Chains, c)
		w.Accepted = append(w.Accepted, map[Triple]bool{})
		w.NextSeq = append(w.NextSeq, map[string]uint64{})
	}
	w.Tick()
	for i, c := range w.Chains {
		var names, addrs0, addrs1 []string
		for j, o := range w.Chains {
			if i == j {
				continue
			}
			c.CreateTMClient(o, 0)
			names = append(names, o.ChainID)
			addrs0 = append(addrs0, w.Rels[0].Acc.String())
			addrs1 = append(addrs1, w.Rels[1].Acc.String())
		}
		c.CreateTSSClient(TSSName, w.TSS.Acc)
		c.RegisterRelayer(w.Rels[0].Acc, names, addrs0)
		c.RegisterRelayer(w.Rels[1].Acc, names, addrs1)
		c.RegisterRelayer(w.TSS.Acc, []string{TSSName}, []string{w.TSS.Acc.String()})
	}
	w.Counter = common.HexToAddress("0x00000000000000000000000000000000C0FFEE01")
	for _, c := range w.Chains {
		// PUSH1 0 SLOAD PUSH1 1 ADD PUSH1 0 SSTORE STOP
		c.App.SetEVMCode(c.Ctx(), w.Counter, []byte{0x60, 0x00, 0x54, 0x60, 0x01, 0x01, 0x60, 0x00, 0x55, 0x00})
	}
	w.Moody = common.HexToAddress("0x00000000000000000000000000000000C0FFEE03")
	for _, c := range w.Chains {
		// SELFBALANCE ISZERO PUSH1 15 JUMPI | PUSH1 0 SLOAD PUSH1 1 ADD PUSH1 0 SSTORE STOP | JUMPDEST PUSH1 0 PUSH1 0 REVERT
		c.App.SetEVMCode(c.Ctx(), w.Moody, []byte{0x47, 0x15, 0x60, 0x0f, 0x57, 0x60, 0x00, 0x54, 0x60, 0x01, 0x01, 0x60, 0x00, 0x55, 0x00, 0x5b, 0x60, 0x00, 0x60, 0x00, 0xfd})
	}
	w.Bomb = common.HexToAddress("0x00000000000000000000000000000000C0FFEE02")
	for _, c := range w.Chains {
		// JUMPDEST PUSH1 0 JUMP
		c.App.SetEVMCode(c.Ctx(), w.Bomb, []byte{0x5b, 0x60, 0x00, 0x56})
	}
	big1 := new(big.Int).Lsh(big.NewInt(1), 200)
	for i, c := range w.Chains {
		w.Tok = append(w.Tok, c.DeployERC20("lineage", "LIN", 18))
		w.TTok = append(w.TTok, c.DeployERC20("tsstok", "TSS", 18))
		w.Target = append(w.Target, c.DeployERC20("target", "TGT", 18))
		if i == 0 {
			w.NTok = append(w.NTok, common.Address{})
			w.Unbound = c.DeployERC20("unbound", "UNB", 18)
		} else {
			w.NTok = append(w.NTok, c.DeployERC20("wrapped-native", "WN", 18))
		}
	}
	for i, c := range w.Chains {
		if i > 0 {
			kit.Must(c.BindToken(w.Tok[i], strings.ToLower(w.Tok[i-1].String()), w.Chains[i-1].ChainID, 0), "bind lineage")
			kit.Must(c.BindToken(w.NTok[i], strings.ToLower(common.Address{}.String()), w.Chains[0].ChainID, 0), "bind native")
		}
		kit.Must(c.BindToken(w.TTok[i], TSSOriToken, TSSName, 0), "bind tss token")
		for _, u := range w.Users {
			if i == 0 {
				// 2^200 + 10^6: balances large enough for amounts beyond every machine-integer limit
				huge := new(big.Int).Add(new(big.Int).Lsh(big.NewInt(1), 200), big.NewInt(1_000_000))
				c.MintERC20(w.Tok[0], u.Addr, huge)
				c.MintERC20(w.Unbound, u.Addr, huge)
			}
		}
	}
	w.Tick()
	// approvals (real transactions)
	for i, c := range w.Chains {
		toks := []common.Address{w.Tok[i], w.TTok[i]}
		if i == 0 {
			toks = append(toks, w.Unbound)
		} else {
			toks = append(toks, w.NTok[i])
		}
		for _, u := range w.Users {
			for _, tk := range toks {
				r := c.Approve(u, tk, endpointcontract.EndpointContractAddress, big1)
				if !r.Succeeded() {
					kit.Failf("approve failed: %d %s %s", r.Code, r.Log, r.VmError)
				}
			}
		}
	}
	w.Tick()
	w.Tick()
	for i := range w.Chains {
		for j := range w.Chains {
			if i != j {
				w.MustUpdate(i, j)
			}
		}
	}
	w.Tick()
	w.Height0 = w.Chains[0].Header.Height
	return w
}

// Tick commits one block on every chain (all chains share one clock).
func (w *World) Tick() {
	for _, c := range w.Chains {
		c.Commit(BlockDT)
	}
}

// Idx returns the chain index for a chain name (-1 if not one of the world's chains).
func (w *World) Idx(name string) int {
	for i, c := range w.Chains {
		if c.ChainID == name {
			return i
		}
	}
	return -1
}

// MustUpdate brings chain on's client of chain of to of's last committed header (harness failure if rejected).
func (w *World) MustUpdate(on, of int) {
	c, o := w.Chains[on], w.Chains[of]
	if c.ClientHeight(o.ChainID) >= o.LastHeader.Header.Height {
		return
	}
	r := c.Deliver(w.Rels[0], c.MsgUpdateTMClient(o, o.LastHeader.Header.Height, w.Rels[0].Acc))
	if !r.OK() {
		kit.Failf("client update %s on %s failed: %s", o.ChainID, c.ChainID, r.Log)
	}
}

// ConsensusHeights lists the heights for which chain on holds a consensus state of chain of, ascending.
func (w *World) ConsensusHeights(on, of int) []int64 {
	c, o := w.Chains[on], w.Chains[of]
	var hs []int64
	for _, cs := range c.App.XIBCKeeper.ClientKeeper.GetAllConsensusStates(c.Ctx()) {
		if cs.ChainName != o.ChainID {
			continue
		}
		for _, s := range cs.ConsensusStates {
			hs = append(hs, int64(s.Height.RevisionHeight))
		}
	}
	sort.Slice(hs, func(i, j int) bool { return hs[i] < hs[j] })
	return hs
}

// ---------------------------------------------------------------------------------------------
// sends

// SendSpec describes one cross-chain call.
type SendSpec struct {
	Src      int
	DstName  string
	User     int
	Token    common.Address
	Amount   *big.Int
	Fee      *big.Int
	Receiver string
	Call     string // "", "ok", "revert", "hookfail", "nested-unknown", "agent:<dstChainName>", "privileged:<method>"
	Callback common.Address
	AgentFee *big.Int // fee of the onward packet for Call = "agent:…"
	// FeeOption is the fee option carried in the packet and echoed in its acknowledgement
	FeeOption uint64
}

// CallData builds (contractAddress, callData) for a call kind executed on destination chain dst.
func (w *World) CallData(kind string, dst int) (string, []byte) {
	if dst < 0 {
		dst = 0
	}
	switch {
	case kind == "":
		return "", []byte{}
	case kind == "ok":
		d, _ := erc20ABI.Pack("approve", w.Users[1].Addr, big.NewInt(5))
		return strings.ToLower(w.Target[dst].String()), d
	case kind == "revert":
		d, _ := erc20ABI.Pack("transfer", w.Users[1].Addr, big.NewInt(5)) // the execute contract holds no balance
		return strings.ToLower(w.Target[dst].String()), d
	case kind == "gasbomb":
		return strings.ToLower(w.Bomb.Hex()), []byte{1}
	case kind == "hookfail":
		d, _ := stakingcontract.StakingContract.ABI.Pack("delegate", "teleportvaloper1invalid", big.NewInt(1))
		return syscontracts.StakingContractAddress, d
	case kind == "nested-unknown":
		ccd := packettypes.CrossChainData{DstChain: "no-such-chain", TokenAddress: common.Address{}, Receiver: "", Amount: big.NewInt(0),
			ContractAddress: strings.ToLower(w.Target[dst].String()), CallData: []byte{1, 2, 3, 4}}
		d, err := endpointcontract.EndpointContract.ABI.Pack("crossChainCall", ccd, packettypes.Fee{Amount: big.NewInt(0)})
		kit.Must(err, "pack nested")
		return syscontracts.EndpointContractAddress, d
	case strings.HasPrefix(kind, "agent:"):
		kit.Failf("agent call data is built by Send")
	case strings.HasPrefix(kind, "privileged:"):
		m := strings.TrimPrefix(kind, "privileged:")
		var d []byte
		var err error
		target := syscontracts.PacketContractAddress
		switch m {
		case "setSequence":
			d, err = packetcontract.PacketContract.ABI.Pack("setSequence", w.Chains[(dst+1)%len(w.Chains)].ChainID, uint64(77))
		case "setAckStatus":
			d, err = packetcontract.PacketContract.ABI.Pack("setAckStatus", w.Chains[(dst+1)%len(w.Chains)].ChainID, uint64(1), uint8(1))
		case "setChainName":
			d, err = packetcontract.PacketContract.ABI.Pack("setChainName", "evil")
		case "bindToken":
			target = syscontracts.EndpointContractAddress
			d, err = endpointcontract.EndpointContract.ABI.Pack("bindToken", w.Target[dst], "0xdead", "evil-chain", uint8(0))
		default:
			kit.Failf("unknown privileged method %s", m)
		}
		kit.Must(err, "pack privileged")
		return target, d
	}
	kit.Failf("unknown call kind %q", kind)
	return "", nil
}

// SendOutcome reports one send attempt.
type SendOutcome struct {
	Spec   SendSpec
	Res    kit.EthResult
	OK     bool
	Pkts   []*Pkt
	Before kit.Dump
	After  kit.Dump
}

// Send performs a cross-chain call through the endpoint contract and records observed packets.
func (w *World) Send(s SendSpec, wantDumps bool) *SendOutcome {
	c := w.Chains[s.Src]
	dstIdx := w.Idx(s.DstName)
	var contract string
	var data []byte
	if strings.HasPrefix(s.Call, "agent:") {
		fee := s.AgentFee
		if fee == nil {
			fee = big.NewInt(0)
		}
		final := strings.TrimPrefix(s.Call, "agent:")
		var err error
		data, err = agentcontract.AgentContract.ABI.Pack("send", w.Users[s.User].Addr, s.Receiver, final, fee)
		kit.Must(err, "pack agent.send")
		contract = syscontracts.AgentContractAddress
		s.Receiver = strings.ToLower(agentcontract.AgentContractAddress.String())
	} else {
		contract, data = w.CallData(s.Call, dstIdx)
	}
	ccd := packettypes.CrossChainData{
		DstChain: s.DstName, TokenAddress: s.Token, Receiver: s.Receiver, Amount: s.Amount,
		ContractAddress: contract, CallData: data, CallbackAddress: s.Callback, FeeOption: s.FeeOption,
	}
	fee := packettypes.Fee{TokenAddress: s.Token, Amount: s.Fee}
	out := &SendOutcome{Spec: s}
	if wantDumps {
		out.Before = c.DumpStores(c.Ctx(), DigestStores...)
	}
	out.Res = c.CrossChainCall(w.Users[s.User], ccd, fee)
	if wantDumps {
		out.After = c.DumpStores(c.Ctx(), DigestStores...)
	}
	out.OK = out.Res.Succeeded()
	if !out.OK {
		return out
	}
	for _, bz := range kit.SentPackets(out.Res.TxResult) {
		p := kit.DecodePacket(bz)
		pk := &Pkt{ID: len(w.Pkts), Bz: bz, P: p, T: Triple{p.SrcChain, p.DstChain, p.Sequence}, SrcIdx: s.Src, DstIdx: w.Idx(p.DstChain),
			Token: s.Token, Amount: new(big.Int).Set(s.Amount), Fee: new(big.Int).Set(s.Fee), FeeTok: s.Token, Sender: w.Users[s.User],
			Call: s.Call, SentAt: c.Header.Height, ViaAgent: strings.HasPrefix(s.Call, "agent:"), RefundTo: w.Users[s.User].Addr,
			Callback: s.Callback == w.Counter || s.Callback == w.Moody, CallbackAddr: s.Callback}
		if common.IsHexAddress(s.Receiver) {
			pk.RecvAdr = common.HexToAddress(s.Receiver)
		}
		w.Pkts = append(w.Pkts, pk)
		out.Pkts = append(out.Pkts, pk)
	}
	return out
}

// ---------------------------------------------------------------------------------------------
// receives and acknowledgements

// ProofHeightsFor returns the client heights H stored on chain `on` (client of chain `of`) whose state
// (version H-1) was committed at or after block `since` of chain `of`.
func (w *World) ProofHeightsFor(on, of int, since int64) []int64 {
	var out []int64
	latest := w.Chains[on].ClientHeight(w.Chains[of].ChainID) // a governance upgrade may have re-anchored the client below stored heights
	for _, h := range w.ConsensusHeights(on, of) {
		if h-1 >= since && h <= latest {
			out = append(out, h)
		}
	}
	return out
}

// RecvMsg builds the receive of pk on its destination with a proof at client height h.
func (w *World) RecvMsg(pk *Pkt, packetBz []byte, h int64, signer sdk.AccAddress) *packettypes.MsgRecvPacket {
	src := w.Chains[pk.SrcIdx]
	return kit.MsgRecv(src, packetBz, h, signer)
}

// TxOutcome is a delivered message with before/after dumps of the digest stores.
type TxOutcome struct {
	Res    kit.TxResult
	Before kit.Dump
	After  kit.Dump
}

// Unchanged reports whether the digest stores are identical before and after.
func (o TxOutcome) Unchanged() bool { return len(kit.Diff(o.Before, o.After)) == 0 }

// DiffString renders the store difference.
func (o TxOutcome) DiffString() string { return kit.DiffString(kit.Diff(o.Before, o.After), 12) }

// DeliverDumped delivers msgs from acct on chain ci with dumps around it.
func (w *World) DeliverDumped(ci int, acct kit.Account, msgs ...sdk.Msg) TxOutcome {
	c := w.Chains[ci]
	o := TxOutcome{Before: c.DumpStores(c.Ctx(), DigestStores...)}
	o.Res = c.Deliver(acct, msgs...)
	o.After = c.DumpStores(c.Ctx(), DigestStores...)
	return o
}

// NoteRecv updates the model after a successful tx that carried a receive of pk on chain ci.
func (w *World) NoteRecv(ci int, pk *Pkt, res kit.TxResult, relayer kit.Account) {
	w.Accepted[ci][pk.T] = true
	if pk.Received {
		return
	}
	pk.Received = true
	pk.RecvAt = w.Chains[ci].Header.Height
	pk.AckRelayer = relayer
	pkts, acks := kit.WrittenAcks(res)
	for i, pb := range pkts {
		p := kit.DecodePacket(pb)
		if (Triple{p.SrcChain, p.DstChain, p.Sequence}) == pk.T && i < len(acks) {
			pk.AckBz = acks[i]
			_ = pk.Ack.ABIDecode(acks[i])
		}
	}
	// packets sent by the callback (e.g. the agent contract forwarding the tokens)
	for _, n := range w.ObservePackets(ci, res) {
		n.RefundTo = pk.RefundTo
		n.Parent = pk
		pk.Nested = append(pk.Nested, n)
	}
}

// ObservePackets records every packet sent by chain ci in a transaction result (EventSendPacket), reading
// token, amount and receiver from the packet's transfer data and the fee from the packet contract.
func (w *World) ObservePackets(ci int, res kit.TxResult) []*Pkt {
	c := w.Chains[ci]
	var out []*Pkt
	for _, bz := range kit.SentPackets(res) {
		p := kit.DecodePacket(bz)
		if p.SrcChain != c.ChainID {
			continue
		}
		n := &Pkt{ID: len(w.Pkts), Bz: bz, P: p, T: Triple{p.SrcChain, p.DstChain, p.Sequence}, SrcIdx: ci, DstIdx: w.Idx(p.DstChain),
			Amount: big.NewInt(0), Fee: big.NewInt(0), Sender: kit.Account{Addr: common.HexToAddress(p.Sender)}, Call: "", SentAt: c.Header.Height,
			RefundTo: common.HexToAddress(p.Sender)}
		var td packettypes.TransferData
		if err := td.ABIDecode(p.TransferData); err == nil {
			n.Amount = new(big.Int).SetBytes(td.Amount)
			n.Token = common.HexToAddress(td.Token)
			if common.IsHexAddress(td.Receiver) {
				n.RecvAdr = common.HexToAddress(td.Receiver)
			}
		}
		ft, fa := c.PacketFee(p.DstChain, p.Sequence)
		n.FeeTok, n.Fee = ft, fa
		w.Pkts = append(w.Pkts, n)
		out = append(out, n)
	}
	return out
}

// CounterValue reads how often the counter contract of chain ci has been called.
func (w *World) CounterValue(ci int) uint64 {
	c := w.Chains[ci]
	v := c.App.EvmKeeper.GetState(c.Ctx(), w.Counter, common.Hash{})
	v2 := c.App.EvmKeeper.GetState(c.Ctx(), w.Moody, common.Hash{})
	return new(big.Int).SetBytes(v.Bytes()).Uint64() + new(big.Int).SetBytes(v2.Bytes()).Uint64()
}

// MoodyFunded says whether the moody callback contract of chain ci currently accepts calls.
func (w *World) MoodyFunded(ci int) bool {
	c := w.Chains[ci]
	return c.App.EvmKeeper.GetBalance(c.Ctx(), w.Moody).Sign() > 0
}

// FundMoody sends one base unit of the chain's coin to the moody contract's account (a plain bank transfer: no EVM code runs).
func (w *World) FundMoody(ci int, user int) bool {
	c := w.Chains[ci]
	u := w.Users[user]
	return c.Deliver(u, banktypes.NewMsgSend(u.Acc, sdk.AccAddress(w.Moody.Bytes()), sdk.NewCoins(sdk.NewInt64Coin(sdk.DefaultBondDenom, 1)))).OK()
}

// ByTriple finds an observed packet.
func (w *World) ByTriple(t Triple) *Pkt {
	for _, p := range w.Pkts {
		if p.T == t {
			return p
		}
	}
	return nil
}

// Reencode returns a different byte string that ABI-decodes to the same packet (nil if none found).
func Reencode(bz []byte, variant int) []byte {
	orig := kit.DecodePacket(bz)
	var alt []byte
	switch variant % 3 {
	case 0: // trailing bytes after the last dynamic field
		alt = append(append([]byte{}, bz...), make([]byte, 32)...)
	case 1: // trailing non-zero bytes
		alt = append(append([]byte{}, bz...), bytes.Repeat([]byte{0xab}, 64)...)
	default: // dirty padding inside the last word (after a dynamic field's content)
		alt = append([]byte{}, bz...)
		if len(alt) > 0 && alt[len(alt)-1] == 0 {
			alt[len(alt)-1] = 0x01
		}
	}
	var p packettypes.Packet
	if err := p.ABIDecode(alt); err != nil {
		return nil
	}
	a, _ := orig.ABIPack()
	b, _ := p.ABIPack()
	if !bytes.Equal(a, b) || bytes.Equal(alt, bz) {
		return nil
	}
	return alt
}

// Height helper.
func H(rev, h uint64) clienttypes.Height { return clienttypes.NewHeight(rev, h) }
