// Package c08: independent reference verifier for EVM account+storage proofs (property C08).
//
// Nothing in this file calls go-ethereum's trie, light or rlp packages, nor any teleport code: the RLP
// reader/writer, hex-prefix decoding and the trie walk are written out here. Only keccak256 (a
// primitive) and encoding/json (the wire format library) are shared with the code under test.
package c08

import (
	"bytes"
	"encoding/binary"
	"encoding/json"
	"fmt"
	"math/big"

	"golang.org/x/crypto/sha3"
)

// Verdict of the reference.
type Verdict int

const (
	Invalid       Verdict = iota // the message does not prove the claim: must be rejected
	Valid                        // the message proves the claim: must be accepted (if gating passes)
	Indeterminate                // outside what the property speaks about (see indet* reasons): no verdict asserted
)

func (v Verdict) String() string { return [...]string{"invalid", "valid", "indeterminate"}[v] }

// RefResult carries the verdict and a short machine-readable reason.
type RefResult struct {
	V      Verdict
	Reason string
}

func keccak(parts ...[]byte) [32]byte {
	h := sha3.NewLegacyKeccak256()
	for _, p := range parts {
		h.Write(p)
	}
	var out [32]byte
	h.Sum(out[:0])
	return out
}

// ---- claim side -------------------------------------------------------------------------------

// refSlot = keccak(path ‖ uint256(208)) with the XIBC host path written out independently.
func refSlot(ack bool, src, dst string, seq uint64) [32]byte {
	prefix := "commitments"
	if ack {
		prefix = "acks"
	}
	path := fmt.Sprintf("%s/%s/%s/sequences/%d", prefix, src, dst, seq)
	var idx [32]byte
	binary.BigEndian.PutUint64(idx[24:], 208)
	return keccak([]byte(path), idx[:])
}

// RefSlot is refSlot for other property packages (C02 drives ETH/BSC counterparties at message level
// and judges their proofs with this reference).
func RefSlot(ack bool, src, dst string, seq uint64) [32]byte { return refSlot(ack, src, dst, seq) }

// RefVerify is refVerify for other property packages.
func RefVerify(proofJSON []byte, root [32]byte, contract []byte, slot, value [32]byte) (RefResult, RefInfo) {
	return refVerify(proofJSON, root, contract, slot, value)
}

// ---- text layer -------------------------------------------------------------------------------

// parseHex reads hex text the way Ethereum JSON does: optional 0x/0X prefix, either case, an odd
// number of digits is a number with an implied leading zero nibble. ok=false when a non-hex
// character is present (the property does not say how such text is to be read).
func parseHex(s string) (out []byte, ok bool) {
	if len(s) >= 2 && s[0] == '0' && (s[1] == 'x' || s[1] == 'X') {
		s = s[2:]
	}
	if len(s)%2 == 1 {
		s = "0" + s
	}
	out = make([]byte, len(s)/2)
	for i := 0; i < len(s); i++ {
		var n byte
		c := s[i]
		switch {
		case c >= '0' && c <= '9':
			n = c - '0'
		case c >= 'a' && c <= 'f':
			n = c - 'a' + 10
		case c >= 'A' && c <= 'F':
			n = c - 'A' + 10
		default:
			return nil, false
		}
		if i%2 == 0 {
			out[i/2] = n << 4
		} else {
			out[i/2] |= n
		}
	}
	return out, true
}

// word reads a 32-byte quantity/hash: shorter text is a number (left-padded); longer than 32 bytes
// has no defined reading (ok=false).
func word(s string) (w [32]byte, ok bool) {
	b, ok := parseHex(s)
	if !ok || len(b) > 32 {
		return w, false
	}
	copy(w[32-len(b):], b)
	return w, true
}

// ---- minimal canonical RLP --------------------------------------------------------------------

type rlpItem struct {
	list    bool
	payload []byte // string content, or the concatenated encodings of the list elements
	raw     []byte // whole encoding
}

// rlpSplit reads one canonical RLP item from the front of b.
func rlpSplit(b []byte) (it rlpItem, rest []byte, err error) {
	if len(b) == 0 {
		return it, nil, fmt.Errorf("rlp: empty")
	}
	p := b[0]
	var hdr, n int
	switch {
	case p < 0x80:
		return rlpItem{payload: b[:1], raw: b[:1]}, b[1:], nil
	case p <= 0xb7:
		hdr, n = 1, int(p-0x80)
		if n == 1 && len(b) > 1 && b[1] < 0x80 {
			return it, nil, fmt.Errorf("rlp: non-canonical single byte")
		}
	case p <= 0xbf:
		hdr, n, err = rlpLong(b, int(p-0xb7))
	case p <= 0xf7:
		hdr, n, it.list = 1, int(p-0xc0), true
	default:
		hdr, n, err = rlpLong(b, int(p-0xf7))
		it.list = true
	}
	if err != nil {
		return it, nil, err
	}
	if hdr+n > len(b) || hdr+n < 0 {
		return it, nil, fmt.Errorf("rlp: short input")
	}
	it.payload, it.raw = b[hdr:hdr+n], b[:hdr+n]
	return it, b[hdr+n:], nil
}

func rlpLong(b []byte, ll int) (hdr, n int, err error) {
	if ll > 8 || 1+ll > len(b) {
		return 0, 0, fmt.Errorf("rlp: bad length of length")
	}
	if b[1] == 0 {
		return 0, 0, fmt.Errorf("rlp: leading zero in length")
	}
	var v uint64
	for _, c := range b[1 : 1+ll] {
		v = v<<8 | uint64(c)
	}
	if v < 56 {
		return 0, 0, fmt.Errorf("rlp: long form for short payload")
	}
	if v > 1<<31 {
		return 0, 0, fmt.Errorf("rlp: too long")
	}
	return 1 + ll, int(v), nil
}

func rlpListItems(payload []byte) ([]rlpItem, error) {
	var out []rlpItem
	for len(payload) > 0 {
		it, rest, err := rlpSplit(payload)
		if err != nil {
			return nil, err
		}
		out = append(out, it)
		payload = rest
	}
	return out, nil
}

func rlpEncString(b []byte) []byte {
	if len(b) == 1 && b[0] < 0x80 {
		return []byte{b[0]}
	}
	return append(rlpHeader(0x80, len(b)), b...)
}

func rlpHeader(base byte, n int) []byte {
	if n < 56 {
		return []byte{base + byte(n)}
	}
	var l []byte
	for v := n; v > 0; v >>= 8 {
		l = append([]byte{byte(v)}, l...)
	}
	return append([]byte{base + 55 + byte(len(l))}, l...)
}

func rlpEncList(items ...[]byte) []byte {
	var p []byte
	for _, it := range items {
		p = append(p, it...)
	}
	return append(rlpHeader(0xc0, len(p)), p...)
}

func trimZeros(b []byte) []byte {
	for len(b) > 0 && b[0] == 0 {
		b = b[1:]
	}
	return b
}

// ---- trie walk --------------------------------------------------------------------------------

type walkStatus int

const (
	wFound   walkStatus = iota // key present; value returned
	wAbsent                    // supplied nodes prove the key is NOT in the trie
	wMissing                   // a node on the path is not among the supplied nodes
	wBad                       // a node on the path is not a well-formed trie node
)

func (s walkStatus) String() string {
	return [...]string{"found", "absent", "missing-node", "bad-node"}[s]
}

// walk follows key (32 bytes → 64 nibbles) from root through the supplied node set.
// depth = number of hash-referenced nodes consumed.
func walk(root [32]byte, key [32]byte, nodes map[[32]byte][]byte) (value []byte, st walkStatus, depth int) {
	nib := make([]byte, 64)
	for i, b := range key {
		nib[2*i], nib[2*i+1] = b>>4, b&0x0f
	}
	cur, ok := nodes[root]
	if !ok {
		return nil, wMissing, 0
	}
	depth = 1
	for steps := 0; steps < 200; steps++ {
		it, rest, err := rlpSplit(cur)
		if err != nil || !it.list || len(rest) != 0 {
			return nil, wBad, depth
		}
		items, err := rlpListItems(it.payload)
		if err != nil {
			return nil, wBad, depth
		}
		var child rlpItem
		switch len(items) {
		case 17:
			if len(nib) == 0 {
				if items[16].list {
					return nil, wBad, depth
				}
				if len(items[16].payload) == 0 {
					return nil, wAbsent, depth
				}
				return items[16].payload, wFound, depth
			}
			child, nib = items[nib[0]], nib[1:]
		case 2:
			if items[0].list || len(items[0].payload) == 0 {
				return nil, wBad, depth
			}
			hp := items[0].payload
			flag := hp[0] >> 4
			if flag > 3 {
				return nil, wBad, depth
			}
			var part []byte
			if flag&1 == 1 {
				part = append(part, hp[0]&0x0f)
			} else if hp[0]&0x0f != 0 {
				return nil, wBad, depth
			}
			for _, b := range hp[1:] {
				part = append(part, b>>4, b&0x0f)
			}
			if flag >= 2 { // leaf
				if items[1].list {
					return nil, wBad, depth
				}
				if bytes.Equal(part, nib) {
					return items[1].payload, wFound, depth
				}
				return nil, wAbsent, depth
			}
			if len(part) == 0 || len(part) > len(nib) || !bytes.Equal(part, nib[:len(part)]) {
				if len(part) == 0 {
					return nil, wBad, depth
				}
				return nil, wAbsent, depth
			}
			child, nib = items[1], nib[len(part):]
		default:
			return nil, wBad, depth
		}
		switch {
		case child.list: // embedded node (< 32 bytes)
			if len(child.raw) >= 32 {
				return nil, wBad, depth
			}
			cur = child.raw
		case len(child.payload) == 0:
			return nil, wAbsent, depth
		case len(child.payload) == 32:
			var h [32]byte
			copy(h[:], child.payload)
			nxt, ok := nodes[h]
			if !ok {
				return nil, wMissing, depth
			}
			cur = nxt
			depth++
		default:
			return nil, wBad, depth
		}
	}
	return nil, wBad, depth
}

// ---- message ----------------------------------------------------------------------------------

type refStorage struct {
	Key   string   `json:"key"`
	Value string   `json:"value"`
	Proof []string `json:"proof"`
}

// refProof is the wire shape (same keys as the clients' Proof type).
type refProof struct {
	Address      string        `json:"address"`
	Balance      string        `json:"balance"`
	CodeHash     string        `json:"code_hash"`
	Nonce        string        `json:"nonce"`
	StorageHash  string        `json:"storage_hash"`
	AccountProof []string      `json:"account_proof"`
	StorageProof []*refStorage `json:"storage_proof"`
}

// nodeSet decodes node texts; malformed = at least one text with non-hex characters.
func nodeSet(texts []string) (set map[[32]byte][]byte, malformed bool) {
	set = map[[32]byte][]byte{}
	for _, s := range texts {
		b, ok := parseHex(s)
		if !ok {
			malformed = true
			continue
		}
		set[keccak(b)] = b
	}
	return set, malformed
}

// RefInfo reports what the reference saw (for evidence only).
type RefInfo struct {
	AcctDepth, StoDepth int
}

// refVerify decides whether proofJSON proves "contract's storage slot `slot` holds `value` under
// state root `root`". Gating (heights, delay, consensus state) is decided by the caller.
//
// Indeterminate is returned only when no well-formed component definitely fails and
//   - some text that matters is not hex / a word longer than 32 bytes (indet:text-…), or
//   - the proven leaf is a valid RLP string that denotes the right 256-bit word but is not the EVM's
//     canonical trimmed form (indet:noncanonical-word) — no EVM state contains such a leaf.
func refVerify(proofJSON []byte, root [32]byte, contract []byte, slot, value [32]byte) (RefResult, RefInfo) {
	var info RefInfo
	var p refProof
	if proofJSON == nil {
		return RefResult{Invalid, "no-proof"}, info
	}
	if err := json.Unmarshal(proofJSON, &p); err != nil {
		return RefResult{Invalid, "json"}, info
	}
	indet := ""
	note := func(r string) {
		if indet == "" {
			indet = r
		}
	}

	// 1. the message must be about the configured contract
	addr, ok := parseHex(p.Address)
	if !ok {
		note("indet:text-address")
	} else if !bytes.Equal(addr, contract) {
		return RefResult{Invalid, "address"}, info
	}

	// 2. exactly one storage proof, for exactly the slot
	if len(p.StorageProof) != 1 {
		return RefResult{Invalid, "storage-proof-count"}, info
	}
	sp := p.StorageProof[0]
	if sp == nil {
		return RefResult{Invalid, "storage-proof-null"}, info
	}
	if k, ok := word(sp.Key); !ok {
		note("indet:text-key")
	} else if k != slot {
		return RefResult{Invalid, "key"}, info
	}

	// 3. account proof: root --keccak(address)--> leaf == rlp(account fields of the message)
	nonce, okN := word(p.Nonce)
	bal, okB := word(p.Balance)
	sh, okS := word(p.StorageHash)
	ch, okC := word(p.CodeHash)
	aset, amal := nodeSet(p.AccountProof)
	if ok { // address text readable
		leaf, st, d := walk(root, keccak(addr), aset)
		info.AcctDepth = d
		switch {
		case st == wFound:
			if okN && okB && okS && okC {
				want := rlpEncList(
					rlpEncString(trimZeros(new(big.Int).SetBytes(nonce[:]).Bytes())),
					rlpEncString(trimZeros(new(big.Int).SetBytes(bal[:]).Bytes())),
					rlpEncString(sh[:]), rlpEncString(ch[:]))
				if !bytes.Equal(want, leaf) {
					return RefResult{Invalid, "account-fields"}, info
				}
			} else {
				note("indet:text-account-field")
			}
		case st == wMissing && amal:
			note("indet:text-account-node")
		default:
			return RefResult{Invalid, "account-proof:" + st.String()}, info
		}
	}

	// 4. storage proof: storageHash --keccak(slot)--> leaf denotes value
	if okS {
		sset, smal := nodeSet(sp.Proof)
		leaf, st, d := walk(sh, keccak(slot[:]), sset)
		info.StoDepth = d
		switch {
		case st == wFound:
			it, rest, err := rlpSplit(leaf)
			if err != nil || it.list || len(rest) != 0 || len(it.payload) > 32 {
				return RefResult{Invalid, "storage-leaf-form"}, info
			}
			var w [32]byte
			copy(w[32-len(it.payload):], it.payload)
			if w != value {
				return RefResult{Invalid, "value"}, info
			}
			if len(it.payload) > 0 && it.payload[0] == 0 {
				note("indet:noncanonical-word")
			}
		case st == wMissing && smal:
			note("indet:text-storage-node")
		default:
			return RefResult{Invalid, "storage-proof:" + st.String()}, info
		}
	} else {
		note("indet:text-account-field")
	}

	if indet != "" {
		return RefResult{Indeterminate, indet}, info
	}
	return RefResult{Valid, "ok"}, info
}
