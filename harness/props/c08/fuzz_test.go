package c08

import (
	"encoding/json"
	"fmt"
	"math/big"
	"os"
	"path/filepath"
	"sort"
	"strings"
	"sync"
	"testing"

	"github.com/cosmos/cosmos-sdk/store/dbadapter"
	sdk "github.com/cosmos/cosmos-sdk/types"
	"github.com/ethereum/go-ethereum/common"

	bsctypes "github.com/teleport-network/teleport/x/xibc/clients/light-clients/bsc/types"
	ethtypes "github.com/teleport-network/teleport/x/xibc/clients/light-clients/eth/types"

	"verif/harness/rec"
	"verif/harness/sim/evmsim"
)

const fuzzName = "FuzzC08_EvmProof"

const fuzzRule = "native coverage-guided fuzzing of the proof JSON bytes (plus a selector byte choosing one of 12 claims and one of 3 proof heights) against a FIXED two-height EVM world, " +
	"seeded with valid proofs of every claim; oracle = reference verifier + height gating, ETH==BSC, simulator ground truth; " +
	"non-trivial = the bytes parse as a proof object whose address is the configured contract (verification gets past the first check); distinct by (reference reason, claim, height choice, verdict)"

// fixed world of the fuzz target ------------------------------------------------------------------

type fuzzFixture struct {
	w0, w1   *evmsim.World
	contract common.Address
	claims   []entry // claims[i] is true in w0 unless noted
	absent   int     // index of a claim whose key is absent in both worlds
	changed  int     // index of a claim whose value differs between w0 and w1
	s        setup
	heights  [3]uint64
	ethStore sdk.KVStore
	ethCS    ethtypes.ClientState
	bscStore sdk.KVStore
	bscCS    bsctypes.ClientState
}

var (
	fxOnce sync.Once
	fx     *fuzzFixture
)

func fixture() *fuzzFixture {
	fxOnce.Do(func() {
		p := &prf{seed: []byte("c08-fuzz-fixture-v1")}
		f := &fuzzFixture{contract: addrOf(p)}
		mkVal := func(lz int) (v [32]byte) {
			v = p.word()
			for i := 0; i < lz; i++ {
				v[i] = 0
			}
			if lz < 32 && v[lz] == 0 {
				v[lz] = 0x7f
			}
			return v
		}
		lzs := []int{0, 0, 1, 2, 5, 16, 30, 31, 32, 0}
		seqs := []uint64{1, 2, 0, 1<<64 - 1, 1 << 63, 7, 8, 9, 10, 11}
		for i, lz := range lzs {
			f.claims = append(f.claims, entry{Ack: i%2 == 1, Src: names[i%5], Dst: names[(i+3)%7], Seq: seqs[i], Value: mkVal(lz)})
		}
		f.claims[9].Value = f.claims[0].Value // another slot holding the same value
		f.changed = 1
		f.absent = len(f.claims)
		f.claims = append(f.claims, entry{Ack: false, Src: "eth", Dst: "teleport", Seq: 424242, Value: mkVal(0)})
		f.claims = append(f.claims, entry{Ack: true, Src: "eth", Dst: "teleport", Seq: 424243, Value: [32]byte{}})
		build := func(other bool) *evmsim.World {
			st := map[common.Hash][]byte{}
			for i, e := range f.claims[:f.absent] {
				v := e.Value
				if other && i == f.changed {
					v = keccak([]byte("later"), v[:])
				}
				st[e.slot()] = evmsim.WordLeaf(common.Hash(v))
			}
			q := &prf{seed: []byte("c08-fuzz-filler")}
			for i := 0; i < 24; i++ { // filler slots for depth
				st[common.Hash(q.word())] = evmsim.WordLeaf(common.Hash(q.word()))
			}
			accts := []*evmsim.Account{{Addr: f.contract, Nonce: 1, Balance: big.NewInt(0), CodeHash: common.Hash(keccak([]byte("code"))), Storage: st}}
			for i := 0; i < 40; i++ {
				a := &evmsim.Account{Addr: addrOf(q), Nonce: uint64(i), Balance: new(big.Int).SetBytes(q.bytes(1 + i%12)), CodeHash: evmsim.EmptyCode}
				if other && i == 3 {
					a.Balance = big.NewInt(1)
				}
				accts = append(accts, a)
			}
			return evmsim.NewWorld(accts)
		}
		f.w0, f.w1 = build(false), build(true)
		f.heights = [3]uint64{90, 95, 99}
		f.s = setup{Head: 100, Delay: 3, Cons: map[uint64][32]byte{90: [32]byte(f.w0.Root()), 95: [32]byte(f.w1.Root()), 99: [32]byte(f.w0.Root()), 100: [32]byte(f.w1.Root())}}
		contract := append([]byte(nil), f.contract[:]...)
		f.ethStore, f.ethCS = ethClient(f.s, contract)
		f.bscStore, f.bscCS = bscClient(f.s, true, contract)
		fx = f
	})
	return fx
}

func (f *fuzzFixture) worldAt(h uint64) *evmsim.World {
	if r, ok := f.s.Cons[h]; ok && r == [32]byte(f.w1.Root()) {
		return f.w1
	}
	return f.w0
}

// seeds renders the seed corpus: a valid proof for every claim at both heights, plus a few shaped negatives.
func (f *fuzzFixture) seeds() (out []struct {
	Proof []byte
	Sel   byte
}) {
	add := func(p *evmsim.Proof, sel int) {
		js, err := json.Marshal(p)
		evmsim.Must(err, "marshal seed")
		out = append(out, struct {
			Proof []byte
			Sel   byte
		}{js, byte(sel)})
	}
	for i, e := range f.claims {
		add(f.w0.Prove(f.contract, e.slot()), i)
		add(f.w1.Prove(f.contract, e.slot()), i|1<<4)
	}
	two := f.w0.Prove(f.contract, f.claims[0].slot(), f.claims[2].slot())
	add(two, 0)
	none := f.w0.Prove(f.contract)
	add(none, 0)
	add(f.w0.Prove(f.contract, f.claims[3].slot()), 3|2<<4) // too recent
	return out
}

// accumulated evidence of this process (fuzz workers are separate processes; see TestMain)
type fuzzAcc struct {
	mu      sync.Mutex
	Evals   int                    `json:"evals"`
	Labels  map[string]int         `json:"labels"`
	Shapes  map[string]interface{} `json:"shapes"` // non-trivial shape -> one sample
	Trivial int                    `json:"trivial"`
}

var acc = &fuzzAcc{Labels: map[string]int{}, Shapes: map[string]interface{}{}}

func (a *fuzzAcc) add(shape string, nontrivial bool, labels []string, sample func() interface{}) {
	a.mu.Lock()
	defer a.mu.Unlock()
	a.Evals++
	for _, l := range labels {
		a.Labels[l]++
	}
	if !nontrivial {
		a.Trivial++
		return
	}
	if _, ok := a.Shapes[shape]; !ok && len(a.Shapes) < 5000 {
		a.Shapes[shape] = sample()
	}
}

func checkFuzzInput(t *testing.T, proof []byte, sel byte) {
	f := fixture()
	ci := int(sel&0x0f) % len(f.claims)
	hi := int(sel>>4) % 3
	e := f.claims[ci]
	cl := e.claim()
	if hi == 1 && ci == f.changed {
		cl.Value = keccak([]byte("later"), e.Value[:]) // what the slot holds at the other height
	}
	height := f.heights[hi]
	s := f.s
	s.Height = height
	contract := f.contract[:]
	root := f.s.Cons[height]
	cslot := refSlot(cl.Ack, cl.Src, cl.Dst, cl.Seq)
	ref, _ := refVerify(proof, root, contract, cslot, cl.Value)
	gok := gateOK(s)
	determinate := !gok || ref.V != Indeterminate
	expect := gok && ref.V == Valid
	isTrue := gok && truth(f.worldAt(height), contract, cslot, cl.Value)

	eth := verifyETH(f.ethStore, f.ethCS, 0, height, cl, proof)
	bsc := verifyBSC(f.bscStore, f.bscCS, 0, height, cl, proof)

	desc := func() string {
		return fmt.Sprintf("claim#%d %+v height=%d head=%d delay=%d ref=%s(%s) eth=%s bsc=%s proof=%s",
			ci, struct {
				Ack      bool
				Src, Dst string
				Seq      uint64
				Value    string
			}{cl.Ack, cl.Src, cl.Dst, cl.Seq, evmsim.Hex(cl.Value[:])}, height, s.Head, s.Delay, ref.V, ref.Reason, verdictStr(eth), verdictStr(bsc), abbrev(proof))
	}
	if ref.V == Valid && gok && !isTrue {
		t.Fatalf("HARNESS: reference accepts a claim that is false in the fixed world: %s", desc())
	}
	if eth.Accepted != bsc.Accepted {
		t.Fatalf("ETH and BSC clients disagree: %s", desc())
	}
	if determinate && eth.Accepted != expect {
		t.Fatalf("client verdict differs from the reference (expected accept=%v): %s", expect, desc())
	}
	if eth.Accepted && !isTrue {
		t.Fatalf("client accepted a claim that is false in the fixed world: %s", desc())
	}

	nontrivial := !strings.HasPrefix(ref.Reason, "json") && ref.Reason != "no-proof" && ref.Reason != "address" && ref.Reason != "indet:text-address"
	verdict := map[bool]string{true: "accept", false: "reject"}[eth.Accepted]
	labels := []string{"fuzz_ref:" + ref.V.String(), "fuzz_reason:" + ref.Reason, "fuzz_verdict:" + verdict, fmt.Sprintf("fuzz_height:%d", height)}
	if eth.Panicked {
		labels = append(labels, "fuzz_code_panicked(counted_as_reject)")
	}
	if !determinate {
		labels = append(labels, "fuzz_no_verdict_asserted")
	}
	acc.add(fmt.Sprintf("%s|%d|%d|%s", ref.Reason, ci, hi, verdict), nontrivial, labels, func() interface{} {
		return map[string]interface{}{"claim": ci, "height": height, "reference": ref.V.String() + " (" + ref.Reason + ")", "eth": verdictStr(eth), "bsc": verdictStr(bsc), "proof_json_abbrev": abbrev(proof)}
	})
}

// FuzzC08_EvmProof: proof JSON bytes against the fixed world; run without -fuzz it replays the seed corpus.
func FuzzC08_EvmProof(f *testing.F) {
	for _, s := range fixture().seeds() {
		f.Add(s.Proof, s.Sel)
	}
	f.Fuzz(func(t *testing.T, proof []byte, sel byte) {
		if len(proof) > 1<<16 {
			t.Skip()
		}
		checkFuzzInput(t, proof, sel)
	})
}

// TestC08_FuzzSeedsValid is the positive control of the fuzz target: every "valid" seed is accepted by both
// clients and by the reference, and the on-disk corpus equals what the fixture renders.
func TestC08_FuzzSeedsValid(t *testing.T) {
	r := rec.For("TestC08_FuzzSeedsValid", "pinned: the fixed fuzz world's valid seed proofs (12 claims x 2 heights) are accepted by ETH, BSC and the reference")
	f := fixture()
	accepted := 0
	for i, e := range f.claims {
		for hi := 0; hi < 2; hi++ {
			w := f.w0
			cl := e.claim()
			if hi == 1 {
				w = f.w1
				if i == f.changed {
					cl.Value = keccak([]byte("later"), e.Value[:])
				}
			}
			js, _ := json.Marshal(w.Prove(f.contract, e.slot()))
			eth := verifyETH(f.ethStore, f.ethCS, 0, f.heights[hi], cl, js)
			bsc := verifyBSC(f.bscStore, f.bscCS, 0, f.heights[hi], cl, js)
			ref, info := refVerify(js, f.s.Cons[f.heights[hi]], f.contract[:], refSlot(cl.Ack, cl.Src, cl.Dst, cl.Seq), cl.Value)
			want := i < f.absent
			if eth.Accepted != want || bsc.Accepted != want || (ref.V == Valid) != want {
				t.Fatalf("seed claim %d height %d: eth=%s bsc=%s ref=%s(%s), expected accept=%v", i, f.heights[hi], verdictStr(eth), verdictStr(bsc), ref.V, ref.Reason, want)
			}
			if want {
				accepted++
			}
			r.Case(fmt.Sprintf("seed|%d|%d", i, hi), info.AcctDepth >= 2 && info.StoDepth >= 2, func() interface{} {
				return map[string]interface{}{"claim": i, "height": f.heights[hi], "depth": fmt.Sprintf("%d/%d", info.AcctDepth, info.StoDepth), "accepted": eth.Accepted}
			})
		}
	}
	if accepted != 2*f.absent {
		t.Fatalf("only %d valid seeds accepted", accepted)
	}
	// on-disk corpus is in sync (regenerate with C08_WRITE_CORPUS=1 go test -run TestC08_FuzzSeedsValid)
	dir := filepath.Join("testdata", "fuzz", fuzzName)
	if os.Getenv("C08_WRITE_CORPUS") != "" {
		evmsim.Must(os.MkdirAll(dir, 0o755), "mkdir corpus")
		for i, s := range f.seeds() {
			body := fmt.Sprintf("go test fuzz v1\n[]byte(%q)\nbyte(%q)\n", s.Proof, s.Sel)
			evmsim.Must(os.WriteFile(filepath.Join(dir, fmt.Sprintf("seed-%02d", i)), []byte(body), 0o644), "write seed")
		}
	}
	files, _ := filepath.Glob(filepath.Join(dir, "seed-*"))
	if len(files) == 0 {
		t.Fatalf("HARNESS: seed corpus %s is missing", dir)
	}
}

// ---- evidence plumbing for fuzz workers ---------------------------------------------------------

func isFuzzWorker() bool {
	for _, a := range os.Args {
		if strings.HasPrefix(a, "-test.fuzzworker") {
			return true
		}
	}
	return false
}

func sidecarPattern() string {
	out := os.Getenv("VERIF_EVIDENCE_OUT")
	if out == "" {
		return ""
	}
	return out + ".fuzzworker."
}

// writeSidecar: a fuzz worker saves its counters next to the shard evidence file.
func writeSidecar() {
	p := sidecarPattern()
	if p == "" || acc.Evals == 0 {
		return
	}
	bz, err := json.Marshal(acc)
	if err == nil {
		_ = os.WriteFile(fmt.Sprintf("%s%d", p, os.Getpid()), bz, 0o644)
	}
}

// mergeFuzzEvidence: the coordinator (or a plain run) folds its own and the workers' counters into rec.
func mergeFuzzEvidence() {
	all := []*fuzzAcc{acc}
	if p := sidecarPattern(); p != "" {
		files, _ := filepath.Glob(p + "*")
		sort.Strings(files)
		for _, f := range files {
			bz, err := os.ReadFile(f)
			if err != nil {
				continue
			}
			a := &fuzzAcc{}
			if json.Unmarshal(bz, a) == nil {
				all = append(all, a)
			}
		}
	}
	total := 0
	for _, a := range all {
		total += a.Evals
	}
	if total == 0 {
		return
	}
	r := rec.For(fuzzName, fuzzRule)
	for _, a := range all {
		shapes := make([]string, 0, len(a.Shapes))
		for s := range a.Shapes {
			shapes = append(shapes, s)
		}
		sort.Strings(shapes)
		for _, s := range shapes {
			smp := a.Shapes[s]
			r.Case(s, true, func() interface{} { return smp })
		}
		for i := len(shapes); i < a.Evals; i++ {
			r.Case("", false, nil)
		}
		labels := make([]string, 0, len(a.Labels))
		for l := range a.Labels {
			labels = append(labels, l)
		}
		sort.Strings(labels)
		for _, l := range labels {
			r.LabelN(l, a.Labels[l])
		}
	}
	r.SetExtra("fuzz_processes_reporting", len(all))
}

var _ = dbadapter.Store{}

// TestC08_RefAgainstRecordedProof validates the reference verifier itself on material it did not build: the
// eth_getProof answer recorded in the repo's own unit test (9 account nodes, 3 storage nodes) must be valid,
// and every single-component damage must make it invalid.
func TestC08_RefAgainstRecordedProof(t *testing.T) {
	r := rec.For("TestC08_RefAgainstRecordedProof", "pinned: reference verifier on the eth_getProof answer recorded in eth/types/client_state_test.go, and on damaged copies")
	bz, err := os.ReadFile(filepath.Join("testdata", "recorded_proof.json"))
	evmsim.Must(err, "read recorded proof")
	var rp struct {
		Root  string        `json:"root"`
		Proof *evmsim.Proof `json:"proof"`
	}
	evmsim.Must(json.Unmarshal(bz, &rp), "parse recorded proof")
	root, _ := word(rp.Root)
	contract, _ := parseHex(rp.Proof.Address)
	slot, _ := word(rp.Proof.StorageProof[0].Key)
	value, _ := word(rp.Proof.StorageProof[0].Value)
	js, _ := json.Marshal(rp.Proof)
	res, info := refVerify(js, root, contract, slot, value)
	r.Case("recorded", true, func() interface{} {
		return map[string]interface{}{"reference": res.V.String(), "depth": fmt.Sprintf("%d/%d", info.AcctDepth, info.StoDepth)}
	})
	if res.V != Valid || info.AcctDepth != 9 || info.StoDepth != 3 {
		t.Fatalf("HARNESS: reference says %s (%s) depth %d/%d on the recorded proof", res.V, res.Reason, info.AcctDepth, info.StoDepth)
	}
	damaged := 0
	for i := range rp.Proof.AccountProof {
		p := rp.Proof.Clone()
		p.AccountProof = append(p.AccountProof[:i:i], p.AccountProof[i+1:]...)
		js, _ := json.Marshal(p)
		if res, _ := refVerify(js, root, contract, slot, value); res.V != Invalid {
			t.Fatalf("HARNESS: reference says %s without account node %d", res.V, i)
		}
		damaged++
	}
	for i := range rp.Proof.StorageProof[0].Proof {
		p := rp.Proof.Clone()
		sp := p.StorageProof[0]
		sp.Proof = append(sp.Proof[:i:i], sp.Proof[i+1:]...)
		js, _ := json.Marshal(p)
		if res, _ := refVerify(js, root, contract, slot, value); res.V != Invalid {
			t.Fatalf("HARNESS: reference says %s without storage node %d", res.V, i)
		}
		damaged++
	}
	v2 := value
	v2[31] ^= 1
	if res, _ := refVerify(js, root, contract, slot, v2); res.V != Invalid {
		t.Fatalf("HARNESS: reference accepts another value")
	}
	r.Case(fmt.Sprintf("damaged-%d", damaged), true, nil)
}
