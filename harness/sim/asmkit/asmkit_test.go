package asmkit

import (
	"bytes"
	"math/big"
	"testing"

	"github.com/ethereum/go-ethereum/common"
	"github.com/ethereum/go-ethereum/core/rawdb"
	"github.com/ethereum/go-ethereum/core/state"
	"github.com/ethereum/go-ethereum/core/vm/runtime"
)

// who: LOG0(data = caller || address) and returns the same 64 bytes.
var whoCode = Assemble(`
	CALLER
	PUSH 0
	MSTORE
	ADDRESS
	PUSH 32
	MSTORE
	PUSH 64
	PUSH 0
	LOG0
	PUSH 64
	PUSH 0
	RETURN
`)

// reverter: revert with the 2 bytes "no".
var revCode = Assemble(`
	PUSH 0x6e6f000000000000000000000000000000000000000000000000000000000000
	PUSH 0
	MSTORE
	PUSH 2
	PUSH 0
	REVERT
`)

var (
	origin   = common.HexToAddress("0x00000000000000000000000000000000000000aa")
	whoAddr  = common.HexToAddress("0x0000000000000000000000000000000010000001") // leading zero bytes on purpose
	revAddr  = common.HexToAddress("0xff000000000000000000000000000000000000b2")
	proxyA   = common.HexToAddress("0xc1")
	proxyB   = common.HexToAddress("0xc2")
	dproxyA  = common.HexToAddress("0xc3")
	emitA    = common.HexToAddress("0xc4")
	scriptA  = common.HexToAddress("0xc5")
	scriptB  = common.HexToAddress("0xc6")
	proxyRev = common.HexToAddress("0xc7")
)

func newCfg(t *testing.T) *runtime.Config {
	st, err := state.New(common.Hash{}, state.NewDatabase(rawdb.NewMemoryDatabase()), nil)
	if err != nil {
		t.Fatal(err)
	}
	st.SetCode(whoAddr, whoCode)
	st.SetCode(revAddr, revCode)
	st.SetCode(proxyA, Proxy(whoAddr))
	st.SetCode(proxyB, Proxy(proxyA))
	st.SetCode(dproxyA, DelegateProxy(whoAddr))
	st.SetCode(emitA, Emitter(2))
	st.SetCode(proxyRev, Proxy(revAddr))
	return &runtime.Config{State: st, Origin: origin, GasLimit: 5_000_000, Value: new(big.Int)}
}

func pad(a common.Address) []byte { return common.LeftPadBytes(a.Bytes(), 32) }

func TestProxyForwardsAsItself(t *testing.T) {
	cfg := newCfg(t)
	ret, _, err := runtime.Call(proxyA, []byte{1, 2, 3}, cfg)
	if err != nil {
		t.Fatal(err)
	}
	want := append(pad(proxyA), pad(whoAddr)...)
	if !bytes.Equal(ret, want) {
		t.Fatalf("proxy: got %x want %x", ret, want)
	}
	logs := cfg.State.Logs()
	if len(logs) != 1 || logs[0].Address != whoAddr || !bytes.Equal(logs[0].Data, want) {
		t.Fatalf("proxy logs: %+v", logs)
	}
	// nested: the direct caller of the target is the inner proxy
	cfg = newCfg(t)
	ret, _, err = runtime.Call(proxyB, nil, cfg)
	if err != nil || !bytes.Equal(ret, want) {
		t.Fatalf("nested proxy: %v %x", err, ret)
	}
}

func TestProxyBubblesRevert(t *testing.T) {
	cfg := newCfg(t)
	ret, _, err := runtime.Call(proxyRev, nil, cfg)
	if err == nil || !bytes.Equal(ret, []byte("no")) {
		t.Fatalf("revert not bubbled: err=%v ret=%x", err, ret)
	}
}

func TestDelegateProxyKeepsSenderAndSelf(t *testing.T) {
	cfg := newCfg(t)
	ret, _, err := runtime.Call(dproxyA, nil, cfg)
	if err != nil {
		t.Fatal(err)
	}
	want := append(pad(origin), pad(dproxyA)...)
	if !bytes.Equal(ret, want) {
		t.Fatalf("delegate proxy: got %x want %x", ret, want)
	}
	logs := cfg.State.Logs()
	if len(logs) != 1 || logs[0].Address != dproxyA {
		t.Fatalf("delegate proxy log address: %+v", logs)
	}
}

func TestEmitter(t *testing.T) {
	cfg := newCfg(t)
	t1, t2 := common.HexToHash("0x01"), common.HexToHash("0xff00000000000000000000000000000000000000000000000000000000000002")
	data := []byte("some data that is longer than one word .........")
	_, _, err := runtime.Call(emitA, EmitterInput([]common.Hash{t1, t2}, data), cfg)
	if err != nil {
		t.Fatal(err)
	}
	logs := cfg.State.Logs()
	if len(logs) != 1 || logs[0].Address != emitA || len(logs[0].Topics) != 2 || logs[0].Topics[0] != t1 || logs[0].Topics[1] != t2 || !bytes.Equal(logs[0].Data, data) {
		t.Fatalf("emitter: %+v", logs)
	}
}

func TestScript(t *testing.T) {
	cfg := newCfg(t)
	topic := common.HexToHash("0x00000000000000000000000000000000000000000000000000000000000000aa")
	inner := Script([]Op{{Kind: OpCall, Target: whoAddr}, {Kind: OpRevert}})
	cfg.State.SetCode(scriptB, inner)
	code := Script([]Op{
		{Kind: OpCall, Target: proxyA, Data: []byte{9}},
		{Kind: OpLog, Topics: []common.Hash{topic}, Data: []byte("0123456789012345678901234567890123456789")},
		{Kind: OpDelegateCall, Target: whoAddr},
		{Kind: OpCall, Target: scriptB, Try: true}, // inner frame logs, then reverts: dropped
		{Kind: OpCall, Target: whoAddr},
	})
	cfg.State.SetCode(scriptA, code)
	_, _, err := runtime.Call(scriptA, nil, cfg)
	if err != nil {
		t.Fatal(err)
	}
	logs := cfg.State.Logs()
	if len(logs) != 4 {
		t.Fatalf("script: %d logs", len(logs))
	}
	if logs[0].Address != whoAddr || !bytes.Equal(logs[0].Data[:32], pad(proxyA)) {
		t.Fatalf("log0 %+v", logs[0])
	}
	if logs[1].Address != scriptA || logs[1].Topics[0] != topic || string(logs[1].Data) != "0123456789012345678901234567890123456789" {
		t.Fatalf("log1 %+v", logs[1])
	}
	if logs[2].Address != scriptA || !bytes.Equal(logs[2].Data[:32], pad(origin)) {
		t.Fatalf("log2 %+v", logs[2])
	}
	if logs[3].Address != whoAddr || !bytes.Equal(logs[3].Data[:32], pad(scriptA)) {
		t.Fatalf("log3 %+v", logs[3])
	}
	// bubbling
	cfg = newCfg(t)
	cfg.State.SetCode(scriptB, inner)
	cfg.State.SetCode(scriptA, Script([]Op{{Kind: OpCall, Target: whoAddr}, {Kind: OpCall, Target: scriptB}}))
	if _, _, err := runtime.Call(scriptA, nil, cfg); err == nil {
		t.Fatalf("script did not bubble the revert")
	}
}

func TestInitCodeAndScriptAsInitCode(t *testing.T) {
	cfg := newCfg(t)
	rt := Proxy(whoAddr)
	_, addr, _, err := runtime.Create(InitCode(rt), cfg)
	if err != nil || !bytes.Equal(cfg.State.GetCode(addr), rt) {
		t.Fatalf("init code: %v", err)
	}
	cfg = newCfg(t)
	_, addr, _, err = runtime.Create(Script([]Op{{Kind: OpCall, Target: whoAddr}}), cfg)
	if err != nil {
		t.Fatal(err)
	}
	logs := cfg.State.Logs()
	if len(logs) != 1 || !bytes.Equal(logs[0].Data[:32], pad(addr)) || len(cfg.State.GetCode(addr)) != 0 {
		t.Fatalf("script as init code: %+v", logs)
	}
}
