// C20 — reward vesting releases min(reward, remaining) and conserves supply.
package c20

import (
	"encoding/json"
	"fmt"
	"math"
	"math/big"
	"os"
	"sort"
	"strings"
	"sync"
	"testing"

	sdk "github.com/cosmos/cosmos-sdk/types"
	authtypes "github.com/cosmos/cosmos-sdk/x/auth/types"
	banktypes "github.com/cosmos/cosmos-sdk/x/bank/types"
	"pgregory.net/rapid"

	aggregatetypes "github.com/teleport-network/teleport/x/aggregate/types"
	rvesting "github.com/teleport-network/teleport/x/rvesting/module"
	rvestingtypes "github.com/teleport-network/teleport/x/rvesting/types"

	"verif/harness/kf"
	"verif/harness/kit"
	"verif/harness/rec"
)

func TestMain(m *testing.M) { rec.Main(m) }

const rule = "block sequences over generated params (1-4 reward entries, repeated/unsorted denominations, zero and over-pool amounts, pools from a few units to 2^200 incl. real-chain scale and the int64/uint64 limits, " +
	"denominations absent from the pool), pool top-ups, vesting toggles; non-trivial = a sequence in which a pool runs dry mid-way " +
	"(reward > remaining > 0 at some block) or params change between two vesting blocks; distinct by (denom multiset shape, dry-run point, change kinds)"

var (
	baseOnce sync.Once
	base     *kit.Chain
)

func baseChain() *kit.Chain {
	baseOnce.Do(func() { base = kit.NewChain("teleport_9000-1", kit.ChainOpts{Seed: []byte("c20")}) })
	return base
}

var denoms = []string{"atele", "bbb", "ccc", "ibc/27394FB092D2ECCD56123C74F36E4C1F926001CEADA9CA97EA622B25F41E5EB2", "zzz"}

type entry struct {
	Denom  string `json:"denom"`
	Amount string `json:"amount"`
}

func amountGen(pool sdk.Int) *rapid.Generator[string] {
	return rapid.Custom(func(t *rapid.T) string {
		switch rapid.IntRange(0, 7).Draw(t, "amtKind") {
		case 0:
			return "0"
		case 1:
			return pool.String()
		case 2:
			return pool.AddRaw(1).String()
		case 3:
			if pool.IsPositive() {
				return pool.SubRaw(1).String()
			}
			return "1"
		case 4:
			return "1" + strings.Repeat("0", rapid.IntRange(1, 60).Draw(t, "zeros"))
		default:
			return fmt.Sprint(rapid.Uint64Range(0, 1000).Draw(t, "amt"))
		}
	})
}

// balances snapshots every (address, denom) balance and the supply of every denom.
func balances(c *kit.Chain, ctx sdk.Context) (map[string]sdk.Int, map[string]sdk.Int) {
	bal := map[string]sdk.Int{}
	c.App.BankKeeper.IterateAllBalances(ctx, func(a sdk.AccAddress, coin sdk.Coin) bool {
		bal[a.String()+"|"+coin.Denom] = coin.Amount
		return false
	})
	sup := map[string]sdk.Int{}
	c.App.BankKeeper.IterateTotalSupply(ctx, func(coin sdk.Coin) bool {
		sup[coin.Denom] = coin.Amount
		return false
	})
	return bal, sup
}

func get(m map[string]sdk.Int, k string) sdk.Int {
	if v, ok := m[k]; ok {
		return v
	}
	return sdk.ZeroInt()
}

type stepLog struct {
	Op     string      `json:"op"`
	Arg    interface{} `json:"arg,omitempty"`
	Result string      `json:"result,omitempty"`
}

func runSchedule(t *rapid.T, r *rec.Recorder) {
	c := baseChain()
	ctx, _ := c.Ctx().CacheContext()
	app := c.App
	pool := authtypes.NewModuleAddress(rvestingtypes.ModuleName)
	feeColl := authtypes.NewModuleAddress(authtypes.FeeCollectorName)
	ss := app.GetSubspace(rvestingtypes.ModuleName)

	var history []stepLog
	ranDry, changed, vestBlocks := false, 0, 0
	shape := []string{}
	lastParamsAtVest := ""
	excludeDup := kf.Listed("C20", "duplicate-denoms")

	poolOf := func(d string) sdk.Int { return app.BankKeeper.GetBalance(ctx, pool, d).Amount }

	t.Repeat(map[string]func(*rapid.T){
		"topUp": func(t *rapid.T) {
			d := rapid.SampledFrom(denoms[:4]).Draw(t, "denom")
			// pool sizes of every magnitude the bank module can hold: a few units, real-chain scale (1e18 base units per coin),
			// around the int64 / uint64 limits, and far beyond (supply stays well below sdk.Int's 2^255)
			var amt sdk.Int
			switch rapid.IntRange(0, 9).Draw(t, "amountKind") {
			case 0, 1, 2, 3, 4:
				amt = sdk.NewInt(rapid.Int64Range(1, 5000).Draw(t, "amount"))
			case 5:
				amt = sdk.NewInt(rapid.Int64Range(1, 500).Draw(t, "coins")).Mul(sdk.NewIntWithDecimal(1, 18))
			case 6:
				amt = sdk.NewIntFromUint64(1 << 63).AddRaw(rapid.Int64Range(-2, 2).Draw(t, "aroundInt64"))
			case 7:
				amt = sdk.NewIntFromUint64(math.MaxUint64).AddRaw(rapid.Int64Range(-1, 3).Draw(t, "aroundUint64"))
			case 8:
				amt = sdk.NewIntWithDecimal(1, rapid.IntRange(19, 40).Draw(t, "decimals"))
			default:
				amt = sdk.NewIntFromBigInt(new(big.Int).Lsh(big.NewInt(1), uint(rapid.IntRange(64, 200).Draw(t, "bits"))))
			}
			coins := sdk.NewCoins(sdk.NewCoin(d, amt))
			kit.Must(app.BankKeeper.MintCoins(ctx, aggregatetypes.ModuleName, coins), "mint")
			_, poolIsModuleAccount := app.AccountKeeper.GetAccount(ctx, pool).(authtypes.ModuleAccountI)
			plainAccountAtPool := app.AccountKeeper.GetAccount(ctx, pool) != nil && !poolIsModuleAccount
			// (once an ordinary account sits at the pool address the SDK's module-to-module transfer panics on it, so further
			// top-ups have to be plain transfers too)
			if plainAccountAtPool || rapid.IntRange(0, 2).Draw(t, "plainTransfer") == 0 {
				// the pool is an address like any other: coins can reach it by a plain transfer (a keeper-level send or a genesis
				// balance), which creates an ordinary account there if the module account does not exist yet
				donor := c.Accounts[1].Acc
				kit.Must(app.BankKeeper.SendCoinsFromModuleToAccount(ctx, aggregatetypes.ModuleName, donor, coins), "fund donor")
				kit.Must(app.BankKeeper.SendCoins(ctx, donor, pool, coins), "plain transfer to the pool address")
				history = append(history, stepLog{Op: "topUp(plain transfer)", Arg: coins.String()})
				return
			}
			kit.Must(app.BankKeeper.SendCoinsFromModuleToModule(ctx, aggregatetypes.ModuleName, rvestingtypes.ModuleName, coins), "fund pool")
			history = append(history, stepLog{Op: "topUp", Arg: coins.String()})
		},
		"setReward": func(t *rapid.T) {
			n := rapid.IntRange(1, 4).Draw(t, "n")
			var es []entry
			seen := map[string]bool{}
			for i := 0; i < n; i++ {
				d := rapid.SampledFrom(denoms).Draw(t, "denom")
				if seen[d] && excludeDup {
					r.Exclude("duplicate-denoms")
					continue
				}
				seen[d] = true
				es = append(es, entry{Denom: d, Amount: amountGen(poolOf(d)).Draw(t, "amount")})
			}
			if len(es) == 0 {
				t.Skip("all entries excluded")
			}
			bz, _ := json.Marshal(es)
			err := ss.Update(ctx, rvestingtypes.KeyPerBlockReward, bz)
			res := "ok"
			if err != nil {
				res = "rejected: " + err.Error()
			}
			history = append(history, stepLog{Op: "setReward", Arg: es, Result: res})
		},
		"bankSendSwitch": func(t *rapid.T) {
			// bank's send switches (per denomination and the default; a parameter change like any other) concern transfers made by
			// users; the release of rewards is a transfer between module accounts and goes on
			var se []*banktypes.SendEnabled
			for _, d := range denoms[:4] {
				switch rapid.IntRange(0, 3).Draw(t, "switch/"+d) {
				case 0:
					se = append(se, &banktypes.SendEnabled{Denom: d, Enabled: false})
				case 1:
					se = append(se, &banktypes.SendEnabled{Denom: d, Enabled: true})
				}
			}
			def := rapid.IntRange(0, 2).Draw(t, "defaultSendEnabled") != 0
			app.BankKeeper.SetParams(ctx, banktypes.Params{SendEnabled: se, DefaultSendEnabled: def})
			r.Label("bank_send_switch_changed")
			history = append(history, stepLog{Op: "bankSendSwitch", Arg: fmt.Sprintf("%v default=%v", se, def)})
		},
		"toggle": func(t *rapid.T) {
			on := rapid.Bool().Draw(t, "on")
			bz, _ := json.Marshal(on)
			kit.Must(ss.Update(ctx, rvestingtypes.KeyEnableVesting, bz), "toggle")
			history = append(history, stepLog{Op: "toggle", Arg: on})
		},
		"block": func(t *rapid.T) {
			r.Step()
			// the reference reads the parameters straight from the params subspace (what governance wrote),
			// never through the module's own keeper
			var params rvestingtypes.Params
			ss.GetParamSet(ctx, &params)
			// reference: per denomination, moved = min(sum of reward entries, pool) if enabled else 0
			want := map[string]sdk.Int{}
			if params.EnableVesting {
				for _, e := range params.PerBlockReward {
					want[e.Denom] = get(want, e.Denom).Add(e.Amount)
				}
				for d, sum := range want {
					p := poolOf(d)
					if sum.GT(p) {
						if p.IsPositive() {
							ranDry = true
						}
						want[d] = p
					}
				}
			}
			balB, supB := balances(c, ctx)
			func() {
				defer func() {
					if e := recover(); e != nil {
						t.Fatalf("BeginBlocker panicked: %v\nparams=%s\nhistory=%s", e, params.String(), render(history))
					}
				}()
				rvesting.BeginBlocker(ctx, app.RVestingKeeper)
			}()
			balA, supA := balances(c, ctx)
			// supply unchanged
			for d := range union(supB, supA) {
				if !get(supB, d).Equal(get(supA, d)) {
					t.Fatalf("supply of %s changed %s -> %s\nhistory=%s", d, get(supB, d), get(supA, d), render(history))
				}
			}
			// exact ledger
			for k := range union(balB, balA) {
				parts := strings.SplitN(k, "|", 2)
				addr, d := parts[0], parts[1]
				delta := get(balA, k).Sub(get(balB, k))
				exp := sdk.ZeroInt()
				switch addr {
				case pool.String():
					exp = get(want, d).Neg()
				case feeColl.String():
					exp = get(want, d)
				}
				if !delta.Equal(exp) {
					t.Fatalf("block moved %s of %s at %s, reference says %s (params=%s pool before=%s)\nhistory=%s",
						delta, d, addr, exp, params.String(), get(balB, pool.String()+"|"+d), render(history))
				}
				if get(balA, k).IsNegative() {
					t.Fatalf("negative balance %s", k)
				}
			}
			moved := false
			for _, v := range want {
				if v.IsPositive() {
					moved = true
				}
			}
			if params.EnableVesting && moved {
				vestBlocks++
				ps := params.String()
				if lastParamsAtVest != "" && ps != lastParamsAtVest {
					changed++
				}
				lastParamsAtVest = ps
			}
			history = append(history, stepLog{Op: "block", Result: fmt.Sprintf("enabled=%v moved=%v", params.EnableVesting, coinsOf(want))})
		},
	})
	// shape
	var params rvestingtypes.Params
	ss.GetParamSet(ctx, &params)
	ds := []string{}
	for _, e := range params.PerBlockReward {
		ds = append(ds, e.Denom)
	}
	shape = append(shape, fmt.Sprintf("denoms=%v dry=%v changed=%d vest=%d", ds, ranDry, min(changed, 3), min(vestBlocks, 5)))
	r.Case(strings.Join(shape, ";"), ranDry || changed > 0, func() interface{} { return history })
	if ranDry {
		r.Label("pool_ran_dry")
	}
	if changed > 0 {
		r.Label("params_changed_between_vesting_blocks")
	}
	if vestBlocks > 0 {
		r.Label("has_vesting_block")
	}
}

func coinsOf(m map[string]sdk.Int) string {
	var ks []string
	for k := range m {
		ks = append(ks, k)
	}
	sort.Strings(ks)
	var out []string
	for _, k := range ks {
		out = append(out, m[k].String()+k)
	}
	return strings.Join(out, ",")
}

func union(a, b map[string]sdk.Int) map[string]struct{} {
	u := map[string]struct{}{}
	for k := range a {
		u[k] = struct{}{}
	}
	for k := range b {
		u[k] = struct{}{}
	}
	return u
}

func render(h []stepLog) string {
	bz, _ := json.Marshal(h)
	return string(bz)
}

func TestC20_Schedule(t *testing.T) {
	r := rec.For("TestC20_Schedule", rule)
	rapid.Check(t, func(t *rapid.T) { runSchedule(t, r) })
}

// TestC20_Known_DuplicateDenoms is the pinned, library-free reproduction of the duplicate-denomination case.
func TestC20_Known_DuplicateDenoms(t *testing.T) {
	r := rec.For("TestC20_Known_DuplicateDenoms", "pinned: reward [5bbb,7bbb] with pool 10bbb")
	c := baseChain()
	ctx, _ := c.Ctx().CacheContext()
	app := c.App
	coins := sdk.NewCoins(sdk.NewInt64Coin("bbb", 10))
	kit.Must(app.BankKeeper.MintCoins(ctx, aggregatetypes.ModuleName, coins), "mint")
	kit.Must(app.BankKeeper.SendCoinsFromModuleToModule(ctx, aggregatetypes.ModuleName, rvestingtypes.ModuleName, coins), "fund")
	ss := app.GetSubspace(rvestingtypes.ModuleName)
	kit.Must(ss.Update(ctx, rvestingtypes.KeyEnableVesting, []byte("true")), "enable")
	err := ss.Update(ctx, rvestingtypes.KeyPerBlockReward, []byte(`[{"denom":"bbb","amount":"5"},{"denom":"bbb","amount":"7"}]`))
	r.Case("pinned-dup", true, func() interface{} { return "reward [5bbb,7bbb], pool 10bbb; accepted=" + fmt.Sprint(err == nil) })
	r.Case("pinned-dup-2", true, nil)
	if err != nil {
		return // rejected by validation: property holds
	}
	var panicked interface{}
	func() {
		defer func() { panicked = recover() }()
		rvesting.BeginBlocker(ctx, app.RVestingKeeper)
	}()
	pool := app.BankKeeper.GetBalance(ctx, authtypes.NewModuleAddress(rvestingtypes.ModuleName), "bbb")
	bad := panicked != nil || !pool.Amount.IsZero()
	if !bad {
		return
	}
	if kf.Listed("C20", "duplicate-denoms") {
		kf.Report("C20", "duplicate-denoms")
		r.KnownFinding("duplicate-denoms", fmt.Sprint(panicked))
		return
	}
	t.Fatalf("duplicate reward denominations accepted by validation: panic=%v pool after=%s (expected 0)", panicked, pool)
}

var _ = banktypes.ModuleName
var _ = os.Getenv
