package c10

// Non-Rinkeby part of C10: the ten recorded main-net headers (the only proof-of-work-valid material;
// one ethash verification costs about 4 s) as positives, and mutated seal / difficulty / rule fields
// of the same headers as negatives, against a client with ChainId 1.

import (
	"encoding/json"
	"fmt"
	"math/big"
	"os"
	"strings"
	"sync"
	"testing"

	sdk "github.com/cosmos/cosmos-sdk/types"
	"github.com/ethereum/go-ethereum/common"
	gethtypes "github.com/ethereum/go-ethereum/core/types"
	"pgregory.net/rapid"

	"verif/harness/kf"
	"verif/harness/kit"
	"verif/harness/rec"
	"verif/harness/sim/ethsim"
)

// recorded mirrors the JSON shape of the repository's testdata (difficulty and base fee as numbers,
// extra data base64); decoding uses go-ethereum's own types, not the client's.
type recorded struct {
	ParentHash  common.Hash          `json:"parentHash"`
	UncleHash   common.Hash          `json:"sha3Uncles"`
	Coinbase    common.Address       `json:"miner"`
	Root        common.Hash          `json:"stateRoot"`
	TxHash      common.Hash          `json:"transactionsRoot"`
	ReceiptHash common.Hash          `json:"receiptsRoot"`
	Bloom       gethtypes.Bloom      `json:"logsBloom"`
	Difficulty  *big.Int             `json:"difficulty"`
	Number      *big.Int             `json:"number"`
	GasLimit    uint64               `json:"gasLimit"`
	GasUsed     uint64               `json:"gasUsed"`
	Time        uint64               `json:"timestamp"`
	Extra       []byte               `json:"extraData"`
	MixDigest   common.Hash          `json:"mixHash"`
	Nonce       gethtypes.BlockNonce `json:"nonce"`
	BaseFee     *big.Int             `json:"baseFeePerGas"`
}

var (
	mainOnce    sync.Once
	mainHeaders []*gethtypes.Header
)

// mainnet loads the recorded segment and validates it independently of the client: consecutive
// numbers, go-ethereum hash links, and the reference time / gas-limit / base-fee rules.
func mainnet() []*gethtypes.Header {
	mainOnce.Do(func() {
		bz, err := os.ReadFile("testdata/mainnet_headers.json")
		kit.Must(err, "read recorded main-net headers")
		var rs []recorded
		kit.Must(json.Unmarshal(bz, &rs), "decode recorded main-net headers")
		for _, r := range rs {
			mainHeaders = append(mainHeaders, &gethtypes.Header{
				ParentHash: r.ParentHash, UncleHash: r.UncleHash, Coinbase: r.Coinbase, Root: r.Root, TxHash: r.TxHash,
				ReceiptHash: r.ReceiptHash, Bloom: r.Bloom, Difficulty: r.Difficulty, Number: r.Number, GasLimit: r.GasLimit,
				GasUsed: r.GasUsed, Time: r.Time, Extra: r.Extra, MixDigest: r.MixDigest, Nonce: r.Nonce, BaseFee: r.BaseFee,
			})
		}
		if len(mainHeaders) != 10 {
			kit.Failf("expected 10 recorded headers, have %d", len(mainHeaders))
		}
		for i := 1; i < len(mainHeaders); i++ {
			p, h := mainHeaders[i-1], mainHeaders[i]
			if h.ParentHash != p.Hash() || h.Number.Uint64() != p.Number.Uint64()+1 {
				kit.Failf("recorded header %d does not link to its predecessor", i)
			}
			if re := ethsim.CheckRules(p, h, h.Time); re != nil {
				kit.Failf("recorded header %d breaks the reference rules: %v", i, re)
			}
		}
	})
	return mainHeaders
}

func cp(h *gethtypes.Header) *gethtypes.Header { return gethtypes.CopyHeader(h) }

// mainClient creates a ChainId-1 client at header at on a fresh branch of the base chain, with the
// block time a few seconds after the next header's time.
func mainClient(at, next *gethtypes.Header) (*kit.Chain, sdk.Context) {
	c := baseChain()
	ctx, _ := c.Ctx().CacheContext()
	w := &world{ctx: ctx}
	w.setNow(next.Time + 5)
	kit.Must(c.App.XIBCKeeper.ClientKeeper.CreateClient(w.ctx, clientName, ethsim.ClientState(at, 1, trustingPeriod), ethsim.ConsensusState(at)), "create main-net client")
	return c, w.ctx
}

func tierCount() int {
	if os.Getenv("VERIF_TIER") == "thorough" {
		return 9
	}
	return 1
}

// TestC10_MainnetAccept: the recorded headers are accepted one after the other (1 in quick, all 9 in
// thorough); each becomes the head and the ancestry's consensus states carry the ancestors' roots.
func TestC10_MainnetAccept(t *testing.T) {
	r := rec.For("TestC10_MainnetAccept", "recorded main-net headers 13286182.. fed in order to a ChainId-1 client created at 13286181 (full ethash verification)")
	hs := mainnet()
	c, ctx := mainClient(hs[0], hs[1])
	tree := ethsim.NewTree(hs[0])
	head := 0
	for i := 1; i <= tierCount(); i++ {
		ctx = ctx.WithBlockTime(timeOf(hs[i].Time + 5))
		if err := update(c, ctx, hs[i]); err != nil {
			t.Fatalf("recorded main-net header %d (PoW-valid, child of the head) rejected: %v", hs[i].Number, err)
		}
		head, _ = tree.Add(head, hs[i])
		if msg := checkHeadAndAncestry(c, ctx, tree, head); msg != "" {
			t.Fatalf("after main-net header %d: %s", hs[i].Number, msg)
		}
		r.Step()
		r.Label("mainnet_pow_header_accepted")
		n := hs[i].Number.Uint64()
		r.Case(fmt.Sprintf("pow-accept-%d", n), true, func() interface{} { return fmt.Sprintf("main-net header %d accepted with full seal check", n) })
	}
}

// sealNegative feeds header k with a mutated seal field to a client created at header k-1.
func sealNegative(t *testing.T, r *rec.Recorder, field string, mut func(h *gethtypes.Header)) {
	hs := mainnet()
	for k := 1; k <= tierCount(); k++ {
		c, ctx := mainClient(hs[k-1], hs[k])
		h := cp(hs[k])
		mut(h)
		before := c.DumpStores(ctx, "xibc")
		err := update(c, ctx, h)
		if err == nil {
			t.Fatalf("main-net header %d with mutated %s accepted by a ChainId-1 client (seal not checked?)", h.Number, field)
		}
		if d := kit.Diff(before, c.DumpStores(ctx, "xibc")); len(d) > 0 {
			t.Fatalf("rejected header changed the client store:\n%s", kit.DiffString(d, 5))
		}
		r.Step()
		r.Label("mainnet_rejected_mutated_" + field)
		n := h.Number.Uint64()
		r.Case(fmt.Sprintf("pow-%s-%d", field, n), true, func() interface{} {
			return fmt.Sprintf("main-net header %d with mutated %s rejected: %s", n, field, firstLine(err.Error()))
		})
	}
}

func TestC10_MainnetSealNonce(t *testing.T) {
	r := rec.For("TestC10_MainnetSealNonce", "recorded header with nonce+1 (everything else intact) must be rejected; positive control = TestC10_MainnetAccept")
	sealNegative(t, r, "nonce", func(h *gethtypes.Header) { h.Nonce = gethtypes.EncodeNonce(h.Nonce.Uint64() + 1) })
}

func TestC10_MainnetSealMixDigest(t *testing.T) {
	r := rec.For("TestC10_MainnetSealMixDigest", "recorded header with one mix-digest bit flipped must be rejected; positive control = TestC10_MainnetAccept")
	sealNegative(t, r, "mix_digest", func(h *gethtypes.Header) { h.MixDigest[31] ^= 1 })
}

// TestC10_MainnetFields: single-field mutations of recorded headers that are decided before the seal
// (difficulty, time, gas limit, base fee, parent hash, height) — all must be rejected, store unchanged.
func TestC10_MainnetFields(t *testing.T) {
	r := rec.For("TestC10_MainnetFields", "single-field mutations (difficulty +-, time, gas limit, base fee, parent hash, height) of recorded main-net headers against a ChainId-1 client created at the predecessor; distinct by (header, class)")
	hs := mainnet()
	classes := []string{"difficulty_plus_1", "difficulty_minus_1", "difficulty_other", "time_eq_parent", "time_future",
		"gas_limit_at_bound_up", "gas_limit_at_bound_down", "base_fee_plus_1", "base_fee_minus_1", "parent_hash_random", "height_plus_1", "height_minus_1"}
	rapid.Check(t, func(t *rapid.T) {
		k := rapid.IntRange(1, 9).Draw(t, "header")
		class := rapid.SampledFrom(classes).Draw(t, "class")
		c, ctx := mainClient(hs[k-1], hs[k])
		p, h := hs[k-1], cp(hs[k])
		one := big.NewInt(1)
		switch class {
		case "difficulty_plus_1":
			h.Difficulty = new(big.Int).Add(h.Difficulty, one)
		case "difficulty_minus_1":
			h.Difficulty = new(big.Int).Sub(h.Difficulty, one)
		case "difficulty_other":
			h.Difficulty = new(big.Int).SetUint64(rapid.Uint64Range(1, 1<<62).Draw(t, "difficulty"))
			if h.Difficulty.Cmp(hs[k].Difficulty) == 0 {
				t.Skip("same difficulty")
			}
		case "time_eq_parent":
			h.Time = p.Time
		case "time_future":
			h.Time = hs[k].Time + 5 + ethsim.AllowedFuture + uint64(rapid.IntRange(1, 1000).Draw(t, "ahead"))
		case "gas_limit_at_bound_up":
			h.GasLimit = p.GasLimit + p.GasLimit/1024
		case "gas_limit_at_bound_down":
			h.GasLimit = p.GasLimit - p.GasLimit/1024
			if h.GasUsed > h.GasLimit {
				t.Skip("would break gasUsed <= gasLimit as well")
			}
		case "base_fee_plus_1":
			h.BaseFee = new(big.Int).Add(h.BaseFee, one)
		case "base_fee_minus_1":
			h.BaseFee = new(big.Int).Sub(h.BaseFee, one)
		case "parent_hash_random":
			h.ParentHash = common.BytesToHash(rapid.SliceOfN(rapid.Byte(), 32, 32).Draw(t, "hash"))
		case "height_plus_1":
			h.Number = new(big.Int).Add(h.Number, one)
		case "height_minus_1":
			h.Number = new(big.Int).Sub(h.Number, one)
		}
		before := c.DumpStores(ctx, "xibc")
		err := update(c, ctx, h)
		if err == nil {
			t.Fatalf("main-net header %d with %s accepted by a ChainId-1 client", hs[k].Number, class)
		}
		if d := kit.Diff(before, c.DumpStores(ctx, "xibc")); len(d) > 0 {
			t.Fatalf("rejected header changed the client store:\n%s", kit.DiffString(d, 5))
		}
		r.Step()
		r.Label("mainnet_rejected_" + class)
		r.Case(fmt.Sprintf("%d/%s", k, class), true, func() interface{} {
			return fmt.Sprintf("main-net header %d with %s rejected: %s", hs[k].Number, class, firstLine(err.Error()))
		})
	})
}

// TestC10_Known_RestrictChainNonHeadBranch is the pinned, library-free reproduction of the
// RestrictChain defect: P -> A, P -> B (B is the head), then a valid child of A.
func TestC10_Known_RestrictChainNonHeadBranch(t *testing.T) {
	r := rec.For("TestC10_Known_RestrictChainNonHeadBranch", "pinned: creation header P, children A then B accepted (head B), then a valid child C of the stored header A")
	c := baseChain()
	ctx, _ := c.Ctx().CacheContext()
	w := &world{ctx: ctx}
	w.setNow(startNow)
	ctx = w.ctx
	rootA, rootB, rootC := common.BytesToHash([]byte{0xa}), common.BytesToHash([]byte{0xb}), common.BytesToHash([]byte{0xc})
	p := ethsim.Genesis(ethsim.GenesisOpts{Number: 100, Time: startNow - 1000, GasLimit: 30_000_000, GasUsed: 15_000_000, BaseFee: 1_000_000_000, Root: common.BytesToHash([]byte{0x1})})
	a := ethsim.Child(p, ethsim.ChildOpts{DT: 10, GasUsedPermil: 500, Root: rootA, Extra: []byte("A")})
	b := ethsim.Child(p, ethsim.ChildOpts{DT: 11, GasUsedPermil: 500, Root: rootB, Extra: []byte("B")})
	cc := ethsim.Child(a, ethsim.ChildOpts{DT: 10, GasUsedPermil: 500, Root: rootC, Extra: []byte("C")})
	kit.Must(c.App.XIBCKeeper.ClientKeeper.CreateClient(ctx, clientName, ethsim.ClientState(p, 4, trustingPeriod), ethsim.ConsensusState(p)), "create client")
	kit.Must(update(c, ctx, a), "A (child of the creation header)")
	kit.Must(update(c, ctx, b), "B (sibling of the head)")
	err := update(c, ctx, cc)
	r.Case("pinned-nonhead-child", true, func() interface{} {
		return fmt.Sprintf("P(100) -> A, P -> B accepted; child C of A: err=%v", err)
	})
	r.Case("pinned-nonhead-child-2", true, nil)
	if err == nil {
		// no longer rejected: then the rest of the property must hold (a different failure here is NOT the listed finding)
		tree := ethsim.NewTree(p)
		ida, _ := tree.Add(0, a)
		tree.Add(0, b)
		idc, _ := tree.Add(ida, cc)
		if msg := checkHeadAndAncestry(c, ctx, tree, idc); msg != "" {
			t.Fatalf("child C of stored header A accepted (P -> A, P -> B, head B, then C) but: %s", msg)
		}
		return // no longer reproduces
	}
	bad := "valid child C of stored header A rejected: " + firstLine(err.Error())
	if kf.Listed("C10", kfNonHead) {
		kf.Report("C10", kfNonHead)
		r.KnownFinding(kfNonHead, bad)
		return
	}
	t.Fatalf("%s (history: creation header P at height 100; A=child(P) accepted; B=child(P) accepted, head=B; C=child(A) submitted)", bad)
}

// TestC10_Known_RestrictChainEqualRootStaleAncestry is the pinned, library-free reproduction of the second
// manifestation: B=child(P) accepted, then A=child(P), A2, A3 (head A3, B off the head's ancestry);
// C=child(B) whose state root equals A2's (same height) is accepted but the consensus state one
// height below keeps A's root instead of B's.
func TestC10_Known_RestrictChainEqualRootStaleAncestry(t *testing.T) {
	r := rec.For("TestC10_Known_RestrictChainEqualRootStaleAncestry", "pinned: P; B, A, A2, A3 accepted (head A3); C=child(B) with C.root == A2.root")
	c := baseChain()
	ctx, _ := c.Ctx().CacheContext()
	w := &world{ctx: ctx}
	w.setNow(startNow)
	ctx = w.ctx
	root := func(b byte) common.Hash { return common.BytesToHash([]byte{b}) }
	p := ethsim.Genesis(ethsim.GenesisOpts{Number: 100, Time: startNow - 1000, GasLimit: 30_000_000, GasUsed: 15_000_000, BaseFee: 1_000_000_000, Root: root(1)})
	a := ethsim.Child(p, ethsim.ChildOpts{DT: 10, GasUsedPermil: 500, Root: root(0xa), Extra: []byte("A")})
	a2 := ethsim.Child(a, ethsim.ChildOpts{DT: 10, GasUsedPermil: 500, Root: root(0xee), Extra: []byte("A2")})
	a3 := ethsim.Child(a2, ethsim.ChildOpts{DT: 10, GasUsedPermil: 500, Root: root(0xa3), Extra: []byte("A3")})
	b := ethsim.Child(p, ethsim.ChildOpts{DT: 11, GasUsedPermil: 500, Root: root(0xb), Extra: []byte("B")})
	cc := ethsim.Child(b, ethsim.ChildOpts{DT: 10, GasUsedPermil: 500, Root: root(0xee), Extra: []byte("C")})
	kit.Must(c.App.XIBCKeeper.ClientKeeper.CreateClient(ctx, clientName, ethsim.ClientState(p, 4, trustingPeriod), ethsim.ConsensusState(p)), "create client")
	kit.Must(update(c, ctx, b), "B (child of the creation header)")
	kit.Must(update(c, ctx, a), "A (sibling of the head)")
	kit.Must(update(c, ctx, a2), "A2 (child of the head)")
	kit.Must(update(c, ctx, a3), "A3 (child of the head)")
	err := update(c, ctx, cc)
	tree := ethsim.NewTree(p)
	idb, _ := tree.Add(0, b)
	idc, _ := tree.Add(idb, cc)
	msg := ""
	if err == nil {
		msg = checkHeadAndAncestry(c, ctx, tree, idc)
	}
	r.Case("pinned-equal-root", true, func() interface{} {
		return fmt.Sprintf("P(100); B, A, A2(root ee), A3 accepted; C=child(B) with root ee: err=%v; %s", err, msg)
	})
	r.Case("pinned-equal-root-2", true, nil)
	if err != nil {
		// rejected: that is the other manifestation (restrictchain-nonhead-branch), pinned by its own test
		if kf.Listed("C10", kfNonHead) {
			return
		}
		t.Fatalf("valid child C of stored header B rejected: %s", firstLine(err.Error()))
	}
	if msg == "" {
		return // no longer reproduces
	}
	if kf.Listed("C10", kfEqualRoot) && strings.HasPrefix(msg, "consensus state at height 101 ") {
		kf.Report("C10", kfEqualRoot)
		r.KnownFinding(kfEqualRoot, msg)
		return
	}
	t.Fatalf("C=child(B) accepted (history: P at 100; B, A, A2, A3 accepted, head A3; C.root == A2.root) but: %s", msg)
}
