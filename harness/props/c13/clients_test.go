package c13

import (
	"crypto/sha256"
	"fmt"
	"math"
	"math/big"
	"sync"
	"time"

	"github.com/ethereum/go-ethereum/common"
	gethtypes "github.com/ethereum/go-ethereum/core/types"
	"github.com/tendermint/tendermint/crypto/tmhash"
	tmtypes "github.com/tendermint/tendermint/types"

	sdk "github.com/cosmos/cosmos-sdk/types"

	bsctypes "github.com/teleport-network/teleport/x/xibc/clients/light-clients/bsc/types"
	ethtypes "github.com/teleport-network/teleport/x/xibc/clients/light-clients/eth/types"
	xibctmtypes "github.com/teleport-network/teleport/x/xibc/clients/light-clients/tendermint/types"
	tsstypes "github.com/teleport-network/teleport/x/xibc/clients/tss-client/types"
	clienttypes "github.com/teleport-network/teleport/x/xibc/core/client/types"
	commitmenttypes "github.com/teleport-network/teleport/x/xibc/core/commitment/types"
	"github.com/teleport-network/teleport/x/xibc/core/host"
	"github.com/teleport-network/teleport/x/xibc/exported"

	"verif/harness/kit"
	"verif/harness/sim/bscsim"
	"verif/harness/sim/ethsim"
	"verif/harness/sim/tmsim"
)

const (
	tTM  = exported.Tendermint
	tBSC = exported.BSC
	tETH = exported.ETH
	tTSS = exported.TSS
)

// clientPlan is the abstract description of one light client of a generated state.
type clientPlan struct {
	Name    string
	Type    string
	Rev     uint64   // revision number of the creation height
	H0      uint64   // revision height the client is created at
	UpdRevs []uint64 // one real update per entry (heights H0+1, H0+2, …) carrying this revision number
	// Extra are consensus heights written through SetClientConsensusState plus the metadata the client
	// type's update code writes (heights a consecutive real update run cannot reach).
	Extra []clienttypes.Height
	Vals  int // TM / BSC validator count
}

// heights lists every consensus height the plan stores (TSS: none).
func (p clientPlan) heights() []clienttypes.Height {
	if p.Type == tTSS {
		return nil
	}
	hs := []clienttypes.Height{clienttypes.NewHeight(p.Rev, p.H0)}
	for i, r := range p.UpdRevs {
		hs = append(hs, clienttypes.NewHeight(r, p.H0+uint64(i)+1))
	}
	return append(hs, p.Extra...)
}

func (p clientPlan) String() string {
	s := fmt.Sprintf("%s[%s]", p.Name, p.Type)
	if p.Type == tTSS {
		return s
	}
	s += " create@" + hstr(clienttypes.NewHeight(p.Rev, p.H0))
	for i, r := range p.UpdRevs {
		s += " upd@" + hstr(clienttypes.NewHeight(r, p.H0+uint64(i)+1))
	}
	for _, h := range p.Extra {
		s += " set@" + hstr(h)
	}
	return s
}

var (
	keyMu    sync.Mutex
	tmKeys   = map[int]tmsim.Key{}
	bscKeys  = map[int]bscsim.Key{}
	tmChains = 0
)

func tmKey(i int) tmsim.Key {
	keyMu.Lock()
	defer keyMu.Unlock()
	k, ok := tmKeys[i]
	if !ok {
		k = tmsim.NewKey([]byte(fmt.Sprint("c13-", i)))
		tmKeys[i] = k
	}
	return k
}

func bscKey(i int) bscsim.Key {
	keyMu.Lock()
	defer keyMu.Unlock()
	k, ok := bscKeys[i]
	if !ok {
		k = bscsim.KeyFromSeed([]byte("c13"), i)
		bscKeys[i] = k
	}
	return k
}

// env is the state under construction: a cache branch of the base chain.
type env struct {
	c   *kit.Chain
	ctx sdk.Context
}

func (e *env) ck() clientKeeperT { return e.c.App.XIBCKeeper.ClientKeeper }

func rootFor(tag string, h uint64) []byte {
	s := sha256.Sum256([]byte(fmt.Sprintf("%s/%d", tag, h)))
	return s[:]
}

// ---------------------------------------------------------------------------------------------
// Tendermint

func tmChainID(p clientPlan, idx int) string {
	if p.Rev == 0 {
		return fmt.Sprintf("simchain%d", idx)
	}
	return fmt.Sprintf("sim%d-%d", idx, p.Rev)
}

func (e *env) createTM(p clientPlan, idx int) {
	chainID := tmChainID(p, idx)
	now := e.ctx.BlockTime()
	t0 := now.Add(-time.Duration(len(p.UpdRevs)+5) * time.Second)
	nv := p.Vals
	if nv < 1 {
		nv = 1
	}
	keys := make([]tmsim.Key, nv)
	members := make([]tmsim.Member, nv)
	for i := range keys {
		keys[i] = tmKey(i)
		members[i] = tmsim.Member{Key: i, Power: int64(10 - i)}
	}
	cs := xibctmtypes.NewClientState(chainID, xibctmtypes.DefaultTrustLevel, kit.TrustingPeriod, kit.UnbondingPeriod, kit.MaxClockDrift,
		clienttypes.NewHeight(p.Rev, p.H0), commitmenttypes.GetSDKSpecs(), commitmenttypes.MerklePrefix{KeyPrefix: []byte("xibc")}, 0)
	mustReachable(cs.Validate(), "tm client state")
	var sim *tmsim.Chain
	var cons *xibctmtypes.ConsensusState
	if p.H0 <= math.MaxInt64 {
		sim = tmsim.NewChain(chainID, keys, int64(p.H0), t0, members, members, nil)
		b := sim.Blocks[int64(p.H0)]
		cons = &xibctmtypes.ConsensusState{Timestamp: b.Time, Root: b.AppHash, NextValidatorsHash: b.NextVals.Hash()}
	} else {
		// a Tendermint chain cannot be at a height above 2^63-1; the client keeper and the proposal
		// validation accept such a client state all the same (create-only)
		if len(p.UpdRevs) > 0 {
			kit.Failf("tm plan with updates above int64: %v", p)
		}
		cons = &xibctmtypes.ConsensusState{Timestamp: t0, Root: rootFor("tm", p.H0), NextValidatorsHash: tmhash.Sum([]byte("vals"))}
	}
	kit.Must(cons.ValidateBasic(), "tm consensus state")
	kit.Must(e.ck().CreateClient(e.ctx, p.Name, cs, cons), "create TM client "+p.String())
	trusted := clienttypes.NewHeight(p.Rev, p.H0)
	for i, r := range p.UpdRevs {
		if r != p.Rev {
			kit.Failf("tm updates keep the revision: %v", p)
		}
		b := sim.Produce(t0.Add(time.Duration(i+1)*time.Second), members, nil)
		hdr := b.Header
		modes := make([]tmsim.SigMode, len(b.Vals.Validators))
		for j := range modes {
			modes[j] = tmsim.SigCommit
		}
		commit := sim.MakeCommit(&hdr, b.Vals, tmsim.CommitSpec{Round: 1, Parts: tmtypes.PartSetHeader{Total: 3, Hash: tmhash.Sum([]byte("part_set"))},
			Modes: modes, SigTime: hdr.Time})
		msg := tmsim.Assemble(&hdr, commit, b.Vals, trusted, sim.Blocks[int64(trusted.RevisionHeight)].NextVals)
		kit.Must(e.ck().UpdateClient(e.ctx, p.Name, msg), "update TM client "+p.String())
		trusted = clienttypes.NewHeight(p.Rev, uint64(b.Height))
	}
	store := e.ck().ClientStore(e.ctx, p.Name)
	for _, h := range p.Extra {
		// what tendermint update() + the keeper write for an accepted header at h
		c := &xibctmtypes.ConsensusState{Timestamp: t0, Root: rootFor("tm", h.RevisionHeight), NextValidatorsHash: tmhash.Sum([]byte("vals"))}
		kit.Must(c.ValidateBasic(), "tm extra consensus state")
		e.ck().SetClientConsensusState(e.ctx, p.Name, h, c)
		xibctmtypes.SetProcessedTime(store, h, uint64(e.ctx.BlockTime().UnixNano()))
		xibctmtypes.SetIterationKey(store, h)
	}
}

// ---------------------------------------------------------------------------------------------
// BSC

const bscChainID = 56

func bscVals(n int) ([]bscsim.Key, []common.Address) {
	keys := make([]bscsim.Key, n)
	addrs := make([]common.Address, n)
	for i := range keys {
		keys[i] = bscKey(i)
		addrs[i] = keys[i].Addr
	}
	return keys, bscsim.Sorted(addrs)
}

func keyOfAddr(keys []bscsim.Key, a common.Address) bscsim.Key {
	for _, k := range keys {
		if k.Addr == a {
			return k
		}
	}
	kit.Failf("no bsc key for %s", a)
	return bscsim.Key{}
}

func (e *env) createBSC(p clientPlan) {
	n := p.Vals
	if n != 3 {
		n = 1
	}
	keys, sorted := bscVals(n)
	epoch := uint64(200)
	if p.H0 != 0 {
		epoch = p.H0
	}
	now := uint64(e.ctx.BlockTime().Unix())
	mk := func(number uint64, parent common.Hash, i int) *bscsim.Header {
		signer := sorted[number%uint64(n)] // in turn
		var valBytes []byte
		if number%epoch == 0 {
			valBytes = bscsim.AddrBytes(sorted)
		}
		h := &bscsim.Header{
			ParentHash: parent, UncleHash: bscsim.EmptyUncleHash, Coinbase: signer, Root: common.BytesToHash(rootFor("bsc", number)),
			TxHash: gethtypes.EmptyRootHash, ReceiptHash: gethtypes.EmptyRootHash, Difficulty: new(big.Int).Set(bscsim.DiffInTurn),
			Number: number, GasLimit: 30_000_000, GasUsed: 21000, Time: now - 100 + uint64(i)*3,
			Extra: bscsim.BuildExtra([bscsim.ExtraVanity]byte{}, valBytes),
		}
		bscsim.Seal(h, keyOfAddr(keys, signer), bscChainID)
		return h
	}
	h0 := mk(p.H0, common.BytesToHash([]byte("c13: parent of the bsc creation header")), 0)
	pr := h0.ToProto()
	pr.Height = clienttypes.NewHeight(p.Rev, p.H0)
	var valBz [][]byte
	for _, a := range sorted {
		valBz = append(valBz, a.Bytes())
	}
	cs := &bsctypes.ClientState{Header: *pr, ChainId: bscChainID, Epoch: epoch, BlockInteval: 3, Validators: valBz,
		ContractAddress: common.BytesToAddress([]byte("xibc-packet")).Bytes(), TrustingPeriod: 1_000_000}
	mustReachable(cs.Validate(), "bsc client state")
	cons := &bsctypes.ConsensusState{Timestamp: h0.Time, Height: pr.Height, Root: h0.Root.Bytes()}
	kit.Must(cons.ValidateBasic(), "bsc consensus state")
	kit.Must(e.ck().CreateClient(e.ctx, p.Name, cs, cons), "create BSC client "+p.String())
	parent := h0
	for i, r := range p.UpdRevs {
		h := mk(p.H0+uint64(i)+1, parent.Hash(), i+1)
		hp := h.ToProto()
		hp.Height = clienttypes.NewHeight(r, h.Number)
		kit.Must(e.ck().UpdateClient(e.ctx, p.Name, hp), "update BSC client "+p.String())
		parent = h
	}
	store := e.ck().ClientStore(e.ctx, p.Name)
	for _, h := range p.Extra {
		// what bsc verifySeal/update + the keeper write for an accepted header at h
		c := &bsctypes.ConsensusState{Timestamp: now, Height: h, Root: rootFor("bsc", h.RevisionHeight)}
		e.ck().SetClientConsensusState(e.ctx, p.Name, h, c)
		bsctypes.SetSigner(store, bsctypes.Signer{Height: h, Validator: sorted[0].Bytes()})
	}
}

// ---------------------------------------------------------------------------------------------
// ETH (Rinkeby mode: no proof of work)

func (e *env) createETH(p clientPlan) {
	now := uint64(e.ctx.BlockTime().Unix())
	g := ethsim.Genesis(ethsim.GenesisOpts{Number: p.H0, Time: now - 200, GasLimit: 30_000_000, GasUsed: 15_000_000, BaseFee: 1_000_000_000,
		Root: common.BytesToHash(rootFor("eth", p.H0)), Extra: []byte("c13")})
	cs := ethsim.ClientState(g, 4, 1_000_000)
	cs.Header.Height = clienttypes.NewHeight(p.Rev, p.H0)
	mustReachable(cs.Validate(), "eth client state")
	cons := ethsim.ConsensusState(g)
	cons.Height = cs.Header.Height
	kit.Must(e.ck().CreateClient(e.ctx, p.Name, cs, cons), "create ETH client "+p.String())
	parent := g
	for i, r := range p.UpdRevs {
		h := ethsim.Child(parent, ethsim.ChildOpts{DT: 13, GasUsedPermil: 500, Root: common.BytesToHash(rootFor("eth", p.H0+uint64(i)+1)),
			Coinbase: common.BytesToAddress([]byte("c13")), Difficulty: 2})
		hp := ethsim.ToProto(h)
		hp.Height = clienttypes.NewHeight(r, h.Number.Uint64())
		kit.Must(e.ck().UpdateClient(e.ctx, p.Name, hp), "update ETH client "+p.String())
		parent = h
	}
	store := e.ck().ClientStore(e.ctx, p.Name)
	for _, h := range p.Extra {
		// what eth update() + the keeper write for an accepted header at h
		hd := ethsim.Genesis(ethsim.GenesisOpts{Number: h.RevisionHeight, Time: now - 50, GasLimit: 30_000_000, BaseFee: 7,
			Root: common.BytesToHash(rootFor("eth-extra", h.RevisionHeight))})
		hp := ethsim.ToProto(hd)
		hp.Height = h
		bz, err := e.c.App.AppCodec().MarshalInterface(hp)
		kit.Must(err, "marshal eth header")
		ethtypes.SetEthHeaderIndex(store, *hp, bz)
		ethtypes.SetEthConsensusRoot(store, h.RevisionHeight, hp.ToEthHeader().Root, hp.Hash())
		e.ck().SetClientConsensusState(e.ctx, p.Name, h, &ethtypes.ConsensusState{Timestamp: hd.Time, Height: h, Root: hd.Root.Bytes()})
	}
}

// ---------------------------------------------------------------------------------------------
// TSS

func (e *env) createTSS(p clientPlan, tss sdk.AccAddress) {
	// Vals doubles as the key generation of a TSS client (an upgrade rotates the key)
	cs := &tsstypes.ClientState{TssAddress: tss.String(), Pubkey: []byte(fmt.Sprintf("pubkey-%s-%d", p.Name, p.Vals)), PartPubkeys: [][]byte{[]byte("p1"), []byte("p2")}}
	mustReachable(cs.Validate(), "tss client state")
	kit.Must(e.ck().CreateClient(e.ctx, p.Name, cs, &tsstypes.ConsensusState{}), "create TSS client")
}

// unreachableState is raised (before anything is written) when the client state of a plan does not pass
// the client type's own Validate: a CreateClient proposal with it is refused at submission, so the
// state is not reachable and the generator must draw another one.
type unreachableState struct{ err error }

func mustReachable(err error, what string) {
	if err != nil {
		panic(unreachableState{fmt.Errorf("%s: %w", what, err)})
	}
}

// tryCreate is create that reports an unreachable plan instead of failing.
func (e *env) tryCreate(p clientPlan, idx int, tss sdk.AccAddress) (err error) {
	defer func() {
		if r := recover(); r != nil {
			u, ok := r.(unreachableState)
			if !ok {
				panic(r)
			}
			err = u.err
		}
	}()
	e.create(p, idx, tss)
	return nil
}

func (e *env) create(p clientPlan, idx int, tss sdk.AccAddress) {
	kit.Must(host.ClientIdentifierValidator(p.Name), "client name")
	if _, has := e.ck().GetClientState(e.ctx, p.Name); has {
		kit.Failf("client %s exists", p.Name)
	}
	switch p.Type {
	case tTM:
		e.createTM(p, idx)
	case tBSC:
		e.createBSC(p)
	case tETH:
		e.createETH(p)
	case tTSS:
		e.createTSS(p, tss)
	default:
		kit.Failf("unknown client type %q", p.Type)
	}
}

var tssCons = tsstypes.ConsensusState{}
