package aggsim

import (
	"bytes"
	"encoding/json"
	"fmt"
	"math/big"
	"sort"
	"strings"

	sdk "github.com/cosmos/cosmos-sdk/types"
	authtypes "github.com/cosmos/cosmos-sdk/x/auth/types"
	banktypes "github.com/cosmos/cosmos-sdk/x/bank/types"
	distrtypes "github.com/cosmos/cosmos-sdk/x/distribution/types"
	govtypes "github.com/cosmos/cosmos-sdk/x/gov/types"
	"github.com/cosmos/cosmos-sdk/x/params"
	paramproposal "github.com/cosmos/cosmos-sdk/x/params/types/proposal"

	"github.com/ethereum/go-ethereum/accounts/abi"
	"github.com/ethereum/go-ethereum/common"
	"github.com/ethereum/go-ethereum/crypto"

	"github.com/teleport-network/teleport/app"
	erc20contracts "github.com/teleport-network/teleport/syscontracts/erc20"
	"github.com/teleport-network/teleport/x/aggregate"
	aggtypes "github.com/teleport-network/teleport/x/aggregate/types"

	"verif/harness/kit"
)

// TokenKind classifies the token contracts of the world.
type TokenKind int

const (
	KindModule  TokenKind = iota // deployed by RegisterCoin (ERC20MinterBurnerDecimals owned by the module)
	KindPlain                    // ERC20MinterBurnerDecimals deployed by a third party
	KindDirect                   // repo's ERC20DirectBalanceManipulation (half of every transfer goes to a thief)
	KindDelayed                  // repo's ERC20MaliciousDelayed (transfer grants the thief an allowance, emits Approval)
	KindFlex                     // hand-assembled FlexToken (fee / no-op / false / misreporting / self-destruct)
)

func (k TokenKind) String() string {
	return [...]string{"module", "plain", "direct-balance-manipulation", "malicious-delayed", "flex"}[k]
}

// Token is one tracked ERC-20 contract.
type Token struct {
	Addr     common.Address
	Kind     TokenKind
	Name     string
	Symbol   string
	Decimals uint8
	Dead     bool // self-destructed
}

// Thief is the hard-wired beneficiary of the repo's two misbehaving tokens.
var Thief = common.HexToAddress("0x4dC6ac40Af078661fc43823086E1513635Eeab14")

// ABI is the ERC-20 ABI used for all token calls (ERC20MinterBurnerDecimals is a superset).
var ABI = erc20contracts.ERC20MinterBurnerDecimalsContract.ABI

var flexABI = mustABI(`[
 {"type":"function","name":"mint","inputs":[{"name":"to","type":"address"},{"name":"amount","type":"uint256"}],"outputs":[{"type":"bool"}]},
 {"type":"function","name":"burn","inputs":[{"name":"amount","type":"uint256"}],"outputs":[]},
 {"type":"function","name":"setMode","inputs":[{"name":"m","type":"uint256"}],"outputs":[]},
 {"type":"function","name":"kill","inputs":[],"outputs":[]}]`)

func mustABI(s string) abi.ABI {
	a, err := abi.JSON(strings.NewReader(s))
	if err != nil {
		panic(err)
	}
	return a
}

// CoinDenoms is the universe of cosmos denominations of the world (all have genesis supply).
var CoinDenoms = []string{
	"acoin", "bcoin", "ccoin", "dcoin", "ecoin",
	"ibc/6B5A664BF0AF4F71B2F0BAA33141E2F1321242FBD5D19762F541EC971ACB0865",
	"ibc/7F1D3FCF4AE79E1554D670D1AD949A9BA4E4A3C76C63093E17E446A46061A7A2",
	"ibc/27394FB092D2ECCD56123C74F36E4C1F926001CEADA9CA97EA622B25F41E5EB2",
}

// GenesisCoinBalance is every user's genesis balance of every CoinDenoms entry.
const GenesisCoinBalance = 10000

// World is one chain with the aggregate module under test.
type World struct {
	C       *kit.Chain
	App     *app.Teleport
	Users   []kit.Account
	Handler govtypes.Handler // aggregate proposal handler
	PHandle govtypes.Handler // parameter-change proposal handler
	Module  common.Address
	ModAcc  sdk.AccAddress

	Tokens []*Token
	// Meta is the fixed bank metadata proposed for each coin denomination (drawn once per case).
	Meta map[string]banktypes.Metadata

	ModuleEnabled bool
	SendDisabled  map[string]bool

	rot  int    // rotation counter of the storage-vs-view cross-check
	salt uint32 // makes the byte code of every FlexToken unique
}

// GenesisBalanceOf is every user's genesis balance of CoinDenoms[i]: a few thousand units for the even entries, 2^100 + 7 for
// the odd ones (so that successful conversions also carry amounts beyond every machine-integer limit).
func GenesisBalanceOf(i int) sdk.Int {
	if i%2 == 1 {
		return sdk.NewIntFromBigInt(new(big.Int).Lsh(big.NewInt(1), 100)).AddRaw(7)
	}
	return sdk.NewInt(GenesisCoinBalance)
}

// NewWorld builds a fresh chain with three users holding GenesisCoinBalance of every coin.
func NewWorld() *World {
	var extra sdk.Coins
	for i, d := range CoinDenoms {
		extra = extra.Add(sdk.NewCoin(d, GenesisBalanceOf(i)))
	}
	c := kit.NewChain("teleport_9000-1", kit.ChainOpts{Seed: []byte("aggsim"), NumAccounts: 3, ExtraCoins: extra})
	w := &World{
		C: c, App: c.App, Users: c.Accounts,
		Handler:       aggregate.NewAggregateProposalHandler(c.App.AggregateKeeper),
		PHandle:       params.NewParamChangeProposalHandler(c.App.ParamsKeeper),
		Module:        aggtypes.ModuleAddress,
		ModAcc:        authtypes.NewModuleAddress(aggtypes.ModuleName),
		Meta:          map[string]banktypes.Metadata{},
		ModuleEnabled: true,
		SendDisabled:  map[string]bool{},
	}
	return w
}

// Receivers that are not users: two blocked module accounts and one module account allowed to receive.
var (
	FeeCollector = authtypes.NewModuleAddress(authtypes.FeeCollectorName)
	DistrModule  = authtypes.NewModuleAddress(distrtypes.ModuleName)
)

// IsBlocked is the reference notion of a blocked address: a module account of the application that
// is not on the application's allow list (app.BlockedAddrs is configuration, not aggregate logic).
func (w *World) IsBlocked(a sdk.AccAddress) bool {
	return w.App.BlockedAddrs()[a.String()]
}

// ---------------------------------------------------------------------------------------------
// governance

// Gov runs content through the aggregate proposal handler the way gov.EndBlocker does: contents
// must pass ValidateBasic (submission), the handler runs in a cache context written only on nil error.
// invalid reports a content rejected at submission (nothing was executed).
func (w *World) Gov(content govtypes.Content) (err error, invalid bool) {
	return w.gov(w.Handler, content)
}

func (w *World) gov(h govtypes.Handler, content govtypes.Content) (err error, invalid bool) {
	if e := content.ValidateBasic(); e != nil {
		return e, true
	}
	cctx, write := w.C.Ctx().CacheContext()
	if e := h(cctx, content); e != nil {
		return e, false
	}
	write()
	return nil, false
}

// SetParam passes a parameter-change proposal.
func (w *World) SetParam(subspace, key, jsonValue string) error {
	p := paramproposal.NewParameterChangeProposal("t", "d", []paramproposal.ParamChange{{Subspace: subspace, Key: key, Value: jsonValue}})
	err, invalid := w.gov(w.PHandle, p)
	if invalid {
		kit.Failf("param change proposal invalid: %v", err)
	}
	return err
}

// SetModuleEnabled flips the EnableAggregate parameter.
func (w *World) SetModuleEnabled(on bool) {
	kit.Must(w.SetParam(aggtypes.ModuleName, string(aggtypes.ParamStoreKeyEnableAggregate), fmt.Sprint(on)), "set EnableAggregate")
	w.ModuleEnabled = on
}

// SetSendEnabled sets bank's SendEnabled list so that exactly the denominations in w.SendDisabled are disabled.
func (w *World) SetSendEnabled(denom string, on bool) {
	if on {
		delete(w.SendDisabled, denom)
	} else {
		w.SendDisabled[denom] = true
	}
	var ds []string
	for d := range w.SendDisabled {
		ds = append(ds, d)
	}
	sort.Strings(ds)
	list := []*banktypes.SendEnabled{}
	for _, d := range ds {
		list = append(list, &banktypes.SendEnabled{Denom: d, Enabled: false})
	}
	bz, _ := json.Marshal(list)
	kit.Must(w.SetParam(banktypes.ModuleName, string(banktypes.KeySendEnabled), string(bz)), "set SendEnabled")
}

// CoinMetadata builds the metadata a proposer would submit for a coin. nameEqualsBase is impossible
// for ibc/ denominations (ValidateBasic demands "channel-" in the name).
func CoinMetadata(base string, nameEqualsBase bool, description string) banktypes.Metadata {
	m := banktypes.Metadata{
		Description: description,
		Base:        base,
		DenomUnits:  []*banktypes.DenomUnit{{Denom: base, Exponent: 0}},
		Name:        base,
		Symbol:      strings.ToUpper(strings.TrimPrefix(base, "ibc/"))[:4],
		Display:     base,
	}
	if strings.HasPrefix(base, "ibc/") {
		m.Name = "ATOM channel-" + base[4:6]
		m.Symbol = "ibcATOM-" + base[4:6]
	} else if !nameEqualsBase {
		m.Name = strings.ToUpper(base[:1]) + " Coin"
	}
	return m
}

// NextModuleContract predicts the address of the next contract deployed by the module account.
func (w *World) NextModuleContract() common.Address {
	seq, err := w.App.AccountKeeper.GetSequence(w.C.Ctx(), w.ModAcc)
	kit.Must(err, "module sequence")
	return crypto.CreateAddress(w.Module, seq)
}

// RegisterCoin passes a RegisterCoinProposal; on success the deployed module-owned token is tracked.
func (w *World) RegisterCoin(m banktypes.Metadata) (err error, invalid bool) {
	predicted := w.NextModuleContract()
	err, invalid = w.Gov(aggtypes.NewRegisterCoinProposal("t", "d", m))
	if err == nil {
		w.Tokens = append(w.Tokens, &Token{Addr: predicted, Kind: KindModule, Name: m.Name, Symbol: m.Symbol, Decimals: uint8(m.DenomUnits[0].Exponent)})
	}
	return
}

func (w *World) AddCoin(m banktypes.Metadata, contract string) (error, bool) {
	return w.Gov(aggtypes.NewAddCoinProposal("t", "d", m, contract))
}

func (w *World) RegisterERC20(addr common.Address) (error, bool) {
	return w.Gov(aggtypes.NewRegisterERC20Proposal("t", "d", addr.Hex()))
}

func (w *World) Toggle(token string) (error, bool) {
	return w.Gov(aggtypes.NewToggleTokenRelayProposal("t", "d", token))
}

func (w *World) UpdateERC20(old, new common.Address) (error, bool) {
	return w.Gov(aggtypes.NewUpdateTokenPairERC20Proposal("t", "d", old.Hex(), new.Hex()))
}

// ---------------------------------------------------------------------------------------------
// token contracts

// DeployFrom sends a contract-creation transaction from user through DeliverTx.
func (w *World) DeployFrom(user kit.Account, data []byte) common.Address {
	nonce := w.App.EvmKeeper.GetNonce(w.C.Ctx(), user.Addr)
	res := w.C.DeliverEth(user, nil, nil, data)
	if !res.Succeeded() {
		kit.Failf("deploy failed: code=%d log=%s vm=%s", res.Code, res.Log, res.VmError)
	}
	return crypto.CreateAddress(user.Addr, nonce)
}

// DeployToken deploys an external token of the given kind from user and mints `each` to every user.
func (w *World) DeployToken(kind TokenKind, user kit.Account, name, symbol string, decimals uint8, each int64) *Token {
	var tok *Token
	switch kind {
	case KindPlain:
		ctor, err := ABI.Pack("", name, symbol, decimals)
		kit.Must(err, "pack ctor")
		addr := w.DeployFrom(user, append(append([]byte{}, erc20contracts.ERC20MinterBurnerDecimalsContract.Bin...), ctor...))
		tok = &Token{Addr: addr, Kind: kind, Name: name, Symbol: symbol, Decimals: decimals}
	case KindDirect, KindDelayed:
		cc := erc20contracts.ERC20DirectBalanceManipulationContract
		name, symbol = "ERC20DirectBalanceManipulation", "ERC20DirectBalanceManipulation"
		if kind == KindDelayed {
			cc = erc20contracts.ERC20MaliciousDelayedContract
			name, symbol = "ERC20MaliciousDelayed", "ERC20MALICIOUSDELAYED"
		}
		ctor, err := cc.ABI.Pack("", big.NewInt(0))
		kit.Must(err, "pack ctor")
		addr := w.DeployFrom(user, append(append([]byte{}, cc.Bin...), ctor...))
		tok = &Token{Addr: addr, Kind: kind, Name: name, Symbol: symbol, Decimals: 18}
	case KindFlex:
		w.salt++
		addr := w.DeployFrom(user, FlexTokenInitCode(name, symbol, decimals, w.salt))
		tok = &Token{Addr: addr, Kind: kind, Name: name, Symbol: symbol, Decimals: decimals}
	default:
		kit.Failf("cannot deploy kind %v", kind)
	}
	if each > 0 {
		for _, u := range w.Users {
			amount := big.NewInt(each)
			if len(w.Tokens)%2 == 1 {
				// every second deployed token is held in amounts beyond every machine-integer limit
				amount = new(big.Int).Add(new(big.Int).Lsh(big.NewInt(1), 100), amount)
			}
			data, err := ABI.Pack("mint", u.Addr, amount)
			kit.Must(err, "pack mint")
			res := w.C.DeliverEth(user, &tok.Addr, nil, data)
			if !res.Succeeded() {
				kit.Failf("mint on %v failed: code=%d log=%s vm=%s", kind, res.Code, res.Log, res.VmError)
			}
		}
	}
	w.Tokens = append(w.Tokens, tok)
	return tok
}

// TokenAt returns the tracked token at addr (nil if untracked).
func (w *World) TokenAt(addr common.Address) *Token {
	for _, t := range w.Tokens {
		if t.Addr == addr {
			return t
		}
	}
	return nil
}

// HasCode reports whether addr currently is a contract.
func (w *World) HasCode(ctx sdk.Context, addr common.Address) bool {
	acc := w.App.EvmKeeper.GetAccountWithoutBalance(ctx, addr)
	return acc != nil && acc.IsContract()
}

// EthCall sends a transaction with ABI-packed data from user to a contract through DeliverTx.
func (w *World) EthCall(user kit.Account, a abi.ABI, to common.Address, method string, args ...interface{}) kit.EthResult {
	data, err := a.Pack(method, args...)
	kit.Must(err, "pack "+method)
	return w.C.DeliverEth(user, &to, nil, data)
}

// FlexSetMode, FlexKill: anybody may call them (test double).
func (w *World) FlexSetMode(user kit.Account, tok *Token, mode int) {
	res := w.EthCall(user, flexABI, tok.Addr, "setMode", big.NewInt(int64(mode)))
	if !res.Succeeded() {
		kit.Failf("setMode failed: %s %s", res.Log, res.VmError)
	}
}

func (w *World) FlexKill(user kit.Account, tok *Token) {
	res := w.EthCall(user, flexABI, tok.Addr, "kill")
	if !res.Succeeded() {
		kit.Failf("kill failed: %s %s", res.Log, res.VmError)
	}
	if w.HasCode(w.C.Ctx(), tok.Addr) {
		kit.Failf("contract %s still has code after kill", tok.Addr)
	}
	tok.Dead = true
}

// FlexMode reads the current mode of a FlexToken from storage.
func (w *World) FlexMode(ctx sdk.Context, tok *Token) int {
	return int(w.App.EvmKeeper.GetState(ctx, tok.Addr, common.BigToHash(FlexModeSlot)).Big().Int64())
}

// ---------------------------------------------------------------------------------------------
// observers

// TokenBalance reads the balance of who in tok. FlexTokens are read from raw storage (their
// balanceOf view can be switched to misreport; the storage layout is the harness's own). The
// OpenZeppelin-based contracts of the repo are read from storage too (balanceOf through the EVM costs
// ~0.3 ms and dominated the run time); every such read path is cross-checked against the balanceOf /
// totalSupply views: one (token, holder) per snapshot in rotation and all of them at the end of a case
// (VerifyViews) - a mismatch is a harness failure.
func (w *World) TokenBalance(ctx sdk.Context, tok *Token, who common.Address) *big.Int {
	if tok.Kind == KindFlex {
		return w.App.EvmKeeper.GetState(ctx, tok.Addr, common.BytesToHash(who.Bytes())).Big()
	}
	return w.App.EvmKeeper.GetState(ctx, tok.Addr, ozBalanceSlot(who)).Big()
}

// TokenSupply reads totalSupply.
func (w *World) TokenSupply(ctx sdk.Context, tok *Token) *big.Int {
	if tok.Kind == KindFlex {
		return w.App.EvmKeeper.GetState(ctx, tok.Addr, common.BigToHash(FlexSupplySlot)).Big()
	}
	return w.App.EvmKeeper.GetState(ctx, tok.Addr, common.BigToHash(big.NewInt(ozSupplySlot))).Big()
}

// Storage layout of the repo's OpenZeppelin tokens (AccessControl._roles 0, AccessControlEnumerable._roleMembers 1,
// ERC20._balances 2, _allowances 3, _totalSupply 4).
const (
	ozBalancesSlot = 2
	ozSupplySlot   = 4
)

func ozBalanceSlot(who common.Address) common.Hash {
	return crypto.Keccak256Hash(common.LeftPadBytes(who.Bytes(), 32), common.LeftPadBytes([]byte{ozBalancesSlot}, 32))
}

// verifyOne compares the storage read of (tok, holder index i; i == len(holders) means totalSupply) with the view.
func (w *World) verifyOne(ctx sdk.Context, tok *Token, i int) {
	if tok.Kind == KindFlex || !w.HasCode(ctx, tok.Addr) {
		return
	}
	hs := w.TrackedHolders()
	if i >= len(hs) {
		if a, b := w.TokenSupply(ctx, tok), w.view(ctx, tok.Addr, "totalSupply"); a.Cmp(b) != 0 {
			kit.Failf("storage layout assumption broken: totalSupply of %s storage=%s view=%s", tok.Addr, a, b)
		}
		return
	}
	if a, b := w.TokenBalance(ctx, tok, hs[i]), w.view(ctx, tok.Addr, "balanceOf", hs[i]); a.Cmp(b) != 0 {
		kit.Failf("storage layout assumption broken: balanceOf(%s) of %s storage=%s view=%s", hs[i], tok.Addr, a, b)
	}
}

// VerifyViews cross-checks every storage-derived ERC-20 reading against the contract's views.
func (w *World) VerifyViews(ctx sdk.Context) {
	n := len(w.TrackedHolders())
	for _, t := range w.Tokens {
		for i := 0; i <= n; i++ {
			w.verifyOne(ctx, t, i)
		}
	}
}

func (w *World) view(ctx sdk.Context, contract common.Address, method string, args ...interface{}) *big.Int {
	cctx, _ := ctx.CacheContext()
	res, err := w.App.AggregateKeeper.CallEVM(cctx, ABI, w.Module, contract, method, args...)
	kit.Must(err, "view "+method)
	out, err := ABI.Unpack(method, res.Ret)
	kit.Must(err, "unpack "+method)
	return out[0].(*big.Int)
}

// Pair is one raw pair record of the aggregate store.
type Pair struct {
	ID      []byte
	Addr    common.Address
	AddrStr string
	Denoms  []string
	Enabled bool
	Owner   aggtypes.Owner
}

func (p Pair) Lists(denom string) bool {
	for _, d := range p.Denoms {
		if d == denom {
			return true
		}
	}
	return false
}

// Registry is the raw content of the three prefixes of the aggregate store.
type Registry struct {
	Pairs   []Pair            // prefix 0x01, in key order
	ByAddr  map[string][]byte // prefix 0x02: 20-byte address (as string key) -> id
	ByDenom map[string][]byte // prefix 0x03: denomination -> id
	Other   int               // keys outside the three prefixes
}

// ReadRegistry iterates the aggregate store directly (no keeper getters).
func (w *World) ReadRegistry(ctx sdk.Context) Registry {
	reg := Registry{ByAddr: map[string][]byte{}, ByDenom: map[string][]byte{}}
	st := ctx.KVStore(w.App.GetKey(aggtypes.StoreKey))
	it := st.Iterator(nil, nil)
	defer it.Close()
	for ; it.Valid(); it.Next() {
		k, v := it.Key(), it.Value()
		switch {
		case len(k) > 0 && k[0] == 0x01:
			var tp aggtypes.TokenPair
			if err := tp.Unmarshal(v); err != nil {
				kit.Failf("pair record does not decode: %v", err)
			}
			reg.Pairs = append(reg.Pairs, Pair{ID: append([]byte{}, k[1:]...), Addr: common.HexToAddress(tp.ERC20Address), AddrStr: tp.ERC20Address,
				Denoms: append([]string{}, tp.Denoms...), Enabled: tp.Enabled, Owner: tp.ContractOwner})
		case len(k) > 0 && k[0] == 0x02:
			reg.ByAddr[string(k[1:])] = append([]byte{}, v...)
		case len(k) > 0 && k[0] == 0x03:
			reg.ByDenom[string(k[1:])] = append([]byte{}, v...)
		default:
			reg.Other++
		}
	}
	return reg
}

// PairOfAddr / PairOfDenom look pair records up by content (not through the indexes).
func (r Registry) PairsOfAddr(a common.Address) []Pair {
	var out []Pair
	for _, p := range r.Pairs {
		if p.Addr == a {
			out = append(out, p)
		}
	}
	return out
}

func (r Registry) PairsOfDenom(d string) []Pair {
	var out []Pair
	for _, p := range r.Pairs {
		if p.Lists(d) {
			out = append(out, p)
		}
	}
	return out
}

// CheckRegistry returns the violations of the registry self-consistency statement:
// (i) every pair is found by its address and by each of its denominations, (ii) every index entry
// points to an existing pair that lists the key, (iii) no denomination or address occurs in two pairs.
func (r Registry) Check() []string {
	var bad []string
	byID := map[string]Pair{}
	for _, p := range r.Pairs {
		byID[string(p.ID)] = p
	}
	seenAddr := map[common.Address]int{}
	seenDenom := map[string]int{}
	for i, p := range r.Pairs {
		if id, ok := r.ByAddr[string(p.Addr.Bytes())]; !ok {
			bad = append(bad, fmt.Sprintf("(i) pair %s %v is not reachable by its address: no index entry", p.AddrStr, p.Denoms))
		} else if !bytes.Equal(id, p.ID) {
			bad = append(bad, fmt.Sprintf("(i) pair %s %v is not reachable by its address: the entry leads to another id", p.AddrStr, p.Denoms))
		}
		for _, d := range p.Denoms {
			if id, ok := r.ByDenom[d]; !ok {
				bad = append(bad, fmt.Sprintf("(i) pair %s %v is not reachable by its denomination %s: no index entry", p.AddrStr, p.Denoms, d))
			} else if !bytes.Equal(id, p.ID) {
				bad = append(bad, fmt.Sprintf("(i) pair %s %v is not reachable by its denomination %s: the entry leads to another id", p.AddrStr, p.Denoms, d))
			}
		}
		if j, dup := seenAddr[p.Addr]; dup {
			bad = append(bad, fmt.Sprintf("(iii) contract %s belongs to two pairs: %v and %v", p.AddrStr, r.Pairs[j].Denoms, p.Denoms))
		}
		seenAddr[p.Addr] = i
		inThis := map[string]bool{}
		for _, d := range p.Denoms {
			if inThis[d] {
				continue
			}
			inThis[d] = true
			if j, dup := seenDenom[d]; dup {
				bad = append(bad, fmt.Sprintf("(iii) denomination %s belongs to two pairs: %s and %s", d, r.Pairs[j].AddrStr, p.AddrStr))
			}
			seenDenom[d] = i
		}
	}
	var addrKeys, denomKeys []string
	for k := range r.ByAddr {
		addrKeys = append(addrKeys, k)
	}
	for k := range r.ByDenom {
		denomKeys = append(denomKeys, k)
	}
	sort.Strings(addrKeys)
	sort.Strings(denomKeys)
	for _, k := range addrKeys {
		p, ok := byID[string(r.ByAddr[k])]
		if !ok {
			bad = append(bad, fmt.Sprintf("(ii) address entry %s points to no pair", common.BytesToAddress([]byte(k)).Hex()))
		} else if !bytes.Equal(p.Addr.Bytes(), []byte(k)) {
			bad = append(bad, fmt.Sprintf("(ii) address entry %s points to a pair with address %s", common.BytesToAddress([]byte(k)).Hex(), p.AddrStr))
		}
	}
	for _, k := range denomKeys {
		p, ok := byID[string(r.ByDenom[k])]
		if !ok {
			bad = append(bad, fmt.Sprintf("(ii) denomination entry %s points to no pair", k))
		} else if !p.Lists(k) {
			bad = append(bad, fmt.Sprintf("(ii) denomination entry %s points to pair %s which lists %v", k, p.AddrStr, p.Denoms))
		}
	}
	return bad
}

// CheckLookups verifies statement (i) once more through the module's public lookup path
// (GetTokenPairID + GetTokenPair), which is what conversions use.
func (w *World) CheckLookups(ctx sdk.Context, r Registry) []string {
	var bad []string
	k := w.App.AggregateKeeper
	for _, p := range r.Pairs {
		keys := append([]string{p.AddrStr}, p.Denoms...)
		for _, key := range keys {
			id := k.GetTokenPairID(ctx, key)
			got, found := k.GetTokenPair(ctx, id)
			if !found {
				bad = append(bad, fmt.Sprintf("(i) lookup of %q finds no pair although pair %s lists it", key, p.AddrStr))
				continue
			}
			if common.HexToAddress(got.ERC20Address) != p.Addr || strings.Join(got.Denoms, ",") != strings.Join(p.Denoms, ",") {
				bad = append(bad, fmt.Sprintf("(i) lookup of %q finds pair %s %v instead of %s %v", key, got.ERC20Address, got.Denoms, p.AddrStr, p.Denoms))
			}
		}
	}
	return bad
}

// ---------------------------------------------------------------------------------------------
// ledger snapshots

// Snapshot is every bank balance and supply plus the ERC-20 balances of the tracked addresses and
// the total supply of every live tracked token.
type Snapshot struct {
	Bank   map[string]sdk.Int  // "addr|denom"
	Supply map[string]sdk.Int  // denom
	Tok    map[string]*big.Int // "token|holder" ; "token|supply"
}

// TrackedHolders are the addresses whose ERC-20 balances enter the ledger.
func (w *World) TrackedHolders() []common.Address {
	hs := []common.Address{}
	for _, u := range w.Users {
		hs = append(hs, u.Addr)
	}
	return append(hs, w.Module, Thief, FlexSinkAddr, common.BytesToAddress(FeeCollector), common.BytesToAddress(DistrModule), common.Address{})
}

func (w *World) Snap(ctx sdk.Context) Snapshot {
	s := Snapshot{Bank: map[string]sdk.Int{}, Supply: map[string]sdk.Int{}, Tok: map[string]*big.Int{}}
	w.App.BankKeeper.IterateAllBalances(ctx, func(a sdk.AccAddress, c sdk.Coin) bool {
		s.Bank[a.String()+"|"+c.Denom] = c.Amount
		return false
	})
	w.App.BankKeeper.IterateTotalSupply(ctx, func(c sdk.Coin) bool {
		s.Supply[c.Denom] = c.Amount
		return false
	})
	holders := w.TrackedHolders()
	if len(w.Tokens) > 0 {
		w.rot++
		w.verifyOne(ctx, w.Tokens[w.rot%len(w.Tokens)], (w.rot/len(w.Tokens))%(len(holders)+1))
	}
	for _, t := range w.Tokens {
		if !w.HasCode(ctx, t.Addr) {
			continue
		}
		for _, h := range holders {
			s.Tok[t.Addr.Hex()+"|"+h.Hex()] = w.TokenBalance(ctx, t, h)
		}
		s.Tok[t.Addr.Hex()+"|supply"] = w.TokenSupply(ctx, t)
	}
	return s
}

func BankKey(a sdk.AccAddress, denom string) string      { return a.String() + "|" + denom }
func TokKey(tok common.Address, h common.Address) string { return tok.Hex() + "|" + h.Hex() }
func TokSupplyKey(tok common.Address) string             { return tok.Hex() + "|supply" }

// Delta is a signed change expected or observed in a snapshot.
type Delta map[string]*big.Int

func (d Delta) Add(key string, v *big.Int) {
	if cur, ok := d[key]; ok {
		d[key] = new(big.Int).Add(cur, v)
	} else {
		d[key] = new(big.Int).Set(v)
	}
}

// Diff returns observed changes between two snapshots, keys prefixed "bank:", "supply:", "tok:".
func Diff(a, b Snapshot) Delta {
	d := Delta{}
	keys := map[string]bool{}
	for k := range a.Bank {
		keys[k] = true
	}
	for k := range b.Bank {
		keys[k] = true
	}
	for k := range keys {
		x, y := sdk.ZeroInt(), sdk.ZeroInt()
		if v, ok := a.Bank[k]; ok {
			x = v
		}
		if v, ok := b.Bank[k]; ok {
			y = v
		}
		if !x.Equal(y) {
			d["bank:"+k] = y.Sub(x).BigInt()
		}
	}
	keys = map[string]bool{}
	for k := range a.Supply {
		keys[k] = true
	}
	for k := range b.Supply {
		keys[k] = true
	}
	for k := range keys {
		x, y := sdk.ZeroInt(), sdk.ZeroInt()
		if v, ok := a.Supply[k]; ok {
			x = v
		}
		if v, ok := b.Supply[k]; ok {
			y = v
		}
		if !x.Equal(y) {
			d["supply:"+k] = y.Sub(x).BigInt()
		}
	}
	keys = map[string]bool{}
	for k := range a.Tok {
		keys[k] = true
	}
	for k := range b.Tok {
		keys[k] = true
	}
	for k := range keys {
		x, y := big.NewInt(0), big.NewInt(0)
		if v, ok := a.Tok[k]; ok {
			x = v
		}
		if v, ok := b.Tok[k]; ok {
			y = v
		}
		if x.Cmp(y) != 0 {
			d["tok:"+k] = new(big.Int).Sub(y, x)
		}
	}
	return d
}

// Compare lists the keys on which observed and expected deltas differ (zero entries are ignored).
func Compare(observed, expected Delta) []string {
	var bad []string
	keys := map[string]bool{}
	for k := range observed {
		keys[k] = true
	}
	for k := range expected {
		keys[k] = true
	}
	var ks []string
	for k := range keys {
		ks = append(ks, k)
	}
	sort.Strings(ks)
	zero := big.NewInt(0)
	for _, k := range ks {
		o, e := observed[k], expected[k]
		if o == nil {
			o = zero
		}
		if e == nil {
			e = zero
		}
		if o.Cmp(e) != 0 {
			bad = append(bad, fmt.Sprintf("%s moved %s, expected %s", k, o, e))
		}
	}
	return bad
}

// StateDigest is the digest of the bank, aggregate and evm stores ("nothing changed" oracle).
func (w *World) StateDigest() string {
	return w.C.DumpStores(w.C.Ctx(), "bank", aggtypes.StoreKey, "evm").Digest()
}

// StateDump is the dump behind StateDigest (for rendering a diff on failure).
func (w *World) StateDump() kit.Dump {
	return w.C.DumpStores(w.C.Ctx(), "bank", aggtypes.StoreKey, "evm")
}

// ---------------------------------------------------------------------------------------------
// conversions

// ConvertCoin delivers MsgConvertCoin signed by sender.
func (w *World) ConvertCoin(sender kit.Account, receiver common.Address, denom string, amount sdk.Int) kit.TxResult {
	msg := &aggtypes.MsgConvertCoin{Coin: sdk.Coin{Denom: denom, Amount: amount}, Receiver: receiver.Hex(), Sender: sender.Acc.String()}
	return w.C.Deliver(sender, msg)
}

// ConvertERC20 delivers MsgConvertERC20 signed by sender.
func (w *World) ConvertERC20(sender kit.Account, receiver sdk.AccAddress, contract string, denom string, amount sdk.Int) kit.TxResult {
	msg := &aggtypes.MsgConvertERC20{ContractAddress: contract, Amount: amount, Receiver: receiver.String(), Sender: sender.Addr.Hex(), Denom: denom}
	return w.C.Deliver(sender, msg)
}

// FailureKind classifies a failed conversion by its log (evidence only, never an oracle input).
func FailureKind(log string) string {
	l := strings.ToLower(log)
	switch {
	case strings.Contains(l, "module is currently disabled"):
		return "module_disabled"
	case strings.Contains(l, "is not enabled by governance"):
		return "pair_disabled"
	case strings.Contains(l, "not allowed to receive"):
		return "blocked_receiver"
	case strings.Contains(l, "to an external address is currently disabled"):
		return "send_disabled"
	case strings.Contains(l, "not registered"):
		return "not_registered"
	case strings.Contains(l, "insufficient funds"), strings.Contains(l, "exceeds balance"), strings.Contains(l, "insufficient"):
		return "insufficient"
	case strings.Contains(l, "invalid token balance"), strings.Contains(l, "invalid coin balance"):
		return "balance_check"
	case strings.Contains(l, "unexpected approval"):
		return "approval_event"
	case strings.Contains(l, "non-positive"), strings.Contains(l, "invalid denom"), strings.Contains(l, "invalid coins"):
		return "invalid_msg"
	case strings.Contains(l, "failed to execute transfer"), strings.Contains(l, "failed to execute unescrow"):
		return "transfer_returned_false"
	case strings.Contains(l, "panic"), strings.Contains(l, "nil pointer"):
		return "recovered_panic"
	case strings.Contains(l, "execution reverted"), strings.Contains(l, "evm"):
		return "evm_revert"
	case strings.TrimSpace(l) == "internal":
		return "internal_error_redacted"
	}
	return "other"
}
