package c19

// contract_test.go: (b) re-encoding the bytes emitted by the packet contract returns the same bytes.
//
// The bytes the packet contract emits are the data of its PacketSent EVM log (the EventSendPacket
// attribute is already a re-encoding by the keeper). They are obtained by running
// endpoint.crossChainCall through DeliverTx on a kit chain with drawn arguments.

import (
	"bytes"
	"crypto/sha256"
	"fmt"
	"math/big"
	"strings"
	"sync"
	"testing"
	"time"

	"github.com/ethereum/go-ethereum/common"
	"pgregory.net/rapid"

	endpointcontract "github.com/teleport-network/teleport/syscontracts/xibc_endpoint"
	packetcontract "github.com/teleport-network/teleport/syscontracts/xibc_packet"
	clienttypes "github.com/teleport-network/teleport/x/xibc/core/client/types"
	"github.com/teleport-network/teleport/x/xibc/core/host"
	packettypes "github.com/teleport-network/teleport/x/xibc/core/packet/types"

	"verif/harness/kit"
	"verif/harness/rec"
)

type contractWorld struct {
	c        *kit.Chain
	user     kit.Account
	dst      []string
	tok      common.Address // plain ERC-20 (chain is its origin)
	bound    common.Address // ERC-20 bound to an origin token on chain boundOri
	boundOri string
	oriToken string
	cases    int
}

var (
	cwOnce sync.Once
	cw     *contractWorld
)

var contractDstNames = []string{"abc", "abC", "a.b", "ab.", "sequences", "clientState", "consensusStates", "commitments",
	"<>[]#+-._", "teleport_9001-1", strings.Repeat("Z", 64), "0-47"}

func world() *contractWorld {
	cwOnce.Do(func() {
		c := kit.NewChain("teleport_9000-1", kit.ChainOpts{Seed: []byte("c19-contract")})
		w := &contractWorld{c: c, user: c.Accounts[0], dst: contractDstNames, boundOri: "abc", oriToken: "0xORI <&>   token"}
		for _, n := range w.dst {
			if !validName(n) {
				kit.Failf("destination %q is not a valid chain name", n)
			}
			c.CreateTSSClient(n, c.Accounts[2].Acc)
		}
		huge := new(big.Int).Lsh(big.NewInt(1), 200)
		max := new(big.Int).Sub(new(big.Int).Lsh(big.NewInt(1), 256), big.NewInt(1))
		w.tok = c.DeployERC20("tok", "TOK", 18)
		w.bound = c.DeployERC20("bnd", "BND", 6)
		c.MintERC20(w.tok, w.user.Addr, huge)
		c.MintERC20(w.bound, w.user.Addr, huge)
		kit.Must(c.BindToken(w.bound, w.oriToken, w.boundOri, 0), "bind token")
		c.Commit(5 * time.Second)
		// inbound transfer of the bound token from its origin chain (TSS client: the proof is the signer),
		// so that the endpoint lets it travel back and fills TransferData.oriToken
		rel := c.Accounts[2]
		c.RegisterRelayer(rel.Acc, []string{w.boundOri}, []string{"relayer-on-" + w.boundOri})
		inbound := new(big.Int).Lsh(big.NewInt(1), 180)
		amt := make([]byte, 32)
		inbound.FillBytes(amt)
		tdBz, err := (&packettypes.TransferData{Receiver: strings.ToLower(w.user.Addr.Hex()), Amount: amt, Token: w.oriToken}).ABIPack()
		kit.Must(err, "pack inbound transfer data")
		pktBz, err := packettypes.Packet{SrcChain: w.boundOri, DstChain: c.ChainID, Sequence: 1, Sender: "origin-sender", TransferData: tdBz}.ABIPack()
		kit.Must(err, "pack inbound packet")
		if res := c.Deliver(rel, packettypes.NewMsgRecvPacket(pktBz, []byte("tss"), clienttypes.NewHeight(0, 1), rel.Acc)); !res.OK() {
			kit.Failf("inbound MsgRecvPacket failed: %s", clip(res.Log, 400))
		}
		if got := c.Bindings(w.bound, w.boundOri).Amount; got.Cmp(inbound) != 0 {
			kit.Failf("inbound transfer of the bound token did not arrive: binding amount %s", got)
		}
		c.Commit(5 * time.Second)
		for _, tk := range []common.Address{w.tok, w.bound} {
			if res := c.Approve(w.user, tk, endpointcontract.EndpointContractAddress, max); !res.Succeeded() {
				kit.Failf("approve failed: %s %s", res.Log, res.VmError)
			}
		}
		c.Commit(5 * time.Second)
		cw = w
	})
	return cw
}

// emittedPackets returns the data of every PacketSent log of the packet contract in a tx result.
func emittedPackets(res kit.EthResult) [][]byte {
	var out [][]byte
	ev := packetcontract.PacketContract.ABI.Events[packettypes.PacketSendEvent]
	for _, l := range res.Logs {
		if l.Address != packetcontract.PacketContractAddress || len(l.Topics) == 0 || l.Topics[0] != ev.ID {
			continue
		}
		vals, err := packetcontract.PacketContract.ABI.Unpack(ev.Name, l.Data)
		kit.Must(err, "unpack PacketSent log")
		out = append(out, vals[0].([]byte))
	}
	return out
}

const ruleContract = "endpoint.crossChainCall delivered through DeliverTx with drawn arguments: destination from 12 valid hostile names with TSS clients (plus an " +
	"unknown one), token native / ERC-20 / bound ERC-20 / none, amounts incl. 0 and > 2^64, receiver and contract-address strings from the hostile " +
	"valid-UTF-8 generator, call data from the hostile byte generator, callback address, full-range fee option, fee; oracle on the PacketSent log bytes b: " +
	"strict reference decoder accepts b, ABIDecode(b) succeeds, ABIPack(decoded) == b, CommitPacket(decoded) == stored commitment == sha256(b), event " +
	"bytes == b, nested transfer/call data re-encode byte-identically, decoded fields equal the arguments given; non-trivial = accepted call with >=1 " +
	"hostile class in its arguments; distinct by (token kind, parts present, hostile-class set); rejected calls are counted as negative cases"

func TestC19_ContractBytes(t *testing.T) {
	r := rec.For("TestC19_ContractBytes", ruleContract)
	w := world()
	c := w.c
	rapid.Check(t, func(t *rapid.T) {
		w.cases++
		if w.cases%20 == 0 {
			c.Commit(5 * time.Second)
		}
		dst := rapid.SampledFrom(w.dst).Draw(t, "dst")
		if rapid.IntRange(0, 19).Draw(t, "badDst") == 0 {
			dst = rapid.SampledFrom([]string{"no-client", c.ChainID}).Draw(t, "badDstName")
		}
		tokenKind := rapid.SampledFrom([]string{"native", "native", "erc20", "bound", "none"}).Draw(t, "token")
		var token common.Address
		switch tokenKind {
		case "erc20":
			token = w.tok
		case "bound":
			token = w.bound
		}
		amount := new(big.Int)
		if tokenKind != "none" {
			switch rapid.IntRange(0, 5).Draw(t, "amountKind") {
			case 0:
				amount.SetInt64(0)
			case 1:
				amount.SetInt64(1)
			case 2:
				amount.SetUint64(rapid.Uint64Range(1, 1_000_000).Draw(t, "amount"))
			case 3:
				if tokenKind == "native" {
					amount.SetUint64(rapid.Uint64Range(1, 1_000_000_000).Draw(t, "amount"))
				} else {
					amount.Lsh(big.NewInt(1), uint(rapid.IntRange(64, 150).Draw(t, "shift")))
					amount.Add(amount, big.NewInt(int64(rapid.IntRange(0, 255).Draw(t, "low"))))
				}
			default:
				amount.SetUint64(rapid.Uint64Range(1, 1000).Draw(t, "amount"))
			}
		}
		receiver := ""
		nonUTF8 := false
		if rapid.IntRange(0, 9).Draw(t, "withReceiver") > 0 {
			receiver = genString("receiver").Draw(t, "receiver")
			if rapid.IntRange(0, 14).Draw(t, "nonUTF8") == 0 {
				// outside the property's quantifier (valid UTF-8 only): observed, not asserted
				receiver += string(rapid.SampledFrom([][]byte{{0xff}, {0xc0, 0x80}, {0xed, 0xa0, 0x80}, {0xe2, 0x80}}).Draw(t, "bad"))
				nonUTF8 = true
			}
		}
		contractAddr, callData := "", []byte{}
		if rapid.IntRange(0, 2).Draw(t, "withCall") > 0 {
			contractAddr = genString("contract").Draw(t, "contract")
			callData = genBytes("callData").Draw(t, "callData")
			if callData == nil {
				callData = []byte{}
			}
		}
		var callback common.Address
		switch rapid.IntRange(0, 3).Draw(t, "callbackKind") {
		case 0:
		case 1:
			callback = common.HexToAddress("0xffffffffffffffffffffffffffffffffffffffff")
		default:
			callback = common.BytesToAddress(rapid.SliceOfN(rapid.Byte(), 20, 20).Draw(t, "callback"))
		}
		feeOption := genUint("feeOption").Draw(t, "feeOption")
		fee := packettypes.Fee{TokenAddress: token, Amount: big.NewInt(int64(rapid.IntRange(0, 3).Draw(t, "fee")))}
		if tokenKind == "none" && rapid.Bool().Draw(t, "feeInToken") {
			fee.TokenAddress = w.tok
		}
		data := packettypes.CrossChainData{DstChain: dst, TokenAddress: token, Receiver: receiver, Amount: amount,
			ContractAddress: contractAddr, CallData: callData, CallbackAddress: callback, FeeOption: feeOption}

		expectSeq := uint64(0)
		if dst != "no-client" {
			expectSeq = c.ContractNextSeq(dst)
		}
		res := c.CrossChainCall(w.user, data, fee)
		desc := func() interface{} {
			return map[string]string{"dst": dst, "token": tokenKind, "amount": amount.String(), "receiver": clip(fmt.Sprintf("%+q", receiver), 100),
				"contract": clip(fmt.Sprintf("%+q", contractAddr), 100), "callData": clip(fmt.Sprintf("%x", callData), 80), "callback": callback.Hex(),
				"feeOption": fmt.Sprint(feeOption), "fee": fee.Amount.String(), "result": fmt.Sprintf("code=%d vm=%q", res.Code, res.VmError)}
		}
		if res.Code != 0 {
			kit.Failf("crossChainCall tx not included: code=%d log=%s", res.Code, clip(res.Log, 300))
		}
		if !res.Succeeded() {
			r.Label("contract:rejected:" + res.VmError)
			if len(emittedPackets(res)) != 0 && res.VmError == "" {
				t.Fatalf("failed tx carries packet logs")
			}
			r.Case("rejected", false, nil)
			return
		}
		raws := emittedPackets(res)
		evs := kit.SentPackets(res.TxResult)
		if len(raws) != 1 || len(evs) != 1 {
			t.Fatalf("accepted crossChainCall produced %d PacketSent logs and %d send events (want 1/1): %v", len(raws), len(evs), desc())
		}
		b := raws[0]
		if nonUTF8 && amount.Sign() == 0 {
			nonUTF8 = false // the receiver is not part of a packet without transfer data
		}
		if nonUTF8 {
			// observation only: the receiver sits inside the transfer data; the JSON hop of
			// TransferData.ABIDecode replaces invalid UTF-8 by U+FFFD
			var p packettypes.Packet
			var td packettypes.TransferData
			if err := p.ABIDecode(b); err == nil && td.ABIDecode(p.TransferData) == nil {
				if re, _ := td.ABIPack(); !bytes.Equal(re, p.TransferData) {
					r.Label("observed(outside quantifier):non_utf8_receiver:transfer_data_reencodes_differently")
				} else {
					r.Label("observed(outside quantifier):non_utf8_receiver:transfer_data_reencodes_identically")
				}
			}
			r.Case("non-utf8", false, nil)
			return
		}
		ref, strict := refDecodeStrict(codecPacket.kinds, b)
		if !strict {
			t.Fatalf("packet contract emitted bytes that are not a canonical ABI encoding of the packet tuple: %x\n%v", clipB(b), desc())
		}
		var p packettypes.Packet
		if err := p.ABIDecode(b); err != nil {
			t.Fatalf("ABIDecode rejects contract-emitted bytes: %v\n%v", err, desc())
		}
		if !fieldsEqual(ref, packetFields(p)) {
			t.Fatalf("ABIDecode of contract-emitted bytes lost information\n strict=%s\n    got=%s", render(codecPacket, ref), render(codecPacket, packetFields(p)))
		}
		re, err := p.ABIPack()
		if err != nil || !bytes.Equal(re, b) {
			t.Fatalf("re-encoding contract-emitted bytes changed them (err=%v)\nemitted=%x\n re-enc=%x\n%v", err, clipB(b), clipB(re), desc())
		}
		if !bytes.Equal(evs[0], b) {
			t.Fatalf("EventSendPacket carries other bytes than the contract emitted\n%v", desc())
		}
		sum := sha256.Sum256(b)
		cm, err := packettypes.CommitPacket(&p)
		if err != nil || !bytes.Equal(cm, sum[:]) {
			t.Fatalf("CommitPacket(decoded) != sha256(emitted bytes) (err=%v)\n%v", err, desc())
		}
		stored := c.App.XIBCKeeper.PacketKeeper.GetPacketCommitment(c.Ctx(), p.SrcChain, p.DstChain, p.Sequence)
		if !bytes.Equal(stored, sum[:]) {
			t.Fatalf("stored commitment at %s != sha256(emitted bytes): %x vs %x\n%v", host.PacketCommitmentPath(p.SrcChain, p.DstChain, p.Sequence), stored, sum, desc())
		}
		// loss-free with respect to what the contract was given
		if p.SrcChain != c.ChainID || p.DstChain != dst || p.Sequence != expectSeq || p.FeeOption != feeOption ||
			!strings.EqualFold(p.Sender, w.user.Addr.Hex()) || !strings.EqualFold(p.CallbackAddress, callback.Hex()) {
			t.Fatalf("decoded packet header differs from the call: %s\nexpected src=%s dst=%s seq=%d sender=%s callback=%s feeOption=%d",
				render(codecPacket, packetFields(p)), c.ChainID, dst, expectSeq, w.user.Addr.Hex(), callback.Hex(), feeOption)
		}
		parts := ""
		if amount.Sign() > 0 {
			parts += "T"
			var td packettypes.TransferData
			if err := td.ABIDecode(p.TransferData); err != nil {
				t.Fatalf("TransferData.ABIDecode rejects contract-emitted transfer data: %v\n%v", err, desc())
			}
			if re, err := td.ABIPack(); err != nil || !bytes.Equal(re, p.TransferData) {
				t.Fatalf("re-encoding contract-emitted transfer data changed it (err=%v)\n%x\n%x", err, clipB(p.TransferData), clipB(re))
			}
			wantOri := ""
			if tokenKind == "bound" && dst == w.boundOri {
				wantOri = w.oriToken
			}
			if td.Receiver != receiver || new(big.Int).SetBytes(td.Amount).Cmp(amount) != 0 || len(td.Amount) != 32 ||
				!strings.EqualFold(td.Token, token.Hex()) || td.OriToken != wantOri {
				t.Fatalf("decoded transfer data differs from the call: %s\nexpected token=%s oriToken=%q amount=%s receiver=%+q",
					render(codecTransfer, transferFields(td)), token.Hex(), wantOri, amount, receiver)
			}
		} else if len(p.TransferData) != 0 {
			t.Fatalf("zero-amount call emitted transfer data %x", clipB(p.TransferData))
		}
		// the endpoint drops the call part unless both the contract address and the call data are non-empty
		if len(callData) > 0 && contractAddr != "" && len(p.CallData) == 0 {
			t.Fatalf("call part (contract %+q, %d bytes call data) missing from the emitted packet\n%v", contractAddr, len(callData), desc())
		}
		if len(p.CallData) > 0 {
			parts += "C"
			var cd packettypes.CallData
			if err := cd.ABIDecode(p.CallData); err != nil {
				t.Fatalf("CallData.ABIDecode rejects contract-emitted call data: %v\n%v", err, desc())
			}
			if re, err := cd.ABIPack(); err != nil || !bytes.Equal(re, p.CallData) {
				t.Fatalf("re-encoding contract-emitted call data changed it (err=%v)\n%x\n%x", err, clipB(p.CallData), clipB(re))
			}
			if cd.ContractAddress != contractAddr || !bytes.Equal(cd.CallData, callData) {
				t.Fatalf("decoded call data differs from the call: %s\nexpected contract=%+q callData=%x", render(codecCall, callFields(cd)), contractAddr, clipB(callData))
			}
		}
		cl := classes{}
		classifyString(receiver, cl)
		classifyString(contractAddr, cl)
		if len(callData) > 0 {
			classifyBytes(callData, cl)
		}
		classifyUint(feeOption, cl)
		classifyName(dst, cl)
		if amount.BitLen() > 64 {
			cl.add("amount:>2^64")
		}
		if tokenKind == "bound" && dst == w.boundOri && amount.Sign() > 0 {
			cl.add("transfer:oriToken_set")
		}
		for _, k := range cl.list() {
			r.Label(k)
		}
		r.Label("contract:accepted")
		r.Label("contract:token=" + tokenKind)
		r.Label("contract:parts=" + parts)
		r.LabelN("contract:emitted_bytes", len(b))
		r.Case(tokenKind+"|"+parts+"|"+cl.key(), len(cl) > 0, sampled("contract", 2, desc))
	})
}
