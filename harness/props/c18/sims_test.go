package c18

// Counterparty installations for the four client types. Each inst is one "thing a proposal can
// install": a client state + consensus state taken from a freshly built simulated counterparty
// (tmsim / bscsim / ethsim+evmsim / a TSS account), a packet commitment planted in the counterparty
// state at the installed height with its genuine proof, the metadata the client type is expected to
// write on initialisation (derived here from the simulator's own header, not from the client), and a
// source of valid next headers. Every free choice is a rapid draw.

import (
	"encoding/binary"
	"encoding/json"
	"fmt"
	"math/big"
	"time"

	"github.com/ethereum/go-ethereum/common"
	gethtypes "github.com/ethereum/go-ethereum/core/types"
	"github.com/ethereum/go-ethereum/crypto"
	"github.com/tendermint/tendermint/crypto/tmhash"
	tmtypes "github.com/tendermint/tendermint/types"
	"pgregory.net/rapid"

	bsctypes "github.com/teleport-network/teleport/x/xibc/clients/light-clients/bsc/types"
	ethtypes "github.com/teleport-network/teleport/x/xibc/clients/light-clients/eth/types"
	xibctmtypes "github.com/teleport-network/teleport/x/xibc/clients/light-clients/tendermint/types"
	tsstypes "github.com/teleport-network/teleport/x/xibc/clients/tss-client/types"
	clienttypes "github.com/teleport-network/teleport/x/xibc/core/client/types"
	commitmenttypes "github.com/teleport-network/teleport/x/xibc/core/commitment/types"
	"github.com/teleport-network/teleport/x/xibc/exported"

	"verif/harness/kit"
	"verif/harness/sim/bscsim"
	"verif/harness/sim/ethsim"
	"verif/harness/sim/evmsim"
	"verif/harness/sim/tmsim"
)

const (
	TM  = exported.Tendermint // "tendermint"
	BSC = exported.BSC        // "bsc"
	ETH = exported.ETH        // "eth"
	TSS = exported.TSS        // "tss"
)

var allTypes = []string{TM, BSC, ETH, TSS}

// rbytes expands one drawn 64-bit value into n pseudo-random bytes (keccak stream).
func rbytes(t *rapid.T, label string, n int) []byte {
	s := rapid.Uint64().Draw(t, label)
	var seed [8]byte
	binary.BigEndian.PutUint64(seed[:], s)
	out := make([]byte, 0, n+32)
	blk := crypto.Keccak256(seed[:])
	for len(out) < n {
		out = append(out, blk...)
		blk = crypto.Keccak256(blk)
	}
	return out[:n]
}

func rhash(t *rapid.T, label string) common.Hash { return common.BytesToHash(rbytes(t, label, 32)) }

// heightKey is the 16-byte big-endian (revision, height) used in consensus-state keys.
func heightKey(h clienttypes.Height) []byte {
	b := make([]byte, 16)
	binary.BigEndian.PutUint64(b, h.RevisionNumber)
	binary.BigEndian.PutUint64(b[8:], h.RevisionHeight)
	return b
}

func consKey(h clienttypes.Height) string { return "consensusStates/" + string(heightKey(h)) }

// metaKV is one expected client-store entry (key relative to the client prefix).
type metaKV struct {
	Key   string
	Value []byte
	What  string
}

// inst is one installable client.
type inst struct {
	Typ    string
	CS     exported.ClientState
	Cons   exported.ConsensusState
	Height clienttypes.Height
	Src    string // packet source chain = the client's chain name
	Seq    uint64
	Value  []byte // 32-byte packet commitment planted at Height
	Desc   map[string]interface{}

	tm  *tmInst
	bsc *bscInst
	eth *ethInst
	tss *tssInst
}

type tmInst struct {
	sim     *tmsim.Chain
	rev     uint64
	nk      int
	delay   uint64
	members []tmsim.Member
	trusted int64 // sim height the client is expected to have as latest
}

type bscInst struct {
	keys     []bscsim.Key // index = position in the ascending validator list
	vals     []common.Address
	chainID  uint64
	epoch    uint64
	head     *bscsim.Header
	genesis  *bscsim.Header
	world    *evmsim.World
	contract common.Address
	outsider bscsim.Key
	// the list announced by the installed (epoch) header and by every later epoch header; it replaces vals for the blocks
	// above genesis + len(vals)/2 (equal to vals when the counterparty does not rotate its validators)
	nextKeys []bscsim.Key
	nextVals []common.Address
}

// sealer is the in-turn validator of block `number` under the list in force for that block.
func (s *bscInst) sealer(number uint64) bscsim.Key {
	if number > s.genesis.Number+uint64(len(s.vals)/2) {
		return s.nextKeys[number%uint64(len(s.nextKeys))]
	}
	return s.keys[number%uint64(len(s.keys))]
}

// sortedKeys derives n validator keys from a seed, in ascending address order.
func sortedKeys(seed []byte, from, n int) ([]bscsim.Key, []common.Address) {
	var addrs []common.Address
	byAddr := map[common.Address]bscsim.Key{}
	for i := from; i < from+n; i++ {
		k := bscsim.KeyFromSeed(seed, i)
		addrs = append(addrs, k.Addr)
		byAddr[k.Addr] = k
	}
	vals := bscsim.Sorted(addrs)
	keys := make([]bscsim.Key, n)
	for i, a := range vals {
		keys[i] = byAddr[a]
	}
	return keys, vals
}

type ethInst struct {
	head     *gethtypes.Header
	genesis  *gethtypes.Header
	world    *evmsim.World
	contract common.Address
	delay    uint64
}

type tssInst struct {
	addr kit.Account
}

// genParams steers the heights of a new installation (to place it above/below what a client already stores).
type genParams struct {
	now  time.Time
	src  string
	dst  string
	low  bool // prefer a low height / revision
	high bool // prefer a high one
}

func commitmentValue(t *rapid.T) []byte {
	return tmhash.Sum(rbytes(t, "commitment", 8))
}

func commitmentPath(src, dst string, seq uint64) []byte {
	return []byte(fmt.Sprintf("commitments/%s/%s/sequences/%d", src, dst, seq))
}

func drawHeight(t *rapid.T, p genParams, label string) uint64 {
	switch {
	case p.low:
		return rapid.Uint64Range(1, 40).Draw(t, label+"_low")
	case p.high:
		return rapid.Uint64Range(100_000, 1<<40).Draw(t, label+"_high")
	}
	if rapid.IntRange(0, 3).Draw(t, label+"_kind") == 0 {
		return rapid.Uint64Range(1000, 1<<40).Draw(t, label+"_any")
	}
	return rapid.Uint64Range(1, 300).Draw(t, label+"_small")
}

// ---------------------------------------------------------------------------------------------
// Tendermint

func newTM(t *rapid.T, p genParams) *inst {
	in := &inst{Typ: TM, Src: p.src, Seq: rapid.Uint64Range(1, 1<<20).Draw(t, "seq"), Value: commitmentValue(t)}
	nk := rapid.IntRange(1, 4).Draw(t, "tm_keys")
	salt := rapid.IntRange(0, 3).Draw(t, "tm_salt")
	keys := make([]tmsim.Key, nk)
	for i := range keys {
		keys[i] = tmsim.NewKey([]byte(fmt.Sprintf("c18-%d-%d", salt, i)))
	}
	rev := uint64(rapid.SampledFrom([]int{0, 1, 1, 2, 9}).Draw(t, "tm_rev"))
	if p.low {
		rev = 0
	}
	chainID := "simtm"
	if rev > 0 {
		chainID = fmt.Sprintf("simtm-%d", rev)
	}
	first := int64(drawHeight(t, p, "tm_first"))
	members := drawMembers(t, nk)
	next := members
	if rapid.IntRange(0, 2).Draw(t, "tm_next_changes") == 0 {
		next = drawMembers(t, nk)
	}
	t0 := p.now.Add(-time.Duration(rapid.IntRange(60, 600).Draw(t, "tm_age_s")) * time.Second)
	writes := []tmsim.KV{{Key: commitmentPath(p.src, p.dst, in.Seq), Value: in.Value},
		{Key: []byte("other/key"), Value: rbytes(t, "tm_other", 8)}}
	sim := tmsim.NewChain(chainID, keys, first, t0, members, next, writes)
	b := sim.Blocks[first]
	delay := rapid.SampledFrom([]uint64{0, 0, 1, uint64(time.Second), uint64(7 * time.Second), uint64(time.Minute)}).Draw(t, "tm_delay")
	tp := rapid.SampledFrom([]time.Duration{2 * time.Hour, 24 * time.Hour, kit.TrustingPeriod}).Draw(t, "tm_tp")
	tl := rapid.SampledFrom([]xibctmtypes.Fraction{{Numerator: 1, Denominator: 3}, {Numerator: 2, Denominator: 3}}).Draw(t, "tm_tl")
	h := clienttypes.NewHeight(rev, uint64(first))
	cs := xibctmtypes.NewClientState(chainID, tl, tp, tp+tp/2, kit.MaxClockDrift, h,
		commitmenttypes.GetSDKSpecs(), commitmenttypes.MerklePrefix{KeyPrefix: []byte("xibc")}, delay)
	kit.Must(cs.Validate(), "tm client state")
	in.CS = cs
	in.Cons = &xibctmtypes.ConsensusState{Timestamp: b.Time, Root: b.AppHash, NextValidatorsHash: b.NextVals.Hash()}
	in.Height = h
	in.tm = &tmInst{sim: sim, rev: rev, nk: nk, delay: delay, members: next, trusted: first}
	in.Desc = map[string]interface{}{"chain_id": chainID, "height": h.String(), "validators": len(members), "delay_ns": delay, "trusting": tp.String()}
	return in
}

func drawMembers(t *rapid.T, nk int) []tmsim.Member {
	n := rapid.IntRange(1, nk).Draw(t, "tm_members")
	ms := make([]tmsim.Member, n)
	for i := range ms {
		ms[i] = tmsim.Member{Key: i, Power: rapid.Int64Range(1, 10).Draw(t, "tm_power")}
	}
	return ms
}

func (in *inst) tmNext(t *rapid.T, now time.Time) (*xibctmtypes.Header, *tmsim.Block) {
	s := in.tm
	prev := s.sim.Blocks[s.sim.Last]
	next := s.members
	if rapid.IntRange(0, 3).Draw(t, "tm_valset_change") == 0 {
		next = drawMembers(t, s.nk)
	}
	bt := prev.Time.Add(time.Second)
	if bt.After(now) {
		kit.Failf("tmsim clock ran ahead of the chain clock")
	}
	b := s.sim.Produce(bt, next, []tmsim.KV{{Key: []byte("other/key"), Value: rbytes(t, "tm_other", 8)}})
	s.members = next
	hdr := b.Header
	modes := make([]tmsim.SigMode, len(b.Vals.Validators))
	for i := range modes {
		modes[i] = tmsim.SigCommit
	}
	commit := s.sim.MakeCommit(&hdr, b.Vals, tmsim.CommitSpec{
		Round: int32(rapid.IntRange(0, 2).Draw(t, "tm_round")),
		Parts: tmtypes.PartSetHeader{Total: 3, Hash: tmhash.Sum([]byte("part_set"))},
		Modes: modes, SigTime: hdr.Time,
	})
	msg := tmsim.Assemble(&hdr, commit, b.Vals, clienttypes.NewHeight(s.rev, uint64(prev.Height)), prev.NextVals)
	return msg, b
}

// ---------------------------------------------------------------------------------------------
// EVM world shared by BSC and ETH

func newEVMWorld(t *rapid.T, contract common.Address, src, dst string, seq uint64, value []byte) *evmsim.World {
	st := map[common.Hash][]byte{evmsim.Slot(commitmentPath(src, dst, seq)): evmsim.WordLeaf(common.BytesToHash(value))}
	for i := rapid.IntRange(0, 4).Draw(t, "evm_slots"); i > 0; i-- {
		st[rhash(t, "evm_slot")] = evmsim.WordLeaf(rhash(t, "evm_word"))
	}
	accts := []*evmsim.Account{{Addr: contract, Nonce: 1, Balance: big.NewInt(int64(rapid.IntRange(0, 1000).Draw(t, "evm_balance"))),
		CodeHash: rhash(t, "evm_code"), Storage: st}}
	seen := map[common.Address]bool{contract: true}
	for i := rapid.IntRange(0, 5).Draw(t, "evm_accounts"); i > 0; i-- {
		a := common.BytesToAddress(rbytes(t, "evm_addr", 20))
		if seen[a] {
			continue
		}
		seen[a] = true
		accts = append(accts, &evmsim.Account{Addr: a, Nonce: uint64(i), Balance: big.NewInt(int64(i) * 1000), CodeHash: evmsim.EmptyCode, Storage: map[common.Hash][]byte{}})
	}
	return evmsim.NewWorld(accts)
}

func evmProof(w *evmsim.World, contract common.Address, src, dst string, seq uint64) []byte {
	bz, err := json.Marshal(w.Prove(contract, evmsim.Slot(commitmentPath(src, dst, seq))))
	kit.Must(err, "marshal evm proof")
	return bz
}

// ---------------------------------------------------------------------------------------------
// BSC (Parlia): constant validator list, in-turn round robin (block n is sealed by sorted[n mod N] with difficulty 2)

func newBSC(t *rapid.T, p genParams) *inst {
	in := &inst{Typ: BSC, Src: p.src, Seq: rapid.Uint64Range(1, 1<<20).Draw(t, "seq"), Value: commitmentValue(t)}
	n := rapid.IntRange(1, 5).Draw(t, "bsc_n")
	seed := rapid.Uint64().Draw(t, "bsc_seed")
	keys, vals := sortedKeys(kit.U64(seed), 0, n)
	s := &bscInst{keys: keys, vals: vals, outsider: bscsim.KeyFromSeed(kit.U64(seed), 99), nextKeys: keys, nextVals: vals}
	// two thirds of the counterparties rotate their validators at the installed epoch header: it announces a disjoint list of
	// 1-5 new validators (disjoint, so that no new validator is a recent signer when the list takes over)
	rotates := n >= 2 && rapid.IntRange(0, 2).Draw(t, "bsc_rotates") != 0
	if rotates {
		s.nextKeys, s.nextVals = sortedKeys(kit.U64(seed), 10, rapid.IntRange(1, 5).Draw(t, "bsc_next_n"))
	}
	s.epoch = uint64(rapid.IntRange(n/2+1, 9).Draw(t, "bsc_epoch"))
	s.chainID = rapid.SampledFrom([]uint64{56, 97, 714, 1<<32 + 5}).Draw(t, "bsc_chain_id")
	g := s.epoch * (drawHeight(t, p, "bsc_epochs"))
	// (a genesis at block 0 of revision 0 is no longer generated: ClientState.Validate rejects the zero
	// height since the C13 zero-height-client-export-invalid fix)
	s.contract = common.BytesToAddress(rbytes(t, "bsc_contract", 20))
	s.world = newEVMWorld(t, s.contract, p.src, p.dst, in.Seq, in.Value)
	gas := rapid.Uint64Range(1_000_000, 100_000_000).Draw(t, "bsc_gas")
	gh := &bscsim.Header{
		ParentHash: rhash(t, "bsc_gparent"), UncleHash: bscsim.EmptyUncleHash, Root: s.world.Root(),
		TxHash: rhash(t, "bsc_tx"), ReceiptHash: rhash(t, "bsc_rc"), Number: g, GasLimit: gas, GasUsed: gas / 3,
		Time: uint64(p.now.Unix()) - uint64(rapid.IntRange(0, 600).Draw(t, "bsc_age_s")),
	}
	s.fill(t, gh)
	s.genesis, s.head = gh, gh
	var vb [][]byte
	for _, a := range vals {
		vb = append(vb, a.Bytes())
	}
	cs := &bsctypes.ClientState{Header: *gh.ToProto(), ChainId: s.chainID, Epoch: s.epoch, BlockInteval: 3, Validators: vb,
		ContractAddress: s.contract.Bytes(), TrustingPeriod: rapid.SampledFrom([]uint64{7200, 1 << 20, 1 << 40}).Draw(t, "bsc_tp")}
	kit.Must(cs.Validate(), "bsc client state")
	in.CS = cs
	in.Height = cs.Header.Height
	in.Cons = &bsctypes.ConsensusState{Timestamp: gh.Time, Height: cs.Header.Height, Root: gh.Root.Bytes()}
	in.bsc = s
	in.Desc = map[string]interface{}{"height": in.Height.String(), "validators": n, "epoch": s.epoch, "chain_id": s.chainID, "delay_blocks": n/2 + 1, "rotates_to": len(s.nextVals), "rotates": rotates}
	return in
}

// fill completes and seals a header for its number: in-turn sealer, epoch validator bytes.
func (s *bscInst) fill(t *rapid.T, h *bscsim.Header) {
	k := s.keys[h.Number%uint64(len(s.keys))] // the installed header itself
	if s.genesis != nil {
		k = s.sealer(h.Number)
	}
	h.Coinbase = k.Addr
	h.Difficulty = new(big.Int).Set(bscsim.DiffInTurn)
	var vanity [32]byte
	copy(vanity[:], rbytes(t, "bsc_vanity", 32))
	var mid []byte
	if h.Number%s.epoch == 0 {
		mid = bscsim.AddrBytes(s.nextVals)
	}
	h.Extra = bscsim.BuildExtra(vanity, mid)
	bscsim.Seal(h, k, s.chainID)
}

func (s *bscInst) next(t *rapid.T) *bscsim.Header {
	p := s.head
	h := &bscsim.Header{ParentHash: p.Hash(), UncleHash: bscsim.EmptyUncleHash, Root: rhash(t, "bsc_root"), TxHash: rhash(t, "bsc_tx"),
		ReceiptHash: rhash(t, "bsc_rc"), Number: p.Number + 1, GasLimit: p.GasLimit, GasUsed: p.GasLimit / 2, Time: p.Time + 3}
	s.fill(t, h)
	return h
}

// ---------------------------------------------------------------------------------------------
// ETH (Rinkeby mode: chain id 4, no proof of work)

func newETH(t *rapid.T, p genParams) *inst {
	in := &inst{Typ: ETH, Src: p.src, Seq: rapid.Uint64Range(1, 1<<20).Draw(t, "seq"), Value: commitmentValue(t)}
	s := &ethInst{contract: common.BytesToAddress(rbytes(t, "eth_contract", 20))}
	s.world = newEVMWorld(t, s.contract, p.src, p.dst, in.Seq, in.Value)
	gl := rapid.Uint64Range(5_000_000, 60_000_000).Draw(t, "eth_gas")
	g := ethsim.Genesis(ethsim.GenesisOpts{
		Number: drawHeight(t, p, "eth_number"), Time: uint64(p.now.Unix()) - uint64(rapid.IntRange(600, 1200).Draw(t, "eth_age_s")),
		GasLimit: gl, GasUsed: gl / uint64(rapid.IntRange(1, 4).Draw(t, "eth_used_div")), BaseFee: rapid.Uint64Range(7, 1<<34).Draw(t, "eth_basefee"),
		Root: s.world.Root(), Extra: rbytes(t, "eth_extra", rapid.IntRange(0, 32).Draw(t, "eth_extra_len")),
	})
	s.genesis, s.head = g, g
	s.delay = uint64(rapid.IntRange(0, 3).Draw(t, "eth_block_delay"))
	cs := &ethtypes.ClientState{Header: *ethsim.ToProto(g), ChainId: 4, ContractAddress: s.contract.Bytes(),
		TrustingPeriod: rapid.SampledFrom([]uint64{7200, 1 << 20, 1 << 40}).Draw(t, "eth_tp"),
		TimeDelay:      uint64(rapid.IntRange(0, 2).Draw(t, "eth_time_delay")), BlockDelay: s.delay}
	kit.Must(cs.Validate(), "eth client state")
	in.CS = cs
	in.Height = cs.Header.Height
	in.Cons = ethsim.ConsensusState(g)
	in.eth = s
	in.Desc = map[string]interface{}{"height": in.Height.String(), "block_delay": s.delay, "gas_limit": gl}
	return in
}

func (s *ethInst) next(t *rapid.T) *gethtypes.Header {
	return ethsim.Child(s.head, ethsim.ChildOpts{
		DT: uint64(rapid.IntRange(1, 15).Draw(t, "eth_dt")), GasLimitDelta: int64(rapid.IntRange(-2000, 2000).Draw(t, "eth_gl_delta")),
		GasUsedPermil: uint64(rapid.IntRange(0, 1000).Draw(t, "eth_used")), Root: rhash(t, "eth_root"),
		Extra: rbytes(t, "eth_extra", 8), Coinbase: common.BytesToAddress(rbytes(t, "eth_coinbase", 20)), Difficulty: 2,
	})
}

// ---------------------------------------------------------------------------------------------
// TSS

func newTSS(t *rapid.T, p genParams, acct kit.Account) *inst {
	in := &inst{Typ: TSS, Src: p.src, Seq: rapid.Uint64Range(1, 1<<20).Draw(t, "seq"), Value: commitmentValue(t)}
	parts := [][]byte{}
	for i := rapid.IntRange(0, 3).Draw(t, "tss_parts"); i > 0; i-- {
		parts = append(parts, rbytes(t, "tss_part", 33))
	}
	in.CS = &tsstypes.ClientState{TssAddress: acct.Acc.String(), Pubkey: rbytes(t, "tss_pubkey", 33), PartPubkeys: parts,
		Threshold: uint64(rapid.IntRange(0, 3).Draw(t, "tss_threshold"))}
	in.Cons = &tsstypes.ConsensusState{}
	in.Height = clienttypes.Height{}
	in.tss = &tssInst{addr: acct}
	in.Desc = map[string]interface{}{"tss_address": acct.Acc.String()}
	return in
}
