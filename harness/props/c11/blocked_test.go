// C11, last clause ("never pay out to a blocked address"), at the level below signature checking: the message server is what
// the ICS-20 hook calls and what any other in-process caller would call, with whatever sender it likes - in particular a
// module account, which can never sign a transaction. Whoever the sender is (an ordinary account, another module account,
// the blocked account itself), a conversion whose receiver is a bank-blocked module account must be refused.
package c11

import (
	"fmt"
	"sort"
	"testing"

	"github.com/ethereum/go-ethereum/common"
	"pgregory.net/rapid"

	sdk "github.com/cosmos/cosmos-sdk/types"
	banktypes "github.com/cosmos/cosmos-sdk/x/bank/types"
	transfertypes "github.com/cosmos/ibc-go/v3/modules/apps/transfer/types"

	aggregatetypes "github.com/teleport-network/teleport/x/aggregate/types"

	"verif/harness/kit"
	"verif/harness/rec"
)

const ruleBlocked = "message-server level (the entry point below signature checking; the ICS-20 hook calls it with sender = receiver): ConvertCoin / ConvertERC20 whose " +
	"receiver is a bank-blocked module account, for drawn (direction, blocked account, sender in {ordinary account, another module account, the blocked account itself}, " +
	"amount in {1, part, whole balance}); the sender holds the coins / tokens, so only the blocked receiver stands in the way (positive control on a branch: the same message " +
	"paying an ordinary account succeeds and moves exactly the amount); oracle: the call returns an error; non-trivial = the sender is a module account; " +
	"distinct by (direction, receiver, sender kind, amount class)"

func runBlocked(t *rapid.T, r *rec.Recorder) {
	c := ibcChain()
	a := c.App
	ctx, _ := c.Ctx().CacheContext()
	modAcc := a.AccountKeeper.GetModuleAddress(aggregatetypes.ModuleName)
	voucher := transfertypes.ParseDenomTrace("transfer/channel-5/c11blocked").IBCDenom()
	mint := func(to sdk.AccAddress, coins sdk.Coins) {
		kit.Must(a.BankKeeper.MintCoins(ctx, aggregatetypes.ModuleName, coins), "mint")
		kit.Must(a.BankKeeper.SendCoins(ctx, modAcc, to, coins), "fund")
	}
	user := c.Accounts[0]
	mint(user.Acc, sdk.NewCoins(sdk.NewInt64Coin(voucher, 1_000_000)))
	md := banktypes.Metadata{Description: "voucher", Base: voucher, Display: voucher, Name: "c11blocked via channel-5", Symbol: "ibcB",
		DenomUnits: []*banktypes.DenomUnit{{Denom: voucher, Exponent: 0}}}
	govDo(a, ctx, aggregatetypes.NewRegisterCoinProposal("c11", "c11", md), "RegisterCoin")
	pair, found := a.AggregateKeeper.GetTokenPair(ctx, a.AggregateKeeper.GetTokenPairID(ctx, voucher))
	if !found {
		kit.Failf("pair of %s not found", voucher)
	}
	token := pair.GetERC20Contract()

	// the blocked module accounts of the application, in a fixed order (the aggregate module's own account holds the escrow
	// and is left out as a sender; it stays a receiver)
	var blocked []string
	for addr, isBlocked := range a.BlockedAddrs() {
		if isBlocked {
			blocked = append(blocked, addr)
		}
	}
	sort.Strings(blocked)
	if len(blocked) < 2 {
		kit.Failf("application has %d blocked addresses", len(blocked))
	}
	ri := rapid.IntRange(0, len(blocked)-1).Draw(t, "blockedReceiver")
	recvAcc, err := sdk.AccAddressFromBech32(blocked[ri])
	kit.Must(err, "blocked address")
	senderKind := rapid.SampledFrom([]string{"ordinary", "self", "self", "other-module"}).Draw(t, "sender")
	sender := user.Acc
	switch senderKind {
	case "self":
		sender = recvAcc
	case "other-module":
		oi := (ri + 1 + rapid.IntRange(0, len(blocked)-2).Draw(t, "otherModule")) % len(blocked)
		sender, err = sdk.AccAddressFromBech32(blocked[oi])
		kit.Must(err, "blocked address")
	}
	if sender.Equals(modAcc) {
		senderKind, sender = "ordinary", user.Acc
	}
	have := sdk.NewInt(rapid.Int64Range(1, 100_000).Draw(t, "senderHolds"))
	amount, class := have, "whole-balance"
	switch rapid.IntRange(0, 2).Draw(t, "amountKind") {
	case 0:
		amount, class = sdk.OneInt(), "one"
	case 1:
		amount, class = sdk.NewInt(rapid.Int64Range(1, have.Int64()).Draw(t, "part")), "part"
	}
	toToken := rapid.Bool().Draw(t, "coinToToken")
	dir := "token->coin"
	if toToken {
		dir = "coin->token"
	}
	senderHex := common.BytesToAddress(sender.Bytes())
	// fund the sender on the side it converts from (module accounts hold coins and tokens in real life: fees, rewards, tokens
	// anybody transferred to their address)
	if toToken {
		if !sender.Equals(user.Acc) {
			kit.Must(a.BankKeeper.SendCoins(ctx, user.Acc, sender, sdk.NewCoins(sdk.NewCoin(voucher, have))), "fund sender with coins")
		}
	} else {
		cctx, write := ctx.CacheContext()
		_, err := a.AggregateKeeper.ConvertCoin(sdk.WrapSDKContext(cctx), aggregatetypes.NewMsgConvertCoin(sdk.NewCoin(voucher, have), user.Addr, user.Acc))
		kit.Must(err, "user converts coins into tokens")
		write()
		if !sender.Equals(user.Acc) {
			_, err := a.AggregateKeeper.CallEVM(ctx, erc20, user.Addr, token, "transfer", senderHex, have.BigInt())
			kit.Must(err, "token transfer to the sender")
		}
	}
	call := func(ctx sdk.Context, to sdk.AccAddress) error {
		cctx, _ := ctx.CacheContext()
		var err error
		func() {
			defer func() {
				if p := recover(); p != nil {
					err = fmt.Errorf("panic: %v", p)
				}
			}()
			if toToken {
				_, err = a.AggregateKeeper.ConvertCoin(sdk.WrapSDKContext(cctx), aggregatetypes.NewMsgConvertCoin(sdk.NewCoin(voucher, amount), common.BytesToAddress(to.Bytes()), sender))
			} else {
				_, err = a.AggregateKeeper.ConvertERC20(sdk.WrapSDKContext(cctx), aggregatetypes.NewMsgConvertERC20(amount, to, token, senderHex, voucher))
			}
		}()
		return err
	}
	r.Step()
	what := fmt.Sprintf("%s of %s %s by %s sender %s to the blocked module account %s", dir, amount, voucher, senderKind, sender, recvAcc)
	// positive control: an ordinary receiver gets the amount
	if cerr := call(ctx, kit.NewAccount([]byte("c11-blocked-control")).Acc); cerr != nil {
		kit.Failf("control conversion to an ordinary account failed (%s): %v", what, cerr)
	}
	if err := call(ctx, recvAcc); err == nil {
		t.Fatalf("a conversion paying out to a blocked address was accepted: %s", what)
	}
	r.Label("refused:" + dir + ":" + senderKind)
	r.Case(fmt.Sprintf("%s|recv=%d|%s|%s", dir, ri, senderKind, class), senderKind != "ordinary", func() interface{} { return what })
}

func TestC11_BlockedPayout(t *testing.T) {
	r := rec.For("TestC11_BlockedPayout", ruleBlocked)
	rapid.Check(t, func(t *rapid.T) { runBlocked(t, r) })
}
