package c07

// Reference model of the Tendermint light-client update rule and of proof gating, written from the
// text of property C07. It looks only at the concrete update message (protobuf value types), the
// model's own record of what the client has stored, and the clock. Tendermint library code is used
// only for canonical encodings (header hash, validator-set hash, vote sign bytes) and ed25519.

import (
	"bytes"
	"fmt"
	"math/big"
	"regexp"
	"sort"
	"strconv"
	"strings"
	"time"

	"github.com/tendermint/tendermint/crypto/ed25519"
	tmproto "github.com/tendermint/tendermint/proto/tendermint/types"
	tmtypes "github.com/tendermint/tendermint/types"

	xibctmtypes "github.com/teleport-network/teleport/x/xibc/clients/light-clients/tendermint/types"
)

type hkey struct{ Rev, H uint64 }

func (a hkey) less(b hkey) bool {
	if a.Rev != b.Rev {
		return a.Rev < b.Rev
	}
	return a.H < b.H
}
func (a hkey) String() string { return fmt.Sprintf("%d-%d", a.Rev, a.H) }

type consRec struct {
	Time         time.Time
	Root         []byte
	NextValsHash []byte
	Processed    uint64 // unix nanoseconds of the block that stored it
	HasProcessed bool
}

type clientModel struct {
	ChainID  string
	TrustNum uint64
	TrustDen uint64
	TP       time.Duration
	Drift    time.Duration
	Delay    uint64
	Latest   hkey
	Cons     map[hkey]*consRec
}

func (m *clientModel) clone() *clientModel {
	c := *m
	c.Cons = make(map[hkey]*consRec, len(m.Cons))
	for k, v := range m.Cons {
		cp := *v
		c.Cons[k] = &cp
	}
	return &c
}

func (m *clientModel) heights() []hkey {
	hs := make([]hkey, 0, len(m.Cons))
	for k := range m.Cons {
		hs = append(hs, k)
	}
	sort.Slice(hs, func(i, j int) bool { return hs[i].less(hs[j]) })
	return hs
}

// expiredAt: a state with timestamp ts can no longer be trusted at `now`.
func (m *clientModel) expiredAt(ts, now time.Time) bool { return !now.Before(ts.Add(m.TP)) }

type verdict int

const (
	vReject verdict = iota
	vAccept
	vEither
)

func (v verdict) String() string { return [...]string{"reject", "accept", "either"}[v] }

// assessment is everything the model derives about one update message at one clock value.
type assessment struct {
	V       verdict
	Reasons []string // every independent reason for rejection (empty for accept/either)
	Height  hkey     // height of the header
	Adj     bool
	// tallies (valid only when the message was well-formed enough to compute them)
	OwnTotal, OwnValid     int64
	TrTotal, TrValid       int64
	OwnDist, TrDist        int64 // valid power minus minimal sufficient power (0 = minimal sufficient, -1 = one unit short)
	HaveOwn, HaveTr, Clean bool
	hdrTime                time.Time
	appHash, nextValsHash  []byte
}

var revRe = regexp.MustCompile(`^.*[^-]-{1}[1-9][0-9]*$`)

// revisionOf is the revision number a chain id denotes ("name-N" with N a positive decimal, else 0).
func revisionOf(chainID string) uint64 {
	if !revRe.MatchString(chainID) {
		return 0
	}
	i := strings.LastIndex(chainID, "-")
	n, err := strconv.ParseUint(chainID[i+1:], 10, 64)
	if err != nil {
		return 0
	}
	return n
}

// chainIDAtRevision is the client's chain id with its revision replaced (only for revision-format ids).
func chainIDAtRevision(chainID string, rev uint64) string {
	if !revRe.MatchString(chainID) {
		return chainID
	}
	i := strings.LastIndex(chainID, "-")
	return chainID[:i+1] + strconv.FormatUint(rev, 10)
}

// minSufficient is the least integer power strictly greater than num/den of total.
func minSufficient(total int64, num, den uint64) *big.Int {
	x := new(big.Int).Mul(big.NewInt(total), new(big.Int).SetUint64(num))
	x.Quo(x, new(big.Int).SetUint64(den)) // floor(total*num/den)
	return x.Add(x, big.NewInt(1))
}

func dist(valid, total int64, num, den uint64) int64 {
	d := new(big.Int).Sub(big.NewInt(valid), minSufficient(total, num, den))
	if !d.IsInt64() {
		return -1 << 62
	}
	return d.Int64()
}

// sigCache memoises signature verifications of one update message (they do not depend on the clock).
type sigCache struct{ m map[string]bool }

func newSigCache() *sigCache { return &sigCache{m: map[string]bool{}} }

// assess evaluates the update rule of the property text.
func (m *clientModel) assess(h *xibctmtypes.Header, now time.Time) assessment {
	return m.assessCached(h, now, newSigCache())
}

func (m *clientModel) assessCached(h *xibctmtypes.Header, now time.Time, cache *sigCache) assessment {
	var a assessment
	rej := func(why string) { a.Reasons = append(a.Reasons, why) }

	// an expired client accepts nothing
	if latest, ok := m.Cons[m.Latest]; !ok {
		rej("no-latest-state")
	} else if m.expiredAt(latest.Time, now) {
		rej("client-expired")
	}

	hdr, err := tmtypes.HeaderFromProto(h.SignedHeader.Header)
	if err != nil {
		rej("malformed-header")
		a.V = vReject
		return a
	}
	commit, err := tmtypes.CommitFromProto(h.SignedHeader.Commit)
	if err != nil {
		rej("malformed-commit")
		a.V = vReject
		return a
	}
	rev := revisionOf(hdr.ChainID)
	a.Height = hkey{rev, uint64(hdr.Height)}
	a.hdrTime, a.appHash, a.nextValsHash = hdr.Time, hdr.AppHash, hdr.NextValidatorsHash
	trusted := hkey{h.TrustedHeight.RevisionNumber, h.TrustedHeight.RevisionHeight}
	a.Adj = a.Height.Rev == trusted.Rev && a.Height.H == trusted.H+1

	tr, haveTrusted := m.Cons[trusted]
	if !haveTrusted {
		rej("trusted-height-not-stored")
	}

	// trusted validator set must hash to the next-validators hash stored at the trusted height
	var trVals *tmtypes.ValidatorSet
	if h.TrustedValidators == nil {
		rej("trusted-vals-missing")
	} else if tv, err := tmtypes.ValidatorSetFromProto(h.TrustedValidators); err != nil {
		rej("trusted-vals-malformed")
	} else {
		trVals = tv
		if haveTrusted && !bytes.Equal(tv.Hash(), tr.NextValsHash) {
			rej("trusted-vals-hash")
		}
	}

	// newer than the trusted height, in the same revision, on the client's chain
	if rev != trusted.Rev {
		rej("revision")
	} else if a.Height.H <= trusted.H {
		rej("height-not-newer")
	}
	wantChain := chainIDAtRevision(m.ChainID, rev)
	if hdr.ChainID != wantChain {
		rej("chain-id")
	}

	// trusting period, time ordering, clock drift
	if haveTrusted {
		if m.expiredAt(tr.Time, now) {
			rej("trusted-expired")
		}
		if !hdr.Time.After(tr.Time) {
			rej("time-not-after-trusted")
		}
	}
	if !hdr.Time.Before(now.Add(m.Drift)) {
		rej("time-from-future")
	}

	// the commit must be a commit for this very header
	if commit.Height != hdr.Height || !bytes.Equal(commit.BlockID.Hash, hdr.Hash()) {
		rej("commit-not-for-header")
	}

	// the header's own validator set
	var own *tmtypes.ValidatorSet
	if h.ValidatorSet == nil {
		rej("vals-missing")
	} else if vs, err := tmtypes.ValidatorSetFromProto(h.ValidatorSet); err != nil {
		rej("vals-malformed")
	} else {
		own = vs
		if !bytes.Equal(vs.Hash(), hdr.ValidatorsHash) {
			rej("vals-hash")
		}
		if len(commit.Signatures) != len(vs.Validators) {
			rej("commit-size")
			own = nil
		}
	}

	// signature validity, judged against the header itself
	signBytes := func(idx int) []byte {
		cs := commit.Signatures[idx]
		bid := tmtypes.BlockID{Hash: hdr.Hash(), PartSetHeader: commit.BlockID.PartSetHeader}
		v := &tmproto.Vote{
			Type: tmproto.PrecommitType, Height: hdr.Height, Round: commit.Round,
			BlockID: bid.ToProto(), Timestamp: cs.Timestamp,
		}
		return tmtypes.VoteSignBytes(wantChain, v)
	}
	verifies := func(pub []byte, idx int) bool {
		if len(pub) != ed25519.PubKeySize {
			return false
		}
		k := fmt.Sprintf("%x/%d", pub, idx)
		if v, ok := cache.m[k]; ok {
			return v
		}
		v := ed25519.PubKey(pub).VerifySignature(signBytes(idx), commit.Signatures[idx].Signature)
		cache.m[k] = v
		return v
	}
	a.Clean = true
	if own != nil {
		a.HaveOwn = true
		for idx, cs := range commit.Signatures {
			val := own.Validators[idx]
			a.OwnTotal += val.VotingPower
			if cs.BlockIDFlag != tmtypes.BlockIDFlagCommit {
				continue
			}
			if verifies(val.PubKey.Bytes(), idx) && bytes.Equal(cs.ValidatorAddress, val.Address) {
				a.OwnValid += val.VotingPower
			} else {
				if verifies(val.PubKey.Bytes(), idx) {
					a.OwnValid += val.VotingPower // valid signature under a wrong address label
				}
				a.Clean = false
			}
		}
		a.OwnDist = dist(a.OwnValid, a.OwnTotal, 2, 3)
		if a.OwnDist < 0 {
			rej("own-power")
		}
	}
	if haveTrusted {
		if a.Adj {
			if !bytes.Equal(hdr.ValidatorsHash, tr.NextValsHash) {
				rej("adjacent-vals-hash")
			}
		} else if trVals != nil {
			a.HaveTr = true
			for _, val := range trVals.Validators {
				a.TrTotal += val.VotingPower
				signed := false
				for idx, cs := range commit.Signatures {
					if cs.BlockIDFlag != tmtypes.BlockIDFlagCommit {
						continue
					}
					// a signature that verifies under the slot's own key cannot verify under another key
					if own != nil && !bytes.Equal(own.Validators[idx].PubKey.Bytes(), val.PubKey.Bytes()) && verifies(own.Validators[idx].PubKey.Bytes(), idx) {
						continue
					}
					if verifies(val.PubKey.Bytes(), idx) {
						signed = true
						break
					}
				}
				if signed {
					a.TrValid += val.VotingPower
				}
			}
			a.TrDist = dist(a.TrValid, a.TrTotal, m.TrustNum, m.TrustDen)
			if a.TrDist < 0 {
				rej("trust-level-power")
			}
		}
	}

	switch {
	case len(a.Reasons) > 0:
		a.V = vReject
	case a.Clean:
		a.V = vAccept
	default:
		a.V = vEither // enough valid power, but some present signature is not valid: order-dependent in Tendermint
	}
	return a
}

// apply records an accepted header.
func (m *clientModel) apply(a assessment, now time.Time) {
	m.Cons[a.Height] = &consRec{Time: a.hdrTime, Root: append([]byte{}, a.appHash...), NextValsHash: append([]byte{}, a.nextValsHash...),
		Processed: uint64(now.UnixNano()), HasProcessed: true}
	if m.Latest.less(a.Height) {
		m.Latest = a.Height
	}
}

// proofGate evaluates the gating part of the property for a proof against height q at clock now.
// proofOK says whether the proof really proves the claimed value under the root the model has stored at q.
// Returned: verdict and reason.
func (m *clientModel) proofGate(q hkey, now time.Time, proofOK func(root []byte) bool) (verdict, string) {
	rec, ok := m.Cons[q]
	if !ok {
		return vReject, "height-not-stored"
	}
	if m.Latest.less(q) {
		return vReject, "above-latest"
	}
	if !rec.HasProcessed {
		return vReject, "never-processed"
	}
	valid := new(big.Int).Add(new(big.Int).SetUint64(rec.Processed), new(big.Int).SetUint64(m.Delay))
	cur := new(big.Int).SetUint64(uint64(now.UnixNano()))
	switch cur.Cmp(valid) {
	case -1:
		return vReject, "delay-not-passed"
	case 0:
		if m.Delay != 0 {
			if !proofOK(rec.Root) {
				return vReject, "bad-proof"
			}
			return vEither, "delay-exactly-elapsed"
		}
	}
	if !proofOK(rec.Root) {
		return vReject, "bad-proof"
	}
	return vAccept, ""
}
