// C13 — genesis export/import round trip preserves all module state.
package c13

import (
	"crypto/sha256"
	"encoding/json"
	"fmt"
	"math"
	"math/big"
	"sort"
	"strings"
	"testing"

	"github.com/ethereum/go-ethereum/common"
	"github.com/ethereum/go-ethereum/crypto"
	"pgregory.net/rapid"

	sdk "github.com/cosmos/cosmos-sdk/types"

	erc20contracts "github.com/teleport-network/teleport/syscontracts/erc20"
	aggregatetypes "github.com/teleport-network/teleport/x/aggregate/types"
	rvestingtypes "github.com/teleport-network/teleport/x/rvesting/types"
	tsstypes "github.com/teleport-network/teleport/x/xibc/clients/tss-client/types"
	clienttypes "github.com/teleport-network/teleport/x/xibc/core/client/types"
	packettypes "github.com/teleport-network/teleport/x/xibc/core/packet/types"
	"github.com/teleport-network/teleport/x/xibc/exported"

	"verif/harness/kf"
	"verif/harness/kit"
	"verif/harness/rec"
	"verif/harness/sim/aggsim"
)

func TestMain(m *testing.M) { rec.Main(m) }

const ruleRoundTrip = "module state built on a cache branch of a real app through the keepers: 1-5 light clients (Tendermint/BSC/ETH/TSS, look-alike and " +
	"path-keyword names) created with ClientKeeper.CreateClient at (revision, height) over the full uint64 range biased to key bytes 0x2f/0x00/0xff, 47, 303, " +
	"12079, 47<<56, path keywords; 0-3 real header updates each (tmsim / bscsim / ethsim through ClientKeeper.UpdateClient), far heights through " +
	"SetClientConsensusState + the update code's metadata, upgrades and toggles, relayers, native chain name, packet state through PacketKeeper " +
	"SendPacket / RecvPacket / WriteAcknowledgement / AcknowledgePacket over TSS clients (+ setters for proof-carrying paths), token pairs through " +
	"RegisterCoin / RegisterERC20 / AddCoin / ToggleRelay, aggregate and rvesting params through their subspaces; oracle: AppModule.ExportGenesis JSON " +
	"passes ValidateGenesis, InitGenesis on a cleared branch of a second app reproduces the xibc+aggregate stores and both param subspaces key by key, and " +
	"exporting again gives the same JSON bytes; non-trivial = >=2 client types, >=1 hostile-byte height, >=1 packet key; distinct by (type mix, " +
	"hostile-byte classes, packet kinds, pair kinds)"

// C18 keys whose root cause (ToggleClient keeps the old type's store content) also breaks the round trip.
const (
	keyToggleLeftover    = "toggle-leaves-old-type-state"
	keyC18ToggleLeftover = "toggle-leaves-old-consensus-states"
)

func toggleLeftoverListed() bool {
	return listed(keyToggleLeftover) || kf.Listed("C18", keyC18ToggleLeftover)
}

// ---------------------------------------------------------------------------------------------
// the state machine of one generated case

type gen struct {
	t   *rapid.T
	r   *rec.Recorder
	e   *env
	tss kit.Account

	native  string
	clients []*clientPlan
	byName  map[string]*clientPlan
	log     []string
	cl      classes

	hostile    int // stored heights with >= 1 hostile class
	packetKeys int
	ethCons    bool // some client holds an ETH consensus state

	sent    map[string][]packettypes.Packet // dst -> packets sent (not yet acknowledged)
	recvd   []packettypes.Packet            // received, no ack written yet
	seenRcv map[string]bool

	pairs   []pairRec
	nextTok int
}

type pairRec struct {
	Contract common.Address
	Kind     string
	// name and decimals of an externally deployed contract (a twin with the same data can replace it)
	Name string
	Dec  uint8
}

func (g *gen) logf(format string, a ...interface{}) { g.log = append(g.log, fmt.Sprintf(format, a...)) }

var clientTypes = []string{tTM, tTM, tBSC, tBSC, tETH, tETH, tTSS}

// excludedHeights applies the exclusions by construction to the heights a plan would store;
// it reports true (after counting) when the plan must be redrawn.
func (g *gen) excludedHeights(typ string, hs []clienttypes.Height) bool {
	bad := false
	if key, l := slashListed(typ); l {
		for _, h := range hs {
			if hasSlash(h) {
				g.r.Exclude(key)
				bad = true
			}
		}
	}
	if listed(keyZeroHeight) {
		for _, h := range hs {
			if h.IsZero() {
				g.r.Exclude(keyZeroHeight)
				bad = true
			}
		}
	}
	return bad
}

// place turns a drawn target height into a creation height plus a run of consecutive updates that
// contains the target, within what the client type can carry.
func place(t *rapid.T, typ string, target clienttypes.Height, nUpd int) clientPlan {
	p := clientPlan{Type: typ, Rev: target.RevisionNumber}
	h := target.RevisionHeight
	if typ == tTM && h == 0 {
		h = 1 // tendermint client states at revision height 0 do not pass Validate
	}
	j := uint64(rapid.IntRange(0, nUpd).Draw(t, "targetOffset"))
	min := uint64(0)
	if typ == tTM {
		min = 1
	}
	if h >= min+j {
		h -= j
	}
	p.H0 = h
	// tendermint heights are int64; the BSC / ETH clients hash headers with Number int64(height)
	if h > math.MaxInt64-uint64(nUpd)-1 {
		nUpd = 0
	}
	// the ETH client computes the difficulty bomb 2^((number-9.7M)/100000 - 2) for every header it checks:
	// above realistic block numbers that never terminates (not a C13 matter): create-only there
	if typ == tETH && h > 1<<32 {
		nUpd = 0
	}
	// clienttypes.SetRevisionNumber renders revisions >= 2^63 as negative numbers, so a Tendermint client
	// at such a revision rejects every header (not a C13 matter): create-only
	if typ == tTM && p.Rev > math.MaxInt64 {
		nUpd = 0
	}
	varyRev := typ != tTM && nUpd > 0 && rapid.IntRange(0, 3).Draw(t, "revVaries") == 0
	for i := 0; i < nUpd; i++ {
		r := p.Rev
		if varyRev {
			r = genHeightWord().Draw(t, "updRev")
		}
		p.UpdRevs = append(p.UpdRevs, r)
	}
	return p
}

// safePlan is the fallback when every drawn target was excluded: heights 0-0xff01 … 3-0xff2b (no 0x2f byte, one 0xff byte).
func (g *gen) safePlan(name, typ string, nUpd int) clientPlan {
	t := g.t
	p := place(t, typ, clienttypes.NewHeight(uint64(rapid.IntRange(0, 3).Draw(t, "safeRev")), 0xff00+uint64(rapid.IntRange(1, 40).Draw(t, "safeHeight"))), nUpd)
	for i := range p.UpdRevs {
		p.UpdRevs[i] = p.Rev
	}
	p.Name = name
	p.Vals = rapid.SampledFrom([]int{1, 2, 3}).Draw(t, "vals")
	return p
}

func (g *gen) drawPlan(name, typ string) clientPlan {
	t := g.t
	if typ == tTSS {
		return clientPlan{Name: name, Type: typ}
	}
	nUpd := rapid.SampledFrom([]int{0, 0, 1, 1, 2, 3}).Draw(t, "updates")
	var p clientPlan
	ok := false
	for try := 0; try < 6 && !ok; try++ {
		p = place(t, typ, genHeight().Draw(t, "target"), nUpd)
		ok = !g.excludedHeights(typ, p.heights())
	}
	if !ok {
		return g.safePlan(name, typ, nUpd)
	}
	p.Name = name
	p.Vals = rapid.SampledFrom([]int{1, 2, 3}).Draw(t, "vals")
	// far heights a consecutive run cannot reach
	if rapid.IntRange(0, 2).Draw(t, "extras") == 0 {
		n := rapid.IntRange(1, 2).Draw(t, "nExtra")
		for i := 0; i < n; i++ {
			h := genHeight().Draw(t, "extra")
			if h.IsZero() || (typ == tTM && h.RevisionHeight == 0) {
				continue
			}
			if g.excludedHeights(typ, []clienttypes.Height{h}) || clash(p, h) {
				continue
			}
			p.Extra = append(p.Extra, h)
		}
	}
	return p
}

// clash: the height (for ETH: the revision height, which is all the ETH metadata keys embed) is already stored.
func clash(p clientPlan, h clienttypes.Height) bool {
	for _, x := range p.heights() {
		if x == h || (p.Type == tETH && x.RevisionHeight == h.RevisionHeight) {
			return true
		}
	}
	return false
}

func (g *gen) noteHeights(p *clientPlan) {
	g.cl.add("type:" + p.Type)
	classifyName(p.Name, g.cl)
	for _, h := range p.heights() {
		cs := hostileClasses(h)
		if len(cs) > 0 {
			g.hostile++
		}
		for _, c := range cs {
			g.cl.add("height:" + c)
		}
		if p.Type == tETH {
			g.ethCons = true
		}
	}
	if len(p.UpdRevs) > 0 {
		g.cl.add("build:real_updates")
		g.r.LabelN("real_updates", len(p.UpdRevs))
		for _, r := range p.UpdRevs {
			if r != p.Rev {
				g.cl.add("build:revision_varies_within_client")
			}
		}
	}
	if len(p.Extra) > 0 {
		g.cl.add("build:setter_heights")
	}
}

func (g *gen) buildClients() {
	t := g.t
	n := rapid.IntRange(1, 5).Draw(t, "clients")
	taken := map[string]bool{}
	g.native = g.e.c.ChainID
	if rapid.IntRange(0, 2).Draw(t, "nativeFromPool") == 0 {
		g.native = genNamePool(t, 1, taken)[0]
		// the native chain name is genesis content (client keeper SetChainName); the EVM packet contract
		// keeps its own copy, which is not part of the three modules' state
		g.e.ck().SetChainName(g.e.ctx, g.native)
		g.cl.add("native:generated")
		classifyName(g.native, g.cl)
	}
	taken[g.native] = true
	names := genNamePool(t, n, taken)
	for i, name := range names {
		typ := rapid.SampledFrom(clientTypes).Draw(t, "type")
		p := g.drawPlan(name, typ)
		if err := g.e.tryCreate(p, i, g.tss.Acc); err != nil {
			// refused by the client type's own Validate (e.g. a height the type does not accept): not reachable
			g.r.Label("unreachable_plan_redrawn:" + typ)
			p = g.safePlan(name, typ, len(p.UpdRevs))
			g.e.create(p, i, g.tss.Acc)
		}
		pp := p
		g.clients = append(g.clients, &pp)
		g.byName[name] = &pp
		g.logf("client %s", p)
	}
}

// lifecycle: upgrades (same type, new creation height) and toggles (other type) of existing clients.
func (g *gen) lifecycle() {
	t := g.t
	for i, p := range g.clients {
		k := rapid.IntRange(0, 7).Draw(t, "lifecycle")
		if k > 1 {
			continue
		}
		newTyp := p.Type
		if k == 1 {
			newTyp = rapid.SampledFrom([]string{tTM, tBSC, tETH, tTSS}).Draw(t, "toggleTo")
			if newTyp == p.Type {
				continue
			}
			if p.Type != tTSS && toggleLeftoverListed() {
				if listed(keyToggleLeftover) {
					g.r.Exclude(keyToggleLeftover)
				} else {
					g.r.Exclude(keyC18ToggleLeftover)
				}
				continue
			}
		}
		// UpgradeClient of a TSS client (key rotation) and ToggleClient to TSS store a TSS consensus state at 0-0
		if newTyp == tTSS && listed(keyTSSZeroHeight) {
			g.r.Exclude(keyTSSZeroHeight)
			continue
		}
		np := g.drawPlan(p.Name, newTyp)
		np.UpdRevs, np.Extra = nil, nil
		if newTyp == tTSS {
			np.Vals = p.Vals + 1 // rotated key
		}
		if p.Type == tETH && newTyp == tETH {
			for clash(*p, clienttypes.NewHeight(np.Rev, np.H0)) {
				np.H0++
			}
			if g.excludedHeights(newTyp, np.heights()) {
				continue
			}
		}
		// the new client / consensus state are what the builder would create the client with
		sctx, _ := baseChain().Ctx().CacheContext() // the base chain never holds clients itself
		se := &env{c: baseChain(), ctx: sctx}
		if err := se.tryCreate(np, 100+i, g.tss.Acc); err != nil {
			g.r.Label("unreachable_plan_redrawn:" + newTyp)
			continue
		}
		ncs, _ := se.ck().GetClientState(sctx, p.Name)
		var ncons exported.ConsensusState = &tssCons
		if newTyp != tTSS {
			ncons, _ = se.ck().GetClientConsensusState(sctx, p.Name, ncs.GetLatestHeight())
		}
		var err error
		op := "upgrade"
		if k == 1 {
			op = "toggle"
			// gov handler: inside a cache context written only on nil error
			cctx, write := g.e.ctx.CacheContext()
			if err = g.e.ck().ToggleClient(cctx, p.Name, ncs, ncons); err == nil {
				write()
			}
		} else {
			cctx, write := g.e.ctx.CacheContext()
			if err = g.e.ck().UpgradeClient(cctx, p.Name, ncs, ncons); err == nil {
				write()
			}
		}
		if err != nil {
			g.logf("%s %s -> %s refused: %s", op, p, np, clip(err.Error(), 100))
			g.r.Label("lifecycle:" + op + "_refused")
			continue
		}
		g.logf("%s %s -> %s", op, p, np)
		g.cl.add("build:" + op)
		g.r.Label("lifecycle:" + op + ":" + p.Type + "->" + newTyp)
		if k == 1 {
			// the old type's heights stay in the store (only reachable while the leftover finding is not listed)
			old := *p
			np.Extra = append(np.Extra, old.heights()...)
			if old.Type == tETH {
				g.ethCons = true
			}
			if newTyp == tTSS {
				np.Extra = nil
			}
		} else {
			np.Extra = append(np.Extra, p.heights()...)
		}
		*p = np
	}
}

func (g *gen) relayers() {
	t := g.t
	n := rapid.IntRange(0, 3).Draw(t, "relayers")
	for i := 0; i < n; i++ {
		acct := kit.NewAccount([]byte{byte(rapid.IntRange(0, 3).Draw(t, "relayerSeed"))})
		k := rapid.IntRange(1, 3).Draw(t, "relayerChains")
		var chains, addrs []string
		for j := 0; j < k; j++ {
			if rapid.IntRange(0, 3).Draw(t, "foreignChain") == 0 {
				chains = append(chains, genFreshName().Draw(t, "chain"))
			} else {
				chains = append(chains, g.clients[rapid.IntRange(0, len(g.clients)-1).Draw(t, "chainOf")].Name)
			}
			addrs = append(addrs, rapid.SampledFrom([]string{"0x00000000000000000000000000000000000000a1", "0xAbCd", "", "teleport1xyz", "a/b/c", "relayers"}).Draw(t, "cpAddr"))
		}
		prop := clienttypes.NewRegisterRelayerProposal("t", "d", acct.Acc.String(), chains, addrs)
		kit.Must(prop.ValidateBasic(), "relayer proposal")
		g.e.ck().RegisterRelayers(g.e.ctx, acct.Acc.String(), chains, addrs)
		g.logf("relayer %s chains=%v addrs=%q", acct.Acc, chains, addrs)
		g.cl.add("relayer:registered")
	}
}

// tssUpdates: TSS clients whose key material was rotated by a client update (MsgUpdateClient from the TSS account) before the export.
func (g *gen) tssUpdates() {
	for _, p := range g.tssClients() {
		if !rapid.Bool().Draw(g.t, "tssUpdated") {
			continue
		}
		hdr := &tsstypes.Header{TssAddress: g.tss.Acc.String(), Pubkey: []byte("rotated key of " + p.Name), PartPubkeys: [][]byte{[]byte("p1"), []byte("p2")}, Threshold: 2}
		kit.Must(g.e.c.App.XIBCKeeper.ClientKeeper.UpdateClient(g.e.ctx, p.Name, hdr), "TSS client update")
		g.cl.add("client:tss_updated")
		g.logf("tss update %s", p.Name)
	}
}

func (g *gen) tssClients() (out []*clientPlan) {
	for _, p := range g.clients {
		if p.Type == tTSS {
			out = append(out, p)
		}
	}
	return
}

func (g *gen) mkPacket(src, dst string, seq uint64) (packettypes.Packet, []byte) {
	td := packettypes.TransferData{Token: "0x00000000000000000000000000000000000000aa", OriToken: "", Amount: common.LeftPadBytes(big.NewInt(int64(seq%1000)+1).Bytes(), 32),
		Receiver: strings.ToLower(g.tss.Addr.String())}
	tdBz, err := td.ABIPack()
	kit.Must(err, "pack transfer data")
	p := packettypes.Packet{SrcChain: src, DstChain: dst, Sequence: seq, Sender: "0xsender", TransferData: tdBz, CallData: []byte{}}
	bz, err := p.ABIPack()
	kit.Must(err, "pack packet")
	return p, bz
}

// writeAckFirst writes the acknowledgement of the oldest received packet that has none yet.
func (g *gen) writeAckFirst() {
	if len(g.recvd) == 0 {
		return
	}
	p := g.recvd[0]
	g.recvd = g.recvd[1:]
	ack, err := packettypes.NewAcknowledgement(0, []byte("ok"), "", g.tss.Acc.String(), 0).ABIPack()
	kit.Must(err, "pack ack")
	kit.Must(g.e.c.App.XIBCKeeper.PacketKeeper.WriteAcknowledgement(g.e.ctx, &p, ack), "WriteAcknowledgement")
	g.packetKeys++
	g.cl.add("packet:ack")
	g.logf("writeAck %s>%s#%d", p.SrcChain, p.DstChain, p.Sequence)
}

// ackFirst relays the acknowledgement of the oldest open packet sent to TSS-secured chain d (deletes its commitment).
func (g *gen) ackFirst(d string) {
	p := g.sent[d][0]
	g.sent[d] = g.sent[d][1:]
	bz, err := p.ABIPack()
	kit.Must(err, "pack")
	ack, err := packettypes.NewAcknowledgement(0, []byte("ok"), "", g.tss.Acc.String(), 0).ABIPack()
	kit.Must(err, "pack ack")
	msg := packettypes.NewMsgAcknowledgement(bz, ack, []byte{}, clienttypes.NewHeight(0, 1), g.tss.Acc)
	kit.Must(g.e.c.App.XIBCKeeper.PacketKeeper.AcknowledgePacket(g.e.ctx, msg), "AcknowledgePacket")
	g.packetKeys--
	g.cl.add("packet:commitment_deleted_by_ack")
	g.logf("ack %s>%s#%d", p.SrcChain, p.DstChain, p.Sequence)
}

func (g *gen) packets() {
	t := g.t
	pk := g.e.c.App.XIBCKeeper.PacketKeeper
	ctx := g.e.ctx
	n := rapid.IntRange(0, 7).Draw(t, "packetSteps")
	for i := 0; i < n; i++ {
		switch rapid.SampledFrom([]string{"send", "send", "recv", "recv", "writeAck", "ack", "setRecv", "setSend"}).Draw(t, "packetOp") {
		case "send":
			d := g.clients[rapid.IntRange(0, len(g.clients)-1).Draw(t, "dst")]
			if g.seenRcv["setSend:"+d.Name] {
				continue // the packet contract's own counter is not moved by the setter
			}
			seq := pk.GetNextSequenceSend(ctx, g.native, d.Name)
			p, _ := g.mkPacket(g.native, d.Name, seq)
			kit.Must(pk.SendPacket(ctx, &p), "SendPacket")
			g.sent[d.Name] = append(g.sent[d.Name], p)
			g.packetKeys += 2
			g.cl.add("packet:commitment")
			g.cl.add("packet:send_sequence")
			g.logf("send %s>%s#%d", g.native, d.Name, seq)
			if d.Type == tTSS && rapid.IntRange(0, 2).Draw(t, "ackAtOnce") == 0 {
				g.ackFirst(d.Name)
			}
		case "recv":
			ts := g.tssClients()
			if len(ts) == 0 {
				continue
			}
			s := ts[rapid.IntRange(0, len(ts)-1).Draw(t, "src")]
			seq := genSeq().Draw(t, "recvSeq")
			id := fmt.Sprintf("%s#%d", s.Name, seq)
			if g.seenRcv[id] {
				continue
			}
			p, bz := g.mkPacket(s.Name, g.native, seq)
			msg := packettypes.NewMsgRecvPacket(bz, []byte{}, clienttypes.NewHeight(0, 1), g.tss.Acc)
			kit.Must(pk.RecvPacket(ctx, msg), "RecvPacket")
			g.seenRcv[id] = true
			g.recvd = append(g.recvd, p)
			g.packetKeys++
			g.cl.add("packet:receipt")
			if seq > 1<<32 {
				g.cl.add("packet:huge_sequence")
			}
			g.logf("recv %s>%s#%d", s.Name, g.native, seq)
			if rapid.Bool().Draw(t, "ackWritten") {
				g.writeAckFirst()
			}
		case "writeAck":
			g.writeAckFirst()
		case "ack":
			// acknowledgement of a packet sent to a TSS-secured chain: deletes the commitment
			var cands []string
			for _, s := range g.tssClients() {
				if len(g.sent[s.Name]) > 0 {
					cands = append(cands, s.Name)
				}
			}
			if len(cands) == 0 {
				continue
			}
			g.ackFirst(cands[rapid.IntRange(0, len(cands)-1).Draw(t, "ackDst")])
		case "setRecv":
			// receipt + acknowledgement of a packet from a proof-secured counterparty, written the way
			// RecvPacket / WriteAcknowledgement write them after a verified proof
			s := g.clients[rapid.IntRange(0, len(g.clients)-1).Draw(t, "src")]
			if s.Type == tTSS {
				continue
			}
			seq := genSeq().Draw(t, "recvSeq")
			id := fmt.Sprintf("%s#%d", s.Name, seq)
			if g.seenRcv[id] {
				continue
			}
			g.seenRcv[id] = true
			pk.SetPacketReceipt(ctx, s.Name, g.native, seq)
			g.packetKeys++
			g.cl.add("packet:receipt")
			g.cl.add("packet:setter_receipt")
			if rapid.Bool().Draw(t, "withAck") {
				pk.SetPacketAcknowledgement(ctx, s.Name, g.native, seq, packettypes.CommitAcknowledgement([]byte(id)))
				g.packetKeys++
				g.cl.add("packet:ack")
			}
			g.logf("setRecv %s>%s#%d", s.Name, g.native, seq)
			// occasionally a long receive history on this path: more than a hundred consecutive receipts and acks
			// (a relayed path accumulates one per packet; exports must not be truncated at any page size)
			if rapid.IntRange(0, 19).Draw(t, "bulkReceipts") == 0 && seq < 1<<62 {
				n := rapid.IntRange(101, 260).Draw(t, "bulkCount")
				for i := 1; i <= n; i++ {
					q := seq + uint64(i)
					bid := fmt.Sprintf("%s#%d", s.Name, q)
					if g.seenRcv[bid] {
						continue
					}
					g.seenRcv[bid] = true
					pk.SetPacketReceipt(ctx, s.Name, g.native, q)
					pk.SetPacketAcknowledgement(ctx, s.Name, g.native, q, packettypes.CommitAcknowledgement([]byte(bid)))
					g.packetKeys += 2
				}
				g.cl.add("packet:bulk_over_100")
				g.logf("bulk %d receipts+acks %s>%s from #%d", n, s.Name, g.native, seq+1)
			}
		case "setSend":
			// a long send history: next sequence far from 1 with one open commitment (what seq-1 sends and seq-2 acks leave)
			d := g.clients[rapid.IntRange(0, len(g.clients)-1).Draw(t, "dst")]
			if len(g.sent[d.Name]) > 0 || pk.GetNextSequenceSend(ctx, g.native, d.Name) != 1 {
				continue
			}
			seq := genSeq().Draw(t, "nextSeq")
			if seq < 2 {
				continue
			}
			pk.SetNextSequenceSend(ctx, g.native, d.Name, seq)
			g.seenRcv["setSend:"+d.Name] = true
			p, _ := g.mkPacket(g.native, d.Name, seq-1)
			cm, err := packettypes.CommitPacket(&p)
			kit.Must(err, "commit")
			pk.SetPacketCommitment(ctx, g.native, d.Name, seq-1, cm)
			g.packetKeys += 2
			g.cl.add("packet:commitment")
			g.cl.add("packet:send_sequence")
			g.cl.add("packet:setter_send_sequence")
			if seq > 1<<32 {
				g.cl.add("packet:huge_sequence")
			}
			g.logf("setSend %s>%s next=%d", g.native, d.Name, seq)
		}
	}
}

var coinDenoms = []string{"acoin", "bcoin", "stake2", "gamm/pool/1", "a-b/c-d", "ibc/27394FB092D2ECCD56123C74F36E4C1F926001CEADA9CA97EA622B25F41E5EB2", "zzzz"}

func (g *gen) freeDenom() (string, bool) {
	ak := g.e.c.App.AggregateKeeper
	i0 := rapid.IntRange(0, len(coinDenoms)-1).Draw(g.t, "denom")
	for i := range coinDenoms {
		d := coinDenoms[(i0+i)%len(coinDenoms)]
		if !ak.IsDenomRegistered(g.e.ctx, d) {
			if _, has := g.e.c.App.BankKeeper.GetDenomMetaData(g.e.ctx, d); !has {
				return d, true
			}
		}
	}
	return "", false
}

func (g *gen) registry() {
	t := g.t
	app := g.e.c.App
	ak := app.AggregateKeeper
	ctx := g.e.ctx
	n := rapid.IntRange(0, 5).Draw(t, "registrySteps")
	for i := 0; i < n; i++ {
		deploy := func(name string, dec uint8) common.Address {
			ctor, err := erc20contracts.ERC20MinterBurnerDecimalsContract.ABI.Pack("", name, strings.ToUpper(name), dec)
			kit.Must(err, "pack ctor")
			from := g.e.c.Accounts[1].Addr
			nonce := app.EvmKeeper.GetNonce(ctx, from)
			res, err := ak.CallEVMWithData(ctx, from, nil, append(append([]byte{}, erc20contracts.ERC20MinterBurnerDecimalsContract.Bin...), ctor...))
			kit.Must(err, "deploy erc20")
			if res.Failed() {
				kit.Failf("deploy failed: %s", res.VmError)
			}
			return crypto.CreateAddress(from, nonce)
		}
		switch rapid.SampledFrom([]string{"registerCoin", "registerERC20", "addCoin", "toggleRelay", "updateERC20"}).Draw(t, "registryOp") {
		case "updateERC20":
			// governance replaced the contract of an externally owned pair by a twin (same name, symbol, decimals)
			var ext []int
			for i, p := range g.pairs {
				if p.Kind == "erc20" && p.Dec > 0 { // with 0 decimals the display name is the base denomination and no contract can match it
					ext = append(ext, i)
				}
			}
			if len(ext) == 0 {
				continue
			}
			i := ext[rapid.IntRange(0, len(ext)-1).Draw(t, "pair")]
			twin := deploy(g.pairs[i].Name, g.pairs[i].Dec)
			_, err := ak.UpdateTokenPairERC20(ctx, g.pairs[i].Contract, twin)
			kit.Must(err, "UpdateTokenPairERC20")
			g.logf("updateERC20 %s -> %s", g.pairs[i].Contract.Hex(), twin.Hex())
			g.pairs[i].Contract = twin
			g.cl.add("pair:contract_replaced")
		case "registerCoin", "addCoin":
			d, ok := g.freeDenom()
			if !ok {
				continue
			}
			coins := sdk.NewCoins(sdk.NewInt64Coin(d, 1000))
			kit.Must(app.BankKeeper.MintCoins(ctx, aggregatetypes.ModuleName, coins), "mint")
			md := aggsim.CoinMetadata(d, true, "coin "+d)
			kit.Must(md.Validate(), "metadata")
			if len(g.pairs) > 0 && rapid.Bool().Draw(t, "addToExisting") {
				p := g.pairs[rapid.IntRange(0, len(g.pairs)-1).Draw(t, "pair")]
				_, err := ak.AddCoin(ctx, md, p.Contract.Hex())
				kit.Must(err, "AddCoin")
				g.cl.add("pair:multi_denom")
				g.logf("addCoin %s -> %s", d, p.Contract.Hex())
				continue
			}
			pair, err := ak.RegisterCoin(ctx, md)
			kit.Must(err, "RegisterCoin")
			g.pairs = append(g.pairs, pairRec{Contract: pair.GetERC20Contract(), Kind: "coin"})
			g.cl.add("pair:coin")
			if strings.ContainsAny(d, "/-") {
				g.cl.add("pair:denom_with_separator")
			}
			g.logf("registerCoin %s -> %s", d, pair.ERC20Address)
		case "registerERC20":
			g.nextTok++
			name := fmt.Sprintf("tok%d", g.nextTok)
			dec := rapid.SampledFrom([]uint8{0, 6, 18}).Draw(t, "decimals")
			addr := deploy(name, dec)
			pair, err := ak.RegisterERC20(ctx, addr)
			kit.Must(err, "RegisterERC20")
			g.pairs = append(g.pairs, pairRec{Contract: pair.GetERC20Contract(), Kind: "erc20", Name: name, Dec: dec})
			g.cl.add("pair:erc20")
			g.logf("registerERC20 %s (%s)", addr.Hex(), pair.Denoms[0])
		case "toggleRelay":
			if len(g.pairs) == 0 {
				continue
			}
			p := g.pairs[rapid.IntRange(0, len(g.pairs)-1).Draw(t, "pair")]
			_, err := ak.ToggleRelay(ctx, p.Contract.Hex())
			kit.Must(err, "ToggleRelay")
			g.cl.add("pair:disabled")
			g.logf("toggleRelay %s", p.Contract.Hex())
		}
	}
}

var rewardDenoms = []string{"atele", "bbb", "ibc/27394FB092D2ECCD56123C74F36E4C1F926001CEADA9CA97EA622B25F41E5EB2", "zzz", "a-b/c-d"}

func (g *gen) params() {
	t := g.t
	app := g.e.c.App
	if rapid.Bool().Draw(t, "aggParams") {
		ss := app.GetSubspace(aggregatetypes.ModuleName)
		a, h := rapid.Bool().Draw(t, "enableAggregate"), rapid.Bool().Draw(t, "enableEVMHook")
		kit.Must(ss.Update(g.e.ctx, aggregatetypes.ParamStoreKeyEnableAggregate, []byte(fmt.Sprint(a))), "param")
		kit.Must(ss.Update(g.e.ctx, aggregatetypes.ParamStoreKeyEnableEVMHook, []byte(fmt.Sprint(h))), "param")
		g.cl.add("params:aggregate_changed")
		g.logf("aggregate params enable=%v hook=%v", a, h)
	}
	if rapid.Bool().Draw(t, "rvParams") {
		ss := app.GetSubspace(rvestingtypes.ModuleName)
		type entry struct {
			Denom  string `json:"denom"`
			Amount string `json:"amount"`
		}
		var es []entry
		seen := map[string]bool{}
		for i := rapid.IntRange(1, 3).Draw(t, "rewards"); i > 0; i-- {
			d := rapid.SampledFrom(rewardDenoms).Draw(t, "rewardDenom")
			if seen[d] {
				continue
			}
			seen[d] = true
			es = append(es, entry{d, rapid.SampledFrom([]string{"0", "1", "100000000000000000", "1" + strings.Repeat("0", 60)}).Draw(t, "rewardAmount")})
		}
		bz, _ := json.Marshal(es)
		kit.Must(ss.Update(g.e.ctx, rvestingtypes.KeyPerBlockReward, bz), "reward param")
		on := rapid.Bool().Draw(t, "enableVesting")
		kit.Must(ss.Update(g.e.ctx, rvestingtypes.KeyEnableVesting, []byte(fmt.Sprint(on))), "enable param")
		g.cl.add("params:rvesting_changed")
		g.logf("rvesting params enable=%v reward=%s", on, bz)
	}
}

func typeMix(cs []*clientPlan) string {
	set := map[string]bool{}
	for _, p := range cs {
		set[p.Type] = true
	}
	var out []string
	for k := range set {
		out = append(out, k)
	}
	sort.Strings(out)
	return strings.Join(out, "+")
}

// buildState draws a state and builds it on (c, ctx).
func buildState(t *rapid.T, r *rec.Recorder, c *kit.Chain, ctx sdk.Context) *gen {
	g := &gen{t: t, r: r, e: &env{c: c, ctx: ctx}, tss: kit.NewAccount([]byte("c13-tss")), byName: map[string]*clientPlan{}, cl: classes{},
		sent: map[string][]packettypes.Packet{}, seenRcv: map[string]bool{}}
	g.buildClients()
	g.lifecycle()
	g.tssUpdates()
	for _, p := range g.clients {
		g.noteHeights(p)
	}
	g.relayers()
	g.packets()
	g.registry()
	g.params()
	return g
}

func (g *gen) tolerance() tolerance {
	return tolerance{
		ethValidate: g.ethCons && listed(keyEthConsType),
		tmIterKeys:  listed(keyTMIterKeys),
		count: func(key string, n int) {
			for i := 0; i < n; i++ {
				g.r.Exclude(key)
			}
		},
	}
}

// record files the case into the evidence.
func (g *gen) record(gj map[string]json.RawMessage) {
	r := g.r
	mix := typeMix(g.clients)
	types := strings.Count(mix, "+") + 1
	nontrivial := types >= 2 && g.hostile >= 1 && g.packetKeys >= 1
	shape := fmt.Sprintf("mix=%s|h=%v|p=%v|r=%v", mix, g.cl.withPrefix("height:"), g.cl.withPrefix("packet:"), g.cl.withPrefix("pair:"))
	r.Case(shape, nontrivial, func() interface{} {
		sum := sha256.Sum256(gj["xibc"])
		return map[string]interface{}{"state": g.log, "xibc_genesis_bytes": len(gj["xibc"]), "xibc_genesis_sha256": fmt.Sprintf("%x", sum[:8])}
	})
	r.Label("mix:" + mix)
	r.Label(fmt.Sprintf("client_types:%d", types))
	for _, k := range g.cl.list() {
		r.Label(k)
	}
	if g.hostile == 0 {
		r.Label("height:none_hostile")
	}
	if g.packetKeys == 0 {
		r.Label("packet:none")
	}
	if len(g.pairs) == 0 {
		r.Label("pair:none")
	}
	if nontrivial {
		r.Label("nontrivial")
	}
}

func runRoundTrip(t *rapid.T, r *rec.Recorder) {
	c := baseChain()
	ctx, _ := c.Ctx().CacheContext()
	g := buildState(t, r, c, ctx)
	gj, v := roundTrip(c, ctx, freshChain(), g.tolerance())
	if v != nil {
		t.Fatalf("%s\nstate:\n  %s", v, strings.Join(g.log, "\n  "))
	}
	g.record(gj)
}

func TestC13_RoundTrip(t *testing.T) {
	r := rec.For("TestC13_RoundTrip", ruleRoundTrip)
	rapid.Check(t, func(t *rapid.T) { runRoundTrip(t, r) })
}
