// C06 (a) — relayer registry x signer x message kind.
package c06

import (
	"fmt"
	"math/big"
	"sort"
	"strings"
	"testing"

	"github.com/ethereum/go-ethereum/common"
	"pgregory.net/rapid"

	"github.com/gogo/protobuf/proto"

	govtypes "github.com/cosmos/cosmos-sdk/x/gov/types"

	tsstypes "github.com/teleport-network/teleport/x/xibc/clients/tss-client/types"
	xibcclient "github.com/teleport-network/teleport/x/xibc/core/client"
	clienttypes "github.com/teleport-network/teleport/x/xibc/core/client/types"
	packettypes "github.com/teleport-network/teleport/x/xibc/core/packet/types"

	"verif/harness/kit"
	"verif/harness/rec"
	"verif/harness/sim/bridge"
)

const ruleA = "rapid state machine over 2-3 real chains with generated relayer registries (4 candidate accounts, each registered on each chain for a drawn subset of {other chains, TSS pseudo chain} with drawn " +
	"counterparty addresses, re-registrations that drop chains) and signers drawn from {registered for this chain, registered only for another chain, registered for nothing, TSS account, outsider}; message kinds " +
	"UpdateClient / RecvPacket / Acknowledgement on Tendermint- and TSS-secured paths, otherwise valid; oracle = authorisation predicate of the property text; " +
	"non-trivial = a case where the signer is registered for some chain but not the one used, or a re-registration happened before the message; distinct by (kind, path kind, signer class, verdict)"

type regCtl struct {
	m      *bridge.Machine
	reg    []map[string]map[string]string // chain -> account(bech32) -> chainName -> counterparty address
	pool   []kit.Account
	rereg  []map[string]bool // chain -> account re-registered during the history
	cases  map[string]bool
	tssSeq uint64
	// tssCur[chain] = the account configured as TSS account in that chain's TSS client (changed by an accepted client update
	// that names another address: the old account loses its authority, the new one gains it)
	tssCur []kit.Account
}

// tss is the account currently configured as TSS account on chain ci.
func (c *regCtl) tss(ci int) kit.Account { return c.tssCur[ci] }

// tssTwin is a second TSS-secured counterparty whose name differs from bridge.TSSName only in letter case (chain names are
// case-sensitive: a registration for one confers nothing for the other). Its TSS account is the world's TSS account throughout.
var tssTwin = strings.ToUpper(bridge.TSSName)

func (c *regCtl) names(ci int) []string {
	var ns []string
	for j, o := range c.m.W.Chains {
		if j != ci {
			ns = append(ns, o.ChainID)
		}
	}
	return append(ns, bridge.TSSName, tssTwin)
}

func (c *regCtl) register(t *rapid.T, ci int, acct kit.Account, label string) {
	w := c.m.W
	all := c.names(ci)
	var chains, addrs []string
	entry := map[string]string{}
	for _, n := range all {
		if rapid.IntRange(0, 2).Draw(t, label+"/has/"+n) > 0 {
			a := rapid.SampledFrom([]string{acct.Acc.String(), strings.ToLower(acct.Addr.Hex()), "0x00000000000000000000000000000000000000ee", w.Outsider.Acc.String()}).Draw(t, label+"/addr/"+n)
			chains = append(chains, n)
			addrs = append(addrs, a)
			entry[n] = a
		}
	}
	// the listing order of a proposal is the proposer's choice
	if len(chains) > 1 && rapid.Bool().Draw(t, label+"/reversed") {
		for i, j := 0, len(chains)-1; i < j; i, j = i+1, j-1 {
			chains[i], chains[j] = chains[j], chains[i]
			addrs[i], addrs[j] = addrs[j], addrs[i]
		}
	}
	c.govRegister(ci, acct, chains, addrs)
	c.reg[ci][acct.Acc.String()] = entry
}

// govRegister registers a relayer the way governance does: the content travels inside a transaction (encoded, decoded into a
// fresh object), stateless validation runs on the decoded object, that same object is stored with the proposal (encoded
// again) and the stored content is executed by the module's proposal handler on a cache context.
func (c *regCtl) govRegister(ci int, acct kit.Account, chains, addrs []string) {
	ch := c.m.W.Chains[ci]
	cdc := ch.App.AppCodec()
	if len(chains) == 0 {
		// ValidateBasic refuses an empty registration; the keeper path stands for a registry entry that lists nothing
		ch.RegisterRelayer(acct.Acc, chains, addrs)
		return
	}
	hop := func(in govtypes.Content) govtypes.Content {
		msg, ok := in.(proto.Message)
		if !ok {
			kit.Failf("content is no proto message")
		}
		bz, err := cdc.MarshalInterface(msg)
		kit.Must(err, "encode proposal content")
		var out govtypes.Content
		kit.Must(cdc.UnmarshalInterface(bz, &out), "decode proposal content")
		return out
	}
	inTx := hop(clienttypes.NewRegisterRelayerProposal("relayer", "relayer registration", acct.Acc.String(), chains, addrs))
	kit.Must(inTx.ValidateBasic(), "RegisterRelayer proposal ValidateBasic")
	stored := hop(inTx)
	cctx, write := ch.Ctx().CacheContext()
	kit.Must(xibcclient.NewClientProposalHandler(ch.App.XIBCKeeper.ClientKeeper)(cctx, stored), "RegisterRelayer proposal execution")
	write()
}

func (c *regCtl) authorised(ci int, acct kit.Account, name string) (string, bool) {
	a, ok := c.reg[ci][acct.Acc.String()][name]
	return a, ok
}

// class describes the signer relative to (chain ci, counterparty name).
func (c *regCtl) class(ci int, acct kit.Account, name string) string {
	if _, ok := c.authorised(ci, acct, name); ok {
		if c.rereg[ci][acct.Acc.String()] {
			return "registered-after-reregistration"
		}
		return "registered"
	}
	e, known := c.reg[ci][acct.Acc.String()]
	switch {
	case known && len(e) > 0:
		if c.rereg[ci][acct.Acc.String()] {
			return "dropped-by-reregistration-or-other-chain"
		}
		return "registered-for-other-chain-only"
	case known:
		return "registered-for-nothing"
	}
	return "unregistered"
}

func (c *regCtl) note(kind, path, class string, accepted bool) {
	c.cases[fmt.Sprintf("%s|%s|%s|%v", kind, path, class, accepted)] = true
	c.m.R.Label(fmt.Sprintf("%s_%s_%s_accepted=%v", kind, path, class, accepted))
}

func (c *regCtl) signer(t *rapid.T) kit.Account {
	return c.pool[rapid.IntRange(0, len(c.pool)-1).Draw(t, "signer")]
}

func (c *regCtl) reRegister(t *rapid.T) {
	ci := rapid.IntRange(0, len(c.m.W.Chains)-1).Draw(t, "chain")
	acct := c.signer(t)
	c.register(t, ci, acct, "re")
	c.rereg[ci][acct.Acc.String()] = true
	c.m.Log("reRegister", fmt.Sprintf("chain %d %s -> %v", ci, acct.Acc, c.reg[ci][acct.Acc.String()]), "")
}

func (c *regCtl) update(t *rapid.T) {
	m := c.m
	w := m.W
	n := len(w.Chains)
	on := rapid.IntRange(0, n-1).Draw(t, "on")
	of := rapid.IntRange(0, n-2).Draw(t, "of")
	if of >= on {
		of++
	}
	ch, o := w.Chains[on], w.Chains[of]
	if ch.ClientHeight(o.ChainID) >= o.LastHeader.Header.Height {
		t.Skip("client at head")
	}
	s := c.signer(t)
	_, auth := c.authorised(on, s, o.ChainID)
	cls := c.class(on, s, o.ChainID)
	out := w.DeliverDumped(on, s, ch.MsgUpdateTMClient(o, o.LastHeader.Header.Height, s.Acc))
	c.judge("update", "tm", cls, auth, out, fmt.Sprintf("client %s on chain %d by %s", o.ChainID, on, s.Acc))
	m.Log("update", fmt.Sprintf("%d<-%d by %s (%s)", on, of, s.Acc, cls), fmt.Sprintf("ok=%v", out.Res.OK()))
}

func (c *regCtl) judge(kind, path, cls string, auth bool, out bridge.TxOutcome, what string) {
	m := c.m
	if auth && !out.Res.OK() {
		m.Failf("%s (%s path): %s is authorised (%s) but the otherwise valid message was rejected: %s", kind, path, what, cls, bridge.Short(out.Res.Log))
	}
	if !auth {
		if out.Res.OK() {
			m.Failf("%s (%s path): %s is NOT authorised (%s) but the message was accepted", kind, path, what, cls)
		}
		if !out.Unchanged() {
			m.Failf("rejected %s (%s path, %s) changed state:\n%s", kind, path, cls, out.DiffString())
		}
	}
	c.note(kind, path, cls, out.Res.OK())
}

func (c *regCtl) recv(t *rapid.T) {
	m := c.m
	w := m.W
	ps := m.Pending()
	if len(ps) == 0 {
		t.Skip("nothing deliverable")
	}
	p := ps[rapid.IntRange(0, len(ps)-1).Draw(t, "pkt")]
	hs := w.ProofHeightsFor(p.DstIdx, p.SrcIdx, p.SentAt)
	s := c.signer(t)
	want, auth := c.authorised(p.DstIdx, s, p.P.SrcChain)
	cls := c.class(p.DstIdx, s, p.P.SrcChain)
	out := w.DeliverDumped(p.DstIdx, s, w.RecvMsg(p, p.Bz, hs[len(hs)-1], s.Acc))
	c.judge("recv", "tm", cls, auth, out, fmt.Sprintf("receive of %s by %s", p.T, s.Acc))
	if out.Res.OK() {
		w.NoteRecv(p.DstIdx, p, out.Res, s)
		if p.Ack.Relayer != want {
			m.Failf("receive of %s by %s: acknowledgement names fee recipient %q, the address registered for this relayer and %s is %q", p.T, s.Acc, p.Ack.Relayer, p.P.SrcChain, want)
		}
	}
	m.Log("recv", fmt.Sprintf("%s by %s (%s)", p.T, s.Acc, cls), fmt.Sprintf("ok=%v", out.Res.OK()))
}

func (c *regCtl) tssRecv(t *rapid.T) {
	m := c.m
	w := m.W
	ci := rapid.IntRange(0, len(w.Chains)-1).Draw(t, "chain")
	ch := w.Chains[ci]
	s := c.signer(t)
	c.tssSeq++
	td := packettypes.TransferData{Token: bridge.TSSOriToken, Amount: common.LeftPadBytes(big.NewInt(3).Bytes(), 32), Receiver: strings.ToLower(w.Users[0].Addr.String())}
	tdBz, _ := td.ABIPack()
	from, tssAcct := bridge.TSSName, c.tss(ci)
	if rapid.IntRange(0, 2).Draw(t, "fromTwin") == 0 {
		from, tssAcct = tssTwin, w.TSS
	}
	pk := packettypes.Packet{SrcChain: from, DstChain: ch.ChainID, Sequence: c.tssSeq, Sender: "0xs", TransferData: tdBz, CallData: []byte{}}
	bz, _ := pk.ABIPack()
	want, reg := c.authorised(ci, s, from)
	auth := reg && s.Acc.Equals(tssAcct.Acc)
	cls := c.class(ci, s, from)
	if from == tssTwin {
		cls = "twin-name-" + cls
	}
	if s.Acc.Equals(tssAcct.Acc) {
		cls = "tss-account-" + cls
	} else if s.Acc.Equals(w.TSS.Acc) {
		cls = "former-tss-account-" + cls
	}
	out := w.DeliverDumped(ci, s, packettypes.NewMsgRecvPacket(bz, c.tssProofField(t), bridge.H(0, 1), s.Acc))
	c.judge("recv", "tss", cls, auth, out, fmt.Sprintf("TSS-path receive on chain %d by %s", ci, s.Acc))
	if out.Res.OK() {
		_, acks := kit.WrittenAcks(out.Res)
		var ack packettypes.Acknowledgement
		if len(acks) != 1 || ack.ABIDecode(acks[0]) != nil || ack.Relayer != want {
			m.Failf("TSS-path receive: acknowledgement fee recipient %q, registered address %q", ack.Relayer, want)
		}
	}
	m.Log("tssRecv", fmt.Sprintf("chain %d by %s (%s)", ci, s.Acc, cls), fmt.Sprintf("ok=%v", out.Res.OK()))
}

func (c *regCtl) tssUpdate(t *rapid.T) {
	m := c.m
	w := m.W
	ci := rapid.IntRange(0, len(w.Chains)-1).Draw(t, "chain")
	s := c.signer(t)
	// the header names the TSS account from now on: mostly the current one (key rotation), sometimes another account of the
	// pool (the TSS role moves)
	next := c.tss(ci)
	if rapid.IntRange(0, 2).Draw(t, "tssMoves") == 0 {
		next = c.pool[rapid.IntRange(0, len(c.pool)-1).Draw(t, "nextTSS")]
	}
	hdr := &tsstypes.Header{TssAddress: next.Acc.String(), Pubkey: []byte("pubkey2"), PartPubkeys: [][]byte{[]byte("p")}, Threshold: 1}
	msg, err := clienttypes.NewMsgUpdateClient(bridge.TSSName, hdr, s.Acc)
	kit.Must(err, "tss update msg")
	_, reg := c.authorised(ci, s, bridge.TSSName)
	auth := reg && s.Acc.Equals(c.tss(ci).Acc)
	cls := c.class(ci, s, bridge.TSSName)
	if s.Acc.Equals(c.tss(ci).Acc) {
		cls = "tss-account-" + cls
	} else if s.Acc.Equals(w.TSS.Acc) {
		cls = "former-tss-account-" + cls
	}
	out := w.DeliverDumped(ci, s, msg)
	if auth {
		// whether a valid TSS update by the authorised account succeeds is C18's clause; not asserted here
		c.note("update", "tss", cls, out.Res.OK())
		if !out.Res.OK() && !out.Unchanged() {
			m.Failf("rejected TSS update changed state:\n%s", out.DiffString())
		}
		if out.Res.OK() && !next.Acc.Equals(c.tss(ci).Acc) {
			c.tssCur[ci] = next
			m.R.Label("tss_role_moved_to_another_account")
		}
	} else {
		c.judge("update", "tss", cls, false, out, fmt.Sprintf("TSS client update on chain %d by %s", ci, s.Acc))
	}
	m.Log("tssUpdate", fmt.Sprintf("chain %d by %s (%s)", ci, s.Acc, cls), fmt.Sprintf("ok=%v", out.Res.OK()))
}

// tssAck: acknowledgements on a TSS-secured path are accepted only from the TSS account.
func (c *regCtl) tssAck(t *rapid.T) {
	m := c.m
	w := m.W
	var cands []*bridge.Pkt
	for _, p := range w.Pkts {
		// (packets already acknowledged stay candidates: a further acknowledgement is as much subject to the rule as the first)
		if p.SrcIdx >= 0 && p.P.DstChain == bridge.TSSName {
			cands = append(cands, p)
		}
	}
	if len(cands) == 0 {
		t.Skip("no packet sent to the TSS chain")
	}
	p := cands[rapid.IntRange(0, len(cands)-1).Draw(t, "pkt")]
	s := c.signer(t)
	code := uint64(rapid.IntRange(0, 1).Draw(t, "code"))
	// fee recipient: the counterparty address registered by some relayer of this chain for the TSS chain, if any
	relAddr := "0xnobody"
	var accts []string
	for a := range c.reg[p.SrcIdx] {
		accts = append(accts, a)
	}
	sort.Strings(accts)
	for _, a := range accts {
		if v, ok := c.reg[p.SrcIdx][a][bridge.TSSName]; ok {
			relAddr = v
		}
	}
	ack := packettypes.NewAcknowledgement(code, []byte{}, "", relAddr, 0)
	ackBz, _ := ack.ABIPack()
	cls := c.class(p.SrcIdx, s, bridge.TSSName)
	isTSS := s.Acc.Equals(c.tss(p.SrcIdx).Acc)
	if isTSS {
		cls = "tss-account-" + cls
	} else if s.Acc.Equals(w.TSS.Acc) {
		cls = "former-tss-account-" + cls
	}
	if p.Acked {
		cls = "already-acked-" + cls
	}
	out := w.DeliverDumped(p.SrcIdx, s, packettypes.NewMsgAcknowledgement(p.Bz, ackBz, c.tssProofField(t), bridge.H(0, 1), s.Acc))
	if !isTSS {
		c.judge("ack", "tss", cls, false, out, fmt.Sprintf("TSS-path ack of %s by %s", p.T, s.Acc))
	} else {
		c.note("ack", "tss", cls, out.Res.OK())
		if out.Res.OK() {
			p.Acked = true
			p.Ack = ack
			c.feeRecipientOK(p, "tss")
		} else if !out.Unchanged() {
			m.Failf("refused TSS-path acknowledgement changed state:\n%s", out.DiffString())
		}
	}
	m.Log("tssAck", fmt.Sprintf("%s by %s (%s)", p.T, s.Acc, cls), fmt.Sprintf("ok=%v", out.Res.OK()))
}

// tssProofField draws the content of the proof field of a message on a TSS-secured path: the field carries no
// meaning there (the signer is what counts), so whatever it holds - nothing, the public TSS address, the
// signer's own address, junk - must not change who is authorised.
func (c *regCtl) tssProofField(t *rapid.T) []byte {
	w := c.m.W
	switch rapid.IntRange(0, 4).Draw(t, "tssProofField") {
	case 0:
		return []byte{}
	case 1, 2:
		return []byte(w.TSS.Acc.String())
	case 3:
		return []byte(strings.ToLower(w.TSS.Addr.Hex()))
	default:
		return rapid.SliceOfN(rapid.Byte(), 1, 40).Draw(t, "junkProof")
	}
}

func (c *regCtl) sendTSS(t *rapid.T) {
	w := c.m.W
	src := rapid.IntRange(0, len(w.Chains)-1).Draw(t, "src")
	out := w.Send(bridge.SendSpec{Src: src, DstName: bridge.TSSName, User: 0, Token: common.Address{}, Amount: big.NewInt(5), Fee: big.NewInt(0), Receiver: "0xremote"}, false)
	c.m.Log("sendTSS", fmt.Sprint(src), fmt.Sprintf("ok=%v", out.OK))
}

// feeRecipientOK: a processed acknowledgement pays the relay fee to the relayer whose address registered on the sending chain
// FOR THE PACKET'S DESTINATION CHAIN is the one the acknowledgement names; an address registered for another chain, or the
// registry key of some relayer, names nobody for this chain (registration for one chain confers nothing for another).
func (c *regCtl) feeRecipientOK(p *bridge.Pkt, path string) {
	for _, e := range c.reg[p.SrcIdx] {
		if a, ok := e[p.P.DstChain]; ok && strings.EqualFold(a, p.Ack.Relayer) {
			c.m.R.Label("ack_" + path + "_fee_recipient_registered_for_the_destination")
			return
		}
	}
	c.m.Failf("acknowledgement of %s processed on chain %d although the fee recipient it names (%q) is the address nobody registered there for %s (registry: %v)",
		p.T, p.SrcIdx, p.Ack.Relayer, p.P.DstChain, c.reg[p.SrcIdx])
}

// ackAnySigner: on a proof-verified path the property puts no condition on the submitter.
func (c *regCtl) ackAnySigner(t *rapid.T) {
	m := c.m
	w := m.W
	cands := m.AckCandidates()
	if len(cands) == 0 {
		t.Skip("no ack relayable")
	}
	p := cands[rapid.IntRange(0, len(cands)-1).Draw(t, "pkt")]
	hs := w.ProofHeightsFor(p.SrcIdx, p.DstIdx, p.RecvAt)
	s := c.signer(t)
	out := w.DeliverDumped(p.SrcIdx, s, kit.MsgAck(w.Chains[p.DstIdx], p.Bz, p.AckBz, hs[len(hs)-1], s.Acc))
	if out.Res.OK() {
		p.Acked = true
		c.feeRecipientOK(p, "tm")
	} else if !out.Unchanged() {
		m.Failf("refused acknowledgement changed state:\n%s", out.DiffString())
	}
	c.note("ack", "tm", c.class(p.SrcIdx, s, p.P.DstChain), out.Res.OK())
	m.Log("ack", fmt.Sprintf("%s by %s", p.T, s.Acc), fmt.Sprintf("ok=%v", out.Res.OK()))
}

func runRegistry(t *rapid.T, r *rec.Recorder) {
	m := bridge.NewMachine(t, r)
	w := m.W
	c := &regCtl{m: m, cases: map[string]bool{}, pool: []kit.Account{w.Rels[0], w.Rels[1], w.TSS, w.Outsider}}
	for _, ch := range w.Chains {
		c.tssCur = append(c.tssCur, w.TSS)
		ch.CreateTSSClient(tssTwin, w.TSS.Acc)
	}
	for ci := range w.Chains {
		c.reg = append(c.reg, map[string]map[string]string{})
		c.rereg = append(c.rereg, map[string]bool{})
		for i, a := range c.pool {
			if a.Acc.Equals(w.Outsider.Acc) && rapid.Bool().Draw(t, fmt.Sprintf("outsiderUnregistered%d", ci)) {
				continue
			}
			c.register(t, ci, a, fmt.Sprintf("init%d/%d", ci, i))
		}
	}
	m.CallKinds = []string{"", "", "ok"}
	base := m.BaseActions()
	acts := map[string]func(*rapid.T){
		"send": base["send"], "send2": base["send"], "tick": base["tick"], "tick2": base["tick"],
		"sendTSS":    m.Wrap(c.sendTSS),
		"reRegister": m.Wrap(c.reRegister),
		"update":     m.Wrap(c.update),
		"update2":    m.Wrap(c.update),
		"recv":       m.Wrap(c.recv),
		"recv2":      m.Wrap(c.recv),
		"tssRecv":    m.Wrap(c.tssRecv),
		"tssUpdate":  m.Wrap(c.tssUpdate),
		"tssAck":     m.Wrap(c.tssAck),
		"ack":        m.Wrap(c.ackAnySigner),
		// another contract imitating the packet contract's PacketSent event must not make the module store a commitment or
		// call the packet contract's privileged setSequence
		"forgedSendEvent": m.Wrap(m.ActForgedSendEvent),
		"":                func(t *rapid.T) { m.T = t; m.R.Step() },
	}
	t.Repeat(acts)
	var ks []string
	nt := false
	for k := range c.cases {
		ks = append(ks, k)
		if strings.Contains(k, "other-chain") || strings.Contains(k, "reregistration") {
			nt = true
		}
	}
	sort.Strings(ks)
	for _, k := range ks {
		r.Case(k, strings.Contains(k, "other-chain") || strings.Contains(k, "reregistration"), nil)
	}
	r.Case(fmt.Sprintf("history n=%d kinds=%d", len(w.Chains), len(ks)), nt, func() interface{} { return m.Hist })
}

func TestC06_Registry(t *testing.T) {
	r := rec.For("TestC06_Registry", ruleA)
	rapid.Check(t, func(t *rapid.T) { runRegistry(t, r) })
}
