// C11 on the ICS-20 entry point: the automatic coin -> token conversion of a received transfer is a conversion like any
// other; it moves exactly the received amount, keeps the token supply backed and is refused while the module or the pair is
// disabled (the vouchers then simply stay with the receiver). C16 checks that the middleware is transparent and atomic; the
// switches are C11's clause.
package c11

import (
	"fmt"
	"math/big"
	"sync"
	"testing"
	"time"

	"github.com/ethereum/go-ethereum/common"
	"pgregory.net/rapid"

	sdk "github.com/cosmos/cosmos-sdk/types"
	banktypes "github.com/cosmos/cosmos-sdk/x/bank/types"
	govtypes "github.com/cosmos/cosmos-sdk/x/gov/types"
	transfertypes "github.com/cosmos/ibc-go/v3/modules/apps/transfer/types"
	clienttypes "github.com/cosmos/ibc-go/v3/modules/core/02-client/types"
	channeltypes "github.com/cosmos/ibc-go/v3/modules/core/04-channel/types"

	"github.com/teleport-network/teleport/app"
	erc20contracts "github.com/teleport-network/teleport/syscontracts/erc20"
	"github.com/teleport-network/teleport/x/aggregate"
	aggregatetypes "github.com/teleport-network/teleport/x/aggregate/types"

	"verif/harness/kit"
	"verif/harness/rec"
)

const ruleIBC = "one ICS-20 receive through the transfer route as wired in app.go, on a branch of a chain with a registered module-owned pair for the voucher " +
	"(1-2 denominations, optional earlier conversions): drawn channel, amount (1 .. 2^128, incl. 1e18 scale and the int64/uint64 limits), receiver (fresh / existing account) and switch state " +
	"{enabled, pair disabled by ToggleTokenRelay, module disabled, both}; oracle: enabled => receiver's tokens +amount, escrow +amount, token supply +amount, receiver's vouchers unchanged; " +
	"disabled => no token, escrow or token-supply change and the receiver holds the vouchers; backing (token supply <= escrow of the pair's denominations) in every case; " +
	"non-trivial = a disabled state; distinct by (switch state, amount class, receiver kind, earlier conversion)"

var (
	ibcOnce sync.Once
	ibcBase *kit.Chain
	erc20   = erc20contracts.ERC20MinterBurnerDecimalsContract.ABI
)

func ibcChain() *kit.Chain {
	ibcOnce.Do(func() {
		ibcBase = kit.NewChain("teleport_9000-1", kit.ChainOpts{Seed: []byte("c11-ibc")})
		ibcBase.Commit(5 * time.Second)
	})
	return ibcBase
}

func govDo(a *app.Teleport, ctx sdk.Context, c govtypes.Content, what string) {
	kit.Must(c.ValidateBasic(), what+" ValidateBasic")
	cctx, write := ctx.CacheContext()
	kit.Must(aggregate.NewAggregateProposalHandler(a.AggregateKeeper)(cctx, c), what)
	write()
}

func tokenBal(a *app.Teleport, ctx sdk.Context, token, who common.Address) *big.Int {
	cctx, _ := ctx.CacheContext()
	res, err := a.AggregateKeeper.CallEVM(cctx, erc20, aggregatetypes.ModuleAddress, token, "balanceOf", who)
	kit.Must(err, "balanceOf")
	out, err := erc20.Unpack("balanceOf", res.Ret)
	kit.Must(err, "unpack balanceOf")
	return out[0].(*big.Int)
}

func tokenSup(a *app.Teleport, ctx sdk.Context, token common.Address) *big.Int {
	cctx, _ := ctx.CacheContext()
	res, err := a.AggregateKeeper.CallEVM(cctx, erc20, aggregatetypes.ModuleAddress, token, "totalSupply")
	kit.Must(err, "totalSupply")
	out, err := erc20.Unpack("totalSupply", res.Ret)
	kit.Must(err, "unpack totalSupply")
	return out[0].(*big.Int)
}

func runIBC(t *rapid.T, r *rec.Recorder) {
	c := ibcChain()
	a := c.App
	ctx, _ := c.Ctx().CacheContext()
	modAcc := a.AccountKeeper.GetModuleAddress(aggregatetypes.ModuleName)

	ch := rapid.SampledFrom([]string{"channel-0", "channel-3", "channel-41"}).Draw(t, "channel")
	base := rapid.SampledFrom([]string{"uatom", "uosmo", "transfer/channel-9/ujuno"}).Draw(t, "baseDenom")
	voucher := transfertypes.ParseDenomTrace(transfertypes.GetDenomPrefix("transfer", ch) + base).IBCDenom()

	// the voucher exists on this chain (somebody received it before) and is registered as a module-owned pair
	holder := kit.NewAccount([]byte("c11-ibc-holder")).Acc
	mint := func(to sdk.AccAddress, coins sdk.Coins) {
		kit.Must(a.BankKeeper.MintCoins(ctx, aggregatetypes.ModuleName, coins), "mint")
		kit.Must(a.BankKeeper.SendCoins(ctx, modAcc, to, coins), "fund")
	}
	mint(holder, sdk.NewCoins(sdk.NewInt64Coin(voucher, 1000)))
	md := banktypes.Metadata{Description: "voucher " + base, Base: voucher, Display: voucher, Name: base + " via " + ch, Symbol: "ibcV",
		DenomUnits: []*banktypes.DenomUnit{{Denom: voucher, Exponent: 0}}}
	govDo(a, ctx, aggregatetypes.NewRegisterCoinProposal("c11", "c11", md), "RegisterCoin")
	id := a.AggregateKeeper.GetTokenPairID(ctx, voucher)
	pair, found := a.AggregateKeeper.GetTokenPair(ctx, id)
	if !found {
		kit.Failf("pair of %s not found", voucher)
	}
	token := pair.GetERC20Contract()
	denoms := []string{voucher}
	if rapid.Bool().Draw(t, "secondDenomination") {
		other := transfertypes.ParseDenomTrace("transfer/channel-77/c11other").IBCDenom()
		mint(holder, sdk.NewCoins(sdk.NewInt64Coin(other, 50)))
		md2 := banktypes.Metadata{Description: "other", Base: other, Display: other, Name: "c11other via channel-77", Symbol: "ibcO", DenomUnits: []*banktypes.DenomUnit{{Denom: other, Exponent: 0}}}
		govDo(a, ctx, aggregatetypes.NewAddCoinProposal("c11", "c11", md2, token.Hex()), "AddCoin")
		denoms = append(denoms, other)
	}

	recv := kit.NewAccount([]byte{'r', byte(rapid.IntRange(0, 3).Draw(t, "receiver"))})
	recvKind := "fresh"
	if rapid.Bool().Draw(t, "receiverExists") {
		recv, recvKind = c.Accounts[1], "existing"
	}
	earlier := false
	if rapid.Bool().Draw(t, "earlierConversion") {
		k := rapid.Int64Range(1, 500).Draw(t, "earlierAmount")
		mint(recv.Acc, sdk.NewCoins(sdk.NewInt64Coin(voucher, k)))
		cctx, write := ctx.CacheContext()
		_, err := a.AggregateKeeper.ConvertCoin(sdk.WrapSDKContext(cctx), aggregatetypes.NewMsgConvertCoin(sdk.NewInt64Coin(voucher, k), recv.Addr, recv.Acc))
		kit.Must(err, "earlier ConvertCoin")
		write()
		earlier = true
	}

	amount, amountClass := sdk.NewInt(rapid.Int64Range(1, 100000).Draw(t, "amount")), "small"
	switch rapid.IntRange(0, 7).Draw(t, "amountKind") {
	case 0:
		amount, amountClass = sdk.NewIntWithDecimal(rapid.Int64Range(1, 30).Draw(t, "coins"), 18), "1e18-scale"
	case 1:
		amount, amountClass = sdk.NewIntFromUint64(1<<63).AddRaw(rapid.Int64Range(-1, 1).Draw(t, "aroundInt64")), "around-2^63"
	case 2:
		amount, amountClass = sdk.NewIntFromBigInt(new(big.Int).Lsh(big.NewInt(1), 64)).AddRaw(rapid.Int64Range(-1, 1).Draw(t, "aroundUint64")), "around-2^64"
	case 3:
		amount, amountClass = sdk.NewIntFromBigInt(new(big.Int).Lsh(big.NewInt(1), 128)), "2^128"
	}

	state := rapid.SampledFrom([]string{"enabled", "enabled", "pairDisabled", "moduleDisabled", "bothDisabled"}).Draw(t, "switches")
	if state == "pairDisabled" || state == "bothDisabled" {
		tok := voucher
		if rapid.Bool().Draw(t, "toggleByAddress") {
			tok = token.Hex()
		}
		govDo(a, ctx, aggregatetypes.NewToggleTokenRelayProposal("c11", "c11", tok), "ToggleTokenRelay")
	}
	if state == "moduleDisabled" || state == "bothDisabled" {
		p := a.AggregateKeeper.GetParams(ctx)
		p.EnableAggregate = false
		a.AggregateKeeper.SetParams(ctx, p)
	}

	escrow := func(x sdk.Context) sdk.Int {
		s := sdk.ZeroInt()
		for _, d := range denoms {
			s = s.Add(a.BankKeeper.GetBalance(x, modAcc, d).Amount)
		}
		return s
	}
	recvAddr := common.BytesToAddress(recv.Acc.Bytes())
	pre := struct {
		tok, sup *big.Int
		esc, v   sdk.Int
	}{tokenBal(a, ctx, token, recvAddr), tokenSup(a, ctx, token), escrow(ctx), a.BankKeeper.GetBalance(ctx, recv.Acc, voucher).Amount}

	data := transfertypes.NewFungibleTokenPacketData(base, amount.String(), "cosmos1qql8ag4cluz6r4dz28p3w00dnc9w8ueulg2gmc", recv.Acc.String())
	packet := channeltypes.NewPacket(data.GetBytes(), rapid.Uint64Range(1, 1000).Draw(t, "sequence"), "transfer", "channel-5", "transfer", ch, clienttypes.NewHeight(1, 1_000_000), 0)
	mw, ok := a.IBCKeeper.Router.GetRoute(transfertypes.ModuleName)
	if !ok {
		kit.Failf("no route for the transfer port")
	}
	rctx, _ := ctx.CacheContext()
	ack := mw.OnRecvPacket(rctx, packet, c.Accounts[2].Acc)
	if ack != nil && !ack.Success() {
		kit.Failf("the plain receive of %s %s was refused: %s", amount, voucher, ack.Acknowledgement())
	}

	dTok := new(big.Int).Sub(tokenBal(a, rctx, token, recvAddr), pre.tok)
	dSup := new(big.Int).Sub(tokenSup(a, rctx, token), pre.sup)
	dEsc := escrow(rctx).Sub(pre.esc)
	dV := a.BankKeeper.GetBalance(rctx, recv.Acc, voucher).Amount.Sub(pre.v)
	facts := fmt.Sprintf("switches=%s amount=%s: receiver tokens %+d, token supply %+d, escrow %+d, receiver vouchers %+d", state, amount, dTok, dSup, dEsc.BigInt(), dV.BigInt())
	if state == "enabled" {
		if dTok.Cmp(amount.BigInt()) != 0 || dSup.Cmp(amount.BigInt()) != 0 || !dEsc.Equal(amount) || !dV.IsZero() {
			t.Fatalf("enabled pair: the received %s %s were not converted exactly: %s", amount, voucher, facts)
		}
	} else {
		if dTok.Sign() != 0 || dSup.Sign() != 0 || !dEsc.IsZero() {
			t.Fatalf("conversion carried out although the %s: %s", map[string]string{"pairDisabled": "pair is disabled", "moduleDisabled": "module is disabled", "bothDisabled": "module and the pair are disabled"}[state], facts)
		}
		if !dV.Equal(amount) {
			t.Fatalf("disabled: the receiver does not hold the received vouchers: %s", facts)
		}
	}
	if tokenSup(a, rctx, token).Cmp(escrow(rctx).BigInt()) > 0 {
		t.Fatalf("token supply %s exceeds the escrow %s of the pair's denominations after the receive: %s", tokenSup(a, rctx, token), escrow(rctx), facts)
	}
	r.Label("ibc_receive_" + state)
	r.Case(fmt.Sprintf("%s|%s|%s|earlier=%v|denoms=%d", state, amountClass, recvKind, earlier, len(denoms)), state != "enabled", func() interface{} {
		return map[string]interface{}{"voucher": voucher, "channel": ch, "facts": facts, "receiver": recvKind}
	})
}

func TestC11_IBCReceive(t *testing.T) {
	r := rec.For("TestC11_IBCReceive", ruleIBC)
	ibcChain()
	rapid.Check(t, func(t *rapid.T) { runIBC(t, r) })
}
