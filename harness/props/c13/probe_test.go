package c13

import (
	"fmt"
	"testing"
	"time"

	clienttypes "github.com/teleport-network/teleport/x/xibc/core/client/types"

	"verif/harness/kit"
)


func probe(t *testing.T, name string, plans ...clientPlan) {
	c := baseChain()
	ctx, _ := c.Ctx().CacheContext()
	e := &env{c: c, ctx: ctx}
	msg := caught(func() {
		for i, p := range plans {
			e.create(p, i, kit.NewAccount([]byte("tss")).Acc)
		}
	})
	if msg != "" {
		fmt.Printf("PROBE %s: build panicked: %s\n", name, msg)
		return
	}
	st := time.Now()
	_, v := roundTrip(c, ctx, freshChain(), tolerance{ethValidate: true, tmIterKeys: true, count: func(string, int) {}})
	fmt.Printf("PROBE %s: %v (%s)\n", name, v, time.Since(st))
}

func TestProbe(t *testing.T) {
	H := clienttypes.NewHeight
	_ = H
	probe(t, "tm plain", clientPlan{Name: "tmA", Type: tTM, Rev: 1, H0: 10, UpdRevs: []uint64{1, 1}, Vals: 2})
	probe(t, "tm 47", clientPlan{Name: "tmA", Type: tTM, Rev: 0, H0: 46, UpdRevs: []uint64{0}})
	probe(t, "tm huge create", clientPlan{Name: "tmA", Type: tTM, Rev: 5, H0: 1<<63 + 5})
	probe(t, "bsc plain", clientPlan{Name: "bscA", Type: tBSC, Rev: 0, H0: 400, UpdRevs: []uint64{0, 0, 0}, Vals: 3})
	probe(t, "bsc plain1", clientPlan{Name: "bscA", Type: tBSC, Rev: 7, H0: 400, UpdRevs: []uint64{7, 9}, Vals: 1})
	probe(t, "bsc zero", clientPlan{Name: "bscA", Type: tBSC, Rev: 0, H0: 0, UpdRevs: []uint64{0}, Vals: 1})
	probe(t, "bsc zero rev1", clientPlan{Name: "bscA", Type: tBSC, Rev: 1, H0: 0, Vals: 1})
	probe(t, "bsc huge", clientPlan{Name: "bscA", Type: tBSC, Rev: 1, H0: 1<<63 + 8, Vals: 1})
	probe(t, "bsc 47", clientPlan{Name: "bscA", Type: tBSC, Rev: 0, H0: 46, UpdRevs: []uint64{0}, Vals: 1})
	probe(t, "eth plain", clientPlan{Name: "ethA", Type: tETH, Rev: 0, H0: 400, UpdRevs: []uint64{0, 0}})
	probe(t, "eth create only", clientPlan{Name: "ethA", Type: tETH, Rev: 0, H0: 400})
	probe(t, "eth huge", clientPlan{Name: "ethA", Type: tETH, Rev: 0, H0: 1<<63 + 400})
	probe(t, "eth zero", clientPlan{Name: "ethA", Type: tETH, Rev: 0, H0: 0})
	probe(t, "tss", clientPlan{Name: "tssA", Type: tTSS})
	probe(t, "extras", clientPlan{Name: "tmA", Type: tTM, Rev: 1, H0: 10, Extra: []clienttypes.Height{H(1, 300), H(2, 1<<64 - 1)}},
		clientPlan{Name: "bscA", Type: tBSC, Rev: 0, H0: 400, Extra: []clienttypes.Height{H(1, 300), H(2, 1<<64 - 1)}},
		clientPlan{Name: "ethA", Type: tETH, Rev: 0, H0: 400, Extra: []clienttypes.Height{H(1, 300), H(2, 1<<62)}})
}

func TestProbeToggle(t *testing.T) {
	c := baseChain()
	tss := kit.NewAccount([]byte("tss")).Acc
	type tc struct{ from, to clientPlan }
	mk := func(typ string, h uint64) clientPlan { return clientPlan{Name: "cli", Type: typ, Rev: 0, H0: h, UpdRevs: []uint64{0}, Vals: 1} }
	nb := mk(tBSC, 400)
	nb.UpdRevs = nil
	for _, x := range []tc{{nb, mk(tTM, 7)}, {nb, mk(tTSS, 0)}, {nb, mk(tETH, 500)}, {mk(tETH, 400), mk(tTM, 7)}, {mk(tETH, 400), mk(tBSC, 400)}, {mk(tETH, 400), mk(tTSS, 0)}, {mk(tBSC, 400), mk(tTM, 7)}, {mk(tTM, 7), mk(tBSC, 400)}, {mk(tBSC, 400), mk(tTSS, 0)}, {mk(tTSS, 0), mk(tBSC, 400)}, {mk(tTSS, 0), mk(tTM, 7)}, {mk(tTM, 7), mk(tTSS, 0)}, {mk(tBSC, 400), mk(tETH, 400)}} {
		ctx, _ := c.Ctx().CacheContext()
		e := &env{c: c, ctx: ctx}
		e.create(x.from, 0, tss)
		// build the target on a scratch branch to obtain its client/consensus state
		sctx, _ := c.Ctx().CacheContext()
		se := &env{c: c, ctx: sctx}
		to := x.to
		to.UpdRevs = nil
		se.create(to, 1, tss)
		ncs, _ := se.ck().GetClientState(sctx, "cli")
		ncons, _ := se.ck().GetClientConsensusState(sctx, "cli", ncs.GetLatestHeight())
		if to.Type == tTSS {
			ncons = &tssCons
		}
		var err error
		pm := caught(func() { err = e.ck().ToggleClient(ctx, "cli", ncs, ncons) })
		if pm != "" || err != nil {
			fmt.Printf("PROBE toggle %s->%s: refused: %v %s\n", x.from.Type, x.to.Type, err, pm)
			continue
		}
		_, v := roundTrip(c, ctx, freshChain(), tolerance{ethValidate: true, tmIterKeys: true, count: func(string, int) {}})
		fmt.Printf("PROBE toggle %s->%s: %v\n", x.from.Type, x.to.Type, v)
	}
}
