// C18 — client lifecycle installs a usable client or changes nothing.
//
// Code under test: x/xibc/core/client/keeper/{client,proposal}.go, proposal_handler.go,
// Initialize / UpgradeState / Status / CheckHeaderAndUpdateState / VerifyPacketCommitment of the
// Tendermint, BSC, ETH and TSS clients, and x/xibc/keeper/msg_server.go UpdateClient.
package c18

import (
	"bytes"
	"fmt"
	"sort"
	"strings"
	"testing"
	"time"

	"github.com/gogo/protobuf/proto"
	"pgregory.net/rapid"

	"github.com/teleport-network/teleport/x/xibc/exported"

	bsctypes "github.com/teleport-network/teleport/x/xibc/clients/light-clients/bsc/types"

	"verif/harness/kit"
	"verif/harness/rec"
	"verif/harness/sim/bscsim"
)

func TestMain(m *testing.M) { rec.Main(m) }

const tableRule = "every rapid case visits the whole finite (action, from-type, to-type) table on a fresh chain: create from {none, TM, BSC, ETH, TSS} (an existing " +
	"client makes the name used), upgrade and toggle over all 16 ordered pairs of {tendermint, bsc, eth, tss}; contents are drawn (simulated counterparties: " +
	"tmsim validator sets / heights / revisions / delays, Parlia chains with 1-5 validators, Rinkeby-mode ETH headers, EVM state tries with the packet " +
	"commitment, TSS accounts), with drawn invalid proposals (used name, unknown name, bad name, type mismatch, same type, wrong consensus-state type) and " +
	"invalid updates (malformed header, unauthorised account) on top; non-trivial = a cell whose action succeeded and whose genuine proof at the installed " +
	"height verified after the delay; distinct by (action, from, to, variant, outcome, clauses checked)"

const lifecycleRule = "rapid state machine over one chain and chain names that live through several installs: create, then upgrades / toggles to drawn " +
	"types, interleaved with invalid proposals, valid and invalid updates through DeliverTx and block-time ticks; non-trivial = a history with at least two " +
	"successful installs on one name whose proofs verified; distinct by the sequence of (action, from>to, outcome)"

// cellSpec is one table cell.
type cellSpec struct {
	Action, From, To string
}

func (c cellSpec) String() string { return c.Action + ":" + c.From + ">" + c.To }

// valid says whether the property lets the action succeed for this (from, to).
func (c cellSpec) valid() bool {
	switch c.Action {
	case "create":
		return c.From == "none"
	case "upgrade":
		return c.From == c.To
	case "toggle":
		return c.From != c.To
	}
	return false
}

func table() []cellSpec {
	var out []cellSpec
	for _, from := range append([]string{"none"}, allTypes...) {
		for _, to := range allTypes {
			out = append(out, cellSpec{"create", from, to})
		}
	}
	for _, a := range []string{"upgrade", "toggle"} {
		for _, from := range allTypes {
			for _, to := range allTypes {
				out = append(out, cellSpec{a, from, to})
			}
		}
	}
	return out
}

func (w *world) newInst(t *rapid.T, typ string, p genParams) *inst {
	switch typ {
	case TM:
		return newTM(t, p)
	case BSC:
		return newBSC(t, p)
	case ETH:
		return newETH(t, p)
	case TSS:
		acct := w.tssA
		if rapid.Bool().Draw(t, "tss_account") {
			acct = w.tssB
		}
		return newTSS(t, p, acct)
	}
	kit.Failf("unknown type %q", typ)
	return nil
}

// wrongConsAccepted: client types whose Initialize / UpgradeState do not look at the consensus state's type
// (the shapes the known finding wrong-consensus-type-accepted covers).
func wrongConsAccepted(action, to string) bool {
	return to == BSC || to == ETH || (to == TM && action == "upgrade")
}

type actResult struct {
	Accepted bool
	Result   string
	Variant  string
	Follow   followResult
	Excluded []string
}

// act performs one lifecycle action for chain name cl.name with freshly drawn content of type to.
func (w *world) act(t *rapid.T, cl *client, action, to, variant string) actResult {
	w.r.Step()
	from := "none"
	if cl.in != nil {
		from = cl.in.Typ
	}
	spec := cellSpec{action, from, to}
	p := genParams{now: w.c.Now, src: cl.name, dst: w.c.ChainID}
	switch rapid.IntRange(0, 3).Draw(t, "height_band") {
	case 0:
		p.low = true
	case 1:
		p.high = true
	}
	in := w.newInst(t, to, p)
	out := actResult{Variant: variant}
	if variant == "wrongcons" {
		others := []string{}
		for _, u := range allTypes {
			if u != to {
				others = append(others, u)
			}
		}
		u := rapid.SampledFrom(others).Draw(t, "wrong_cons_type")
		in.Cons = w.newInst(t, u, p).Cons
		out.Variant = "wrongcons(" + u + ")"
	}
	if variant == "degenerate" {
		out.Variant = "degenerate(" + w.degenerate(t, in) + ")"
	}
	content := makeContent(action, cl.name, in.CS, in.Cons)
	before := w.xibc()
	prev := clientKVs(before, cl.name)
	bt := w.c.Header.Time
	res := w.propose(t, content)
	out.Result = res.String()
	arg := map[string]interface{}{"to": to, "from": from, "variant": out.Variant, "content": in.Desc}
	what := fmt.Sprintf("%s %s (%s)", spec, cl.name, out.Variant)
	if !res.ok() {
		w.assertUnchanged(t, before, "failed "+what)
		w.logf(action, cl.name, arg, "rejected, unchanged: %s", out.Result)
		if spec.valid() && variant == "plain" {
			if action == "toggle" && w.listed[kfToggleOld] {
				// Initialize of the OLD client state judged the new consensus state / re-checked the old header
				w.r.Exclude(kfToggleOld)
				out.Excluded = append(out.Excluded, kfToggleOld)
				return out
			}
			w.fail(t, "valid %s proposal for %q (existing client: %s) was rejected: %s", action, cl.name, from, out.Result)
		}
		return out
	}
	out.Accepted = true
	w.logf(action, cl.name, arg, "accepted")
	// a proposal names ONE chain: whatever it installs, the clients of all other chain names (also names that begin with, or
	// are the beginning of, this one) stay as they are
	for _, e := range kit.Diff(before, w.xibc()) {
		if !bytes.HasPrefix(e.Key, []byte("clients/"+cl.name+"/")) {
			w.fail(t, "%s changed an entry outside the client store of %q: %s", what, cl.name, e.String())
		}
	}
	if !spec.valid() {
		switch action {
		case "create":
			w.fail(t, "create proposal accepted for chain name %q which already holds a %s client", cl.name, from)
		case "upgrade":
			w.fail(t, "upgrade proposal with a %s client state accepted for the %s client %q (an upgrade must keep the type)", to, from, cl.name)
		default:
			w.fail(t, "toggle proposal with a %s client state accepted for the %s client %q (a toggle must change the type)", to, from, cl.name)
		}
	}
	cl.in, cl.updates, cl.tainted, cl.installedAt, cl.proofOK = in, 0, "", bt, false
	if in.Typ == TSS {
		cl.tssCur = in.tss.addr
	}
	w.checkStored(t, cl, what)

	skip := map[string]string{}
	if action == "toggle" && w.listed[kfToggleOld] && to != TSS {
		// ToggleClient ran Initialize of the OLD client state: the new type's metadata is not there
		for _, c := range []string{"meta", "proof", "update"} {
			skip[c] = kfToggleOld
		}
		cl.tainted = "toggled while " + kfToggleOld + " is listed"
	}
	if action == "toggle" && !w.listed[kfToggleOld] && w.listed[kfLeftover] && (to == BSC || to == ETH) {
		if lh, typ, ok := lowestConsensus(prev, w); ok && lh.LT(in.Height) && typ != proto.MessageName(in.Cons.(proto.Message)) {
			// the old client's lowest consensus state stays below the new height: BSC / ETH pruning trips over it on every update
			skip["update"] = kfLeftover
			if delayUpdates(in) > 0 {
				skip["proof"] = kfLeftover
			}
			cl.tainted = "toggled over lower consensus states while " + kfLeftover + " is listed"
		}
	}
	if action == "upgrade" && to == TM && w.listed[kfTMUpgrade] {
		skip["meta"] = kfTMUpgrade
		skip["proof"] = kfTMUpgrade
	}
	if to == TSS && w.listed[kfTSSUpdate] {
		if _, ok := skip["update"]; !ok {
			skip["update"] = kfTSSUpdate
		}
	}
	out.Follow = w.follow(t, cl, bt, what, skip)
	cl.proofOK = out.Follow.proof
	keys := map[string]bool{}
	for _, c := range out.Follow.skipped {
		keys[skip[c]] = true
	}
	for k := range keys {
		out.Excluded = append(out.Excluded, k)
	}
	sort.Strings(out.Excluded)
	return out
}

// drawVariant chooses the content variant of a valid action.
func (w *world) drawVariant(t *rapid.T, action, to string) string {
	if rapid.IntRange(0, 4).Draw(t, "variant") != 0 {
		return "plain"
	}
	if action == "toggle" && w.listed[kfToggleOld] {
		return "plain" // toggles do not initialise the new type at all while that finding is listed
	}
	if to == BSC && rapid.Bool().Draw(t, "degenerateContent") {
		return "degenerate"
	}
	if wrongConsAccepted(action, to) {
		key := kfWrongCons
		if to == TM {
			key = kfTMUpgrade // the empty tendermint UpgradeState neither checks the type nor writes metadata
		}
		if w.listed[key] {
			w.r.Exclude(key)
			return "plain"
		}
	}
	return "wrongcons"
}

// degenerate rewrites the content of a BSC instance into one its client type cannot be initialised from although it is
// correctly sealed and passes stateless validation: the either/or oracle of act() then demands "rejected and nothing changed"
// or "installed and usable" - never an accepted client that lacks what its type needs.
func (w *world) degenerate(t *rapid.T, in *inst) string {
	s := in.bsc
	g := s.genesis
	// (an epoch header announcing NO validators is not in the list: like upstream Parlia the client takes the empty list at its
	// word, and no continuation of such a chain is defined against which "usable" could be judged)
	kind := rapid.SampledFrom([]string{"validator-bytes-not-multiple-of-20", "not-an-epoch-header"}).Draw(t, "degenerate_kind")
	var vanity [32]byte
	copy(vanity[:], g.Extra[:32])
	switch kind {
	case "validator-bytes-not-multiple-of-20":
		g.Extra = bscsim.BuildExtra(vanity, append(bscsim.AddrBytes(s.nextVals), rbytes(t, "stray_bytes", rapid.IntRange(1, 19).Draw(t, "stray"))...))
	default:
		g.Number++
	}
	k := s.keys[g.Number%uint64(len(s.keys))]
	g.Coinbase = k.Addr
	bscsim.Seal(g, k, s.chainID)
	cs := in.CS.(*bsctypes.ClientState)
	cs.Header = *g.ToProto()
	in.Height = cs.Header.Height
	in.Cons = &bsctypes.ConsensusState{Timestamp: g.Time, Height: cs.Header.Height, Root: g.Root.Bytes()}
	return kind
}

// invalidProposal runs one proposal that the property requires to fail, and checks that nothing changed.
func (w *world) invalidProposal(t *rapid.T, cl *client) {
	w.r.Step()
	kinds := []string{"create-bad-name", "upgrade-unknown-name", "toggle-unknown-name"}
	if cl.in != nil {
		kinds = append(kinds, "create-used-name", "upgrade-type-mismatch", "toggle-same-type")
	}
	kind := rapid.SampledFrom(kinds).Draw(t, "invalid_proposal")
	name, action := cl.name, ""
	typ := rapid.SampledFrom(allTypes).Draw(t, "invalid_proposal_type")
	switch kind {
	case "create-bad-name":
		name, action = w.badName(t), "create"
	case "upgrade-unknown-name":
		name, action = w.freshName(t), "upgrade"
	case "toggle-unknown-name":
		name, action = w.freshName(t), "toggle"
	case "create-used-name":
		action = "create"
	case "upgrade-type-mismatch":
		action = "upgrade"
		for typ == cl.in.Typ {
			typ = allTypes[(indexOf(typ)+1)%len(allTypes)]
		}
	case "toggle-same-type":
		action, typ = "toggle", cl.in.Typ
	}
	in := w.newInst(t, typ, genParams{now: w.c.Now, src: name, dst: w.c.ChainID})
	before := w.xibc()
	res := w.propose(t, makeContent(action, name, in.CS, in.Cons))
	if res.ok() {
		w.logf(action, name, kind, "ACCEPTED")
		w.fail(t, "%s proposal (%s, %s content, chain name %q) was accepted; the property requires it to fail", action, kind, typ, name)
	}
	if kind == "create-bad-name" && res.validateBasic == nil {
		// rejected only by the handler: governance would have stored and voted on a proposal with an invalid chain name
		w.r.Label("invalid-proposal:create-bad-name:passed-ValidateBasic")
	}
	w.assertUnchanged(t, before, "failed "+kind+" proposal")
	w.r.Label("invalid-proposal:" + kind + ":rejected,unchanged")
	w.logf(action, name, kind+" ("+typ+")", "rejected, unchanged: %s", res.String())
}

func indexOf(typ string) int {
	for i, x := range allTypes {
		if x == typ {
			return i
		}
	}
	return 0
}

type cellSample struct {
	Cell     string    `json:"cell"`
	Variant  string    `json:"variant"`
	Outcome  string    `json:"outcome"`
	Excluded []string  `json:"excluded_clauses_of,omitempty"`
	History  []stepLog `json:"history"`
}

func outcomeOf(spec cellSpec, a actResult) string {
	if !a.Accepted {
		if spec.valid() && len(a.Excluded) > 0 {
			return "rejected(known-finding)"
		}
		return "rejected,unchanged"
	}
	parts := []string{"accepted", "stored"}
	if a.Follow.meta {
		parts = append(parts, "meta")
	}
	if a.Follow.active {
		parts = append(parts, "active")
	}
	if a.Follow.proof {
		parts = append(parts, "proof")
	}
	if a.Follow.updated {
		parts = append(parts, "update")
	}
	return strings.Join(parts, "+")
}

// runCell visits one table cell on a fresh chain name.
func (w *world) runCell(t *rapid.T, spec cellSpec) {
	mark := len(w.log)
	cl := w.newClient(w.freshName(t))
	if spec.From != "none" {
		pre := w.act(t, cl, "create", spec.From, "plain")
		if !pre.Accepted {
			kit.Failf("could not install the previous %s client", spec.From)
		}
		if cl.tainted != "" {
			kit.Failf("previous %s client unusable: %s", spec.From, cl.tainted)
		}
	}
	for i := rapid.IntRange(0, 2).Draw(t, "noise"); i > 0; i-- {
		w.invalidProposal(t, cl)
	}
	variant := "plain"
	if spec.valid() {
		variant = w.drawVariant(t, spec.Action, spec.To)
	}
	a := w.act(t, cl, spec.Action, spec.To, variant)
	out := outcomeOf(spec, a)
	vk := ""
	if a.Variant != "plain" {
		vk = ":" + strings.SplitN(a.Variant, "(", 2)[0] // wrongcons
	}
	w.r.Label("cell:" + spec.String() + vk + ":" + out)
	nontrivial := a.Accepted && a.Follow.proof
	shape := fmt.Sprintf("%s|%s|%s|%v", spec, a.Variant, out, a.Excluded)
	hist := append([]stepLog{}, w.log[mark:]...)
	w.r.Case(shape, nontrivial, func() interface{} {
		return cellSample{Cell: spec.String(), Variant: a.Variant, Outcome: out, Excluded: a.Excluded, History: hist}
	})
}

func runTable(t *rapid.T, r *rec.Recorder) {
	w := newWorld(r)
	cells := table()
	var names []string
	for _, spec := range cells {
		names = append(names, spec.String())
		w.runCell(t, spec)
		if rapid.IntRange(0, 3).Draw(t, "tick_between_cells") == 0 {
			w.c.Commit(time.Duration(rapid.IntRange(1, 20).Draw(t, "tick_s")) * time.Second)
		}
	}
	r.SetExtra("exhaustive_table", true)
	r.SetExtra("table_cells", names)
	r.SetExtra("table_types", allTypes)
}

// TestC18_Table: the whole (action, from, to) table with drawn contents, once per rapid case.
func TestC18_Table(t *testing.T) {
	r := rec.For("TestC18_Table", tableRule)
	rapid.Check(t, func(t *rapid.T) { runTable(t, r) })
}

// ---------------------------------------------------------------------------------------------
// lifecycle state machine: several installs on the same chain name

type lifeSample struct {
	Installs []string  `json:"installs"`
	History  []stepLog `json:"history"`
}

func runLifecycle(t *rapid.T, r *rec.Recorder) {
	w := newWorld(r)
	cl := w.newClient(w.freshName(t))
	var installs []string
	verified := 0
	onName := 0
	best := 0
	fresh := func() {
		cl = w.newClient(w.freshName(t))
		onName = 0
	}
	install := func(t *rapid.T, action, to string) {
		from := "none"
		if cl.in != nil {
			from = cl.in.Typ
		}
		spec := cellSpec{action, from, to}
		a := w.act(t, cl, action, to, w.drawVariant(t, action, to))
		installs = append(installs, spec.String()+"="+outcomeOf(spec, a))
		r.Label("life:" + spec.String() + ":" + outcomeOf(spec, a))
		if a.Accepted && a.Follow.proof {
			verified++
			onName++
			if onName > best {
				best = onName
			}
		}
		if cl.tainted != "" {
			w.logf("retire", cl.name, cl.tainted, "continuing on a fresh chain name")
			fresh()
		}
	}
	t.Repeat(map[string]func(*rapid.T){
		"": func(t *rapid.T) {},
		"install": func(t *rapid.T) {
			if cl.in == nil {
				install(t, "create", rapid.SampledFrom(allTypes).Draw(t, "create_type"))
				return
			}
			if rapid.IntRange(0, 2).Draw(t, "upgrade_or_toggle") == 0 {
				install(t, "upgrade", cl.in.Typ)
				return
			}
			to := rapid.SampledFrom(allTypes).Draw(t, "toggle_type")
			for to == cl.in.Typ {
				to = allTypes[(indexOf(to)+1)%len(allTypes)]
			}
			install(t, "toggle", to)
		},
		"invalidProposal": func(t *rapid.T) { w.invalidProposal(t, cl) },
		"update": func(t *rapid.T) {
			if cl.in == nil || (cl.in.Typ == TSS && w.listed[kfTSSUpdate]) {
				t.Skip("nothing to update")
			}
			w.validUpdate(t, cl, "later update")
		},
		"invalidUpdate": func(t *rapid.T) {
			if cl.in == nil {
				t.Skip("no client")
			}
			if !w.invalidUpdate(t, cl) {
				fresh()
			}
		},
		"proofAgain": func(t *rapid.T) {
			// the proof at the installed height keeps verifying while the client lives (no pruning within these time spans)
			if cl.in == nil || !cl.proofOK {
				t.Skip("no proof to re-check")
			}
			if cl.in.Typ == TM && w.c.Header.Time.Before(cl.installedAt.Add(time.Duration(cl.in.tm.delay))) {
				t.Skip("delay not passed yet")
			}
			w.r.Step()
			if err := w.verifyProof(cl); err != nil {
				w.fail(t, "proof at the installed height %s of the %s client %q no longer verifies: %s", cl.in.Height, cl.in.Typ, cl.name, firstLine(err.Error()))
			}
			r.Label("proof-again:" + cl.in.Typ)
		},
		"tick": func(t *rapid.T) {
			dt := time.Duration(rapid.IntRange(1, 30).Draw(t, "tick_s")) * time.Second
			w.c.Commit(dt)
			w.logf("commit", "", dt.String(), "")
		},
		"newName": func(t *rapid.T) {
			if cl.in == nil {
				t.Skip("current name unused")
			}
			fresh()
		},
	})
	hist := append([]stepLog{}, w.log...)
	r.Case(strings.Join(installs, " "), best >= 2, func() interface{} { return lifeSample{Installs: installs, History: hist} })
	_ = verified
}

// TestC18_Lifecycle: histories with several installs per chain name.
func TestC18_Lifecycle(t *testing.T) {
	r := rec.For("TestC18_Lifecycle", lifecycleRule)
	rapid.Check(t, func(t *rapid.T) { runLifecycle(t, r) })
}

var _ = exported.Active
