// C06 (b) — privileged system-contract methods x call paths.
package c06

import (
	"bytes"
	"fmt"
	"math/big"
	"sort"
	"strings"
	"testing"

	"github.com/ethereum/go-ethereum/accounts/abi"
	"github.com/ethereum/go-ethereum/common"
	"pgregory.net/rapid"

	"github.com/teleport-network/teleport/syscontracts"
	endpointcontract "github.com/teleport-network/teleport/syscontracts/xibc_endpoint"
	packetcontract "github.com/teleport-network/teleport/syscontracts/xibc_packet"
	aggregatetypes "github.com/teleport-network/teleport/x/aggregate/types"
	packettypes "github.com/teleport-network/teleport/x/xibc/core/packet/types"

	"verif/harness/kit"
	"verif/harness/rec"
	"verif/harness/sim/asmkit"
	"verif/harness/sim/bridge"
)

const ruleB = "finite table (privileged method x call path) fully visited for every case, arguments drawn; every pair is first shown to succeed and change contract state when called " +
	"from the legitimate module/contract address on a branch of the same state (positive control; pairs without a successful control are reported as not exercised); " +
	"paths: user account tx, contract CALL proxy, DELEGATECALL proxy, constructor of a fresh contract, call data of a TSS-injected packet, call data of a real relayed packet; " +
	"non-trivial = pair whose positive control succeeded; distinct by (method, path, control caller)"

type method struct {
	name     string
	contract common.Address
	abi      abi.ABI
	chain    int // chain index the attack runs on
	args     func(t *rapid.T, f *fixture) []interface{}
}

type fixture struct {
	w   *bridge.World
	p01 *bridge.Pkt // sent 0 -> 1 with a fee, not yet received
}

var (
	packetABI   = packetcontract.PacketContract.ABI
	endpointABI = endpointcontract.EndpointContract.ABI
	executeABI  = endpointcontract.ExecuteContract.ABI
	packetAddr  = packetcontract.PacketContractAddress
	endpAddr    = endpointcontract.EndpointContractAddress
	execAddr    = common.HexToAddress(syscontracts.ExecuteContractAddress)
)

func newFixture(seed []byte) *fixture {
	w := bridge.NewWorld(2, seed)
	out := w.Send(bridge.SendSpec{Src: 0, DstName: w.Chains[1].ChainID, User: 0, Token: w.Tok[0], Amount: big.NewInt(100), Fee: big.NewInt(7),
		Receiver: strings.ToLower(w.Users[1].Addr.String())}, false)
	if !out.OK || len(out.Pkts) != 1 {
		kit.Failf("fixture send failed: %s %s", out.Res.Log, out.Res.VmError)
	}
	w.Tick()
	w.Tick()
	w.MustUpdate(1, 0)
	return &fixture{w: w, p01: out.Pkts[0]}
}

func methods() []method {
	attackerAck := func(f *fixture, code uint64) packettypes.Acknowledgement {
		return packettypes.NewAcknowledgement(code, []byte{}, "forged", f.w.Rels[0].Acc.String(), 0)
	}
	return []method{
		{"packet.setSequence", packetAddr, packetABI, 0, func(t *rapid.T, f *fixture) []interface{} {
			return []interface{}{f.w.Chains[1].ChainID, f.w.Chains[0].ContractNextSeq(f.w.Chains[1].ChainID) + uint64(rapid.IntRange(1, 1).Draw(t, "d"))}
		}},
		{"packet.setAckStatus", packetAddr, packetABI, 0, func(t *rapid.T, f *fixture) []interface{} {
			return []interface{}{f.w.Chains[1].ChainID, uint64(1), uint8(rapid.IntRange(1, 2).Draw(t, "state"))}
		}},
		{"packet.setChainName", packetAddr, packetABI, 0, func(t *rapid.T, f *fixture) []interface{} {
			return []interface{}{rapid.StringMatching("[a-z]{3,10}").Draw(t, "name")}
		}},
		{"packet.sendPacketFeeToRelayer", packetAddr, packetABI, 0, func(t *rapid.T, f *fixture) []interface{} {
			return []interface{}{f.w.Chains[1].ChainID, uint64(1), f.w.Outsider.Addr}
		}},
		{"packet.OnAcknowledgePacket", packetAddr, packetABI, 0, func(t *rapid.T, f *fixture) []interface{} {
			return []interface{}{f.p01.P, attackerAck(f, uint64(rapid.IntRange(0, 2).Draw(t, "code")))}
		}},
		{"packet.sendPacket", packetAddr, packetABI, 0, func(t *rapid.T, f *fixture) []interface{} {
			td := packettypes.TransferData{Token: strings.ToLower(f.w.Tok[0].String()), Amount: common.LeftPadBytes(big.NewInt(rapid.Int64Range(1, 1000000).Draw(t, "amt")).Bytes(), 32),
				Receiver: strings.ToLower(f.w.Outsider.Addr.String())}
			tdBz, _ := td.ABIPack()
			pk := packettypes.Packet{SrcChain: f.w.Chains[0].ChainID, DstChain: f.w.Chains[1].ChainID, Sequence: f.w.Chains[0].ContractNextSeq(f.w.Chains[1].ChainID),
				Sender: strings.ToLower(f.w.Outsider.Addr.String()), TransferData: tdBz, CallData: []byte{}, CallbackAddress: ""}
			return []interface{}{pk, packettypes.Fee{TokenAddress: common.Address{}, Amount: big.NewInt(0)}}
		}},
		{"packet.onRecvPacket", packetAddr, packetABI, 1, func(t *rapid.T, f *fixture) []interface{} {
			return []interface{}{forgedInbound(t, f)}
		}},
		{"endpoint.onRecvPacket", endpAddr, endpointABI, 1, func(t *rapid.T, f *fixture) []interface{} {
			return []interface{}{forgedInbound(t, f)}
		}},
		{"endpoint.onAcknowledgementPacket", endpAddr, endpointABI, 0, func(t *rapid.T, f *fixture) []interface{} {
			return []interface{}{f.p01.P, uint64(rapid.IntRange(1, 3).Draw(t, "code")), []byte{}, "forged"}
		}},
		{"endpoint.bindToken", endpAddr, endpointABI, 1, func(t *rapid.T, f *fixture) []interface{} {
			return []interface{}{f.w.Target[1], "0x" + rapid.StringMatching("[0-9a-f]{40}").Draw(t, "ori"), rapid.SampledFrom([]string{"evil-chain", f.w.Chains[0].ChainID}).Draw(t, "oriChain"), uint8(0)}
		}},
		{"endpoint.enableTimeBasedSupplyLimit", endpAddr, endpointABI, 1, func(t *rapid.T, f *fixture) []interface{} {
			return []interface{}{f.w.Tok[1], big.NewInt(rapid.Int64Range(1, 1000).Draw(t, "period")), big.NewInt(1000), big.NewInt(100), big.NewInt(1)}
		}},
		{"endpoint.disableTimeBasedSupplyLimit", endpAddr, endpointABI, 1, func(t *rapid.T, f *fixture) []interface{} {
			return []interface{}{f.w.NTok[1]} // enabled in the fixture preparation below
		}},
	}
}

func erc20Approve(spender common.Address) ([]byte, error) {
	return bridgeERC20().Pack("approve", spender, big.NewInt(1))
}

// forgedInbound is a packet claiming a transfer from chain 0 that chain 0 never sent.
func forgedInbound(t *rapid.T, f *fixture) packettypes.Packet {
	td := packettypes.TransferData{Token: strings.ToLower(f.w.Tok[0].String()), Amount: common.LeftPadBytes(big.NewInt(rapid.Int64Range(1, 1000000).Draw(t, "amt")).Bytes(), 32),
		Receiver: strings.ToLower(f.w.Outsider.Addr.String())}
	tdBz, _ := td.ABIPack()
	return packettypes.Packet{SrcChain: f.w.Chains[0].ChainID, DstChain: f.w.Chains[1].ChainID, Sequence: uint64(rapid.IntRange(1, 50).Draw(t, "seq")),
		Sender: strings.ToLower(f.w.Outsider.Addr.String()), TransferData: tdBz, CallData: []byte{}, CallbackAddress: ""}
}

var paths = []string{"eoa", "proxy", "delegate", "ctor", "packet-calldata-tss", "packet-calldata-relayed"}

func sysDump(c *kit.Chain) kit.Dump {
	d := c.DumpStores(c.Ctx(), "evm", "xibc", "bank")
	agent := append([]byte{0x02}, common.HexToAddress(syscontracts.AgentContractAddress).Bytes()...)
	return bridge.FilterDump(d, func(store string, key []byte) bool {
		if store != "evm" {
			return false
		}
		for _, pre := range append(bridge.SystemContractKeyPrefixes, agent) {
			if bytes.HasPrefix(key, pre) {
				return false
			}
		}
		return true // other contracts' storage and code are not the subject
	})
}

func deploy(c *kit.Chain, from kit.Account, runtime []byte) common.Address {
	nonce := c.App.EvmKeeper.GetNonce(c.Ctx(), from.Addr)
	r := c.DeliverEth(from, nil, nil, asmkit.InitCode(runtime))
	if !r.Succeeded() {
		kit.Failf("helper deploy failed: %s %s", r.Log, r.VmError)
	}
	return cryptoCreate(from.Addr, nonce)
}

func runPrivileged(t *rapid.T, r *rec.Recorder) {
	seed := rapid.SliceOfN(rapid.Byte(), 2, 2).Draw(t, "seed")
	f := newFixture(seed)
	w := f.w
	// enable a limit legitimately so that disable has something to do
	if _, err := w.Chains[1].App.AggregateKeeper.EnableTimeBasedSupplyLimitInTransferContract(w.Chains[1].Ctx(), w.NTok[1], big.NewInt(100), big.NewInt(1000), big.NewInt(100), big.NewInt(1)); err != nil {
		kit.Failf("fixture: enable limit: %v", err)
	}
	attacker := w.Outsider
	tssSeq := uint64(1000)
	candidates := []common.Address{packettypes.ModuleAddress, aggregatetypes.ModuleAddress, packetAddr, endpAddr, execAddr}
	for _, m := range methods() {
		c := w.Chains[m.chain]
		args := m.args(t, f)
		data, err := m.abi.Pack(strings.SplitN(m.name, ".", 2)[1], args...)
		kit.Must(err, "pack "+m.name)
		// positive control on a branch
		control := ""
		for _, from := range candidates {
			cctx, _ := c.Ctx().CacheContext()
			before := c.DumpStores(cctx, "evm", "xibc", "bank")
			res, err := c.App.XIBCKeeper.PacketKeeper.CallEVMWithData(cctx, from, &m.contract, data)
			if err == nil && res != nil && !res.Failed() {
				after := c.DumpStores(cctx, "evm", "xibc", "bank")
				if len(kit.Diff(before, after)) > 0 {
					control = from.Hex()
					break
				}
			}
		}
		if control == "" {
			r.Label("control_failed_" + m.name)
			continue
		}
		r.Label("control_ok_" + m.name)
		for _, path := range paths {
			before := sysDump(c)
			failed := false
			detail := ""
			switch path {
			case "eoa":
				res := c.DeliverEth(attacker, &m.contract, nil, data)
				failed, detail = !res.Succeeded(), res.VmError
			case "proxy":
				px := deploy(c, attacker, asmkit.Proxy(m.contract))
				before = sysDump(c)
				res := c.DeliverEth(attacker, &px, nil, data)
				failed, detail = !res.Succeeded(), res.VmError
			case "delegate":
				px := deploy(c, attacker, asmkit.DelegateProxy(m.contract))
				before = sysDump(c)
				res := c.DeliverEth(attacker, &px, nil, data)
				failed, detail = true, res.VmError // success is harmless if nothing changed (checked below)
			case "ctor":
				res := c.DeliverEth(attacker, nil, nil, asmkit.Script([]asmkit.Op{{Kind: asmkit.OpCall, Target: m.contract, Data: data}}))
				failed, detail = !res.Succeeded(), res.VmError
			case "packet-calldata-tss":
				cd := packettypes.CallData{ContractAddress: strings.ToLower(m.contract.Hex()), CallData: data}
				cdBz, err := cd.ABIPack()
				kit.Must(err, "pack calldata")
				tssSeq++
				seq := tssSeq
				pk := packettypes.Packet{SrcChain: bridge.TSSName, DstChain: c.ChainID, Sequence: seq, Sender: "0xattacker", TransferData: []byte{}, CallData: cdBz}
				bz, err := pk.ABIPack()
				kit.Must(err, "pack packet")
				res := c.Deliver(w.TSS, packettypes.NewMsgRecvPacket(bz, []byte{}, bridge.H(0, 1), w.TSS.Acc))
				// the receipt and ack of the injected packet are legitimate xibc-store changes
				before = dropXibc(before)
				if !res.OK() {
					kit.Failf("TSS-injected call-only packet rejected: %s", res.Log)
				}
				_, acks := kit.WrittenAcks(res)
				var ack packettypes.Acknowledgement
				if len(acks) == 1 {
					_ = ack.ABIDecode(acks[0])
				}
				failed, detail = len(acks) == 1 && ack.Code != 0, fmt.Sprintf("ack code %d %q", ack.Code, ack.Message)
			case "packet-calldata-relayed":
				// the attacker sends a real packet from the other chain carrying the privileged call
				src := 1 - m.chain
				cdContract := strings.ToLower(m.contract.Hex())
				ccd := packettypes.CrossChainData{DstChain: c.ChainID, TokenAddress: common.Address{}, Receiver: "", Amount: big.NewInt(0), ContractAddress: cdContract, CallData: data}
				sres := w.Chains[src].CrossChainCall(w.Users[0], ccd, packettypes.Fee{Amount: big.NewInt(0)})
				if !sres.Succeeded() {
					kit.Failf("call-only send failed: %s %s", sres.Log, sres.VmError)
				}
				pkts := kit.SentPackets(sres.TxResult)
				w.Tick()
				w.Tick()
				w.MustUpdate(m.chain, src)
				before = dropXibc(sysDump(c))
				res := c.Deliver(w.Rels[0], kit.MsgRecv(w.Chains[src], pkts[0], c.ClientHeight(w.Chains[src].ChainID), w.Rels[0].Acc))
				if !res.OK() {
					kit.Failf("relayed receive rejected: %s", res.Log)
				}
				_, acks := kit.WrittenAcks(res)
				var ack packettypes.Acknowledgement
				if len(acks) == 1 {
					_ = ack.ABIDecode(acks[0])
				}
				failed, detail = len(acks) == 1 && ack.Code != 0, fmt.Sprintf("ack code %d %q", ack.Code, ack.Message)
			}
			after := sysDump(c)
			if strings.HasPrefix(path, "packet-calldata") {
				after = dropXibc(after)
			}
			if !failed {
				t.Fatalf("privileged %s succeeded through path %s from a non-module caller (%s); legitimate caller is %s", m.name, path, detail, control)
			}
			if d := kit.Diff(before, after); len(d) != 0 {
				t.Fatalf("privileged %s through path %s (%s) changed bridge state:\n%s", m.name, path, detail, kit.DiffString(d, 10))
			}
			r.Label("rejected_" + path)
			r.Case(fmt.Sprintf("%s|%s|%s", m.name, path, control), true, func() interface{} {
				return map[string]string{"method": m.name, "path": path, "legitimate_caller": control, "outcome": detail, "args": fmt.Sprintf("%v", args)}
			})
		}
	}
	r.Case("table-pass", false, nil)
}

func dropXibc(d kit.Dump) kit.Dump {
	out := kit.Dump{}
	for k, v := range d {
		if k != "xibc" {
			out[k] = v
		}
	}
	return out
}

func TestC06_PrivilegedMethods(t *testing.T) {
	r := rec.For("TestC06_PrivilegedMethods", ruleB)
	r.SetExtra("exhaustive_table", true)
	var names []string
	for _, m := range methods() {
		names = append(names, m.name)
	}
	sort.Strings(names)
	r.SetExtra("method_table", names)
	r.SetExtra("path_table", paths)
	rapid.Check(t, func(t *rapid.T) { runPrivileged(t, r) })
}
