// C10, difficulty rule of a non-Rinkeby client over generated parents and gaps. Proof-of-work-valid headers cannot be
// generated (mining), so acceptance itself is out of reach here; but the client decides the rules in a fixed order - parent,
// timestamp, gas limit / base fee, difficulty, then the size of the extra data, then the seal - and reports which one
// failed. A child that satisfies every rule up to and including the difficulty rule and carries 33 bytes of extra data is
// refused for its extra data; the same child with any other difficulty is refused for its difficulty. That decides the
// difficulty rule for every generated (parent, gap) without mining: reference = EIP-100 / EIP-1234 arithmetic written from
// the EIP text, validated against the ten recorded main-net headers.
package c10

import (
	"fmt"
	"math/big"
	"strings"
	"testing"

	"github.com/ethereum/go-ethereum/common"
	gethtypes "github.com/ethereum/go-ethereum/core/types"
	"pgregory.net/rapid"

	"verif/harness/kit"
	"verif/harness/rec"
	"verif/harness/sim/ethsim"
)

const ruleDifficulty = "non-Rinkeby clients (chain id 1 / 3 / 5): creation header with drawn difficulty (2^17 .. 2^70), number (below / above the bomb delay, up to 10 bomb periods " +
	"past it), with or without uncles; child at a gap of 1 .. 20000 s (dense around the multiples of 9 and the -99 clamp at 900 s) that satisfies all earlier rules and carries 33 bytes " +
	"of extra data; its difficulty is the reference value (EIP-100 with the 9,700,000-block bomb delay, written from the EIP text and checked against the recorded main-net headers) or " +
	"that value +-1, +-parent/2048, the parent's own, the value for a gap 9 s shorter / longer; oracle: reference difficulty => refused for the extra data (the difficulty rule passed), " +
	"any other difficulty => refused for the difficulty; non-trivial = gap >= 900 s or uncles or bomb active; distinct by (gap class, uncles, bomb, difficulty variant)"

// refDifficulty is EIP-100 (Byzantium) with the ice-age of EIP-1234 style delays, from the EIP text.
func refDifficulty(parent *gethtypes.Header, childTime uint64, bombDelay uint64) *big.Int {
	gap := new(big.Int).SetUint64(childTime - parent.Time)
	adj := new(big.Int).Div(gap, big.NewInt(9))
	y := int64(1)
	if parent.UncleHash != gethtypes.EmptyUncleHash {
		y = 2
	}
	adj.Sub(big.NewInt(y), adj)
	if adj.Cmp(big.NewInt(-99)) < 0 {
		adj.SetInt64(-99)
	}
	d := new(big.Int).Div(parent.Difficulty, big.NewInt(2048))
	d.Mul(d, adj)
	d.Add(d, parent.Difficulty)
	if d.Cmp(big.NewInt(131072)) < 0 {
		d.SetInt64(131072)
	}
	// fake block number = max(0, child number - delay); period = fake // 100000; bomb = 2^(period-2) if period >= 2
	childNumber := parent.Number.Uint64() + 1
	if childNumber > bombDelay {
		period := (childNumber - bombDelay) / 100000
		if period >= 2 {
			d.Add(d, new(big.Int).Lsh(big.NewInt(1), uint(period-2)))
		}
	}
	return d
}

const bombDelay = 9_700_000 // London (EIP-3554), the delay the client is written for (its recorded main-net headers are London blocks)

func runDifficulty(t *rapid.T, r *rec.Recorder) {
	c := baseChain()
	ctx, _ := c.Ctx().CacheContext()
	w := &world{ctx: ctx}
	chainID := rapid.SampledFrom([]uint64{1, 3, 5}).Draw(t, "chainId")
	numbers := []uint64{46, 9_699_998, 9_699_999, 9_700_000, 9_899_998, 9_899_999, 9_900_000, 10_700_000, 13_286_181}
	p := ethsim.Genesis(ethsim.GenesisOpts{Number: rapid.SampledFrom(numbers).Draw(t, "parentNumber"), Time: startNow - 30_000, GasLimit: 30_000_000,
		GasUsed: uint64(rapid.IntRange(0, 30_000_000).Draw(t, "parentGasUsed")), BaseFee: 1_000_000_000, Root: common.BytesToHash([]byte{0xd1}), Extra: []byte("p")})
	switch rapid.IntRange(0, 3).Draw(t, "parentDifficultyKind") {
	case 0:
		p.Difficulty = big.NewInt(131072 + int64(rapid.IntRange(0, 5000).Draw(t, "aboveMinimum")))
	case 1:
		p.Difficulty = new(big.Int).SetUint64(rapid.Uint64Range(1<<20, 1<<62).Draw(t, "parentDifficulty"))
	case 2:
		p.Difficulty = new(big.Int).Lsh(big.NewInt(int64(rapid.IntRange(1, 1000).Draw(t, "mantissa"))), uint(rapid.IntRange(50, 60).Draw(t, "shift")))
	default:
		p.Difficulty, _ = new(big.Int).SetString("9016134118513469", 10) // main-net scale
	}
	uncles := rapid.IntRange(0, 3).Draw(t, "parentHasUncles") == 0
	if uncles {
		p.UncleHash = common.BytesToHash([]byte("some uncles"))
	}
	var gap uint64
	switch rapid.IntRange(0, 4).Draw(t, "gapKind") {
	case 0:
		gap = uint64(rapid.IntRange(1, 40).Draw(t, "gap"))
	case 1:
		gap = uint64(9*rapid.IntRange(1, 120).Draw(t, "nines") + rapid.IntRange(-1, 1).Draw(t, "off"))
	case 2:
		gap = uint64(rapid.IntRange(880, 930).Draw(t, "gap"))
	case 3:
		gap = uint64(rapid.IntRange(900, 20000).Draw(t, "gap"))
	default:
		gap = uint64(rapid.IntRange(41, 899).Draw(t, "gap"))
	}
	w.setNow(p.Time + gap + uint64(rapid.IntRange(0, 50).Draw(t, "relayLag")))
	ctx = w.ctx
	kit.Must(c.App.XIBCKeeper.ClientKeeper.CreateClient(ctx, clientName, ethsim.ClientState(p, chainID, trustingPeriod), ethsim.ConsensusState(p)), "create client")
	child := ethsim.Child(p, ethsim.ChildOpts{DT: gap, GasUsedPermil: uint64(rapid.IntRange(0, 1000).Draw(t, "gasUsed")), GasLimitDelta: int64(rapid.IntRange(-20000, 20000).Draw(t, "gasLimitDelta")),
		Root: common.BytesToHash([]byte{0xd2}), Extra: []byte(strings.Repeat("x", 33))})
	if re := ethsim.CheckRules(p, child, w.now); re != nil {
		kit.Failf("generated child breaks rule %s", re.Rule)
	}
	ref := refDifficulty(p, child.Time, bombDelay)
	step := new(big.Int).Div(p.Difficulty, big.NewInt(2048))
	variant := rapid.SampledFrom([]string{"reference", "reference", "reference", "plus-1", "minus-1", "plus-parent/2048", "minus-parent/2048", "parent's", "gap-9s-shorter", "gap-9s-longer"}).Draw(t, "difficulty")
	d := new(big.Int).Set(ref)
	switch variant {
	case "plus-1":
		d.Add(d, big.NewInt(1))
	case "minus-1":
		d.Sub(d, big.NewInt(1))
	case "plus-parent/2048":
		d.Add(d, step)
	case "minus-parent/2048":
		d.Sub(d, step)
	case "parent's":
		d.Set(p.Difficulty)
	case "gap-9s-shorter":
		if gap > 9 {
			d = refDifficulty(p, child.Time-9, bombDelay)
		}
	case "gap-9s-longer":
		d = refDifficulty(p, child.Time+9, bombDelay)
	}
	if d.Sign() <= 0 {
		d.SetInt64(1)
	}
	child.Difficulty = d
	right := d.Cmp(ref) == 0
	r.Step()
	err := update(c, ctx, child)
	what := fmt.Sprintf("chain id %d, parent #%d difficulty %s uncles=%v, child %d s later with difficulty %s (%s; reference %s)", chainID, p.Number, p.Difficulty, uncles, gap, d, variant, ref)
	if err == nil {
		t.Fatalf("a header without proof of work and with oversized extra data was ACCEPTED: %s", what)
	}
	forDifficulty := strings.Contains(err.Error(), "difficulty")
	forExtra := strings.Contains(err.Error(), "extra-data too long")
	switch {
	case right && forDifficulty:
		t.Fatalf("the child carries the difficulty the rule demands but is refused for its difficulty: %s\n%v", what, firstLine(err.Error()))
	case !right && !forDifficulty:
		t.Fatalf("the child carries a difficulty the rule does not allow but is not refused for it (a mined header with it would be accepted): %s\nrefused with: %v", what, firstLine(err.Error()))
	case right && !forExtra:
		kit.Failf("expected the extra-data refusal after a passed difficulty rule, got: %v (%s)", err, what)
	}
	gapClass := "<900"
	if gap >= 900 {
		gapClass = ">=900"
	}
	bomb := p.Number.Uint64()+1 > bombDelay && (p.Number.Uint64()+1-bombDelay)/100000 >= 2
	r.Label("difficulty_rule:" + map[bool]string{true: "passed_with_reference_value", false: "refused_other_value"}[right])
	r.Case(fmt.Sprintf("gap%s|gapmod9=%d|uncles=%v|bomb=%v|%s|right=%v", gapClass, gap%9, uncles, bomb, variant, right), gap >= 900 || uncles || bomb, func() interface{} { return what })
}

func TestC10_DifficultyRule(t *testing.T) {
	r := rec.For("TestC10_DifficultyRule", ruleDifficulty)
	// the reference is validated on the recorded main-net headers first (independent material: real blocks)
	hs := mainnet()
	for i := 1; i < len(hs); i++ {
		if got := refDifficulty(hs[i-1], hs[i].Time, bombDelay); got.Cmp(hs[i].Difficulty) != 0 {
			t.Fatalf("HARNESS: reference difficulty %s differs from the recorded main-net header %d (%s)", got, hs[i].Number, hs[i].Difficulty)
		}
	}
	rapid.Check(t, func(t *rapid.T) { runDifficulty(t, r) })
}

const ruleAnyDifficulty = "Rinkeby-mode client (difficulty and proof of work are not rules there): a valid child of the creation header whose difficulty is drawn from 1, 2, 2^63, 2^64-1, 2^64, " +
	"k*2^64, 2^128, 2^255 and random 256-bit values must be accepted and become the head; difficulty 0 (meaningless) must be refused; non-trivial = difficulty >= 2^64; distinct by difficulty class"

func TestC10_RinkebyAnyDifficulty(t *testing.T) {
	r := rec.For("TestC10_RinkebyAnyDifficulty", ruleAnyDifficulty)
	rapid.Check(t, func(t *rapid.T) {
		c := baseChain()
		ctx, _ := c.Ctx().CacheContext()
		w := &world{ctx: ctx}
		w.setNow(startNow)
		ctx = w.ctx
		p := ethsim.Genesis(ethsim.GenesisOpts{Number: uint64(rapid.SampledFrom([]int{46, 9_699_999, 13_286_181}).Draw(t, "parentNumber")), Time: startNow - 1000, GasLimit: 30_000_000, GasUsed: 15_000_000,
			BaseFee: 1_000_000_000, Root: common.BytesToHash([]byte{0xe1})})
		kit.Must(c.App.XIBCKeeper.ClientKeeper.CreateClient(ctx, clientName, ethsim.ClientState(p, 4, trustingPeriod), ethsim.ConsensusState(p)), "create client")
		child := ethsim.Child(p, ethsim.ChildOpts{DT: uint64(rapid.IntRange(1, 900).Draw(t, "gap")), GasUsedPermil: 500, Root: common.BytesToHash([]byte{0xe2}), Extra: []byte("x")})
		class := rapid.SampledFrom([]string{"1", "2", "2^63", "2^64-1", "2^64", "k*2^64", "2^128", "2^255", "random", "0"}).Draw(t, "difficulty")
		one := big.NewInt(1)
		switch class {
		case "1", "2":
			child.Difficulty = big.NewInt(int64(class[0] - '0'))
		case "2^63":
			child.Difficulty = new(big.Int).Lsh(one, 63)
		case "2^64-1":
			child.Difficulty = new(big.Int).Sub(new(big.Int).Lsh(one, 64), one)
		case "2^64":
			child.Difficulty = new(big.Int).Lsh(one, 64)
		case "k*2^64":
			child.Difficulty = new(big.Int).Lsh(big.NewInt(int64(rapid.IntRange(2, 1_000_000).Draw(t, "k"))), 64)
		case "2^128":
			child.Difficulty = new(big.Int).Lsh(one, 128)
		case "2^255":
			child.Difficulty = new(big.Int).Lsh(one, 255)
		case "random":
			child.Difficulty = new(big.Int).SetBytes(rapid.SliceOfN(rapid.Byte(), 1, 32).Draw(t, "bytes"))
			if child.Difficulty.Sign() == 0 {
				child.Difficulty = big.NewInt(7)
			}
		default:
			child.Difficulty = big.NewInt(0)
		}
		r.Step()
		err := update(c, ctx, child)
		if class == "0" {
			if err == nil {
				t.Fatalf("a header with difficulty 0 was accepted")
			}
			r.Case(class, false, nil)
			return
		}
		if err != nil {
			t.Fatalf("a valid child of the creation header with difficulty %s (%s; not a rule on Rinkeby) was REJECTED: %v", child.Difficulty, class, firstLine(err.Error()))
		}
		tree := ethsim.NewTree(p)
		id, _ := tree.Add(0, child)
		if msg := checkHeadAndAncestry(c, ctx, tree, id); msg != "" {
			t.Fatalf("child with difficulty %s accepted but: %s", child.Difficulty, msg)
		}
		r.Case(class, child.Difficulty.BitLen() > 64, func() interface{} { return child.Difficulty.String() })
	})
}
