// C15 — no panic outside transaction recovery (no chain halt).
//
// Three generated searches (proposals, rvesting params x BeginBlocker, genesis) and one native fuzz
// target share the helpers of this file: the base chain, the panic guard (the ONLY oracle: a panic of
// code that the chain runs without a recover is the violation; ordinary errors are fine), the
// boundary-value tag collector and the known-finding predicates.
package c15

import (
	"fmt"
	"math/big"
	"runtime"
	"sort"
	"strings"
	"sync"
	"testing"

	sdk "github.com/cosmos/cosmos-sdk/types"
	banktypes "github.com/cosmos/cosmos-sdk/x/bank/types"
	govtypes "github.com/cosmos/cosmos-sdk/x/gov/types"
	"github.com/cosmos/cosmos-sdk/x/params"
	"github.com/ethereum/go-ethereum/common"
	"pgregory.net/rapid"

	"github.com/teleport-network/teleport/x/aggregate"
	aggregatetypes "github.com/teleport-network/teleport/x/aggregate/types"
	xibcclient "github.com/teleport-network/teleport/x/xibc/core/client"

	"verif/harness/kf"
	"verif/harness/kit"
	"verif/harness/rec"
)

func TestMain(m *testing.M) { rec.Main(m) }

// ---------------------------------------------------------------------------------------------
// base chain

type world struct {
	c          *kit.Chain
	xibcH      govtypes.Handler
	aggH       govtypes.Handler
	paramH     govtypes.Handler
	tokReg     common.Address // deployed ERC-20, registered as token pair (external owner)
	tokFree    common.Address // deployed ERC-20, not registered
	tokTwin    common.Address // deployed ERC-20 whose name/symbol/decimals match the bank metadata of tokReg's pair (UpdateTokenPairERC20 can succeed)
	tokCoin    common.Address // module-deployed ERC-20 of the registered coin "acoin"
	supplyCoin []string       // bank denominations with supply (RegisterCoin can succeed)
	// unregistered ERC-20 contracts whose name / symbol / decimals sit on boundary values (blank, only blanks, only the words the
	// name sanitiser drops, very long, non-ASCII; 0 and 255 decimals)
	tokOdd     []common.Address
	tokOddName []string
	storedMeta []banktypes.Metadata // bank metadata of the state the next content is generated for (refreshed per step)
}

var (
	worldOnce sync.Once
	theWorld  *world
)

// worldCoins are the extra balances of every genesis account of the base chain (and of fresh chains built like it).
func worldCoins() sdk.Coins {
	return sdk.NewCoins(sdk.NewInt64Coin("acoin", 1000000), sdk.NewInt64Coin("bcoin", 1000000),
		sdk.NewInt64Coin("ibc/27394FB092D2ECCD56123C74F36E4C1F926001CEADA9CA97EA622B25F41E5EB2", 1000000))
}

// baseWorld builds the shared base chain once per process. Every generated case works on
// cache branches of its deliver state and never writes back.
func baseWorld() *world {
	worldOnce.Do(func() {
		c := kit.NewChain("teleport_9000-1", kit.ChainOpts{Seed: []byte("c15"), ExtraCoins: worldCoins()})
		w := &world{c: c}
		w.xibcH = xibcclient.NewClientProposalHandler(c.App.XIBCKeeper.ClientKeeper)
		w.aggH = aggregate.NewAggregateProposalHandler(c.App.AggregateKeeper)
		w.paramH = params.NewParamChangeProposalHandler(c.App.ParamsKeeper)
		w.tokReg = c.DeployERC20("Reg Token", "REG", 18)
		w.tokFree = c.DeployERC20("Free Token", "FREE", 6)
		w.tokTwin = c.DeployERC20("reg", "REG", 18)
		for _, o := range []struct {
			label, name, symbol string
			dec                 uint8
		}{
			{"blankName", "", "BLK", 18}, {"spacesName", "  \t ", "SPC", 6}, {"droppedWordsName", " token coin", "DRP", 18}, {"coinOnlyName", "Coin", "CO", 8},
			{"hugeName", strings.Repeat("N", 5000), "HUGE", 18}, {"unicodeName", "世界 token", "UNI", 18}, {"blankSymbol", "Blank Symbol", "", 18},
			{"zeroDecimals", "Zero Dec", "ZD", 0}, {"maxDecimals", "Max Dec", "MD", 255}, {"blankNameZeroDecimals", "", "", 0}, {"slashName", "a/b", "A/B", 18},
		} {
			w.tokOdd = append(w.tokOdd, c.DeployERC20(o.name, o.symbol, o.dec))
			w.tokOddName = append(w.tokOddName, o.label)
		}
		_, err := c.App.AggregateKeeper.RegisterERC20(c.Ctx(), w.tokReg)
		kit.Must(err, "register erc20 pair")
		pair, err := c.App.AggregateKeeper.RegisterCoin(c.Ctx(), coinMetadata("acoin", "Coin A", "CA", 18))
		kit.Must(err, "register coin pair")
		w.tokCoin = common.HexToAddress(pair.ERC20Address)
		w.supplyCoin = []string{"acoin", "bcoin", "ibc/27394FB092D2ECCD56123C74F36E4C1F926001CEADA9CA97EA622B25F41E5EB2"}
		kit.Must(c.App.AggregateKeeper.EnableTimeBasedSupplyLimit(c.Ctx(), w.tokReg, big.NewInt(3600), big.NewInt(1000), big.NewInt(100), big.NewInt(1)), "enable supply limit")
		c.Commit(5e9)
		theWorld = w
	})
	return theWorld
}

// ---------------------------------------------------------------------------------------------
// the oracle: a guard around code the chain runs without recover

type panicInfo struct {
	Val    string   `json:"panic"`
	Site   string   `json:"site"`   // first frame inside teleport / cosmos-sdk / ethermint below the panic
	Frames []string `json:"frames"` // top frames
}

func (p *panicInfo) String() string {
	return fmt.Sprintf("panic=%q site=%s frames=%s", clip(p.Val, 200), p.Site, strings.Join(p.Frames, " <- "))
}

// guard runs f and reports a panic (nil = no panic). Harness errors are re-raised untouched.
func guard(f func()) (p *panicInfo) {
	defer func() {
		e := recover()
		if e == nil {
			return
		}
		if he, ok := e.(kit.HarnessError); ok {
			panic(he)
		}
		p = &panicInfo{Val: fmt.Sprint(e)}
		pcs := make([]uintptr, 64)
		n := runtime.Callers(2, pcs)
		frames := runtime.CallersFrames(pcs[:n])
		for {
			fr, more := frames.Next()
			fn := fr.Function
			if strings.Contains(fn, "verif/harness/props/c15.") && !strings.Contains(fn, "c15.guard") {
				break // back in the harness: everything above was the code under test
			}
			if fn != "" && !strings.HasPrefix(fn, "runtime.") && !strings.Contains(fn, "c15.guard") {
				short := fn
				if i := strings.LastIndex(short, "/"); i >= 0 {
					short = short[i+1:]
				}
				if len(p.Frames) < 6 {
					p.Frames = append(p.Frames, fmt.Sprintf("%s:%d", short, fr.Line))
				}
				if p.Site == "" && strings.Contains(fn, "teleport-network/teleport/") {
					p.Site = short
				}
			}
			if !more {
				break
			}
		}
		if p.Site == "" && len(p.Frames) > 0 {
			p.Site = p.Frames[0]
		}
	}()
	f()
	return nil
}

// execLikeGov executes a proposal content exactly like gov.EndBlocker: cache context, handler,
// write only on nil error. No recover of its own.
func execLikeGov(ctx sdk.Context, h govtypes.Handler, content govtypes.Content) error {
	cacheCtx, write := ctx.CacheContext()
	err := h(cacheCtx, content)
	if err == nil {
		write()
	}
	return err
}

// ---------------------------------------------------------------------------------------------
// boundary-tag collector

// tagger records which fields of a generated value sit on a boundary value.
type tagger struct {
	t    *rapid.T
	tags []string
	// excluded counts the draws that were redirected because of a listed known finding
	excluded map[string]int
	// rejPct is the share of boundary draws that go to alternatives the validation is known to reject (negative controls)
	rejPct int
}

func newTagger(t *rapid.T) *tagger { return &tagger{t: t, excluded: map[string]int{}, rejPct: 22} }

// pick2 draws the index of a boundary alternative from a list ordered "accepted by validation first": [0,nAcc) are
// accepted-but-degenerate values, [nAcc,nAcc+nRej) are values the validation rejects.
func (g *tagger) pick2(name string, nAcc, nRej int) int {
	if nRej > 0 && (nAcc == 0 || chance(g.t, name+".rejected?", g.rejPct)) {
		return nAcc + rapid.IntRange(0, nRej-1).Draw(g.t, name+".rej")
	}
	return rapid.IntRange(0, nAcc-1).Draw(g.t, name)
}

func (g *tagger) tag(s string) { g.tags = append(g.tags, s) }

// note records an ordinary (non-boundary) choice that still belongs to the abstract shape of the case; notes start with "~"
// and do not count towards non-triviality.
func (g *tagger) note(s string) { g.tags = append(g.tags, "~"+s) }

// boundaryCount is the number of real boundary tags in a tag list.
func boundaryCount(tags []string) int {
	n := 0
	for _, t := range tags {
		if !strings.HasPrefix(t, "~") {
			n++
		}
	}
	return n
}

func (g *tagger) sortedTags() []string {
	s := append([]string{}, g.tags...)
	sort.Strings(s)
	return s
}

// edge says whether the field `name` takes a boundary value this time (probability pct/100).
func (g *tagger) edge(name string, pct int) bool {
	return chance(g.t, name+"?", pct)
}

// chance is true with probability pct/100; rapid shrinks it towards false (the ordinary value).
// rapid's integer draws are heavily biased towards small values (measured: IntRange(0,99) < 10 in 42 % of the draws), so the
// probability is built from six fair coin flips.
func chance(t *rapid.T, name string, pct int) bool {
	bits := rapid.SliceOfN(rapid.Bool(), 6, 6).Draw(t, name)
	v := 0
	for i, b := range bits {
		if b {
			v |= 1 << i
		}
	}
	return v >= 64-(pct*64+50)/100
}

// pick draws an index in [0,n) for an edge alternative of field `name`.
func (g *tagger) pick(name string, n int) int {
	return rapid.IntRange(0, n-1).Draw(g.t, name)
}

func (g *tagger) bytesN(name string, n int) []byte {
	if n == 0 {
		return []byte{}
	}
	if n > 64 {
		// long fields: a short drawn pattern repeated (keeps rapid's bit stream small)
		pat := rapid.SliceOfN(rapid.Byte(), 1, 4).Draw(g.t, name)
		out := make([]byte, n)
		for i := range out {
			out[i] = pat[i%len(pat)]
		}
		return out
	}
	return rapid.SliceOfN(rapid.Byte(), n, n).Draw(g.t, name)
}

// edgeBytes: a byte field whose ordinary length is n; boundary alternatives are nil, empty, n-1,
// n+1, 2n+1 and oversized.
func (g *tagger) edgeBytes(name string, n int, pct int) []byte {
	if !g.edge(name, pct) {
		return g.bytesN(name, n)
	}
	switch g.pick(name+".edge", 7) {
	case 0:
		g.tag(name + "=nil")
		return nil
	case 1:
		g.tag(name + "=empty")
		return []byte{}
	case 2:
		if n > 0 {
			g.tag(name + "=len-1")
			return g.bytesN(name, n-1)
		}
		g.tag(name + "=len+1")
		return g.bytesN(name, n+1)
	case 3:
		g.tag(name + "=len+1")
		return g.bytesN(name, n+1)
	case 4:
		g.tag(name + "=zeros")
		return make([]byte, n)
	case 5:
		g.tag(name + "=ff")
		b := make([]byte, n)
		for i := range b {
			b[i] = 0xff
		}
		return b
	default:
		g.tag(name + "=oversized")
		return g.bytesN(name, []int{257, 1024, 4099}[g.pick(name+".size", 3)])
	}
}

// edgeU64: boundary alternatives of an unsigned field.
func (g *tagger) edgeU64(name string, normal uint64, pct int) uint64 {
	if !g.edge(name, pct) {
		return normal
	}
	vals := []uint64{0, 1, 2, 47, 255, 256, 1<<31 - 1, 1 << 32, 1<<63 - 1, 1 << 63, ^uint64(0) - 1, ^uint64(0)}
	v := vals[g.pick(name+".edge", len(vals))]
	g.tag(fmt.Sprintf("%s=%s", name, u64class(v)))
	return v
}

func u64class(v uint64) string {
	switch {
	case v == 0:
		return "0"
	case v == 1:
		return "1"
	case v == ^uint64(0):
		return "max"
	case v >= 1<<63:
		return ">=2^63"
	case v >= 1<<32:
		return ">=2^32"
	case v > 255:
		return ">255"
	default:
		return "small"
	}
}

func clip(s string, n int) string {
	if len(s) > n {
		return s[:n] + fmt.Sprintf("…(%d)", len(s))
	}
	return s
}

func coinMetadata(base, name, symbol string, exp uint32) (m bankMetadata) {
	return newMetadata(base, name, symbol, exp)
}

var _ = big.NewInt
var _ = aggregatetypes.ModuleName

// listed caches kf lookups.
func listed(key string) bool { return kf.Listed("C15", key) }
