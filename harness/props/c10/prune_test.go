// C10 under expiry: with a realistic trusting period the Ethereum client prunes its oldest expired consensus state at every
// update. Pruning may only ever remove that oldest expired record; everything the client accepted and that is still within
// the trusting period must keep working: the header just accepted is the head, its state root is the consensus state of its
// height, and a valid child of ANY unexpired stored header (the head, its parent, older ones) is still accepted.
package c10

import (
	"bytes"
	"fmt"
	"testing"

	"github.com/ethereum/go-ethereum/common"
	gethtypes "github.com/ethereum/go-ethereum/core/types"
	"pgregory.net/rapid"

	sdk "github.com/cosmos/cosmos-sdk/types"

	ethtypes "github.com/teleport-network/teleport/x/xibc/clients/light-clients/eth/types"
	clienttypes "github.com/teleport-network/teleport/x/xibc/core/client/types"

	"verif/harness/kit"
	"verif/harness/rec"
	"verif/harness/sim/ethsim"
)

const rulePrune = "linear Rinkeby-mode header chains relayed while the block time advances 5-400 s per step, on a client whose trusting period (120 / 400 / 1500 s) makes the " +
	"oldest consensus states expire and be pruned during the history; after every accepted header: head = that header, consensus state of its height = its state root, and on " +
	"discarded branches a fresh valid child of every stored header that is still within the trusting period (head, parent, older) is accepted; " +
	"non-trivial = history in which at least one stored consensus state expired before a later update; distinct by (trusting period, headers, expirations bucket)"

const pruneClient = "ethsim-prune"

func runPrune(t *rapid.T, r *rec.Recorder) {
	c := baseChain()
	ctx, _ := c.Ctx().CacheContext()
	now := uint64(startNow)
	setNow := func(n uint64) { now = n; ctx = ctx.WithBlockTime(timeOf(n)) }
	setNow(now)
	tp := rapid.SampledFrom([]uint64{120, 400, 1500}).Draw(t, "trustingPeriod")
	g := ethsim.Genesis(ethsim.GenesisOpts{Number: rapid.SampledFrom([]uint64{46, 4095, 9_699_995}).Draw(t, "creationHeight"), Time: now - uint64(rapid.IntRange(1, int(tp)/2).Draw(t, "age")),
		GasLimit: 30_000_000, GasUsed: 15_000_000, BaseFee: 1_000_000_000, Root: common.BytesToHash([]byte{0xcc, 0}), Extra: []byte("creation")})
	kit.Must(c.App.XIBCKeeper.ClientKeeper.CreateClient(ctx, pruneClient, ethsim.ClientState(g, 4, tp), ethsim.ConsensusState(g)), "create ETH client")
	stored := []*gethtypes.Header{g} // accepted headers, oldest first (a linear chain)
	expirations := 0
	var hist []string
	n := rapid.IntRange(3, 14).Draw(t, "headers")
	for i := 0; i < n; i++ {
		r.Step()
		head := stored[len(stored)-1]
		setNow(now + uint64(rapid.SampledFrom([]int{5, 20, 60, 150, 400}).Draw(t, "blockTimeAdvance")))
		if head.Time+tp < now {
			hist = append(hist, fmt.Sprintf("now %d: head %d expired, history ends", now, head.Number.Uint64()))
			break // the client is expired: updates are refused for good (not this test's subject)
		}
		// the next header of the counterparty: stamped shortly before "now" (relayers follow the chain closely)
		dt := uint64(1)
		if now > head.Time+1 {
			dt = now - head.Time - uint64(rapid.IntRange(0, int(minU(10, now-head.Time-1))).Draw(t, "lag"))
		}
		child := ethsim.Child(head, ethsim.ChildOpts{DT: dt, GasUsedPermil: uint64(rapid.IntRange(0, 1000).Draw(t, "gasUsed")),
			Root: common.BytesToHash([]byte{0xcc, byte(i + 1)}), Extra: []byte{byte(i)}, Difficulty: 2})
		if re := ethsim.CheckRules(head, child, now); re != nil {
			kit.Failf("generated child breaks rule %s", re.Rule)
		}
		for _, x := range stored {
			if x.Time+tp < now {
				expirations++
			}
		}
		if err := update2(c, ctx, pruneClient, child); err != nil {
			t.Fatalf("valid child %d of the head %d REJECTED at block time %d (trusting period %d): %v\nhistory=%v", child.Number.Uint64(), head.Number.Uint64(), now, tp, err, hist)
		}
		stored = append(stored, child)
		hist = append(hist, fmt.Sprintf("now %d: accepted %d (time %d)", now, child.Number.Uint64(), child.Time))
		// head and its consensus state
		csI, _ := c.App.XIBCKeeper.ClientKeeper.GetClientState(ctx, pruneClient)
		cs := csI.(*ethtypes.ClientState)
		hh := ethtypes.Header(cs.Header)
		if (&hh).Hash() != child.Hash() {
			t.Fatalf("accepted header %d is not the client's head (head is %d)\nhistory=%v", child.Number.Uint64(), cs.Header.Height.RevisionHeight, hist)
		}
		cons, found := c.App.XIBCKeeper.ClientKeeper.GetClientConsensusState(ctx, pruneClient, clienttypes.NewHeight(0, child.Number.Uint64()))
		if !found || !bytes.Equal(cons.(*ethtypes.ConsensusState).Root, child.Root.Bytes()) {
			t.Fatalf("no consensus state with the head's state root at the head's height %d (found=%v)\nhistory=%v", child.Number.Uint64(), found, hist)
		}
		// every stored header still within the trusting period remains a usable parent
		for k := len(stored) - 1; k >= 0 && k >= len(stored)-4; k-- {
			x := stored[k]
			if x.Time+tp < now {
				continue
			}
			room := now + ethsim.AllowedFuture - x.Time
			if room < 1 {
				continue
			}
			probe := ethsim.Child(x, ethsim.ChildOpts{DT: 1 + uint64(rapid.IntRange(0, int(minU(room-1, 30))).Draw(t, "probeDT")), GasUsedPermil: 500,
				Root: common.BytesToHash([]byte{0xdd, byte(i), byte(k)}), Extra: []byte("probe"), Difficulty: 1})
			if re := ethsim.CheckRules(x, probe, now); re != nil {
				continue
			}
			bctx, _ := ctx.CacheContext()
			if err := update2(c, bctx, pruneClient, probe); err != nil {
				t.Fatalf("a valid child of the stored, unexpired header %d (head is %d, block time %d, trusting period %d) is REJECTED: %v\nhistory=%v",
					x.Number.Uint64(), child.Number.Uint64(), now, tp, err, hist)
			}
			r.Label(fmt.Sprintf("probe_child_of_head_minus_%d_accepted", len(stored)-1-k))
		}
	}
	b := "0"
	switch {
	case expirations > 5:
		b = ">5"
	case expirations > 0:
		b = "1-5"
	}
	r.Case(fmt.Sprintf("tp=%d|headers=%d|expired=%s", tp, len(stored)-1, b), expirations > 0, func() interface{} { return hist })
}

func minU(a, b uint64) uint64 {
	if a < b {
		return a
	}
	return b
}

// update2 delivers a header to the named client the way DeliverTx does (nested cache context, written only on success).
func update2(c *kit.Chain, ctx sdk.Context, name string, h *gethtypes.Header) (err error) {
	cctx, write := ctx.CacheContext()
	defer func() {
		if p := recover(); p != nil {
			err = fmt.Errorf("panic (recovered as a failed tx): %v", p)
		}
	}()
	err = c.App.XIBCKeeper.ClientKeeper.UpdateClient(cctx, name, ethsim.ToProto(h))
	if err == nil {
		write()
	}
	return err
}

func TestC10_Pruning(t *testing.T) {
	r := rec.For("TestC10_Pruning", rulePrune)
	rapid.Check(t, func(t *rapid.T) { runPrune(t, r) })
}
