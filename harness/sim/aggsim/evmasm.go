// Package aggsim is the shared simulator of the aggregate (coin <-> ERC-20) module checks C11 and C12:
// a world on one kit chain (coins, token contracts, accounts), governance actions through the real
// proposal handler, conversions through DeliverTx, raw observers (bank, ERC-20, registry prefixes)
// and the two rapid state machines.
package aggsim

import (
	"encoding/binary"
	"math/big"

	"github.com/ethereum/go-ethereum/common"
	"github.com/ethereum/go-ethereum/core/vm"
	"github.com/ethereum/go-ethereum/crypto"
)

// asm is a minimal EVM assembler (labels with 2-byte absolute fix-ups). It exists because the
// sandbox has no Solidity compiler; the contracts assembled with it are test doubles only.
type asm struct {
	code   []byte
	labels map[string]int
	fixups map[int]string
}

func newAsm() *asm { return &asm{labels: map[string]int{}, fixups: map[int]string{}} }

func (a *asm) op(ops ...vm.OpCode) *asm {
	for _, o := range ops {
		a.code = append(a.code, byte(o))
	}
	return a
}

// push pushes an unsigned integer with the shortest PUSHn.
func (a *asm) push(v uint64) *asm { return a.pushBig(new(big.Int).SetUint64(v)) }

func (a *asm) pushBig(v *big.Int) *asm {
	b := v.Bytes()
	if len(b) == 0 {
		b = []byte{0}
	}
	if len(b) > 32 {
		panic("push too wide")
	}
	a.code = append(a.code, byte(vm.PUSH1)+byte(len(b)-1))
	a.code = append(a.code, b...)
	return a
}

// push32 pushes exactly 32 bytes (left-aligned data, e.g. string contents).
func (a *asm) push32(b []byte) *asm {
	if len(b) > 32 {
		panic("push32 too long")
	}
	w := make([]byte, 32)
	copy(w, b)
	a.code = append(a.code, byte(vm.PUSH32))
	a.code = append(a.code, w...)
	return a
}

func (a *asm) pushLabel(name string) *asm {
	a.code = append(a.code, byte(vm.PUSH2))
	a.fixups[len(a.code)] = name
	a.code = append(a.code, 0, 0)
	return a
}

func (a *asm) label(name string) *asm {
	if _, dup := a.labels[name]; dup {
		panic("duplicate label " + name)
	}
	a.labels[name] = len(a.code)
	return a.op(vm.JUMPDEST)
}

func (a *asm) jump(name string) *asm  { return a.pushLabel(name).op(vm.JUMP) }
func (a *asm) jumpi(name string) *asm { return a.pushLabel(name).op(vm.JUMPI) }

// mstore stores the stack top at memory offset off; mload loads from off.
func (a *asm) mstore(off uint64) *asm { return a.push(off).op(vm.MSTORE) }
func (a *asm) mload(off uint64) *asm  { return a.push(off).op(vm.MLOAD) }

// retWord returns the stack top as one 32-byte word.
func (a *asm) retWord() *asm { return a.mstore(0).push(0x20).push(0).op(vm.RETURN) }

func (a *asm) revert() *asm { return a.push(0).op(vm.DUP1, vm.REVERT) }

func (a *asm) bytes() []byte {
	out := append([]byte{}, a.code...)
	for pos, name := range a.fixups {
		target, ok := a.labels[name]
		if !ok {
			panic("undefined label " + name)
		}
		binary.BigEndian.PutUint16(out[pos:], uint16(target))
	}
	return out
}

// initCode wraps runtime code into deployment code that returns it unchanged.
func initCode(runtime []byte) []byte {
	// PUSH2 len PUSH2 off PUSH1 0 CODECOPY PUSH2 len PUSH1 0 RETURN  (off = 15 bytes of prefix)
	const prefix = 3 + 3 + 2 + 1 + 3 + 2 + 1
	a := newAsm()
	l := uint64(len(runtime))
	a.code = append(a.code, byte(vm.PUSH2), byte(l>>8), byte(l))
	a.code = append(a.code, byte(vm.PUSH2), 0, prefix)
	a.code = append(a.code, byte(vm.PUSH1), 0, byte(vm.CODECOPY))
	a.code = append(a.code, byte(vm.PUSH2), byte(l>>8), byte(l))
	a.code = append(a.code, byte(vm.PUSH1), 0, byte(vm.RETURN))
	if len(a.code) != prefix {
		panic("initCode prefix length")
	}
	return append(a.code, runtime...)
}

func selector(sig string) uint64 {
	h := crypto.Keccak256([]byte(sig))
	return uint64(binary.BigEndian.Uint32(h[:4]))
}

// ---------------------------------------------------------------------------------------------
// FlexToken: a hand-assembled ERC-20 test double whose behaviour is switched at run time.
//
// storage: slot(address) = balance; FlexSupplySlot = total supply; FlexModeSlot = mode.
// functions: name symbol decimals totalSupply balanceOf transfer mint(address,uint256) burn(uint256)
//            setMode(uint256) kill()
// anybody may mint / setMode / kill (it is a test double: the "owner misbehaves later").

// Flex modes.
const (
	FlexHonest       = 0 // plain ERC-20 transfer
	FlexFee          = 1 // fee-on-transfer: ceil(amount/10) goes to FlexSink, returns true
	FlexNoopTrue     = 2 // transfer moves nothing and returns true
	FlexMovesFalse   = 3 // transfer moves the amount and returns false
	FlexBalanceZero  = 5 // balanceOf answers 0 for everybody (misreporting view)
	FlexBalanceFails = 6 // balanceOf reverts
)

var FlexModes = []int{FlexHonest, FlexFee, FlexNoopTrue, FlexMovesFalse, FlexBalanceZero, FlexBalanceFails}

var (
	FlexSupplySlot = new(big.Int).Add(new(big.Int).Lsh(big.NewInt(1), 200), big.NewInt(1))
	FlexModeSlot   = new(big.Int).Add(new(big.Int).Lsh(big.NewInt(1), 200), big.NewInt(2))
	// FlexSink receives the fee in FlexFee mode.
	FlexSink = new(big.Int).SetBytes(FlexSinkAddr.Bytes())
)

// FlexSinkAddr is FlexSink as an address.
var FlexSinkAddr = common.HexToAddress("0xfee51c0000000000000000000000000000000001")

var addrMask = new(big.Int).Sub(new(big.Int).Lsh(big.NewInt(1), 160), big.NewInt(1))

// FlexTokenInitCode assembles the deployment code of a FlexToken with the given constant
// name (also its symbol when symbol is empty) and decimals. len(name), len(symbol) <= 32.
// salt is appended as unreachable trailing bytes: ethermint deletes contract code by code hash on
// self-destruct, so two FlexTokens with identical byte code would lose their code together.
func FlexTokenInitCode(name, symbol string, decimals uint8, salt uint32) []byte {
	if symbol == "" {
		symbol = name
	}
	a := newAsm()
	// scratch memory: 0x80 to, 0xa0 amount, 0xc0 mode, 0xe0 fee, 0x100 sender balance
	const mTo, mAmt, mMode, mFee, mBal = 0x80, 0xa0, 0xc0, 0xe0, 0x100

	a.push(0).op(vm.CALLDATALOAD).push(0xe0).op(vm.SHR)
	for _, f := range []struct{ sig, lbl string }{
		{"name()", "name"}, {"symbol()", "symbol"}, {"decimals()", "decimals"}, {"totalSupply()", "totalSupply"},
		{"balanceOf(address)", "balanceOf"}, {"transfer(address,uint256)", "transfer"}, {"mint(address,uint256)", "mint"},
		{"burn(uint256)", "burn"}, {"setMode(uint256)", "setMode"}, {"kill()", "kill"},
	} {
		a.op(vm.DUP1).push(selector(f.sig)).op(vm.EQ).jumpi(f.lbl)
	}
	a.revert()

	str := func(lbl, s string) {
		a.label(lbl)
		a.push(0x20).mstore(0)
		a.push(uint64(len(s))).mstore(0x20)
		a.push32([]byte(s)).mstore(0x40)
		a.push(0x60).push(0).op(vm.RETURN)
	}
	str("name", name)
	str("symbol", symbol)

	a.label("decimals").push(uint64(decimals)).retWord()
	a.label("totalSupply").pushBig(FlexSupplySlot).op(vm.SLOAD).retWord()

	a.label("balanceOf")
	a.pushBig(FlexModeSlot).op(vm.SLOAD).op(vm.DUP1).push(FlexBalanceFails).op(vm.EQ).jumpi("fail")
	a.push(FlexBalanceZero).op(vm.EQ).jumpi("zero")
	a.push(4).op(vm.CALLDATALOAD).pushBig(addrMask).op(vm.AND).op(vm.SLOAD).retWord()
	a.label("zero").push(0).retWord()
	a.label("fail").revert()

	// mint(to, amt)
	a.label("mint")
	a.push(4).op(vm.CALLDATALOAD).pushBig(addrMask).op(vm.AND).mstore(mTo)
	a.push(36).op(vm.CALLDATALOAD).mstore(mAmt)
	a.mload(mTo).op(vm.SLOAD).mload(mAmt).op(vm.ADD).mload(mTo).op(vm.SSTORE)
	a.pushBig(FlexSupplySlot).op(vm.SLOAD).mload(mAmt).op(vm.ADD).pushBig(FlexSupplySlot).op(vm.SSTORE)
	a.push(1).retWord()

	// burn(amt)
	a.label("burn")
	a.push(4).op(vm.CALLDATALOAD).mstore(mAmt)
	a.op(vm.CALLER).op(vm.SLOAD).mstore(mBal)
	a.mload(mAmt).mload(mBal).op(vm.LT).jumpi("fail") // bal < amt
	a.mload(mAmt).mload(mBal).op(vm.SUB).op(vm.CALLER).op(vm.SSTORE)
	a.mload(mAmt).pushBig(FlexSupplySlot).op(vm.SLOAD).op(vm.SUB).pushBig(FlexSupplySlot).op(vm.SSTORE)
	a.op(vm.STOP)

	a.label("setMode").push(4).op(vm.CALLDATALOAD).pushBig(FlexModeSlot).op(vm.SSTORE).op(vm.STOP)
	a.label("kill").op(vm.CALLER, vm.SELFDESTRUCT)

	// transfer(to, amt)
	a.label("transfer")
	a.push(4).op(vm.CALLDATALOAD).pushBig(addrMask).op(vm.AND).mstore(mTo)
	a.push(36).op(vm.CALLDATALOAD).mstore(mAmt)
	a.pushBig(FlexModeSlot).op(vm.SLOAD).mstore(mMode)
	a.mload(mMode).push(FlexNoopTrue).op(vm.EQ).jumpi("retTrue")
	a.op(vm.CALLER).op(vm.SLOAD).mstore(mBal)
	a.mload(mAmt).mload(mBal).op(vm.LT).jumpi("fail")
	a.mload(mAmt).mload(mBal).op(vm.SUB).op(vm.CALLER).op(vm.SSTORE) // bal[caller] = bal - amt
	a.push(0).mstore(mFee)
	a.mload(mMode).push(FlexFee).op(vm.EQ).op(vm.ISZERO).jumpi("credit")
	a.push(10).push(9).mload(mAmt).op(vm.ADD).op(vm.DIV).mstore(mFee) // fee = (amt+9)/10
	a.label("credit")
	a.mload(mFee).mload(mAmt).op(vm.SUB).mload(mTo).op(vm.SLOAD).op(vm.ADD).mload(mTo).op(vm.SSTORE) // bal[to] += amt-fee
	a.mload(mFee).pushBig(FlexSink).op(vm.SLOAD).op(vm.ADD).pushBig(FlexSink).op(vm.SSTORE)          // bal[sink] += fee
	a.mload(mMode).push(FlexMovesFalse).op(vm.EQ).jumpi("retFalse")
	a.label("retTrue").push(1).retWord()
	a.label("retFalse").push(0).retWord()

	a.op(vm.INVALID)
	a.code = append(a.code, byte(salt>>24), byte(salt>>16), byte(salt>>8), byte(salt))
	return initCode(a.bytes())
}
