package aggsim

import (
	"math/big"
	"testing"
)

// TestFlexToken is a sanity test of the hand-assembled test double (not a property check).
func TestFlexToken(t *testing.T) {
	w := NewWorld()
	u := w.Users
	ft := w.DeployToken(KindFlex, u[0], "flx", "FLX", 6, 1000)
	ctx := w.C.Ctx()
	d, err := w.App.AggregateKeeper.QueryERC20(ctx, ft.Addr)
	if err != nil || d.Name != "flx" || d.Symbol != "FLX" || d.Decimals != 6 {
		t.Fatalf("QueryERC20: %+v %v", d, err)
	}
	eq := func(what string, got *big.Int, want int64) {
		t.Helper()
		if got.Cmp(big.NewInt(want)) != 0 {
			t.Fatalf("%s: got %s want %d", what, got, want)
		}
	}
	eq("view balance", w.view(ctx, ft.Addr, "balanceOf", u[1].Addr), 1000)
	eq("storage balance", w.TokenBalance(ctx, ft, u[1].Addr), 1000)
	eq("view supply", w.view(ctx, ft.Addr, "totalSupply"), 3000)
	if res := w.EthCall(u[1], ABI, ft.Addr, "transfer", u[2].Addr, big.NewInt(100)); !res.Succeeded() {
		t.Fatalf("honest transfer failed: %s", res.VmError)
	}
	w.FlexSetMode(u[0], ft, FlexFee)
	if res := w.EthCall(u[1], ABI, ft.Addr, "transfer", u[2].Addr, big.NewInt(101)); !res.Succeeded() {
		t.Fatalf("fee transfer failed: %s", res.VmError)
	}
	ctx = w.C.Ctx()
	eq("sender after fee transfer", w.TokenBalance(ctx, ft, u[1].Addr), 799)
	eq("receiver after fee transfer", w.TokenBalance(ctx, ft, u[2].Addr), 1190)
	eq("sink", w.TokenBalance(ctx, ft, FlexSinkAddr), 11)
	if res := w.EthCall(u[1], flexABI, ft.Addr, "burn", big.NewInt(99)); !res.Succeeded() {
		t.Fatalf("burn failed: %s", res.VmError)
	}
	eq("supply after burn", w.TokenSupply(w.C.Ctx(), ft), 2901)
	if res := w.EthCall(u[1], flexABI, ft.Addr, "burn", big.NewInt(99999)); res.Succeeded() {
		t.Fatalf("burn above balance succeeded")
	}
	w.FlexSetMode(u[0], ft, FlexNoopTrue)
	if res := w.EthCall(u[1], ABI, ft.Addr, "transfer", u[2].Addr, big.NewInt(5)); !res.Succeeded() {
		t.Fatalf("noop transfer failed")
	}
	eq("sender after noop", w.TokenBalance(w.C.Ctx(), ft, u[1].Addr), 700)
	w.FlexSetMode(u[0], ft, FlexBalanceZero)
	eq("misreported balance", w.view(w.C.Ctx(), ft.Addr, "balanceOf", u[1].Addr), 0)
	eq("real balance", w.TokenBalance(w.C.Ctx(), ft, u[1].Addr), 700)
	w.FlexKill(u[0], ft)
	if w.HasCode(w.C.Ctx(), ft.Addr) {
		t.Fatalf("still has code")
	}
	// OpenZeppelin storage layout assumption
	pt := w.DeployToken(KindPlain, u[0], "tka", "TKA", 6, 77)
	dt := w.DeployToken(KindDirect, u[0], "", "", 18, 55)
	_, _ = pt, dt
	w.VerifyViews(w.C.Ctx())
}
