// C16 — ICS-20 middleware is transparent: acks survive, conversion is atomic.
//
// Shared pieces of the two drivers (direct differential, end-to-end over ibc-go's testing package):
// packet/receiver/amount generators, the reference computation of the denomination the bare
// transfer application credits, balance snapshots and the either/or conversion oracle.
package c16

import (
	"bytes"
	"encoding/hex"
	"encoding/json"
	"fmt"
	"math/big"
	"strings"
	"testing"

	sdk "github.com/cosmos/cosmos-sdk/types"
	"github.com/cosmos/cosmos-sdk/types/bech32"
	authtypes "github.com/cosmos/cosmos-sdk/x/auth/types"
	banktypes "github.com/cosmos/cosmos-sdk/x/bank/types"
	distrtypes "github.com/cosmos/cosmos-sdk/x/distribution/types"
	govtypes "github.com/cosmos/cosmos-sdk/x/gov/types"
	transfer "github.com/cosmos/ibc-go/v3/modules/apps/transfer"
	transfertypes "github.com/cosmos/ibc-go/v3/modules/apps/transfer/types"
	channeltypes "github.com/cosmos/ibc-go/v3/modules/core/04-channel/types"
	porttypes "github.com/cosmos/ibc-go/v3/modules/core/05-port/types"
	"github.com/cosmos/ibc-go/v3/modules/core/exported"
	"github.com/ethereum/go-ethereum/common"
	"pgregory.net/rapid"

	"github.com/teleport-network/teleport/app"
	erc20contracts "github.com/teleport-network/teleport/syscontracts/erc20"
	"github.com/teleport-network/teleport/x/aggregate"
	aggregatetypes "github.com/teleport-network/teleport/x/aggregate/types"

	"verif/harness/kf"
	"verif/harness/kit"
	"verif/harness/rec"
)

func TestMain(m *testing.M) { rec.Main(m) }

const (
	propID = "C16"
	// keyNilAck: Keeper.OnRecvPacket (x/aggregate/keeper/ibc_hook.go) returns nil instead of the
	// transfer application's acknowledgement whenever that acknowledgement is a success.
	keyNilAck = "nil-ack-on-success"
)

var erc20ABI = erc20contracts.ERC20MinterBurnerDecimalsContract.ABI

// ---------------------------------------------------------------------------------------------
// the two modules under comparison

// wiredMiddleware returns the IBC module that app.go routes the transfer port to (the aggregate
// middleware stack as wired, not a copy built by the harness).
func wiredMiddleware(a *app.Teleport) porttypes.IBCModule {
	m, ok := a.IBCKeeper.Router.GetRoute(transfertypes.ModuleName)
	if !ok {
		kit.Failf("no route for the transfer port")
	}
	return m
}

// bareTransfer is the reference: ibc-go's transfer application on the same keeper, without middleware.
func bareTransfer(a *app.Teleport) porttypes.IBCModule {
	return transfer.NewIBCModule(a.IBCTransferKeeper)
}

// ackView is what the property observes of an acknowledgement.
type ackView struct {
	Nil      bool   `json:"nil,omitempty"`
	Panicked string `json:"panicked,omitempty"`
	Success  bool   `json:"success"`
	Bytes    string `json:"bytes,omitempty"`
}

func (a ackView) equal(b ackView) bool {
	return a.Nil == b.Nil && (a.Panicked != "") == (b.Panicked != "") && a.Success == b.Success && a.Bytes == b.Bytes
}

// onRecv calls a module's OnRecvPacket, turning a panic into a value (DeliverTx would recover it and
// fail the transaction).
func onRecv(m porttypes.IBCModule, ctx sdk.Context, p channeltypes.Packet, relayer sdk.AccAddress) (v ackView) {
	defer func() {
		if e := recover(); e != nil {
			if he, ok := e.(kit.HarnessError); ok {
				panic(he)
			}
			v = ackView{Panicked: short(fmt.Sprint(e), 80)}
		}
	}()
	return viewOf(m.OnRecvPacket(ctx, p, relayer))
}

func viewOf(ack exported.Acknowledgement) ackView {
	if isNilAck(ack) {
		return ackView{Nil: true}
	}
	return ackView{Success: ack.Success(), Bytes: string(ack.Acknowledgement())}
}

func isNilAck(ack exported.Acknowledgement) bool { return ack == nil }

func short(s string, n int) string {
	if len(s) > n {
		return s[:n] + "…"
	}
	return s
}

// ---------------------------------------------------------------------------------------------
// reference: which denomination does the bare transfer application credit on the receiving chain?

// creditedDenom follows ICS-20 (ibc-go's own helpers, which are part of the trusted base): a packet
// whose denomination carries the packet's source port/channel prefix returns a coin to its origin
// (prefix stripped, hashed if a trace remains); otherwise a voucher ibc/<hash(dest prefix + denom)> is minted.
func creditedDenom(p channeltypes.Packet, dataDenom string) (denom string, returning bool) {
	if transfertypes.ReceiverChainIsSource(p.GetSourcePort(), p.GetSourceChannel(), dataDenom) {
		un := dataDenom[len(transfertypes.GetDenomPrefix(p.GetSourcePort(), p.GetSourceChannel())):]
		tr := transfertypes.ParseDenomTrace(un)
		if tr.Path != "" {
			return tr.IBCDenom(), true
		}
		return un, true
	}
	pref := transfertypes.GetDenomPrefix(p.GetDestPort(), p.GetDestChannel())
	return transfertypes.ParseDenomTrace(pref + dataDenom).IBCDenom(), false
}

func voucherDenom(port, channel, base string) string {
	return transfertypes.ParseDenomTrace(transfertypes.GetDenomPrefix(port, channel) + base).IBCDenom()
}

// ---------------------------------------------------------------------------------------------
// balances and the conversion oracle

var aggModuleAcc = authtypes.NewModuleAddress(aggregatetypes.ModuleName)

func tokenBalance(a *app.Teleport, ctx sdk.Context, token, who common.Address) *big.Int {
	cctx, _ := ctx.CacheContext()
	res, err := a.AggregateKeeper.CallEVM(cctx, erc20ABI, aggregatetypes.ModuleAddress, token, "balanceOf", who)
	kit.Must(err, "balanceOf")
	out, err := erc20ABI.Unpack("balanceOf", res.Ret)
	kit.Must(err, "unpack balanceOf")
	return out[0].(*big.Int)
}

func tokenSupply(a *app.Teleport, ctx sdk.Context, token common.Address) *big.Int {
	cctx, _ := ctx.CacheContext()
	res, err := a.AggregateKeeper.CallEVM(cctx, erc20ABI, aggregatetypes.ModuleAddress, token, "totalSupply")
	kit.Must(err, "totalSupply")
	out, err := erc20ABI.Unpack("totalSupply", res.Ret)
	kit.Must(err, "unpack totalSupply")
	return out[0].(*big.Int)
}

// pairOf reads the registry entry of a denomination (registry state is an input of the property).
func pairOf(a *app.Teleport, ctx sdk.Context, denom string) (aggregatetypes.TokenPair, bool) {
	id := a.AggregateKeeper.GetTokenPairID(ctx, denom)
	if len(id) == 0 {
		return aggregatetypes.TokenPair{}, false
	}
	return a.AggregateKeeper.GetTokenPair(ctx, id)
}

// snap is the part of the state the conversion clause speaks about.
type snap struct {
	RecvCoin sdk.Int  // receiver's balance of the credited denomination
	ModCoin  sdk.Int  // aggregate module account's balance of it (the escrow)
	Supply   sdk.Int  // bank supply of it
	Tok      *big.Int // receiver's ERC-20 balance of the paired token (nil: no pair before the receive)
	TokSup   *big.Int
}

func takeSnap(a *app.Teleport, ctx sdk.Context, recv sdk.AccAddress, denom string, pair *aggregatetypes.TokenPair) snap {
	s := snap{
		RecvCoin: a.BankKeeper.GetBalance(ctx, recv, denom).Amount,
		ModCoin:  a.BankKeeper.GetBalance(ctx, aggModuleAcc, denom).Amount,
		Supply:   a.BankKeeper.GetSupply(ctx, denom).Amount,
	}
	if pair != nil {
		tok := pair.GetERC20Contract()
		acc := a.EvmKeeper.GetAccountWithoutBalance(ctx, tok)
		if acc != nil && acc.IsContract() {
			s.Tok = tokenBalance(a, ctx, tok, common.BytesToAddress(recv.Bytes()))
			s.TokSup = tokenSupply(a, ctx, tok)
		}
	}
	return s
}

const (
	outConverted = "converted"
	outUntouched = "untouched"
)

// conversionOutcome decides the either/or clause for one successful receive of `amount` of the
// credited denomination. minted says whether the transfer application minted the coins (incoming
// voucher) or released them from its escrow (returning coin). It returns "" and a description when
// the receiver ended with both, neither or a partial conversion.
func conversionOutcome(pre, post snap, amount sdk.Int, pair *aggregatetypes.TokenPair, minted bool) (string, string) {
	dRecv := post.RecvCoin.Sub(pre.RecvCoin)
	dMod := post.ModCoin.Sub(pre.ModCoin)
	dSup := post.Supply.Sub(pre.Supply)
	dTok, dTokSup := big.NewInt(0), big.NewInt(0)
	if pre.Tok != nil && post.Tok != nil {
		dTok = new(big.Int).Sub(post.Tok, pre.Tok)
		dTokSup = new(big.Int).Sub(post.TokSup, pre.TokSup)
	}
	facts := fmt.Sprintf("receiver coins %+d, receiver tokens %+d, module escrow %+d, coin supply %+d, token supply %+d (amount %s)",
		dRecv.BigInt(), dTok, dMod.BigInt(), dSup.BigInt(), dTokSup, amount)
	wantSup := sdk.ZeroInt()
	if minted {
		wantSup = amount
	}
	if dRecv.Equal(amount) && dTok.Sign() == 0 && dMod.IsZero() && dTokSup.Sign() == 0 && dSup.Equal(wantSup) {
		return outUntouched, facts
	}
	if pair != nil && dRecv.IsZero() && dTok.Cmp(amount.BigInt()) == 0 {
		if pair.IsNativeCoin() && dMod.Equal(amount) && dSup.Equal(wantSup) && dTokSup.Cmp(amount.BigInt()) == 0 {
			return outConverted, facts // vouchers escrowed, tokens minted
		}
		// A pair owned by an external ERC-20 contract is backed by escrowed tokens: the module releases
		// escrowed tokens and burns the coins (accepted as "completed in full", see plan.json assumptions).
		if pair.IsNativeERC20() && dTokSup.Sign() == 0 &&
			((dMod.Equal(amount) && dSup.Equal(wantSup)) || (dMod.IsZero() && dSup.Equal(wantSup.Sub(amount)))) {
			return outConverted, facts
		}
	}
	return "", facts
}

// ---------------------------------------------------------------------------------------------
// registry construction through the governance handler (the path a passed proposal takes)

func govHandler(a *app.Teleport) govtypes.Handler {
	return aggregate.NewAggregateProposalHandler(a.AggregateKeeper)
}

func voucherMetadata(denom, trace string) banktypes.Metadata {
	sym := "ibc" + denom[4:10]
	return banktypes.Metadata{
		Description: "c16 voucher " + trace,
		Base:        denom,
		DenomUnits:  []*banktypes.DenomUnit{{Denom: denom, Exponent: 0}},
		Display:     denom,
		Name:        trace + " (channel-x)",
		Symbol:      sym,
	}
}

func nativeMetadata(denom string) banktypes.Metadata {
	return banktypes.Metadata{
		Description: "c16 native " + denom,
		Base:        denom,
		DenomUnits:  []*banktypes.DenomUnit{{Denom: denom, Exponent: 0}},
		Display:     denom,
		Name:        denom,
		Symbol:      strings.ToUpper(denom),
	}
}

func metadataFor(denom string) banktypes.Metadata {
	if strings.HasPrefix(denom, "ibc/") {
		return voucherMetadata(denom, "transfer/"+denom[4:12])
	}
	return nativeMetadata(denom)
}

// registerCoin runs a RegisterCoin proposal the way gov executes a passed proposal.
func registerCoin(a *app.Teleport, ctx sdk.Context, denom string) (aggregatetypes.TokenPair, error) {
	c := aggregatetypes.NewRegisterCoinProposal("c16", "c16", metadataFor(denom))
	if err := c.ValidateBasic(); err != nil {
		return aggregatetypes.TokenPair{}, fmt.Errorf("proposal invalid: %w", err)
	}
	cctx, write := ctx.CacheContext()
	if err := govHandler(a)(cctx, c); err != nil {
		return aggregatetypes.TokenPair{}, err
	}
	write()
	p, ok := pairOf(a, ctx, denom)
	if !ok {
		return p, fmt.Errorf("pair of %s not found after registration", denom)
	}
	return p, nil
}

func addCoin(a *app.Teleport, ctx sdk.Context, denom string, contract common.Address) error {
	c := aggregatetypes.NewAddCoinProposal("c16", "c16", metadataFor(denom), contract.Hex())
	if err := c.ValidateBasic(); err != nil {
		return fmt.Errorf("proposal invalid: %w", err)
	}
	cctx, write := ctx.CacheContext()
	if err := govHandler(a)(cctx, c); err != nil {
		return err
	}
	write()
	return nil
}

func toggleRelay(a *app.Teleport, ctx sdk.Context, token string) error {
	c := aggregatetypes.NewToggleTokenRelayProposal("c16", "c16", token)
	if err := c.ValidateBasic(); err != nil {
		return fmt.Errorf("proposal invalid: %w", err)
	}
	cctx, write := ctx.CacheContext()
	if err := govHandler(a)(cctx, c); err != nil {
		return err
	}
	write()
	return nil
}

func setModuleEnabled(a *app.Teleport, ctx sdk.Context, on bool) {
	p := a.AggregateKeeper.GetParams(ctx)
	if p.EnableAggregate != on {
		p.EnableAggregate = on
		a.AggregateKeeper.SetParams(ctx, p)
	}
}

// mintTo creates coins out of thin air for setup (the aggregate module account is a minter).
func mintTo(a *app.Teleport, ctx sdk.Context, to sdk.AccAddress, coins sdk.Coins) {
	kit.Must(a.BankKeeper.MintCoins(ctx, aggregatetypes.ModuleName, coins), "mint")
	kit.Must(a.BankKeeper.SendCoins(ctx, aggModuleAcc, to, coins), "fund")
}

// ---------------------------------------------------------------------------------------------
// generators

// receiver kinds
const (
	rkFresh    = "fresh"
	rkExisting = "existing"
	rkZero     = "zero20"
	rkLong     = "long32"
	rkLongZero = "long32-zero-tail"
	rkBlocked  = "blocked-module"
	rkAllowed  = "distribution-module"
	rkInvalid  = "invalid"
)

type receiverSpec struct {
	Kind string
	Str  string         // the packet's receiver string
	Acc  sdk.AccAddress // nil when the string is not a valid address
}

func bech(hrp string, bz []byte) string {
	s, err := bech32.ConvertAndEncode(hrp, bz)
	kit.Must(err, "bech32")
	return s
}

// genReceiver draws a receiver. existing are addresses that already have accounts/balances.
// persistent: the state outlives the case (end-to-end driver) - the distribution module account is left
// out there because coins sent to it break the SDK's distribution module-account invariant, which the
// crisis module asserts in EndBlock of the test application (inv-check-period 5); that is a property of
// every SDK chain that lists distribution as an allowed receiver, not of the middleware.
func genReceiver(t *rapid.T, existing []sdk.AccAddress, allowBlank, persistent bool) receiverSpec {
	kinds := []string{rkFresh, rkFresh, rkFresh, rkFresh, rkExisting, rkExisting, rkExisting, rkZero, rkZero, rkLong, rkLongZero, rkBlocked, rkInvalid, rkInvalid}
	if !persistent {
		kinds = append(kinds, rkAllowed)
	}
	kind := rapid.SampledFrom(kinds).Draw(t, "receiverKind")
	switch kind {
	case rkFresh:
		acc := kit.NewAccount(kit.U64(rapid.Uint64Range(0, 1<<20).Draw(t, "receiverSeed"))).Acc
		return receiverSpec{kind, acc.String(), acc}
	case rkExisting:
		acc := rapid.SampledFrom(existing).Draw(t, "existingReceiver")
		return receiverSpec{kind, acc.String(), acc}
	case rkZero:
		acc := sdk.AccAddress(make([]byte, 20))
		return receiverSpec{kind, acc.String(), acc}
	case rkLong, rkLongZero:
		bz := rapid.SliceOfN(rapid.Byte(), 32, 32).Draw(t, "receiver32")
		bz[0] |= 1 // never the all-zero address
		if kind == rkLongZero {
			copy(bz[12:], make([]byte, 20))
		}
		acc := sdk.AccAddress(bz)
		return receiverSpec{kind, acc.String(), acc}
	case rkBlocked:
		m := rapid.SampledFrom([]string{aggregatetypes.ModuleName, transfertypes.ModuleName, authtypes.FeeCollectorName, govtypes.ModuleName}).Draw(t, "blockedModule")
		acc := authtypes.NewModuleAddress(m)
		return receiverSpec{kind, acc.String(), acc}
	case rkAllowed:
		acc := authtypes.NewModuleAddress(distrtypes.ModuleName)
		return receiverSpec{kind, acc.String(), acc}
	default:
		good := kit.NewAccount([]byte("c16-invalid")).Acc
		opts := []string{
			"not-an-address",
			bech("osmo", good),                                           // foreign prefix
			strings.ToUpper(good.String()),                               // upper case is valid bech32 but…
			good.String()[:len(good.String())-1] + "q",                   // broken checksum (almost surely)
			"0x" + hex.EncodeToString(good),                              // hex form
			bech(sdk.GetConfig().GetBech32AccountAddrPrefix(), []byte{}), // empty payload
			" " + good.String(),
		}
		if allowBlank {
			opts = append(opts, "", "   ")
		}
		s := rapid.SampledFrom(opts).Draw(t, "invalidReceiver")
		r := receiverSpec{Kind: kind, Str: s}
		if acc, err := sdk.AccAddressFromBech32(s); err == nil { // e.g. the upper-case form decodes
			r.Acc = acc
		}
		return r
	}
}

// amount classes
type amountSpec struct {
	Class string
	Str   string
}

func pow2(n uint) *big.Int { return new(big.Int).Lsh(big.NewInt(1), n) }

// genAmount draws the packet's amount string. honest: only what MsgTransfer can carry (a positive
// integer up to max); otherwise every class of the property's quantifier (0, 1, huge, non-numeric).
func genAmount(t *rapid.T, honest, allowMax bool, max *big.Int) amountSpec {
	classes := []string{"one", "small", "small", "e18", "u64edge", "2^128"}
	if !honest {
		classes = append(classes, classes...)
		classes = append(classes, classes...)
		classes = append(classes, "zero", "negative", "non-numeric", "non-numeric", "too-big", "padded")
		if allowMax { // only where the state is thrown away: a supply of 2^255-1 makes every later mint overflow
			classes = append(classes, "2^255-1")
		}
	}
	c := rapid.SampledFrom(classes).Draw(t, "amountClass")
	var v *big.Int
	switch c {
	case "one":
		v = big.NewInt(1)
	case "small":
		v = big.NewInt(rapid.Int64Range(2, 1_000_000).Draw(t, "amount"))
	case "e18":
		v = new(big.Int).Mul(big.NewInt(rapid.Int64Range(1, 1000).Draw(t, "amountE18")), new(big.Int).Exp(big.NewInt(10), big.NewInt(18), nil))
	case "u64edge":
		v = new(big.Int).Add(pow2(rapid.SampledFrom([]uint{63, 64}).Draw(t, "edgeBits")), big.NewInt(rapid.Int64Range(-1, 1).Draw(t, "edgeOff")))
	case "2^128":
		v = new(big.Int).Add(pow2(128), big.NewInt(rapid.Int64Range(0, 9).Draw(t, "bigOff")))
	case "zero":
		return amountSpec{c, rapid.SampledFrom([]string{"0", "00", "-0"}).Draw(t, "zeroForm")}
	case "negative":
		return amountSpec{c, fmt.Sprint(-rapid.Int64Range(1, 1000).Draw(t, "neg"))}
	case "non-numeric":
		return amountSpec{c, rapid.SampledFrom([]string{"", "abc", "1.5", "1e3", "0x10", " 7", "7 ", "१२", "NaN", "1_000"}).Draw(t, "garbageAmount")}
	case "2^255-1":
		v = new(big.Int).Sub(pow2(255), big.NewInt(rapid.Int64Range(1, 3).Draw(t, "maxOff")))
	case "too-big":
		v = pow2(rapid.SampledFrom([]uint{255, 256, 300}).Draw(t, "tooBigBits"))
	case "padded":
		n := rapid.Int64Range(1, 999).Draw(t, "paddedValue")
		return amountSpec{c, rapid.SampledFrom([]string{"+", "00", "000000000000000000000000000000000000000000000000000000000000000000000000000000000"}).Draw(t, "pad") + fmt.Sprint(n)}
	}
	if honest && max != nil && v.Cmp(max) > 0 {
		v = new(big.Int).Set(max)
	}
	return amountSpec{c, v.String()}
}

// packetDataBytes renders the ICS-20 packet data. enc selects canonical JSON or a deviation.
func packetDataBytes(t *rapid.T, d transfertypes.FungibleTokenPacketData, allowMalformed bool) (string, []byte) {
	encs := []string{"reordered", "reordered", "reordered"}
	for i := 0; i < 20; i++ {
		encs = append(encs, "canonical")
	}
	if allowMalformed {
		encs = append(encs, "unknown-field", "wrong-type", "truncated", "garbage", "empty", "json-null", "json-array")
	}
	enc := rapid.SampledFrom(encs).Draw(t, "encoding")
	q := func(s string) string { b, _ := json.Marshal(s); return string(b) }
	switch enc {
	case "canonical":
		return enc, d.GetBytes()
	case "reordered":
		return enc, []byte(fmt.Sprintf("{ \"sender\": %s,\n \"receiver\": %s, \"denom\": %s, \"amount\": %s }", q(d.Sender), q(d.Receiver), q(d.Denom), q(d.Amount)))
	case "unknown-field":
		return enc, []byte(fmt.Sprintf(`{"amount":%s,"denom":%s,"memo":"x","receiver":%s,"sender":%s}`, q(d.Amount), q(d.Denom), q(d.Receiver), q(d.Sender)))
	case "wrong-type":
		return enc, []byte(fmt.Sprintf(`{"amount":7,"denom":%s,"receiver":%s,"sender":%s}`, q(d.Denom), q(d.Receiver), q(d.Sender)))
	case "truncated":
		b := d.GetBytes()
		return enc, b[:rapid.IntRange(0, len(b)-1).Draw(t, "cut")]
	case "garbage":
		return enc, rapid.SliceOfN(rapid.Byte(), 1, 40).Draw(t, "garbage")
	case "empty":
		return enc, []byte{}
	case "json-null":
		return enc, []byte("null")
	default:
		return enc, []byte("[]")
	}
}

// ---------------------------------------------------------------------------------------------
// case record (rendered into evidence samples and failure messages)

type caseLog struct {
	Driver    string      `json:"driver"`
	Packet    string      `json:"packet"`
	Data      string      `json:"data"`
	Encoding  string      `json:"encoding"`
	Registry  string      `json:"registry"`
	Receiver  string      `json:"receiver_kind"`
	Amount    string      `json:"amount_class"`
	Credited  string      `json:"credited_denom,omitempty"`
	Returning bool        `json:"returning,omitempty"`
	Bare      ackView     `json:"bare_ack"`
	Middle    interface{} `json:"middleware"`
	Outcome   string      `json:"outcome"`
	Facts     string      `json:"facts,omitempty"`
}

func (c caseLog) String() string {
	b, _ := json.Marshal(c)
	return string(b)
}

func printable(b []byte) string {
	if bytes.IndexFunc(b, func(r rune) bool { return r < 0x20 && r != '\n' || r == 0xfffd }) >= 0 {
		return "hex:" + hex.EncodeToString(b)
	}
	return string(b)
}

func nilAckListed() bool { return kf.Listed(propID, keyNilAck) }
