// C12 — token-pair registry stays self-consistent under every governance action.
package c12

import (
	"testing"

	"pgregory.net/rapid"

	"verif/harness/rec"
	"verif/harness/sim/aggsim"
)

func TestMain(m *testing.M) { rec.Main(m) }

const rule = "rapid state machine on a fresh kit chain per case: register-coin (name equal to / different from base, ibc/ denominations), add-coin (to module-owned " +
	"and externally owned pairs), register-ERC20 (plain, misbehaving, self-destructible tokens, non-contracts), toggle, update-ERC20-address (fresh matching contract, " +
	"same address, other tracked contracts), self-destruct + conversion clean-up, interleaved conversions and coin->token->coin round trips across registry changes, " +
	"all governance through the real proposal handler in a cache context; non-trivial = a multi-denomination pair exists and an update or delete succeeds after it; " +
	"distinct by (pair count, successful action counts per kind, updates/deletes of multi-denomination pairs, round trips)"

func TestC12_Registry(t *testing.T) {
	r := rec.For("TestC12_Registry", rule)
	rapid.Check(t, func(t *rapid.T) { aggsim.RunRegistry(t, r) })
}
