package c15

import (
	"fmt"
	"os"
	"path/filepath"
	"sync"
	"testing"

	"github.com/gogo/protobuf/proto"
	"pgregory.net/rapid"

	codectypes "github.com/cosmos/cosmos-sdk/codec/types"
	sdk "github.com/cosmos/cosmos-sdk/types"
	govtypes "github.com/cosmos/cosmos-sdk/x/gov/types"

	aggregatetypes "github.com/teleport-network/teleport/x/aggregate/types"
	clienttypes "github.com/teleport-network/teleport/x/xibc/core/client/types"

	"verif/harness/kit"
	"verif/harness/rec"
)

const ruleFuzz = "native Go fuzzing over proto-encoded proposal contents: bytes -> Any -> content decoded by the app's interface registry -> real ValidateBasic -> " +
	"gov-style execution under recover on two module states (no client / a client of each type under the first four chain names); seed corpus written from the rapid generators"

var (
	fuzzOnce   sync.Once
	fuzzStates []sdk.Context
	fuzzNames  = []string{"no client", "clients of all four types"}
)

// fuzzWorld prepares the two module states the fuzz target executes on.
func fuzzWorld() (*world, []sdk.Context) {
	w := baseWorld()
	fuzzOnce.Do(func() {
		s0, _ := w.c.Ctx().CacheContext()
		s1, _ := w.c.Ctx().CacheContext()
		for i, cs := range []proto.Message{fixedBSC(200), fixedETH(), fixedTM(), fixedTSS()} {
			kind := []string{"bsc", "eth", "tendermint", "tss"}[i]
			content, ok := acceptedContent(w, createProposal(chainNames[i], cs, fixedCons(kind)))
			if !ok {
				kit.Failf("fixed %s client state is not accepted", kind)
			}
			kit.Must(execLikeGov(s1, w.xibcH, content), "install "+kind+" client")
		}
		fuzzStates = []sdk.Context{s0, s1}
	})
	return w, fuzzStates
}

// fuzzOne is the body of the fuzz target (also used to check the seed corpus in plain test runs).
func fuzzOne(t *testing.T, data []byte) {
	w, states := fuzzWorld()
	r := rec.For("FuzzC15_Proposal", ruleFuzz)
	var any codectypes.Any
	if err := proto.Unmarshal(data, &any); err != nil {
		r.Label("fuzz:not an Any")
		return
	}
	var content govtypes.Content
	var err error
	if p := guard(func() { err = w.c.App.InterfaceRegistry().UnpackAny(&any, &content) }); p != nil || err != nil || content == nil {
		r.Label("fuzz:undecodable content")
		return
	}
	route := ""
	if p := guard(func() { route = content.ProposalRoute() }); p != nil {
		return
	}
	if route != clienttypes.GovRouterKey && route != aggregatetypes.GovRouterKey {
		r.Label("fuzz:other route")
		return
	}
	var verr error
	if p := guard(func() { verr = content.ValidateBasic() }); p != nil || verr != nil {
		r.Label("fuzz:rejected:" + content.ProposalType())
		return
	}
	r.Label("fuzz:accepted:" + content.ProposalType())
	for i, s := range states {
		if k := knownShape(w, s, content); k != "" && listed(k) {
			r.Exclude(k)
			continue
		}
		ctx, _ := s.CacheContext()
		var herr error
		if p := guard(func() { herr = execLikeGov(ctx, handlerFor(w, content), content) }); p != nil {
			t.Fatalf("handler panicked outside tx recovery on state %q: %s\ncontent=%s", fuzzNames[i], p, renderContent(w, content))
		}
		r.Case(fmt.Sprintf("%s|%s|%s", content.ProposalType(), fuzzNames[i], outcomeClass(herr)), true, func() interface{} {
			return map[string]string{"state": fuzzNames[i], "outcome": outcomeClass(herr), "content": renderContent(w, content)}
		})
	}
}

func FuzzC15_Proposal(f *testing.F) {
	f.Fuzz(func(t *testing.T, data []byte) { fuzzOne(t, data) })
}

// TestC15_WriteFuzzCorpus regenerates the seed corpus from the rapid generators (run by hand:
// C15_WRITE_CORPUS=<dir> go test -run TestC15_WriteFuzzCorpus). Skipped otherwise.
func TestC15_WriteFuzzCorpus(t *testing.T) {
	dir := os.Getenv("C15_WRITE_CORPUS")
	if dir == "" {
		t.Skip("C15_WRITE_CORPUS not set")
	}
	w := baseWorld()
	kit.Must(os.MkdirAll(dir, 0o755), "mkdir corpus")
	gen := rapid.Custom(func(t *rapid.T) []byte {
		gc := genProposal(t, w, map[string]string{chainNames[0]: "bsc", chainNames[1]: "eth", chainNames[2]: "tendermint", chainNames[3]: "tss"})
		_, bz, _ := roundTrip(w, gc.Content)
		return bz
	})
	seen := map[string]int{}
	n := 0
	for seed := 0; seed < 3000 && n < 150; seed++ {
		bz := gen.Example(seed)
		if len(bz) == 0 || len(bz) > 6000 {
			continue
		}
		var any codectypes.Any
		kit.Must(proto.Unmarshal(bz, &any), "corpus entry")
		if seen[any.TypeUrl] >= 13 {
			continue
		}
		seen[any.TypeUrl]++
		kit.Must(os.WriteFile(filepath.Join(dir, fmt.Sprintf("seed-%03d", n)), []byte(fmt.Sprintf("go test fuzz v1\n[]byte(%q)\n", bz)), 0o644), "write corpus file")
		n++
	}
	t.Logf("wrote %d corpus files: %v", n, seen)
}
