package c19

// codec_test.go: (a) decode(encode(v)) == v and canonical bytes, (c) encode injectivity on near-miss pairs.

import (
	"bytes"
	"crypto/sha256"
	"fmt"
	"strings"
	"testing"
	"unicode/utf8"

	"pgregory.net/rapid"

	packettypes "github.com/teleport-network/teleport/x/xibc/core/packet/types"

	"verif/harness/kf"
	"verif/harness/rec"
)

const (
	keyAckFee = "ack-fee-option-dropped"
)

const ruleRoundTrip = "values of Packet/Acknowledgement/Result/TransferData/CallData from hostile generators (valid UTF-8 incl. U+0000, U+2028, <>&, " +
	"JSON meta characters, 4-byte runes, U+FFFD, ABI padding-boundary and very long lengths; byte strings incl. nil/empty/non-UTF-8/nested ABI; " +
	"uint64 incl. 2^53+1, 2^63, 2^64-1); oracle: ABIPack == independent strict ABI reference encoding, ABIDecode(ABIPack(v)) == v (nil==empty), " +
	"re-pack byte-identical, CommitPacket == sha256(reference bytes); non-trivial = value with >=1 hostile element; distinct by (type, hostile-class set)"

// excludeKnownAck removes, by construction, the shape of the listed ack finding (non-zero fee option).
func excludeKnownAck(c *codec, v []field, r *rec.Recorder) {
	if c == codecAck && v[4].U != 0 && kf.Listed("C19", keyAckFee) {
		r.Exclude(keyAckFee)
		v[4].U = 0
	}
}

func checkRoundTrip(t *rapid.T, c *codec, v []field) []byte {
	bz, err := c.enc(v)
	if err != nil {
		t.Fatalf("ABIPack failed on a valid value: %v\n%s", err, render(c, v))
	}
	if ref := refEncode(v); !bytes.Equal(bz, ref) {
		t.Fatalf("ABIPack is not the canonical ABI encoding\nvalue=%s\n got=%x\nwant=%x", render(c, v), clipB(bz), clipB(ref))
	}
	w, err := c.dec(bz)
	if err != nil {
		t.Fatalf("ABIDecode rejected ABIPack output: %v\n%s", err, render(c, v))
	}
	if !fieldsEqual(v, w) {
		t.Fatalf("decode(encode(v)) != v\n   v=%s\ngot=%s", render(c, v), render(c, w))
	}
	bz2, err := c.enc(w)
	if err != nil || !bytes.Equal(bz, bz2) {
		t.Fatalf("re-encoding the decoded value changed the bytes (err=%v)\n%s", err, render(c, v))
	}
	return bz
}

func clipB(b []byte) []byte {
	if len(b) > 640 {
		return b[:640]
	}
	return b
}

func TestC19_RoundTrip(t *testing.T) {
	r := rec.For("TestC19_RoundTrip", ruleRoundTrip)
	rapid.Check(t, func(t *rapid.T) {
		c := codecByName[rapid.SampledFrom(codecNames).Draw(t, "type")]
		v := genValue(t, c)
		// encode canonicality holds for every drawn value, also the ones the listed ack finding withholds from the decode checks
		if pre, err := c.enc(v); err != nil || !bytes.Equal(pre, refEncode(v)) {
			t.Fatalf("ABIPack is not the canonical ABI encoding (err=%v)\nvalue=%s\n got=%x\nwant=%x", err, render(c, v), clipB(pre), clipB(refEncode(v)))
		}
		excludeKnownAck(c, v, r)
		bz := checkRoundTrip(t, c, v)
		want := sha256.Sum256(bz)
		switch c {
		case codecPacket:
			p := packettypes.Packet{SrcChain: v[0].S, DstChain: v[1].S, Sequence: v[2].U, Sender: v[3].S,
				TransferData: v[4].B, CallData: v[5].B, CallbackAddress: v[6].S, FeeOption: v[7].U}
			got, err := packettypes.CommitPacket(&p)
			if err != nil || !bytes.Equal(got, want[:]) {
				t.Fatalf("CommitPacket != sha256(canonical bytes) (err=%v)\n%s", err, render(c, v))
			}
		case codecAck:
			if got := packettypes.CommitAcknowledgement(bz); !bytes.Equal(got, want[:]) {
				t.Fatalf("CommitAcknowledgement != sha256(bytes)\n%s", render(c, v))
			}
		}
		cl := classifyValue(v)
		for _, k := range cl.list() {
			r.Label(k)
		}
		r.Label("type:" + c.name)
		r.Case(c.name+"|"+cl.key(), len(cl) > 0, sampled("roundtrip", 1, func() interface{} { return render(c, v) }))
	})
}

// ---------------------------------------------------------------------------------------------
// (c) injectivity

const ruleInjective = "pairs (v, w) of the same type: w = near-miss mutation of v (move a rune/byte between adjacent dynamic fields, swap two fields of " +
	"the same kind, prefix/suffix/truncate, merge a field into its neighbour (empty vs missing), nil<->empty, append padding-like zeros, uint64 +-1 / bit " +
	"flips, NFC<->NFD, case) or two independent draws from tiny domains; oracle: v == w <=> ABIPack(v) == ABIPack(w), and for packets commitments " +
	"differ iff the values differ; non-trivial = v != w; distinct by (type, mutation, hostile classes of the changed fields)"

// lastChunk returns the last rune (string) or last byte (bytes) of a dynamic field's content.
func lastChunk(f field) []byte {
	raw := f.raw()
	if len(raw) == 0 {
		return nil
	}
	if f.K == 's' {
		_, n := utf8.DecodeLastRuneInString(f.S)
		return raw[len(raw)-n:]
	}
	return raw[len(raw)-1:]
}

func firstChunk(f field) []byte {
	raw := f.raw()
	if len(raw) == 0 {
		return nil
	}
	if f.K == 's' {
		_, n := utf8.DecodeRuneInString(f.S)
		return raw[:n]
	}
	return raw[:1]
}

func dynIdx(v []field) (out []int) {
	for i, f := range v {
		if f.dyn() {
			out = append(out, i)
		}
	}
	return
}

func uintIdx(v []field) (out []int) {
	for i, f := range v {
		if !f.dyn() {
			out = append(out, i)
		}
	}
	return
}

var mutationNames = []string{"move_tail_right", "move_head_left", "swap_same_kind", "append_byte", "prepend_byte", "truncate",
	"merge_into_next", "merge_into_prev", "nil_vs_empty", "append_zero_padding", "uint_plus_minus_1", "uint_flip_bit", "uint_swap",
	"unicode_equivalent", "case_flip", "append_length_word"}

// mutate derives a near miss of v. The result may equal v (e.g. swapping equal fields): the caller decides by comparing.
func mutate(t *rapid.T, v []field) ([]field, string, []int) {
	w := cloneFields(v)
	op := rapid.SampledFrom(mutationNames).Draw(t, "mutation")
	dyn := dynIdx(v)
	us := uintIdx(v)
	pickDyn := func(label string) int { return dyn[rapid.IntRange(0, len(dyn)-1).Draw(t, label)] }
	adj := func() (int, int) { // two adjacent dynamic fields (in tuple order, static ones in between skipped)
		if len(dyn) < 2 {
			return dyn[0], dyn[0]
		}
		k := rapid.IntRange(0, len(dyn)-2).Draw(t, "adjacent")
		return dyn[k], dyn[k+1]
	}
	switch op {
	case "move_tail_right":
		i, j := adj()
		ch := lastChunk(w[i])
		if i != j && len(ch) > 0 && (w[j].K == 'b' || utf8.Valid(append(append([]byte{}, ch...), w[j].raw()...))) {
			a, b := w[i].raw(), w[j].raw()
			w[j] = w[j].withRaw(append(append([]byte{}, ch...), b...))
			w[i] = w[i].withRaw(a[:len(a)-len(ch)])
		}
		return w, op, []int{i, j}
	case "move_head_left":
		i, j := adj()
		ch := firstChunk(w[j])
		if i != j && len(ch) > 0 && (w[i].K == 'b' || utf8.Valid(append(append([]byte{}, w[i].raw()...), ch...))) {
			a, b := w[i].raw(), w[j].raw()
			w[i] = w[i].withRaw(append(append([]byte{}, a...), ch...))
			w[j] = w[j].withRaw(b[len(ch):])
		}
		return w, op, []int{i, j}
	case "swap_same_kind":
		i := rapid.IntRange(0, len(v)-1).Draw(t, "i")
		var same []int
		for k := range v {
			if k != i && v[k].K == v[i].K {
				same = append(same, k)
			}
		}
		if len(same) == 0 {
			return w, op, []int{i}
		}
		j := same[rapid.IntRange(0, len(same)-1).Draw(t, "j")]
		w[i], w[j] = w[j], w[i]
		return w, op, []int{i, j}
	case "append_byte", "prepend_byte":
		i := pickDyn("i")
		b := rapid.SampledFrom([]byte{0, ' ', 'a', '/', '0'}).Draw(t, "byte")
		if op == "append_byte" {
			w[i] = w[i].withRaw(append(append([]byte{}, w[i].raw()...), b))
		} else {
			w[i] = w[i].withRaw(append([]byte{b}, w[i].raw()...))
		}
		return w, op, []int{i}
	case "truncate":
		i := pickDyn("i")
		ch := lastChunk(w[i])
		raw := w[i].raw()
		w[i] = w[i].withRaw(raw[:len(raw)-len(ch)])
		return w, op, []int{i}
	case "merge_into_next", "merge_into_prev":
		i, j := adj()
		if i == j {
			return w, op, []int{i}
		}
		a, b := w[i].raw(), w[j].raw()
		joined := append(append([]byte{}, a...), b...)
		if op == "merge_into_next" {
			if w[j].K == 'b' || utf8.Valid(joined) {
				w[j] = w[j].withRaw(joined)
				w[i] = w[i].withRaw(nil)
			}
		} else if w[i].K == 'b' || utf8.Valid(joined) {
			w[i] = w[i].withRaw(joined)
			w[j] = w[j].withRaw(nil)
		}
		return w, op, []int{i, j}
	case "nil_vs_empty":
		for _, i := range dyn {
			if w[i].K == 'b' && len(w[i].B) == 0 {
				if w[i].B == nil {
					w[i].B = []byte{}
				} else {
					w[i].B = nil
				}
				return w, op, []int{i}
			}
		}
		return w, op, nil
	case "append_zero_padding": // content that looks like the encoder's own padding
		i := pickDyn("i")
		raw := w[i].raw()
		pad := (32 - len(raw)%32) % 32
		if pad == 0 {
			pad = 32
		}
		w[i] = w[i].withRaw(append(append([]byte{}, raw...), make([]byte, pad)...))
		return w, op, []int{i}
	case "append_length_word": // content followed by what would be the next field's length word + data
		i, j := adj()
		if i == j || w[i].K == 's' {
			return w, op, []int{i}
		}
		raw := w[i].raw()
		ext := append([]byte{}, raw...)
		ext = append(ext, make([]byte, (32-len(raw)%32)%32)...)
		ext = append(ext, word(uint64(len(w[j].raw())))...)
		ext = append(ext, w[j].raw()...)
		w[i] = w[i].withRaw(ext)
		w[j] = w[j].withRaw(nil)
		return w, op, []int{i, j}
	case "uint_plus_minus_1":
		if len(us) == 0 {
			return w, op, nil
		}
		i := us[rapid.IntRange(0, len(us)-1).Draw(t, "i")]
		if rapid.Bool().Draw(t, "plus") {
			w[i].U++
		} else {
			w[i].U--
		}
		return w, op, []int{i}
	case "uint_flip_bit":
		if len(us) == 0 {
			return w, op, nil
		}
		i := us[rapid.IntRange(0, len(us)-1).Draw(t, "i")]
		w[i].U ^= uint64(1) << uint(rapid.SampledFrom([]int{0, 7, 8, 31, 32, 52, 53, 62, 63}).Draw(t, "bit"))
		return w, op, []int{i}
	case "uint_swap":
		if len(us) >= 2 {
			w[us[0]].U, w[us[len(us)-1]].U = w[us[len(us)-1]].U, w[us[0]].U
			return w, op, []int{us[0], us[len(us)-1]}
		}
		return w, op, nil
	case "unicode_equivalent":
		for _, i := range dyn {
			if w[i].K != 's' {
				continue
			}
			s := w[i].S
			repl := func(from, to string) { w[i].S = strings.Replace(s, from, to, 1) }
			switch {
			case strings.Contains(s, "\u00e9"): // NFC -> NFD
				repl("\u00e9", "e\u0301")
			case strings.Contains(s, "e\u0301"): // NFD -> NFC
				repl("e\u0301", "\u00e9")
			case strings.Contains(s, "\u2028"): // line separator vs newline
				repl("\u2028", "\n")
			case strings.Contains(s, "\x00"): // NUL vs replacement character
				repl("\x00", "\ufffd")
			case strings.Contains(s, "<"): // raw vs the JSON HTML escape written out
				repl("<", `\u003c`)
			case strings.Contains(s, "\ufffd"):
				repl("\ufffd", "?")
			default:
				continue
			}
			return w, op, []int{i}
		}
		return w, op, nil
	default: // case_flip
		for _, i := range dyn {
			if w[i].K != 's' {
				continue
			}
			b := []byte(w[i].S)
			for k := range b {
				if b[k] >= 'a' && b[k] <= 'z' {
					b[k] -= 32
					w[i].S = string(b)
					return w, "case_flip", []int{i}
				}
			}
		}
		return w, "case_flip", nil
	}
}

func TestC19_EncodeInjective(t *testing.T) {
	r := rec.For("TestC19_EncodeInjective", ruleInjective)
	rapid.Check(t, func(t *rapid.T) {
		c := codecByName[rapid.SampledFrom(codecNames).Draw(t, "type")]
		var v, w []field
		var op string
		var touched []int
		if rapid.IntRange(0, 3).Draw(t, "pairKind") == 0 {
			v, w, op = genSmallValue(t, c), genSmallValue(t, c), "independent_small_domain"
			for i := range v {
				touched = append(touched, i)
			}
		} else {
			if rapid.Bool().Draw(t, "smallBase") {
				v = genSmallValue(t, c)
			} else {
				v = genValue(t, c)
			}
			w, op, touched = mutate(t, v)
		}
		if !allStringsValid(v) || !allStringsValid(w) {
			// outside the quantifier (valid UTF-8 only); the mutation helpers are written never to get here
			t.Fatalf("HARNESS: mutation %s produced invalid UTF-8: %s / %s", op, render(c, v), render(c, w))
		}
		bv, err1 := c.enc(v)
		bw, err2 := c.enc(w)
		if err1 != nil || err2 != nil {
			t.Fatalf("ABIPack failed: %v / %v", err1, err2)
		}
		same := fieldsEqual(v, w)
		if same != bytes.Equal(bv, bw) {
			t.Fatalf("injectivity/canonicality broken (%s): values equal=%v but encodings equal=%v\n v=%s\n w=%s", op, same, !same, render(c, v), render(c, w))
		}
		if c == codecPacket {
			pv := packettypes.Packet{SrcChain: v[0].S, DstChain: v[1].S, Sequence: v[2].U, Sender: v[3].S, TransferData: v[4].B, CallData: v[5].B, CallbackAddress: v[6].S, FeeOption: v[7].U}
			pw := packettypes.Packet{SrcChain: w[0].S, DstChain: w[1].S, Sequence: w[2].U, Sender: w[3].S, TransferData: w[4].B, CallData: w[5].B, CallbackAddress: w[6].S, FeeOption: w[7].U}
			cv, e1 := packettypes.CommitPacket(&pv)
			cw, e2 := packettypes.CommitPacket(&pw)
			if e1 != nil || e2 != nil {
				t.Fatalf("CommitPacket failed: %v / %v", e1, e2)
			}
			if same != bytes.Equal(cv, cw) {
				t.Fatalf("different packets, same commitment (%s)\n v=%s\n w=%s", op, render(c, v), render(c, w))
			}
		}
		// the decoder must tell the two apart as well (read-back side of injectivity); the listed ack
		// finding is excluded by comparing the fee option of acks only through the encoder above
		if !same {
			dv, e1 := c.dec(bv)
			dw, e2 := c.dec(bw)
			if e1 != nil || e2 != nil {
				t.Fatalf("ABIDecode failed: %v / %v", e1, e2)
			}
			skipAck := c == codecAck && kf.Listed("C19", keyAckFee) && onlyDiffers(v, w, 4)
			if skipAck {
				r.Exclude(keyAckFee)
			} else if fieldsEqual(dv, dw) {
				t.Fatalf("two different values decode to the same value (%s)\n v=%s\n w=%s\n decoded=%s", op, render(c, v), render(c, w), render(c, dv))
			}
		}
		cl := classes{}
		for _, i := range touched {
			for _, x := range [][]field{v, w} {
				switch x[i].K {
				case 's':
					classifyString(x[i].S, cl)
				case 'b':
					classifyBytes(x[i].B, cl)
				case 'u':
					classifyUint(x[i].U, cl)
				}
			}
		}
		r.Label("mutation:" + op)
		if same {
			r.Label("pair:equal_values(encodings must be equal)")
		} else {
			r.Label("pair:different_values")
		}
		r.Label("type:" + c.name)
		r.Case(fmt.Sprintf("%s|%s|%s", c.name, op, cl.key()), !same, sampled("injective", 1, func() interface{} {
			return map[string]string{"mutation": op, "v": render(c, v), "w": render(c, w)}
		}))
	})
}

// onlyDiffers reports whether v and w differ in component i and nowhere else.
func onlyDiffers(v, w []field, i int) bool {
	a, b := cloneFields(v), cloneFields(w)
	a[i], b[i] = field{K: v[i].K}, field{K: w[i].K}
	return fieldsEqual(a, b) && !fieldsEqual(v, w)
}
