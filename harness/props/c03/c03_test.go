// C03 — cross-chain value conservation: delivered or refunded, never both.
package c03

import (
	"bytes"
	"fmt"
	"math/big"
	"sort"
	"testing"

	"pgregory.net/rapid"

	"verif/harness/kit"
	"verif/harness/rec"
	"verif/harness/sim/bridge"
)

func TestMain(m *testing.M) { rec.Main(m) }

const rule = "rapid state machine over 2-3 real chains: ERC-20 and native-coin transfers forward and back along bound lineages, unbound tokens, " +
	"call data that succeeds / reverts in the execute contract / fails in a post-transaction hook, fees, relays and acks in any order; " +
	"non-trivial = history in which >= 1 destination execution fails and its acknowledgement is processed on the source; " +
	"distinct by (failure kinds, token kinds, directions, refund processed, other traffic in between)"

type ctl struct {
	m          *bridge.Machine
	failKinds  map[string]bool
	refunded   int
	delivered  int
	nontrivial bool
}

// token and contract effects of a destination execution are judged on every store except the xibc store
// (receipt, acknowledgement) and the own storage of the three bridge system contracts (packet, endpoint,
// execute): their internal bookkeeping (latest packet, re-entrancy flag) is not a token effect, and the
// token meaning of the endpoint's storage (outTokens, bindings) is checked through the ledger instead.
func effects(d kit.Dump) kit.Dump {
	return bridge.FilterDump(d, func(store string, key []byte) bool {
		if store == "xibc" {
			return true
		}
		if store != "evm" {
			return false
		}
		for _, pre := range bridge.SystemContractKeyPrefixes {
			if bytes.HasPrefix(key, pre) {
				return true
			}
		}
		return false
	})
}

func (c *ctl) onRecv(p *bridge.Pkt, o bridge.TxOutcome) {
	m := c.m
	w := m.W
	back, other, routed := w.Route(p.SrcIdx, p.DstIdx, p.Token)
	if len(p.AckBz) == 0 {
		m.Failf("accepted receive of %s wrote no acknowledgement", p.T)
	}
	if p.Ack.Code != 0 {
		c.failKinds[fmt.Sprintf("code%d/%s/%s/back=%v", p.Ack.Code, p.Call, w.TokName(p.SrcIdx, p.Token), back)] = true
		// error acknowledgement: the source will refund, so no token or contract effect may be left here
		if d := kit.Diff(effects(o.Before), effects(o.After)); len(d) != 0 {
			m.Failf("receive of %s produced an error acknowledgement (code %d, %q) but left effects on the destination:\n%s", p.T, p.Ack.Code, p.Ack.Message, kit.DiffString(d, 10))
		}
		return
	}
	if !routed {
		m.Failf("receive of %s (token %s not bound on the destination) was acknowledged as success", p.T, w.TokName(p.SrcIdx, p.Token))
	}
	_ = back
	_ = other
}

func (c *ctl) check() {
	c.m.R.Step()
	c.m.CheckLedger()
}

func run(t *rapid.T, r *rec.Recorder) {
	m := bridge.NewMachine(t, r)
	c := &ctl{m: m, failKinds: map[string]bool{}}
	w := m.W
	m.OnRecv = c.onRecv

	// balances of receiver around a receive, and of sender / relayer around an ack, are checked by
	// wrapping the base actions.
	m.UseCallback = true // incl. the callback contract that reverts until it is funded
	acts := m.BaseActions()
	acts["fundMoody"] = m.Wrap(m.ActFundMoody)
	acts["toggleRoundTrip"] = m.Wrap(m.ActToggleRoundTrip)
	acts["upgradeLower"] = m.Wrap(m.ActUpgradeLower)
	acts["moveRelayerAddress"] = m.Wrap(m.ActMoveRelayerAddress)
	recvFresh := func(t *rapid.T) {
		m.T = t
		type snap struct{ u0, u1 *big.Int }
		before := map[int]snap{}
		pend := m.Pending()
		toks := map[int]bool{}
		for _, p := range pend {
			toks[p.ID] = true
		}
		// snapshot receiver balances for every pending packet's credited token
		bal := func(p *bridge.Pkt) *big.Int {
			_, other, ok := w.Route(p.SrcIdx, p.DstIdx, p.Token)
			if !ok {
				return big.NewInt(0)
			}
			return w.Balance(p.DstIdx, other, p.RecvAdr)
		}
		for _, p := range pend {
			before[p.ID] = snap{u0: bal(p)}
		}
		nrecv := len(m.ReceivedPkts())
		m.ActRecvFresh(t)
		rs := m.ReceivedPkts()
		if len(rs) != nrecv+1 {
			return
		}
		var p *bridge.Pkt
		for _, q := range rs {
			if _, was := before[q.ID]; was {
				p = q
			}
		}
		if p == nil {
			return
		}
		delta := new(big.Int).Sub(bal(p), before[p.ID].u0)
		want := big.NewInt(0)
		if p.Ack.Code == 0 {
			want = bridge.ExpectedCredit(p)
			c.delivered++
		}
		if delta.Cmp(want) != 0 {
			m.Failf("receive of %s (ack code %d): receiver balance changed by %s, expected %s", p.T, p.Ack.Code, delta, want)
		}
	}
	ack := func(t *rapid.T) {
		m.T = t
		cands := m.AckCandidates()
		sb := map[int]*big.Int{}
		rb := map[int][2]*big.Int{}
		for _, p := range cands {
			sb[p.ID] = w.SenderSide(p)
			rb[p.ID] = [2]*big.Int{w.Balance(p.SrcIdx, p.FeeTok, w.Rels[0].Addr), w.Balance(p.SrcIdx, p.FeeTok, w.Rels[1].Addr)}
		}
		m.ActAck(t)
		for _, p := range cands {
			if !p.Acked || p.AckedAt != w.Chains[p.SrcIdx].Header.Height {
				continue
			}
			if _, ok := sb[p.ID]; !ok {
				continue
			}
			// was it this step? (only one ack per step)
			delta := new(big.Int).Sub(w.SenderSide(p), sb[p.ID])
			status := w.Chains[p.SrcIdx].AckStatus(p.P.DstChain, p.P.Sequence)
			if delta.Sign() == 0 && status == 0 {
				continue // not the packet acked in this step
			}
			if p.Ack.Code == 0 {
				if status != 1 {
					m.Failf("success ack of %s processed but ack status = %d", p.T, status)
				}
			} else {
				if status != 2 {
					m.Failf("error ack of %s processed but ack status = %d", p.T, status)
				}
			}
		}
		// exact refund accounting for the packet acked in this step (identified through the history)
		last := m.Hist[len(m.Hist)-1]
		if last.Op != "ack" {
			return
		}
		for _, p := range cands {
			if last.Arg != fmt.Sprintf("%s code=%d", p.T, p.Ack.Code) || !p.Acked {
				continue
			}
			delta := new(big.Int).Sub(w.SenderSide(p), sb[p.ID])
			want := big.NewInt(0)
			if p.Ack.Code != 0 {
				want = p.Amount
				c.refunded++
				c.nontrivial = true
			}
			if delta.Cmp(want) != 0 {
				m.Failf("ack (code %d) of %s processed: sender balance changed by %s, expected %s (refund exactly once on error, none on success)", p.Ack.Code, p.T, delta, want)
			}
			r0 := new(big.Int).Sub(w.Balance(p.SrcIdx, p.FeeTok, w.Rels[0].Addr), rb[p.ID][0])
			r1 := new(big.Int).Sub(w.Balance(p.SrcIdx, p.FeeTok, w.Rels[1].Addr), rb[p.ID][1])
			if new(big.Int).Add(r0, r1).Cmp(p.Fee) != 0 {
				m.Failf("ack of %s processed: relayers received %s+%s, fee was %s", p.T, r0, r1, p.Fee)
			}
		}
	}
	acts["recvFresh"] = recvFresh
	acts["recvFresh2"] = recvFresh
	acts["ack"] = ack
	acts["ack2"] = ack
	acts["ackAgain"] = m.Wrap(m.ActAckAgain)
	acts["forgedSendEvent"] = m.Wrap(m.ActForgedSendEvent)
	acts["limit"] = m.Wrap(m.ActLimit)
	acts[""] = func(t *rapid.T) { m.T = t; c.check() }
	t.Repeat(acts)

	var fk []string
	for k := range c.failKinds {
		fk = append(fk, k)
	}
	sort.Strings(fk)
	r.Case(fmt.Sprintf("n=%d fail=%v refunded=%d delivered=%d", len(w.Chains), fk, min(c.refunded, 3), min(c.delivered, 3)), c.nontrivial,
		func() interface{} { return m.Hist })
	if c.refunded > 0 {
		r.Label("history_with_refund")
	}
}

func TestC03_Conservation(t *testing.T) {
	r := rec.For("TestC03_Conservation", rule)
	rapid.Check(t, func(t *rapid.T) { run(t, r) })
}
